#!/usr/bin/env python3
"""Runs the repository's baseline suite with the guard OFF and compares with /root/.vp/BASELINE.json stable_pass."""
import json, subprocess, sys, os
env = dict(os.environ, GOFLAGS="-mod=mod", GOPROXY="off", GOSUMDB="off", GOTOOLCHAIN="local")
p = subprocess.run("go test -mod=mod -json -vet=off -count=1 -timeout 25m ./...", shell=True, cwd="/repo", env=env,
                   stdout=subprocess.PIPE, stderr=subprocess.DEVNULL, text=True)
res = {}
for l in p.stdout.split("\n"):
    try: e = json.loads(l)
    except Exception: continue
    if e.get("Test") and e.get("Action") in ("pass", "fail", "skip"):
        res[e["Package"] + "::" + e["Test"]] = e["Action"]
base = json.load(open("/root/.vp/BASELINE.json"))["stable_pass"]
bad = [t for t in base if res.get(t) != "pass"]
print("stable_pass:", len(base), "now passing:", len(base) - len(bad))
for t in bad: print("NOT PASSING:", t, res.get(t))
