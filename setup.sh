#!/bin/sh
# Offline setup: build the Lean project (model, proofs, driver) and warm the Go build cache. No network.
set -e
cd "$(dirname "$0")"
export GOFLAGS=-mod=mod GOPROXY=off GOSUMDB=off GOTOOLCHAIN=local CGO_ENABLED=0
mkdir -p .work lean/TongoGen harness/bin evidence
cp /repo/go.sum harness/go.sum
# translators must have run before the proofs that import TongoGen can build: run every check's generators once
python3 - <<'PY'
import glob, os, subprocess, importlib.util, sys
sys.path.insert(0, os.getcwd())
import check
for p in sorted(glob.glob("props/C*.py")):
    P = check.load_prop(os.path.basename(p)[:-3])
    vh, ext, err = check.build_harness(P)
    if err: print("harness build failed for", P["id"], err[-800:])
    if ext:
        mods, gerr = check.regenerate(P, ext)
        if gerr: print(gerr)
PY
python3 tools_gen_driver.py
(cd lean && lake build TongoModel TongoGen TongoProofs Driver tongo_model)
