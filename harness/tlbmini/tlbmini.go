// Package tlbmini: a small TL-B subset (the constructs abi/schemas uses: fixed-width integers, bitsN, ## n, Bool, Coins,
// Maybe, Either, ^, $/# tagged unions, references to declared types, ^Cell) with a schema generator, a parser for that
// subset, random values, a reference encoder written directly from the TL-B rules (bits and references into a boc
// cell), and the reflection binding to the structs emitted by tlb/parser. Used by the TL-B half of property C09, which
// is checked by direct oracles only (no Lean model).
package tlbmini

import (
	"fmt"
	"math/rand"
	"reflect"
	"strconv"
	"strings"

	"github.com/tonkeeper/tongo/boc"
	"github.com/tonkeeper/tongo/utils"
)

type Kind int

const (
	KUint     Kind = iota // uintN
	KInt                  // intN
	KNat                  // (## N)
	KBits                 // bitsN
	KBool                 // Bool
	KCoins                // Coins = VarUInteger 16
	KCell                 // Cell (only under ^)
	KNamed                // declared type
	KRef                  // ^X
	KMaybe                // (Maybe X)
	KEither               // (Either X Y)
	KVarUint              // (VarUInteger N)        -- the kinds below are exercised through the model-backed ops only
	KMsgAddr              // MsgAddress
	KHashmapE             // (HashmapE N X)
)

type Ty struct {
	Kind Kind
	N    int
	Name string
	A, B *Ty
}

type Field struct {
	Name string
	Ty   *Ty
}

type Decl struct {
	Ctor   string
	Tag    string // "" | "$0101" | "#ab"
	Fields []Field
	Type   string
}

type Schema struct{ Decls []*Decl }

func (t *Ty) String() string {
	switch t.Kind {
	case KUint:
		return fmt.Sprintf("uint%d", t.N)
	case KInt:
		return fmt.Sprintf("int%d", t.N)
	case KNat:
		if t.Name == "#" {
			return "#"
		}
		return fmt.Sprintf("(## %d)", t.N)
	case KBits:
		return fmt.Sprintf("bits%d", t.N)
	case KBool:
		return "Bool"
	case KCoins:
		return "Coins"
	case KCell:
		return "Cell"
	case KNamed:
		return t.Name
	case KRef:
		return "^" + t.A.String()
	case KMaybe:
		return "(Maybe " + t.A.String() + ")"
	case KEither:
		return "(Either " + t.A.String() + " " + t.B.String() + ")"
	case KVarUint:
		return fmt.Sprintf("(VarUInteger %d)", t.N)
	case KMsgAddr:
		return "MsgAddress"
	case KHashmapE:
		return fmt.Sprintf("(HashmapE %d %s)", t.N, t.A.String())
	}
	panic("kind")
}

// Extended reports whether the type expression uses a kind the harness' own reference encoder does not implement.
func (t *Ty) Extended() bool {
	if t == nil {
		return false
	}
	return t.Kind >= KVarUint || t.A.Extended() || t.B.Extended()
}

// ExtendedType: some field of some constructor of the type (or of a type it refers to) is Extended.
func (s *Schema) ExtendedType(name string, seen map[string]bool) bool {
	if seen[name] {
		return false
	}
	seen[name] = true
	var walk func(t *Ty) bool
	walk = func(t *Ty) bool {
		if t == nil {
			return false
		}
		if t.Kind >= KVarUint {
			return true
		}
		if t.Kind == KRef && t.A != nil && t.A.Kind == KCell {
			return false // ^Cell: implemented
		}
		if t.Kind == KCell {
			return true // inline Cell (the rest of the cell): the decoder copies without advancing
		}
		if t.Kind == KNamed && s.ExtendedType(t.Name, seen) {
			return true
		}
		return walk(t.A) || walk(t.B)
	}
	for _, d := range s.CtorsOf(name) {
		for _, f := range d.Fields {
			if walk(f.Ty) {
				return true
			}
		}
	}
	return false
}

func (d *Decl) String() string {
	s := d.Ctor + d.Tag
	for _, f := range d.Fields {
		s += " " + f.Name + ":" + f.Ty.String()
	}
	return s + " = " + d.Type + ";"
}

func (s *Schema) String() string {
	var sb strings.Builder
	for _, d := range s.Decls {
		sb.WriteString(d.String() + "\n")
	}
	return sb.String()
}

func (s *Schema) CtorsOf(t string) []*Decl {
	var r []*Decl
	for _, d := range s.Decls {
		if d.Type == t {
			r = append(r, d)
		}
	}
	return r
}

// Closed: every named type is declared in the schema itself and no field is anonymous (`_`).
func (s *Schema) Closed() bool {
	decl := map[string]bool{}
	for _, d := range s.Decls {
		decl[d.Type] = true
	}
	var ok func(t *Ty) bool
	ok = func(t *Ty) bool {
		if t == nil {
			return true
		}
		if t.Kind == KNamed && !decl[t.Name] {
			return false
		}
		return ok(t.A) && ok(t.B)
	}
	for _, d := range s.Decls {
		for _, f := range d.Fields {
			if f.Name == "_" || !ok(f.Ty) {
				return false
			}
		}
	}
	return true
}

func (s *Schema) TypeNames() []string {
	var r []string
	seen := map[string]bool{}
	for _, d := range s.Decls {
		if !seen[d.Type] {
			seen[d.Type] = true
			r = append(r, d.Type)
		}
	}
	return r
}

// ------------------------------------------------------------------------------------------------------ parser

type tparser struct {
	t []string
	p int
}

func tokenize(src string) []string {
	var out []string
	i := 0
	for i < len(src) {
		c := src[i]
		switch {
		case c == '/' && i+1 < len(src) && src[i+1] == '/':
			for i < len(src) && src[i] != '\n' {
				i++
			}
		case c == ' ' || c == '\n' || c == '\t' || c == '\r':
			i++
		case strings.IndexByte("()^:=;", c) >= 0:
			out = append(out, string(c))
			i++
		default:
			j := i
			for j < len(src) && strings.IndexByte(" \n\t\r()^:=;", src[j]) < 0 {
				j++
			}
			out = append(out, src[i:j])
			i = j
		}
	}
	return out
}

func (p *tparser) next() string {
	if p.p >= len(p.t) {
		return ""
	}
	p.p++
	return p.t[p.p-1]
}

func (p *tparser) ty() (*Ty, error) {
	w := p.next()
	switch {
	case w == "^":
		a, err := p.ty()
		return &Ty{Kind: KRef, A: a}, err
	case w == "(":
		h := p.next()
		var t *Ty
		switch h {
		case "##":
			n, err := strconv.Atoi(p.next())
			if err != nil {
				return nil, err
			}
			t = &Ty{Kind: KNat, N: n}
		case "Maybe":
			a, err := p.ty()
			if err != nil {
				return nil, err
			}
			t = &Ty{Kind: KMaybe, A: a}
		case "Either":
			a, err := p.ty()
			if err != nil {
				return nil, err
			}
			b, err := p.ty()
			if err != nil {
				return nil, err
			}
			t = &Ty{Kind: KEither, A: a, B: b}
		case "VarUInteger":
			n, err := strconv.Atoi(p.next())
			if err != nil {
				return nil, err
			}
			t = &Ty{Kind: KVarUint, N: n}
		case "HashmapE":
			n, err := strconv.Atoi(p.next())
			if err != nil {
				return nil, err
			}
			a, err := p.ty()
			if err != nil {
				return nil, err
			}
			t = &Ty{Kind: KHashmapE, N: n, A: a}
		default:
			return nil, fmt.Errorf("unsupported type application %q", h)
		}
		if p.next() != ")" {
			return nil, fmt.Errorf("missing )")
		}
		return t, nil
	case w == "Bool":
		return &Ty{Kind: KBool}, nil
	case w == "Coins" || w == "Grams":
		return &Ty{Kind: KCoins}, nil
	case w == "MsgAddress" || w == "MsgAddressInt" || w == "MsgAddressExt":
		return &Ty{Kind: KMsgAddr}, nil
	case w == "#":
		return &Ty{Kind: KNat, N: 32, Name: "#"}, nil
	case w == "Cell":
		return &Ty{Kind: KCell}, nil
	}
	for _, pf := range []struct {
		p string
		k Kind
	}{{"uint", KUint}, {"int", KInt}, {"bits", KBits}} {
		if strings.HasPrefix(w, pf.p) {
			if n, err := strconv.Atoi(w[len(pf.p):]); err == nil {
				return &Ty{Kind: pf.k, N: n}, nil
			}
		}
	}
	if w == "" || !(w[0] >= 'A' && w[0] <= 'Z') {
		return nil, fmt.Errorf("bad type %q", w)
	}
	return &Ty{Kind: KNamed, Name: w}, nil
}

func Parse(src string) (*Schema, error) {
	p := &tparser{t: tokenize(src)}
	s := &Schema{}
	for p.p < len(p.t) {
		head := p.next()
		d := &Decl{Ctor: head}
		if i := strings.IndexAny(head, "$#"); i >= 0 {
			d.Ctor, d.Tag = head[:i], head[i:]
			if d.Tag == "$_" || d.Tag == "#_" { // explicitly no tag
				d.Tag = ""
			}
		}
		for {
			w := p.next()
			if w == "=" {
				break
			}
			if p.next() != ":" {
				return nil, fmt.Errorf("field expected in %s", d.Ctor)
			}
			t, err := p.ty()
			if err != nil {
				return nil, err
			}
			d.Fields = append(d.Fields, Field{Name: w, Ty: t})
		}
		d.Type = p.next()
		if p.next() != ";" {
			return nil, fmt.Errorf("; expected after %s", d.Ctor)
		}
		s.Decls = append(s.Decls, d)
	}
	return s, nil
}

// --------------------------------------------------------------------------------------------------- generator

var fieldNames = []string{"amount", "query_id", "x", "dest_addr", "flag2", "value", "n", "owner", "seq_no", "body"}

func GenSchema(r *rand.Rand, maxDecls int, count func(string)) *Schema {
	s := &Schema{}
	var declared []string
	n := 1 + r.Intn(maxDecls)
	id := 0
	var ty func(depth int) *Ty
	simple := func() *Ty {
		switch r.Intn(9) {
		case 0:
			return &Ty{Kind: KUint, N: []int{8, 16, 32, 64}[r.Intn(4)]}
		case 1:
			return &Ty{Kind: KUint, N: 1 + r.Intn(64)}
		case 2:
			return &Ty{Kind: KInt, N: 1 + r.Intn(64)}
		case 3:
			return &Ty{Kind: KNat, N: 1 + r.Intn(64)}
		case 4:
			return &Ty{Kind: KBits, N: []int{80, 96, 128, 256}[r.Intn(4)]}
		case 5:
			return &Ty{Kind: KBool}
		case 6:
			switch r.Intn(6) {
			case 0:
				count("tlb_varuint")
				return &Ty{Kind: KVarUint, N: []int{1, 2, 3, 4, 7, 16, 32}[r.Intn(7)]}
			case 1:
				count("tlb_msgaddress")
				return &Ty{Kind: KMsgAddr}
			case 2:
				count("tlb_hashmape")
				v := &Ty{Kind: KUint, N: 1 + r.Intn(64)}
				if len(declared) > 0 && r.Intn(2) == 0 {
					v = &Ty{Kind: KNamed, Name: declared[r.Intn(len(declared))]}
					if r.Intn(2) == 0 {
						v = &Ty{Kind: KRef, A: v}
					}
				}
				return &Ty{Kind: KHashmapE, N: []int{8, 32, 63, 64, 64, 256}[r.Intn(6)], A: v}
			case 3:
				count("tlb_hash")
				return &Ty{Kind: KNat, N: 32, Name: "#"}
			}
			return &Ty{Kind: KCoins}
		default:
			if len(declared) > 0 {
				return &Ty{Kind: KNamed, Name: declared[r.Intn(len(declared))]}
			}
			return &Ty{Kind: KUint, N: 1 + r.Intn(64)}
		}
	}
	refd := func() *Ty {
		if len(declared) > 0 && r.Intn(2) == 0 {
			return &Ty{Kind: KRef, A: &Ty{Kind: KNamed, Name: declared[r.Intn(len(declared))]}}
		}
		if r.Intn(5) == 0 {
			return &Ty{Kind: KRef, A: &Ty{Kind: KBits, N: []int{80, 96, 128, 256}[r.Intn(4)]}}
		}
		return &Ty{Kind: KRef, A: &Ty{Kind: KCell}}
	}
	ty = func(depth int) *Ty {
		switch r.Intn(10) {
		case 0, 1:
			count("tlb_ref")
			return refd()
		case 2:
			count("tlb_maybe")
			return &Ty{Kind: KMaybe, A: simple()}
		case 3:
			count("tlb_maybe_ref")
			return &Ty{Kind: KMaybe, A: refd()}
		case 4:
			count("tlb_either")
			a, b := simple(), simple()
			switch r.Intn(4) {
			case 0:
				b = refd()
			case 1:
				if a.Kind == KNamed {
					b = &Ty{Kind: KRef, A: a} // Either X ^X
					count("tlb_either_ref")
				}
			case 2:
				a, b = refd(), refd()
			}
			return &Ty{Kind: KEither, A: a, B: b}
		}
		return simple()
	}
	for len(s.Decls) < n {
		id++
		k := 1
		if r.Intn(3) == 0 {
			k = 2 + r.Intn(3)
		}
		tname := fmt.Sprintf("%s%d", []string{"Msg", "JettonPayload", "Item", "T"}[r.Intn(4)], id)
		binTags := r.Intn(2) == 0
		for c := 0; c < k; c++ {
			d := &Decl{Ctor: fmt.Sprintf("%s_c%d", strings.ToLower(tname), c), Type: tname}
			if k > 1 {
				// prefix-free binary tags of k constructors, or hex tags of equal length
				if binTags {
					d.Tag = "$" + strings.Repeat("1", c)
					if c < k-1 {
						d.Tag += "0"
					}
					count("tlb_bin_tags")
				} else {
					d.Tag = fmt.Sprintf("#%08x", 0x10000000+uint32(id)<<8+uint32(c))
					count("tlb_hex_tags")
				}
			} else {
				switch r.Intn(4) {
				case 0:
					d.Ctor = "_"
				case 1:
					d.Tag = fmt.Sprintf("#%08x", r.Uint32())
				case 2:
					d.Tag = "$" + []string{"0", "1", "10", "0110", "11111111"}[r.Intn(5)]
				case 3:
					d.Tag = fmt.Sprintf("#%02x", r.Intn(256))
				}
			}
			used := map[string]bool{}
			bits := 0
			for f := r.Intn(6); f > 0; f-- {
				name := fieldNames[r.Intn(len(fieldNames))]
				if used[name] {
					continue
				}
				used[name] = true
				d.Fields = append(d.Fields, Field{Name: name, Ty: ty(0)})
				bits++
			}
			s.Decls = append(s.Decls, d)
		}
		declared = append(declared, tname)
		count("tlb_types")
	}
	return s
}

// ------------------------------------------------------------------------------------------------------ values

// Val: I = integer (two's complement in U for signed), B = raw bits (bitsN / cell payload), P = present/right flag.
type Val struct {
	U     uint64
	B     []byte
	P     bool
	Ctor  string
	Items []*Val
}

func (v *Val) String() string {
	var sb strings.Builder
	var w func(v *Val)
	w = func(v *Val) {
		fmt.Fprintf(&sb, "%d:%x:%v:%s[", v.U, v.B, v.P, v.Ctor)
		for _, it := range v.Items {
			w(it)
		}
		sb.WriteByte(']')
	}
	w(v)
	return sb.String()
}

func mask(n int) uint64 {
	if n >= 64 {
		return ^uint64(0)
	}
	return (1 << uint(n)) - 1
}

func (s *Schema) GenVal(r *rand.Rand, t *Ty, depth int) *Val {
	u64 := func() uint64 {
		switch r.Intn(6) {
		case 0:
			return 0
		case 1:
			return ^uint64(0)
		case 2:
			return 1 << uint(r.Intn(64))
		}
		return r.Uint64()
	}
	switch t.Kind {
	case KUint, KNat, KInt:
		return &Val{U: u64() & mask(t.N)}
	case KBits:
		b := make([]byte, t.N/8)
		r.Read(b)
		return &Val{B: b}
	case KBool:
		return &Val{P: r.Intn(2) == 0}
	case KCoins: // below 2^63: tlb.Grams.MarshalTLB goes through int64 (a defect of the library, not of the compiler)
		return &Val{U: u64() >> uint(1+r.Intn(63))}
	case KCell:
		b := make([]byte, r.Intn(20))
		r.Read(b)
		return &Val{B: b}
	case KNamed:
		cs := s.CtorsOf(t.Name)
		d := cs[r.Intn(len(cs))]
		v := &Val{Ctor: d.Ctor}
		for _, f := range d.Fields {
			v.Items = append(v.Items, s.GenVal(r, f.Ty, depth+1))
		}
		return v
	case KRef:
		return &Val{Items: []*Val{s.GenVal(r, t.A, depth+1)}}
	case KMaybe:
		if r.Intn(2) == 0 {
			return &Val{}
		}
		return &Val{P: true, Items: []*Val{s.GenVal(r, t.A, depth+1)}}
	case KEither:
		if r.Intn(2) == 0 {
			return &Val{Items: []*Val{s.GenVal(r, t.A, depth+1)}}
		}
		return &Val{P: true, Items: []*Val{s.GenVal(r, t.B, depth+1)}}
	}
	panic("kind")
}

// ------------------------------------------------------------------------------------------- reference encoder

func writeTag(c *boc.Cell, tag string) error {
	switch {
	case tag == "":
		return nil
	case tag[0] == '$':
		for _, b := range tag[1:] {
			if err := c.WriteBit(b == '1'); err != nil {
				return err
			}
		}
	case tag[0] == '#':
		for _, h := range tag[1:] {
			n, err := strconv.ParseUint(string(h), 16, 8)
			if err != nil {
				return err
			}
			if err := c.WriteUint(n, 4); err != nil {
				return err
			}
		}
	}
	return nil
}

// Encode writes value v of type t into cell c by the TL-B rules.
func (s *Schema) Encode(c *boc.Cell, t *Ty, v *Val) error {
	switch t.Kind {
	case KUint, KNat, KInt:
		return c.WriteUint(v.U, t.N)
	case KBits:
		return c.WriteBytes(v.B)
	case KBool:
		return c.WriteBit(v.P)
	case KCoins: // VarUInteger 16: 4-bit byte count, then the bytes
		n := 0
		for x := v.U; x > 0; x >>= 8 {
			n++
		}
		if err := c.WriteUint(uint64(n), 4); err != nil {
			return err
		}
		return c.WriteUint(v.U, n*8)
	case KCell:
		return c.WriteBytes(v.B)
	case KNamed:
		for _, d := range s.CtorsOf(t.Name) {
			if d.Ctor == v.Ctor {
				if err := writeTag(c, d.Tag); err != nil {
					return err
				}
				for i, f := range d.Fields {
					if err := s.Encode(c, f.Ty, v.Items[i]); err != nil {
						return err
					}
				}
				return nil
			}
		}
		return fmt.Errorf("no constructor %s", v.Ctor)
	case KRef:
		r, err := c.NewRef()
		if err != nil {
			return err
		}
		return s.Encode(r, t.A, v.Items[0])
	case KMaybe:
		if err := c.WriteBit(v.P); err != nil || !v.P {
			return err
		}
		return s.Encode(c, t.A, v.Items[0])
	case KEither:
		if err := c.WriteBit(v.P); err != nil {
			return err
		}
		if v.P {
			return s.Encode(c, t.B, v.Items[0])
		}
		return s.Encode(c, t.A, v.Items[0])
	}
	return fmt.Errorf("kind")
}

// ----------------------------------------------------------------------------------------------------- binding

func goName(s string) string { return utils.ToCamelCase(s) }

func signExtend(u uint64, n int) int64 {
	if n < 64 && u&(1<<uint(n-1)) != 0 {
		u |= ^mask(n)
	}
	return int64(u)
}

func (s *Schema) setFields(d *Decl, v *Val, rv reflect.Value) error {
	for i, f := range d.Fields {
		fv := rv.FieldByName(goName(f.Name))
		if !fv.IsValid() {
			return fmt.Errorf("no-field %s.%s", d.Ctor, f.Name)
		}
		if err := s.ToGo(f.Ty, v.Items[i], fv); err != nil {
			return err
		}
	}
	return nil
}

// ToGo stores v into the generated Go value rv.
func (s *Schema) ToGo(t *Ty, v *Val, rv reflect.Value) error {
	bad := func() error { return fmt.Errorf("cannot store a %s into Go %s", t.String(), rv.Type()) }
	switch t.Kind {
	case KUint, KNat, KCoins:
		if rv.Kind() < reflect.Uint || rv.Kind() > reflect.Uint64 {
			return bad()
		}
		rv.SetUint(v.U)
	case KInt:
		if rv.Kind() < reflect.Int || rv.Kind() > reflect.Int64 {
			return bad()
		}
		rv.SetInt(signExtend(v.U, t.N))
	case KBits:
		if rv.Kind() != reflect.Array || rv.Len() != len(v.B) {
			return bad()
		}
		reflect.Copy(rv, reflect.ValueOf(v.B))
	case KBool:
		if rv.Kind() != reflect.Bool {
			return bad()
		}
		rv.SetBool(v.P)
	case KCell:
		c := boc.NewCell()
		if err := c.WriteBytes(v.B); err != nil {
			return err
		}
		if !reflect.TypeOf(*c).ConvertibleTo(rv.Type()) {
			return bad()
		}
		rv.Set(reflect.ValueOf(*c).Convert(rv.Type()))
	case KNamed:
		if rv.Kind() != reflect.Struct {
			return bad()
		}
		cs := s.CtorsOf(t.Name)
		for _, d := range cs {
			if d.Ctor != v.Ctor {
				continue
			}
			if len(cs) == 1 {
				return s.setFields(d, v, rv)
			}
			st := rv.FieldByName("SumType")
			sub := rv.FieldByName(goName(d.Ctor))
			if !st.IsValid() || !sub.IsValid() {
				return bad()
			}
			st.SetString(goName(d.Ctor))
			return s.setFields(d, v, sub)
		}
		return bad()
	case KRef:
		if val := rv; val.Kind() == reflect.Struct && val.NumField() == 1 && val.Type().Field(0).Name == "Value" &&
			strings.HasPrefix(val.Type().Name(), "Ref[") { // tlb.Ref[T]
			return s.ToGo(t.A, v.Items[0], val.Field(0))
		}
		return s.ToGo(t.A, v.Items[0], rv)
	case KMaybe:
		if !v.P {
			return nil
		}
		if rv.Kind() != reflect.Pointer {
			return bad()
		}
		rv.Set(reflect.New(rv.Type().Elem()))
		inner := t.A
		return s.ToGo(inner, v.Items[0], rv.Elem())
	case KEither:
		if rv.Kind() != reflect.Struct {
			return bad()
		}
		ir := rv.FieldByName("IsRight")
		if !ir.IsValid() {
			return bad()
		}
		ir.SetBool(v.P)
		if val := rv.FieldByName("Value"); val.IsValid() { // EitherRef
			if v.P {
				return s.ToGo(t.B, v.Items[0], val)
			}
			return s.ToGo(t.A, v.Items[0], val)
		}
		if v.P {
			return s.ToGo(t.B, v.Items[0], rv.FieldByName("Right"))
		}
		return s.ToGo(t.A, v.Items[0], rv.FieldByName("Left"))
	}
	return nil
}

func (s *Schema) getFields(d *Decl, rv reflect.Value) (*Val, error) {
	v := &Val{Ctor: d.Ctor}
	for _, f := range d.Fields {
		fv := rv.FieldByName(goName(f.Name))
		if !fv.IsValid() {
			return nil, fmt.Errorf("no-field %s.%s", d.Ctor, f.Name)
		}
		it, err := s.FromGo(f.Ty, fv)
		if err != nil {
			return nil, err
		}
		v.Items = append(v.Items, it)
	}
	return v, nil
}

// FromGo reads a value back out of the generated Go value.
func (s *Schema) FromGo(t *Ty, rv reflect.Value) (*Val, error) {
	bad := func() error { return fmt.Errorf("Go %s does not carry a %s", rv.Type(), t.String()) }
	switch t.Kind {
	case KUint, KNat, KCoins:
		if rv.Kind() < reflect.Uint || rv.Kind() > reflect.Uint64 {
			return nil, bad()
		}
		return &Val{U: rv.Uint()}, nil
	case KInt:
		if rv.Kind() < reflect.Int || rv.Kind() > reflect.Int64 {
			return nil, bad()
		}
		return &Val{U: uint64(rv.Int()) & mask(t.N)}, nil
	case KBits:
		if rv.Kind() != reflect.Array {
			return nil, bad()
		}
		b := make([]byte, rv.Len())
		reflect.Copy(reflect.ValueOf(b), rv)
		return &Val{B: b}, nil
	case KBool:
		return &Val{P: rv.Bool()}, nil
	case KCell:
		ct := reflect.TypeOf(boc.Cell{})
		if !rv.Type().ConvertibleTo(ct) {
			return nil, bad()
		}
		c := rv.Convert(ct).Interface().(boc.Cell)
		c.ResetCounters()
		b, err := c.ReadBytes(c.BitsAvailableForRead() / 8)
		if err != nil {
			return nil, err
		}
		return &Val{B: b}, nil
	case KNamed:
		cs := s.CtorsOf(t.Name)
		if len(cs) == 1 {
			return s.getFields(cs[0], rv)
		}
		st := rv.FieldByName("SumType")
		if !st.IsValid() {
			return nil, bad()
		}
		for _, d := range cs {
			if goName(d.Ctor) == st.String() {
				return s.getFields(d, rv.FieldByName(goName(d.Ctor)))
			}
		}
		return nil, fmt.Errorf("SumType %q names no constructor of %s", st.String(), t.Name)
	case KRef:
		if rv.Kind() == reflect.Struct && rv.NumField() == 1 && rv.Type().Field(0).Name == "Value" &&
			strings.HasPrefix(rv.Type().Name(), "Ref[") { // tlb.Ref[T]
			rv = rv.Field(0)
		}
		it, err := s.FromGo(t.A, rv)
		return &Val{Items: []*Val{it}}, err
	case KMaybe:
		if rv.Kind() != reflect.Pointer {
			return nil, bad()
		}
		if rv.IsNil() {
			return &Val{}, nil
		}
		it, err := s.FromGo(t.A, rv.Elem())
		return &Val{P: true, Items: []*Val{it}}, err
	case KEither:
		ir := rv.FieldByName("IsRight")
		if !ir.IsValid() {
			return nil, bad()
		}
		side, src := t.A, "Left"
		if ir.Bool() {
			side, src = t.B, "Right"
		}
		if val := rv.FieldByName("Value"); val.IsValid() {
			src = "Value"
		}
		it, err := s.FromGo(side, rv.FieldByName(src))
		return &Val{P: ir.Bool(), Items: []*Val{it}}, err
	}
	return nil, bad()
}

// --------------------------------------------------------------------------------------------- the value oracle

// CheckValues (direct oracle on the implementation alone): for `count` random values of declared type `typ` drawn from
// `seed`, the cell produced by tlb.Marshal on the generated struct equals the cell the TL-B rules prescribe for the
// declaration, and tlb.Unmarshal of that cell gives the value back. marshal/unmarshal are passed in by the generated
// program (tlb.Marshal / tlb.Unmarshal).
func CheckValues(schemaText string, types map[string]reflect.Type, typ string, seed int64, count int,
	marshal func(c *boc.Cell, o any) error, unmarshal func(c *boc.Cell, o any) error) string {
	s, err := Parse(schemaText)
	if err != nil {
		return "bad-op"
	}
	rt, ok := types[typ]
	if !ok {
		return "FAIL nobinding " + typ
	}
	if s.ExtendedType(typ, map[string]bool{}) {
		return "ok" // kinds outside this reference encoder: covered by the model-backed ops tlbs.enc / tlbs.dec
	}
	r := rand.New(rand.NewSource(seed))
	t := &Ty{Kind: KNamed, Name: typ}
	for i := 0; i < count; i++ {
		v := s.GenVal(r, t, 0)
		want := boc.NewCell()
		refErr := s.Encode(want, t, v)
		rv := reflect.New(rt)
		if err := s.ToGo(t, v, rv.Elem()); err != nil {
			return fmt.Sprintf("FAIL nobinding value %d: %v", i, err)
		}
		got := boc.NewCell()
		goErr := marshal(got, rv.Interface())
		if refErr != nil { // does not fit a cell (1023 bits / 4 references): the implementation must refuse too
			if goErr == nil {
				return fmt.Sprintf("FAIL overflow-accepted value %d: %s", i, v.String())
			}
			continue
		}
		if goErr != nil {
			return fmt.Sprintf("FAIL marshal-error value %d: %v (%s)", i, goErr, v.String())
		}
		h1, e1 := want.HashString()
		h2, e2 := got.HashString()
		if e1 != nil || e2 != nil || h1 != h2 {
			b1, _ := want.ToBocString()
			b2, _ := got.ToBocString()
			return fmt.Sprintf("FAIL layout value %d of %s: declaration prescribes %s, generated struct gives %s (%s)", i, typ, b1, b2, v.String())
		}
		back := reflect.New(rt)
		got.ResetCounters()
		if err := unmarshal(got, back.Interface()); err != nil {
			return fmt.Sprintf("FAIL unmarshal-error value %d: %v (%s)", i, err, v.String())
		}
		v2, err := s.FromGo(t, back.Elem())
		if err != nil {
			return fmt.Sprintf("FAIL roundtrip value %d: %v (%s)", i, err, v.String())
		}
		if v2.String() != v.String() {
			return fmt.Sprintf("FAIL roundtrip value %d: %s became %s", i, v.String(), v2.String())
		}
		if got.BitsAvailableForRead() != 0 || got.RefsAvailableForRead() != 0 {
			return fmt.Sprintf("FAIL leftover value %d: %d bits %d refs unread", i, got.BitsAvailableForRead(), got.RefsAvailableForRead())
		}
	}
	return "ok"
}
