package tlbmini

import (
	"fmt"
	"math/rand"
	"reflect"
	"regexp"
	"strconv"
	"strings"

	"github.com/tonkeeper/tongo/boc"
	"verifharness/h"
	"verifharness/tlbx"
)

// Serve executes one operation line of the TL-B half of C09 inside the program that links the generated structs.
//
//	tlbs.desc <schema> <Type>          reflection descriptor (X1 style) of the generated struct + its Go field names
//	tlbs.enc  <schema> <Type> <val>    tlb.Marshal of the value read from its text form → canonical cell table
//	tlbs.dec  <schema> <Type> <table>  tlb.Unmarshal of the cell → value text
//	gen       <schema> <Type> <seed> <n>   n random in-model values `val@cell` (cell: `!` when Marshal refuses)
//	go.tlbc.values …                   direct oracle (CheckValues)
func Serve(f []string, schemaText string, types map[string]reflect.Type,
	marshal func(c *boc.Cell, o any) error, unmarshal func(c *boc.Cell, o any) error) (ans string) {
	defer func() {
		if r := recover(); r != nil {
			ans = "panic"
			if strings.HasPrefix(f[0], "go.") {
				ans = fmt.Sprintf("FAIL panic %v", r)
			}
		}
	}()
	if len(f) < 3 {
		return "bad-op"
	}
	rt, ok := types[f[2]]
	if !ok {
		if strings.HasPrefix(f[0], "go.") {
			return "FAIL nobinding " + f[2]
		}
		return "nobinding " + f[2]
	}
	switch f[0] {
	case "go.tlbc.values":
		seed, _ := strconv.ParseInt(f[3], 10, 64)
		count, _ := strconv.Atoi(f[4])
		return CheckValues(schemaText, types, f[2], seed, count, marshal, unmarshal)
	case "tlbs.desc":
		u := tlbx.NewUniverse()
		d := u.Describe(rt)
		body, ok := u.Named[d.Name]
		if !ok {
			return "nobinding not a named struct"
		}
		return "ok " + NormDesc(body.TextIdx(nil)) + " " + GoFieldNames(body)
	case "tlbs.enc":
		v, err := tlbx.Read(f[3], rt)
		if err != nil {
			return "bad-op"
		}
		c := boc.NewCell()
		if err := marshal(c, v.Interface()); err != nil {
			return "err"
		}
		return "ok " + tlbx.CellText(c)
	case "tlbs.dec":
		c := h.BuildCells(h.ParseTable(f[3]))[0]
		v := reflect.New(rt)
		if err := unmarshal(c, v.Interface()); err != nil {
			return "err"
		}
		return "ok " + tlbx.Print(v.Elem())
	case "gen":
		seed, _ := strconv.ParseInt(f[3], 10, 64)
		n, _ := strconv.Atoi(f[4])
		u := tlbx.NewUniverse()
		d := u.Describe(rt)
		g := tlbx.NewGenCtx(rand.New(rand.NewSource(seed)), u)
		g.ModelOnly = true
		var items []string
		for i := 0; i < n; i++ {
			v := reflect.New(rt).Elem()
			g.Gen(d, v, "p")
			cell := "!"
			c := boc.NewCell()
			if err := marshal(c, v.Interface()); err == nil {
				cell = tlbx.CellText(c)
			}
			items = append(items, tlbx.Print(v)+"@"+cell)
		}
		return "ok " + strings.Join(items, " ")
	}
	return "bad-op"
}

var (
	rePkg  = regexp.MustCompile(`\(:n\|:[a-z][a-z0-9]*\.`)
	reDict = regexp.MustCompile(`\(:de\|:tlb\.HashmapE\[tlb\.(?:Uint|Bits)(\d+),[^)]*\)`)
)

// normDesc: names of generated types without their (scratch) package, dictionaries identified by their key width.
func NormDesc(s string) string {
	s = rePkg.ReplaceAllString(s, "(:n|:")
	return reDict.ReplaceAllString(s, "(:de|:HashmapE$1)")
}

func GoFieldNames(body *tlbx.Desc) string {
	one := func(d *tlbx.Desc) string {
		var ns []string
		for _, f := range d.Fields {
			ns = append(ns, f.Name)
		}
		return "{" + strings.Join(ns, ",") + "}"
	}
	if body.Kind == tlbx.KSum {
		var cs []string
		for _, c := range body.Ctors {
			cs = append(cs, c.Name+one(c.T))
		}
		return strings.Join(cs, ";")
	}
	return one(body)
}
