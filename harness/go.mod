module verifharness

go 1.19

require (
	github.com/snksoft/crc v1.1.0
	github.com/tonkeeper/tongo v0.0.0
)

require golang.org/x/exp v0.0.0-20230116083435-1de6713980de // indirect

replace github.com/tonkeeper/tongo => /repo
