// Package tlbx is the reflection side of the TL-B correspondence (properties C03, C04): it classifies every Go type
// the reflection codec of tongo/tlb can meet (Describe), prints the resulting descriptor as a Lean term
// (translator X1, TongoGen/TlbTypes.lean) and as protocol text (lines sent to the model), and dumps / reads /
// generates values structurally (val.go, gen.go).
package tlbx

import (
	"fmt"
	"math/big"
	"reflect"
	"regexp"
	"sort"
	"strconv"
	"strings"

	"github.com/tonkeeper/tongo/boc"
	"github.com/tonkeeper/tongo/tlb"
)

type Kind int

const (
	KUint Kind = iota
	KInt
	KBool
	KBytes
	KCell
	KPtr
	KStruct
	KSum
	KNamed
	KMagic
	KMaybe
	KEither
	KEitherRef
	KRef
	KPrim
	KVmStack
	KDictE
	KDict
	KChain
	KHighload
	KDictAugE
	KDictAug
	KCustom
	KBinTree
	KEncErr
	KOpaque
	KUnsupported
)

type Tag struct {
	Len int
	Val uint64
}

type Field struct {
	Name   string
	FT     string // p r m mr bad (result of the real parseTag)
	RawTag string
	T      *Desc
	Index  int // index of the Go struct field
}

type Ctor struct {
	Name   string
	Tag    *Tag // nil: ParseTag fails
	RawTag string
	T      *Desc
	Index  int
}

type Desc struct {
	Kind      Kind
	N         int    // width, byte count, prim argument
	Name      string // named id, prim name, opaque id, reason for unsupported
	Marshaler bool   // ptr: the pointer type implements MarshalerTLB
	Elem      *Desc
	Elem2     *Desc
	Elem3     *Desc
	Fields    []Field
	Ctors     []Ctor
	Tag       *Tag // magic
	GoType    reflect.Type
}

// Universe caches the descriptors of named struct types (the type environment of the model).
type Universe struct {
	Named map[string]*Desc // body descriptors (KStruct / KSum)
	Types map[string]reflect.Type
	busy  map[string]bool
	// facts collected on the way (reported by X1)
	FieldTags map[string]bool // every `tlb` tag string met
	SumTags   map[string]bool // every `tlbSumType` tag string met
}

func NewUniverse() *Universe {
	return &Universe{Named: map[string]*Desc{}, Types: map[string]reflect.Type{}, busy: map[string]bool{},
		FieldTags: map[string]bool{}, SumTags: map[string]bool{}}
}

var (
	marshalerT   = reflect.TypeOf((*tlb.MarshalerTLB)(nil)).Elem()
	unmarshalerT = reflect.TypeOf((*tlb.UnmarshalerTLB)(nil)).Elem()
	cellT        = reflect.TypeOf(boc.Cell{})
	bitStringT   = reflect.TypeOf(boc.BitString{})
	bigIntT      = reflect.TypeOf(big.Int{})
	magicT       = reflect.TypeOf(tlb.Magic(0))
	sumTypeT     = reflect.TypeOf(tlb.SumType(""))
	genIntRe     = regexp.MustCompile(`^(Uint|Int|VarUInteger)(\d+)$`)
)

const modPrefix = "github.com/tonkeeper/tongo/"

// TypeName is the identifier of a Go type in descriptors: package path relative to the module + name, generic
// arguments shortened the same way.
func TypeName(t reflect.Type) string {
	if t.Name() == "" {
		return strings.ReplaceAll(t.String(), modPrefix, "")
	}
	p := strings.TrimPrefix(t.PkgPath(), modPrefix)
	if i := strings.LastIndex(p, "/"); i >= 0 {
		p = p[i+1:]
	}
	n := strings.ReplaceAll(t.Name(), modPrefix, "")
	if p == "" {
		return n
	}
	return p + "." + n
}

func baseName(t reflect.Type) string {
	n := TypeName(t)
	if i := strings.Index(n, "["); i >= 0 {
		n = n[:i]
	}
	return n
}

func HasMarshal(t reflect.Type) bool {
	return t.Implements(marshalerT) || reflect.PointerTo(t).Implements(marshalerT)
}
func HasUnmarshal(t reflect.Type) bool {
	return t.Implements(unmarshalerT) || reflect.PointerTo(t).Implements(unmarshalerT)
}

// prims: hand-written codecs with a model in lean/TongoModel/Tlb/Prims.lean
var primTable = map[string]string{
	"tlb.Unary": "unary", "tlb.Any": "any", "tlb.Grams": "grams", "tlb.SignedCoins": "signedCoins",
	"tlb.SnakeData": "snake", "tlb.Bytes": "bytesSnake", "tlb.Text": "text", "tlb.FixedLengthText": "fixedText",
	"tlb.Anycast": "anycast", "tlb.MsgAddress": "msgAddress", "tlb.AccountStatus": "accountStatus",
	"tlb.AccStatusChange": "accStatusChange", "tlb.ComputeSkipReason": "computeSkipReason",
	"tlb.VmCellSlice": "vmCellSlice", "wallet.PayloadV1toV4": "payloadV1toV4", "wallet.W5Actions": "w5Actions",
	"tlb.AddressWithWorkchain": "addrWc",
}

// custom codecs that do exactly what the reflection codec would do on the exported fields
var structLike = map[string]bool{"tlb.Message": true, "tlb.Transaction": true}

// MarshalTLB returns "not implemented"
var encErrTable = map[string]bool{"tlb.VmStkTuple": true, "tlb.VmCont": true, "tlb.ChunkedData": true}

// hand-written decoders with flag-dependent layout that have a model (lean/TongoModel/Tlb/Dec.lean `decodeCustom`):
// the component types the decoder needs, as a struct descriptor
var customAux map[string]func(u *Universe, body *Desc) *Desc

func init() {
	customAux = map[string]func(u *Universe, body *Desc) *Desc{
		"tlb.BlockInfo": func(u *Universe, body *Desc) *Desc {
			hdr := &Desc{Kind: KStruct, Fields: []Field{
				{Name: "Magic", FT: "p", T: &Desc{Kind: KMagic, Tag: parseSumTag("block_info#9bc7a987")}},
				{Name: "BlockInfo", FT: "p", T: u.Describe(reflect.TypeOf(tlb.BlockInfoPart{}))}}}
			return auxStruct(hdr, u.Describe(reflect.TypeOf(tlb.GlobalVersion{})),
				u.Describe(reflect.TypeOf(tlb.BlkMasterInfo{})), u.Describe(reflect.TypeOf(tlb.ExtBlkRef{})))
		},
		"tlb.ValueFlow": func(u *Universe, body *Desc) *Desc {
			return auxStruct(u.Describe(reflect.TypeOf(tlb.CurrencyCollection{})))
		},
		"tlb.ShardState": func(u *Universe, body *Desc) *Desc {
			return auxStruct(u.Describe(reflect.TypeOf(tlb.ShardStateUnsplit{})),
				u.Describe(reflect.TypeOf(tlb.ShardStateUnsplitData{})))
		},
		"tlb.CryptoSignature": func(u *Universe, body *Desc) *Desc {
			return auxStruct(u.Describe(reflect.TypeOf(tlb.CryptoSignatureSimpleData{})),
				u.Describe(reflect.TypeOf(tlb.SignedSertificate{})), u.Describe(reflect.TypeOf(tlb.CryptoSignatureSimple{})))
		},
		"tlb.McBlockExtra": func(u *Universe, body *Desc) *Desc {
			var ds []*Desc
			for _, f := range body.Fields {
				ds = append(ds, f.T)
			}
			return auxStruct(ds...)
		},
		"tlb.McStateExtraOther": func(u *Universe, body *Desc) *Desc {
			var ds []*Desc
			for _, f := range body.Fields {
				ds = append(ds, f.T)
			}
			return auxStruct(ds...)
		},
	}
}

func auxStruct(ds ...*Desc) *Desc {
	d := &Desc{Kind: KStruct}
	for i, x := range ds {
		d.Fields = append(d.Fields, Field{Name: fmt.Sprintf("A%d", i), FT: "p", T: x, Index: i})
	}
	return d
}

// dictKeyOK: the key families with a fixed size that the model knows
func dictKeyOK(d *Desc) bool {
	switch d.Kind {
	case KUint, KInt, KBytes:
		return true
	case KPrim:
		return d.Name == "bigUint" || d.Name == "bigInt" || d.Name == "addrWc"
	}
	return false
}

func (u *Universe) Describe(t reflect.Type) *Desc {
	d := u.describe(t)
	d.GoType = t
	return d
}

func (u *Universe) describe(t reflect.Type) *Desc {
	name := TypeName(t)
	base := baseName(t)
	if t == cellT {
		return &Desc{Kind: KCell}
	}
	if t == magicT {
		return &Desc{Kind: KMagic} // tag filled in by the field
	}
	if t.Kind() == reflect.Pointer {
		return &Desc{Kind: KPtr, Elem: u.Describe(t.Elem()), Marshaler: t.Implements(marshalerT)}
	}
	hasM, hasU := HasMarshal(t), HasUnmarshal(t)
	if hasM || hasU {
		if hasM && !t.Implements(marshalerT) {
			return &Desc{Kind: KUnsupported, Name: name + ": MarshalTLB with pointer receiver (outside the X1 subset)"}
		}
		switch base {
		case "tlb.Maybe":
			f, _ := t.FieldByName("Value")
			return &Desc{Kind: KMaybe, Elem: u.Describe(f.Type)}
		case "tlb.Either":
			l, _ := t.FieldByName("Left")
			r, _ := t.FieldByName("Right")
			return &Desc{Kind: KEither, Elem: u.Describe(l.Type), Elem2: u.Describe(r.Type)}
		case "tlb.EitherRef":
			f, _ := t.FieldByName("Value")
			return &Desc{Kind: KEitherRef, Elem: u.Describe(f.Type)}
		case "tlb.Ref":
			f, _ := t.FieldByName("Value")
			return &Desc{Kind: KRef, Elem: u.Describe(f.Type)}
		case "tlb.HashmapE", "tlb.Hashmap":
			mt := t
			if base == "tlb.HashmapE" {
				m, _ := t.FieldByName("m")
				mt = m.Type
			}
			ks, _ := mt.FieldByName("keys")
			vs, _ := mt.FieldByName("values")
			kd, vd := u.Describe(ks.Type.Elem()), u.Describe(vs.Type.Elem())
			if !dictKeyOK(kd) {
				return &Desc{Kind: KOpaque, Name: name}
			}
			// a value whose encoding depends on the room left in the leaf (SnakeData family written inline) is outside
			// C05's value-codec abstraction
			posDep := false
			u.Walk(vd, map[string]bool{}, func(x *Desc) {
				if x.Kind == KPrim && (x.Name == "snake" || x.Name == "bytesSnake" || x.Name == "text") {
					posDep = true
				}
			})
			if posDep {
				return &Desc{Kind: KOpaque, Name: name}
			}
			if base == "tlb.Hashmap" {
				return &Desc{Kind: KDict, Name: name, Elem: kd, Elem2: vd}
			}
			return &Desc{Kind: KDictE, Name: name, Elem: kd, Elem2: vd}
		case "tlb.VmStack":
			return &Desc{Kind: KVmStack, Elem: u.Describe(t.Elem())}
		case "wallet.PayloadHighload":
			return &Desc{Kind: KHighload, Name: name}
		case "tlb.BinTree":
			f, _ := t.FieldByName("Values")
			return &Desc{Kind: KBinTree, Name: name, Elem: u.Describe(f.Type.Elem())}
		case "tlb.HashmapAugE", "tlb.HashmapAug":
			mt := t
			if base == "tlb.HashmapAugE" {
				m, _ := t.FieldByName("m")
				mt = m.Type
			}
			ks, _ := mt.FieldByName("keys")
			vs, _ := mt.FieldByName("values")
			ex, _ := mt.FieldByName("extra")
			dt, _ := ex.Type.FieldByName("Data")
			kd, vd, xd := u.Describe(ks.Type.Elem()), u.Describe(vs.Type.Elem()), u.Describe(dt.Type)
			if !dictKeyOK(kd) {
				return &Desc{Kind: KOpaque, Name: name}
			}
			if base == "tlb.HashmapAug" {
				return &Desc{Kind: KDictAug, Name: name, Elem: kd, Elem2: vd, Elem3: xd}
			}
			return &Desc{Kind: KDictAugE, Name: name, Elem: kd, Elem2: vd, Elem3: xd}
		case "wallet.W5ExtendedActions":
			return &Desc{Kind: KChain, Name: name, Elem: u.Describe(t.Elem())}
		}
		if p, ok := primTable[base]; ok {
			return &Desc{Kind: KPrim, Name: p}
		}
		if encErrTable[base] {
			return &Desc{Kind: KEncErr, Name: name}
		}
		if m := genIntRe.FindStringSubmatch(t.Name()); m != nil && strings.HasSuffix(t.PkgPath(), "tongo/tlb") {
			n, _ := strconv.Atoi(m[2])
			big := t.Kind() == reflect.Struct && t.ConvertibleTo(bigIntT)
			switch {
			case m[1] == "VarUInteger" && big:
				return &Desc{Kind: KPrim, Name: "varUint", N: n}
			case m[1] == "Uint" && big:
				return &Desc{Kind: KPrim, Name: "bigUint", N: n}
			case m[1] == "Int" && big:
				return &Desc{Kind: KPrim, Name: "bigInt", N: n}
			case m[1] == "Uint" && t.Kind() >= reflect.Uint8 && t.Kind() <= reflect.Uint64:
				return &Desc{Kind: KUint, N: n}
			case m[1] == "Int" && t.Kind() >= reflect.Int8 && t.Kind() <= reflect.Int64:
				return &Desc{Kind: KInt, N: n}
			}
			return &Desc{Kind: KUnsupported, Name: name + ": unexpected underlying kind of a generated integer"}
		}
		if !structLike[base] && customAux[base] == nil {
			return &Desc{Kind: KOpaque, Name: name}
		}
	}
	switch t.Kind() {
	case reflect.Uint8:
		return &Desc{Kind: KUint, N: 8}
	case reflect.Uint16:
		return &Desc{Kind: KUint, N: 16}
	case reflect.Uint32:
		return &Desc{Kind: KUint, N: 32}
	case reflect.Uint64:
		return &Desc{Kind: KUint, N: 64}
	case reflect.Int8:
		return &Desc{Kind: KInt, N: 8}
	case reflect.Int16:
		return &Desc{Kind: KInt, N: 16}
	case reflect.Int32:
		return &Desc{Kind: KInt, N: 32}
	case reflect.Int64:
		return &Desc{Kind: KInt, N: 64}
	case reflect.Bool:
		return &Desc{Kind: KBool}
	case reflect.Array:
		if t.Elem().Kind() == reflect.Uint8 {
			return &Desc{Kind: KBytes, N: t.Len()}
		}
		return &Desc{Kind: KUnsupported, Name: "array of " + t.Elem().Kind().String()}
	case reflect.Pointer:
		return &Desc{Kind: KPtr, Elem: u.Describe(t.Elem()), Marshaler: t.Implements(marshalerT)}
	case reflect.Struct:
		if t == bitStringT {
			return &Desc{Kind: KOpaque, Name: "boc.BitString"}
		}
		if t.Name() != "" {
			if _, ok := u.Named[name]; !ok && !u.busy[name] {
				u.busy[name] = true
				body := u.describeStruct(t)
				if mk := customAux[base]; mk != nil {
					body = &Desc{Kind: KCustom, Name: base, Elem: body, Elem2: mk(u, body)}
				}
				delete(u.busy, name)
				body.GoType = t
				u.Named[name] = body
				u.Types[name] = t
			}
			return &Desc{Kind: KNamed, Name: name}
		}
		return u.describeStruct(t)
	}
	return &Desc{Kind: KUnsupported, Name: "kind " + t.Kind().String()}
}

func fieldTagClass(raw string) string {
	isRef, isMaybe, isMaybeRef, _, err := tlb.VerifParseTag(raw)
	switch {
	case err != nil:
		return "bad"
	case isMaybeRef:
		return "mr"
	case isMaybe:
		return "m"
	case isRef:
		return "r"
	}
	return "p"
}

func parseSumTag(raw string) *Tag {
	t, err := tlb.ParseTag(raw)
	if err != nil {
		return nil
	}
	return &Tag{Len: t.Len, Val: t.Val}
}

// RawStruct describes a struct type field by field, ignoring its own codec methods.
func (u *Universe) RawStruct(t reflect.Type) *Desc { return u.describeStruct(t) }

func (u *Universe) describeStruct(t reflect.Type) *Desc {
	if _, ok := t.FieldByName("SumType"); ok {
		d := &Desc{Kind: KSum}
		for i := 0; i < t.NumField(); i++ {
			f := t.Field(i)
			if f.Type.Name() == "SumType" {
				continue
			}
			if !f.IsExported() {
				return &Desc{Kind: KUnsupported, Name: "sum type with unexported field " + f.Name}
			}
			raw := f.Tag.Get("tlbSumType")
			u.SumTags[raw] = true
			fd := u.Describe(f.Type)
			if fd.Kind == KMagic {
				fd = &Desc{Kind: KMagic, Tag: nil, GoType: f.Type} // Magic reached with the empty tag
			}
			d.Ctors = append(d.Ctors, Ctor{Name: f.Name, Tag: parseSumTag(raw), RawTag: raw, T: fd, Index: i})
		}
		return d
	}
	d := &Desc{Kind: KStruct}
	for i := 0; i < t.NumField(); i++ {
		f := t.Field(i)
		if !f.IsExported() {
			continue // skipped by the codec (after the `fix:` of encodeBasicStruct / decodeBasicStruct)
		}
		raw := f.Tag.Get("tlb")
		u.FieldTags[raw] = true
		fd := u.Describe(f.Type)
		if fd.Kind == KMagic {
			if strings.HasSuffix(raw, "_") || (strings.Contains(raw, "#") && strings.Contains(raw, "$")) {
				fd = &Desc{Kind: KUnsupported, Name: "Magic tag outside the X1 subset: " + raw}
			} else {
				fd = &Desc{Kind: KMagic, Tag: parseSumTag(raw), GoType: f.Type}
			}
		}
		d.Fields = append(d.Fields, Field{Name: f.Name, FT: fieldTagClass(raw), RawTag: raw, T: fd, Index: i})
	}
	return d
}

// Walk visits d and everything reachable from it (named types through the universe, each once).
func (u *Universe) Walk(d *Desc, seen map[string]bool, f func(*Desc)) {
	if d == nil {
		return
	}
	f(d)
	switch d.Kind {
	case KNamed:
		if !seen[d.Name] {
			seen[d.Name] = true
			u.Walk(u.Named[d.Name], seen, f)
		}
	case KStruct:
		for _, x := range d.Fields {
			u.Walk(x.T, seen, f)
		}
	case KSum:
		for _, x := range d.Ctors {
			u.Walk(x.T, seen, f)
		}
	default:
		u.Walk(d.Elem, seen, f)
		u.Walk(d.Elem2, seen, f)
		u.Walk(d.Elem3, seen, f)
	}
}

// Closure returns the names of the named types reachable from d, sorted.
func (u *Universe) Closure(d *Desc) []string {
	seen := map[string]bool{}
	u.Walk(d, seen, func(*Desc) {})
	var ns []string
	for n := range seen {
		ns = append(ns, n)
	}
	sort.Strings(ns)
	return ns
}

// Coverage classifies a type: "model" (every codec reachable has a model), "partial:<what>" (a model exists but
// contains decode-unmodelled or dictionary parts), "opaque:<ids>" (contains custom codecs without a model),
// "unsupported:<reason>" (not a TL-B type of the reflection codec).
func (u *Universe) Coverage(d *Desc) (class string, detail []string) {
	var opaque, unsup, part, decm []string
	u.Walk(d, map[string]bool{}, func(x *Desc) {
		switch x.Kind {
		case KOpaque:
			opaque = append(opaque, x.Name)
		case KUnsupported:
			unsup = append(unsup, x.Name)
		case KEncErr:
			part = append(part, "enc-not-implemented:"+x.Name)
		case KCustom:
			decm = append(decm, "decode-model:"+x.Name)
		case KDictAugE, KDictAug:
			decm = append(decm, "decode-model:HashmapAug")
		case KBinTree:
			decm = append(decm, "decode-model:BinTree")
		}
	})
	uniq := func(xs []string) []string {
		sort.Strings(xs)
		var r []string
		for i, x := range xs {
			if i == 0 || xs[i-1] != x {
				r = append(r, x)
			}
		}
		return r
	}
	switch {
	case len(unsup) > 0:
		return "unsupported", uniq(unsup)
	case len(opaque) > 0:
		return "opaque", uniq(opaque)
	case len(decm) > 0:
		return "decode", uniq(append(decm, part...))
	case len(part) > 0:
		return "partial", uniq(part)
	}
	return "model", nil
}

// ---------------------------------------------------------------------------------------------- protocol text

func tagText(t *Tag) string {
	if t == nil {
		return "~"
	}
	return fmt.Sprintf("(%d|%d)", t.Len, t.Val)
}

func symSafe(s string) string {
	r := strings.NewReplacer("(", "<", ")", ">", "|", "/", " ", "")
	return r.Replace(s)
}

// Text prints the descriptor in the protocol form read by lean/TongoModel/Tlb/TyText.lean; idx maps the names of
// named types to their index in the environment printed alongside.
func (d *Desc) Text() string { return d.TextIdx(nil) }

func (d *Desc) TextIdx(idx map[string]int) string {
	switch d.Kind {
	case KUint:
		return fmt.Sprintf("(:u|%d)", d.N)
	case KInt:
		return fmt.Sprintf("(:i|%d)", d.N)
	case KBool:
		return ":b"
	case KBytes:
		return fmt.Sprintf("(:y|%d)", d.N)
	case KCell:
		return ":c"
	case KPtr:
		m := "F"
		if d.Marshaler {
			m = "T"
		}
		return "(:p|" + m + "|" + d.Elem.TextIdx(idx) + ")"
	case KStruct:
		var sb strings.Builder
		sb.WriteString("(:s")
		for _, f := range d.Fields {
			sb.WriteString("|(:" + f.FT + "|" + f.T.TextIdx(idx) + ")")
		}
		sb.WriteString(")")
		return sb.String()
	case KSum:
		var sb strings.Builder
		sb.WriteString("(:+")
		for _, c := range d.Ctors {
			sb.WriteString("|(:" + c.Name + "|" + tagText(c.Tag) + "|" + c.T.TextIdx(idx) + ")")
		}
		sb.WriteString(")")
		return sb.String()
	case KNamed:
		if i, ok := idx[d.Name]; ok {
			return fmt.Sprintf("(:n|%d)", i)
		}
		return "(:n|:" + symSafe(d.Name) + ")"
	case KMagic:
		return "(:g|" + tagText(d.Tag) + ")"
	case KMaybe:
		return "(:?|" + d.Elem.TextIdx(idx) + ")"
	case KEither:
		return "(:e|" + d.Elem.TextIdx(idx) + "|" + d.Elem2.TextIdx(idx) + ")"
	case KEitherRef:
		return "(:er|" + d.Elem.TextIdx(idx) + ")"
	case KRef:
		return "(:^|" + d.Elem.TextIdx(idx) + ")"
	case KPrim:
		if d.Name == "varUint" || d.Name == "bigUint" || d.Name == "bigInt" {
			return fmt.Sprintf("(:P|:%s|%d)", d.Name, d.N)
		}
		return "(:P|:" + d.Name + ")"
	case KVmStack:
		return "(:vs|" + d.Elem.TextIdx(idx) + ")"
	case KDictE:
		return "(:de|" + d.Elem.TextIdx(idx) + "|" + d.Elem2.TextIdx(idx) + ")"
	case KDict:
		return "(:di|" + d.Elem.TextIdx(idx) + "|" + d.Elem2.TextIdx(idx) + ")"
	case KChain:
		return "(:ch|" + d.Elem.TextIdx(idx) + ")"
	case KHighload:
		return ":hl"
	case KDictAugE:
		return "(:dae|" + d.Elem.TextIdx(idx) + "|" + d.Elem2.TextIdx(idx) + "|" + d.Elem3.TextIdx(idx) + ")"
	case KDictAug:
		return "(:da|" + d.Elem.TextIdx(idx) + "|" + d.Elem2.TextIdx(idx) + "|" + d.Elem3.TextIdx(idx) + ")"
	case KBinTree:
		return "(:bt|" + d.Elem.TextIdx(idx) + ")"
	case KCustom:
		return "(:cu|:" + symSafe(d.Name) + "|" + d.Elem.TextIdx(idx) + "|" + d.Elem2.TextIdx(idx) + ")"
	case KEncErr:
		return "(:ee|:" + symSafe(d.Name) + ")"
	default:
		return "(:o|:" + symSafe(d.Name) + ")"
	}
}

// TyEnvText prints the descriptor of d and the environment (closure of named types, referenced by index) it needs.
func (u *Universe) TyEnvText(d *Desc) (ty, env string) {
	ns := u.Closure(d)
	idx := map[string]int{}
	for i, n := range ns {
		idx[n] = i
	}
	if len(ns) == 0 {
		return d.TextIdx(idx), "()"
	}
	parts := make([]string, len(ns))
	for i, n := range ns {
		parts[i] = u.Named[n].TextIdx(idx)
	}
	return d.TextIdx(idx), "(" + strings.Join(parts, "|") + ")"
}

// ----------------------------------------------------------------------------------------------------- Lean text

func leanTag(t *Tag) string {
	if t == nil {
		return "none"
	}
	return fmt.Sprintf("(some ⟨%d, %d⟩)", t.Len, t.Val)
}

var leanFT = map[string]string{"p": ".plain", "r": ".ref", "m": ".maybe", "mr": ".maybeRef", "bad": ".bad"}

// Lean prints the descriptor as a Lean term of type Tongo.Tlb.Ty; idx maps named types to environment indices.
func (d *Desc) Lean(idx map[string]int) string {
	switch d.Kind {
	case KUint:
		return fmt.Sprintf("(.uint %d)", d.N)
	case KInt:
		return fmt.Sprintf("(.int %d)", d.N)
	case KBool:
		return ".bool"
	case KBytes:
		return fmt.Sprintf("(.bytes %d)", d.N)
	case KCell:
		return ".cell"
	case KPtr:
		return fmt.Sprintf("(.ptr %v %s)", d.Marshaler, d.Elem.Lean(idx))
	case KStruct:
		s := ".nil"
		for i := len(d.Fields) - 1; i >= 0; i-- {
			f := d.Fields[i]
			s = fmt.Sprintf("(.cons %q %s %s %s)", f.Name, leanFT[f.FT], f.T.Lean(idx), s)
		}
		return "(.struct " + s + ")"
	case KSum:
		s := ".nil"
		for i := len(d.Ctors) - 1; i >= 0; i-- {
			c := d.Ctors[i]
			s = fmt.Sprintf("(.cons %q %s %s %s)", c.Name, leanTag(c.Tag), c.T.Lean(idx), s)
		}
		return "(.sum " + s + ")"
	case KNamed:
		return fmt.Sprintf("(.named %d)", idx[d.Name])
	case KMagic:
		return "(.magic " + leanTag(d.Tag) + ")"
	case KMaybe:
		return "(.maybe " + d.Elem.Lean(idx) + ")"
	case KEither:
		return "(.either " + d.Elem.Lean(idx) + " " + d.Elem2.Lean(idx) + ")"
	case KEitherRef:
		return "(.eitherRef " + d.Elem.Lean(idx) + ")"
	case KRef:
		return "(.refT " + d.Elem.Lean(idx) + ")"
	case KPrim:
		if d.Name == "varUint" || d.Name == "bigUint" || d.Name == "bigInt" {
			return fmt.Sprintf("(.prim (.%s %d))", d.Name, d.N)
		}
		return "(.prim ." + d.Name + ")"
	case KVmStack:
		return "(.vmStack " + d.Elem.Lean(idx) + ")"
	case KDictE:
		return "(.dictE " + d.Elem.Lean(idx) + " " + d.Elem2.Lean(idx) + ")"
	case KDict:
		return "(.dict " + d.Elem.Lean(idx) + " " + d.Elem2.Lean(idx) + ")"
	case KChain:
		return "(.chain " + d.Elem.Lean(idx) + ")"
	case KHighload:
		return ".highload"
	case KDictAugE:
		return "(.dictAugE " + d.Elem.Lean(idx) + " " + d.Elem2.Lean(idx) + " " + d.Elem3.Lean(idx) + ")"
	case KDictAug:
		return "(.dictAug " + d.Elem.Lean(idx) + " " + d.Elem2.Lean(idx) + " " + d.Elem3.Lean(idx) + ")"
	case KBinTree:
		return "(.binTree " + d.Elem.Lean(idx) + ")"
	case KCustom:
		return fmt.Sprintf("(.custom %q %s %s)", symSafe(d.Name), d.Elem.Lean(idx), d.Elem2.Lean(idx))
	case KEncErr:
		return fmt.Sprintf("(.encErr %q)", symSafe(d.Name))
	default:
		return fmt.Sprintf("(.opaque %q)", symSafe(d.Name))
	}
}

// LeanIdent turns a type name into a Lean identifier suffix.
func LeanIdent(name string) string {
	var sb strings.Builder
	for _, r := range name {
		if (r >= 'a' && r <= 'z') || (r >= 'A' && r <= 'Z') || (r >= '0' && r <= '9') {
			sb.WriteRune(r)
		} else {
			sb.WriteByte('_')
		}
	}
	return sb.String()
}

// SpecText gives the TL-B schema type (text form of lean/Driver/OpsTlbSpec.lean) of a descriptor that is a primitive
// or a generic combinator over primitives — where the TL-B type is fixed by the NAME of the Go type (Maybe[X] is
// `Maybe X`, Uint5 is `## 5`, …). Structs and sum types are deliberately not handled: their schema is transcribed by
// hand in BlockTlb.lean, never derived from the Go descriptor.
func (d *Desc) SpecText() (string, bool) {
	switch d.Kind {
	case KUint:
		return fmt.Sprintf("(:nat|%d)", d.N), true
	case KInt:
		return fmt.Sprintf("(:int|%d)", d.N), true
	case KBool:
		return ":bool", true
	case KBytes:
		return fmt.Sprintf("(:bits|%d)", d.N*8), true
	case KMaybe:
		if s, ok := d.Elem.SpecText(); ok {
			return "(:maybe|" + s + ")", true
		}
	case KEither:
		l, ok1 := d.Elem.SpecText()
		r, ok2 := d.Elem2.SpecText()
		if ok1 && ok2 {
			return "(:either|" + l + "|" + r + ")", true
		}
	case KEitherRef:
		if s, ok := d.Elem.SpecText(); ok {
			return "(:either|" + s + "|(:ref|" + s + "))", true
		}
	case KRef:
		if d.Elem.Kind == KCell {
			return ":cellref", true
		}
		if s, ok := d.Elem.SpecText(); ok {
			return "(:ref|" + s + ")", true
		}
	case KPrim:
		switch d.Name {
		case "grams":
			return "(:varuint|16)", true
		case "varUint":
			return fmt.Sprintf("(:varuint|%d)", d.N), true
		case "bigUint":
			return fmt.Sprintf("(:nat|%d)", d.N), true
		case "bigInt":
			return fmt.Sprintf("(:int|%d)", d.N), true
		case "unary":
			return ":unary", true
		case "any":
			return ":any", true
		case "msgAddress":
			return ":msgaddress", true
		case "anycast":
			return ":anycast", true
		}
	}
	return "", false
}
