package tlbx

import (
	"fmt"
	"math/big"
	"math/rand"
	"reflect"
	"sort"
	"strings"

	"github.com/tonkeeper/tongo/boc"
	"github.com/tonkeeper/tongo/tlb"
)

// GenCtx generates in-domain values by reflection, driven by the descriptor of the type.
type GenCtx struct {
	Rng       *rand.Rand
	U         *Universe
	ModelOnly bool           // stay inside what the Lean model covers (empty dictionaries, modelled constructors)
	Cov       map[string]int // coverage: "<type>.<ctor>", "uint<n>:<class>", "varuint<n>:len<k>", …
	depth     int
	budget    int // rough bit budget of the current cell, to keep most values encodable
	cursor    map[string]int
}

// class picks one of n boundary classes for the call site `site`: round-robin (so that every class of every site is
// hit after n values), with a random start
func (g *GenCtx) class(site string, n int) int {
	if g.cursor == nil {
		g.cursor = map[string]int{}
	}
	c, ok := g.cursor[site]
	if !ok {
		c = g.Rng.Intn(n)
	}
	g.cursor[site] = c + 1
	return c % n
}

func NewGenCtx(rng *rand.Rand, u *Universe) *GenCtx {
	return &GenCtx{Rng: rng, U: u, Cov: map[string]int{}}
}

func (g *GenCtx) cov(k string) { g.Cov[k]++ }

func pow2(n int) *big.Int { return new(big.Int).Lsh(big.NewInt(1), uint(n)) }

func (g *GenCtx) randBig(bits int) *big.Int {
	if bits <= 0 {
		return big.NewInt(0)
	}
	return new(big.Int).Rand(g.Rng, pow2(bits))
}

// UintValue picks a value in [0, 2^n): 0, 1, max, top bit, random.
func (g *GenCtx) UintValue(n int) (*big.Int, string) {
	switch g.class(fmt.Sprint("u", n), 6) {
	case 0:
		return big.NewInt(0), "zero"
	case 1:
		if n >= 1 {
			return big.NewInt(1), "one"
		}
		return big.NewInt(0), "zero"
	case 2:
		return new(big.Int).Sub(pow2(n), big.NewInt(1)), "max"
	case 3:
		return pow2(n - 1), "topbit"
	}
	return g.randBig(n), "random"
}

// IntValue picks a value in [-2^(n-1), 2^(n-1)): min, max, -1, 0, 1, random.
func (g *GenCtx) IntValue(n int) (*big.Int, string) {
	half := pow2(n - 1)
	switch g.class(fmt.Sprint("i", n), 7) {
	case 0:
		return new(big.Int).Neg(half), "min"
	case 1:
		return new(big.Int).Sub(half, big.NewInt(1)), "max"
	case 2:
		return big.NewInt(-1), "minus1"
	case 3:
		return big.NewInt(0), "zero"
	case 4:
		if n >= 2 {
			return big.NewInt(1), "one"
		}
		return big.NewInt(0), "zero"
	}
	return new(big.Int).Sub(g.randBig(n), half), "random"
}

func (g *GenCtx) bitLenChoice(max int) int {
	switch g.Rng.Intn(8) {
	case 0:
		return 0
	case 1:
		return max - g.Rng.Intn(8)
	case 2, 3:
		return g.Rng.Intn(17)
	}
	return g.Rng.Intn(max + 1)
}

// RandCell builds a small random ordinary cell tree.
func (g *GenCtx) RandCell(maxBits, maxRefs, depth int) *boc.Cell {
	n := g.bitLenChoice(maxBits)
	if n < 0 {
		n = 0
	}
	data := make([]byte, (n+7)/8)
	g.Rng.Read(data)
	if n%8 != 0 {
		data[len(data)-1] &= byte(0xff << uint(8-n%8))
	}
	var refs []*boc.Cell
	if depth > 0 && maxRefs > 0 {
		k := g.Rng.Intn(maxRefs + 1)
		for i := 0; i < k; i++ {
			refs = append(refs, g.RandCell(maxBits, maxRefs, depth-1))
		}
	}
	return boc.VerifNewCell(boc.OrdinaryCell, 0, data, n, refs)
}

func (g *GenCtx) randBitString(n int) boc.BitString {
	bs := boc.NewBitString(n)
	for i := 0; i < n; i++ {
		_ = bs.WriteBit(g.Rng.Intn(2) == 1)
	}
	return bs
}

func (g *GenCtx) randUTF8(n int) string {
	var sb strings.Builder
	for sb.Len() < n {
		switch g.Rng.Intn(6) {
		case 0:
			sb.WriteRune(rune(0x80 + g.Rng.Intn(0x700)))
		case 1:
			sb.WriteRune(rune(0x800 + g.Rng.Intn(0x5000)))
		case 2:
			sb.WriteRune(rune(0x10000 + g.Rng.Intn(0x1000)))
		default:
			sb.WriteByte(byte(0x20 + g.Rng.Intn(0x5f)))
		}
	}
	return sb.String()
}

func setBig(v reflect.Value, x *big.Int) { v.Set(reflect.ValueOf(*x).Convert(v.Type())) }

// encodable: some constructor payload that Marshal can handle at all (no "not implemented" codec directly inside)
func (g *GenCtx) encodable(d *Desc) bool {
	ok := true
	g.U.Walk(d, map[string]bool{}, func(x *Desc) {
		if x.Kind == KEncErr || x.Kind == KUnsupported || (g.ModelOnly && x.Kind == KOpaque) {
			ok = false
		}
	})
	return ok
}

// Gen fills v (addressable, zero) with a random in-domain value of descriptor d; ft is the field tag class.
func (g *GenCtx) Gen(d *Desc, v reflect.Value, ft string) {
	v = access(v)
	g.depth++
	defer func() { g.depth-- }()
	if g.depth > 40 {
		return // unconditionally recursive type: stop with the zero value
	}
	switch d.Kind {
	case KUint:
		x, c := g.UintValue(d.N)
		g.cov("uint:" + c)
		v.SetUint(x.Uint64())
	case KInt:
		x, c := g.IntValue(d.N)
		g.cov("int:" + c)
		v.SetInt(x.Int64())
	case KBool:
		v.SetBool(g.Rng.Intn(2) == 1)
	case KBytes:
		mode := g.Rng.Intn(4)
		for i := 0; i < v.Len(); i++ {
			var b byte
			switch mode {
			case 0:
				b = 0
			case 1:
				b = 0xff
			default:
				b = byte(g.Rng.Intn(256))
			}
			v.Index(i).SetUint(uint64(b))
		}
	case KCell:
		v.Set(reflect.ValueOf(*g.RandCell(300, 2, 2)))
	case KPtr:
		if (ft == "m" || ft == "mr") && g.Rng.Intn(3) == 0 {
			g.cov("optional:absent")
			return
		}
		if ft == "m" || ft == "mr" {
			g.cov("optional:present")
		}
		if g.depth > 12 {
			return // deep (recursive) pointer chains end with nil: the value is then rejected by the encoder
		}
		p := reflect.New(v.Type().Elem())
		g.Gen(d.Elem, p.Elem(), "p")
		v.Set(p)
	case KNamed:
		g.genNamed(d, v)
	case KStruct:
		g.genStruct(d, v)
	case KSum:
		g.genSum(d, v, TypeName(v.Type()))
	case KMagic:
		if d.Tag != nil {
			v.SetUint(d.Tag.Val)
		}
	case KMaybe:
		if g.Rng.Intn(3) == 0 || g.depth > 12 {
			g.cov("maybe:absent")
			return
		}
		g.cov("maybe:present")
		v.FieldByName("Exists").SetBool(true)
		g.Gen(d.Elem, v.FieldByName("Value"), "p")
	case KEither:
		if g.Rng.Intn(2) == 0 {
			g.cov("either:left")
			g.Gen(d.Elem, v.FieldByName("Left"), "p")
		} else {
			g.cov("either:right")
			v.FieldByName("IsRight").SetBool(true)
			g.Gen(d.Elem2, v.FieldByName("Right"), "p")
		}
	case KEitherRef:
		if g.Rng.Intn(2) == 0 {
			g.cov("eitherref:left")
		} else {
			g.cov("eitherref:right")
			v.FieldByName("IsRight").SetBool(true)
		}
		g.Gen(d.Elem, v.FieldByName("Value"), "p")
	case KRef:
		g.cov("ref")
		g.Gen(d.Elem, v.FieldByName("Value"), "p")
	case KPrim:
		g.genPrim(d, v)
	case KVmStack:
		n := g.Rng.Intn(4)
		if n == 0 {
			return
		}
		s := reflect.MakeSlice(v.Type(), n, n)
		for i := 0; i < n; i++ {
			g.Gen(d.Elem, s.Index(i), "p")
		}
		v.Set(s)
	case KDictE:
		if g.Rng.Intn(2) == 0 || g.depth > 8 {
			g.cov("dict:empty")
			return
		}
		g.genDict(v)
	case KDict: // hm_edge: at least one entry
		g.genDictInto(v, 1)
	case KChain: // at least one element (an empty chain writes nothing and cannot be read back)
		n := 1 + g.Rng.Intn(3)
		s := reflect.MakeSlice(v.Type(), n, n)
		for i := 0; i < n; i++ {
			g.Gen(d.Elem, s.Index(i), "p")
		}
		v.Set(s)
	case KCustom:
		g.depth--
		g.Gen(d.Elem, v, ft)
		g.depth++
		g.customDomain(d, v)
	case KDictAugE: // only the empty dictionary can be written: mostly empty, the extra random
		g.Gen(d.Elem3, v.FieldByName("extra"), "p")
	case KDictAug:
	case KHighload:
		n := g.Rng.Intn(4)
		if n == 0 {
			return
		}
		s := reflect.MakeSlice(v.Type(), n, n)
		for i := 0; i < n; i++ {
			s.Index(i).FieldByName("Message").Set(reflect.ValueOf(g.RandCell(200, 1, 1)))
			s.Index(i).FieldByName("Mode").SetUint(uint64(g.Rng.Intn(256)))
		}
		v.Set(s)
	case KOpaque:
		// a few unmodelled codecs whose zero value is outside their domain get a minimal in-domain value
		switch baseName(v.Type()) {
		case "tlb.Hashmap": // hm_edge: at least one entry
			g.genDictInto(v, 1)
		case "wallet.PayloadHighload":
			n := g.Rng.Intn(4)
			if n == 0 {
				return
			}
			s := reflect.MakeSlice(v.Type(), n, n)
			for i := 0; i < n; i++ {
				s.Index(i).FieldByName("Message").Set(reflect.ValueOf(g.RandCell(200, 1, 1)))
				s.Index(i).FieldByName("Mode").SetUint(uint64(g.Rng.Intn(256)))
			}
			v.Set(s)
		case "wallet.W5ExtendedActions":
			n := 1 + g.Rng.Intn(3)
			s := reflect.MakeSlice(v.Type(), n, n)
			ed := g.U.Describe(v.Type().Elem())
			for i := 0; i < n; i++ {
				g.Gen(ed, s.Index(i), "p")
			}
			v.Set(s)
		default:
			// decode-side custom codec over a plain struct (BlockInfo, ShardState, …): Marshal goes through the
			// reflection codec, so the value is generated field by field
			if v.Kind() == reflect.Struct && v.Type() != bitStringT && !openTypes[baseName(v.Type())] {
				if raw := g.U.RawStruct(v.Type()); raw.Kind == KSum {
					g.genSum(raw, v, TypeName(v.Type()))
				} else {
					g.genStruct(raw, v)
				}
			}
		}
	default:
		// unsupported / enc-not-implemented: the zero value
	}
}

func (g *GenCtx) genNamed(d *Desc, v reflect.Value) {
	body := g.U.Named[d.Name]
	if body == nil {
		return
	}
	var cu *Desc
	if body.Kind == KCustom {
		cu, body = body, body.Elem
	}
	if body.Kind == KSum {
		g.genSum(body, v, d.Name)
	} else {
		g.genStruct(body, v)
	}
	if cu != nil {
		g.customDomain(cu, v)
	}
}

// customDomain moves a generated value into the domain of a flag-dependent layout
func (g *GenCtx) customDomain(d *Desc, v reflect.Value) {
	if d.Name == "tlb.McBlockExtra" {
		// config:key_block?ConfigParams (the type has no MarshalTLB: the reflection encoder writes Config whatever
		// key_block says; the decoder reads it only in a key block)
		if !v.FieldByName("KeyBlock").Bool() {
			c := v.FieldByName("Config")
			c.Set(reflect.Zero(c.Type()))
		}
		// BinTree / HashmapAug cannot be written: every second value keeps these dictionaries empty so that it encodes
		if g.class("mcBlockExtra.encodable", 2) == 0 {
			for _, n := range []string{"ShardHashes", "ShardFees"} {
				f := v.FieldByName(n)
				f.Set(reflect.Zero(f.Type()))
			}
		}
	}
	if d.Name == "tlb.McStateExtraOther" {
		// flags <= 1, block_create_stats present iff flags = 1
		fl := v.FieldByName("Flags")
		fl.SetUint(uint64(g.class("mcStateExtraOther.flags", 2)))
		if fl.Uint() != 1 {
			st := v.FieldByName("BlockCreateStats")
			st.Set(reflect.Zero(st.Type()))
		}
	}
}

func (g *GenCtx) genStruct(d *Desc, v reflect.Value) {
	if d.Kind != KStruct {
		return
	}
	for _, f := range d.Fields {
		g.Gen(f.T, v.Field(f.Index), f.FT)
	}
}

func (g *GenCtx) genSum(d *Desc, v reflect.Value, tname string) {
	if d.Kind != KSum || len(d.Ctors) == 0 {
		return
	}
	// prefer constructors never generated so far, among those Marshal can handle
	var cand []Ctor
	for _, c := range d.Ctors {
		if g.encodable(c.T) && c.Tag != nil {
			cand = append(cand, c)
		}
	}
	if len(cand) == 0 || (!g.ModelOnly && g.Rng.Intn(12) == 0) {
		cand = d.Ctors
	}
	if g.depth > 10 { // keep recursive types finite: the constructor with the smallest descriptor
		sort.SliceStable(cand, func(i, j int) bool { return len(cand[i].T.Text()) < len(cand[j].T.Text()) })
		cand = cand[:1]
	}
	best := cand[g.Rng.Intn(len(cand))]
	for _, c := range cand {
		if g.Cov[tname+"."+c.Name] == 0 && g.Rng.Intn(2) == 0 {
			best = c
			break
		}
	}
	g.cov(tname + "." + best.Name)
	access(v.FieldByName("SumType")).SetString(best.Name)
	g.Gen(best.T, v.Field(best.Index), "p")
}

// UnaryBoundaries: both sides of WriteUnary's fast path (n < 63), of the cell capacity (1023 bits) and of int(n) >= 0
var UnaryBoundaries = []uint64{0, 1, 62, 63, 64, 1022, 1023, 1024, 1 << 31, 1<<63 - 1, 1 << 63, 1<<64 - 1}

func (g *GenCtx) genPrim(d *Desc, v reflect.Value) {
	switch d.Name {
	case "unary":
		// 0..27 and the boundaries of WriteUnary's two code paths, the cell capacity and the uint range (round robin;
		// one draw is still consumed so that the other streams do not move)
		_ = g.Rng.Intn(40)
		if k := g.class("unary", 40); k < 28 {
			v.SetUint(uint64(k))
		} else {
			v.SetUint(UnaryBoundaries[k-28])
		}
	case "any":
		c := g.RandCell(120, 1, 1)
		v.Set(reflect.ValueOf(*c).Convert(v.Type()))
	case "varUint":
		// every byte length 0..n-1, exactly that many significant bytes
		l := g.class(fmt.Sprint("varuint", d.N), d.N)
		x := big.NewInt(0)
		if l > 0 {
			x = g.randBig(8 * l)
			x.SetBit(x, 8*(l-1)+g.Rng.Intn(8), 1)
			if g.Rng.Intn(4) == 0 {
				x = new(big.Int).Sub(pow2(8*l), big.NewInt(1))
			}
		}
		g.cov("varuint:len")
		setBig(v, x)
	case "bigUint":
		x, c := g.UintValue(d.N)
		g.cov("biguint:" + c)
		setBig(v, x)
	case "bigInt":
		x, c := g.IntValue(d.N)
		g.cov("bigint:" + c)
		setBig(v, x)
	case "grams":
		var x uint64
		switch g.class("grams", 8) {
		case 0:
			x = 0
		case 1:
			x = ^uint64(0)
		case 2:
			x = 1 << 63
		case 3:
			x = 1<<63 - 1
		case 4:
			x = uint64(1) << uint(8*g.Rng.Intn(8))
		default:
			x = g.Rng.Uint64() >> uint(g.Rng.Intn(64))
		}
		v.SetUint(x)
	case "signedCoins":
		var x int64
		switch g.class("signedcoins", 7) {
		case 0:
			x = 0
		case 1:
			x = -1
		case 2:
			x = -1 << 63
		case 3:
			x = 1<<63 - 1
		default:
			x = int64(g.Rng.Uint64()) >> uint(g.Rng.Intn(64))
		}
		v.SetInt(x)
	case "snake":
		var n int
		switch g.Rng.Intn(6) {
		case 0:
			n = 0
		case 1:
			n = 1000 + g.Rng.Intn(60)
		case 2:
			n = 2030 + g.Rng.Intn(40)
		case 3:
			n = g.Rng.Intn(3000)
		default:
			n = g.Rng.Intn(120)
		}
		v.Set(reflect.ValueOf(g.randBitString(n)).Convert(v.Type()))
	case "bytesSnake":
		n := g.Rng.Intn(40)
		if g.Rng.Intn(5) == 0 {
			n = 120 + g.Rng.Intn(200)
		}
		b := make([]byte, n)
		g.Rng.Read(b)
		if n > 0 {
			v.SetBytes(b)
		}
	case "text":
		n := g.Rng.Intn(40)
		if g.Rng.Intn(5) == 0 {
			n = 120 + g.Rng.Intn(200)
		}
		v.SetString(g.randUTF8(n))
	case "fixedText":
		b := make([]byte, g.Rng.Intn(60))
		g.Rng.Read(b)
		v.SetString(string(b))
	case "addrWc":
		v.FieldByName("Workchain").SetInt(int64([]int{0, -1, 127, -128, g.Rng.Intn(256) - 128}[g.Rng.Intn(5)]))
		a := v.FieldByName("Address")
		for i := 0; i < a.Len(); i++ {
			a.Index(i).SetUint(uint64(g.Rng.Intn(256)))
		}
	case "anycast":
		g.genAnycast(v)
	case "msgAddress":
		g.genMsgAddress(v)
	case "accountStatus":
		v.SetString([]string{"uninit", "frozen", "active", "nonexist"}[g.Rng.Intn(4)])
	case "accStatusChange":
		v.SetString([]string{"acst_unchanged", "acst_frozen", "acst_deleted"}[g.class("accStatusChange", 3)])
	case "computeSkipReason":
		v.SetString([]string{"cskip_no_state", "cskip_bad_state", "cskip_no_gas", "cskip_suspended"}[g.class("computeSkipReason", 4)])
	case "vmCellSlice":
		c := g.RandCell(200, 2, 1)
		eb := g.Rng.Intn(c.BitSize() + 1)
		sb := g.Rng.Intn(eb + 1)
		er := g.Rng.Intn(c.RefsSize() + 1)
		sr := g.Rng.Intn(er + 1)
		access(v.FieldByName("cell")).Set(reflect.ValueOf(c))
		access(v.FieldByName("stBits")).SetInt(int64(sb))
		access(v.FieldByName("endBits")).SetInt(int64(eb))
		access(v.FieldByName("stRef")).SetInt(int64(sr))
		access(v.FieldByName("endRef")).SetInt(int64(er))
	case "payloadV1toV4":
		n := g.Rng.Intn(5)
		if n == 0 {
			return
		}
		s := reflect.MakeSlice(v.Type(), n, n)
		for i := 0; i < n; i++ {
			s.Index(i).FieldByName("Message").Set(reflect.ValueOf(g.RandCell(200, 1, 1)))
			s.Index(i).FieldByName("Mode").SetUint(uint64(g.Rng.Intn(256)))
		}
		v.Set(s)
	case "w5Actions":
		n := g.Rng.Intn(4)
		if n == 0 {
			return
		}
		s := reflect.MakeSlice(v.Type(), n, n)
		for i := 0; i < n; i++ {
			s.Index(i).FieldByName("Magic").SetUint(0x0ec3c86d)
			s.Index(i).FieldByName("Msg").Set(reflect.ValueOf(g.RandCell(200, 1, 1)))
			s.Index(i).FieldByName("Mode").SetUint(uint64(g.Rng.Intn(256)))
		}
		v.Set(s)
	}
}

func (g *GenCtx) genAnycast(v reflect.Value) {
	depth := 1 + g.Rng.Intn(30)
	if g.Rng.Intn(4) == 0 {
		depth = []int{1, 30}[g.Rng.Intn(2)]
	}
	v.FieldByName("Depth").SetUint(uint64(depth))
	v.FieldByName("RewritePfx").SetUint(uint64(g.Rng.Int63()) & (1<<uint(depth) - 1))
}

func (g *GenCtx) genMaybeAnycast(v reflect.Value) {
	if g.Rng.Intn(3) == 0 {
		v.FieldByName("Exists").SetBool(true)
		g.genAnycast(v.FieldByName("Value"))
		g.cov("msgaddress:anycast")
	}
}

func (g *GenCtx) genMsgAddress(v reflect.Value) {
	a := v.Addr().Interface().(*tlb.MsgAddress)
	switch g.Rng.Intn(5) {
	case 0:
		a.SumType = "AddrNone"
	case 1:
		a.SumType = "AddrExtern"
		n := g.Rng.Intn(512)
		if g.Rng.Intn(4) == 0 {
			n = []int{0, 1, 511, 8, 256}[g.Rng.Intn(5)]
		}
		bs := g.randBitString(n)
		a.AddrExtern = &bs
	case 2, 3:
		a.SumType = "AddrStd"
		g.genMaybeAnycast(reflect.ValueOf(&a.AddrStd.Anycast).Elem())
		a.AddrStd.WorkchainId = int8([]int{0, -1, 127, -128, g.Rng.Intn(256) - 128}[g.Rng.Intn(5)])
		g.Rng.Read(a.AddrStd.Address[:])
	default:
		a.SumType = "AddrVar"
		n := g.Rng.Intn(512)
		if g.Rng.Intn(4) == 0 {
			n = []int{0, 1, 511, 256}[g.Rng.Intn(4)]
		}
		var x struct {
			Anycast     tlb.Maybe[tlb.Anycast]
			AddrLen     tlb.Uint9
			WorkchainId int32
			Address     boc.BitString
		}
		g.genMaybeAnycast(reflect.ValueOf(&x.Anycast).Elem())
		x.AddrLen = tlb.Uint9(n)
		x.WorkchainId = int32(g.Rng.Uint32())
		x.Address = g.randBitString(n)
		a.AddrVar = &x
	}
	g.cov("msgaddress:" + string(a.SumType))
}

// genDict fills a HashmapE with 1..3 entries; keys distinct and ordered by their encoded bits.
func (g *GenCtx) genDict(v reflect.Value) { g.genDictInto(access(v.FieldByName("m")), 1) }

// genDictInto fills a tlb.Hashmap value
func (g *GenCtx) genDictInto(m reflect.Value, min int) {
	keys := access(m.FieldByName("keys"))
	vals := access(m.FieldByName("values"))
	kd := g.U.Describe(keys.Type().Elem())
	vd := g.U.Describe(vals.Type().Elem())
	n := min + g.Rng.Intn(3)
	type ent struct {
		bits string
		k, v reflect.Value
	}
	var es []ent
	seen := map[string]bool{}
	for i := 0; i < n; i++ {
		k := reflect.New(keys.Type().Elem()).Elem()
		g.Gen(kd, k, "p")
		c := boc.NewCell()
		if err := tlb.Marshal(c, k.Interface()); err != nil {
			return
		}
		b := BitsOf(c.RawBitString())
		if seen[b] {
			continue
		}
		seen[b] = true
		x := reflect.New(vals.Type().Elem()).Elem()
		g.depth += 4
		g.Gen(vd, x, "p")
		g.depth -= 4
		es = append(es, ent{b, k, x})
	}
	sort.Slice(es, func(i, j int) bool { return es[i].bits < es[j].bits })
	ks := reflect.MakeSlice(keys.Type(), len(es), len(es))
	vs := reflect.MakeSlice(vals.Type(), len(es), len(es))
	for i, e := range es {
		ks.Index(i).Set(e.k)
		vs.Index(i).Set(e.v)
	}
	keys.Set(ks)
	vals.Set(vs)
	g.cov("dict:nonempty")
}
