package tlbx

// NonWf lists the registered Go types whose descriptor does NOT satisfy the well-formedness condition of the
// round-trip theorem on the current source, with the reason. Translator X1 emits `nwf_<T> : wfTop … = false` for
// exactly these and `wf_<T> : wfTop … = true` for every other covered type, so a type that newly stops being well
// formed (e.g. a constructor tag that becomes a prefix of another) breaks its obligation instead of moving silently
// into this list.
var NonWf = map[string]string{
	"tlb.BlkPrevInfo":                    "two `$_` constructors; documented as 'only manual decoding' (BlockInfo decodes it by hand)",
	"tlb.Magic":                          "a Magic outside a tagged struct field has no tag to write",
	"tlb.VmStack":                        "decodes to the reversed list by the documented convention (theorem vmstack_convention instead)",
	"tlb.HashMapAugExtraList[tlb.Grams]": "helper tree of HashmapAug extras, recursive through non-optional pointers: no finite value can be encoded",
	"tlb.HashMapAugExtraList[tlb.Uint5]": "helper tree of HashmapAug extras, recursive through non-optional pointers: no finite value can be encoded",
	"wallet.Message":                     "helper struct with plain *boc.Cell fields (a cell stored inline replaces the cell under construction)",
	"wallet.RawMessage":                  "helper struct with a plain *boc.Cell field (a cell stored inline replaces the cell under construction)",
}

var unprovedCodec = map[string]string{}

// ChainProved: types outside the greedy / non-greedy well-formedness condition (they hold a reference chain, which
// follows the next reference of the cell whenever there is one) whose round trip is proved by the dedicated theorem
// chainTop_roundtrip / chain_roundtrip; X1 emits `wfc_<T>` for them: the Lean checker that decides the shape.
var ChainProved = map[string]string{
	"wallet.MessageV5":         "chainTopb",
	"wallet.W5ExtendedActions": "chainOkb",
}

// get-method result structs: filled from the VM stack, never laid out in a cell; they hold boc.Cell / Any values inline
var getMethodResults = []string{
	"abi.GetAmmContractData_StormResult", "abi.GetChannelDataResult", "abi.GetCollectionDataResult",
	"abi.GetDelegationStateResult", "abi.GetExchangeSettings_StormResult", "abi.GetExecutorBalances_StormResult",
	"abi.GetExecutorVaultsWhitelist_StormResult", "abi.GetFixPriceDataV4Result", "abi.GetJettonDataResult",
	"abi.GetLpData_MegatonResult", "abi.GetMultisigDataResult", "abi.GetOracleData_StormResult", "abi.GetPoolFullDataResult",
	"abi.GetPositionManagerContractData_StormResult", "abi.GetReferralData_StormResult",
	"abi.GetReferralVaultsWhitelist_StormResult", "abi.GetRouterData_StonfiResult",
	"abi.GetVaultContractData_StormResult", "abi.GetVaultWhitelistedAddresses_StormResult",
}

func init() {
	for n := range ChainProved {
		NonWf[n] = "holds a reference chain (third mode next to greedy / non-greedy): round trip by chainTop_roundtrip, obligation wfc_<T>"
	}
	for n, c := range unprovedCodec {
		NonWf[n] = "contains the hand-written codec `" + c + "` whose CodecOK lemma is not proved (model compared with the implementation on every run)"
	}
	for _, n := range getMethodResults {
		NonWf[n] = "get-method result struct (filled from the VM stack, not a cell layout): cells / greedy values stored inline"
	}
}

// NotTlb: members of NonWf that are not cell layouts at all; they are excluded from the round-trip oracles too.
func NotTlb(name string) bool {
	_, ok := NonWf[name]
	_, unproved := unprovedCodec[name]
	if _, chain := ChainProved[name]; chain {
		unproved = true
	}
	return ok && !unproved && name != "tlb.VmStack" && name != "tlb.BlkPrevInfo"
}
