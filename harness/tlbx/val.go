package tlbx

import (
	"encoding/hex"
	"fmt"
	"math/big"
	"reflect"
	"strings"
	"unsafe"

	"github.com/tonkeeper/tongo/boc"
	"verifharness/h"
)

// Structural dump of Go values in the text form of lean/TongoModel/Tlb/SExp.lean. The dump is the notion of "equal
// value" used by the round-trip oracles: unexported bookkeeping fields (cached hashes, lazy source BOCs), the
// unselected alternatives of a sum type / Either and the payload of an absent Maybe are not part of the value.

// types whose unexported fields ARE the value
var openTypes = map[string]bool{"tlb.Hashmap": true, "tlb.HashmapE": true, "tlb.HashmapAug": true,
	"tlb.HashmapAugE": true, "tlb.HashMapAugExtraList": true, "tlb.VmCellSlice": true}

func access(v reflect.Value) reflect.Value {
	if v.CanInterface() {
		return v
	}
	if v.CanAddr() {
		return reflect.NewAt(v.Type(), unsafe.Pointer(v.UnsafeAddr())).Elem()
	}
	return v
}

// Addressable returns an addressable copy of v.
func Addressable(v reflect.Value) reflect.Value {
	if v.CanAddr() {
		return v
	}
	p := reflect.New(v.Type())
	p.Elem().Set(v)
	return p.Elem()
}

func BitsOf(bs boc.BitString) string {
	_, _, n, _ := bs.VerifState()
	buf := bs.VerifBuf()
	var sb strings.Builder
	sb.WriteByte('b')
	for i := 0; i < n; i++ {
		if buf[i/8]&(1<<uint(7-i%8)) != 0 {
			sb.WriteByte('1')
		} else {
			sb.WriteByte('0')
		}
	}
	return sb.String()
}

func CellText(c *boc.Cell) string {
	s := h.Canon([]*boc.Cell{c})
	if i := strings.IndexByte(s, ' '); i >= 0 {
		s = s[:i]
	}
	return s
}

func isSum(t reflect.Type) bool {
	if t.Kind() != reflect.Struct {
		return false
	}
	_, ok := t.FieldByName("SumType")
	return ok
}

func sumName(v reflect.Value) string { return access(v.FieldByName("SumType")).String() }

// Print dumps a value. v must be addressable for types with unexported parts (use Addressable).
func Print(v reflect.Value) string {
	v = access(v)
	t := v.Type()
	switch {
	case t.Kind() == reflect.Struct && t.ConvertibleTo(cellT):
		c := v.Convert(cellT).Interface().(boc.Cell)
		return "c" + CellText(&c)
	case t.Kind() == reflect.Struct && t.ConvertibleTo(bitStringT):
		return BitsOf(v.Convert(bitStringT).Interface().(boc.BitString))
	case t.Kind() == reflect.Struct && t.ConvertibleTo(bigIntT):
		x := v.Convert(bigIntT).Interface().(big.Int)
		return x.String()
	}
	if t == magicT {
		return "#" // the number stored in a Magic field is not part of the value (the tag is a constant of the type)
	}
	base := baseName(t)
	switch base {
	case "tlb.Maybe":
		if !v.FieldByName("Exists").Bool() {
			return "~"
		}
		return "(" + Print(v.FieldByName("Value")) + ")"
	case "tlb.Either":
		if v.FieldByName("IsRight").Bool() {
			return "(:R|" + Print(v.FieldByName("Right")) + ")"
		}
		return "(:L|" + Print(v.FieldByName("Left")) + ")"
	case "tlb.EitherRef":
		side := ":L"
		if v.FieldByName("IsRight").Bool() {
			side = ":R"
		}
		return "(" + side + "|" + Print(v.FieldByName("Value")) + ")"
	case "tlb.Ref":
		return Print(v.FieldByName("Value"))
	case "tlb.HashmapE":
		m := v.FieldByName("m")
		if m.FieldByName("keys").Len() == 0 {
			return "()"
		}
		return "(" + printList(m.FieldByName("keys")) + "|" + printList(m.FieldByName("values")) + ")"
	case "tlb.Hashmap":
		if v.FieldByName("keys").Len() == 0 {
			return "()"
		}
		return "(" + printList(v.FieldByName("keys")) + "|" + printList(v.FieldByName("values")) + ")"
	case "tlb.HashmapAug": // the tree of extras is not observable (no accessor): keys and values only
		return "(" + printList(v.FieldByName("keys")) + "|" + printList(v.FieldByName("values")) + ")"
	case "tlb.HashmapAugE":
		m := v.FieldByName("m")
		return "(" + printList(m.FieldByName("keys")) + "|" + printList(m.FieldByName("values")) + "|" +
			Print(v.FieldByName("extra")) + ")"
	}
	switch t.Kind() {
	case reflect.Uint8, reflect.Uint16, reflect.Uint32, reflect.Uint64, reflect.Uint:
		return fmt.Sprint(v.Uint())
	case reflect.Int8, reflect.Int16, reflect.Int32, reflect.Int64, reflect.Int:
		return fmt.Sprint(v.Int())
	case reflect.Bool:
		if v.Bool() {
			return "T"
		}
		return "F"
	case reflect.String:
		return "x" + hex.EncodeToString([]byte(v.String()))
	case reflect.Pointer:
		if v.IsNil() {
			return "~"
		}
		return "(" + Print(v.Elem()) + ")"
	case reflect.Array, reflect.Slice:
		if t.Elem().Kind() == reflect.Uint8 {
			b := make([]byte, v.Len())
			for i := range b {
				b[i] = byte(v.Index(i).Uint())
			}
			return "x" + hex.EncodeToString(b)
		}
		parts := make([]string, v.Len())
		for i := range parts {
			parts[i] = Print(v.Index(i))
		}
		return "(" + strings.Join(parts, "|") + ")"
	case reflect.Struct:
		if isSum(t) {
			name := sumName(v)
			if name == "" {
				return "(:|())"
			}
			f := v.FieldByName(name)
			if !f.IsValid() {
				return "(:" + symSafe(name) + "|())"
			}
			return "(:" + name + "|" + Print(f) + ")"
		}
		var parts []string
		open := openTypes[base]
		for i := 0; i < t.NumField(); i++ {
			if !t.Field(i).IsExported() && !open {
				continue
			}
			parts = append(parts, Print(v.Field(i)))
		}
		return "(" + strings.Join(parts, "|") + ")"
	}
	return ":?" + t.Kind().String()
}

// printList dumps a slice element by element (also for byte-kinded element types, which Print would dump as `x…`)
func printList(v reflect.Value) string {
	v = access(v)
	parts := make([]string, v.Len())
	for i := range parts {
		parts[i] = Print(v.Index(i))
	}
	return "(" + strings.Join(parts, "|") + ")"
}

// PrintNamed dumps a value like Print, except that the fields of the structs the reflection codec walks (descriptor
// kind struct) are given BY NAME: `((:@Field|v)|…)`. The spec side (C04) picks struct fields by the schema's field
// names, so that two same-typed fields exchanged in the Go struct yield a different cell on the spec side.
func PrintNamed(u *Universe, d *Desc, v reflect.Value) string {
	v = access(v)
	switch d.Kind {
	case KNamed:
		if body := u.Named[d.Name]; body != nil {
			return PrintNamed(u, body, v)
		}
	case KStruct:
		parts := make([]string, len(d.Fields))
		for i, f := range d.Fields {
			parts[i] = "(:@" + f.Name + "|" + PrintNamed(u, f.T, v.Field(f.Index)) + ")"
		}
		return "(" + strings.Join(parts, "|") + ")"
	case KSum:
		name := sumName(v)
		for _, c := range d.Ctors {
			if c.Name == name {
				return "(:" + name + "|" + PrintNamed(u, c.T, v.Field(c.Index)) + ")"
			}
		}
	case KPtr:
		if v.IsNil() {
			return "~"
		}
		return "(" + PrintNamed(u, d.Elem, v.Elem()) + ")"
	case KMaybe:
		if !v.FieldByName("Exists").Bool() {
			return "~"
		}
		return "(" + PrintNamed(u, d.Elem, v.FieldByName("Value")) + ")"
	case KEither:
		if v.FieldByName("IsRight").Bool() {
			return "(:R|" + PrintNamed(u, d.Elem2, v.FieldByName("Right")) + ")"
		}
		return "(:L|" + PrintNamed(u, d.Elem, v.FieldByName("Left")) + ")"
	case KEitherRef:
		side := ":L"
		if v.FieldByName("IsRight").Bool() {
			side = ":R"
		}
		return "(" + side + "|" + PrintNamed(u, d.Elem, v.FieldByName("Value")) + ")"
	case KRef:
		return PrintNamed(u, d.Elem, v.FieldByName("Value"))
	}
	return Print(v)
}

// ------------------------------------------------------------------------------------------------------ reader

type sexp struct {
	atom  string
	list  []*sexp
	isLst bool
}

func parseSexp(s string, i *int) (*sexp, error) {
	if *i >= len(s) {
		return nil, fmt.Errorf("unexpected end")
	}
	if s[*i] == '(' {
		*i++
		e := &sexp{isLst: true}
		if *i < len(s) && s[*i] == ')' {
			*i++
			return e, nil
		}
		for {
			x, err := parseSexp(s, i)
			if err != nil {
				return nil, err
			}
			e.list = append(e.list, x)
			if *i >= len(s) {
				return nil, fmt.Errorf("unclosed list")
			}
			if s[*i] == ')' {
				*i++
				return e, nil
			}
			if s[*i] != '|' {
				return nil, fmt.Errorf("bad separator %q", s[*i])
			}
			*i++
		}
	}
	j := *i
	for j < len(s) && s[j] != '|' && s[j] != ')' && s[j] != '(' {
		j++
	}
	e := &sexp{atom: s[*i:j]}
	*i = j
	return e, nil
}

func ParseSexp(s string) (*sexp, error) {
	i := 0
	e, err := parseSexp(s, &i)
	if err != nil {
		return nil, err
	}
	if i != len(s) {
		return nil, fmt.Errorf("trailing input")
	}
	return e, nil
}

func cellOfText(s string) *boc.Cell {
	return h.BuildCells(h.ParseTable(s))[0]
}

func bitStringOf(s string) boc.BitString {
	bs := boc.NewBitString(len(s))
	for _, c := range s {
		_ = bs.WriteBit(c == '1')
	}
	return bs
}

// Read parses the text form into a value of type t.
func Read(s string, t reflect.Type) (reflect.Value, error) {
	e, err := ParseSexp(s)
	if err != nil {
		return reflect.Value{}, err
	}
	v := reflect.New(t).Elem()
	if err := fill(e, v); err != nil {
		return reflect.Value{}, err
	}
	return v, nil
}

func fill(e *sexp, v reflect.Value) error {
	v = access(v)
	t := v.Type()
	bad := func() error { return fmt.Errorf("value %q does not fit %v", e.atom, t) }
	switch {
	case t.Kind() == reflect.Struct && t.ConvertibleTo(cellT):
		if e.isLst || !strings.HasPrefix(e.atom, "c") {
			return bad()
		}
		v.Set(reflect.ValueOf(*cellOfText(e.atom[1:])).Convert(t))
		return nil
	case t.Kind() == reflect.Struct && t.ConvertibleTo(bitStringT):
		if e.isLst || !strings.HasPrefix(e.atom, "b") {
			return bad()
		}
		v.Set(reflect.ValueOf(bitStringOf(e.atom[1:])).Convert(t))
		return nil
	case t.Kind() == reflect.Struct && t.ConvertibleTo(bigIntT):
		var x big.Int
		if _, ok := x.SetString(e.atom, 10); !ok || e.isLst {
			return bad()
		}
		v.Set(reflect.ValueOf(x).Convert(t))
		return nil
	}
	if t == magicT {
		return nil
	}
	base := baseName(t)
	switch base {
	case "tlb.Maybe":
		if !e.isLst {
			if e.atom != "~" {
				return bad()
			}
			return nil
		}
		if len(e.list) != 1 {
			return bad()
		}
		v.FieldByName("Exists").SetBool(true)
		return fill(e.list[0], v.FieldByName("Value"))
	case "tlb.Either":
		if !e.isLst || len(e.list) != 2 {
			return bad()
		}
		if e.list[0].atom == ":R" {
			v.FieldByName("IsRight").SetBool(true)
			return fill(e.list[1], v.FieldByName("Right"))
		}
		return fill(e.list[1], v.FieldByName("Left"))
	case "tlb.EitherRef":
		if !e.isLst || len(e.list) != 2 {
			return bad()
		}
		v.FieldByName("IsRight").SetBool(e.list[0].atom == ":R")
		return fill(e.list[1], v.FieldByName("Value"))
	case "tlb.Ref":
		return fill(e, v.FieldByName("Value"))
	case "tlb.HashmapE":
		if !e.isLst {
			return bad()
		}
		if len(e.list) == 0 {
			return nil
		}
		if len(e.list) != 2 {
			return bad()
		}
		m := v.FieldByName("m")
		if err := fill(e.list[0], m.FieldByName("keys")); err != nil {
			return err
		}
		return fill(e.list[1], m.FieldByName("values"))
	case "tlb.Hashmap":
		if !e.isLst {
			return bad()
		}
		if len(e.list) == 0 {
			return nil
		}
		if len(e.list) != 2 {
			return bad()
		}
		if err := fill(e.list[0], v.FieldByName("keys")); err != nil {
			return err
		}
		return fill(e.list[1], v.FieldByName("values"))
	case "tlb.HashmapAug", "tlb.HashmapAugE":
		m := v
		n := 2
		if baseName(t) == "tlb.HashmapAugE" {
			m = v.FieldByName("m")
			n = 3
		}
		if !e.isLst || len(e.list) != n {
			return bad()
		}
		if err := fill(e.list[0], m.FieldByName("keys")); err != nil {
			return err
		}
		if err := fill(e.list[1], m.FieldByName("values")); err != nil {
			return err
		}
		if n == 3 {
			return fill(e.list[2], v.FieldByName("extra"))
		}
		return nil
	}
	switch t.Kind() {
	case reflect.Uint8, reflect.Uint16, reflect.Uint32, reflect.Uint64, reflect.Uint:
		var x big.Int
		if _, ok := x.SetString(e.atom, 10); !ok || e.isLst || !x.IsUint64() {
			return bad()
		}
		v.SetUint(x.Uint64())
		return nil
	case reflect.Int8, reflect.Int16, reflect.Int32, reflect.Int64, reflect.Int:
		var x big.Int
		if _, ok := x.SetString(e.atom, 10); !ok || e.isLst || !x.IsInt64() {
			return bad()
		}
		v.SetInt(x.Int64())
		return nil
	case reflect.Bool:
		v.SetBool(e.atom == "T")
		return nil
	case reflect.String:
		if e.isLst || !strings.HasPrefix(e.atom, "x") {
			return bad()
		}
		b, err := hex.DecodeString(e.atom[1:])
		if err != nil {
			return err
		}
		v.SetString(string(b))
		return nil
	case reflect.Pointer:
		if !e.isLst {
			if e.atom != "~" {
				return bad()
			}
			return nil
		}
		if len(e.list) != 1 {
			return bad()
		}
		p := reflect.New(t.Elem())
		if err := fill(e.list[0], p.Elem()); err != nil {
			return err
		}
		v.Set(p)
		return nil
	case reflect.Array, reflect.Slice:
		if t.Elem().Kind() == reflect.Uint8 && !e.isLst {
			if !strings.HasPrefix(e.atom, "x") {
				return bad()
			}
			b, err := hex.DecodeString(e.atom[1:])
			if err != nil {
				return err
			}
			if t.Kind() == reflect.Array {
				if len(b) != t.Len() {
					return bad()
				}
				for i, x := range b {
					v.Index(i).SetUint(uint64(x))
				}
				return nil
			}
			if len(b) == 0 {
				return nil
			}
			s := reflect.MakeSlice(t, len(b), len(b))
			for i, x := range b {
				s.Index(i).SetUint(uint64(x))
			}
			v.Set(s)
			return nil
		}
		if !e.isLst {
			return bad()
		}
		if t.Kind() == reflect.Array {
			if len(e.list) != t.Len() {
				return bad()
			}
			for i, x := range e.list {
				if err := fill(x, v.Index(i)); err != nil {
					return err
				}
			}
			return nil
		}
		if len(e.list) == 0 {
			return nil
		}
		s := reflect.MakeSlice(t, len(e.list), len(e.list))
		for i, x := range e.list {
			if err := fill(x, s.Index(i)); err != nil {
				return err
			}
		}
		v.Set(s)
		return nil
	case reflect.Struct:
		if !e.isLst {
			return bad()
		}
		if isSum(t) {
			if len(e.list) != 2 || !strings.HasPrefix(e.list[0].atom, ":") {
				return bad()
			}
			name := e.list[0].atom[1:]
			access(v.FieldByName("SumType")).SetString(name)
			if name == "" {
				return nil
			}
			f := v.FieldByName(name)
			if !f.IsValid() {
				return nil
			}
			return fill(e.list[1], f)
		}
		open := openTypes[base]
		if len(e.list) > 0 && e.list[0].isLst && len(e.list[0].list) == 2 && strings.HasPrefix(e.list[0].list[0].atom, ":@") {
			// fields given by name
			for _, ent := range e.list {
				if !ent.isLst || len(ent.list) != 2 || !strings.HasPrefix(ent.list[0].atom, ":@") {
					return bad()
				}
				f := v.FieldByName(ent.list[0].atom[2:])
				if !f.IsValid() {
					return bad()
				}
				if err := fill(ent.list[1], f); err != nil {
					return err
				}
			}
			return nil
		}
		k := 0
		for i := 0; i < t.NumField(); i++ {
			if !t.Field(i).IsExported() && !open {
				continue
			}
			if k >= len(e.list) {
				return bad()
			}
			if err := fill(e.list[k], v.Field(i)); err != nil {
				return err
			}
			k++
		}
		if k != len(e.list) {
			return bad()
		}
		return nil
	}
	return fmt.Errorf("cannot read a value of %v", t)
}
