package tlbx

import "reflect"

// ModelSafe reports whether the value stays inside what the Lean model covers: no non-empty dictionary, no
// constructor whose payload is an unmodelled codec.
func ModelSafe(u *Universe, d *Desc, v reflect.Value) bool {
	v = access(v)
	switch d.Kind {
	case KNamed:
		body := u.Named[d.Name]
		if body == nil {
			return false
		}
		return ModelSafe(u, body, v)
	case KStruct:
		for _, f := range d.Fields {
			if !ModelSafe(u, f.T, v.Field(f.Index)) {
				return false
			}
		}
		return true
	case KSum:
		name := sumName(v)
		for _, c := range d.Ctors {
			if c.Name == name {
				return ModelSafe(u, c.T, v.Field(c.Index))
			}
		}
		return true
	case KPtr:
		if v.IsNil() {
			return true
		}
		return ModelSafe(u, d.Elem, v.Elem())
	case KMaybe:
		if !v.FieldByName("Exists").Bool() {
			return true
		}
		return ModelSafe(u, d.Elem, v.FieldByName("Value"))
	case KEither:
		if v.FieldByName("IsRight").Bool() {
			return ModelSafe(u, d.Elem2, v.FieldByName("Right"))
		}
		return ModelSafe(u, d.Elem, v.FieldByName("Left"))
	case KEitherRef, KRef:
		return ModelSafe(u, d.Elem, v.FieldByName("Value"))
	case KVmStack, KChain:
		for i := 0; i < v.Len(); i++ {
			if !ModelSafe(u, d.Elem, v.Index(i)) {
				return false
			}
		}
		return true
	case KDictE, KDict:
		m := v
		if d.Kind == KDictE {
			m = access(v.FieldByName("m"))
		}
		vals := access(m.FieldByName("values"))
		if access(m.FieldByName("keys")).Len() != vals.Len() {
			return false
		}
		for i := 0; i < vals.Len(); i++ {
			if !ModelSafe(u, d.Elem2, vals.Index(i)) {
				return false
			}
		}
		return true
	case KCustom:
		return ModelSafe(u, d.Elem, v)
	case KBinTree:
		vals := v.FieldByName("Values")
		for i := 0; i < vals.Len(); i++ {
			if !ModelSafe(u, d.Elem, vals.Index(i)) {
				return false
			}
		}
		return true
	case KDictAugE, KDictAug:
		m := v
		if d.Kind == KDictAugE {
			if !ModelSafe(u, d.Elem3, v.FieldByName("extra")) {
				return false
			}
			m = access(v.FieldByName("m"))
		}
		vals := access(m.FieldByName("values"))
		for i := 0; i < vals.Len(); i++ {
			if !ModelSafe(u, d.Elem2, vals.Index(i)) {
				return false
			}
		}
		return true
	case KEncErr, KOpaque, KUnsupported:
		return false
	}
	return true
}
