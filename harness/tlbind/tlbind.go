// Package tlbind is translator X7: the output of tongo's TL schema compiler (liteclient/generated.go, or the text the
// generator returns for a sampled schema) as data.
package tlbind

import (
	"bytes"
	"fmt"
	"go/ast"
	"go/parser"
	"go/printer"
	"go/token"
	"os"
	"path/filepath"
	"regexp"
	"sort"
	"strconv"
	"strings"

	"verifharness/tlmini"
)

// X7: liteclient/generated.go as a Lean value (TongoGen/TlBindings.lean). generated.go is completely regular code;
// every struct declaration, every MarshalTL / UnmarshalTL body, every (*Client).<F> method and the request decoder
// table are matched against the few statement shapes the generator emits and turned into `Tongo.Tl.Bind.Bindings`.
// ANY statement outside these shapes makes the translation fail (a broken proof obligation, not a pass).
const tbParts = 8

type tbStep struct {
	field string // "" = empty guarded block
	flag  string
	bit   int
	cond  bool
}

type tbStruct struct {
	names []string
	tys   []string // Lean GoTy terms
}

type tbCase struct {
	sumType string
	tag     uint64
	variant string
	steps   []tbStep
}

type tbType struct {
	name      string
	isSum     bool
	st        tbStruct
	variants  []string
	vstructs  []tbStruct
	marshal   []tbStep
	unmarshal []tbStep
	mcases    []tbCase
	ucases    []tbCase
	hasM      bool
	hasU      bool
}

var tbFset = token.NewFileSet()

func tbNorm(n ast.Node) string {
	var buf bytes.Buffer
	printer.Fprint(&buf, tbFset, n)
	return strings.Join(strings.Fields(buf.String()), " ")
}

func tbGoTy(e ast.Expr) (string, error) {
	switch t := e.(type) {
	case *ast.Ident:
		switch t.Name {
		case "uint32":
			return ".u32", nil
		case "uint64":
			return ".u64", nil
		case "string":
			return ".str", nil
		case "bool":
			return ".bool", nil
		}
		if ast.IsExported(t.Name) {
			return fmt.Sprintf("(.named %q)", t.Name), nil
		}
	case *ast.SelectorExpr:
		if tbNorm(t) == "tl.Int256" {
			return ".int256", nil
		}
	case *ast.ArrayType:
		if t.Len == nil {
			if id, ok := t.Elt.(*ast.Ident); ok && id.Name == "byte" {
				return ".bytes", nil
			}
			in, err := tbGoTy(t.Elt)
			if err != nil {
				return "", err
			}
			return "(.slice " + in + ")", nil
		}
	case *ast.StarExpr:
		in, err := tbGoTy(t.X)
		if err != nil {
			return "", err
		}
		return "(.ptr " + in + ")", nil
	}
	return "", fmt.Errorf("field type outside the translated subset: %s", tbNorm(e))
}

func tbStructOf(st *ast.StructType, allowSum bool) (tbStruct, bool, error) {
	var s tbStruct
	sum := false
	for _, f := range st.Fields.List {
		if len(f.Names) == 0 {
			if allowSum && tbNorm(f.Type) == "tl.SumType" {
				sum = true
				continue
			}
			return s, false, fmt.Errorf("embedded field %s", tbNorm(f.Type))
		}
		if sum {
			continue // variants are read by the caller
		}
		ty, err := tbGoTy(f.Type)
		if err != nil {
			return s, false, err
		}
		for _, n := range f.Names {
			s.names = append(s.names, n.Name)
			s.tys = append(s.tys, ty)
		}
	}
	return s, sum, nil
}

var (
	reErrNil2   = "if err != nil { return nil, err }"
	reErrNil1   = "if err != nil { return err }"
	reMarshal   = regexp.MustCompile(`^b, err = tl\.Marshal\(t((?:\.\w+)+)\)$`)
	reTagWrite  = regexp.MustCompile(`^b, err = tl\.Marshal\(uint32\((0x[0-9a-f]+)\)\)$`)
	reUnmarshal = regexp.MustCompile(`^err = tl\.Unmarshal\(r, &t((?:\.\w+)+)\)$`)
	reGuard     = regexp.MustCompile(`^\(t\.(\w+)>>(\d+)\)&1 == 1$`)
	reTempDecl  = regexp.MustCompile(`^var temp(\w+) (.+)$`)
	reTempRead  = regexp.MustCompile(`^err = tl\.Unmarshal\(r, &temp(\w+)\)$`)
	reTempSet   = regexp.MustCompile(`^t((?:\.\w+)+) = (&?)temp(\w+)$`)
)

// path ".A.B" relative to the receiver; prefix is "" for plain structs and ".<Variant>" inside a sum case
func tbField(path, prefix string) (string, error) {
	if !strings.HasPrefix(path, prefix+".") {
		return "", fmt.Errorf("access t%s outside t%s", path, prefix)
	}
	f := path[len(prefix)+1:]
	if strings.Contains(f, ".") {
		return "", fmt.Errorf("nested access t%s", path)
	}
	return f, nil
}

// marshal groups: `b, err = tl.Marshal(t.F); if err..; _, err = buf.Write(b); if err..` possibly inside a guard
func tbMarshalSteps(stmts []ast.Stmt, prefix string, guarded bool) ([]tbStep, error) {
	var out []tbStep
	i := 0
	for i < len(stmts) {
		if ifs, ok := stmts[i].(*ast.IfStmt); ok && !guarded && ifs.Init == nil && ifs.Else == nil {
			m := reGuard.FindStringSubmatch(tbNorm(ifs.Cond))
			if m == nil {
				return nil, fmt.Errorf("MarshalTL: unexpected condition %s", tbNorm(ifs.Cond))
			}
			in, err := tbMarshalSteps(ifs.Body.List, prefix, true)
			if err != nil || len(in) != 1 {
				return nil, fmt.Errorf("MarshalTL: guarded block must hold exactly one write (%v)", err)
			}
			bit, _ := strconv.Atoi(m[2])
			in[0].cond, in[0].flag, in[0].bit = true, m[1], bit
			out = append(out, in[0])
			i++
			continue
		}
		if i+3 >= len(stmts) {
			return nil, fmt.Errorf("MarshalTL: incomplete write group at %s", tbNorm(stmts[i]))
		}
		m := reMarshal.FindStringSubmatch(tbNorm(stmts[i]))
		if m == nil || tbNorm(stmts[i+1]) != reErrNil2 || tbNorm(stmts[i+2]) != "_, err = buf.Write(b)" || tbNorm(stmts[i+3]) != reErrNil2 {
			return nil, fmt.Errorf("MarshalTL: statement outside the translated shapes: %s", tbNorm(stmts[i]))
		}
		f, err := tbField(m[1], prefix)
		if err != nil {
			return nil, err
		}
		out = append(out, tbStep{field: f})
		i += 4
	}
	return out, nil
}

func tbUnmarshalSteps(stmts []ast.Stmt, prefix string) ([]tbStep, error) {
	var out []tbStep
	i := 0
	for i < len(stmts) {
		if ifs, ok := stmts[i].(*ast.IfStmt); ok && ifs.Init == nil && ifs.Else == nil && tbNorm(ifs) != reErrNil1 {
			m := reGuard.FindStringSubmatch(tbNorm(ifs.Cond))
			if m == nil {
				return nil, fmt.Errorf("UnmarshalTL: unexpected condition %s", tbNorm(ifs.Cond))
			}
			bit, _ := strconv.Atoi(m[2])
			st := tbStep{cond: true, flag: m[1], bit: bit}
			b := ifs.Body.List
			switch len(b) {
			case 0: // conditional `true`: nothing is read
			case 4:
				d := reTempDecl.FindStringSubmatch(tbNorm(b[0]))
				r := reTempRead.FindStringSubmatch(tbNorm(b[1]))
				a := reTempSet.FindStringSubmatch(tbNorm(b[3]))
				if d == nil || r == nil || a == nil || tbNorm(b[2]) != reErrNil1 || d[1] != r[1] || a[3] != d[1] {
					return nil, fmt.Errorf("UnmarshalTL: guarded block outside the translated shapes: %s", tbNorm(ifs.Body))
				}
				f, err := tbField(a[1], prefix)
				if err != nil {
					return nil, err
				}
				if f != d[1] {
					return nil, fmt.Errorf("UnmarshalTL: temp%s assigned to field %s", d[1], f)
				}
				st.field = f
			default:
				return nil, fmt.Errorf("UnmarshalTL: guarded block outside the translated shapes: %s", tbNorm(ifs.Body))
			}
			out = append(out, st)
			i++
			continue
		}
		if i+1 >= len(stmts) {
			return nil, fmt.Errorf("UnmarshalTL: incomplete read group at %s", tbNorm(stmts[i]))
		}
		m := reUnmarshal.FindStringSubmatch(tbNorm(stmts[i]))
		if m == nil || tbNorm(stmts[i+1]) != reErrNil1 {
			return nil, fmt.Errorf("UnmarshalTL: statement outside the translated shapes: %s", tbNorm(stmts[i]))
		}
		f, err := tbField(m[1], prefix)
		if err != nil {
			return nil, err
		}
		out = append(out, tbStep{field: f})
		i += 2
	}
	return out, nil
}

func tbMarshal(t *tbType, body []ast.Stmt) error {
	if len(body) == 1 && tbNorm(body[0]) == "return nil, nil" {
		return nil // constructor without encoded fields
	}
	if len(body) < 3 || tbNorm(body[0]) != "var ( err error b []byte )" || tbNorm(body[1]) != "buf := new(bytes.Buffer)" ||
		tbNorm(body[len(body)-1]) != "return buf.Bytes(), nil" {
		return fmt.Errorf("%s.MarshalTL: frame outside the translated shape", t.name)
	}
	mid := body[2 : len(body)-1]
	if !t.isSum {
		st, err := tbMarshalSteps(mid, "", false)
		t.marshal = st
		return err
	}
	sw, ok := mid[0].(*ast.SwitchStmt)
	if len(mid) != 1 || !ok || tbNorm(sw.Tag) != "t.SumType" {
		return fmt.Errorf("%s.MarshalTL: expected a single switch over t.SumType", t.name)
	}
	for _, c := range sw.Body.List {
		cc := c.(*ast.CaseClause)
		if cc.List == nil {
			if tbNorm(cc) != `default: return nil, fmt.Errorf("invalid sum type")` {
				return fmt.Errorf("%s.MarshalTL: default clause %s", t.name, tbNorm(cc))
			}
			continue
		}
		name, err := strconv.Unquote(tbNorm(cc.List[0]))
		if err != nil || len(cc.List) != 1 || len(cc.Body) < 3 {
			return fmt.Errorf("%s.MarshalTL: case %s", t.name, tbNorm(cc.List[0]))
		}
		m := reTagWrite.FindStringSubmatch(tbNorm(cc.Body[0]))
		if m == nil || tbNorm(cc.Body[1]) != reErrNil2 || tbNorm(cc.Body[2]) != "_, err = buf.Write(b)" {
			return fmt.Errorf("%s.MarshalTL case %s: tag write outside the translated shape", t.name, name)
		}
		tag, _ := strconv.ParseUint(m[1], 0, 64)
		// every field access of the case goes through ONE variant
		variant := name
		if err := tbRewriteGuards(cc.Body[3:], variant); err != nil {
			return fmt.Errorf("%s case %s: %v", t.name, name, err)
		}
		steps, err := tbMarshalSteps(cc.Body[3:], "."+variant, false)
		if err != nil {
			return fmt.Errorf("%s case %s: %v", t.name, name, err)
		}
		t.mcases = append(t.mcases, tbCase{sumType: name, tag: tag, variant: variant, steps: steps})
	}
	return nil
}

func tbUnmarshal(t *tbType, body []ast.Stmt) error {
	if len(body) == 0 || tbNorm(body[len(body)-1]) != "return nil" {
		return fmt.Errorf("%s.UnmarshalTL: frame outside the translated shape", t.name)
	}
	if len(body) == 1 {
		return nil
	}
	if tbNorm(body[0]) != "var err error" {
		return fmt.Errorf("%s.UnmarshalTL: frame outside the translated shape", t.name)
	}
	mid := body[1 : len(body)-1]
	if !t.isSum {
		st, err := tbUnmarshalSteps(mid, "")
		t.unmarshal = st
		return err
	}
	if len(mid) != 5 || tbNorm(mid[0]) != "var b [4]byte" || tbNorm(mid[1]) != "_, err = io.ReadFull(r, b[:])" ||
		tbNorm(mid[2]) != reErrNil1 || tbNorm(mid[3]) != "tag := int(binary.LittleEndian.Uint32(b[:]))" {
		return fmt.Errorf("%s.UnmarshalTL: tag read outside the translated shape", t.name)
	}
	sw, ok := mid[4].(*ast.SwitchStmt)
	if !ok || tbNorm(sw.Tag) != "tag" {
		return fmt.Errorf("%s.UnmarshalTL: expected a switch over tag", t.name)
	}
	for _, c := range sw.Body.List {
		cc := c.(*ast.CaseClause)
		if cc.List == nil {
			if tbNorm(cc) != `default: return fmt.Errorf("invalid tag")` {
				return fmt.Errorf("%s.UnmarshalTL: default clause %s", t.name, tbNorm(cc))
			}
			continue
		}
		tag, err := strconv.ParseUint(tbNorm(cc.List[0]), 0, 64)
		if err != nil || len(cc.List) != 1 || len(cc.Body) < 1 {
			return fmt.Errorf("%s.UnmarshalTL: case %s", t.name, tbNorm(cc.List[0]))
		}
		m := regexp.MustCompile(`^t\.SumType = ("\w+")$`).FindStringSubmatch(tbNorm(cc.Body[0]))
		if m == nil {
			return fmt.Errorf("%s.UnmarshalTL case %#x: SumType assignment expected, got %s", t.name, tag, tbNorm(cc.Body[0]))
		}
		name, _ := strconv.Unquote(m[1])
		// the variant that is read: taken from the accesses themselves (they must all go through one variant)
		variant := name
		if len(cc.Body) > 1 {
			if mm := regexp.MustCompile(`&t\.(\w+)\.`).FindStringSubmatch(tbNorm(cc.Body[1])); mm != nil {
				variant = mm[1]
			} else if ifs, ok := cc.Body[1].(*ast.IfStmt); ok {
				if mm := regexp.MustCompile(`t\.(\w+)\.\w+ = `).FindStringSubmatch(tbNorm(ifs.Body)); mm != nil {
					variant = mm[1]
				}
			}
		}
		steps, err := tbUnmarshalStepsSum(cc.Body[1:], variant)
		if err != nil {
			return fmt.Errorf("%s case %#x: %v", t.name, tag, err)
		}
		t.ucases = append(t.ucases, tbCase{sumType: name, tag: tag, variant: variant, steps: steps})
	}
	return nil
}

// inside a sum case the guards read t.<Variant>.<Flag>
var reGuardSum = regexp.MustCompile(`^\(t\.(\w+)\.(\w+)>>(\d+)\)&1 == 1$`)

// tbRewriteGuards: inside a sum case a guard reads `(t.<Variant>.<Flag>>>N)&1 == 1`; the variant is checked here and the
// guard rewritten to the plain form `(t.<Flag>>>N)&1 == 1`
func tbRewriteGuards(stmts []ast.Stmt, variant string) error {
	for _, s := range stmts {
		if ifs, ok := s.(*ast.IfStmt); ok && tbNorm(ifs) != reErrNil1 && tbNorm(ifs) != reErrNil2 {
			m := reGuardSum.FindStringSubmatch(tbNorm(ifs.Cond))
			if m == nil || m[1] != variant {
				return fmt.Errorf("guard %s does not read a flag of variant %s", tbNorm(ifs.Cond), variant)
			}
			ifs.Cond = &ast.Ident{Name: fmt.Sprintf("(t.%s>>%s)&1 == 1", m[2], m[3])}
		}
	}
	return nil
}

func tbUnmarshalStepsSum(stmts []ast.Stmt, variant string) ([]tbStep, error) {
	if err := tbRewriteGuards(stmts, variant); err != nil {
		return nil, err
	}
	return tbUnmarshalSteps(stmts, "."+variant)
}

func tbLeanSteps(ss []tbStep) string {
	var xs []string
	for _, s := range ss {
		f, g := "none", "none"
		if s.field != "" {
			f = fmt.Sprintf("some %q", s.field)
		}
		if s.cond {
			g = fmt.Sprintf("some (%q, %d)", s.flag, s.bit)
		}
		xs = append(xs, fmt.Sprintf("⟨%s, %s⟩", f, g))
	}
	return "[" + strings.Join(xs, ", ") + "]"
}

func tbLeanStruct(s tbStruct) string {
	var xs []string
	for i := range s.names {
		xs = append(xs, fmt.Sprintf("(%q, %s)", s.names[i], s.tys[i]))
	}
	return "[" + strings.Join(xs, ", ") + "]"
}

type tbMethod struct {
	name, request, result string
	reqID, errTag         uint64
	resTag                uint64
	hasResTag             bool
}

var (
	reReqStruct = regexp.MustCompile("^payload, err := tl\\.Marshal\\(struct \\{ tl\\.SumType Req (\\w+) `tlSumType:\"([0-9a-f]{8})\"` \\}\\{SumType: \"Req\", Req: request\\}\\)$")
	rePutID     = regexp.MustCompile(`^binary\.LittleEndian\.PutUint32\(payload, (0x[0-9a-f]+)\)$`)
	reTagIf     = regexp.MustCompile(`^if tag == (0x[0-9a-f]+) \{ (.*) \}$`)
)

func tbClientMethod(fd *ast.FuncDecl) (*tbMethod, error) {
	m := &tbMethod{name: fd.Name.Name}
	params := fd.Type.Params.List
	res := fd.Type.Results.List
	if len(res) != 2 || tbNorm(res[1].Type) != "error" || len(res[0].Names) != 1 || res[0].Names[0].Name != "res" {
		return nil, fmt.Errorf("%s: result list outside the translated shape", m.name)
	}
	m.result = tbNorm(res[0].Type)
	b := fd.Body.List
	i := 0
	switch len(params) {
	case 1:
		if len(b) < 2 || tbNorm(b[0]) != "payload := make([]byte, 4)" {
			return nil, fmt.Errorf("%s: payload construction", m.name)
		}
		mm := rePutID.FindStringSubmatch(tbNorm(b[1]))
		if mm == nil {
			return nil, fmt.Errorf("%s: request id write %s", m.name, tbNorm(b[1]))
		}
		m.reqID, _ = strconv.ParseUint(mm[1], 0, 64)
		i = 2
	case 2:
		if tbNorm(params[1].Names[0]) != "request" || len(b) < 2 {
			return nil, fmt.Errorf("%s: parameter list", m.name)
		}
		mm := reReqStruct.FindStringSubmatch(tbNorm(b[0]))
		if mm == nil || mm[1] != tbNorm(params[1].Type) || tbNorm(b[1]) != "if err != nil { return res, err }" {
			return nil, fmt.Errorf("%s: request marshalling outside the translated shape: %s", m.name, tbNorm(b[0]))
		}
		m.request = mm[1]
		m.reqID, _ = strconv.ParseUint(mm[2], 16, 64)
		i = 2
	default:
		return nil, fmt.Errorf("%s: parameter list", m.name)
	}
	rest := b[i:]
	want := []string{"resp, err := c.liteServerRequest(ctx, payload)", "if err != nil { return res, err }",
		`if len(resp) < 4 { return res, fmt.Errorf("not enough bytes for tag") }`, "tag := binary.LittleEndian.Uint32(resp[:4])"}
	if len(rest) < 6 {
		return nil, fmt.Errorf("%s: body too short", m.name)
	}
	for k, w := range want {
		if tbNorm(rest[k]) != w {
			return nil, fmt.Errorf("%s: statement outside the translated shapes: %s", m.name, tbNorm(rest[k]))
		}
	}
	e := reTagIf.FindStringSubmatch(tbNorm(rest[4]))
	if e == nil || e[2] != "var errRes LiteServerErrorC err = tl.Unmarshal(bytes.NewReader(resp[4:]), &errRes) if err != nil { return res, err } return res, errRes" {
		return nil, fmt.Errorf("%s: error branch outside the translated shape", m.name)
	}
	m.errTag, _ = strconv.ParseUint(e[1], 0, 64)
	tail := rest[5:]
	switch {
	case len(tail) == 2 && tbNorm(tail[1]) == `return res, fmt.Errorf("invalid tag")`:
		r := reTagIf.FindStringSubmatch(tbNorm(tail[0]))
		if r == nil || r[2] != "err = tl.Unmarshal(bytes.NewReader(resp[4:]), &res) return res, err" {
			return nil, fmt.Errorf("%s: result branch outside the translated shape", m.name)
		}
		m.resTag, _ = strconv.ParseUint(r[1], 0, 64)
		m.hasResTag = true
	case len(tail) == 2 && tbNorm(tail[0]) == "err = tl.Unmarshal(bytes.NewReader(resp), &res)" && tbNorm(tail[1]) == "return res, err":
	default:
		return nil, fmt.Errorf("%s: result handling outside the translated shapes", m.name)
	}
	return m, nil
}

var (
	reTaggedM = regexp.MustCompile(`^\{ var tag uint32 = (0x[0-9a-f]+) buf := new\(bytes\.Buffer\) b, err := tl\.Marshal\(tag\) if err != nil \{ return nil, err \} _, err = buf\.Write\(b\) if err != nil \{ return nil, err \} b, err = tl\.Marshal\((\w+)\(t\)\) if err != nil \{ return nil, err \} _, err = buf\.Write\(b\) if err != nil \{ return nil, err \} return buf\.Bytes\(\), nil \}$`)
	reTaggedU = regexp.MustCompile(`^\{ var \( res (\w+) tag uint32 \) err := tl\.Unmarshal\(r, &tag\) if err != nil \{ return err \} if tag != (0x[0-9a-f]+) \{ return fmt\.Errorf\("invalid tag"\) \} err = tl\.Unmarshal\(r, &res\) if err != nil \{ return err \} \*t = (\w+)\(res\) return nil \}$`)
)

// tbTagged: the hand-written boxed wrappers of liteclient/extensions.go (`type X XC` with a MarshalTL that writes a tag
// literal and then XC(t), and the mirror-image UnmarshalTL). Every MarshalTL / UnmarshalTL of that file must have this
// shape; other methods of the file (conversions, predicates) are not codecs and are skipped.
type tbTag struct {
	name  string
	tag   uint64
	inner string
}

func tbTagged(repo string) ([]tbTag, error) {
	file, err := parser.ParseFile(tbFset, filepath.Join(repo, "liteclient", "extensions.go"), nil, 0)
	if err != nil {
		return nil, err
	}
	alias := map[string]string{}
	var order []string
	mTag, uTag := map[string]string{}, map[string]string{}
	for _, d := range file.Decls {
		switch d := d.(type) {
		case *ast.GenDecl:
			if d.Tok != token.TYPE {
				continue
			}
			for _, sp := range d.Specs {
				ts := sp.(*ast.TypeSpec)
				if id, ok := ts.Type.(*ast.Ident); ok && ts.Assign == token.NoPos {
					alias[ts.Name.Name] = id.Name
					order = append(order, ts.Name.Name)
				}
			}
		case *ast.FuncDecl:
			if d.Recv == nil || (d.Name.Name != "MarshalTL" && d.Name.Name != "UnmarshalTL") {
				continue
			}
			recv := tbNorm(d.Recv.List[0].Type)
			body := tbNorm(d.Body)
			if d.Name.Name == "MarshalTL" {
				m := reTaggedM.FindStringSubmatch(body)
				if m == nil || alias[recv] != m[2] || tbNorm(d.Recv.List[0].Names[0]) != "t" {
					return nil, fmt.Errorf("extensions.go: %s.MarshalTL outside the translated shape: %s", recv, body)
				}
				mTag[recv] = m[1]
			} else {
				name := strings.TrimPrefix(recv, "*")
				m := reTaggedU.FindStringSubmatch(body)
				if m == nil || !strings.HasPrefix(recv, "*") || alias[name] != m[1] || m[3] != name ||
					len(d.Type.Params.List) != 1 || tbNorm(d.Type.Params.List[0].Type) != "io.Reader" || tbNorm(d.Type.Params.List[0].Names[0]) != "r" {
					return nil, fmt.Errorf("extensions.go: %s.UnmarshalTL outside the translated shape: %s", recv, body)
				}
				uTag[name] = m[2]
			}
		}
	}
	var out []tbTag
	for _, n := range order {
		mt, okM := mTag[n]
		ut, okU := uTag[n]
		if !okM && !okU {
			continue
		}
		if !okM || !okU || mt != ut {
			return nil, fmt.Errorf("extensions.go: %s: MarshalTL tag %q, UnmarshalTL tag %q", n, mt, ut)
		}
		v, _ := strconv.ParseUint(mt, 0, 64)
		out = append(out, tbTag{n, v, alias[n]})
	}
	return out, nil
}

type tbDecoder struct {
	key, tag      uint64
	tlName, goTyp string
}

// Extracted is everything X7 reads from one generated file (+ the tagged wrappers of extensions.go, if any).
type Extracted struct {
	order    []string
	types    map[string]*tbType
	methods  []*tbMethod
	decoders []tbDecoder
	tagged   []tbTag
}

// ExtractRepo reads liteclient/generated.go and liteclient/extensions.go of the repository.
func ExtractRepo(repo string) (*Extracted, error) {
	x, err := extract(filepath.Join(repo, "liteclient", "generated.go"), nil)
	if err != nil {
		return nil, err
	}
	x.tagged, err = tbTagged(repo)
	return x, err
}

// ExtractSource reads generator output given as text (a sampled schema compiled in memory).
func ExtractSource(src string) (*Extracted, error) { return extract("generated.go", src) }

func extract(filename string, src any) (*Extracted, error) {
	x, err := extract0(filename, src)
	if err != nil {
		return nil, err
	}
	for _, n := range x.order {
		t := x.types[n]
		if !t.hasU || (!t.hasM && len(t.st.names) > 0) {
			return nil, fmt.Errorf("type %s lacks a generated codec method", n)
		}
	}
	return x, nil
}

func extract0(filename string, src any) (*Extracted, error) {
	file, err := parser.ParseFile(tbFset, filename, src, 0)
	if err != nil {
		return nil, err
	}
	types := map[string]*tbType{}
	var order []string
	var methods []*tbMethod
	decodeVars := map[string][3]string{} // var -> tag, nameConst, goType
	tableKeys := [][2]string{}           // key, var
	nameConsts := map[string]string{}
	for _, d := range file.Decls {
		switch d := d.(type) {
		case *ast.GenDecl:
			switch d.Tok {
			case token.IMPORT:
			case token.TYPE:
				for _, sp := range d.Specs {
					ts := sp.(*ast.TypeSpec)
					st, ok := ts.Type.(*ast.StructType)
					if !ok {
						return nil, fmt.Errorf("type %s is not a struct", ts.Name.Name)
					}
					t := &tbType{name: ts.Name.Name}
					s, sum, err := tbStructOf(st, true)
					if err != nil {
						return nil, fmt.Errorf("type %s: %v", t.name, err)
					}
					t.st, t.isSum = s, sum
					if sum {
						for _, f := range st.Fields.List {
							if len(f.Names) == 0 {
								continue
							}
							vs, ok := f.Type.(*ast.StructType)
							if !ok || len(f.Names) != 1 {
								return nil, fmt.Errorf("sum type %s: variant %s is not an inline struct", t.name, tbNorm(f.Type))
							}
							v, _, err := tbStructOf(vs, false)
							if err != nil {
								return nil, fmt.Errorf("type %s: %v", t.name, err)
							}
							t.variants = append(t.variants, f.Names[0].Name)
							t.vstructs = append(t.vstructs, v)
						}
					}
					types[t.name] = t
					order = append(order, t.name)
				}
			case token.VAR:
				for _, sp := range d.Specs {
					vs := sp.(*ast.ValueSpec)
					if len(vs.Names) != 1 || len(vs.Values) != 1 {
						return nil, fmt.Errorf("var declaration outside the translated shapes: %s", tbNorm(vs))
					}
					name := vs.Names[0].Name
					if name == "taggedRequestDecodeFunctions" {
						cl, ok := vs.Values[0].(*ast.CompositeLit)
						if !ok || tbNorm(cl.Type) != "map[uint32]reqDecoderFunc" {
							return nil, fmt.Errorf("taggedRequestDecodeFunctions: unexpected type")
						}
						for _, e := range cl.Elts {
							kv := e.(*ast.KeyValueExpr)
							tableKeys = append(tableKeys, [2]string{tbNorm(kv.Key), tbNorm(kv.Value)})
						}
						continue
					}
					m := regexp.MustCompile(`^decodeRequest\((0x[0-9a-f]+), (\w+), (\w+)\{\}\)$`).FindStringSubmatch(tbNorm(vs.Values[0]))
					if m == nil || !strings.HasPrefix(name, "decodeFunc") {
						return nil, fmt.Errorf("var %s outside the translated shapes", name)
					}
					decodeVars[name] = [3]string{m[1], m[2], m[3]}
				}
			case token.CONST:
				for _, sp := range d.Specs {
					vs := sp.(*ast.ValueSpec)
					if len(vs.Names) != 1 || len(vs.Values) != 1 || tbNorm(vs.Type) != "RequestName" {
						return nil, fmt.Errorf("const declaration outside the translated shapes: %s", tbNorm(vs))
					}
					v, err := strconv.Unquote(tbNorm(vs.Values[0]))
					if err != nil {
						return nil, err
					}
					nameConsts[vs.Names[0].Name] = v
				}
			}
		case *ast.FuncDecl:
			if d.Recv == nil || len(d.Recv.List) != 1 {
				return nil, fmt.Errorf("function %s outside the translated shapes", d.Name.Name)
			}
			recv := tbNorm(d.Recv.List[0].Type)
			switch {
			case recv == "*Client":
				m, err := tbClientMethod(d)
				if err != nil {
					return nil, err
				}
				methods = append(methods, m)
			case d.Name.Name == "MarshalTL":
				t := types[recv]
				if t == nil || tbNorm(d.Recv.List[0].Names[0]) != "t" {
					return nil, fmt.Errorf("MarshalTL on unknown type %s", recv)
				}
				t.hasM = true
				if err := tbMarshal(t, d.Body.List); err != nil {
					return nil, err
				}
			case d.Name.Name == "UnmarshalTL":
				t := types[strings.TrimPrefix(recv, "*")]
				if t == nil || !strings.HasPrefix(recv, "*") || len(d.Type.Params.List) != 1 || tbNorm(d.Type.Params.List[0].Type) != "io.Reader" {
					return nil, fmt.Errorf("UnmarshalTL on unknown type %s", recv)
				}
				t.hasU = true
				if err := tbUnmarshal(t, d.Body.List); err != nil {
					return nil, err
				}
			default:
				return nil, fmt.Errorf("method %s.%s outside the translated shapes", recv, d.Name.Name)
			}
		}
	}
	x := &Extracted{order: order, types: types, methods: methods}
	for _, kv := range tableKeys {
		dv, ok := decodeVars[kv[1]]
		if !ok {
			return nil, fmt.Errorf("decoder table: unknown decoder %s", kv[1])
		}
		tln, ok := nameConsts[dv[1]]
		if !ok {
			return nil, fmt.Errorf("decoder table: unknown name constant %s", dv[1])
		}
		k, _ := strconv.ParseUint(kv[0], 0, 64)
		tg, _ := strconv.ParseUint(dv[0], 0, 64)
		x.decoders = append(x.decoders, tbDecoder{k, tg, tln, dv[2]})
	}
	sort.Slice(x.decoders, func(i, j int) bool { return x.decoders[i].key < x.decoders[j].key })
	return x, nil
}

// LeanPart emits module `part` ("defs", "P1".."P8", "All") of TongoGen/TlBindings*.lean for the repository.
func LeanPart(repo, part string) (string, error) {
	x, err := ExtractRepo(repo)
	if err != nil {
		return "", err
	}
	order, types, methods := x.order, x.types, x.methods
	var sb strings.Builder
	sb.WriteString("import TongoModel.Tl.WaitBindings\nimport TongoGen.LiteApi\n")
	sb.WriteString("/-! GENERATED by harness/cmd/extract (translator X7) from liteclient/generated.go and liteclient/extensions.go — do not edit.\n")
	sb.WriteString("Every generated struct with the step sequences of its MarshalTL / UnmarshalTL, the client methods, the request\ndecoder table; and one matcher obligation per declaration of the regenerated schema. -/\n")
	sb.WriteString("namespace Tongo.Gen\nopen Tongo.Tl Tongo.Tl.Bind\n\n")
	var entries []string
	for _, n := range order {
		t := types[n]
		if !t.hasU || (!t.hasM && len(t.st.names) > 0) {
			return "", fmt.Errorf("type %s lacks a generated codec method", n)
		}
		if t.isSum {
			var vs, ms, us []string
			for i := range t.variants {
				vs = append(vs, fmt.Sprintf("(%q, %s)", t.variants[i], tbLeanStruct(t.vstructs[i])))
			}
			for _, c := range t.mcases {
				ms = append(ms, fmt.Sprintf("{ sumType := %q, tag := 0x%08x, variant := %q, steps := %s }", c.sumType, c.tag, c.variant, tbLeanSteps(c.steps)))
			}
			for _, c := range t.ucases {
				us = append(us, fmt.Sprintf("{ tag := 0x%08x, sumType := %q, variant := %q, steps := %s }", c.tag, c.sumType, c.variant, tbLeanSteps(c.steps)))
			}
			fmt.Fprintf(&sb, "def bind_%s : Binding := .sum {\n  variants := [%s],\n  marshal := [%s],\n  unmarshal := [%s] }\n\n", n,
				strings.Join(vs, ",\n    "), strings.Join(ms, ",\n    "), strings.Join(us, ",\n    "))
		} else {
			fmt.Fprintf(&sb, "def bind_%s : Binding := .simple {\n  fields := %s,\n  marshal := %s,\n  unmarshal := %s }\n\n", n,
				tbLeanStruct(t.st), tbLeanSteps(t.marshal), tbLeanSteps(t.unmarshal))
		}
		entries = append(entries, fmt.Sprintf("(%q, bind_%s)", n, n))
	}
	var ml []string
	for _, m := range methods {
		req, rt := "none", "none"
		if m.request != "" {
			req = fmt.Sprintf("some %q", m.request)
		}
		if m.hasResTag {
			rt = fmt.Sprintf("some 0x%08x", m.resTag)
		}
		ml = append(ml, fmt.Sprintf("  { name := %q, requestId := 0x%08x, request := %s, errorTag := 0x%08x, result := %q, resultTag := %s }",
			m.name, m.reqID, req, m.errTag, m.result, rt))
	}
	var dl []string
	for _, d := range x.decoders {
		dl = append(dl, fmt.Sprintf("  { key := 0x%08x, tag := 0x%08x, tlName := %q, goType := %q }", d.key, d.tag, d.tlName, d.goTyp))
	}
	for _, tg := range x.tagged {
		entries = append(entries, fmt.Sprintf("(%q, .tagged 0x%08x %q)", tg.name, tg.tag, tg.inner))
	}
	fmt.Fprintf(&sb, "def tlBindings : Bindings := {\n  types := [%s],\n  methods := [\n%s],\n  decoders := [\n%s] }\n\n",
		strings.Join(entries, ",\n    "), strings.Join(ml, ",\n"), strings.Join(dl, ",\n"))
	wc, err := tbWait(repo, x)
	if err != nil {
		return "", err
	}
	sb.WriteString(wc)
	if part == "defs" {
		sb.WriteString("end Tongo.Gen\n")
		return sb.String(), nil
	}
	// one matcher obligation per declaration of the CURRENT schema (names read from lite_api.tl by the tokeniser of X3),
	// spread over tbParts modules so that lake checks them in parallel; part "All" assembles them
	src, err := os.ReadFile(filepath.Join(repo, "liteclient", "lite_api.tl"))
	if err != nil {
		return "", err
	}
	schema, err := tlmini.Parse(string(src))
	if err != nil {
		return "", err
	}
	q := func(xs []string) string {
		var ys []string
		for _, x := range xs {
			ys = append(ys, strconv.Quote(x))
		}
		return "[" + strings.Join(ys, ", ") + "]"
	}
	var fnames, tlemmas, flemmas []string
	obls := make([]strings.Builder, tbParts)
	k := 0
	for _, f := range schema.Funcs {
		fnames = append(fnames, f.Ctor)
	}
	for i, tn := range schema.TypeNames() {
		bare := ""
		if cs := schema.CtorsOf(tn); len(cs) == 1 {
			bare = tlmini.GoBareName(cs[0].Ctor)
		}
		o := &obls[k%tbParts]
		k++
		fmt.Fprintf(o, "/-- regenerated obligation: the generated binding of `%s` is what the schema declares -/\n", tn)
		fmt.Fprintf(o, "theorem bind_type_%d : agreeType liteApiS tlBindings %q = true :=\n  agreeType_of_L (gBare := %q) (gBoxed := %q) (by decide +kernel)\n\n", i, tn, bare, tlmini.GoBoxedName(tn))
		tlemmas = append(tlemmas, fmt.Sprintf("bind_type_%d", i))
	}
	for i, fn := range fnames {
		o := &obls[k%tbParts]
		k++
		fmt.Fprintf(o, "/-- regenerated obligation: request struct, client method and decoder entry of `%s` -/\n", fn)
		fmt.Fprintf(o, "theorem bind_func_%d : agreeFuncN liteApiS tlBindings %q = true :=\n  agreeFuncN_of_L (gReq := %q) (gMeth := %q) (by decide +kernel)\n\n", i, fn, tlmini.GoRequestName(fn), tlmini.GoMethodName(fn))
		flemmas = append(flemmas, fmt.Sprintf("bind_func_%d", i))
	}
	var out strings.Builder
	if part != "All" {
		n, _ := strconv.Atoi(part[1:])
		out.WriteString("import TongoGen.TlBindings\n/-! GENERATED (translator X7): matcher obligations, part " + part + " — do not edit. -/\n")
		out.WriteString("namespace Tongo.Gen\nopen Tongo.Tl Tongo.Tl.Bind\n\n")
		out.WriteString(obls[n-1].String())
		out.WriteString("end Tongo.Gen\n")
		return out.String(), nil
	}
	for i := 1; i <= tbParts; i++ {
		fmt.Fprintf(&out, "import TongoGen.TlBindingsP%d\n", i)
	}
	out.WriteString("/-! GENERATED (translator X7): all of generated.go matches all of lite_api.tl — do not edit. -/\n")
	out.WriteString("namespace Tongo.Gen\nopen Tongo.Tl Tongo.Tl.Bind\n\n")
	out.WriteString("theorem liteapis_type_names : typeNames liteApiS = " + q(schema.TypeNames()) + " := by decide +kernel\n\n")
	out.WriteString("theorem liteapis_func_names : liteApiS.funcs.map (·.ctor) = " + q(fnames) + " := by decide +kernel\n\n")
	out.WriteString("theorem bindings_agree_literal : agreeAll liteApiS tlBindings = true := by\n")
	out.WriteString("  have hl : (tlBindings.decoders.length == liteApiS.funcs.length && tlBindings.methods.length == liteApiS.funcs.length) = true := by\n    decide +kernel\n")
	out.WriteString("  simp only [agreeAll, liteapis_type_names, List.all_cons, List.all_nil, Bool.and_true, Bool.true_and,\n    " + strings.Join(tlemmas, ", ") + "]\n")
	out.WriteString("  rw [show liteApiS.funcs.all (fun f => agreeFuncN liteApiS tlBindings f.ctor) = (liteApiS.funcs.map (·.ctor)).all (agreeFuncN liteApiS tlBindings) by\n    rw [List.all_map]; rfl]\n")
	out.WriteString("  simp only [liteapis_func_names, List.all_cons, List.all_nil, Bool.and_true, Bool.true_and,\n    " + strings.Join(flemmas, ", ") + "]\n")
	out.WriteString("  simpa [Bool.and_assoc] using hl\n\n")
	out.WriteString("/-- regenerated obligation: the literals of the hand-written Wait methods of client.go are the ids of the schema -/\n")
	out.WriteString("theorem wait_consts_agree : waitAgree liteApiS waitConsts = true := by decide +kernel\n\n")
	out.WriteString("/-- regenerated obligation: ALL of generated.go matches ALL of lite_api.tl -/\n")
	out.WriteString("theorem bindings_agree : agreeAll liteApi tlBindings = true := by\n  rw [liteapi_literal]; exact bindings_agree_literal\n\n")
	out.WriteString("end Tongo.Gen\n")
	return out.String(), nil
}


// ------------------------------------------------------------------- hand-written request builders of client.go

var (
	reWaitSeqno = regexp.MustCompile(`^\{ data := make\(\[\]byte, 0, 12\) data = binary\.LittleEndian\.AppendUint32\(data, magicLiteServerWaitMasterchainSeqno\) data = binary\.LittleEndian\.AppendUint32\(data, seqno\) data = binary\.LittleEndian\.AppendUint32\(data, timeout\) resp, err := c\.liteServerRequest\(ctx, data\) if err != nil \{ return err \} if len\(resp\) < 4 \{ return fmt\.Errorf\("not enough bytes for tag"\) \} tag := binary\.LittleEndian\.Uint32\(resp\[:4\]\) if tag == (0x[0-9a-f]+) \{ var errRes LiteServerErrorC if err = tl\.Unmarshal\(bytes\.NewReader\(resp\[4:\]\), &errRes\); err != nil \{ return err \} if errRes\.Code == 0 \{ return nil \} return errRes \} return fmt\.Errorf\("invalid tag"\) \}$`)
	reWaitBlock = regexp.MustCompile(`^\{ var \( mc int = -1 uintMc uint32 = uint32\(mc\) \) request := (\w+)\{ Mode: (\d+), Id: (\w+)\{ Workchain: uintMc, Shard: (0x[0-9a-f]+), Seqno: seqno, \}, \} data := make\(\[\]byte, 0, 38\) data = binary\.LittleEndian\.AppendUint32\(data, magicLiteServerWaitMasterchainSeqno\) data = binary\.LittleEndian\.AppendUint32\(data, seqno\) data = binary\.LittleEndian\.AppendUint32\(data, timeout\) payload, err := tl\.Marshal\(struct \{ tl\.SumType Req (\w+) ` + "`" + `tlSumType:"([0-9a-f]{8})"` + "`" + ` \}\{SumType: "Req", Req: request\}\) if err != nil \{ return res, err \} data = append\(data, payload\.\.\.\) resp, err := c\.liteServerRequest\(ctx, data\) if err != nil \{ return res, err \} if len\(resp\) < 4 \{ return res, fmt\.Errorf\("not enough bytes for tag"\) \} tag := binary\.LittleEndian\.Uint32\(resp\[:4\]\) if tag == (0x[0-9a-f]+) \{ var errRes LiteServerErrorC if err = tl\.Unmarshal\(bytes\.NewReader\(resp\[4:\]\), &errRes\); err != nil \{ return res, err \} return res, errRes \} if tag == (0x[0-9a-f]+) \{ err = tl\.Unmarshal\(bytes\.NewReader\(resp\[4:\]\), &res\) return res, err \} return res, fmt\.Errorf\("invalid tag"\) \}$`)
)

// tbWait: (*Client).WaitMasterchainSeqno / WaitMasterchainBlock of liteclient/client.go. Both bodies must have EXACTLY the
// statement sequence of the repository (one regular expression per body over the printer-normalised text); the
// literals are what is extracted: the prefix id constant, the tag literals, the request struct literal.
func tbWait(repo string, x *Extracted) (string, error) {
	file, err := parser.ParseFile(tbFset, filepath.Join(repo, "liteclient", "client.go"), nil, 0)
	if err != nil {
		return "", err
	}
	var prefix string
	var ms, mb []string
	var resType string
	for _, d := range file.Decls {
		switch d := d.(type) {
		case *ast.GenDecl:
			if d.Tok != token.CONST {
				continue
			}
			for _, sp := range d.Specs {
				vs := sp.(*ast.ValueSpec)
				for i, n := range vs.Names {
					if n.Name == "magicLiteServerWaitMasterchainSeqno" && i < len(vs.Values) {
						prefix = tbNorm(vs.Values[i])
					}
				}
			}
		case *ast.FuncDecl:
			if d.Recv == nil || tbNorm(d.Recv.List[0].Type) != "*Client" {
				continue
			}
			switch d.Name.Name {
			case "WaitMasterchainSeqno":
				if tbNorm(d.Type) != "func(ctx context.Context, seqno uint32, timeout uint32) error" {
					return "", fmt.Errorf("WaitMasterchainSeqno: signature %s", tbNorm(d.Type))
				}
				ms = reWaitSeqno.FindStringSubmatch(tbNorm(d.Body))
				if ms == nil {
					return "", fmt.Errorf("WaitMasterchainSeqno: body outside the translated shape: %s", tbNorm(d.Body))
				}
			case "WaitMasterchainBlock":
				m := regexp.MustCompile(`^func\(ctx context\.Context, seqno uint32, timeout uint32\) \(res (\w+), err error\)$`).FindStringSubmatch(tbNorm(d.Type))
				if m == nil {
					return "", fmt.Errorf("WaitMasterchainBlock: signature %s", tbNorm(d.Type))
				}
				resType = m[1]
				mb = reWaitBlock.FindStringSubmatch(tbNorm(d.Body))
				if mb == nil {
					return "", fmt.Errorf("WaitMasterchainBlock: body outside the translated shape: %s", tbNorm(d.Body))
				}
			}
		}
	}
	pv, err := strconv.ParseUint(prefix, 0, 32)
	if err != nil || ms == nil || mb == nil {
		return "", fmt.Errorf("client.go: prefix constant or a Wait method not found")
	}
	if mb[1] != mb[5] {
		return "", fmt.Errorf("WaitMasterchainBlock: request literal of type %s marshalled as %s", mb[1], mb[5])
	}
	// the request struct literal, in the declaration order of the generated structs: fields that the literal does not
	// set must be pointers (nil = absent)
	req, id := x.types[mb[1]], x.types[mb[3]]
	if req == nil || id == nil || req.isSum || id.isSum {
		return "", fmt.Errorf("WaitMasterchainBlock: unknown request types %s / %s", mb[1], mb[3])
	}
	shard, _ := strconv.ParseUint(mb[4], 0, 64)
	var idv []string
	for i, n := range id.st.names {
		switch {
		case n == "Workchain" && id.st.tys[i] == ".u32":
			idv = append(idv, ".lit (.num 0xffffffff)") // uint32(int(-1))
		case n == "Shard" && id.st.tys[i] == ".u64":
			idv = append(idv, fmt.Sprintf(".lit (.num 0x%x)", shard))
		case n == "Seqno" && id.st.tys[i] == ".u32":
			idv = append(idv, ".seqno")
		default:
			return "", fmt.Errorf("WaitMasterchainBlock: field %s of %s not set by the literal", n, mb[3])
		}
	}
	var rv []string
	for i, n := range req.st.names {
		switch {
		case n == "Mode" && req.st.tys[i] == ".u32":
			rv = append(rv, fmt.Sprintf(".lit (.num %s)", mb[2]))
		case n == "Id" && req.st.tys[i] == fmt.Sprintf("(.named %q)", mb[3]):
			rv = append(rv, ".tuple ["+strings.Join(idv, ", ")+"]")
		case strings.HasPrefix(req.st.tys[i], "(.ptr "):
			rv = append(rv, ".lit .absent")
		default:
			return "", fmt.Errorf("WaitMasterchainBlock: field %s of %s not set by the literal and not a pointer", n, mb[1])
		}
	}
	et1, _ := strconv.ParseUint(ms[1], 0, 64)
	lid, _ := strconv.ParseUint(mb[6], 16, 64)
	et2, _ := strconv.ParseUint(mb[7], 0, 64)
	rt, _ := strconv.ParseUint(mb[8], 0, 64)
	return fmt.Sprintf("/-- the hand-written request builders `(*Client).WaitMasterchainSeqno` / `WaitMasterchainBlock` of liteclient/client.go -/\ndef waitConsts : WaitConsts := {\n  prefixId := 0x%08x, seqnoErrorTag := 0x%08x,\n  lookupRequest := %q, lookupId := 0x%08x, errorTag := 0x%08x, resultTag := 0x%08x, result := %q,\n  req := [%s] }\n\n",
		pv, et1, mb[1], lid, et2, rt, resType, strings.Join(rv, ", ")), nil
}

// ------------------------------------------------------------------------------------------------ text form

func tyTokens(lean string) string {
	return strings.Join(strings.Fields(strings.NewReplacer("(", " ", ")", " ", "\"", "", ".", "").Replace(lean)), " ")
}

func textStruct(s tbStruct) string {
	xs := []string{strconv.Itoa(len(s.names))}
	for i := range s.names {
		xs = append(xs, s.names[i], tyTokens(s.tys[i]))
	}
	return strings.Join(xs, " ")
}

func textSteps(ss []tbStep) string {
	xs := []string{strconv.Itoa(len(ss))}
	for _, s := range ss {
		f, g, b := "-", "-", 0
		if s.field != "" {
			f = s.field
		}
		if s.cond {
			g, b = s.flag, s.bit
		}
		xs = append(xs, f, g, strconv.Itoa(b))
	}
	return strings.Join(xs, " ")
}

// Text is the bindings as a flat token list (read by lean/Driver/TlBindText.lean): the same data as the Lean value.
func (x *Extracted) Text() string {
	var xs []string
	xs = append(xs, "T", strconv.Itoa(len(x.order)+len(x.tagged)))
	for _, n := range x.order {
		t := x.types[n]
		if !t.isSum {
			xs = append(xs, "S", n, textStruct(t.st), textSteps(t.marshal), textSteps(t.unmarshal))
			continue
		}
		xs = append(xs, "U", n, strconv.Itoa(len(t.variants)))
		for i := range t.variants {
			xs = append(xs, t.variants[i], textStruct(t.vstructs[i]))
		}
		xs = append(xs, strconv.Itoa(len(t.mcases)))
		for _, c := range t.mcases {
			xs = append(xs, c.sumType, strconv.FormatUint(c.tag, 10), c.variant, textSteps(c.steps))
		}
		xs = append(xs, strconv.Itoa(len(t.ucases)))
		for _, c := range t.ucases {
			xs = append(xs, strconv.FormatUint(c.tag, 10), c.sumType, c.variant, textSteps(c.steps))
		}
	}
	for _, tg := range x.tagged {
		xs = append(xs, "G", tg.name, strconv.FormatUint(tg.tag, 10), tg.inner)
	}
	xs = append(xs, "M", strconv.Itoa(len(x.methods)))
	for _, m := range x.methods {
		req, rt := "-", "-"
		if m.request != "" {
			req = m.request
		}
		if m.hasResTag {
			rt = strconv.FormatUint(m.resTag, 10)
		}
		xs = append(xs, m.name, strconv.FormatUint(m.reqID, 10), req, strconv.FormatUint(m.errTag, 10), m.result, rt)
	}
	xs = append(xs, "D", strconv.Itoa(len(x.decoders)))
	for _, d := range x.decoders {
		xs = append(xs, strconv.FormatUint(d.key, 10), strconv.FormatUint(d.tag, 10), d.tlName, d.goTyp)
	}
	return strings.Join(xs, " ")
}
