// Package abiops extracts, by go/ast, the opcode dispatch tables of package abi from the repository source:
// abi/messages_generated.go (opcodedMsgInDecodeFunctions / …ExtIn… / …ExtOut…: opcode → decodeMsg(tag, op name, Go
// type) or decodeMultipleMsgs of several), abi/jetton_msg_types.go and abi/nfts_msg_types.go (payload unions: opcode →
// decoder function → Go type and op name). The subset is deliberately small: anything else is an error.
// Used by translator AbiOpcodes (cmd/extract) and by the harness generator of C03 (cmd/vh).
package abiops

import (
	"fmt"
	"go/ast"
	"go/parser"
	"go/token"
	"path/filepath"
	"sort"
	"strconv"
)

// Entry: one registered layout. Alt > 0: the opcode has several layouts, tried in this order (decodeMultipleMsgs)
type Entry struct {
	Op     uint32
	Name   string // the op name (value of the MsgOpName / JettonOpName constant)
	GoType string // type name in package abi
	Multi  bool   // accepted only when it consumes the whole cell: listed through decodeMultipleMsgs (messages), or
	// a fixed-length layout checked with completedRead (payload unions)
}

type Table struct {
	Kind    string // in | extin | extout | jetton | nft
	Entries []Entry
}

type file struct {
	consts map[string]ast.Expr
	vars   map[string]ast.Expr
	funcs  map[string]*ast.FuncDecl
}

func load(paths ...string) (*file, error) {
	f := &file{consts: map[string]ast.Expr{}, vars: map[string]ast.Expr{}, funcs: map[string]*ast.FuncDecl{}}
	fset := token.NewFileSet()
	for _, p := range paths {
		af, err := parser.ParseFile(fset, p, nil, parser.SkipObjectResolution)
		if err != nil {
			return nil, err
		}
		for _, d := range af.Decls {
			switch d := d.(type) {
			case *ast.FuncDecl:
				if d.Recv == nil {
					f.funcs[d.Name.Name] = d
				}
			case *ast.GenDecl:
				for _, s := range d.Specs {
					vs, ok := s.(*ast.ValueSpec)
					if !ok {
						continue
					}
					for i, n := range vs.Names {
						if i >= len(vs.Values) {
							continue
						}
						if d.Tok == token.CONST {
							f.consts[n.Name] = vs.Values[i]
						} else if d.Tok == token.VAR {
							f.vars[n.Name] = vs.Values[i]
						}
					}
				}
			}
		}
	}
	return f, nil
}

func (f *file) uintOf(e ast.Expr) (uint64, error) {
	switch e := e.(type) {
	case *ast.BasicLit:
		if e.Kind == token.INT {
			return strconv.ParseUint(e.Value, 0, 64)
		}
	case *ast.Ident:
		if v, ok := f.consts[e.Name]; ok {
			return f.uintOf(v)
		}
	}
	return 0, fmt.Errorf("not an integer constant: %T", e)
}

func (f *file) stringOf(e ast.Expr) (string, error) {
	switch e := e.(type) {
	case *ast.BasicLit:
		if e.Kind == token.STRING {
			return strconv.Unquote(e.Value)
		}
	case *ast.Ident:
		if v, ok := f.consts[e.Name]; ok {
			return f.stringOf(v)
		}
	}
	return "", fmt.Errorf("not a string constant: %T", e)
}

// decodeMsg(tlb.Tag{Val: V, Len: L}, NameConst, Type{})
func (f *file) decodeMsgCall(e ast.Expr) (Entry, int, error) {
	call, ok := e.(*ast.CallExpr)
	if !ok {
		return Entry{}, 0, fmt.Errorf("not a call")
	}
	if id, ok := call.Fun.(*ast.Ident); !ok || id.Name != "decodeMsg" || len(call.Args) != 3 {
		return Entry{}, 0, fmt.Errorf("not decodeMsg(tag, name, type)")
	}
	tag, ok := call.Args[0].(*ast.CompositeLit)
	if !ok {
		return Entry{}, 0, fmt.Errorf("tag is not a composite literal")
	}
	var val, ln uint64
	for _, el := range tag.Elts {
		kv, ok := el.(*ast.KeyValueExpr)
		if !ok {
			return Entry{}, 0, fmt.Errorf("tag literal without keys")
		}
		k := kv.Key.(*ast.Ident).Name
		x, err := f.uintOf(kv.Value)
		if err != nil {
			return Entry{}, 0, err
		}
		switch k {
		case "Val":
			val = x
		case "Len":
			ln = x
		default:
			return Entry{}, 0, fmt.Errorf("unexpected tag field %s", k)
		}
	}
	name, err := f.stringOf(call.Args[1])
	if err != nil {
		return Entry{}, 0, err
	}
	cl, ok := call.Args[2].(*ast.CompositeLit)
	if !ok || len(cl.Elts) != 0 {
		return Entry{}, 0, fmt.Errorf("body type is not T{}")
	}
	tid, ok := cl.Type.(*ast.Ident)
	if !ok {
		return Entry{}, 0, fmt.Errorf("body type is not a plain identifier")
	}
	return Entry{Op: uint32(val), Name: name, GoType: tid.Name}, int(ln), nil
}

func (f *file) msgTable(kind, mapVar string) (*Table, error) {
	mv, ok := f.vars[mapVar]
	if !ok {
		return nil, fmt.Errorf("%s not found", mapVar)
	}
	lit, ok := mv.(*ast.CompositeLit)
	if !ok {
		return nil, fmt.Errorf("%s is not a map literal", mapVar)
	}
	t := &Table{Kind: kind}
	resolve := func(e ast.Expr) (Entry, error) {
		id, ok := e.(*ast.Ident)
		if !ok {
			return Entry{}, fmt.Errorf("decoder is not an identifier")
		}
		def, ok := f.vars[id.Name]
		if !ok {
			return Entry{}, fmt.Errorf("decoder %s not found", id.Name)
		}
		en, ln, err := f.decodeMsgCall(def)
		if err != nil {
			return Entry{}, fmt.Errorf("%s: %v", id.Name, err)
		}
		if ln != 32 {
			return Entry{}, fmt.Errorf("%s: opcode-table entry with a %d-bit tag", id.Name, ln)
		}
		return en, nil
	}
	for _, el := range lit.Elts {
		kv, ok := el.(*ast.KeyValueExpr)
		if !ok {
			return nil, fmt.Errorf("%s: element without key", mapVar)
		}
		op, err := f.uintOf(kv.Key)
		if err != nil {
			return nil, err
		}
		if call, ok := kv.Value.(*ast.CallExpr); ok {
			if id, ok := call.Fun.(*ast.Ident); !ok || id.Name != "decodeMultipleMsgs" || len(call.Args) != 2 {
				return nil, fmt.Errorf("%s[%#x]: unexpected call", mapVar, op)
			}
			list, ok := call.Args[0].(*ast.CompositeLit)
			if !ok || len(list.Elts) < 2 {
				return nil, fmt.Errorf("%s[%#x]: decodeMultipleMsgs needs a list of at least two decoders", mapVar, op)
			}
			for _, x := range list.Elts {
				en, err := resolve(x)
				if err != nil {
					return nil, err
				}
				if uint64(en.Op) != op {
					return nil, fmt.Errorf("%s[%#x]: decoder %s carries tag %#x", mapVar, op, en.GoType, en.Op)
				}
				en.Multi = true
				t.Entries = append(t.Entries, en)
			}
			continue
		}
		en, err := resolve(kv.Value)
		if err != nil {
			return nil, err
		}
		if uint64(en.Op) != op {
			return nil, fmt.Errorf("%s[%#x]: decoder %s carries tag %#x", mapVar, op, en.GoType, en.Op)
		}
		t.Entries = append(t.Entries, en)
	}
	sort.SliceStable(t.Entries, func(i, j int) bool { return t.Entries[i].Op < t.Entries[j].Op })
	return t, nil
}

// payload unions: map[opcode const]decodeFunc, where decodeFunc is
//   func decodeX(j *P, c *boc.Cell) error { var res T; err := tlb.Unmarshal(c, &res); if err == nil { j.SumType = NameConst; … } … }
func (f *file) payloadTable(kind, mapVar string) (*Table, error) {
	mv, ok := f.vars[mapVar]
	if !ok {
		return nil, fmt.Errorf("%s not found", mapVar)
	}
	lit, ok := mv.(*ast.CompositeLit)
	if !ok {
		return nil, fmt.Errorf("%s is not a map literal", mapVar)
	}
	t := &Table{Kind: kind}
	for _, el := range lit.Elts {
		kv, ok := el.(*ast.KeyValueExpr)
		if !ok {
			return nil, fmt.Errorf("%s: element without key", mapVar)
		}
		op, err := f.uintOf(kv.Key)
		if err != nil {
			return nil, err
		}
		id, ok := kv.Value.(*ast.Ident)
		if !ok {
			return nil, fmt.Errorf("%s[%#x]: decoder is not an identifier", mapVar, op)
		}
		fd, ok := f.funcs[id.Name]
		if !ok || fd.Body == nil {
			return nil, fmt.Errorf("%s: function %s not found", mapVar, id.Name)
		}
		var goType, name string
		complete := false
		ast.Inspect(fd.Body, func(n ast.Node) bool {
			switch n := n.(type) {
			case *ast.CallExpr:
				if id, ok := n.Fun.(*ast.Ident); ok && id.Name == "completedRead" {
					complete = true
				}
			case *ast.ValueSpec:
				if len(n.Names) == 1 && n.Names[0].Name == "res" {
					if tid, ok := n.Type.(*ast.Ident); ok {
						goType = tid.Name
					}
				}
			case *ast.AssignStmt:
				if len(n.Lhs) == 1 && len(n.Rhs) == 1 {
					if sel, ok := n.Lhs[0].(*ast.SelectorExpr); ok && sel.Sel.Name == "SumType" {
						if s, err := f.stringOf(n.Rhs[0]); err == nil {
							name = s
						}
					}
				}
			}
			return true
		})
		if goType == "" || name == "" {
			return nil, fmt.Errorf("%s: function %s is outside the subset (var res T / j.SumType = Name)", mapVar, id.Name)
		}
		t.Entries = append(t.Entries, Entry{Op: uint32(op), Name: name, GoType: goType, Multi: complete})
	}
	sort.SliceStable(t.Entries, func(i, j int) bool { return t.Entries[i].Op < t.Entries[j].Op })
	return t, nil
}

// Load reads the five tables from the repository.
func Load(repo string) ([]*Table, error) {
	abi := filepath.Join(repo, "abi")
	f, err := load(filepath.Join(abi, "messages_generated.go"))
	if err != nil {
		return nil, err
	}
	var out []*Table
	for _, x := range [][2]string{{"in", "opcodedMsgInDecodeFunctions"}, {"extin", "opcodedMsgExtInDecodeFunctions"},
		{"extout", "opcodedMsgExtOutDecodeFunctions"}} {
		t, err := f.msgTable(x[0], x[1])
		if err != nil {
			return nil, err
		}
		out = append(out, t)
	}
	for _, x := range [][3]string{{"jetton", "jetton_msg_types.go", "funcJettonDecodersMapping"},
		{"nft", "nfts_msg_types.go", "funcNFTDecodersMapping"}} {
		pf, err := load(filepath.Join(abi, x[1]))
		if err != nil {
			return nil, err
		}
		t, err := pf.payloadTable(x[0], x[2])
		if err != nil {
			return nil, err
		}
		out = append(out, t)
	}
	return out, nil
}
