package main

// ClientOrder: order-of-operations facts of the lite-client request path, extracted with go/ast from
// liteclient/client.go and liteclient/connection.go. For each function of interest the translator emits the sequence
// of synchronisation-relevant operations in source order (mutex calls, map accesses, channel operations, calls, go/defer
// statements, status tests) as a list of tokens, and the proof obligations that tie the critical sections of the Lean
// transition system (TongoModel/ClientSM.lean) to that order. The obligations are closed by `decide`; if the code is
// reordered (e.g. the callback registered after the send, the map entry not deleted before the channel send) the
// obligation no longer elaborates.
//
// Tokens (receiver / local variable names are dropped, so renaming them changes nothing):
//	call:<sel>     a call through a selector, e.g. call:queriesMutex.Lock, call:Send, call:registerCallback
//	defer:<sel>    go:<sel>
//	lookup:<f>     read of map field f by index        store:<f>   assignment to map field f by index / to field f
//	delete:<f>     builtin delete on field f
//	chansend       a channel send statement            select      a select statement
//	make:chan:<n>  make(chan T, n)
//	if:<cond>      an if statement with that condition (receiver dropped)

import (
	"fmt"
	"go/ast"
	"go/parser"
	"go/token"
	"path/filepath"
	"sort"
	"strings"
)

func init() { translators["ClientOrder"] = clientOrder }

// sel renders a selector chain without its first identifier: c.queriesMutex.Lock -> queriesMutex.Lock, conn.Send -> Send
func selTail(e ast.Expr) (string, bool) {
	var parts []string
	for {
		switch x := e.(type) {
		case *ast.SelectorExpr:
			parts = append([]string{x.Sel.Name}, parts...)
			e = x.X
		case *ast.Ident:
			if len(parts) == 0 {
				return x.Name, true
			}
			return strings.Join(parts, "."), true
		default:
			return "", false
		}
	}
}

func coExprString(e ast.Expr) string {
	switch x := e.(type) {
	case *ast.BinaryExpr:
		return coExprString(x.X) + " " + x.Op.String() + " " + coExprString(x.Y)
	case *ast.UnaryExpr:
		return x.Op.String() + coExprString(x.X)
	case *ast.ParenExpr:
		return "(" + coExprString(x.X) + ")"
	case *ast.BasicLit:
		return x.Value
	case *ast.CallExpr:
		if s, ok := selTail(x.Fun); ok {
			return s + "()"
		}
		return "call()"
	default:
		if s, ok := selTail(e); ok {
			return s
		}
		return "?"
	}
}

func tokensOf(fn *ast.FuncDecl) []string {
	var out []string
	skip := map[ast.Node]bool{}
	ast.Inspect(fn.Body, func(n ast.Node) bool {
		if n == nil || skip[n] {
			return !skip[n]
		}
		switch x := n.(type) {
		case *ast.DeferStmt:
			if s, ok := selTail(x.Call.Fun); ok {
				out = append(out, "defer:"+s)
			}
			skip[x.Call] = true
		case *ast.GoStmt:
			if s, ok := selTail(x.Call.Fun); ok {
				out = append(out, "go:"+s)
			}
			skip[x.Call] = true
		case *ast.SendStmt:
			out = append(out, "chansend")
		case *ast.SelectStmt:
			out = append(out, "select")
		case *ast.IfStmt:
			out = append(out, "if:"+coExprString(x.Cond))
		case *ast.AssignStmt:
			// right-hand sides first (evaluation order), then the stores
			for _, r := range x.Rhs {
				ast.Inspect(r, func(m ast.Node) bool {
					if ie, ok := m.(*ast.IndexExpr); ok {
						if s, ok := selTail(ie.X); ok {
							out = append(out, "lookup:"+s)
						}
					}
					if ce, ok := m.(*ast.CallExpr); ok {
						out = append(out, callToken(ce)...)
						skip[ce] = true
					}
					return true
				})
			}
			for _, l := range x.Lhs {
				switch le := l.(type) {
				case *ast.IndexExpr:
					if s, ok := selTail(le.X); ok {
						out = append(out, "store:"+s)
					}
				case *ast.SelectorExpr:
					if s, ok := selTail(le); ok {
						out = append(out, "store:"+s)
					}
				}
			}
			for _, r := range x.Rhs {
				skip[r] = true
			}
		case *ast.CallExpr:
			out = append(out, callToken(x)...)
		}
		return true
	})
	return out
}

func callToken(ce *ast.CallExpr) []string {
	if id, ok := ce.Fun.(*ast.Ident); ok {
		switch id.Name {
		case "delete":
			if len(ce.Args) > 0 {
				if s, ok := selTail(ce.Args[0]); ok {
					return []string{"delete:" + s}
				}
			}
		case "make":
			if len(ce.Args) == 2 {
				if _, ok := ce.Args[0].(*ast.ChanType); ok {
					return []string{"make:chan:" + coExprString(ce.Args[1])}
				}
			}
			if len(ce.Args) == 1 {
				if _, ok := ce.Args[0].(*ast.ChanType); ok {
					return []string{"make:chan:0"}
				}
			}
		}
		return nil
	}
	if s, ok := selTail(ce.Fun); ok {
		return []string{"call:" + s}
	}
	return nil
}

func clientOrder(repo string) (string, error) {
	fset := token.NewFileSet()
	want := map[string]map[string]string{ // file -> "Recv.Func" -> lean name
		"client.go": {
			"Client.Request":            "request",
			"Client.registerCallback":   "registerCallback",
			"Client.unregisterCallback": "unregisterCallback",
			"Client.processQueryAnswer": "processQueryAnswer",
			"Client.reader":             "clientReader",
		},
		"connection.go": {
			"Connection.Send":      "connSend",
			"Connection.reconnect": "reconnect",
			"Connection.reader":    "connReader",
		},
	}
	found := map[string][]string{}
	for file, fns := range want {
		f, err := parser.ParseFile(fset, filepath.Join(repo, "liteclient", file), nil, 0)
		if err != nil {
			return "", err
		}
		for _, d := range f.Decls {
			fd, ok := d.(*ast.FuncDecl)
			if !ok || fd.Recv == nil || len(fd.Recv.List) != 1 || fd.Body == nil {
				continue
			}
			rt := fd.Recv.List[0].Type
			if st, ok := rt.(*ast.StarExpr); ok {
				rt = st.X
			}
			id, ok := rt.(*ast.Ident)
			if !ok {
				continue
			}
			if name, ok := fns[id.Name+"."+fd.Name.Name]; ok {
				found[name] = tokensOf(fd)
			}
		}
		for key, name := range fns {
			if _, ok := found[name]; !ok {
				return "", fmt.Errorf("function %s not found in liteclient/%s", key, file)
			}
		}
	}
	order := []string{"request", "registerCallback", "unregisterCallback", "processQueryAnswer", "clientReader", "connSend", "reconnect", "connReader"}
	// token numbering: all tokens that occur, sorted; a token an obligation needs but the code lacks gets a number that
	// occurs nowhere, so the obligation is false and `decide` fails
	num := map[string]int{}
	var names []string
	for _, name := range order {
		for _, t := range found[name] {
			if _, ok := num[t]; !ok {
				num[t] = 0
				names = append(names, t)
			}
		}
	}
	sort.Strings(names)
	for i, t := range names {
		num[t] = i
	}
	missing := len(names)
	tok := func(t string) string {
		if n, ok := num[t]; ok {
			return fmt.Sprint(n)
		}
		missing++
		return fmt.Sprint(missing + 1000)
	}
	toks := func(ts ...string) string {
		xs := make([]string, len(ts))
		for i, t := range ts {
			xs[i] = tok(t)
		}
		return "[" + strings.Join(xs, ", ") + "]"
	}
	var b strings.Builder
	b.WriteString("import TongoModel.ClientOrderSpec\n")
	b.WriteString("/-! GENERATED by harness/cmd/extract (ClientOrder) from liteclient/client.go and liteclient/connection.go.\n")
	b.WriteString("Operation order of the request path, and the obligations tying the critical sections of TongoModel/ClientSM.lean to it.\n\nToken numbering:\n")
	for i, t := range names {
		fmt.Fprintf(&b, "  %d = %s\n", i, t)
	}
	b.WriteString("-/\nnamespace TongoGen.ClientOrder\nopen Tongo.ClientOrderSpec\n\n")
	for _, name := range order {
		fmt.Fprintf(&b, "/-- %s -/\ndef %s : List Nat := [", strings.Join(found[name], " ; "), name)
		for i, t := range found[name] {
			if i > 0 {
				b.WriteString(", ")
			}
			b.WriteString(tok(t))
		}
		b.WriteString("]\n\n")
	}
	ob := func(name, doc, prop string) {
		fmt.Fprintf(&b, "/-- %s -/\ntheorem %s : %s := by decide\n\n", doc, name, prop)
	}
	ob("request_registers_before_send",
		"`Request`: the reply channel is registered (and its removal deferred) before the query is sent, once — action `register` precedes `send`",
		"chain "+toks("call:registerCallback", "defer:unregisterCallback", "call:Send", "select")+" request = true ∧ count "+tok("call:Send")+" request = 1 ∧ count "+tok("call:registerCallback")+" request = 1")
	ob("request_picks_under_connMutex",
		"`Request`: the connection is chosen and the counter advanced inside connMutex, before the send — action `pickConn`",
		"chain "+toks("call:connMutex.Lock", "lookup:connections", "store:nextConn", "call:connMutex.Unlock", "call:Send")+" request = true")
	ob("register_is_one_critical_section",
		"`registerCallback`: a channel of capacity 1 is stored in `queries` under queriesMutex",
		"chain "+toks("make:chan:1", "call:queriesMutex.Lock", "store:queries", "call:queriesMutex.Unlock")+" registerCallback = true")
	ob("unregister_is_one_critical_section",
		"`unregisterCallback`: the entry is deleted under queriesMutex",
		"chain "+toks("call:queriesMutex.Lock", "delete:queries", "call:queriesMutex.Unlock")+" unregisterCallback = true")
	ob("answer_lookup_delete_then_send",
		"`processQueryAnswer`: lookup and delete in ONE critical section, the single channel send after it — actions `deliver`, `chanSend`",
		"chain "+toks("call:queriesMutex.Lock", "lookup:queries", "delete:queries", "call:queriesMutex.Unlock", "chansend")+" processQueryAnswer = true ∧ count "+tok("chansend")+" processQueryAnswer = 1")
	ob("reader_only_processes",
		"`Client.reader`: every answer goes through processQueryAnswer and the reader does no channel send of its own",
		"count "+tok("call:processQueryAnswer")+" clientReader = 1 ∧ count "+tok("chansend")+" clientReader = 0")
	ob("send_checks_status_then_writes",
		"`Connection.Send`: mu is locked, its release DEFERRED (so the write happens under mu — no explicit Unlock in the function), the status test precedes the write; a failing write spawns `go reconnect()` — actions `sendBegin`, `writeDone`, `writeFail`",
		"chain "+toks("call:mu.Lock", "defer:mu.Unlock", "if:status != Connected", "call:econn.send", "go:reconnect")+" connSend = true ∧ count "+tok("call:mu.Unlock")+" connSend = 0")
	ob("reconnect_guarded_by_status",
		"`Connection.reconnect`: under mu, the guard `status == Connecting` precedes the status change and the close — action `reconnectStart`",
		"chain "+toks("call:mu.Lock", "if:status == Connecting", "store:status", "call:econn.close", "call:setupEncryptedConnection")+" reconnect = true")
	ob("request_applies_client_timeout_first",
		"`Request` derives its context with the client timeout UNCONDITIONALLY, as its first statements: the deadline is the earlier of the caller's and the client's (`timeout_is_min`)",
		"request.take 2 = "+toks("call:WithTimeout", "defer:cancel"))
	ob("reader_idle_timer_is_fresh_for_every_packet",
		"`Connection.reader` arms a fresh `time.After(reconnectTimeout)` in every iteration of its select loop — every received packet, pongs included, restarts the silence period; no long-lived timer that some branch could forget to reset",
		"count "+tok("call:After")+" connReader = 1 ∧ count "+tok("call:NewTimer")+" connReader = 0 ∧ count "+tok("call:Reset")+" connReader = 0 ∧ chain "+toks("select", "call:After", "call:reconnect")+" connReader = true")
	// every call site of encryptedConn.send in connection.go: is it inside a c.mu critical section of its function?
	conFile, err := parser.ParseFile(fset, filepath.Join(repo, "liteclient", "connection.go"), nil, 0)
	if err != nil {
		return "", err
	}
	var unlocked []string
	nSites := 0
	for _, d := range conFile.Decls {
		fd, ok := d.(*ast.FuncDecl)
		if !ok || fd.Body == nil {
			continue
		}
		locked := false
		bad := false
		for _, t := range tokensOf(fd) {
			switch t {
			case "call:mu.Lock":
				locked = true
			case "call:mu.Unlock":
				locked = false
			case "call:econn.send":
				nSites++
				if !locked {
					bad = true
				}
			}
		}
		if bad {
			unlocked = append(unlocked, fd.Name.Name)
		}
	}
	sort.Strings(unlocked)
	fmt.Fprintf(&b, "/-- functions of connection.go that call encryptedConn.send OUTSIDE a Connection.mu critical section of their own (source order: Lock … Unlock / deferred Unlock): %s; call sites in total: %d -/\n", strings.Join(unlocked, ", "), nSites)
	code := func(name string) int { // a stable numbering of the function names that may legitimately appear
		switch name {
		case "sendAuthRequest":
			return 1
		case "sendAuthComplete":
			return 2
		}
		return 1000 + len(name)
	}
	var codes []string
	for _, n := range unlocked {
		codes = append(codes, fmt.Sprint(code(n)))
	}
	fmt.Fprintf(&b, "def sendSitesOutsideMu : List Nat := [%s]\n\ndef sendSites : Nat := %d\n\n", strings.Join(codes, ", "), nSites)
	ob("every_socket_write_is_under_mu",
		"EVERY call of encryptedConn.send in connection.go is inside a Connection.mu critical section — Send, and through it the keep-alive goroutine — except the two authentication steps: sendAuthRequest (1) runs while the status is Connecting, when Send and ping refuse to write, and sendAuthComplete (2) is called by handleAuthResponse, which holds the mutex. One cipher stream, never two writers",
		"sendSitesOutsideMu = [2, 1] ∧ sendSites = 3")
	b.WriteString("end TongoGen.ClientOrder\n")
	return b.String(), nil
}
