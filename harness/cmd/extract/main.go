// extract: translators from /repo's Go source to Lean (regenerated on every run, DESIGN.md section 3.1).
//
//	extract <name> -repo /repo -out FILE.lean
//
// Each translator handles a deliberately small subset and FAILS LOUDLY (non-zero exit) on any construct outside it:
// a failed translation counts as a broken proof obligation, never as a pass.
package main

import (
	"flag"
	"fmt"
	"os"
)

type translator func(repo string) (string, error)

var translators = map[string]translator{}

func main() {
	if len(os.Args) < 2 {
		fmt.Fprintln(os.Stderr, "usage: extract <name> -repo DIR -out FILE")
		os.Exit(2)
	}
	name := os.Args[1]
	fs := flag.NewFlagSet(name, flag.ExitOnError)
	repo := fs.String("repo", "/repo", "repository root")
	out := fs.String("out", "", "output Lean file")
	fs.Parse(os.Args[2:])
	t, ok := translators[name]
	if !ok {
		fmt.Fprintf(os.Stderr, "unknown translator %q\n", name)
		os.Exit(2)
	}
	src, err := t(*repo)
	if err != nil {
		fmt.Fprintf(os.Stderr, "translator %s: %v\n", name, err)
		os.Exit(1)
	}
	if err := os.WriteFile(*out, []byte(src), 0o644); err != nil {
		fmt.Fprintln(os.Stderr, err)
		os.Exit(1)
	}
}
