package main

import "verifharness/tlbind"

// X7: liteclient/generated.go (+ the tagged wrappers of extensions.go) as a Lean value: see package tlbind.
func init() {
	translators["TlBindings"] = func(repo string) (string, error) { return tlbind.LeanPart(repo, "defs") }
	for _, p := range []string{"P1", "P2", "P3", "P4", "P5", "P6", "P7", "P8", "All"} {
		p := p
		translators["TlBindings"+p] = func(repo string) (string, error) { return tlbind.LeanPart(repo, p) }
	}
}
