package main

// Translator "BitConsts": the byte-level constants of boc/bitString.go and boc/cell.go that the hand model of
// TongoModel/BitString.lean relies on, as Lean data: CellBits, the width limits of ReadUint (`bitLen > 64`,
// `bitLen < 57`), the fast-path limit of WriteUnary (`n < 63`), every binary literal (the `0b111` masks) and the
// suffixToBits table. Fails loudly when a construct is not found exactly once.

import (
	"fmt"
	"go/ast"
	"go/parser"
	"go/token"
	"path/filepath"
	"sort"
	"strconv"
	"strings"
)

func init() { translators["BitConsts"] = genBitConsts }

func bcCmpLimit(fn *ast.FuncDecl, ident string, op token.Token) (int64, error) {
	var found []int64
	ast.Inspect(fn, func(n ast.Node) bool {
		ifs, ok := n.(*ast.IfStmt)
		if !ok {
			return true
		}
		be, ok := ifs.Cond.(*ast.BinaryExpr)
		if !ok || be.Op != op {
			return true
		}
		id, ok := be.X.(*ast.Ident)
		lit, ok2 := be.Y.(*ast.BasicLit)
		if ok && ok2 && id.Name == ident && lit.Kind == token.INT {
			v, err := strconv.ParseInt(lit.Value, 0, 64)
			if err == nil {
				found = append(found, v)
			}
		}
		return true
	})
	if len(found) != 1 {
		return 0, fmt.Errorf("%s: expected exactly one `if %s %s <int>`, found %d", fn.Name.Name, ident, op, len(found))
	}
	return found[0], nil
}

func genBitConsts(repo string) (string, error) {
	fset := token.NewFileSet()
	bsFile, err := parser.ParseFile(fset, filepath.Join(repo, "boc", "bitString.go"), nil, 0)
	if err != nil {
		return "", err
	}
	cellFile, err := parser.ParseFile(fset, filepath.Join(repo, "boc", "cell.go"), nil, 0)
	if err != nil {
		return "", err
	}
	// CellBits
	cellBits := int64(-1)
	for _, d := range cellFile.Decls {
		gd, ok := d.(*ast.GenDecl)
		if !ok || gd.Tok != token.CONST {
			continue
		}
		for _, sp := range gd.Specs {
			vs := sp.(*ast.ValueSpec)
			for i, n := range vs.Names {
				if n.Name == "CellBits" && i < len(vs.Values) {
					if lit, ok := vs.Values[i].(*ast.BasicLit); ok {
						cellBits, _ = strconv.ParseInt(lit.Value, 0, 64)
					}
				}
			}
		}
	}
	if cellBits < 0 {
		return "", fmt.Errorf("const CellBits = <int> not found in boc/cell.go")
	}
	funcs := map[string]*ast.FuncDecl{}
	for _, d := range bsFile.Decls {
		if fd, ok := d.(*ast.FuncDecl); ok {
			funcs[fd.Name.Name] = fd
		}
	}
	for _, n := range []string{"ReadUint", "WriteUnary", "ReadInt"} {
		if funcs[n] == nil {
			return "", fmt.Errorf("func %s not found", n)
		}
	}
	shiftLimit, err := bcCmpLimit(funcs["ReadUint"], "bitLen", token.LSS)
	if err != nil {
		// the negative-width guard `bitLen < 0` may be present as well: take the other one
		var all []int64
		ast.Inspect(funcs["ReadUint"], func(n ast.Node) bool {
			if be, ok := n.(*ast.BinaryExpr); ok && be.Op == token.LSS {
				if id, ok := be.X.(*ast.Ident); ok && id.Name == "bitLen" {
					if lit, ok := be.Y.(*ast.BasicLit); ok {
						if v, e := strconv.ParseInt(lit.Value, 0, 64); e == nil && v != 0 {
							all = append(all, v)
						}
					}
				}
			}
			return true
		})
		if len(all) != 1 {
			return "", fmt.Errorf("ReadUint: expected exactly one `bitLen < <positive int>`, found %d", len(all))
		}
		shiftLimit = all[0]
	}
	maxBits, err := bcCmpLimit(funcs["ReadUint"], "bitLen", token.GTR)
	if err != nil {
		return "", err
	}
	maxIntBits, err := bcCmpLimit(funcs["ReadInt"], "bitLen", token.GTR)
	if err != nil {
		return "", err
	}
	unaryLimit, err := bcCmpLimit(funcs["WriteUnary"], "n", token.LSS)
	if err != nil {
		return "", err
	}
	// every binary literal of the file
	var masks []string
	ast.Inspect(bsFile, func(n ast.Node) bool {
		if lit, ok := n.(*ast.BasicLit); ok && lit.Kind == token.INT && (strings.HasPrefix(lit.Value, "0b") || strings.HasPrefix(lit.Value, "0B")) {
			v, err := strconv.ParseInt(lit.Value, 0, 64)
			if err == nil {
				masks = append(masks, strconv.FormatInt(v, 10))
			}
		}
		return true
	})
	if len(masks) == 0 {
		return "", fmt.Errorf("no binary literal found in boc/bitString.go")
	}
	// suffixToBits
	type kv struct{ k, v string }
	var table []kv
	for _, d := range bsFile.Decls {
		gd, ok := d.(*ast.GenDecl)
		if !ok || gd.Tok != token.VAR {
			continue
		}
		for _, sp := range gd.Specs {
			vs := sp.(*ast.ValueSpec)
			for i, n := range vs.Names {
				if n.Name != "suffixToBits" || i >= len(vs.Values) {
					continue
				}
				cl, ok := vs.Values[i].(*ast.CompositeLit)
				if !ok {
					return "", fmt.Errorf("suffixToBits is not a composite literal")
				}
				for _, e := range cl.Elts {
					kve, ok := e.(*ast.KeyValueExpr)
					if !ok {
						return "", fmt.Errorf("suffixToBits: unexpected element")
					}
					kl, ok1 := kve.Key.(*ast.BasicLit)
					vl, ok2 := kve.Value.(*ast.BasicLit)
					if !ok1 || !ok2 || kl.Kind != token.STRING || vl.Kind != token.STRING {
						return "", fmt.Errorf("suffixToBits: non-literal entry")
					}
					k, _ := strconv.Unquote(kl.Value)
					v, _ := strconv.Unquote(vl.Value)
					table = append(table, kv{k, v})
				}
			}
		}
	}
	if len(table) == 0 {
		return "", fmt.Errorf("var suffixToBits not found")
	}
	sort.Slice(table, func(i, j int) bool { return table[i].k < table[j].k })
	var sb strings.Builder
	sb.WriteString("/-! GENERATED by harness/cmd/extract (translator `BitConsts`) from boc/bitString.go and boc/cell.go — do not edit. -/\n")
	sb.WriteString("namespace Tongo.Gen.BitConsts\n\n")
	fmt.Fprintf(&sb, "/-- boc/cell.go: `const CellBits` -/\ndef cellBits : Nat := %d\n\n", cellBits)
	fmt.Fprintf(&sb, "/-- ReadUint: `if bitLen > %d` (too wide) -/\ndef readUintMaxBits : Nat := %d\n\n", maxBits, maxBits)
	fmt.Fprintf(&sb, "/-- ReadInt: `if bitLen > %d` (too wide) -/\ndef readIntMaxBits : Nat := %d\n\n", maxIntBits, maxIntBits)
	fmt.Fprintf(&sb, "/-- ReadUint: `if bitLen < %d` selects the shifted 8-byte load -/\ndef readUintShiftLimit : Nat := %d\n\n", shiftLimit, shiftLimit)
	fmt.Fprintf(&sb, "/-- WriteUnary: `if n < %d` selects the WriteUint fast path -/\ndef writeUnaryFastLimit : Nat := %d\n\n", unaryLimit, unaryLimit)
	fmt.Fprintf(&sb, "/-- every binary literal of boc/bitString.go (the `& 0b111` byte-offset masks) -/\ndef binaryMasks : List Nat := [%s]\n\n", strings.Join(masks, ", "))
	sb.WriteString("/-- boc/bitString.go: `var suffixToBits` (sorted by key) -/\ndef suffixToBits : List (String × String) := [\n")
	for i, e := range table {
		sep := ","
		if i == len(table)-1 {
			sep = ""
		}
		fmt.Fprintf(&sb, "  (%s, %s)%s\n", strconv.Quote(e.k), strconv.Quote(e.v), sep)
	}
	sb.WriteString("]\n\nend Tongo.Gen.BitConsts\n")
	return sb.String(), nil
}
