package main

import (
	"bytes"
	"fmt"
	"go/ast"
	"go/parser"
	"go/printer"
	"go/token"
	"path/filepath"
	"strings"
)

// Translator PoolConsts (property C13): the comparisons, constants and the lock/channel structure of
// liteapi/pool/conn_pool.go and connection.go that the hand-written models PoolSelect / PoolSM mirror, read from the
// source by go/ast and emitted as Lean definitions with obligations against the model. A flipped comparison
// (`>=` -> `>`), a dropped `+1`, a changed channel capacity, a publication turned into a non-blocking send, a
// subscribe split into two critical sections or an updateBest reading the heads twice makes an obligation false or
// unprovable: the proof step of the check fails on the current source.
//
// Subset handled for comparison expressions: binary comparisons whose operands are built from `uint64(e)`, `e + 1`,
// integer literals and leaf operands (selector chains / calls without arguments / identifiers); leaves are mapped to
// the parameter names given per site. Anything else is an error.

func init() { translators["PoolConsts"] = poolConsts }

func poolSrc(fset *token.FileSet, n ast.Node) string {
	var b bytes.Buffer
	printer.Fprint(&b, fset, n)
	return b.String()
}

func poolFunc(f *ast.File, name string) *ast.FuncDecl {
	for _, d := range f.Decls {
		if fd, ok := d.(*ast.FuncDecl); ok && fd.Name.Name == name {
			return fd
		}
	}
	return nil
}

// poolFuncRecv finds the method `name` whose receiver type is recv or *recv.
func poolFuncRecv(f *ast.File, recv, name string) *ast.FuncDecl {
	for _, d := range f.Decls {
		fd, ok := d.(*ast.FuncDecl)
		if !ok || fd.Name.Name != name || fd.Recv == nil || len(fd.Recv.List) != 1 {
			continue
		}
		t := fd.Recv.List[0].Type
		if st, ok := t.(*ast.StarExpr); ok {
			t = st.X
		}
		if id, ok := t.(*ast.Ident); ok && id.Name == recv {
			return fd
		}
	}
	return nil
}

// poolLeafMap maps a leaf operand (its exact source text) to a Lean parameter name.
type poolLeafMap [][2]string

// poolExpr translates an operand to a Lean Nat/Int expression. u32: arithmetic is in uint32 (wraps) unless under uint64().
func poolExpr(fset *token.FileSet, e ast.Expr, leaves poolLeafMap, wide bool) (string, error) {
	switch x := e.(type) {
	case *ast.ParenExpr:
		return poolExpr(fset, x.X, leaves, wide)
	case *ast.BasicLit:
		if x.Kind == token.INT {
			return x.Value, nil
		}
	case *ast.CallExpr:
		if id, ok := x.Fun.(*ast.Ident); ok && id.Name == "uint64" && len(x.Args) == 1 {
			return poolExpr(fset, x.Args[0], leaves, true)
		}
	case *ast.BinaryExpr:
		if x.Op == token.ADD {
			// the operands of `uint64(a) + 1` are wide; of `a + 1` with a uint32 they wrap
			l, err := poolExpr(fset, x.X, leaves, wide)
			if err != nil {
				return "", err
			}
			r, err := poolExpr(fset, x.Y, leaves, wide)
			if err != nil {
				return "", err
			}
			if wide || poolIsWide(x.X) || poolIsWide(x.Y) {
				return fmt.Sprintf("(%s + %s)", l, r), nil
			}
			return fmt.Sprintf("((%s + %s) %% 4294967296)", l, r), nil
		}
		return "", fmt.Errorf("unsupported operator %s in %s", x.Op, poolSrc(fset, e))
	}
	txt := poolSrc(fset, e)
	switch e.(type) {
	case *ast.Ident, *ast.SelectorExpr, *ast.CallExpr:
		for _, kv := range leaves {
			if txt == kv[0] { // exact source text of the operand: `c.conn.MasterHead().Seqno` is not `c.MasterHead().Seqno`
				return kv[1], nil
			}
		}
	}
	return "", fmt.Errorf("unsupported operand %s", txt)
}

func poolIsWide(e ast.Expr) bool {
	if c, ok := e.(*ast.CallExpr); ok {
		if id, ok := c.Fun.(*ast.Ident); ok && id.Name == "uint64" {
			return true
		}
	}
	if p, ok := e.(*ast.ParenExpr); ok {
		return poolIsWide(p.X)
	}
	return false
}

var poolCmp = map[token.Token]string{token.LSS: "<", token.LEQ: "≤", token.GTR: ">", token.GEQ: "≥", token.EQL: "=", token.NEQ: "≠"}

func poolCompare(fset *token.FileSet, e ast.Expr, leaves poolLeafMap) (string, error) {
	if p, ok := e.(*ast.ParenExpr); ok {
		return poolCompare(fset, p.X, leaves)
	}
	b, ok := e.(*ast.BinaryExpr)
	if !ok {
		return "", fmt.Errorf("not a comparison: %s", poolSrc(fset, e))
	}
	op, ok := poolCmp[b.Op]
	if !ok {
		return "", fmt.Errorf("not a comparison: %s", poolSrc(fset, e))
	}
	l, err := poolExpr(fset, b.X, leaves, false)
	if err != nil {
		return "", err
	}
	r, err := poolExpr(fset, b.Y, leaves, false)
	if err != nil {
		return "", err
	}
	return fmt.Sprintf("decide (%s %s %s)", l, op, r), nil
}

// poolIfConds returns the conditions of the if statements directly inside the (first) range loop of fn, in order;
// when fn has no range loop, of the if statements anywhere in its body in source order.
func poolIfConds(fn *ast.FuncDecl, insideRange bool) []ast.Expr {
	var res []ast.Expr
	var body *ast.BlockStmt = fn.Body
	if insideRange {
		body = nil
		ast.Inspect(fn.Body, func(n ast.Node) bool {
			if r, ok := n.(*ast.RangeStmt); ok && body == nil {
				body = r.Body
				return false
			}
			return true
		})
		if body == nil {
			return nil
		}
	}
	ast.Inspect(body, func(n ast.Node) bool {
		if i, ok := n.(*ast.IfStmt); ok {
			res = append(res, i.Cond)
		}
		return true
	})
	return res
}

func poolConsts(repo string) (string, error) {
	fset := token.NewFileSet()
	parse := func(rel string) (*ast.File, error) {
		return parser.ParseFile(fset, filepath.Join(repo, rel), nil, parser.ParseComments)
	}
	cp, err := parse("liteapi/pool/conn_pool.go")
	if err != nil {
		return "", err
	}
	cn, err := parse("liteapi/pool/connection.go")
	if err != nil {
		return "", err
	}
	var b strings.Builder
	b.WriteString("import TongoModel.PoolSelect\nimport TongoModel.PoolSM\n")
	b.WriteString("/-! GENERATED by harness/cmd/extract (translator PoolConsts) from liteapi/pool/conn_pool.go and connection.go.\n")
	b.WriteString("Comparisons, constants and lock/channel structure of the source with obligations against PoolSelect / PoolSM. -/\n")
	b.WriteString("namespace Tongo.PoolConsts\nopen Tongo\n\n")
	need := func(fd *ast.FuncDecl, name string) error {
		if fd == nil {
			return fmt.Errorf("function %s not found", name)
		}
		return nil
	}
	def := func(name, params, body, comment string) {
		fmt.Fprintf(&b, "/-- `%s` -/\ndef %s %s : Bool := %s\n\n", comment, name, params, body)
	}

	// ---- constants ------------------------------------------------------------------------------------------------
	tick := int64(-1)
	strat := map[string]string{}
	for _, d := range cp.Decls {
		gd, ok := d.(*ast.GenDecl)
		if !ok || gd.Tok != token.CONST {
			continue
		}
		for _, s := range gd.Specs {
			vs := s.(*ast.ValueSpec)
			for i, n := range vs.Names {
				if i >= len(vs.Values) {
					continue
				}
				switch n.Name {
				case "updateBestConnectionInterval":
					be, ok := vs.Values[i].(*ast.BinaryExpr)
					if !ok || be.Op != token.MUL || poolSrc(fset, be.Y) != "time.Second" {
						return "", fmt.Errorf("updateBestConnectionInterval is not <n> * time.Second: %s", poolSrc(fset, vs.Values[i]))
					}
					v, err := intLit(be.X)
					if err != nil {
						return "", err
					}
					tick = v
				case "BestPingStrategy", "FirstWorkingConnection":
					lit, ok := vs.Values[i].(*ast.BasicLit)
					if !ok || lit.Kind != token.STRING {
						return "", fmt.Errorf("%s is not a string literal", n.Name)
					}
					strat[n.Name] = lit.Value
				}
			}
		}
	}
	if tick < 0 || len(strat) != 2 {
		return "", fmt.Errorf("constants updateBestConnectionInterval / BestPingStrategy / FirstWorkingConnection not found")
	}
	chanCap := func(fd *ast.FuncDecl, elem string) (int64, error) {
		var v int64 = -1
		var err error
		ast.Inspect(fd.Body, func(n ast.Node) bool {
			c, ok := n.(*ast.CallExpr)
			if !ok {
				return true
			}
			if id, ok := c.Fun.(*ast.Ident); ok && id.Name == "make" && len(c.Args) == 2 {
				if ch, ok := c.Args[0].(*ast.ChanType); ok && poolSrc(fset, ch.Value) == elem {
					v, err = intLit(c.Args[1])
				}
			}
			return true
		})
		if v < 0 && err == nil {
			err = fmt.Errorf("no make(chan %s, n) in %s", elem, fd.Name.Name)
		}
		return v, err
	}
	fnNew, fnSub := poolFunc(cp, "New"), poolFunc(cp, "subscribe")
	if err := need(fnNew, "New"); err != nil {
		return "", err
	}
	if err := need(fnSub, "subscribe"); err != nil {
		return "", err
	}
	updCap, err := chanCap(fnNew, "masterHeadUpdated")
	if err != nil {
		return "", err
	}
	waitCap, err := chanCap(fnSub, "ton.BlockIDExt")
	if err != nil {
		return "", err
	}
	fmt.Fprintf(&b, "/-- `updateBestConnectionInterval`, seconds -/\ndef tickSeconds : Nat := %d\n", tick)
	fmt.Fprintf(&b, "/-- capacity of `masterHeadUpdatedCh` (New) -/\ndef updCap : Nat := %d\n", updCap)
	fmt.Fprintf(&b, "/-- capacity of a waiter's channel (subscribe) -/\ndef waitCap : Nat := %d\n", waitCap)
	fmt.Fprintf(&b, "def bestPingName : String := %s\ndef firstWorkingName : String := %s\n\n", strat["BestPingStrategy"], strat["FirstWorkingConnection"])

	// ---- strategy switch of updateBest ------------------------------------------------------------------------------
	fnUB := poolFunc(cp, "updateBest")
	if err := need(fnUB, "updateBest"); err != nil {
		return "", err
	}
	var cases []string
	ast.Inspect(fnUB.Body, func(n ast.Node) bool {
		sw, ok := n.(*ast.SwitchStmt)
		if !ok || poolSrc(fset, sw.Tag) != "p.strategy" {
			return true
		}
		for _, st := range sw.Body.List {
			cc := st.(*ast.CaseClause)
			callee := ""
			ast.Inspect(cc, func(m ast.Node) bool {
				if c, ok := m.(*ast.CallExpr); ok {
					if s, ok := c.Fun.(*ast.SelectorExpr); ok && strings.HasPrefix(s.Sel.Name, "find") {
						callee = s.Sel.Name
					}
				}
				return true
			})
			label := "default"
			if len(cc.List) == 1 {
				label = poolSrc(fset, cc.List[0])
			}
			cases = append(cases, fmt.Sprintf("(%q, %q)", label, callee))
		}
		return false
	})
	fmt.Fprintf(&b, "/-- `switch p.strategy` of updateBest: (case label, find function called) -/\ndef strategySwitch : List (String × String) := [%s]\n\n", strings.Join(cases, ", "))

	// ---- comparisons ------------------------------------------------------------------------------------------------
	seqMax := poolLeafMap{{"maxSeqno", "max"}, {"masterSeqno", "seq"}, {"c.MasterHead().Seqno", "seq"}}
	// updateBest: the max loop
	conds := poolIfConds(fnUB, true)
	// the first loop of updateBest: the max test, then (round-trip times are part of the snapshot) `if p.strategy == BestPingStrategy`
	rttInSnapshot := false
	if len(conds) == 2 && poolSrc(fset, conds[1]) == "p.strategy == BestPingStrategy" {
		rttInSnapshot = true
		conds = conds[:1]
	}
	if len(conds) != 1 {
		return "", fmt.Errorf("updateBest: expected the max test (and the strategy test for the round-trip time) inside its range loop, found %d ifs", len(conds))
	}
	c, err := poolCompare(fset, conds[0], seqMax)
	if err != nil {
		return "", fmt.Errorf("updateBest: %v", err)
	}
	def("maxLoopTakes", "(max seq : Nat)", c, poolSrc(fset, conds[0]))
	// findFirstWorkingConnection
	fnFW := poolFunc(cp, "findFirstWorkingConnection")
	if err := need(fnFW, "findFirstWorkingConnection"); err != nil {
		return "", err
	}
	conds = poolIfConds(fnFW, true)
	if len(conds) != 2 || poolSrc(fset, conds[0]) != "!c.IsOK()" {
		return "", fmt.Errorf("findFirstWorkingConnection: expected `if !c.IsOK()` and one comparison inside the loop")
	}
	if c, err = poolCompare(fset, conds[1], seqMax); err != nil {
		return "", fmt.Errorf("findFirstWorkingConnection: %v", err)
	}
	def("firstWorkingAccepts", "(seq max : Nat)", c, poolSrc(fset, conds[1]))
	// findBestPingConnection
	fnBP := poolFunc(cp, "findBestPingConnection")
	if err := need(fnBP, "findBestPingConnection"); err != nil {
		return "", err
	}
	conds = poolIfConds(fnBP, true)
	if len(conds) != 3 || poolSrc(fset, conds[0]) != "!c.IsOK()" {
		return "", fmt.Errorf("findBestPingConnection: expected `if !c.IsOK()`, a staleness test and the rtt test inside the loop")
	}
	if c, err = poolCompare(fset, conds[1], seqMax); err != nil {
		return "", fmt.Errorf("findBestPingConnection: %v", err)
	}
	def("bestPingRejects", "(seq max : Nat)", c, poolSrc(fset, conds[1]))
	or, ok := conds[2].(*ast.BinaryExpr)
	if !ok || or.Op != token.LOR || poolSrc(fset, or.X) != "bestConn == nil" {
		return "", fmt.Errorf("findBestPingConnection: expected `bestConn == nil || <rtt comparison>`, found %s", poolSrc(fset, conds[2]))
	}
	if c, err = poolCompare(fset, or.Y, poolLeafMap{{"bestConn.AverageRoundTrip()", "b"}, {"c.AverageRoundTrip()", "c"}}); err != nil {
		return "", fmt.Errorf("findBestPingConnection: %v", err)
	}
	fmt.Fprintf(&b, "/-- `%s` -/\ndef bestPingReplaces (c b : Int) : Bool := %s\n\n", poolSrc(fset, or.Y), c)
	// subscribe / WaitMasterchainSeqno / offerHead / SetMasterHead
	one := func(f *ast.File, fn, defName, params string, leaves poolLeafMap, pick func([]ast.Expr) (ast.Expr, error)) error {
		fd := poolFunc(f, fn)
		if err := need(fd, fn); err != nil {
			return err
		}
		e, err := pick(poolIfConds(fd, false))
		if err != nil {
			return fmt.Errorf("%s: %v", fn, err)
		}
		c, err := poolCompare(fset, e, leaves)
		if err != nil {
			return fmt.Errorf("%s: %v", fn, err)
		}
		def(defName, params, c, poolSrc(fset, e))
		return nil
	}
	only := func(cs []ast.Expr) (ast.Expr, error) {
		if len(cs) != 1 {
			return nil, fmt.Errorf("expected exactly one if, found %d", len(cs))
		}
		return cs[0], nil
	}
	headTarget := poolLeafMap{{"head.Seqno", "head"}, {"seqno", "target"}}
	if err := one(cp, "subscribe", "subscribeShortCircuits", "(head target : Nat)", headTarget, only); err != nil {
		return "", err
	}
	if err := one(cp, "WaitMasterchainSeqno", "waitSucceeds", "(head target : Nat)", headTarget, only); err != nil {
		return "", err
	}
	if err := one(cp, "offerHead", "offerKeepsUnread", "(unread head : Nat)", poolLeafMap{{"unread.Seqno", "unread"}, {"head.Seqno", "head"}}, only); err != nil {
		return "", err
	}
	if err := one(cn, "SetMasterHead", "setHeadRejects", "(new cur : Nat)", poolLeafMap{{"c.masterHead.Seqno", "cur"}, {"head.Seqno", "new"}}, only); err != nil {
		return "", err
	}

	// ---- structure ----------------------------------------------------------------------------------------------
	boolLit := func(v bool) string {
		if v {
			return "true"
		}
		return "false"
	}
	// SetMasterHead: the publication is a plain (blocking) send statement, not a select case, after the last Unlock,
	// and no deferred unlock keeps the mutex held across it
	fnSet := poolFunc(cn, "SetMasterHead")
	plainSend, afterUnlock, deferred := false, false, false
	lastUnlock := token.NoPos
	ast.Inspect(fnSet.Body, func(n ast.Node) bool {
		switch x := n.(type) {
		case *ast.DeferStmt:
			if strings.Contains(poolSrc(fset, x.Call), "Unlock") {
				deferred = true
			}
		case *ast.CallExpr:
			if s, ok := x.Fun.(*ast.SelectorExpr); ok && s.Sel.Name == "Unlock" && x.Pos() > lastUnlock {
				lastUnlock = x.Pos()
			}
		}
		return true
	})
	for _, st := range fnSet.Body.List {
		if s, ok := st.(*ast.SendStmt); ok && strings.Contains(poolSrc(fset, s.Chan), "masterHeadUpdatedCh") {
			plainSend = true
			afterUnlock = lastUnlock != token.NoPos && s.Pos() > lastUnlock
		}
	}
	fmt.Fprintf(&b, "/-- SetMasterHead publishes with a plain blocking send statement (never drops an accepted head) -/\ndef publishIsBlockingSend : Bool := %s\n", boolLit(plainSend))
	fmt.Fprintf(&b, "/-- ... placed after the mutex has been released, no deferred unlock -/\ndef publishAfterUnlock : Bool := %s\n", boolLit(afterUnlock && !deferred))
	// subscribe: one critical section: Lock + deferred Unlock, no RLock, MasterHead read and registration inside
	subSrc := poolSrc(fset, fnSub.Body)
	oneSection := strings.Count(subSrc, "p.mu.Lock()") == 1 && strings.Contains(subSrc, "defer p.mu.Unlock()") &&
		!strings.Contains(subSrc, "RLock") && strings.Index(subSrc, "p.mu.Lock()") < strings.Index(subSrc, "MasterHead()")
	fmt.Fprintf(&b, "/-- subscribe checks the head and registers the channel in one critical section under the write lock -/\ndef subscribeOneSection : Bool := %s\n", boolLit(oneSection))
	// offerHead: every select has a default (never blocks); notifySubscribers and switchTo hand heads over with it
	fnOffer := poolFunc(cp, "offerHead")
	nsel, ndef := 0, 0
	ast.Inspect(fnOffer.Body, func(n ast.Node) bool {
		if s, ok := n.(*ast.SelectStmt); ok {
			nsel++
			for _, c := range s.Body.List {
				if c.(*ast.CommClause).Comm == nil {
					ndef++
				}
			}
		}
		return true
	})
	fnNotify := poolFunc(cp, "notifySubscribers")
	if err := need(fnNotify, "notifySubscribers"); err != nil {
		return "", err
	}
	notifySends := 0
	ast.Inspect(fnNotify.Body, func(n ast.Node) bool {
		if _, ok := n.(*ast.SendStmt); ok {
			notifySends++
		}
		return true
	})
	nb := nsel == 2 && ndef == 2 && notifySends == 0 && strings.Contains(poolSrc(fset, fnNotify.Body), "offerHead(")
	fmt.Fprintf(&b, "/-- notifySubscribers never blocks: it only uses offerHead, both of whose selects have a default -/\ndef notifyNonBlocking : Bool := %s\n", boolLit(nb))
	// updateBest: every head is read once (one MasterHead() call on the members, the find functions work on the snapshot)
	// ... and the find functions never call the member itself for its round-trip time: both operands of the rtt comparison
	// are snapshot values (connSnapshot.AverageRoundTrip returns the stored field)
	snapRtt := false
	if fd := poolFuncRecv(cp, "connSnapshot", "AverageRoundTrip"); fd != nil {
		snapRtt = strings.TrimSpace(poolSrc(fset, fd.Body)) == "{\n\treturn s.rtt\n}"
	}
	fmt.Fprintf(&b, "/-- the round-trip times are read once, in the first loop of updateBest -/\ndef rttInSnapshot : Bool := %s\n", boolLit(rttInSnapshot && snapRtt))
	reads := strings.Count(poolSrc(fset, fnUB.Body), ".MasterHead()")
	findsOnSnapshot := !strings.Contains(poolSrc(fset, fnFW.Body), "p.conns") && !strings.Contains(poolSrc(fset, fnBP.Body), "p.conns")
	fmt.Fprintf(&b, "/-- updateBest reads every member's head once; the find functions work on that snapshot -/\ndef oneSnapshot : Bool := %s\n", boolLit(reads == 1 && findsOnSnapshot))
	// WaitMasterchainSeqno: one timer for the whole wait — no time.After / NewTimer inside its for loop
	fnWait := poolFunc(cp, "WaitMasterchainSeqno")
	timerInLoop, timerBefore := false, false
	for _, st := range fnWait.Body.List {
		if f, ok := st.(*ast.ForStmt); ok {
			src := poolSrc(fset, f)
			if strings.Contains(src, "time.After(") || strings.Contains(src, "time.NewTimer(") || strings.Contains(src, ".Reset(") {
				timerInLoop = true
			}
		} else if strings.Contains(poolSrc(fset, st), "time.NewTimer(timeout)") {
			timerBefore = true
		}
	}
	fmt.Fprintf(&b, "/-- WaitMasterchainSeqno arms one timer before its loop and never re-arms it -/\ndef timerOnce : Bool := %s\n", boolLit(timerBefore && !timerInLoop))
	// addConnection: append, sort by ID ascending, first connection becomes the initial best one
	fnAdd := poolFunc(cp, "addConnection")
	if err := need(fnAdd, "addConnection"); err != nil {
		return "", err
	}
	var (
		posAppend, posSort, posBest token.Pos
		lessSrc, bestCond           string
		bestAssign                  bool
	)
	ast.Inspect(fnAdd.Body, func(n ast.Node) bool {
		switch x := n.(type) {
		case *ast.AssignStmt:
			src := poolSrc(fset, x)
			if strings.HasPrefix(src, "p.conns = append(p.conns, c)") {
				posAppend = x.Pos()
			}
		case *ast.CallExpr:
			if poolSrc(fset, x.Fun) == "sort.Slice" && len(x.Args) == 2 && poolSrc(fset, x.Args[0]) == "p.conns" {
				posSort = x.Pos()
				if fl, ok := x.Args[1].(*ast.FuncLit); ok && len(fl.Body.List) == 1 {
					if r, ok := fl.Body.List[0].(*ast.ReturnStmt); ok && len(r.Results) == 1 {
						c, err := poolCompare(fset, r.Results[0], poolLeafMap{{"p.conns[i].ID()", "a"}, {"p.conns[j].ID()", "b"}})
						if err == nil {
							lessSrc = c
						}
					}
				}
			}
		case *ast.IfStmt:
			if strings.HasPrefix(poolSrc(fset, x.Cond), "len(p.conns)") {
				posBest, bestCond = x.Pos(), poolSrc(fset, x.Cond)
				bestAssign = len(x.Body.List) == 1 && poolSrc(fset, x.Body.List[0]) == "p.bestConn = c" && x.Else == nil
			}
		}
		return true
	})
	if lessSrc == "" {
		return "", fmt.Errorf("addConnection: sort.Slice(p.conns, func(i, j int) bool { return <comparison of the two IDs> }) not found")
	}
	fmt.Fprintf(&b, "/-- the `less` of addConnection's sort.Slice over the ids of two members -/\ndef addLess (a b : Nat) : Bool := %s\n", lessSrc)
	fmt.Fprintf(&b, "/-- addConnection appends, then sorts, then makes the first connection (`%s`) the best one -/\ndef addFirstBecomesBest : Bool := %s\n\n",
		bestCond, boolLit(posAppend != token.NoPos && posAppend < posSort && posSort < posBest && bestCond == "len(p.conns) == 1" && bestAssign))
	sw := poolFunc(cp, "switchTo")
	notifiesOnSwitch := sw != nil && strings.Contains(poolSrc(fset, sw.Body), "offerHead(") && strings.Contains(poolSrc(fset, fnUB.Body), "switchTo(")
	fmt.Fprintf(&b, "/-- a change of the best connection offers its head to the waiters -/\ndef notifiesOnSwitch : Bool := %s\n\n", boolLit(notifiesOnSwitch))

	// ---- obligations ------------------------------------------------------------------------------------------------
	b.WriteString(`/-! ### obligations against the hand-written model -/

theorem consts_ok : updCap = PoolSM.updCap ∧ waitCap = 1 ∧ 0 < tickSeconds ∧
    PoolSelect.strategyOfName bestPingName = .bestPing ∧ PoolSelect.strategyOfName firstWorkingName = .firstWorking ∧
    strategySwitch = [("BestPingStrategy", "findBestPingConnection"), ("FirstWorkingConnection", "findFirstWorkingConnection")] := by
  decide

/-- the structure facts are exactly the repaired variant of PoolSM -/
theorem structure_ok : PoolSM.fixed = ⟨notifyNonBlocking, publishIsBlockingSend && publishAfterUnlock, oneSnapshot,
    notifiesOnSwitch, timerOnce⟩ ∧ subscribeOneSection = true ∧ rttInSnapshot = true := by
  decide

/-- addConnection is PoolSM.addConn: members ordered by ascending id, the first connection becomes the best one
(the hypothesis "a best connection chosen initially" of C13.no_nil_deref / Reachable.init) -/
theorem addConnection_ok : addFirstBecomesBest = true ∧
    (∀ id x xs, PoolSM.insertId id (x :: xs) = if addLess id x then id :: x :: xs else x :: PoolSM.insertId id xs) := by
  refine ⟨by decide, ?_⟩
  intro id x xs
  simp only [addLess, PoolSM.insertId, decide_eq_true_eq]

theorem maxLoop_ok (m s : BitVec 32) : maxLoopTakes m.toNat s.toNat = decide (m < s) := by
  simp only [maxLoopTakes, BitVec.lt_def]

theorem firstWorking_ok (m : BitVec 32) (c : PoolSelect.Conn) :
    firstWorkingAccepts c.seqno.toNat m.toNat = PoolSelect.working false m c := by
  simp only [firstWorkingAccepts, PoolSelect.working, Bool.false_eq_true, if_false, ge_iff_le]

theorem bestPing_ok (m : BitVec 32) (c : PoolSelect.Conn) :
    bestPingRejects c.seqno.toNat m.toNat = !(PoolSelect.working false m c) := by
  simp only [bestPingRejects, PoolSelect.working, Bool.false_eq_true, if_false, ge_iff_le, ← decide_not, Nat.not_le]

theorem bestPingReplaces_ok (c b : PoolSelect.Conn) : bestPingReplaces c.rtt b.rtt = decide (c.rtt < b.rtt) := by
  simp only [bestPingReplaces]

theorem subscribe_ok (head target : Nat) : subscribeShortCircuits head target = decide (target ≤ head) := by
  simp only [subscribeShortCircuits, ge_iff_le]

theorem wait_ok (head target : Nat) : waitSucceeds head target = decide (target ≤ head) := by
  simp only [waitSucceeds, ge_iff_le]

theorem offer_ok (unread head : Nat) : (if offerKeepsUnread unread head then unread else head) = max unread head := by
  simp only [offerKeepsUnread, decide_eq_true_eq, Nat.max_def]
  split <;> split <;> omega

theorem setHead_ok (new cur : Nat) : setHeadRejects new cur = !(decide (cur < new)) := by
  simp only [setHeadRejects, ← decide_not, Nat.not_lt]

end Tongo.PoolConsts
`)
	return b.String(), nil
}
