package main

// Translator X2 (DESIGN.md 3.1): go/ast over tlb/integers.go. For every generated type: its family, the bit size of
// the underlying kind and the width literal in each of MarshalTLB, UnmarshalTLB, FixedSize and the JSON parser.
// Output: lean/TongoGen/IntTypes.lean (a table + one decided obligation that they all agree with the type's name).
// Any construct outside this shape makes the translator fail.

import (
	"fmt"
	"go/ast"
	"go/parser"
	"go/token"
	"path/filepath"
	"regexp"
	"sort"
	"strconv"
	"strings"
)

func init() { translators["IntTypes"] = x2IntTypes }

type intFacts struct {
	name, family    string
	nameWidth, kind int
	writeFn, readFn string
	writeW, readW   int
	fixed, json     int // -1 = absent
	order           int
}

var intNameRe = regexp.MustCompile(`^(Uint|Int|VarUInteger|Bits)(\d+)$`)

func litInt(e ast.Expr) (int, bool) {
	if b, ok := e.(*ast.BasicLit); ok && b.Kind == token.INT {
		n, err := strconv.Atoi(b.Value)
		return n, err == nil
	}
	return 0, false
}

// findCall returns the last int-literal argument of the first call c.<one of names>(…) in body.
func findCall(body *ast.BlockStmt, names map[string]bool) (fn string, width int, ok bool) {
	ast.Inspect(body, func(n ast.Node) bool {
		if ok {
			return false
		}
		call, isCall := n.(*ast.CallExpr)
		if !isCall {
			return true
		}
		sel, isSel := call.Fun.(*ast.SelectorExpr)
		if !isSel || !names[sel.Sel.Name] || len(call.Args) == 0 {
			return true
		}
		if w, good := litInt(call.Args[len(call.Args)-1]); good {
			fn, width, ok = sel.Sel.Name, w, true
			return false
		}
		return true
	})
	return
}

func x2IntTypes(repo string) (string, error) {
	fset := token.NewFileSet()
	f, err := parser.ParseFile(fset, filepath.Join(repo, "tlb", "integers.go"), nil, parser.SkipObjectResolution)
	if err != nil {
		return "", err
	}
	facts := map[string]*intFacts{}
	order := 0
	kinds := map[string]int{"uint8": 8, "uint16": 16, "uint32": 32, "uint64": 64, "int8": 8, "int16": 16, "int32": 32, "int64": 64}
	for _, d := range f.Decls {
		switch x := d.(type) {
		case *ast.GenDecl:
			if x.Tok != token.TYPE {
				continue
			}
			for _, s := range x.Specs {
				ts := s.(*ast.TypeSpec)
				m := intNameRe.FindStringSubmatch(ts.Name.Name)
				if m == nil {
					return "", fmt.Errorf("integers.go declares type %s outside the generated families", ts.Name.Name)
				}
				w, _ := strconv.Atoi(m[2])
				ft := &intFacts{name: ts.Name.Name, family: m[1], nameWidth: w, fixed: -1, json: -1, writeFn: "reflection", readFn: "reflection", order: order}
				order++
				switch u := ts.Type.(type) {
				case *ast.Ident:
					k, ok := kinds[u.Name]
					if !ok {
						return "", fmt.Errorf("%s: unexpected underlying type %s", ft.name, u.Name)
					}
					if (m[1] == "Uint") != strings.HasPrefix(u.Name, "uint") || (m[1] != "Uint" && m[1] != "Int") {
						return "", fmt.Errorf("%s: underlying type %s does not match the family", ft.name, u.Name)
					}
					ft.kind = k
				case *ast.SelectorExpr:
					if pk, ok := u.X.(*ast.Ident); !ok || pk.Name != "big" || u.Sel.Name != "Int" {
						return "", fmt.Errorf("%s: unexpected underlying type", ft.name)
					}
					ft.kind = 0
				case *ast.ArrayType:
					n, ok := litInt(u.Len)
					el, ok2 := u.Elt.(*ast.Ident)
					if !ok || !ok2 || el.Name != "byte" || m[1] != "Bits" {
						return "", fmt.Errorf("%s: unexpected array type", ft.name)
					}
					ft.kind = n
				default:
					return "", fmt.Errorf("%s: unexpected underlying type", ft.name)
				}
				facts[ft.name] = ft
			}
		case *ast.FuncDecl:
			if x.Recv == nil || len(x.Recv.List) != 1 || x.Body == nil {
				continue
			}
			var rn string
			switch r := x.Recv.List[0].Type.(type) {
			case *ast.Ident:
				rn = r.Name
			case *ast.StarExpr:
				if id, ok := r.X.(*ast.Ident); ok {
					rn = id.Name
				}
			}
			ft := facts[rn]
			if ft == nil {
				return "", fmt.Errorf("method %s on unknown receiver %s", x.Name.Name, rn)
			}
			switch x.Name.Name {
			case "MarshalTLB":
				fn, w, ok := findCall(x.Body, map[string]bool{"WriteUint": true, "WriteInt": true, "WriteBigUint": true, "WriteBigInt": true, "WriteLimUint": true})
				if !ok {
					return "", fmt.Errorf("%s.MarshalTLB: no bit-string write with a literal width", rn)
				}
				ft.writeFn, ft.writeW = fn, w
			case "UnmarshalTLB":
				fn, w, ok := findCall(x.Body, map[string]bool{"ReadUint": true, "ReadInt": true, "ReadBigUint": true, "ReadBigInt": true, "ReadLimUint": true})
				if !ok {
					return "", fmt.Errorf("%s.UnmarshalTLB: no bit-string read with a literal width", rn)
				}
				ft.readFn, ft.readW = fn, w
			case "FixedSize":
				if len(x.Body.List) != 1 {
					return "", fmt.Errorf("%s.FixedSize: unexpected body", rn)
				}
				ret, ok := x.Body.List[0].(*ast.ReturnStmt)
				if !ok || len(ret.Results) != 1 {
					return "", fmt.Errorf("%s.FixedSize: unexpected body", rn)
				}
				w, ok := litInt(ret.Results[0])
				if !ok {
					return "", fmt.Errorf("%s.FixedSize: not a literal", rn)
				}
				ft.fixed = w
			case "UnmarshalJSON":
				if _, w, ok := findCall(x.Body, map[string]bool{"ParseUint": true, "ParseInt": true}); ok {
					ft.json = w
				} else if ft.family == "Bits" {
					// `if len(bs) != N`
					ast.Inspect(x.Body, func(n ast.Node) bool {
						if be, ok := n.(*ast.BinaryExpr); ok && be.Op == token.NEQ {
							if w, ok := litInt(be.Y); ok {
								ft.json = w
							}
						}
						return true
					})
				}
			}
		}
	}
	var list []*intFacts
	for _, ft := range facts {
		list = append(list, ft)
	}
	sort.Slice(list, func(i, j int) bool { return list[i].order < list[j].order })
	lower := func(s string) string { return strings.ToLower(s[:1]) + s[1:] }
	fam := map[string]string{"Uint": ".uint", "Int": ".int", "VarUInteger": ".varUint", "Bits": ".bits"}
	opt := func(n int) string {
		if n < 0 {
			return "none"
		}
		return fmt.Sprintf("(some %d)", n)
	}
	var sb strings.Builder
	sb.WriteString("import TongoModel.Tlb.IntFacts\n/-! GENERATED on every run by translator X2 (harness/cmd/extract/x2.go) from tlb/integers.go by go/ast. Do not edit. -/\n")
	sb.WriteString("namespace TongoGen.IntTypes\nopen Tongo.Tlb\n\ndef intTypes : List IntTypeFacts := [\n")
	for i, ft := range list {
		sep := ","
		if i == len(list)-1 {
			sep = ""
		}
		fmt.Fprintf(&sb, "  ⟨%q, %s, %d, %d, .%s, %d, .%s, %d, %s, %s⟩%s\n", ft.name, fam[ft.family], ft.nameWidth, ft.kind,
			lower(ft.writeFn), ft.writeW, lower(ft.readFn), ft.readW, opt(ft.fixed), opt(ft.json), sep)
	}
	sb.WriteString("]\n\n/-- every generated type writes, reads, reports (FixedSize) and parses (JSON) the width in its name, within its Go kind -/\n")
	sb.WriteString("theorem intTypes_ok : intTypes.all IntTypeFacts.ok = true := by decide +kernel\n\n")
	fmt.Fprintf(&sb, "theorem intTypes_count : intTypes.length = %d := by decide +kernel\n\nend TongoGen.IntTypes\n", len(list))
	return sb.String(), nil
}
