package main

import (
	"fmt"
	"go/ast"
	"go/parser"
	"go/token"
	"path/filepath"
	"reflect"
	"strconv"
	"strings"
)

// Translators WalletConsts / TonConnectConsts (X5 of the design): constants of the wallet and tonconnect packages read
// from the source by go/ast and emitted as `decide`d obligations against the hand-written model: a changed constant
// makes the obligation false, i.e. the proof step of the check fails on the current source.
//
// Subset handled: `const` declarations with literal values (optionally a unary minus), `iota` enumerations of
// wallet.Version, struct tags of the form `tlb:"#hex"` / `tlbSumType:"#hex"`, and `maxMessageNumber` methods whose body
// is a single `return <int literal>`. Anything else is an error.

func init() {
	translators["WalletConsts"] = walletConsts
	translators["TonConnectConsts"] = tonConnectConsts
}

func parseFile(repo, rel string) (*ast.File, error) {
	return parser.ParseFile(token.NewFileSet(), filepath.Join(repo, rel), nil, parser.ParseComments)
}

// intLit evaluates an integer literal expression (decimal or hex, optional unary minus).
func intLit(e ast.Expr) (int64, error) {
	switch x := e.(type) {
	case *ast.BasicLit:
		if x.Kind != token.INT {
			return 0, fmt.Errorf("not an integer literal: %s", x.Value)
		}
		v, err := strconv.ParseInt(x.Value, 0, 64)
		return v, err
	case *ast.UnaryExpr:
		if x.Op == token.SUB {
			v, err := intLit(x.X)
			return -v, err
		}
	case *ast.ParenExpr:
		return intLit(x.X)
	}
	return 0, fmt.Errorf("unsupported constant expression %T", e)
}

// constInts collects `name = <int literal>` constants of a file.
func constInts(f *ast.File, want ...string) (map[string]int64, error) {
	res := map[string]int64{}
	for _, d := range f.Decls {
		gd, ok := d.(*ast.GenDecl)
		if !ok || gd.Tok != token.CONST {
			continue
		}
		for _, s := range gd.Specs {
			vs := s.(*ast.ValueSpec)
			for i, n := range vs.Names {
				for _, w := range want {
					if n.Name == w {
						if i >= len(vs.Values) {
							return nil, fmt.Errorf("constant %s has no value", w)
						}
						v, err := intLit(vs.Values[i])
						if err != nil {
							return nil, fmt.Errorf("constant %s: %v", w, err)
						}
						res[w] = v
					}
				}
			}
		}
	}
	for _, w := range want {
		if _, ok := res[w]; !ok {
			return nil, fmt.Errorf("constant %s not found", w)
		}
	}
	return res, nil
}

func constStrings(f *ast.File, want ...string) (map[string]string, error) {
	res := map[string]string{}
	for _, d := range f.Decls {
		gd, ok := d.(*ast.GenDecl)
		if !ok || gd.Tok != token.CONST {
			continue
		}
		for _, s := range gd.Specs {
			vs := s.(*ast.ValueSpec)
			for i, n := range vs.Names {
				for _, w := range want {
					if n.Name == w && i < len(vs.Values) {
						bl, ok := vs.Values[i].(*ast.BasicLit)
						if !ok || bl.Kind != token.STRING {
							return nil, fmt.Errorf("constant %s is not a string literal", w)
						}
						v, err := strconv.Unquote(bl.Value)
						if err != nil {
							return nil, err
						}
						res[w] = v
					}
				}
			}
		}
	}
	for _, w := range want {
		if _, ok := res[w]; !ok {
			return nil, fmt.Errorf("constant %s not found", w)
		}
	}
	return res, nil
}

// versionIota reads the `Version = iota` enumeration.
func versionIota(f *ast.File) (map[string]int, error) {
	for _, d := range f.Decls {
		gd, ok := d.(*ast.GenDecl)
		if !ok || gd.Tok != token.CONST || len(gd.Specs) == 0 {
			continue
		}
		first := gd.Specs[0].(*ast.ValueSpec)
		id, ok := first.Type.(*ast.Ident)
		if !ok || id.Name != "Version" {
			continue
		}
		if len(first.Values) != 1 {
			return nil, fmt.Errorf("Version enumeration does not start with iota")
		}
		if v, ok := first.Values[0].(*ast.Ident); !ok || v.Name != "iota" {
			return nil, fmt.Errorf("Version enumeration does not start with iota")
		}
		res := map[string]int{}
		for i, s := range gd.Specs {
			vs := s.(*ast.ValueSpec)
			if i > 0 && (len(vs.Values) != 0 || vs.Type != nil) {
				return nil, fmt.Errorf("Version enumeration: explicit value for %s", vs.Names[0].Name)
			}
			if len(vs.Names) != 1 {
				return nil, fmt.Errorf("Version enumeration: several names in one spec")
			}
			res[vs.Names[0].Name] = i
		}
		return res, nil
	}
	return nil, fmt.Errorf("Version enumeration not found")
}

// maxMessageNumbers reads `func (w *T) maxMessageNumber() int { return N }` for every receiver type in the files.
func maxMessageNumbers(repo string, files ...string) (map[string]int64, error) {
	res := map[string]int64{}
	for _, rel := range files {
		f, err := parseFile(repo, rel)
		if err != nil {
			return nil, err
		}
		for _, d := range f.Decls {
			fd, ok := d.(*ast.FuncDecl)
			if !ok || fd.Name.Name != "maxMessageNumber" || fd.Recv == nil {
				continue
			}
			recv := ""
			switch t := fd.Recv.List[0].Type.(type) {
			case *ast.StarExpr:
				recv = t.X.(*ast.Ident).Name
			case *ast.Ident:
				recv = t.Name
			}
			if len(fd.Body.List) != 1 {
				return nil, fmt.Errorf("%s.maxMessageNumber: body is not a single return", recv)
			}
			rs, ok := fd.Body.List[0].(*ast.ReturnStmt)
			if !ok || len(rs.Results) != 1 {
				return nil, fmt.Errorf("%s.maxMessageNumber: body is not a single return", recv)
			}
			v, err := intLit(rs.Results[0])
			if err != nil {
				return nil, fmt.Errorf("%s.maxMessageNumber: %v", recv, err)
			}
			res[recv] = v
		}
	}
	return res, nil
}

// fieldTag returns the value of `key` in the struct tag of field `field` of struct type `typ` (searched recursively
// through anonymous struct fields).
func fieldTag(f *ast.File, typ, field, key string) (string, error) {
	var found string
	ast.Inspect(f, func(n ast.Node) bool {
		ts, ok := n.(*ast.TypeSpec)
		if !ok || ts.Name.Name != typ {
			return true
		}
		st, ok := ts.Type.(*ast.StructType)
		if !ok {
			return true
		}
		for _, fl := range st.Fields.List {
			for _, nm := range fl.Names {
				if nm.Name == field && fl.Tag != nil {
					tag, _ := strconv.Unquote(fl.Tag.Value)
					found = reflect.StructTag(tag).Get(key)
				}
			}
		}
		return false
	})
	if found == "" {
		return "", fmt.Errorf("tag %s of %s.%s not found", key, typ, field)
	}
	return found, nil
}

func hexTag(tag string) (int64, error) {
	i := strings.Index(tag, "#")
	if i < 0 {
		return 0, fmt.Errorf("tag %q is not of the form #hex", tag)
	}
	return strconv.ParseInt(tag[i+1:], 16, 64)
}

func walletConsts(repo string) (string, error) {
	models, err := parseFile(repo, "wallet/models.go")
	if err != nil {
		return "", err
	}
	beta, err := parseFile(repo, "wallet/wallet_v5_beta.go")
	if err != nil {
		return "", err
	}
	msgs, err := parseFile(repo, "wallet/messages.go")
	if err != nil {
		return "", err
	}
	ci, err := constInts(models, "DefaultSubWallet")
	if err != nil {
		return "", err
	}
	cb, err := constInts(beta, "V5MsgTypeSignedInternal", "V5MsgTypeSignedExternal", "V5MsgTypeExtensionAction", "TestnetGlobalID", "MainnetGlobalID")
	if err != nil {
		return "", err
	}
	vi, err := versionIota(models)
	if err != nil {
		return "", err
	}
	mm, err := maxMessageNumbers(repo, "wallet/wallet_v1v2.go", "wallet/wallet_v3.go", "wallet/wallet_v4.go", "wallet/wallet_v5.go",
		"wallet/wallet_v5_beta.go", "wallet/wallet_highload_v2.go")
	if err != nil {
		return "", err
	}
	actionTag, err := fieldTag(msgs, "W5SendMessageAction", "Magic", "tlb")
	if err != nil {
		return "", err
	}
	at, err := hexTag(actionTag)
	if err != nil {
		return "", err
	}
	var sb strings.Builder
	sb.WriteString("import TongoModel.WalletMsg\n")
	sb.WriteString("/-! GENERATED by harness/cmd/extract (WalletConsts) from wallet/*.go — constants of the source against the model. -/\n")
	sb.WriteString("namespace TongoGen.WalletConsts\nopen Tongo.Wallet\n\n")
	fmt.Fprintf(&sb, "theorem src_DefaultSubWallet : defaultSubWallet = %d := by decide\n", ci["DefaultSubWallet"])
	fmt.Fprintf(&sb, "theorem src_MainnetGlobalID : mainnetGlobalID = %d := by decide\n", cb["MainnetGlobalID"])
	fmt.Fprintf(&sb, "theorem src_V5MsgTypeSignedExternal : opSignedExternal = %d := by decide\n", cb["V5MsgTypeSignedExternal"])
	fmt.Fprintf(&sb, "theorem src_V5MsgTypeSignedInternal : opSignedInternal = %d := by decide\n", cb["V5MsgTypeSignedInternal"])
	fmt.Fprintf(&sb, "theorem src_V5MsgTypeExtensionAction : opExtension = %d := by decide\n", cb["V5MsgTypeExtensionAction"])
	fmt.Fprintf(&sb, "theorem src_W5SendMessageAction_tag : actionSendMsgTag = %d := by decide\n", at)
	names := [][2]string{{"V1R1", "v1r1"}, {"V1R2", "v1r2"}, {"V1R3", "v1r3"}, {"V2R1", "v2r1"}, {"V2R2", "v2r2"}, {"V3R1", "v3r1"},
		{"V3R2", "v3r2"}, {"V4R1", "v4r1"}, {"V4R2", "v4r2"}, {"V5Beta", "v5beta"}, {"V5R1", "v5r1"}, {"HighLoadV2R2", "highloadV2R2"}}
	var parts []string
	for _, n := range names {
		idx, ok := vi[n[0]]
		if !ok {
			return "", fmt.Errorf("Version constant %s not found", n[0])
		}
		parts = append(parts, fmt.Sprintf("Version.%s.goIndex = %d", n[1], idx))
	}
	fmt.Fprintf(&sb, "theorem src_Version_iota : %s := by decide\n", strings.Join(parts, " ∧ "))
	recv := [][2]string{{"walletV1V2", "v1r1"}, {"walletV3", "v3r1"}, {"walletV4", "v4r1"}, {"walletV5Beta", "v5beta"}, {"walletV5R1", "v5r1"},
		{"walletHighloadV2", "highloadV2R2"}}
	parts = nil
	for _, r := range recv {
		v, ok := mm[r[0]]
		if !ok {
			return "", fmt.Errorf("maxMessageNumber of %s not found", r[0])
		}
		parts = append(parts, fmt.Sprintf("maxMessages .%s = %d", r[1], v))
	}
	fmt.Fprintf(&sb, "theorem src_maxMessageNumber : %s := by decide\n", strings.Join(parts, " ∧ "))
	sb.WriteString("\nend TongoGen.WalletConsts\n")
	return sb.String(), nil
}

func leanBytes(s string) string {
	var ss []string
	for _, b := range []byte(s) {
		ss = append(ss, strconv.Itoa(int(b)))
	}
	return "[" + strings.Join(ss, ", ") + "]"
}

func tonConnectConsts(repo string) (string, error) {
	f, err := parseFile(repo, "tonconnect/server.go")
	if err != nil {
		return "", err
	}
	cs, err := constStrings(f, "tonProofPrefix", "tonConnectPrefix")
	if err != nil {
		return "", err
	}
	ci, err := constInts(f, "defaultLifeTimeProof", "defaultLifeTimePayload")
	if err != nil {
		return "", err
	}
	var sb strings.Builder
	sb.WriteString("import TongoModel.TonConnect\n")
	sb.WriteString("/-! GENERATED by harness/cmd/extract (TonConnectConsts) from tonconnect/server.go. -/\n")
	sb.WriteString("namespace TongoGen.TonConnectConsts\nopen Tongo.TonConnect\n\n")
	fmt.Fprintf(&sb, "theorem src_tonProofPrefix : tonProofPrefix = %s := by decide\n", leanBytes(cs["tonProofPrefix"]))
	fmt.Fprintf(&sb, "theorem src_tonConnectPrefix : tonConnectPrefix = %s := by decide\n", leanBytes(cs["tonConnectPrefix"]))
	fmt.Fprintf(&sb, "theorem src_defaultLifeTimes : defaultLifeTimeProof = %d ∧ defaultLifeTimePayload = %d := by decide\n",
		ci["defaultLifeTimeProof"], ci["defaultLifeTimePayload"])
	sb.WriteString("\nend TongoGen.TonConnectConsts\n")
	return sb.String(), nil
}
