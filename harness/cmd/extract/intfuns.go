// Translator X4: straight-line fixed-width integer Go functions  →  Lean definitions over BitVec.
//
// OUTPUT FORMAT (one Lean module per translator name, `lean/TongoGen/<Name>.lean`, namespace `Tongo.Gen.<Name>`,
// imports only `TongoModel.GoInt`, core Lean, no Mathlib):
//
//   - Go integer type of width n (uint64/int64/int/uint = 64, uint32/int32 = 32, uint16, uint8/byte, int8, named types
//     over them such as boc.levelMask, tlb.Uint6) → `BitVec n`; `bool` → `Bool`. Signedness lives in the translator
//     only: it selects `>>>` / `BitVec.sshiftRight`, `BitVec.ult` / `BitVec.slt`, `/` / `BitVec.sdiv`, `%` / `BitVec.srem`,
//     `BitVec.setWidth` (zero extension, truncation) / `BitVec.signExtend`.
//   - one `def <Name> (params…) : R := body` per target, the Go source quoted in the doc comment. Parameters: the
//     receiver first, then the Go parameters in order. A parameter of struct type contributes one Lean parameter
//     `<param>_<field>` per integer field that the body uses, in declaration order of the fields. Expressions declared
//     "opaque" in the target table below (byte-slice reads such as `binary.BigEndian.Uint64(a.Address[:8])`) become
//     extra parameters, in the order of the table.
//   - results: a single value → `BitVec n` / `Bool`; several values or a struct → a tuple of its integer fields in
//     declaration order; `(T, error)` → `Option T` with `none` = a non-nil error was returned; a function that can panic
//     on a negative shift count (only when interval analysis cannot exclude it) → `Option T` with `none` = panic.
//   - statements `x := e`, `var x T = e`, `x = e`, `x op= e` → `let x := e`; `if c { …return… }` → `if c then … else …`;
//     an `if` whose body only assigns → `let x := if c then … else x`; `v, err := F(a)` with `F` translated in the same
//     module → `match F a with | none => … | some (…) => …` (the continuation specialised on `err`).
//   - `+ - *` wrap; `<<`/`>>` by a constant k → `<<< k`, `>>> k`; by a variable count c → `<<< c.toNat` (a count ≥ width
//     gives 0 in Go and in Lean); `&^` → `x &&& ~~~y`; `/ %` only by a non-zero constant; comparisons → `==`, `!=`,
//     `BitVec.ult/ule/slt/sle`; conversions as above; untyped constants take the type of the other operand / of the
//     context exactly as in the Go spec (incl. the left operand of a non-constant shift).
//   - math/bits.{TrailingZeros64,TrailingZeros32,LeadingZeros64,LeadingZeros32,OnesCount64,OnesCount32,Len,Len64,Len32}
//     → `Tongo.GoInt.*` (results are Go `int`, i.e. `BitVec 64`).
//   - package-level integer tables (`var TABLE = []uint16{…}`, `var tab64 = [64]int{…}`) → `def TABLE : List (BitVec 16)`;
//     `T[i]` → `T.getD i.toNat 0`, accepted only if interval analysis shows `i < len(T)`; plus the obligation
//     `theorem <T>_length : <T>.length = <n> := by decide +kernel`.
//
// ROUND 2 additions (each still fails loudly outside its exact pattern):
//   - `var x = e` (no type) is `x := e`; plain calls `f(a, …)` of a WHOLE function translated earlier in the same module and
//     package (single non-Option result).
//   - small byte buffers: `b := make([]byte, N)` (N a literal ≤ 16), `binary.{Little,Big}Endian.PutUint{16,32,64}(b, e)`,
//     `b[k] = e` with a literal k, `return b`, `return []byte{e, …}`; a `[]byte` result is `List (BitVec 8)`.
//   - a fresh boc cell used as a bit accumulator: `c := boc.NewCell()`, `if err := c.WriteUint(e, n); err != nil { panic(err) }`
//     with a literal n (total ≤ 64 bits), `c.ResetCounters()`, one `v, err := c.ReadUint(<all bits written>)`; the error
//     is then statically nil. The semantics of these three boc primitives is TRUSTED here (type cellAcc); they are modelled
//     and proved in the bit-string property (C06).
//   - block kinds: `for:<header>` (loop body), `if:<cond>` (the then-branch; an else branch is not part of the block),
//     `cond:<cond>` (the condition of that `if` itself, a Bool), `prefix:<N>` (first N statements of the function),
//     `range:<first stmt>|<last stmt>` (top-level statements, inclusive). Results: a variable name, `vars:a,b,c` (tuple; each
//     must be assigned in the block), `expr:<text>` (an expression occurring in the function, evaluated after the block),
//     `sink:<callee>|<arg0>`. Live-in variables that the block does not read are dropped from the parameters.
//     `expect` entries are exact statement texts, or `text:<substring of the function text>`.
//
// Anything else (loops, switch, pointers, slices, maps, calls to unknown functions, division by a variable, a possibly
// out-of-range index, `&&`/`||` around a possibly panicking shift …) makes the translator FAIL (non-zero exit): a
// failed translation is a broken proof obligation, never a pass.
//
// Blocks: some targets are a block inside a larger function (the body of the byte loop of utils.Crc16, the anycast
// rewrite inside ton.AccountIDFromTlb). The target names the enclosing statement by its exact source text (loop header /
// if condition), the live-in variables with their types and the result; the surrounding statements that give the block
// its meaning are pinned by their exact text (`expect`), so a rewrite of the context fails loudly too.
package main

import (
	"bytes"
	"fmt"
	"go/ast"
	"go/constant"
	"go/parser"
	"go/printer"
	"go/token"
	"math/big"
	"os"
	"path/filepath"
	"sort"
	"strings"
)

// ------------------------------------------------------------------------------------------------------ target table

type opaque struct {
	text  string // exact source text of the expression
	name  string // Lean parameter name
	typ   string // Go type (builtin name)
	check string // optional "pkgdir.Type.Field": that field must have underlying type `typ`
}

type livein struct{ name, typ string }

type target struct {
	file   string // relative to the repository root
	fn     string // "Func" or "Recv.Method"
	name   string // Lean definition name
	table  string // instead of fn: a package-level integer table
	block  string // "" | "for:<header text>" | "if:<cond text>"
	livein []livein
	result string   // blocks: variable holding the result, or "sink:<callee text>|<arg0 text>" (result = 2nd argument of the last statement)
	expect []string // blocks: exact texts of statements that must occur in the enclosing function
	opaque []opaque
	doc    string
}

var intfunModules = map[string][]target{
	"Shards": {
		{file: "ton/shards.go", fn: "ParseShardID", name: "ParseShardID"},
		{file: "ton/shards.go", fn: "ShardID.Encode", name: "Encode"},
		{file: "ton/shards.go", fn: "ShardID.MatchAccountID", name: "MatchAccountID",
			opaque: []opaque{{text: "binary.BigEndian.Uint64(a.Address[:8])", name: "addr8", typ: "uint64"}},
			doc:    "addr8 = the first 8 bytes of the account address read big-endian"},
		{file: "ton/shards.go", fn: "ShardID.MatchBlockID", name: "MatchBlockID"},
		{file: "ton/block.go", fn: "shardChild", name: "shardChild"},
		{file: "ton/block.go", fn: "shardParent", name: "shardParent"},
		{file: "ton/block.go", fn: "convertShardIdent", name: "convertShardIdent"},
		{file: "ton/account.go", fn: "AccountIDFromTlb", name: "anycastRewrite", block: "if:a.AddrStd.Anycast.Exists",
			result: "sink:binary.BigEndian.PutUint32|address[:4]",
			expect: []string{"address := a.AddrStd.Address"},
			opaque: []opaque{
				{text: "binary.BigEndian.Uint32(address[:4])", name: "addr4", typ: "uint32"},
				{text: "a.AddrStd.Anycast.Value.Depth", name: "depth", typ: "uint32", check: "tlb.Anycast.Depth"},
				{text: "a.AddrStd.Anycast.Value.RewritePfx", name: "rewritePfx", typ: "uint32", check: "tlb.Anycast.RewritePfx"},
			},
			doc: "addr4 = the first 4 address bytes read big-endian; the result is written back to the same 4 bytes"},
	},
	"LevelMask": {
		{file: "boc/level_mask.go", fn: "levelMask.Level", name: "Level"},
		{file: "boc/level_mask.go", fn: "levelMask.HashIndex", name: "HashIndex"},
		{file: "boc/level_mask.go", fn: "levelMask.HashesCount", name: "HashesCount"},
		{file: "boc/level_mask.go", fn: "levelMask.Apply", name: "Apply"},
		{file: "boc/level_mask.go", fn: "levelMask.IsSignificant", name: "IsSignificant"},
	},
	"MinBits": {
		{file: "boc/bitString.go", table: "tab64", name: "tab64"},
		{file: "boc/bitString.go", fn: "minBitsRequired", name: "minBitsRequired"},
	},
	"Crc16Table": {
		{file: "utils/crc16.go", table: "TABLE", name: "TABLE"},
		{file: "utils/crc16.go", fn: "Crc16", name: "crc16Step", block: "for:i := 0; i < len(data); i++",
			livein: []livein{{"crc", "uint16"}}, result: "crc",
			expect: []string{"var crc uint16 = 0", "return crc"},
			opaque: []opaque{{text: "data[i]", name: "b", typ: "uint8"}},
			doc:    "one iteration of the byte loop of utils.Crc16: register `crc`, message byte `b = data[i]`; the register starts at 0 and is returned after the last byte"},
		{file: "utils/crc16.go", fn: "Crc16String", name: "crc16StringStep", block: "for:i := 0; i < len(data); i++",
			livein: []livein{{"crc", "uint16"}}, result: "crc",
			expect: []string{"var crc uint16 = 0", "return crc"},
			opaque: []opaque{{text: "data[i]", name: "b", typ: "uint8"}},
			doc:    "one iteration of the byte loop of utils.Crc16String"},
	},
}

func init() {
	intfunModules["MinBits"] = append(intfunModules["MinBits"],
		target{file: "boc/bitString.go", fn: "BitString.ReadLimUint", name: "readLimUintWidth", block: "prefix:1", result: "ln",
			livein: []livein{{"n", "int"}}, expect: []string{"res, err := s.ReadUint(ln)", "return uint(res), err"},
			doc: "the bit width read by `ReadLimUint(n)` (`#<= n`): `s.ReadUint(ln)` follows"},
		target{file: "boc/bitString.go", fn: "BitString.WriteLimUint", name: "writeLimUintWidth", block: "prefix:1", result: "ln",
			livein: []livein{{"n", "int"}}, expect: []string{"err := s.WriteUint(uint64(val), ln)", "return err"},
			doc: "the bit width written by `WriteLimUint(val, n)`: `s.WriteUint(uint64(val), ln)` follows"})
	intfunModules["CellDesc"] = []target{
		{file: "boc/cell.go", fn: "d1", name: "d1",
			opaque: []opaque{{text: "cell.RefsSize()", name: "refsSize", typ: "int"}, {text: "cell.IsExotic()", name: "isExotic", typ: "bool"}},
			doc:    "refsSize = cell.RefsSize(), isExotic = cell.IsExotic()"},
		{file: "boc/cell.go", fn: "d2", name: "d2",
			opaque: []opaque{{text: "cell.BitSize()", name: "bitSize", typ: "int"}}, doc: "bitSize = cell.BitSize()"},
	}
	intfunModules["TlLength"] = []target{
		{file: "tl/encoder.go", fn: "EncodeLength", name: "EncodeLength"},
		{file: "liteclient/client.go", fn: "encodeLength", name: "encodeLengthLiteclient"},
	}
	intfunModules["WalletV5Id"] = []target{
		{file: "wallet/wallet_v5.go", fn: "genContextID", name: "genContextID"},
		{file: "wallet/wallet_v5.go", fn: "NewWalletV5R1", name: "walletID",
			block:  "range:contextID := int64(genContextID(uint32(workchain)))|walletID := contextID ^ networkGlobalID",
			result: "expr:uint32(walletID)",
			expect: []string{"workchain := defaultOr(opts.Workchain, 0)", "networkGlobalID := int64(defaultOr[int32](opts.NetworkGlobalID, MainnetGlobalID))",
				"text:walletID: uint32(walletID),"},
			livein: []livein{{"workchain", "int"}, {"networkGlobalID", "int64"}},
			doc:    "workchain = defaultOr(opts.Workchain, 0) (a Go int), networkGlobalID = int64 of the int32 network id; the result is stored in walletV5R1.walletID"},
	}
	intfunModules["BocHeader"] = []target{
		{file: "boc/boc.go", fn: "readNBytesUIntFromArray", name: "readNBytesStep", block: "for:i := 0; i < n; i++",
			livein: []livein{{"res", "uint"}}, result: "res", expect: []string{"var res uint = 0", "return res"},
			opaque: []opaque{{text: "arr[i]", name: "b", typ: "uint8"}},
			doc:    "one iteration of the loop of readNBytesUIntFromArray: accumulator `res` (starts at 0, returned after n bytes), byte `b = arr[i]`"},
		{file: "boc/boc.go", fn: "parseBocHeader", name: "flagByte", block: "if:bytes.Equal(prefix, reachBocMagicPrefix)",
			livein: []livein{{"hasIdx", "bool"}, {"hashCrc32", "bool"}, {"hasCacheBits", "bool"}, {"flags", "int"}, {"sizeBytes", "int"}},
			result: "vars:hasIdx,hashCrc32,hasCacheBits,flags,sizeBytes",
			opaque: []opaque{{text: "boc[0]", name: "fb", typ: "uint8"}},
			expect: []string{"var prefix = boc[0:4]", "boc = boc[4:]"},
			doc:    "decoding of the flag byte `fb = boc[0]` (the byte after the 4 magic bytes) of the generic BOC magic"},
	}
	intfunModules["CellDesc"] = append(intfunModules["CellDesc"],
		target{file: "boc/cell.go", fn: "Cell.bocReprWithoutRefs", name: "reprLen", block: "prefix:0", result: "expr@int:((c.BitSize()+7)/8)+2",
			opaque: []opaque{{text: "c.BitSize()", name: "bitSize", typ: "int"}},
			expect: []string{"res := make([]byte, ((c.BitSize()+7)/8)+2)", "res[0] = d1(c, mask)", "res[1] = d2(c)", "copy(res[2:], c.getBuffer())", "return res"},
			doc:    "length of the representation without refs: two descriptor bytes and the data bytes; bitSize = c.BitSize()"},
		target{file: "boc/cell.go", fn: "Cell.bocReprWithoutRefs", name: "tagNeeded", block: "cond:c.BitSize()%8 != 0",
			opaque: []opaque{{text: "c.BitSize()", name: "bitSize", typ: "int"}},
			doc:    "whether a completion tag is OR-ed into the last byte"},
		target{file: "boc/cell.go", fn: "Cell.bocReprWithoutRefs", name: "tagBit", block: "prefix:0", result: "expr@byte:1 << (7 - c.BitSize()%8)",
			opaque: []opaque{{text: "c.BitSize()", name: "bitSize", typ: "int"}},
			expect: []string{"res[len(res)-1] |= 1 << (7 - c.BitSize()%8)", "text:if c.BitSize()%8 != 0 {"},
			doc:    "the completion tag OR-ed into the last byte `res[len(res)-1]`"},
		target{file: "boc/immutable_cell.go", fn: "newImmutableCell", name: "depthBytes",
			block:  "range:var depthRepr [2]byte|binary.BigEndian.PutUint16(depthRepr[:], uint16(childDepth))",
			livein: []livein{{"childDepth", "int"}}, result: "bufs:depthRepr",
			expect: []string{"childDepth := ref.Depth(childLevelIndex)", "x.Write(depthRepr[:])"},
			doc:    "the two bytes hashed for a child's depth"})
	intfunModules["WalletInts"] = []target{
		{file: "wallet/wallet_v3.go", fn: "newWalletV3", name: "subWalletDefaultV3", block: "prefix:1", result: "expr:uint32(DefaultSubWallet+workchain)",
			livein: []livein{{"workchain", "int"}}, opaque: []opaque{{text: "defaultOr(options.Workchain, 0)", name: "wc", typ: "int"}},
			expect: []string{"subWalletID := defaultOr(options.SubWalletID, uint32(DefaultSubWallet+workchain))"},
			doc:    "default sub-wallet id of a v3 wallet: wc = defaultOr(options.Workchain, 0)"},
		{file: "wallet/wallet_v4.go", fn: "newWalletV4", name: "subWalletDefaultV4", block: "prefix:1", result: "expr:uint32(DefaultSubWallet+workchain)",
			opaque: []opaque{{text: "defaultOr(opts.Workchain, 0)", name: "wc", typ: "int"}},
			expect: []string{"subWalletID := defaultOr(opts.SubWalletID, uint32(DefaultSubWallet+workchain))"},
			doc:    "default sub-wallet id of a v4 wallet"},
		{file: "wallet/wallet_highload_v2.go", fn: "newWalletHighloadV2", name: "subWalletDefaultHighload", block: "prefix:1", result: "expr:uint32(DefaultSubWallet+workchain)",
			opaque: []opaque{{text: "defaultOr(options.Workchain, 0)", name: "wc", typ: "int"}},
			expect: []string{"subWalletID := defaultOr(options.SubWalletID, uint32(DefaultSubWallet+workchain))"},
			doc:    "default sub-wallet id of a highload v2 wallet"},
		{file: "wallet/wallet_highload_v2.go", fn: "walletHighloadV2.createSignedMsgBodyCell", name: "highloadQueryID", block: "prefix:1", result: "boundedID",
			opaque: []opaque{{text: "msgConfig.ValidUntil.UTC().Unix()", name: "validUntil", typ: "int64"}, {text: "rand.Uint32()", name: "rnd", typ: "uint32"}},
			expect: []string{"text:BoundedQueryID: boundedID,"},
			doc:    "bounded query id of a highload message: validUntil = msgConfig.ValidUntil.UTC().Unix(), rnd = rand.Uint32()"},
		{file: "wallet/models.go", fn: "SimpleTransfer.ToInternal", name: "defaultMessageMode", block: "prefix:0", result: "expr@uint8:DefaultMessageMode",
			expect: []string{"return intMsg, DefaultMessageMode, nil"},
			doc:    "the send mode SimpleTransfer.ToInternal returns (result `mode uint8`)"},
	}
	intfunModules["TonConnectMsg"] = []target{
		{file: "tonconnect/server.go", fn: "createMessage", name: "createMessageInts", block: "prefix:6", result: "bufs:wc,dl,ts",
			opaque: []opaque{{text: "message.workChain", name: "workChain", typ: "int32", check: "tonconnect.parsedMessage.workChain"},
				{text: "len(message.domain)", name: "domainLen", typ: "int"},
				{text: "message.ts", name: "ts", typ: "int64", check: "tonconnect.parsedMessage.ts"}},
			expect: []string{"m := []byte(tonProofPrefix)", "m = append(m, wc...)", "m = append(m, message.address...)", "m = append(m, dl...)",
				"m = append(m, []byte(message.domain)...)", "m = append(m, ts...)", "m = append(m, []byte(message.payload)...)", "messageHash := sha256.Sum256(m)"},
			doc: "the three integer fields of the signed ton-proof message: workchain big-endian, domain length and timestamp little-endian; the byte string is prefix ++ wc ++ address ++ dl ++ domain ++ ts ++ payload"},
	}
	for name := range intfunModules {
		n := name
		translators[n] = func(repo string) (string, error) { return genIntfunModule(repo, n) }
	}
}

// ------------------------------------------------------------------------------------------------------------ types

type ity struct {
	bits    int
	signed  bool
	isBool  bool
	isBytes bool // a small byte slice built in the function ([]byte result): List (BitVec 8)
}

var bytesT = &ity{isBytes: true}

func (t *ity) lean() string {
	if t.isBytes {
		return "List (BitVec 8)"
	}
	if t.isBool {
		return "Bool"
	}
	return fmt.Sprintf("BitVec %d", t.bits)
}
func (t *ity) String() string {
	if t.isBool {
		return "bool"
	}
	if t.signed {
		return fmt.Sprintf("int%d", t.bits)
	}
	return fmt.Sprintf("uint%d", t.bits)
}
func (t *ity) same(o *ity) bool { return *t == *o }
func (t *ity) min() *big.Int {
	if t.signed {
		return new(big.Int).Neg(new(big.Int).Lsh(big.NewInt(1), uint(t.bits-1)))
	}
	return big.NewInt(0)
}
func (t *ity) max() *big.Int {
	b := t.bits
	if t.signed {
		b--
	}
	return new(big.Int).Sub(new(big.Int).Lsh(big.NewInt(1), uint(b)), big.NewInt(1))
}

var builtinTypes = map[string]*ity{
	"uint64": {bits: 64, signed: false, isBool: false}, "int64": {bits: 64, signed: true, isBool: false}, "uint": {bits: 64, signed: false, isBool: false}, "int": {bits: 64, signed: true, isBool: false},
	"uint32": {bits: 32, signed: false, isBool: false}, "int32": {bits: 32, signed: true, isBool: false}, "uint16": {bits: 16, signed: false, isBool: false}, "int16": {bits: 16, signed: true, isBool: false},
	"uint8": {bits: 8, signed: false, isBool: false}, "int8": {bits: 8, signed: true, isBool: false}, "byte": {bits: 8, signed: false, isBool: false}, "bool": {bits: 0, signed: false, isBool: true},
}

type field struct {
	name string
	t    *ity // nil: not an integer/bool field
}
type structT struct {
	name   string
	fields []field
}
type arrayT struct {
	n    int // -1 slice
	elem *ity
}

// gtype is *ity | *structT | *arrayT | errorT
type errorT struct{}

type pkg struct {
	dir    string
	fset   *token.FileSet
	files  []*ast.File
	types  map[string]*ast.TypeSpec
	tfile  map[string]*ast.File
	vars   map[string]*ast.ValueSpec
	vfile  map[string]*ast.File
	consts map[string]*ast.ValueSpec // package-level constants (single name = single value)
	funcs  map[string]*ast.FuncDecl
	ffile  map[string]*ast.File
}

type world struct {
	repo string
	pkgs map[string]*pkg
}

const modulePath = "github.com/tonkeeper/tongo"

func (w *world) load(dir string) (*pkg, error) {
	if p, ok := w.pkgs[dir]; ok {
		return p, nil
	}
	p := &pkg{dir: dir, fset: token.NewFileSet(), types: map[string]*ast.TypeSpec{}, tfile: map[string]*ast.File{},
		vars: map[string]*ast.ValueSpec{}, vfile: map[string]*ast.File{}, consts: map[string]*ast.ValueSpec{}, funcs: map[string]*ast.FuncDecl{}, ffile: map[string]*ast.File{}}
	ents, err := os.ReadDir(filepath.Join(w.repo, dir))
	if err != nil {
		return nil, err
	}
	for _, e := range ents {
		n := e.Name()
		if e.IsDir() || !strings.HasSuffix(n, ".go") || strings.HasSuffix(n, "_test.go") || strings.HasSuffix(n, "_verif.go") {
			continue
		}
		f, err := parser.ParseFile(p.fset, filepath.Join(w.repo, dir, n), nil, parser.SkipObjectResolution)
		if err != nil {
			return nil, err
		}
		p.files = append(p.files, f)
		for _, d := range f.Decls {
			switch d := d.(type) {
			case *ast.GenDecl:
				for _, s := range d.Specs {
					switch s := s.(type) {
					case *ast.TypeSpec:
						p.types[s.Name.Name] = s
						p.tfile[s.Name.Name] = f
					case *ast.ValueSpec:
						if d.Tok == token.VAR {
							for _, nm := range s.Names {
								p.vars[nm.Name] = s
								p.vfile[nm.Name] = f
							}
						}
						if d.Tok == token.CONST && len(s.Names) == 1 && len(s.Values) == 1 {
							p.consts[s.Names[0].Name] = s
							p.vfile[s.Names[0].Name] = f
						}
					}
				}
			case *ast.FuncDecl:
				key := d.Name.Name
				if d.Recv != nil && len(d.Recv.List) == 1 {
					rt := d.Recv.List[0].Type
					if st, ok := rt.(*ast.StarExpr); ok {
						rt = st.X
					}
					if id, ok := rt.(*ast.Ident); ok {
						key = id.Name + "." + key
					}
				}
				p.funcs[key] = d
				p.ffile[key] = f
			}
		}
	}
	w.pkgs[dir] = p
	return p, nil
}

func importDir(f *ast.File, name string) (string, bool) {
	for _, im := range f.Imports {
		path := strings.Trim(im.Path.Value, `"`)
		local := path[strings.LastIndex(path, "/")+1:]
		if im.Name != nil {
			local = im.Name.Name
		}
		if local == name {
			if path == modulePath {
				return ".", true
			}
			if strings.HasPrefix(path, modulePath+"/") {
				return strings.TrimPrefix(path, modulePath+"/"), true
			}
			return "", false
		}
	}
	return "", false
}

func (w *world) resolve(e ast.Expr, p *pkg, f *ast.File, depth int) (interface{}, error) {
	if depth > 20 {
		return nil, fmt.Errorf("type recursion too deep")
	}
	switch e := e.(type) {
	case *ast.Ident:
		if t, ok := builtinTypes[e.Name]; ok {
			if _, shadow := p.types[e.Name]; !shadow {
				return t, nil
			}
		}
		if e.Name == "error" {
			return errorT{}, nil
		}
		ts, ok := p.types[e.Name]
		if !ok {
			return nil, fmt.Errorf("unknown type %s in %s", e.Name, p.dir)
		}
		if ts.TypeParams != nil {
			return nil, fmt.Errorf("generic type %s: outside the subset", e.Name)
		}
		r, err := w.resolve(ts.Type, p, p.tfile[e.Name], depth+1)
		if err != nil {
			return nil, err
		}
		if st, ok := r.(*structT); ok && st.name == "" {
			c := *st
			c.name = e.Name
			return &c, nil
		}
		return r, nil
	case *ast.SelectorExpr:
		x, ok := e.X.(*ast.Ident)
		if !ok {
			return nil, fmt.Errorf("type expression %s: outside the subset", txt(e))
		}
		dir, ok := importDir(f, x.Name)
		if !ok {
			return nil, fmt.Errorf("type %s: package %s is not part of the repository", txt(e), x.Name)
		}
		q, err := w.load(dir)
		if err != nil {
			return nil, err
		}
		return w.resolve(e.Sel, q, nil, depth+1)
	case *ast.StructType:
		st := &structT{}
		for _, fl := range e.Fields.List {
			var ft *ity
			if r, err := w.resolve(fl.Type, p, f, depth+1); err == nil {
				if it, ok := r.(*ity); ok {
					ft = it
				}
			}
			for _, nm := range fl.Names {
				st.fields = append(st.fields, field{nm.Name, ft})
			}
		}
		return st, nil
	case *ast.ArrayType:
		r, err := w.resolve(e.Elt, p, f, depth+1)
		if err != nil {
			return nil, err
		}
		it, ok := r.(*ity)
		if !ok {
			return nil, fmt.Errorf("array of non-integers: outside the subset")
		}
		n := -1
		if e.Len != nil {
			bl, ok := e.Len.(*ast.BasicLit)
			if !ok {
				return nil, fmt.Errorf("array length %s: outside the subset", txt(e.Len))
			}
			v := constant.MakeFromLiteral(bl.Value, bl.Kind, 0)
			i, _ := constant.Int64Val(v)
			n = int(i)
		}
		return &arrayT{n, it}, nil
	case *ast.ParenExpr:
		return w.resolve(e.X, p, f, depth)
	}
	return nil, fmt.Errorf("type expression %s: outside the subset", txt(e))
}

// nosp removes blanks: go/printer spaces binary operators differently depending on the nesting depth
func nosp(s string) string { return strings.ReplaceAll(s, " ", "") }

func txt(n interface{}) string {
	var b bytes.Buffer
	printer.Fprint(&b, token.NewFileSet(), n)
	return strings.Join(strings.Fields(b.String()), " ")
}

// ------------------------------------------------------------------------------------------------------- expressions

// val is a translated expression. cv != nil: a constant (t == nil: still untyped).
type val struct {
	lean   string
	t      *ity
	cv     constant.Value
	bconst *bool // known boolean constant
	lo, hi *big.Int
}

type binding struct {
	lean   string
	t      *ity
	st     *structT          // struct-typed variable: fields resolved through `fields`
	fields map[string]string // field → Lean name (struct locals); nil for parameters (then <var>_<field>)
	isParm bool
	lo, hi *big.Int
	errNil *bool    // an `error` variable with statically known nil-ness
	key    string   // used-key of a live-in parameter ("" = always kept)
	buf    []string // a byte buffer `make([]byte, N)`: the Lean expression of each byte
	cell   *cellAcc // a fresh boc cell used as a bit accumulator
}

// cellAcc: `c := boc.NewCell()` followed only by `c.WriteUint(v, n)` with constant n (total ≤ 64 bits), `c.ResetCounters()`
// and one `c.ReadUint(total)`. TRUSTED semantics of these boc primitives (they are modelled and proved in C06): on a
// fresh cell WriteUint appends the low n bits of v, most significant first, and cannot fail below 1023 bits; after
// ResetCounters, ReadUint(total) returns all bits written as one big-endian number and cannot fail.
type cellAcc struct {
	acc   string
	nbits int
	reset bool
	read  bool
}

type tableInfo struct {
	lean string
	n    int
	elem *ity
}

type ctx struct {
	w          *world
	p          *pkg
	f          *ast.File
	mod        *module
	vars       map[string]*binding
	opaque     []opaque
	used       map[string]bool // opaque names / struct field params used
	guards     *[]string       // panic guards collected for the current statement
	constDepth int
	recv       string // receiver variable name ("" none)
	recvTyp    string // receiver type name
}

func (c *ctx) clone() *ctx {
	n := *c
	n.vars = map[string]*binding{}
	for k, v := range c.vars {
		n.vars[k] = v
	}
	return &n
}

var leanReserved = map[string]bool{"prefix": true, "infix": true, "infixl": true, "infixr": true, "postfix": true, "at": true,
	"from": true, "have": true, "show": true, "fun": true, "let": true, "in": true, "end": true, "open": true, "then": true,
	"else": true, "if": true, "do": true, "where": true, "with": true, "match": true, "by": true, "def": true, "theorem": true,
	"instance": true, "structure": true, "class": true, "namespace": true, "section": true, "variable": true, "local": true,
	"Type": true, "Prop": true, "Sort": true, "set_option": true, "export": true, "import": true, "deriving": true,
	"mutual": true, "private": true, "protected": true, "partial": true, "unsafe": true, "macro": true, "syntax": true,
	"notation": true, "universe": true, "abbrev": true, "example": true, "axiom": true, "inductive": true, "return": true,
	"for": true, "unless": true, "try": true, "catch": true, "finally": true, "mut": true, "using": true, "extends": true,
	"nomatch": true, "nofun": true, "calc": true, "suffices": true, "obtain": true, "exists": true, "forall": true}

func leanName(s string) string {
	if leanReserved[s] {
		return s + "_"
	}
	return s
}

func lit(v *big.Int, t *ity) string {
	m := new(big.Int).Lsh(big.NewInt(1), uint(t.bits))
	u := new(big.Int).Mod(v, m)
	if u.Cmp(big.NewInt(1024)) < 0 {
		return fmt.Sprintf("%s#%d", u.String(), t.bits)
	}
	return fmt.Sprintf("0x%s#%d", u.Text(16), t.bits)
}

func cvBig(v constant.Value) (*big.Int, bool) {
	v = constant.ToInt(v)
	if v.Kind() != constant.Int {
		return nil, false
	}
	b, ok := new(big.Int).SetString(v.ExactString(), 10)
	return b, ok
}

// materialise gives an untyped constant the type t (compile-time overflow check as in Go)
func (c *ctx) mat(v val, t *ity) (val, error) {
	if v.t != nil || v.cv == nil {
		return v, nil
	}
	if t == nil {
		return v, fmt.Errorf("untyped constant %s without a typing context: outside the subset", v.cv.ExactString())
	}
	if t.isBool {
		return v, fmt.Errorf("integer constant used as bool")
	}
	b, ok := cvBig(v.cv)
	if !ok {
		return v, fmt.Errorf("non-integer constant %s", v.cv.ExactString())
	}
	if b.Cmp(t.min()) < 0 || b.Cmp(t.max()) > 0 {
		return v, fmt.Errorf("constant %s overflows %s", b, t)
	}
	return val{lean: lit(b, t), t: t, cv: v.cv, lo: b, hi: b}, nil
}

func full(t *ity) (lo, hi *big.Int) { return t.min(), t.max() }

func (c *ctx) mk(lean string, t *ity) val {
	v := val{lean: lean, t: t}
	if !t.isBool {
		v.lo, v.hi = full(t)
	}
	return v
}

func fits(lo, hi *big.Int, t *ity) bool { return lo.Cmp(t.min()) >= 0 && hi.Cmp(t.max()) <= 0 }

func (c *ctx) expr(e ast.Expr, hint *ity) (val, error) {
	// opaque expressions first
	et := txt(e)
	for _, o := range c.opaque {
		if nosp(o.text) == nosp(et) {
			t := builtinTypes[o.typ]
			c.used["opaque:"+o.name] = true
			return c.mk(leanName(o.name), t), nil
		}
	}
	switch e := e.(type) {
	case *ast.ParenExpr:
		v, err := c.expr(e.X, hint)
		if err != nil {
			return v, err
		}
		return v, nil
	case *ast.BasicLit:
		if e.Kind != token.INT && e.Kind != token.CHAR {
			return val{}, fmt.Errorf("literal %s: outside the subset", e.Value)
		}
		return val{cv: constant.ToInt(constant.MakeFromLiteral(e.Value, e.Kind, 0))}, nil
	case *ast.Ident:
		if b, ok := c.vars[e.Name]; ok {
			if b.st != nil || b.t == nil || b.buf != nil || b.cell != nil {
				return val{}, fmt.Errorf("variable %s used as a value: outside the subset", e.Name)
			}
			if b.key != "" {
				c.used[b.key] = true
			}
			v := val{lean: b.lean, t: b.t, lo: b.lo, hi: b.hi}
			if !b.t.isBool && v.lo == nil {
				v.lo, v.hi = full(b.t)
			}
			return v, nil
		}
		switch e.Name {
		case "true", "false":
			bv := e.Name == "true"
			return val{lean: e.Name, t: builtinTypes["bool"], bconst: &bv}, nil
		}
		// a package-level integer constant `const X = <constant expression>` (untyped, or typed if declared so)
		if cs, ok := c.p.consts[e.Name]; ok && c.constDepth < 8 {
			cc := &ctx{w: c.w, p: c.p, f: c.p.vfile[e.Name], mod: c.mod, vars: map[string]*binding{}, used: map[string]bool{}, constDepth: c.constDepth + 1}
			v, err := cc.expr(cs.Values[0], nil)
			if err != nil {
				return val{}, fmt.Errorf("constant %s: %v", e.Name, err)
			}
			if v.cv == nil {
				return val{}, fmt.Errorf("constant %s is not an integer constant: outside the subset", e.Name)
			}
			if cs.Type != nil {
				r, err := c.w.resolve(cs.Type, c.p, cc.f, 0)
				if err != nil {
					return val{}, err
				}
				t, ok := r.(*ity)
				if !ok || t.isBool {
					return val{}, fmt.Errorf("constant %s: type outside the subset", e.Name)
				}
				return cc.mat(val{cv: v.cv}, t)
			}
			return val{cv: v.cv}, nil
		}
		return val{}, fmt.Errorf("identifier %s: outside the subset", e.Name)
	case *ast.SelectorExpr:
		if x, ok := e.X.(*ast.Ident); ok {
			if b, ok := c.vars[x.Name]; ok && b.st != nil {
				for _, fl := range b.st.fields {
					if fl.name == e.Sel.Name {
						if fl.t == nil {
							return val{}, fmt.Errorf("field %s is not an integer: outside the subset", et)
						}
						if b.fields != nil {
							return c.mk(b.fields[fl.name], fl.t), nil
						}
						c.used["field:"+x.Name+"."+fl.name] = true
						return c.mk(leanName(x.Name+"_"+fl.name), fl.t), nil
					}
				}
				return val{}, fmt.Errorf("no field %s", et)
			}
		}
		return val{}, fmt.Errorf("selector %s: outside the subset", et)
	case *ast.UnaryExpr:
		switch e.Op {
		case token.NOT:
			v, err := c.expr(e.X, nil)
			if err != nil {
				return v, err
			}
			if v.t == nil || !v.t.isBool {
				return v, fmt.Errorf("! on non-bool")
			}
			if v.bconst != nil {
				nb := !*v.bconst
				return val{lean: fmt.Sprint(nb), t: v.t, bconst: &nb}, nil
			}
			return val{lean: "(!" + v.lean + ")", t: v.t}, nil
		case token.SUB, token.XOR, token.ADD:
			v, err := c.expr(e.X, hint)
			if err != nil {
				return v, err
			}
			if v.t == nil && v.cv != nil {
				return val{cv: constant.UnaryOp(e.Op, v.cv, 0)}, nil
			}
			if v.t == nil || v.t.isBool {
				return v, fmt.Errorf("unary %s on non-integer", e.Op)
			}
			switch e.Op {
			case token.ADD:
				return v, nil
			case token.SUB:
				return c.mk("(-"+v.lean+")", v.t), nil
			default:
				return c.mk("(~~~"+v.lean+")", v.t), nil
			}
		}
		return val{}, fmt.Errorf("unary %s: outside the subset", e.Op)
	case *ast.BinaryExpr:
		return c.binary(e, hint)
	case *ast.CallExpr:
		return c.call(e, hint)
	case *ast.IndexExpr:
		id, ok := e.X.(*ast.Ident)
		if !ok {
			return val{}, fmt.Errorf("index expression %s: outside the subset", et)
		}
		tb, err := c.mod.table(c, id.Name)
		if err != nil {
			return val{}, err
		}
		iv, err := c.expr(e.Index, nil)
		if err != nil {
			return val{}, err
		}
		if iv.t == nil {
			iv, err = c.mat(iv, builtinTypes["int"])
			if err != nil {
				return val{}, err
			}
		}
		if iv.t.isBool {
			return val{}, fmt.Errorf("bool index")
		}
		if iv.lo.Sign() < 0 || iv.hi.Cmp(big.NewInt(int64(tb.n))) >= 0 {
			return val{}, fmt.Errorf("index %s of %s: cannot show 0 ≤ index < %d (interval [%s,%s]): outside the subset", txt(e.Index), id.Name, tb.n, iv.lo, iv.hi)
		}
		return c.mk(fmt.Sprintf("(%s.getD %s.toNat %s)", tb.lean, paren(iv.lean), lit(big.NewInt(0), tb.elem)), tb.elem), nil
	}
	return val{}, fmt.Errorf("expression %s (%T): outside the subset", et, e)
}

func paren(s string) string {
	if strings.ContainsAny(s, " ") && !(strings.HasPrefix(s, "(") && matchingParen(s)) {
		return "(" + s + ")"
	}
	return s
}

func matchingParen(s string) bool {
	d := 0
	for i, r := range s {
		if r == '(' {
			d++
		} else if r == ')' {
			d--
			if d == 0 && i != len(s)-1 {
				return false
			}
		}
	}
	return d == 0
}

func (c *ctx) binary(e *ast.BinaryExpr, hint *ity) (val, error) {
	boolT := builtinTypes["bool"]
	switch e.Op {
	case token.LAND, token.LOR:
		// operands must not be able to panic: short-circuit evaluation is not modelled
		saved := c.guards
		var g []string
		c.guards = &g
		x, err := c.expr(e.X, nil)
		if err != nil {
			return x, err
		}
		y, err := c.expr(e.Y, nil)
		if err != nil {
			return y, err
		}
		c.guards = saved
		if len(g) > 0 {
			return val{}, fmt.Errorf("possibly panicking operand of %s: outside the subset", e.Op)
		}
		if x.t == nil || y.t == nil || !x.t.isBool || !y.t.isBool {
			return val{}, fmt.Errorf("%s on non-bool", e.Op)
		}
		op := "&&"
		if e.Op == token.LOR {
			op = "||"
		}
		if x.bconst != nil && y.bconst != nil {
			r := *x.bconst && *y.bconst
			if e.Op == token.LOR {
				r = *x.bconst || *y.bconst
			}
			return val{lean: fmt.Sprint(r), t: boolT, bconst: &r}, nil
		}
		return val{lean: "(" + x.lean + " " + op + " " + y.lean + ")", t: boolT}, nil
	case token.SHL, token.SHR:
		x, err := c.expr(e.X, hint)
		if err != nil {
			return x, err
		}
		y, err := c.expr(e.Y, nil)
		if err != nil {
			return y, err
		}
		if x.t == nil && y.t == nil && y.cv != nil { // constant shift of an untyped constant
			n, ok := constant.Uint64Val(y.cv)
			if !ok || n > 4096 {
				return val{}, fmt.Errorf("bad constant shift count")
			}
			return val{cv: constant.Shift(x.cv, e.Op, uint(n))}, nil
		}
		if x.t == nil { // untyped constant, non-constant shift: takes the type the context gives it
			if x, err = c.mat(x, hint); err != nil {
				return x, err
			}
		}
		if x.t.isBool {
			return val{}, fmt.Errorf("shift of bool")
		}
		var cnt string
		var clo, chi *big.Int
		if y.t == nil {
			b, ok := cvBig(y.cv)
			if !ok || b.Sign() < 0 {
				return val{}, fmt.Errorf("bad constant shift count")
			}
			cnt, clo, chi = b.String(), b, b
		} else {
			if y.t.isBool {
				return val{}, fmt.Errorf("bool shift count")
			}
			clo, chi = y.lo, y.hi
			if y.cv != nil && y.lo.Sign() >= 0 {
				cnt = y.lo.String()
			} else {
				cnt = paren(y.lean) + ".toNat"
			}
			if y.t.signed && y.lo.Sign() < 0 {
				// cannot exclude a negative count: run-time panic, modelled as an explicit guard
				if c.guards == nil {
					return val{}, fmt.Errorf("possibly negative shift count %s here: outside the subset", txt(e.Y))
				}
				*c.guards = append(*c.guards, fmt.Sprintf("BitVec.slt %s %s", paren(y.lean), lit(big.NewInt(0), y.t)))
				clo = big.NewInt(0)
			}
		}
		r := val{t: x.t}
		r.lo, r.hi = full(x.t)
		if e.Op == token.SHL {
			r.lean = fmt.Sprintf("(%s <<< %s)", x.lean, cnt)
			// interval: only the simple case 1 << c that cannot overflow
			if x.lo.Sign() >= 0 && chi.IsInt64() && chi.Int64() < 4096 {
				h := new(big.Int).Lsh(x.hi, uint(chi.Int64()))
				if h.Cmp(x.t.max()) <= 0 {
					r.lo, r.hi = big.NewInt(0), h
				}
			}
		} else {
			if x.t.signed {
				r.lean = fmt.Sprintf("(BitVec.sshiftRight %s %s)", x.lean, cnt)
			} else {
				r.lean = fmt.Sprintf("(%s >>> %s)", x.lean, cnt)
			}
			if x.lo.Sign() >= 0 && clo.IsInt64() && clo.Int64() < 4096 {
				r.lo, r.hi = big.NewInt(0), new(big.Int).Rsh(x.hi, uint(clo.Int64()))
			}
		}
		return r, nil
	}
	cmp := map[token.Token]bool{token.EQL: true, token.NEQ: true, token.LSS: true, token.LEQ: true, token.GTR: true, token.GEQ: true}
	if cmp[e.Op] {
		// error comparison against nil with statically known nil-ness
		if xi, ok := e.X.(*ast.Ident); ok {
			if yi, ok := e.Y.(*ast.Ident); ok && yi.Name == "nil" {
				if b, ok := c.vars[xi.Name]; ok && b.errNil != nil && (e.Op == token.EQL || e.Op == token.NEQ) {
					r := *b.errNil == (e.Op == token.EQL)
					return val{lean: fmt.Sprint(r), t: boolT, bconst: &r}, nil
				}
			}
		}
		x, err := c.expr(e.X, nil)
		if err != nil {
			return x, err
		}
		y, err := c.expr(e.Y, nil)
		if err != nil {
			return y, err
		}
		if x.t == nil && y.t == nil {
			r := constant.Compare(x.cv, e.Op, y.cv)
			return val{lean: fmt.Sprint(r), t: boolT, bconst: &r}, nil
		}
		if x.t == nil {
			if x, err = c.mat(x, y.t); err != nil {
				return x, err
			}
		}
		if y.t == nil {
			if y, err = c.mat(y, x.t); err != nil {
				return y, err
			}
		}
		if !x.t.same(y.t) {
			return val{}, fmt.Errorf("comparison %s of %s and %s", txt(e), x.t, y.t)
		}
		if x.t.isBool {
			switch e.Op {
			case token.EQL:
				return val{lean: "(" + x.lean + " == " + y.lean + ")", t: boolT}, nil
			case token.NEQ:
				return val{lean: "(" + x.lean + " != " + y.lean + ")", t: boolT}, nil
			}
			return val{}, fmt.Errorf("ordering of bools")
		}
		var s string
		lt, le := "BitVec.ult", "BitVec.ule"
		if x.t.signed {
			lt, le = "BitVec.slt", "BitVec.sle"
		}
		switch e.Op {
		case token.EQL:
			s = fmt.Sprintf("(%s == %s)", x.lean, y.lean)
		case token.NEQ:
			s = fmt.Sprintf("(%s != %s)", x.lean, y.lean)
		case token.LSS:
			s = fmt.Sprintf("(%s %s %s)", lt, paren(x.lean), paren(y.lean))
		case token.LEQ:
			s = fmt.Sprintf("(%s %s %s)", le, paren(x.lean), paren(y.lean))
		case token.GTR:
			s = fmt.Sprintf("(%s %s %s)", lt, paren(y.lean), paren(x.lean))
		case token.GEQ:
			s = fmt.Sprintf("(%s %s %s)", le, paren(y.lean), paren(x.lean))
		}
		return val{lean: s, t: boolT}, nil
	}
	// arithmetic / bitwise
	x, err := c.expr(e.X, hint)
	if err != nil {
		return x, err
	}
	y, err := c.expr(e.Y, hint)
	if err != nil {
		return y, err
	}
	if x.t == nil && y.t == nil {
		if e.Op == token.QUO {
			if b, ok := cvBig(y.cv); !ok || b.Sign() == 0 {
				return val{}, fmt.Errorf("constant division by zero")
			}
			return val{cv: constant.BinaryOp(x.cv, token.QUO_ASSIGN, y.cv)}, nil // integer division
		}
		return val{cv: constant.BinaryOp(x.cv, e.Op, y.cv)}, nil
	}
	if x.t == nil {
		if x, err = c.mat(x, y.t); err != nil {
			return x, err
		}
	}
	if y.t == nil {
		if y, err = c.mat(y, x.t); err != nil {
			return y, err
		}
	}
	if !x.t.same(y.t) || x.t.isBool {
		return val{}, fmt.Errorf("operands of %s have types %s and %s", txt(e), x.t, y.t)
	}
	t := x.t
	r := val{t: t}
	r.lo, r.hi = full(t)
	nonneg := x.lo.Sign() >= 0 && y.lo.Sign() >= 0
	switch e.Op {
	case token.ADD:
		r.lean = fmt.Sprintf("(%s + %s)", x.lean, y.lean)
		lo, hi := new(big.Int).Add(x.lo, y.lo), new(big.Int).Add(x.hi, y.hi)
		if fits(lo, hi, t) {
			r.lo, r.hi = lo, hi
		}
	case token.SUB:
		r.lean = fmt.Sprintf("(%s - %s)", x.lean, y.lean)
		lo, hi := new(big.Int).Sub(x.lo, y.hi), new(big.Int).Sub(x.hi, y.lo)
		if fits(lo, hi, t) {
			r.lo, r.hi = lo, hi
		}
	case token.MUL:
		r.lean = fmt.Sprintf("(%s * %s)", x.lean, y.lean)
	case token.AND:
		r.lean = fmt.Sprintf("(%s &&& %s)", x.lean, y.lean)
		if nonneg {
			r.lo = big.NewInt(0)
			r.hi = x.hi
			if y.hi.Cmp(r.hi) < 0 {
				r.hi = y.hi
			}
		} else if x.lo.Sign() >= 0 {
			r.lo, r.hi = big.NewInt(0), x.hi
		} else if y.lo.Sign() >= 0 {
			r.lo, r.hi = big.NewInt(0), y.hi
		}
	case token.OR:
		r.lean = fmt.Sprintf("(%s ||| %s)", x.lean, y.lean)
	case token.XOR:
		r.lean = fmt.Sprintf("(%s ^^^ %s)", x.lean, y.lean)
	case token.AND_NOT:
		r.lean = fmt.Sprintf("(%s &&& ~~~%s)", x.lean, paren(y.lean))
		if x.lo.Sign() >= 0 {
			r.lo, r.hi = big.NewInt(0), x.hi
		}
	case token.QUO, token.REM:
		if y.cv == nil || y.lo.Sign() == 0 {
			return val{}, fmt.Errorf("%s by a non-constant or zero divisor: outside the subset", e.Op)
		}
		if t.signed {
			if y.lo.Cmp(big.NewInt(-1)) == 0 {
				return val{}, fmt.Errorf("signed division by -1: outside the subset")
			}
			if e.Op == token.QUO {
				r.lean = fmt.Sprintf("(BitVec.sdiv %s %s)", paren(x.lean), paren(y.lean))
			} else {
				r.lean = fmt.Sprintf("(BitVec.srem %s %s)", paren(x.lean), paren(y.lean))
				if y.lo.Sign() > 0 { // |x rem c| < c, sign of the dividend
					m := new(big.Int).Sub(y.lo, big.NewInt(1))
					r.lo, r.hi = new(big.Int).Neg(m), m
					if x.lo.Sign() >= 0 {
						r.lo = big.NewInt(0)
					}
				}
			}
		} else {
			if e.Op == token.QUO {
				r.lean = fmt.Sprintf("(%s / %s)", x.lean, y.lean)
				r.lo, r.hi = new(big.Int).Quo(x.lo, y.lo), new(big.Int).Quo(x.hi, y.lo)
			} else {
				r.lean = fmt.Sprintf("(%s %% %s)", x.lean, y.lean)
				r.lo, r.hi = big.NewInt(0), new(big.Int).Sub(y.lo, big.NewInt(1))
			}
		}
	default:
		return val{}, fmt.Errorf("operator %s: outside the subset", e.Op)
	}
	return r, nil
}

var bitsFuncs = map[string]struct {
	lean string
	arg  string
	max  int64
}{
	"TrailingZeros64": {"trailingZeros64", "uint64", 64}, "TrailingZeros32": {"trailingZeros32", "uint32", 32},
	"LeadingZeros64": {"leadingZeros64", "uint64", 64}, "LeadingZeros32": {"leadingZeros32", "uint32", 32},
	"OnesCount64": {"onesCount64", "uint64", 64}, "OnesCount32": {"onesCount32", "uint32", 32},
	"Len64": {"len64", "uint64", 64}, "Len": {"len64", "uint", 64}, "Len32": {"len32", "uint32", 32},
}

// typeOfExpr resolves a conversion target; nil if the expression is not a known integer type
func (c *ctx) typeOfExpr(e ast.Expr) *ity {
	switch e := e.(type) {
	case *ast.Ident:
		if _, isVar := c.vars[e.Name]; isVar {
			return nil
		}
	case *ast.SelectorExpr:
	case *ast.ParenExpr:
		return c.typeOfExpr(e.X)
	default:
		return nil
	}
	r, err := c.w.resolve(e, c.p, c.f, 0)
	if err != nil {
		return nil
	}
	if t, ok := r.(*ity); ok {
		return t
	}
	return nil
}

func (c *ctx) call(e *ast.CallExpr, hint *ity) (val, error) {
	if e.Ellipsis != token.NoPos {
		return val{}, fmt.Errorf("variadic call: outside the subset")
	}
	// conversion
	if t := c.typeOfExpr(e.Fun); t != nil {
		if len(e.Args) != 1 {
			return val{}, fmt.Errorf("conversion with %d arguments", len(e.Args))
		}
		v, err := c.expr(e.Args[0], t)
		if err != nil {
			return v, err
		}
		if v.t == nil {
			return c.mat(v, t)
		}
		if v.t.isBool || t.isBool {
			if v.t.isBool && t.isBool {
				return v, nil
			}
			return val{}, fmt.Errorf("conversion between bool and integer")
		}
		r := val{t: t}
		switch {
		case t.bits == v.t.bits:
			r.lean = v.lean
		case t.bits < v.t.bits:
			r.lean = fmt.Sprintf("(BitVec.setWidth %d %s)", t.bits, paren(v.lean))
		case v.t.signed:
			r.lean = fmt.Sprintf("(BitVec.signExtend %d %s)", t.bits, paren(v.lean))
		default:
			r.lean = fmt.Sprintf("(BitVec.setWidth %d %s)", t.bits, paren(v.lean))
		}
		if fits(v.lo, v.hi, t) {
			r.lo, r.hi = v.lo, v.hi
			if v.cv != nil {
				r.cv = v.cv
			}
		} else {
			r.lo, r.hi = full(t)
		}
		return r, nil
	}
	// plain call of a function translated earlier in the same module
	if fid, ok := e.Fun.(*ast.Ident); ok {
		if _, isVar := c.vars[fid.Name]; !isVar {
			if fi, ok := c.mod.funcs[fid.Name]; ok && fi.wholeFn && fi.plain && fi.nrecv == 0 && fi.pkgDir == c.p.dir && len(fi.params) == len(e.Args) {
				var args []string
				for i, a := range e.Args {
					v, err := c.expr(a, fi.params[i].t)
					if err != nil {
						return v, err
					}
					if v, err = c.mat(v, fi.params[i].t); err != nil {
						return v, err
					}
					if !v.t.same(fi.params[i].t) {
						return val{}, fmt.Errorf("call %s: argument %d has type %s, want %s", txt(e), i, v.t, fi.params[i].t)
					}
					args = append(args, paren(v.lean))
				}
				r := c.mk("("+fi.lean+" "+strings.Join(args, " ")+")", fi.result)
				return r, nil
			}
		}
	}
	if sel, ok := e.Fun.(*ast.SelectorExpr); ok {
		if x, ok := sel.X.(*ast.Ident); ok {
			// math/bits
			if _, isVar := c.vars[x.Name]; !isVar && x.Name == "bits" && importsPath(c.f, "bits", "math/bits") {
				bf, ok := bitsFuncs[sel.Sel.Name]
				if !ok || len(e.Args) != 1 {
					return val{}, fmt.Errorf("bits.%s: outside the subset", sel.Sel.Name)
				}
				at := builtinTypes[bf.arg]
				v, err := c.expr(e.Args[0], at)
				if err != nil {
					return v, err
				}
				if v, err = c.mat(v, at); err != nil {
					return v, err
				}
				if !v.t.same(at) {
					return val{}, fmt.Errorf("bits.%s applied to %s", sel.Sel.Name, v.t)
				}
				r := c.mk(fmt.Sprintf("(%s %s)", bf.lean, paren(v.lean)), builtinTypes["int"])
				r.lo, r.hi = big.NewInt(0), big.NewInt(bf.max)
				return r, nil
			}
			// method of the receiver's type on the receiver: m.HashIndex()
			if x.Name == c.recv && c.recv != "" {
				key := c.recvTyp + "." + sel.Sel.Name
				if fi, ok := c.mod.funcs[key]; ok && fi.plain && len(e.Args) == 0 && len(fi.params) == fi.nrecv {
					var args []string
					for _, pn := range fi.params {
						args = append(args, pn.expr(c))
					}
					return c.mk("("+fi.lean+" "+strings.Join(args, " ")+")", fi.result), nil
				}
				return val{}, fmt.Errorf("method call %s: not a translated plain method of the same module", txt(e))
			}
		}
	}
	return val{}, fmt.Errorf("call %s: outside the subset", txt(e))
}

func importsPath(f *ast.File, local, path string) bool {
	for _, im := range f.Imports {
		p := strings.Trim(im.Path.Value, `"`)
		l := p[strings.LastIndex(p, "/")+1:]
		if im.Name != nil {
			l = im.Name.Name
		}
		if l == local && p == path {
			return true
		}
	}
	return false
}

// ---------------------------------------------------------------------------------------------------------- module

type lparam struct {
	lean string
	t    *ity
	key  string // used-key ("" always present)
	src  string // Go variable (receiver) this parameter came from, for method calls
	fld  string
}

func (p lparam) expr(c *ctx) string {
	if p.fld != "" {
		c.used["field:"+c.recv+"."+p.fld] = true
		return leanName(c.recv + "_" + p.fld)
	}
	return leanName(c.recv)
}

type funcInfo struct {
	pkgDir  string
	wholeFn bool // a whole function (callable), not a block
	lean    string
	params  []lparam
	nrecv   int
	plain   bool // result is a single integer/bool without Option
	result  *ity
	optOf   []field // (T, error) result: component names/types of `some`
	optName string
}

type module struct {
	name   string
	w      *world
	funcs  map[string]*funcInfo // key "pkgdir:Recv.Method"→ but looked up by "Recv.Method" within a module
	tables map[string]*tableInfo
	out    []string
}

func (m *module) table(c *ctx, name string) (*tableInfo, error) {
	if _, isVar := c.vars[name]; isVar {
		return nil, fmt.Errorf("indexing local %s: outside the subset", name)
	}
	tb, ok := m.tables[c.p.dir+":"+name]
	if !ok {
		return nil, fmt.Errorf("table %s is not a translated table of this module", name)
	}
	return tb, nil
}

func genIntfunModule(repo, name string) (string, error) {
	w := &world{repo: repo, pkgs: map[string]*pkg{}}
	m := &module{name: name, w: w, funcs: map[string]*funcInfo{}, tables: map[string]*tableInfo{}}
	var srcs []string
	seen := map[string]bool{}
	for _, t := range intfunModules[name] {
		if !seen[t.file] {
			seen[t.file] = true
			srcs = append(srcs, t.file)
		}
	}
	var b strings.Builder
	b.WriteString("import TongoModel.GoInt\n")
	fmt.Fprintf(&b, "/-! GENERATED by harness/cmd/extract (translator X4, module `%s`) from %s — do not edit.\nGo integers are `BitVec n` with Go semantics (see TongoModel/GoInt.lean and the header of harness/cmd/extract/intfuns.go). -/\n", name, strings.Join(srcs, ", "))
	fmt.Fprintf(&b, "set_option linter.unusedVariables false\nnamespace Tongo.Gen.%s\nopen Tongo.GoInt\n\n", name)
	for _, t := range intfunModules[name] {
		var s string
		var err error
		if t.table != "" {
			s, err = m.genTable(t)
		} else {
			s, err = m.genFunc(t)
		}
		if err != nil {
			return "", fmt.Errorf("%s %s%s: %v", t.file, t.fn, t.table, err)
		}
		b.WriteString(s)
		b.WriteString("\n")
	}
	fmt.Fprintf(&b, "end Tongo.Gen.%s\n", name)
	return b.String(), nil
}

func (m *module) genTable(t target) (string, error) {
	p, err := m.w.load(filepath.Dir(t.file))
	if err != nil {
		return "", err
	}
	vs, ok := p.vars[t.table]
	if !ok || len(vs.Names) != 1 || len(vs.Values) != 1 || filepath.Base(p.fset.File(vs.Pos()).Name()) != filepath.Base(t.file) {
		return "", fmt.Errorf("package-level table not found in this file")
	}
	cl, ok := vs.Values[0].(*ast.CompositeLit)
	if !ok || cl.Type == nil {
		return "", fmt.Errorf("not a composite literal: outside the subset")
	}
	r, err := m.w.resolve(cl.Type, p, p.vfile[t.table], 0)
	if err != nil {
		return "", err
	}
	at, ok := r.(*arrayT)
	if !ok {
		return "", fmt.Errorf("not an integer array/slice")
	}
	c := &ctx{w: m.w, p: p, f: p.vfile[t.table], mod: m, vars: map[string]*binding{}, used: map[string]bool{}}
	var els []string
	for _, el := range cl.Elts {
		if _, kv := el.(*ast.KeyValueExpr); kv {
			return "", fmt.Errorf("keyed element: outside the subset")
		}
		v, err := c.expr(el, at.elem)
		if err != nil {
			return "", err
		}
		if v.cv == nil {
			return "", fmt.Errorf("non-constant element %s", txt(el))
		}
		if v, err = c.mat(v, at.elem); err != nil {
			return "", err
		}
		els = append(els, v.lean)
	}
	if at.n >= 0 && at.n != len(els) {
		return "", fmt.Errorf("array of length %d with %d elements: outside the subset", at.n, len(els))
	}
	ln := leanName(t.name)
	m.tables[p.dir+":"+t.table] = &tableInfo{lean: ln, n: len(els), elem: at.elem}
	var b strings.Builder
	fmt.Fprintf(&b, "/-- %s: `var %s = %s{…}` (%d elements of %s) -/\ndef %s : List (%s) := [", t.file, t.table, txt(cl.Type), len(els), at.elem, ln, at.elem.lean())
	for i, e := range els {
		if i%8 == 0 {
			b.WriteString("\n  ")
		}
		b.WriteString(e)
		if i != len(els)-1 {
			b.WriteString(",")
			if i%8 != 7 {
				b.WriteString(" ")
			}
		}
	}
	fmt.Fprintf(&b, "]\n\n/-- regenerated obligation: the table has the length its Go type / literal says -/\ntheorem %s_length : %s.length = %d := by decide +kernel\n", ln, ln, len(els))
	return b.String(), nil
}

type resultShape struct {
	comps  []field // flattened integer components
	hasErr bool
	named  []string // named result variables (Go), "" if unnamed
	groups []int    // number of flattened comps per Go result (error: 0)
	stru   []*structT
}

func (m *module) genFunc(t target) (string, error) {
	p, err := m.w.load(filepath.Dir(t.file))
	if err != nil {
		return "", err
	}
	fd, ok := p.funcs[t.fn]
	if !ok || fd.Body == nil || filepath.Base(p.fset.File(fd.Pos()).Name()) != filepath.Base(t.file) {
		return "", fmt.Errorf("function not found in this file")
	}
	if fd.Type.TypeParams != nil {
		return "", fmt.Errorf("generic function: outside the subset")
	}
	f := p.ffile[t.fn]
	c := &ctx{w: m.w, p: p, f: f, mod: m, vars: map[string]*binding{}, used: map[string]bool{}, opaque: t.opaque}
	for _, o := range t.opaque {
		if builtinTypes[o.typ] == nil {
			return "", fmt.Errorf("opaque %s: bad type", o.name)
		}
		if o.check != "" {
			parts := strings.Split(o.check, ".")
			q, err := m.w.load(parts[0])
			if err != nil {
				return "", err
			}
			r, err := m.w.resolve(ast.NewIdent(parts[1]), q, nil, 0)
			if err != nil {
				return "", err
			}
			st, ok := r.(*structT)
			found := false
			if ok {
				for _, fl := range st.fields {
					if fl.name == parts[2] && fl.t != nil && fl.t.same(builtinTypes[o.typ]) {
						found = true
					}
				}
			}
			if !found {
				return "", fmt.Errorf("opaque input %s: %s is not a field of type %s any more", o.text, o.check, o.typ)
			}
		}
	}
	var params []lparam
	fi := &funcInfo{lean: leanName(t.name)}
	var body []ast.Stmt
	var shape resultShape
	var finish func(c *ctx) ([]string, error) // what happens when the statements run out
	srcQuote := ""

	if t.block == "" {
		// receiver and parameters
		addParam := func(name string, te ast.Expr, isRecv bool) error {
			if st, ok := te.(*ast.StarExpr); ok {
				te = st.X
			}
			r, err := m.w.resolve(te, p, f, 0)
			if err != nil {
				// parameters of unsupported types are allowed as long as they are only used inside opaque expressions
				c.vars[name] = &binding{}
				return nil
			}
			switch r := r.(type) {
			case *ity:
				c.vars[name] = &binding{lean: leanName(name), t: r, isParm: true}
				params = append(params, lparam{lean: leanName(name), t: r, src: name})
			case *structT:
				c.vars[name] = &binding{st: r, isParm: true}
				for _, fl := range r.fields {
					if fl.t != nil {
						params = append(params, lparam{lean: leanName(name + "_" + fl.name), t: fl.t, key: "field:" + name + "." + fl.name, src: name, fld: fl.name})
					}
				}
			default:
				c.vars[name] = &binding{}
			}
			return nil
		}
		if fd.Recv != nil {
			rf := fd.Recv.List[0]
			if len(rf.Names) == 1 {
				c.recv = rf.Names[0].Name
				c.recvTyp = strings.Split(t.fn, ".")[0]
				if err := addParam(c.recv, rf.Type, true); err != nil {
					return "", err
				}
			}
		}
		fi.nrecv = len(params)
		for _, pf := range fd.Type.Params.List {
			for _, nm := range pf.Names {
				if err := addParam(nm.Name, pf.Type, false); err != nil {
					return "", err
				}
			}
		}
		// results
		if fd.Type.Results == nil {
			return "", fmt.Errorf("no result: outside the subset")
		}
		for _, rf := range fd.Type.Results.List {
			r, err := m.w.resolve(rf.Type, p, f, 0)
			if err != nil {
				return "", err
			}
			names := []string{""}
			if len(rf.Names) > 0 {
				names = nil
				for _, nm := range rf.Names {
					names = append(names, nm.Name)
				}
			}
			for _, nm := range names {
				shape.named = append(shape.named, nm)
				switch r := r.(type) {
				case *ity:
					shape.comps = append(shape.comps, field{nm, r})
					shape.groups = append(shape.groups, 1)
					shape.stru = append(shape.stru, nil)
					if nm != "" {
						c.vars[nm] = &binding{lean: lit(big.NewInt(0), r), t: r, lo: big.NewInt(0), hi: big.NewInt(0)}
						if r.isBool {
							c.vars[nm].lean = "false"
						}
					}
				case *structT:
					n := 0
					for _, fl := range r.fields {
						if fl.t == nil {
							return "", fmt.Errorf("result struct %s has the non-integer field %s: outside the subset", r.name, fl.name)
						}
						shape.comps = append(shape.comps, fl)
						n++
					}
					shape.groups = append(shape.groups, n)
					shape.stru = append(shape.stru, r)
					if nm != "" {
						return "", fmt.Errorf("named struct result: outside the subset")
					}
				case *arrayT:
					if r.n != -1 || r.elem.bits != 8 || r.elem.signed || nm != "" {
						return "", fmt.Errorf("result type %s: outside the subset", txt(rf.Type))
					}
					shape.comps = append(shape.comps, field{nm, bytesT})
					shape.groups = append(shape.groups, 1)
					shape.stru = append(shape.stru, nil)
				case errorT:
					if shape.hasErr {
						return "", fmt.Errorf("two error results")
					}
					shape.hasErr = true
					shape.groups = append(shape.groups, 0)
					shape.stru = append(shape.stru, nil)
				default:
					return "", fmt.Errorf("result type %s: outside the subset", txt(rf.Type))
				}
			}
		}
		body = fd.Body.List
		finish = func(c *ctx) ([]string, error) {
			return nil, fmt.Errorf("control reaches the end of the function without return")
		}
		srcQuote = txt(fd)
	} else {
		// a block inside the function
		kind, want, _ := strings.Cut(t.block, ":")
		var blkStmts []ast.Stmt
		var condExpr ast.Expr
		n := 0
		switch kind {
		case "prefix": // the first N statements of the function body
			k := 0
			fmt.Sscan(want, &k)
			if k < 0 || k > len(fd.Body.List) {
				return "", fmt.Errorf("block %q: the function has %d statements", t.block, len(fd.Body.List))
			}
			blkStmts = fd.Body.List[:k]
			n = 1
		case "range": // consecutive statements of one block (at any depth) from <first text> to <last text>, inclusive
			first, last, _ := strings.Cut(want, "|")
			ast.Inspect(fd.Body, func(nd ast.Node) bool {
				bs, ok := nd.(*ast.BlockStmt)
				if !ok {
					return true
				}
				i0, i1 := -1, -1
				for i, st := range bs.List {
					if txt(st) == first && i0 < 0 {
						i0 = i
					}
					if txt(st) == last && i0 >= 0 && i1 < 0 {
						i1 = i
					}
				}
				if i0 >= 0 && i1 >= i0 {
					blkStmts = bs.List[i0 : i1+1]
					n++
				}
				return true
			})
		case "for", "if", "cond":
			ast.Inspect(fd.Body, func(nd ast.Node) bool {
				switch s := nd.(type) {
				case *ast.ForStmt:
					if kind == "for" {
						hdr := txt(s.Init) + "; " + txt(s.Cond) + "; " + txt(s.Post)
						if hdr == want {
							blkStmts = s.Body.List
							n++
						}
					}
				case *ast.IfStmt:
					if kind == "if" && s.Init == nil && txt(s.Cond) == want {
						blkStmts = s.Body.List // the `then` branch; an else branch is not part of the block
						n++
					}
					if kind == "cond" && s.Init == nil && txt(s.Cond) == want {
						condExpr = s.Cond
						n++
					}
				}
				return true
			})
		default:
			return "", fmt.Errorf("unknown block kind %q", kind)
		}
		if n != 1 {
			return "", fmt.Errorf("block %q found %d times in the function (expected exactly once)", t.block, n)
		}
		var blkNode ast.Node = &ast.BlockStmt{List: blkStmts}
		if condExpr != nil {
			blkNode = condExpr
		}
		all := map[string]int{}
		ast.Inspect(fd.Body, func(nd ast.Node) bool {
			if s, ok := nd.(ast.Stmt); ok {
				if _, isBlk := s.(*ast.BlockStmt); !isBlk {
					all[txt(s)]++
				}
			}
			return true
		})
		whole := txt(fd)
		for _, ex := range t.expect {
			if all[ex] == 0 && !(strings.HasPrefix(ex, "text:") && strings.Contains(whole, strings.TrimPrefix(ex, "text:"))) {
				return "", fmt.Errorf("expected context %q not found any more", ex)
			}
		}
		for _, li := range t.livein {
			lt := builtinTypes[li.typ]
			if lt == nil {
				return "", fmt.Errorf("live-in %s: bad type %s", li.name, li.typ)
			}
			c.vars[li.name] = &binding{lean: leanName(li.name), t: lt, isParm: true, key: "livein:" + li.name}
			params = append(params, lparam{lean: leanName(li.name), t: lt, key: "livein:" + li.name})
		}
		body = blkStmts
		shape.groups = []int{1}
		shape.stru = []*structT{nil}
		shape.named = []string{""}
		switch {
		case condExpr != nil || strings.HasPrefix(t.result, "expr:") || strings.HasPrefix(t.result, "expr@"):
			resExpr := condExpr
			var exprHint *ity
			if condExpr == nil {
				wantE := strings.TrimPrefix(t.result, "expr:")
				if strings.HasPrefix(t.result, "expr@") { // expr@<type>:<text> — the Go context gives the expression this type
					tn, rest, _ := strings.Cut(strings.TrimPrefix(t.result, "expr@"), ":")
					exprHint = builtinTypes[tn]
					if exprHint == nil {
						return "", fmt.Errorf("result %q: unknown type", t.result)
					}
					wantE = rest
				}
				cnt := 0
				ast.Inspect(fd, func(nd ast.Node) bool {
					if e, ok := nd.(ast.Expr); ok && nosp(txt(e)) == nosp(wantE) {
						if cnt == 0 {
							resExpr = e
						}
						cnt++
						return false
					}
					return true
				})
				if cnt == 0 {
					return "", fmt.Errorf("result expression %q does not occur in the function any more", wantE)
				}
			}
			finish = func(c *ctx) ([]string, error) {
				v, err := c.expr(resExpr, exprHint)
				if err != nil {
					return nil, err
				}
				if v.t == nil {
					if v, err = c.mat(v, exprHint); err != nil {
						return nil, err
					}
				}
				if exprHint != nil && !v.t.same(exprHint) {
					return nil, fmt.Errorf("block result has type %s, the target says %s", v.t, exprHint)
				}
				if len(shape.comps) == 0 {
					shape.comps = []field{{"", v.t}}
				}
				return []string{v.lean}, nil
			}
		case strings.HasPrefix(t.result, "bufs:"):
			names := strings.Split(strings.TrimPrefix(t.result, "bufs:"), ",")
			shape.groups, shape.stru, shape.named = nil, nil, nil
			for range names {
				shape.groups = append(shape.groups, 1)
				shape.stru = append(shape.stru, nil)
				shape.named = append(shape.named, "")
			}
			finish = func(c *ctx) ([]string, error) {
				var out []string
				var comps []field
				for _, rn := range names {
					b, ok := c.vars[rn]
					if !ok || b.buf == nil {
						return nil, fmt.Errorf("block result %s is not a local byte buffer", rn)
					}
					out = append(out, "["+strings.Join(b.buf, ", ")+"]")
					comps = append(comps, field{rn, bytesT})
				}
				if len(shape.comps) == 0 {
					shape.comps = comps
				}
				return out, nil
			}
		case strings.HasPrefix(t.result, "vars:"):
			names := strings.Split(strings.TrimPrefix(t.result, "vars:"), ",")
			shape.groups, shape.stru, shape.named = nil, nil, nil
			for range names {
				shape.groups = append(shape.groups, 1)
				shape.stru = append(shape.stru, nil)
				shape.named = append(shape.named, "")
			}
			finish = func(c *ctx) ([]string, error) {
				var out []string
				var comps []field
				for _, rn := range names {
					b, ok := c.vars[rn]
					if !ok || b.t == nil {
						return nil, fmt.Errorf("block result variable %s not found", rn)
					}
					if b.key != "" {
						return nil, fmt.Errorf("block result variable %s is not assigned in the block", rn)
					}
					out = append(out, b.lean)
					comps = append(comps, field{rn, b.t})
				}
				if len(shape.comps) == 0 {
					shape.comps = comps
				}
				return out, nil
			}
		case strings.HasPrefix(t.result, "sink:"):
			spec := strings.TrimPrefix(t.result, "sink:")
			callee, arg0, _ := strings.Cut(spec, "|")
			if len(body) == 0 {
				return "", fmt.Errorf("empty block")
			}
			es, ok := body[len(body)-1].(*ast.ExprStmt)
			var ce *ast.CallExpr
			if ok {
				ce, ok = es.X.(*ast.CallExpr)
			}
			if !ok || txt(ce.Fun) != callee || len(ce.Args) != 2 || txt(ce.Args[0]) != arg0 {
				return "", fmt.Errorf("last statement of the block is not %s(%s, …)", callee, arg0)
			}
			body = body[:len(body)-1]
			resExpr := ce.Args[1]
			finish = func(c *ctx) ([]string, error) {
				v, err := c.expr(resExpr, nil)
				if err != nil {
					return nil, err
				}
				if v.t == nil || v.t.isBool {
					return nil, fmt.Errorf("untyped block result")
				}
				if len(shape.comps) == 0 {
					shape.comps = []field{{"", v.t}}
				} else if !shape.comps[0].t.same(v.t) {
					return nil, fmt.Errorf("inconsistent block result type")
				}
				return []string{v.lean}, nil
			}
		default:
			rn := t.result
			finish = func(c *ctx) ([]string, error) {
				b, ok := c.vars[rn]
				if !ok || b.t == nil {
					return nil, fmt.Errorf("block result variable %s not found", rn)
				}
				if len(shape.comps) == 0 {
					shape.comps = []field{{"", b.t}}
				}
				return []string{b.lean}, nil
			}
		}
		srcQuote = "block `" + t.block + "` of func " + t.fn + ": " + txt(blkNode)
	}
	for _, o := range t.opaque {
		params = append(params, lparam{lean: leanName(o.name), t: builtinTypes[o.typ], key: "opaque:" + o.name})
	}

	// compile: first without panic guards in the result type; if a guard is needed, again with Option
	g := &gen{shape: &shape, finish: finish, m: m}
	code, err := g.stmts(c.clone(), body, 1)
	if err != nil {
		return "", err
	}
	if g.needGuard {
		if shape.hasErr {
			return "", fmt.Errorf("both an error result and a possible panic: outside the subset")
		}
		g = &gen{shape: &shape, finish: finish, m: m, guarded: true}
		cc := c.clone()
		cc.used = c.used
		if code, err = g.stmts(cc, body, 1); err != nil {
			return "", err
		}
	}
	// header
	var ps []string
	var kept []lparam
	for _, pr := range params {
		if pr.key != "" && !c.used[pr.key] {
			if strings.HasPrefix(pr.key, "opaque:") {
				return "", fmt.Errorf("opaque input %s does not occur in the source any more", pr.lean)
			}
			continue
		}
		kept = append(kept, pr)
		ps = append(ps, fmt.Sprintf("(%s : %s)", pr.lean, pr.t.lean()))
	}
	var rt string
	var cts []string
	for _, f := range shape.comps {
		cts = append(cts, f.t.lean())
	}
	rt = strings.Join(cts, " × ")
	opt := shape.hasErr || g.guarded
	if opt {
		if len(cts) > 1 {
			rt = "(" + rt + ")"
		}
		rt = "Option " + paren(rt)
		if len(cts) == 1 {
			rt = "Option (" + cts[0] + ")"
		}
	}
	fi.params = kept
	fi.plain = !opt && len(shape.comps) == 1
	if fi.plain {
		fi.result = shape.comps[0].t
	}
	if shape.hasErr {
		fi.optOf = shape.comps
		if len(shape.stru) > 0 && shape.stru[0] != nil {
			fi.optName = shape.stru[0].name
		}
	}
	fi.pkgDir = p.dir
	fi.wholeFn = t.block == ""
	if fi.wholeFn {
		m.funcs[t.fn] = fi
	}
	var b strings.Builder
	doc := srcQuote
	doc = strings.ReplaceAll(doc, "-/", "- /")
	fmt.Fprintf(&b, "/-- %s: `%s`", t.file, doc)
	if t.doc != "" {
		fmt.Fprintf(&b, "\n%s", t.doc)
	}
	if shape.hasErr {
		fmt.Fprintf(&b, "\nresult: `none` = a non-nil error is returned")
	}
	if g.guarded {
		fmt.Fprintf(&b, "\nresult: `none` = run-time panic (negative shift count)")
	}
	if len(shape.comps) > 1 {
		var ns []string
		for _, f := range shape.comps {
			ns = append(ns, f.name)
		}
		fmt.Fprintf(&b, "\ncomponents: (%s)", strings.Join(ns, ", "))
	}
	fmt.Fprintf(&b, " -/\ndef %s %s : %s :=\n%s\n", fi.lean, strings.Join(ps, " "), rt, code)
	return b.String(), nil
}

// ------------------------------------------------------------------------------------------------------ statements

type gen struct {
	shape     *resultShape
	finish    func(c *ctx) ([]string, error)
	m         *module
	guarded   bool
	needGuard bool
}

func ind(n int) string { return strings.Repeat("  ", n) }

// withGuards evaluates f collecting panic guards, and wraps the continuation text
func (g *gen) guardPrefix(gs []string, d int) string {
	if len(gs) == 0 {
		return ""
	}
	g.needGuard = true
	if !g.guarded {
		return ""
	}
	return ind(d) + "if " + strings.Join(gs, " || ") + " then none else\n"
}

func (g *gen) leaf(vals []string) string {
	s := strings.Join(vals, ", ")
	if len(vals) > 1 {
		s = "(" + s + ")"
	}
	if g.shape.hasErr || g.guarded {
		return "some " + paren(s)
	}
	return s
}

func (g *gen) stmts(c *ctx, ss []ast.Stmt, d int) (string, error) {
	if len(ss) == 0 {
		var gs []string
		c.guards = &gs
		s, err := g.finish(c)
		c.guards = nil
		if err != nil {
			return "", err
		}
		return g.guardPrefix(gs, d) + ind(d) + g.leaf(s), nil
	}
	s, rest := ss[0], ss[1:]
	switch s := s.(type) {
	case *ast.ReturnStmt:
		return g.ret(c, s, d)
	case *ast.DeclStmt:
		gd, ok := s.Decl.(*ast.GenDecl)
		if !ok || gd.Tok != token.VAR || len(gd.Specs) != 1 {
			return "", fmt.Errorf("declaration %s: outside the subset", txt(s))
		}
		vs := gd.Specs[0].(*ast.ValueSpec)
		if len(vs.Names) != 1 || len(vs.Values) > 1 || (vs.Type == nil && len(vs.Values) != 1) {
			return "", fmt.Errorf("declaration %s: outside the subset", txt(s))
		}
		if at, ok := vs.Type.(*ast.ArrayType); ok && len(vs.Values) == 0 && txt(at.Elt) == "byte" {
			if bl, ok := at.Len.(*ast.BasicLit); ok && bl.Kind == token.INT {
				n := 0
				fmt.Sscan(bl.Value, &n)
				if n < 1 || n > 16 {
					return "", fmt.Errorf("%s: buffer length outside 1..16: outside the subset", txt(s))
				}
				buf := make([]string, n)
				for i := range buf {
					buf[i] = "0#8"
				}
				c.vars[vs.Names[0].Name] = &binding{buf: buf}
				return g.stmts(c, rest, d)
			}
		}
		if vs.Type == nil { // var x = e: like x := e
			return g.assign(c, &ast.AssignStmt{Lhs: []ast.Expr{vs.Names[0]}, Tok: token.DEFINE, Rhs: vs.Values}, rest, d)
		}
		r, err := c.w.resolve(vs.Type, c.p, c.f, 0)
		if err != nil {
			return "", err
		}
		t, ok := r.(*ity)
		if !ok {
			return "", fmt.Errorf("declaration %s: outside the subset", txt(s))
		}
		var gs []string
		c.guards = &gs
		var v val
		if len(vs.Values) == 1 {
			if v, err = c.expr(vs.Values[0], t); err != nil {
				return "", err
			}
			if v, err = c.mat(v, t); err != nil {
				return "", err
			}
			if !v.t.same(t) {
				return "", fmt.Errorf("declaration %s: type mismatch", txt(s))
			}
		} else {
			v = val{lean: lit(big.NewInt(0), t), t: t, lo: big.NewInt(0), hi: big.NewInt(0)}
			if t.isBool {
				v.lean = "false"
			}
		}
		c.guards = nil
		return g.bind(c, vs.Names[0].Name, v, gs, rest, d)
	case *ast.AssignStmt:
		return g.assign(c, s, rest, d)
	case *ast.IfStmt:
		return g.ifStmt(c, s, rest, d)
	case *ast.ExprStmt:
		return g.exprStmt(c, s, rest, d)
	}
	return "", fmt.Errorf("statement %s (%T): outside the subset", txt(s), s)
}

var putFuncs = map[string]struct {
	bits int
	le   bool
}{
	"binary.LittleEndian.PutUint16": {16, true}, "binary.LittleEndian.PutUint32": {32, true}, "binary.LittleEndian.PutUint64": {64, true},
	"binary.BigEndian.PutUint16": {16, false}, "binary.BigEndian.PutUint32": {32, false}, "binary.BigEndian.PutUint64": {64, false},
}

// exprStmt: `binary.<Order>.PutUintNN(buf, e)` on a local byte buffer of exactly NN/8 bytes... or longer (the first NN/8
// bytes are overwritten); `cell.ResetCounters()` on a cell accumulator.
func (g *gen) exprStmt(c *ctx, s *ast.ExprStmt, rest []ast.Stmt, d int) (string, error) {
	ce, ok := s.X.(*ast.CallExpr)
	if !ok {
		return "", fmt.Errorf("statement %s: outside the subset", txt(s))
	}
	ft := txt(ce.Fun)
	if pf, ok := putFuncs[ft]; ok && importsPath(c.f, "binary", "encoding/binary") && len(ce.Args) == 2 {
		dst := ce.Args[0]
		if se, ok := dst.(*ast.SliceExpr); ok && se.Low == nil && se.High == nil && se.Max == nil { // x[:] of a local array
			dst = se.X
		}
		id, ok := dst.(*ast.Ident)
		if !ok {
			return "", fmt.Errorf("statement %s: destination is not a local buffer: outside the subset", txt(s))
		}
		b, ok := c.vars[id.Name]
		if !ok || b.buf == nil || len(b.buf) < pf.bits/8 {
			return "", fmt.Errorf("statement %s: destination is not a local buffer of at least %d bytes: outside the subset", txt(s), pf.bits/8)
		}
		t := &ity{bits: pf.bits}
		var gs []string
		c.guards = &gs
		v, err := c.expr(ce.Args[1], t)
		c.guards = nil
		if err != nil {
			return "", err
		}
		if v, err = c.mat(v, t); err != nil {
			return "", err
		}
		if !v.t.same(t) {
			return "", fmt.Errorf("statement %s: value has type %s", txt(s), v.t)
		}
		tmp := leanName(id.Name) + "_put"
		out := g.guardPrefix(gs, d) + ind(d) + "let " + tmp + " := " + v.lean + "\n"
		nb := append([]string{}, b.buf...)
		n := pf.bits / 8
		for i := 0; i < n; i++ {
			sh := 8 * i
			if !pf.le {
				sh = 8 * (n - 1 - i)
			}
			nm := fmt.Sprintf("%s_%d", leanName(id.Name), i)
			out += ind(d) + fmt.Sprintf("let %s := (BitVec.setWidth 8 (%s >>> %d))\n", nm, tmp, sh)
			nb[i] = nm
		}
		c.vars[id.Name] = &binding{buf: nb}
		r, err := g.stmts(c, rest, d)
		if err != nil {
			return "", err
		}
		return out + r, nil
	}
	if sel, ok := ce.Fun.(*ast.SelectorExpr); ok && sel.Sel.Name == "ResetCounters" && len(ce.Args) == 0 {
		if x, ok := sel.X.(*ast.Ident); ok {
			if b, ok := c.vars[x.Name]; ok && b.cell != nil {
				nc := *b.cell
				nc.reset = true
				c.vars[x.Name] = &binding{cell: &nc}
				return g.stmts(c, rest, d)
			}
		}
	}
	return "", fmt.Errorf("statement %s: outside the subset", txt(s))
}

func (g *gen) bind(c *ctx, name string, v val, gs []string, rest []ast.Stmt, d int) (string, error) {
	ln := leanName(name)
	if name == "_" {
		return "", fmt.Errorf("blank assignment: outside the subset")
	}
	c.vars[name] = &binding{lean: ln, t: v.t, lo: v.lo, hi: v.hi}
	r, err := g.stmts(c, rest, d)
	if err != nil {
		return "", err
	}
	return g.guardPrefix(gs, d) + ind(d) + "let " + ln + " := " + v.lean + "\n" + r, nil
}

var assignOps = map[token.Token]token.Token{token.ADD_ASSIGN: token.ADD, token.SUB_ASSIGN: token.SUB, token.MUL_ASSIGN: token.MUL,
	token.QUO_ASSIGN: token.QUO, token.REM_ASSIGN: token.REM, token.AND_ASSIGN: token.AND, token.OR_ASSIGN: token.OR,
	token.XOR_ASSIGN: token.XOR, token.SHL_ASSIGN: token.SHL, token.SHR_ASSIGN: token.SHR, token.AND_NOT_ASSIGN: token.AND_NOT}

// assignValue translates the right-hand side of a single assignment (not the multi-value call form)
func (g *gen) assignValue(c *ctx, s *ast.AssignStmt) (string, val, error) {
	if len(s.Lhs) != 1 || len(s.Rhs) != 1 {
		return "", val{}, fmt.Errorf("assignment %s: outside the subset", txt(s))
	}
	id, ok := s.Lhs[0].(*ast.Ident)
	if !ok {
		return "", val{}, fmt.Errorf("assignment to %s: outside the subset", txt(s.Lhs[0]))
	}
	var v val
	var err error
	switch {
	case s.Tok == token.DEFINE:
		if v, err = c.expr(s.Rhs[0], nil); err != nil {
			return "", v, err
		}
		if v.t == nil {
			if v, err = c.mat(v, builtinTypes["int"]); err != nil {
				return "", v, err
			}
		}
	case s.Tok == token.ASSIGN:
		b, ok := c.vars[id.Name]
		if !ok || b.t == nil {
			return "", v, fmt.Errorf("assignment to %s: not an integer variable", id.Name)
		}
		if v, err = c.expr(s.Rhs[0], b.t); err != nil {
			return "", v, err
		}
		if v, err = c.mat(v, b.t); err != nil {
			return "", v, err
		}
		if !v.t.same(b.t) {
			return "", v, fmt.Errorf("assignment %s: type mismatch", txt(s))
		}
	default:
		op, ok := assignOps[s.Tok]
		if !ok {
			return "", v, fmt.Errorf("assignment %s: outside the subset", txt(s))
		}
		b, ok := c.vars[id.Name]
		if !ok || b.t == nil {
			return "", v, fmt.Errorf("assignment to %s: not an integer variable", id.Name)
		}
		if v, err = c.binary(&ast.BinaryExpr{X: id, Op: op, Y: s.Rhs[0]}, b.t); err != nil {
			return "", v, err
		}
		if v, err = c.mat(v, b.t); err != nil {
			return "", v, err
		}
	}
	return id.Name, v, nil
}

func (g *gen) assign(c *ctx, s *ast.AssignStmt, rest []ast.Stmt, d int) (string, error) {
	// b := make([]byte, N)   /   cell := boc.NewCell()
	if len(s.Lhs) == 1 && len(s.Rhs) == 1 && s.Tok == token.DEFINE {
		if id, ok := s.Lhs[0].(*ast.Ident); ok {
			if ce, ok := s.Rhs[0].(*ast.CallExpr); ok {
				if fid, ok := ce.Fun.(*ast.Ident); ok && fid.Name == "make" && len(ce.Args) == 2 && txt(ce.Args[0]) == "[]byte" {
					if _, shadow := c.vars["make"]; !shadow {
						if bl, ok := ce.Args[1].(*ast.BasicLit); ok && bl.Kind == token.INT {
							n := 0
							fmt.Sscan(bl.Value, &n)
							if n < 1 || n > 16 {
								return "", fmt.Errorf("%s: buffer length outside 1..16: outside the subset", txt(s))
							}
							buf := make([]string, n)
							for i := range buf {
								buf[i] = "0#8"
							}
							c.vars[id.Name] = &binding{buf: buf}
							return g.stmts(c, rest, d)
						}
					}
				}
				if txt(ce.Fun) == "boc.NewCell" && len(ce.Args) == 0 && importsPath(c.f, "boc", modulePath+"/boc") {
					acc := leanName(id.Name) + "_acc"
					c.vars[id.Name] = &binding{cell: &cellAcc{acc: acc}}
					r, err := g.stmts(c, rest, d)
					if err != nil {
						return "", err
					}
					return ind(d) + "let " + acc + " := 0#64\n" + r, nil
				}
			}
		}
	}
	// b[k] = e on a local byte buffer, constant k
	if len(s.Lhs) == 1 && len(s.Rhs) == 1 && s.Tok == token.ASSIGN {
		if ix, ok := s.Lhs[0].(*ast.IndexExpr); ok {
			id, ok1 := ix.X.(*ast.Ident)
			bl, ok2 := ix.Index.(*ast.BasicLit)
			if ok1 && ok2 && bl.Kind == token.INT {
				if b, ok := c.vars[id.Name]; ok && b.buf != nil {
					k := -1
					fmt.Sscan(bl.Value, &k)
					if k < 0 || k >= len(b.buf) {
						return "", fmt.Errorf("%s: index out of range", txt(s))
					}
					bt := builtinTypes["byte"]
					var gs []string
					c.guards = &gs
					v, err := c.expr(s.Rhs[0], bt)
					c.guards = nil
					if err != nil {
						return "", err
					}
					if v, err = c.mat(v, bt); err != nil {
						return "", err
					}
					if !v.t.same(bt) {
						return "", fmt.Errorf("%s: value has type %s", txt(s), v.t)
					}
					nm := fmt.Sprintf("%s_%d", leanName(id.Name), k)
					nb := append([]string{}, b.buf...)
					nb[k] = nm
					c.vars[id.Name] = &binding{buf: nb}
					r, err := g.stmts(c, rest, d)
					if err != nil {
						return "", err
					}
					return g.guardPrefix(gs, d) + ind(d) + "let " + nm + " := " + v.lean + "\n" + r, nil
				}
			}
		}
	}
	// v, err := cell.ReadUint(total) on a cell accumulator after ResetCounters
	if len(s.Lhs) == 2 && len(s.Rhs) == 1 && s.Tok == token.DEFINE {
		if ce, ok := s.Rhs[0].(*ast.CallExpr); ok {
			if sel, ok := ce.Fun.(*ast.SelectorExpr); ok && sel.Sel.Name == "ReadUint" && len(ce.Args) == 1 {
				if x, ok := sel.X.(*ast.Ident); ok {
					if b, ok := c.vars[x.Name]; ok && b.cell != nil {
						v0, okv := s.Lhs[0].(*ast.Ident)
						e0, oke := s.Lhs[1].(*ast.Ident)
						bl, okb := ce.Args[0].(*ast.BasicLit)
						n := -1
						if okb {
							fmt.Sscan(bl.Value, &n)
						}
						if !okv || !oke || !b.cell.reset || b.cell.read || n != b.cell.nbits || n < 1 {
							return "", fmt.Errorf("%s: only one ReadUint of all %d written bits after ResetCounters is in the subset", txt(s), b.cell.nbits)
						}
						nc := *b.cell
						nc.read = true
						c.vars[x.Name] = &binding{cell: &nc}
						tr := true
						c.vars[e0.Name] = &binding{errNil: &tr}
						t := builtinTypes["uint64"]
						hi := new(big.Int).Sub(new(big.Int).Lsh(big.NewInt(1), uint(n)), big.NewInt(1))
						return g.bind(c, v0.Name, val{lean: b.cell.acc, t: t, lo: big.NewInt(0), hi: hi}, nil, rest, d)
					}
				}
			}
		}
	}
	// v, err := F(args) with F translated in this module and returning (T, error)
	if len(s.Lhs) == 2 && len(s.Rhs) == 1 && s.Tok == token.DEFINE {
		ce, ok := s.Rhs[0].(*ast.CallExpr)
		fid, ok2 := (ast.Expr)(nil), false
		if ok {
			fid, ok2 = ce.Fun.(*ast.Ident)
		}
		v0, okv := s.Lhs[0].(*ast.Ident)
		e0, oke := s.Lhs[1].(*ast.Ident)
		if ok && ok2 && okv && oke {
			fi, known := g.m.funcs[fid.(*ast.Ident).Name]
			if known && fi.optOf != nil && len(ce.Args) == len(fi.params) {
				var gs []string
				c.guards = &gs
				var args []string
				for i, a := range ce.Args {
					v, err := c.expr(a, fi.params[i].t)
					if err != nil {
						return "", err
					}
					if v, err = c.mat(v, fi.params[i].t); err != nil {
						return "", err
					}
					if !v.t.same(fi.params[i].t) {
						return "", fmt.Errorf("call %s: argument type mismatch", txt(ce))
					}
					args = append(args, paren(v.lean))
				}
				c.guards = nil
				p, err2 := g.m.w.load(c.p.dir)
				if err2 != nil {
					return "", err2
				}
				_ = p
				// error branch: v is the zero value, err is non-nil
				ce1 := c.clone()
				cok := c.clone()
				f, tr := false, true
				ce1.vars[e0.Name] = &binding{errNil: &f}
				cok.vars[e0.Name] = &binding{errNil: &tr}
				var pats []string
				if len(fi.optOf) == 1 && fi.optName == "" {
					z := lit(big.NewInt(0), fi.optOf[0].t)
					ce1.vars[v0.Name] = &binding{lean: z, t: fi.optOf[0].t, lo: big.NewInt(0), hi: big.NewInt(0)}
					cok.vars[v0.Name] = &binding{lean: leanName(v0.Name), t: fi.optOf[0].t}
					pats = []string{leanName(v0.Name)}
				} else {
					st := &structT{name: fi.optName}
					zf, of := map[string]string{}, map[string]string{}
					for _, fl := range fi.optOf {
						st.fields = append(st.fields, fl)
						zf[fl.name] = lit(big.NewInt(0), fl.t)
						of[fl.name] = leanName(v0.Name + "_" + fl.name)
						pats = append(pats, of[fl.name])
					}
					ce1.vars[v0.Name] = &binding{st: st, fields: zf}
					cok.vars[v0.Name] = &binding{st: st, fields: of}
				}
				rerr, err := g.stmts(ce1, rest, d+1)
				if err != nil {
					return "", err
				}
				rok, err := g.stmts(cok, rest, d+1)
				if err != nil {
					return "", err
				}
				pat := strings.Join(pats, ", ")
				if len(pats) > 1 {
					pat = "(" + pat + ")"
				}
				return g.guardPrefix(gs, d) + ind(d) + "match " + fi.lean + " " + strings.Join(args, " ") + " with\n" +
					ind(d) + "| none =>\n" + rerr + "\n" + ind(d) + "| some " + pat + " =>\n" + rok, nil
			}
		}
		return "", fmt.Errorf("assignment %s: outside the subset", txt(s))
	}
	var gs []string
	c.guards = &gs
	name, v, err := g.assignValue(c, s)
	c.guards = nil
	if err != nil {
		return "", err
	}
	return g.bind(c, name, v, gs, rest, d)
}

func terminates(ss []ast.Stmt) bool {
	if len(ss) == 0 {
		return false
	}
	switch s := ss[len(ss)-1].(type) {
	case *ast.ReturnStmt:
		return true
	case *ast.IfStmt:
		if s.Else == nil {
			return false
		}
		eb, ok := s.Else.(*ast.BlockStmt)
		return ok && terminates(s.Body.List) && terminates(eb.List)
	}
	return false
}

func (g *gen) ifStmt(c *ctx, s *ast.IfStmt, rest []ast.Stmt, d int) (string, error) {
	if s.Init != nil {
		// if err := cell.WriteUint(v, n); err != nil { panic(err) }   on a cell accumulator
		as, ok := s.Init.(*ast.AssignStmt)
		if ok && as.Tok == token.DEFINE && len(as.Lhs) == 1 && len(as.Rhs) == 1 && s.Else == nil && len(s.Body.List) == 1 {
			en, ok1 := as.Lhs[0].(*ast.Ident)
			ce, ok2 := as.Rhs[0].(*ast.CallExpr)
			if ok1 && ok2 && txt(s.Cond) == en.Name+" != nil" && txt(s.Body.List[0]) == "panic("+en.Name+")" {
				if sel, ok := ce.Fun.(*ast.SelectorExpr); ok && sel.Sel.Name == "WriteUint" && len(ce.Args) == 2 {
					if x, ok := sel.X.(*ast.Ident); ok {
						if b, ok := c.vars[x.Name]; ok && b.cell != nil && !b.cell.reset {
							bl, okb := ce.Args[1].(*ast.BasicLit)
							n := -1
							if okb && bl.Kind == token.INT {
								fmt.Sscan(bl.Value, &n)
							}
							if n < 1 || b.cell.nbits+n > 64 {
								return "", fmt.Errorf("%s: bit length must be a constant and the total ≤ 64: outside the subset", txt(s.Init))
							}
							t := builtinTypes["uint64"]
							var gs []string
							c.guards = &gs
							v, err := c.expr(ce.Args[0], t)
							c.guards = nil
							if err != nil {
								return "", err
							}
							if v, err = c.mat(v, t); err != nil {
								return "", err
							}
							if !v.t.same(t) {
								return "", fmt.Errorf("%s: value has type %s", txt(s.Init), v.t)
							}
							mask := new(big.Int).Sub(new(big.Int).Lsh(big.NewInt(1), uint(n)), big.NewInt(1))
							nc := *b.cell
							nc.nbits += n
							c.vars[x.Name] = &binding{cell: &nc}
							r, err := g.stmts(c, rest, d)
							if err != nil {
								return "", err
							}
							return g.guardPrefix(gs, d) + ind(d) + fmt.Sprintf("let %s := ((%s <<< %d) ||| (%s &&& %s))\n", nc.acc, nc.acc, n, v.lean, lit(mask, t)) + r, nil
						}
					}
				}
			}
		}
		return "", fmt.Errorf("if with init statement: outside the subset")
	}
	var gs []string
	c.guards = &gs
	cv, err := c.expr(s.Cond, nil)
	c.guards = nil
	if err != nil {
		return "", err
	}
	if cv.t == nil || !cv.t.isBool {
		return "", fmt.Errorf("non-bool condition")
	}
	var els []ast.Stmt
	if s.Else != nil {
		eb, ok := s.Else.(*ast.BlockStmt)
		if !ok {
			return "", fmt.Errorf("else-if chain: outside the subset")
		}
		els = eb.List
	}
	if cv.bconst != nil { // statically decided (err != nil after a translated call)
		if len(gs) > 0 {
			return "", fmt.Errorf("guard in constant condition")
		}
		if *cv.bconst {
			if terminates(s.Body.List) {
				return g.stmts(c, s.Body.List, d)
			}
			return g.stmts(c, append(append([]ast.Stmt{}, s.Body.List...), rest...), d)
		}
		return g.stmts(c, append(append([]ast.Stmt{}, els...), rest...), d)
	}
	if terminates(s.Body.List) {
		a, err := g.stmts(c.clone(), s.Body.List, d+1)
		if err != nil {
			return "", err
		}
		b, err := g.stmts(c.clone(), append(append([]ast.Stmt{}, els...), rest...), d+1)
		if err != nil {
			return "", err
		}
		return g.guardPrefix(gs, d) + ind(d) + "if " + cv.lean + " then\n" + a + "\n" + ind(d) + "else\n" + b, nil
	}
	// body only assigns to existing variables: join
	if s.Else != nil {
		return "", fmt.Errorf("if/else without return in the first branch: outside the subset")
	}
	cb := c.clone()
	var lets []string
	var assigned []string
	for _, bs := range s.Body.List {
		as, ok := bs.(*ast.AssignStmt)
		if !ok || as.Tok == token.DEFINE {
			return "", fmt.Errorf("statement %s inside a non-returning if: outside the subset", txt(bs))
		}
		var bg []string
		cb.guards = &bg
		name, v, err := g.assignValue(cb, as)
		cb.guards = nil
		if err != nil {
			return "", err
		}
		if len(bg) > 0 {
			return "", fmt.Errorf("possibly panicking statement inside a non-returning if: outside the subset")
		}
		old := cb.vars[name]
		cb.vars[name] = &binding{lean: old.lean, t: old.t, lo: v.lo, hi: v.hi}
		lets = append(lets, "let "+leanName(name)+" := "+v.lean)
		seen := false
		for _, a := range assigned {
			seen = seen || a == name
		}
		if !seen {
			assigned = append(assigned, name)
		}
	}
	if len(assigned) == 0 {
		return g.stmts(c, rest, d)
	}
	var names []string
	for _, a := range assigned {
		b := c.vars[a]
		if b.lean != leanName(a) { // a named result still holding its zero literal
			return "", fmt.Errorf("conditional assignment to %s before its first plain assignment: outside the subset", a)
		}
		names = append(names, leanName(a))
		c.vars[a] = &binding{lean: b.lean, t: b.t}
	}
	tup := strings.Join(names, ", ")
	if len(names) > 1 {
		tup = "(" + tup + ")"
	}
	r, err := g.stmts(c, rest, d)
	if err != nil {
		return "", err
	}
	return g.guardPrefix(gs, d) + ind(d) + "let " + tup + " := if " + cv.lean + " then (" + strings.Join(lets, "; ") + "; " + tup + ") else " + tup + "\n" + r, nil
}

func (g *gen) ret(c *ctx, s *ast.ReturnStmt, d int) (string, error) {
	sh := g.shape
	var gs []string
	c.guards = &gs
	defer func() { c.guards = nil }()
	if len(s.Results) == 0 {
		var vals []string
		for _, nm := range sh.named {
			if nm == "" {
				return "", fmt.Errorf("bare return without named results")
			}
			vals = append(vals, c.vars[nm].lean)
		}
		return g.guardPrefix(gs, d) + ind(d) + g.leaf(vals), nil
	}
	if len(s.Results) != len(sh.groups) {
		return "", fmt.Errorf("return %s: outside the subset", txt(s))
	}
	var vals []string
	ci := 0
	isErr := false
	for i, re := range s.Results {
		switch {
		case sh.groups[i] == 0: // error
			if id, ok := re.(*ast.Ident); ok && id.Name == "nil" {
				continue
			}
			if id, ok := re.(*ast.Ident); ok {
				if b, ok := c.vars[id.Name]; ok && b.errNil != nil {
					isErr = isErr || !*b.errNil
					continue
				}
			}
			// any other expression of type error is taken to be non-nil only for the constructors
			if ce, ok := re.(*ast.CallExpr); ok {
				ft := txt(ce.Fun)
				if ft == "errors.New" || ft == "fmt.Errorf" {
					isErr = true
					continue
				}
			}
			return "", fmt.Errorf("error result %s: outside the subset", txt(re))
		case sh.stru[i] != nil:
			cl, ok := re.(*ast.CompositeLit)
			if !ok {
				return "", fmt.Errorf("struct result %s: outside the subset", txt(re))
			}
			got := map[string]string{}
			for _, el := range cl.Elts {
				kv, ok := el.(*ast.KeyValueExpr)
				if !ok {
					return "", fmt.Errorf("positional struct literal: outside the subset")
				}
				k, ok := kv.Key.(*ast.Ident)
				if !ok {
					return "", fmt.Errorf("struct literal key")
				}
				var ft *ity
				for _, fl := range sh.stru[i].fields {
					if fl.name == k.Name {
						ft = fl.t
					}
				}
				if ft == nil {
					return "", fmt.Errorf("unknown field %s", k.Name)
				}
				v, err := c.expr(kv.Value, ft)
				if err != nil {
					return "", err
				}
				if v, err = c.mat(v, ft); err != nil {
					return "", err
				}
				if !v.t.same(ft) {
					return "", fmt.Errorf("field %s: type mismatch", k.Name)
				}
				got[k.Name] = v.lean
			}
			for _, fl := range sh.stru[i].fields {
				if s, ok := got[fl.name]; ok {
					vals = append(vals, s)
				} else if fl.t.isBool {
					vals = append(vals, "false")
				} else {
					vals = append(vals, lit(big.NewInt(0), fl.t))
				}
			}
			ci += sh.groups[i]
		case sh.comps[ci].t.isBytes:
			var bs []string
			if id, ok := re.(*ast.Ident); ok {
				b, ok := c.vars[id.Name]
				if !ok || b.buf == nil {
					return "", fmt.Errorf("return %s: not a local byte buffer: outside the subset", txt(s))
				}
				bs = b.buf
			} else if cl, ok := re.(*ast.CompositeLit); ok && cl.Type != nil && txt(cl.Type) == "[]byte" {
				bt := builtinTypes["byte"]
				for _, el := range cl.Elts {
					if _, kv := el.(*ast.KeyValueExpr); kv {
						return "", fmt.Errorf("keyed byte literal: outside the subset")
					}
					v, err := c.expr(el, bt)
					if err != nil {
						return "", err
					}
					if v, err = c.mat(v, bt); err != nil {
						return "", err
					}
					if !v.t.same(bt) {
						return "", fmt.Errorf("return %s: element has type %s", txt(s), v.t)
					}
					bs = append(bs, v.lean)
				}
			} else {
				return "", fmt.Errorf("return %s: outside the subset", txt(s))
			}
			vals = append(vals, "["+strings.Join(bs, ", ")+"]")
			ci++
		default:
			ft := sh.comps[ci].t
			v, err := c.expr(re, ft)
			if err != nil {
				return "", err
			}
			if v, err = c.mat(v, ft); err != nil {
				return "", err
			}
			if !v.t.same(ft) {
				return "", fmt.Errorf("return %s: result has type %s, want %s", txt(s), v.t, ft)
			}
			vals = append(vals, v.lean)
			ci++
		}
	}
	if isErr {
		return g.guardPrefix(gs, d) + ind(d) + "none", nil
	}
	return g.guardPrefix(gs, d) + ind(d) + g.leaf(vals), nil
}

var _ = sort.Strings
