package main

// Translator TldTypes (property C08): one `Tongo.TlD.Ty` descriptor per liteclient type that has an UnmarshalTL —
// field order, mode bits and sum tags from go/ast over liteclient/generated.go, kinds and element sizes by reflection
// (package verifharness/tldesc, the same code the C08 harness derives its op-line descriptors from) — plus the request
// tag table, one `wf` obligation per descriptor and the table-level obligations TongoProofs/C08Gen.lean instantiates
// the TL bounds with.

import (
	"fmt"
	"sort"
	"strings"

	"verifharness/tldesc"
)

func init() { translators["TldTypes"] = tldTranslate }

// tldLean turns the text form of a descriptor (grammar in lean/TongoModel/TlDecode.lean) into a Lean term
type tldParser struct {
	s string
	i int
}

func (p *tldParser) peek() byte {
	if p.i < len(p.s) {
		return p.s[p.i]
	}
	return 0
}
func (p *tldParser) eat(c byte) error {
	if p.peek() != c {
		return fmt.Errorf("descriptor %q: expected %q at %d", p.s, c, p.i)
	}
	p.i++
	return nil
}
func (p *tldParser) nat() (string, error) {
	j := p.i
	for p.i < len(p.s) && p.s[p.i] >= '0' && p.s[p.i] <= '9' {
		p.i++
	}
	if j == p.i {
		return "", fmt.Errorf("descriptor %q: number expected at %d", p.s, j)
	}
	return p.s[j:p.i], nil
}

func (p *tldParser) ty() (string, error) {
	c := p.peek()
	p.i++
	switch c {
	case 'i':
		return ".int4", nil
	case 'l':
		return ".int8", nil
	case 'b':
		return ".bool", nil
	case 'B':
		return ".bytes", nil
	case 'H':
		return ".int256", nil
	case 'X':
		return ".bad", nil
	case 'A':
		n, err := p.nat()
		return "(.arr " + n + ")", err
	case 'V':
		n, err := p.nat()
		if err != nil {
			return "", err
		}
		if err := p.eat('('); err != nil {
			return "", err
		}
		e, err := p.ty()
		if err != nil {
			return "", err
		}
		return "(.vec " + n + " " + e + ")", p.eat(')')
	case 'P':
		if err := p.eat('('); err != nil {
			return "", err
		}
		e, err := p.ty()
		if err != nil {
			return "", err
		}
		return "(.ptr " + e + ")", p.eat(')')
	case 'T':
		if err := p.eat('('); err != nil {
			return "", err
		}
		fs, err := p.fields()
		if err != nil {
			return "", err
		}
		return "(.struct " + fs + ")", p.eat(')')
	case 'U':
		if err := p.eat('('); err != nil {
			return "", err
		}
		as, err := p.alts()
		if err != nil {
			return "", err
		}
		return "(.sum " + as + ")", p.eat(')')
	}
	return "", fmt.Errorf("descriptor %q: unexpected %q at %d", p.s, c, p.i-1)
}

func (p *tldParser) fields() (string, error) {
	if p.peek() == ')' {
		return ".nil", nil
	}
	isMode := "false"
	if p.peek() == 'm' {
		isMode = "true"
		p.i++
	}
	cond := "none"
	if p.peek() == '?' {
		p.i++
		k, err := p.nat()
		if err != nil {
			return "", err
		}
		if err := p.eat(':'); err != nil {
			return "", err
		}
		cond = "(some " + k + ")"
	}
	t, err := p.ty()
	if err != nil {
		return "", err
	}
	rest := ".nil"
	if p.peek() == ',' {
		p.i++
		if rest, err = p.fields(); err != nil {
			return "", err
		}
	}
	return "(.cons " + cond + " " + isMode + " " + t + " " + rest + ")", nil
}

func (p *tldParser) alts() (string, error) {
	if p.peek() == ')' {
		return ".nil", nil
	}
	tag := "none"
	if p.peek() == '!' {
		p.i++
	} else {
		n, err := p.nat()
		if err != nil {
			return "", err
		}
		tag = "(some " + n + ")"
	}
	if err := p.eat('='); err != nil {
		return "", err
	}
	t, err := p.ty()
	if err != nil {
		return "", err
	}
	rest := ".nil"
	if p.peek() == ',' {
		p.i++
		if rest, err = p.alts(); err != nil {
			return "", err
		}
	}
	return "(.cons " + tag + " " + t + " " + rest + ")", nil
}

func tldLean(desc string) (string, error) {
	p := &tldParser{s: desc}
	t, err := p.ty()
	if err != nil {
		return "", err
	}
	if p.i != len(desc) {
		return "", fmt.Errorf("descriptor %q: trailing input at %d", desc, p.i)
	}
	return t, nil
}

func tldTranslate(repo string) (res string, err error) {
	defer func() {
		if r := recover(); r != nil {
			err = fmt.Errorf("%v", r) // a construct outside the subset of tldesc
		}
	}()
	sc := tldesc.Load(repo)
	var sb strings.Builder
	sb.WriteString("import TongoModel.TlDecode\n")
	sb.WriteString("/-! GENERATED on every run by translator TldTypes (harness/cmd/extract/tld.go + harness/tldesc) from\n")
	sb.WriteString("liteclient/generated.go and liteclient/extensions.go (go/ast) and by reflection. One descriptor per liteclient type\n")
	sb.WriteString("with an UnmarshalTL, the request tag table, per descriptor one well-formedness obligation and\none obligation that the term prints to the text form the harness sends to both sides (`tld.consts`, `tld.dec`). Do not edit. -/\n")
	sb.WriteString("set_option maxRecDepth 100000\nnamespace TongoGen.TldTypes\nopen Tongo.TlD\n\n")
	var names []string
	for _, r := range tldesc.Registry {
		d := sc.Desc(r.T)
		lt, err := tldLean(d)
		if err != nil {
			return "", err
		}
		fmt.Fprintf(&sb, "/-- Go type `liteclient.%s`  (text form `%s`) -/\ndef desc_%s : Ty := %s\n", r.Name, d, r.Name, lt)
		fmt.Fprintf(&sb, "theorem wf_%s : desc_%s.wf = true := by decide\n", r.Name, r.Name)
		fmt.Fprintf(&sb, "theorem show_%s : desc_%s.show = \"%s\" := by decide +kernel\n\n", r.Name, r.Name, d)
		names = append(names, r.Name)
	}
	sb.WriteString("/-- every shipped TL descriptor -/\ndef all : List (String × Ty) := [\n")
	for i, n := range names {
		sep := ","
		if i == len(names)-1 {
			sep = ""
		}
		fmt.Fprintf(&sb, "  (\"%s\", desc_%s)%s\n", n, n, sep)
	}
	sb.WriteString("]\n\n")
	sb.WriteString("/-- OBLIGATION: every shipped descriptor is well formed (every vector element consumes at least one byte) -/\n")
	sb.WriteString("theorem all_wf : all.all (fun p => p.2.wf) = true := by decide\n\n")
	var tags []uint32
	for t := range sc.Requests {
		tags = append(tags, t)
	}
	sort.Slice(tags, func(i, j int) bool { return tags[i] < tags[j] })
	sb.WriteString("/-- taggedRequestDecodeFunctions: request tag → descriptor of the request type -/\ndef requests : List (Nat × Ty) := [\n")
	for i, t := range tags {
		sep := ","
		if i == len(tags)-1 {
			sep = ""
		}
		fmt.Fprintf(&sb, "  (%d, desc_%s)%s\n", t, sc.Requests[t], sep)
	}
	sb.WriteString("]\n\nend TongoGen.TldTypes\n")
	return sb.String(), nil
}
