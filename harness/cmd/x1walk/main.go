// x1walk: stage (ii) of translator X1 — walks every registered type by reflection and prints Lean.
//
//	x1walk types     → lean/TongoGen/TlbTypes.lean (descriptors, environment, wf obligations, coverage lists)
//	x1walk report    → human-readable coverage table
package main

import (
	"fmt"
	"os"
	"sort"
	"strings"

	"verifharness/tlbx"
)

func main() {
	mode := "types"
	if len(os.Args) > 1 {
		mode = os.Args[1]
	}
	u := tlbx.NewUniverse()
	type top struct {
		name  string
		d     *tlbx.Desc
		class string
		why   []string
	}
	var tops []top
	seen := map[string]bool{}
	for _, t := range tlbx.Registry {
		n := tlbx.TypeName(t)
		if seen[n] {
			continue
		}
		seen[n] = true
		d := u.Describe(t)
		c, why := u.Coverage(d)
		tops = append(tops, top{n, d, c, why})
	}
	sort.Slice(tops, func(i, j int) bool { return tops[i].name < tops[j].name })
	if mode == "report" {
		for _, t := range tops {
			fmt.Printf("%-60s %-12s %s\n", t.name, t.class, strings.Join(t.why, ","))
		}
		return
	}
	// a type that contains (transitively) a type pinned as not well formed is not covered either
	containsNonWf := func(d *tlbx.Desc, self string) string {
		for _, n := range u.Closure(d) {
			if _, bad := tlbx.NonWf[n]; bad && n != self {
				return n
			}
		}
		return ""
	}
	for i := range tops {
		if tops[i].class == "model" || tops[i].class == "partial" {
			if _, self := tlbx.NonWf[tops[i].name]; self {
				continue
			}
			if x := containsNonWf(tops[i].d, tops[i].name); x != "" {
				tops[i].class, tops[i].why = "nonwf", []string{"contains " + x}
			}
		}
	}
	// named types that are covered by the model (class model / partial) and well formed
	var names []string
	for n, body := range u.Named {
		c, _ := u.Coverage(body)
		if _, bad := tlbx.NonWf[n]; bad || containsNonWf(body, n) != "" {
			continue
		}
		if c == "model" || c == "partial" {
			names = append(names, n)
		}
	}
	sort.Strings(names)
	idx := map[string]int{}
	for i, n := range names {
		idx[n] = i
	}
	var sb strings.Builder
	sb.WriteString("import TongoModel.Tlb.Wf\nimport TongoModel.Tlb.Chain\n")
	sb.WriteString("/-! GENERATED on every run by translator X1 (harness/cmd/extract/x1.go + cmd/x1walk) from the Go source by go/ast +\n")
	sb.WriteString("reflection. One `Ty` descriptor per Go type the TL-B reflection codec can meet, the type environment, and one\n")
	sb.WriteString("well-formedness obligation per type. Do not edit. -/\n")
	sb.WriteString("set_option maxRecDepth 100000\nnamespace TongoGen.TlbTypes\nopen Tongo.Tlb\n\n")
	for _, n := range names {
		fmt.Fprintf(&sb, "/-- Go type `%s` -/\ndef desc_%s : Ty := %s\n", n, tlbx.LeanIdent(n), u.Named[n].Lean(idx))
	}
	sb.WriteString("\n/-- the type environment: every covered named Go struct type -/\ndef envList : List Ty := [\n")
	for i, n := range names {
		sep := ","
		if i == len(names)-1 {
			sep = ""
		}
		fmt.Fprintf(&sb, "  desc_%s%s  -- %d\n", tlbx.LeanIdent(n), sep, i)
	}
	sb.WriteString("]\ndef env : Env := envOfList envList\n\n/-- Go type names of the environment entries, by index -/\ndef envNames : List String := [")
	for i, n := range names {
		if i > 0 {
			sb.WriteString(", ")
		}
		fmt.Fprintf(&sb, "%q", n)
	}
	sb.WriteString("]\n\n")
	// registered top-level types that are not named structs (Grams, VmStack, UintN, …) get a top descriptor too
	var topNames []string
	for _, t := range tops {
		if t.class != "model" && t.class != "partial" {
			continue
		}
		if t.d.Kind == tlbx.KNamed {
			if _, bad := tlbx.NonWf[t.name]; !bad {
				continue
			}
			// pinned as not well formed: not part of the environment, but its descriptor and `nwf_` obligation are emitted
			// — unless it refers to a type outside the environment (itself included): then it has no descriptor at all
			resolvable := true
			for _, dep := range u.Closure(u.Named[t.name]) {
				if _, ok := idx[dep]; !ok {
					resolvable = false
				}
			}
			if !resolvable {
				continue
			}
			fmt.Fprintf(&sb, "/-- Go type `%s` -/\ndef desc_%s : Ty := %s\n", t.name, tlbx.LeanIdent(t.name), u.Named[t.name].Lean(idx))
			topNames = append(topNames, t.name)
			continue
		}
		fmt.Fprintf(&sb, "/-- Go type `%s` -/\ndef desc_%s : Ty := %s\n", t.name, tlbx.LeanIdent(t.name), t.d.Lean(idx))
		topNames = append(topNames, t.name)
	}
	sb.WriteString("\n")
	all := append(append([]string{}, names...), topNames...)
	sort.Strings(all)
	for _, n := range all {
		if why, bad := tlbx.NonWf[n]; bad {
			fmt.Fprintf(&sb, "/-- NOT well formed (pinned in harness/tlbx/nonwf.go): %s -/\ntheorem nwf_%s : wfTop env desc_%s = false := by decide +kernel\n", why, tlbx.LeanIdent(n), tlbx.LeanIdent(n))
			if chk, ok := tlbx.ChainProved[n]; ok {
				fmt.Fprintf(&sb, "/-- the shape condition of the reference-chain round-trip theorem -/\ntheorem wfc_%s : %s env desc_%s = true := by decide +kernel\n", tlbx.LeanIdent(n), chk, tlbx.LeanIdent(n))
			}
			continue
		}
		fmt.Fprintf(&sb, "theorem wf_%s : wfTop env desc_%s = true := by decide +kernel\n", tlbx.LeanIdent(n), tlbx.LeanIdent(n))
	}
	sb.WriteString("\n/-- every entry of the environment is well formed (assembled from the per-type obligations) -/\n")
	sb.WriteString("theorem env_wf : envOk env envList = true := by\n  simp only [envOk, envList, List.all_cons, List.all_nil, Bool.and_true")
	for _, n := range names {
		if _, bad := tlbx.NonWf[n]; !bad {
			fmt.Fprintf(&sb, ",\n    wf_%s", tlbx.LeanIdent(n))
		}
	}
	sb.WriteString("]\n\n")
	// every well-formed descriptor (named or not) in one list, for the generated instance of the round-trip theorem
	sb.WriteString("/-- every regenerated descriptor that satisfies the well-formedness condition -/\ndef allWf : List Ty := [")
	first1 := true
	for _, n := range all {
		if _, bad := tlbx.NonWf[n]; bad {
			continue
		}
		if !first1 {
			sb.WriteString(", ")
		}
		first1 = false
		fmt.Fprintf(&sb, "desc_%s", tlbx.LeanIdent(n))
	}
	sb.WriteString("]\n\ntheorem allWf_ok : allWf.all (wfTop env) = true := by\n  simp only [allWf, List.all_cons, List.all_nil, Bool.and_true")
	for _, n := range all {
		if _, bad := tlbx.NonWf[n]; !bad {
			fmt.Fprintf(&sb, ",\n    wf_%s", tlbx.LeanIdent(n))
		}
	}
	sb.WriteString("]\n\n")
	sb.WriteString("/-- registered Go types with a descriptor (class model or partial) -/\ndef covered : List String := [")
	for i, n := range all {
		if i > 0 {
			sb.WriteString(", ")
		}
		fmt.Fprintf(&sb, "%q", n)
	}
	sb.WriteString("]\n\n/-- registered Go types WITHOUT a model, with the reason (opaque custom codecs / not a TL-B type) -/\n")
	sb.WriteString("def uncovered : List (String × String) := [\n")
	first := true
	for _, t := range tops {
		if t.class == "model" || t.class == "partial" {
			continue
		}
		if !first {
			sb.WriteString(",\n")
		}
		first = false
		fmt.Fprintf(&sb, "  (%q, %q)", t.name, t.class+": "+strings.Join(t.why, "; "))
	}
	sb.WriteString("]\n\nend TongoGen.TlbTypes\n")
	fmt.Print(sb.String())
}
