//go:build c20

package main

// C20 — JSON forms of chain values parse back to the same value.
//
// Compared with the model (Tongo.Json):
//   json.print <value…>            -> ok <hex of json.Marshal(v)>
//   json.parse <type…> <dochex>    -> ok <canonical value> | err | panic      ((*T).UnmarshalJSON(doc) called directly)
//   json.valid <dochex>            -> ok 0|1                                   (json.Valid)
// Direct oracles on the implementation alone:
//   go.json.rt <value…>            Unmarshal(Marshal v) == v, output valid JSON (json.Valid), also inside a struct
//   go.json.mal <type…> <dochex>   malformed document: error or value, never a panic; an accepted document yields a
//                                  value that itself round-trips
//
// value syntax (one token per component):
//   uint <bits> <dec> | int <bits> <dec> | big <GoType> <dec> | bits <nbytes> <hex> | h256 <hex> | i256 <hex>
//   grams <dec> | scoins <dec> | magic <dec> | bitstr <bin> | addr <a> | maybe <inner…> none|some <inner value>
//   cell <table> | anycell <table> | acct <wc> <hex> | inbody … | extout …
//   <a> = none | ext/<bin> | std/<any>/<wc>/<hex32> | var/<any>/<wc>/<bin>     <any> = - | depth,prefix   <bin> = - | [01]+

import (
	"bytes"
	"encoding/hex"
	"encoding/json"
	"fmt"
	"go/ast"
	"go/parser"
	"go/token"
	"math/big"
	"os"
	"path/filepath"
	"reflect"
	"sort"
	"strconv"
	"strings"

	"github.com/tonkeeper/tongo/abi"
	"github.com/tonkeeper/tongo/boc"
	"github.com/tonkeeper/tongo/tl"
	"github.com/tonkeeper/tongo/tlb"
	"github.com/tonkeeper/tongo/ton"
	"verifharness/h"
)

func init() {
	h.Register(&h.Prop{ID: "C20", Gen: genC20, Exec: withPrim(map[string]h.ExecFn{
		"json.print":        exJSONPrint,
		"json.parse":        exJSONParse,
		"json.valid":        exJSONValid,
		"go.json.rt":        goJSONRoundTrip,
		"go.json.mal":       goJSONMalformed,
		"go.json.reuse":     goJSONReuse,
		"go.json.reuse.env": goEnvelopeReuse,
		"go.json.cellroots": goCellRoots,
	})})
}

// ------------------------------------------------------------------------------------------------ type registry

type fixedSizer interface{ FixedSize() int }

var (
	c20Uint = map[int]reflect.Type{} // by FixedSize
	c20Int  = map[int]reflect.Type{}
	c20Bits = map[int]reflect.Type{} // by byte length
	c20Big  = map[string]reflect.Type{}
	bigT    = reflect.TypeOf(big.Int{})
)

func init() {
	for name, t := range c20TlbTypes {
		switch t.Kind() {
		case reflect.Uint8, reflect.Uint16, reflect.Uint32, reflect.Uint64:
			if fs, ok := reflect.Zero(t).Interface().(fixedSizer); ok {
				c20Uint[fs.FixedSize()] = t
			}
		case reflect.Int8, reflect.Int16, reflect.Int32, reflect.Int64:
			if fs, ok := reflect.Zero(t).Interface().(fixedSizer); ok {
				c20Int[fs.FixedSize()] = t
			}
		case reflect.Array:
			c20Bits[t.Len()] = t
		case reflect.Struct:
			if t.ConvertibleTo(bigT) && name != "MsgAddress" {
				c20Big[name] = t
			}
		}
	}
}

// a codec for one Go type: build a value from tokens, dump a value canonically.
type c20Codec struct {
	nargs int                                      // number of value tokens
	typ   func(a []string) reflect.Type            // from the type tokens (the first ntype tokens)
	ntype int                                      // number of leading tokens that select the type
	build func(a []string) (reflect.Value, bool)   // full token list -> value of typ
	dump  func(v reflect.Value, a []string) string // canonical text of a parsed value (a = type tokens)
}

func pu64(s string) uint64 {
	v, err := strconv.ParseUint(s, 10, 64)
	if err != nil {
		panic("bad u64 arg " + s)
	}
	return v
}

func atoi(s string) int {
	v, err := strconv.Atoi(s)
	if err != nil {
		panic("bad int arg " + s)
	}
	return v
}

func bigOf(s string) *big.Int {
	z, ok := new(big.Int).SetString(s, 10)
	if !ok {
		panic("bad big arg " + s)
	}
	return z
}

func binOf(bs boc.BitString) string {
	bs.ResetCounter()
	n := bs.BitsAvailableForRead()
	if n == 0 {
		return "-"
	}
	var sb strings.Builder
	for i := 0; i < n; i++ {
		b, err := bs.ReadBit()
		if err != nil {
			return "?"
		}
		if b {
			sb.WriteByte('1')
		} else {
			sb.WriteByte('0')
		}
	}
	return sb.String()
}

func bitsOfBin(s string) boc.BitString {
	if s == "-" {
		return boc.NewBitString(0)
	}
	bs := boc.NewBitString(len(s))
	for _, c := range s {
		if err := bs.WriteBit(c == '1'); err != nil {
			panic(err)
		}
	}
	return bs
}

func anyOf(s string) tlb.Maybe[tlb.Anycast] {
	if s == "-" {
		return tlb.Maybe[tlb.Anycast]{}
	}
	p := strings.Split(s, ",")
	d, _ := strconv.ParseUint(p[0], 10, 32)
	x, _ := strconv.ParseUint(p[1], 10, 32)
	return tlb.Maybe[tlb.Anycast]{Exists: true, Value: tlb.Anycast{Depth: uint32(d), RewritePfx: uint32(x)}}
}

func anyStr(m tlb.Maybe[tlb.Anycast]) string {
	if !m.Exists {
		return "-"
	}
	return fmt.Sprintf("%d,%d", m.Value.Depth, m.Value.RewritePfx)
}

func addrOf(s string) tlb.MsgAddress {
	p := strings.Split(s, "/")
	switch p[0] {
	case "none":
		return tlb.MsgAddress{SumType: "AddrNone"}
	case "ext":
		bs := bitsOfBin(p[1])
		return tlb.MsgAddress{SumType: "AddrExtern", AddrExtern: &bs}
	case "std":
		var a tlb.MsgAddress
		a.SumType = "AddrStd"
		a.AddrStd.Anycast = anyOf(p[1])
		a.AddrStd.WorkchainId = int8(atoi(p[2]))
		copy(a.AddrStd.Address[:], h.MustUnHex(p[3]))
		return a
	case "var":
		bs := bitsOfBin(p[3])
		var a tlb.MsgAddress
		a.SumType = "AddrVar"
		a.AddrVar = &struct {
			Anycast     tlb.Maybe[tlb.Anycast]
			AddrLen     tlb.Uint9
			WorkchainId int32
			Address     boc.BitString
		}{Anycast: anyOf(p[1]), AddrLen: tlb.Uint9(bs.BitsAvailableForRead()), WorkchainId: int32(atoi(p[2])), Address: bs}
		return a
	}
	panic("bad addr " + s)
}

// addrStr: canonical text of a MsgAddress; var addresses carry AddrLen as a fifth component.
func addrStr(a tlb.MsgAddress) string {
	switch a.SumType {
	case "AddrNone":
		return "none"
	case "AddrExtern":
		if a.AddrExtern == nil {
			return "ext/nil"
		}
		return "ext/" + binOf(*a.AddrExtern)
	case "AddrStd":
		return fmt.Sprintf("std/%s/%d/%x", anyStr(a.AddrStd.Anycast), a.AddrStd.WorkchainId, a.AddrStd.Address[:])
	case "AddrVar":
		if a.AddrVar == nil {
			return "var/nil"
		}
		return fmt.Sprintf("var/%s/%d/%s/%d", anyStr(a.AddrVar.Anycast), a.AddrVar.WorkchainId, binOf(a.AddrVar.Address), a.AddrVar.AddrLen)
	}
	return "sumtype?" + string(a.SumType)
}

var c20Codecs map[string]*c20Codec

func fixedType(t reflect.Type) func([]string) reflect.Type {
	return func([]string) reflect.Type { return t }
}

func init() {
	c20Codecs = map[string]*c20Codec{
		"uint": {nargs: 2, ntype: 1,
			typ: func(a []string) reflect.Type { return c20Uint[atoi(a[0])] },
			build: func(a []string) (reflect.Value, bool) {
				v := reflect.New(c20Uint[atoi(a[0])]).Elem()
				v.SetUint(pu64(a[1]))
				return v, true
			},
			dump: func(v reflect.Value, _ []string) string { return strconv.FormatUint(v.Uint(), 10) }},
		"int": {nargs: 2, ntype: 1,
			typ: func(a []string) reflect.Type { return c20Int[atoi(a[0])] },
			build: func(a []string) (reflect.Value, bool) {
				v := reflect.New(c20Int[atoi(a[0])]).Elem()
				x, err := strconv.ParseInt(a[1], 10, 64)
				if err != nil {
					panic(err)
				}
				v.SetInt(x)
				return v, true
			},
			dump: func(v reflect.Value, _ []string) string { return strconv.FormatInt(v.Int(), 10) }},
		"big": {nargs: 2, ntype: 1,
			typ: func(a []string) reflect.Type { return c20Big[a[0]] },
			build: func(a []string) (reflect.Value, bool) {
				return reflect.ValueOf(*bigOf(a[1])).Convert(c20Big[a[0]]), true
			},
			dump: func(v reflect.Value, _ []string) string {
				z := v.Convert(bigT).Interface().(big.Int)
				return z.String()
			}},
		"bits": {nargs: 2, ntype: 1,
			typ: func(a []string) reflect.Type { return c20Bits[atoi(a[0])] },
			build: func(a []string) (reflect.Value, bool) {
				t := c20Bits[atoi(a[0])]
				v := reflect.New(t).Elem()
				reflect.Copy(v, reflect.ValueOf(h.MustUnHex(a[1])))
				return v, true
			},
			dump: func(v reflect.Value, _ []string) string {
				b := make([]byte, v.Len())
				reflect.Copy(reflect.ValueOf(b), v)
				return h.Hex(b)
			}},
		"h256": {nargs: 1, typ: fixedType(reflect.TypeOf(ton.Bits256{})),
			build: func(a []string) (reflect.Value, bool) {
				var x ton.Bits256
				copy(x[:], h.MustUnHex(a[0]))
				return reflect.ValueOf(x), true
			},
			dump: func(v reflect.Value, _ []string) string { x := v.Interface().(ton.Bits256); return h.Hex(x[:]) }},
		"i256": {nargs: 1, typ: fixedType(reflect.TypeOf(tl.Int256{})),
			build: func(a []string) (reflect.Value, bool) {
				var x tl.Int256
				copy(x[:], h.MustUnHex(a[0]))
				return reflect.ValueOf(x), true
			},
			dump: func(v reflect.Value, _ []string) string { x := v.Interface().(tl.Int256); return h.Hex(x[:]) }},
		"grams": {nargs: 1, typ: fixedType(reflect.TypeOf(tlb.Grams(0))),
			build: func(a []string) (reflect.Value, bool) { return reflect.ValueOf(tlb.Grams(pu64(a[0]))), true },
			dump:  func(v reflect.Value, _ []string) string { return strconv.FormatUint(v.Uint(), 10) }},
		"scoins": {nargs: 1, typ: fixedType(reflect.TypeOf(tlb.SignedCoins(0))),
			build: func(a []string) (reflect.Value, bool) {
				x, err := strconv.ParseInt(a[0], 10, 64)
				if err != nil {
					panic(err)
				}
				return reflect.ValueOf(tlb.SignedCoins(x)), true
			},
			dump: func(v reflect.Value, _ []string) string { return strconv.FormatInt(v.Int(), 10) }},
		"magic": {nargs: 1, typ: fixedType(reflect.TypeOf(tlb.Magic(0))),
			build: func(a []string) (reflect.Value, bool) { return reflect.ValueOf(tlb.Magic(pu64(a[0]))), true },
			dump:  func(v reflect.Value, _ []string) string { return strconv.FormatUint(v.Uint(), 10) }},
		"bitstr": {nargs: 1, typ: fixedType(reflect.TypeOf(boc.BitString{})),
			build: func(a []string) (reflect.Value, bool) { return reflect.ValueOf(bitsOfBin(a[0])), true },
			dump:  func(v reflect.Value, _ []string) string { return binOf(v.Interface().(boc.BitString)) }},
		"addr": {nargs: 1, typ: fixedType(reflect.TypeOf(tlb.MsgAddress{})),
			build: func(a []string) (reflect.Value, bool) { return reflect.ValueOf(addrOf(a[0])), true },
			dump:  func(v reflect.Value, _ []string) string { return addrStr(v.Interface().(tlb.MsgAddress)) }},
		"anycast": {nargs: 1, typ: fixedType(reflect.TypeOf(tlb.Anycast{})),
			build: func(a []string) (reflect.Value, bool) { return reflect.ValueOf(anyOf(a[0]).Value), true },
			dump: func(v reflect.Value, _ []string) string {
				x := v.Interface().(tlb.Anycast)
				return fmt.Sprintf("%d,%d", x.Depth, x.RewritePfx)
			}},
		"cell": {nargs: 1, typ: fixedType(reflect.TypeOf(boc.Cell{})),
			build: func(a []string) (reflect.Value, bool) {
				cs := h.BuildCells(h.ParseTable(a[0]))
				return reflect.ValueOf(*cs[0]), true
			},
			dump: func(v reflect.Value, _ []string) string {
				c := v.Interface().(boc.Cell)
				return h.Canon([]*boc.Cell{&c})
			}},
		"anycell": {nargs: 1, typ: fixedType(reflect.TypeOf(tlb.Any{})),
			build: func(a []string) (reflect.Value, bool) {
				cs := h.BuildCells(h.ParseTable(a[0]))
				return reflect.ValueOf(tlb.Any(*cs[0])), true
			},
			dump: func(v reflect.Value, _ []string) string {
				c := boc.Cell(v.Interface().(tlb.Any))
				return h.Canon([]*boc.Cell{&c})
			}},
		"acct": {nargs: 2, typ: fixedType(reflect.TypeOf(ton.AccountID{})),
			build: func(a []string) (reflect.Value, bool) {
				var id ton.AccountID
				id.Workchain = int32(atoi(a[0]))
				copy(id.Address[:], h.MustUnHex(a[1]))
				return reflect.ValueOf(id), true
			},
			dump: func(v reflect.Value, _ []string) string {
				id := v.Interface().(ton.AccountID)
				return fmt.Sprintf("%d %x", id.Workchain, id.Address[:])
			}},
	}
}

// maybeTypes: the instantiations of tlb.Maybe exercised (inner family key -> Maybe[inner] type)
func maybeType(inner reflect.Type) reflect.Type {
	switch inner {
	case reflect.TypeOf(tlb.Uint32(0)):
		return reflect.TypeOf(tlb.Maybe[tlb.Uint32]{})
	case reflect.TypeOf(tlb.Uint5(0)):
		return reflect.TypeOf(tlb.Maybe[tlb.Uint5]{})
	case reflect.TypeOf(tlb.Int64(0)):
		return reflect.TypeOf(tlb.Maybe[tlb.Int64]{})
	case reflect.TypeOf(tlb.Uint64(0)):
		return reflect.TypeOf(tlb.Maybe[tlb.Uint64]{})
	case reflect.TypeOf(tlb.Grams(0)):
		return reflect.TypeOf(tlb.Maybe[tlb.Grams]{})
	case reflect.TypeOf(tlb.MsgAddress{}):
		return reflect.TypeOf(tlb.Maybe[tlb.MsgAddress]{})
	case reflect.TypeOf(tlb.Bits256{}):
		return reflect.TypeOf(tlb.Maybe[tlb.Bits256]{})
	case reflect.TypeOf(tlb.Uint256{}):
		return reflect.TypeOf(tlb.Maybe[tlb.Uint256]{})
	case reflect.TypeOf(tlb.Magic(0)):
		return reflect.TypeOf(tlb.Maybe[tlb.Magic]{})
	case reflect.TypeOf(tlb.Any{}):
		return reflect.TypeOf(tlb.Maybe[tlb.Any]{})
	case reflect.TypeOf(tlb.Anycast{}):
		return reflect.TypeOf(tlb.Maybe[tlb.Anycast]{})
	}
	return nil
}

// resolve splits tokens into (type, type tokens, value tokens, codec); handles the `maybe` wrapper.
type c20Resolved struct {
	typ     reflect.Type
	fam     string
	c       *c20Codec
	ttoks   []string // type-selecting tokens of the inner family
	maybe   bool
	vtoks   []string // remaining tokens (value tokens, or the document)
	present bool     // for maybe values
}

func c20Resolve(a []string, wantValue bool) c20Resolved {
	var r c20Resolved
	if a[0] == "maybe" {
		r.maybe = true
		a = a[1:]
	}
	r.fam = a[0]
	c := c20Codecs[r.fam]
	if c == nil {
		panic("unknown family " + r.fam)
	}
	r.c = c
	r.ttoks = a[1 : 1+c.ntype]
	inner := c.typ(r.ttoks)
	if inner == nil {
		panic("no Go type for " + strings.Join(a[:1+c.ntype], " "))
	}
	r.typ = inner
	if r.maybe {
		r.typ = maybeType(inner)
		if r.typ == nil {
			panic("no Maybe instantiation for " + inner.String())
		}
	}
	rest := a[1+c.ntype:]
	if wantValue && r.maybe {
		r.present = rest[0] == "some"
		rest = rest[1:]
	}
	r.vtoks = rest
	return r
}

func (r c20Resolved) value() reflect.Value {
	if r.maybe {
		m := reflect.New(r.typ).Elem()
		if r.present {
			v, _ := r.c.build(append(append([]string{}, r.ttoks...), r.vtoks...))
			m.FieldByName("Exists").SetBool(true)
			m.FieldByName("Value").Set(v)
		}
		return m
	}
	v, _ := r.c.build(append(append([]string{}, r.ttoks...), r.vtoks...))
	return v
}

func (r c20Resolved) dump(v reflect.Value) string {
	if r.maybe {
		if !v.FieldByName("Exists").Bool() {
			// the zero value must be restored as well (UnmarshalJSON resets it)
			z := reflect.Zero(v.FieldByName("Value").Type())
			if r.c.dump(v.FieldByName("Value"), r.ttoks) != r.c.dump(z, r.ttoks) {
				return "none-with-stale-value"
			}
			return "none"
		}
		return "some " + r.c.dump(v.FieldByName("Value"), r.ttoks)
	}
	return r.c.dump(v, r.ttoks)
}

// ------------------------------------------------------------------------------------------------------ executors

func exJSONPrint(a []string) string {
	r := c20Resolve(a, true)
	b, err := json.Marshal(r.value().Interface())
	if err != nil {
		return "err"
	}
	return "ok " + h.Hex(b)
}

// exEnvelopeParse: json.parse envelope in|out <doc>
func exEnvelopeParse(a []string) string {
	doc := h.MustUnHex(a[2])
	var sum string
	var op *uint32
	var val any
	var err error
	if a[1] == "in" {
		var b abi.InMsgBody
		err = b.UnmarshalJSON(doc)
		sum, op, val = b.SumType, b.OpCode, b.Value
	} else {
		var b abi.ExtOutMsgBody
		err = b.UnmarshalJSON(doc)
		sum, op, val = b.SumType, b.OpCode, b.Value
	}
	ops := "-"
	if op != nil {
		ops = fmt.Sprint(*op)
	}
	if sum != abi.EmptyMsgOp && sum != abi.UnknownMsgOp {
		// a (possibly unregistered) named body: the registry and the inner decoder are not part of the model
		return "ok named " + h.Hex([]byte(sum)) + " " + ops
	}
	if err != nil {
		return "err"
	}
	if sum == abi.EmptyMsgOp {
		return "ok empty " + ops
	}
	c, ok := val.(*boc.Cell)
	if !ok {
		return "ok unknown-not-a-cell"
	}
	return "ok unknown " + ops + " " + h.Canon([]*boc.Cell{c})
}

func exJSONParse(a []string) string {
	if a[0] == "envelope" {
		return exEnvelopeParse(a)
	}
	doc := h.MustUnHex(a[len(a)-1])
	r := c20Resolve(a[:len(a)-1], false)
	p := reflect.New(r.typ)
	u, ok := p.Interface().(json.Unmarshaler)
	if !ok {
		return "bad-op"
	}
	if err := u.UnmarshalJSON(doc); err != nil {
		return "err"
	}
	return "ok " + r.dump(p.Elem())
}

func exJSONValid(a []string) string {
	if json.Valid(h.MustUnHex(a[0])) {
		return "ok 1"
	}
	return "ok 0"
}

func c20RoundTrip(r c20Resolved, v reflect.Value) string {
	want := r.dump(v)
	m, ok := v.Interface().(json.Marshaler)
	if !ok {
		return "FAIL not-a-marshaler " + r.typ.String()
	}
	raw, err := m.MarshalJSON()
	if err != nil {
		return "FAIL marshal-error " + err.Error()
	}
	if !json.Valid(raw) {
		return "FAIL invalid-json " + strconv.Quote(string(raw))
	}
	b, err := json.Marshal(v.Interface())
	if err != nil {
		return "FAIL marshal-error " + err.Error()
	}
	p := reflect.New(r.typ)
	if err := json.Unmarshal(b, p.Interface()); err != nil {
		return "FAIL roundtrip unmarshal-error doc=" + strconv.Quote(string(b))
	}
	if got := r.dump(p.Elem()); got != want {
		return "FAIL roundtrip got=" + got + " want=" + want + " doc=" + strconv.Quote(string(b))
	}
	// the same value as a struct field, a pointer field, a slice element and a map value, with indentation
	st := reflect.StructOf([]reflect.StructField{
		{Name: "A", Type: r.typ}, {Name: "B", Type: reflect.PointerTo(r.typ)}, {Name: "C", Type: reflect.SliceOf(r.typ)},
		{Name: "D", Type: reflect.MapOf(reflect.TypeOf(""), r.typ)},
	})
	s := reflect.New(st).Elem()
	s.Field(0).Set(v)
	pv := reflect.New(r.typ)
	pv.Elem().Set(v)
	s.Field(1).Set(pv)
	s.Field(2).Set(reflect.Append(reflect.MakeSlice(reflect.SliceOf(r.typ), 0, 2), v, v))
	mp := reflect.MakeMap(reflect.MapOf(reflect.TypeOf(""), r.typ))
	mp.SetMapIndex(reflect.ValueOf("k"), v)
	s.Field(3).Set(mp)
	sb, err := json.MarshalIndent(s.Interface(), "", "  ")
	if err != nil {
		return "FAIL struct-marshal-error " + err.Error()
	}
	s2 := reflect.New(st)
	if err := json.Unmarshal(sb, s2.Interface()); err != nil {
		return "FAIL struct-roundtrip unmarshal-error doc=" + strconv.Quote(string(sb))
	}
	e := s2.Elem()
	if e.Field(1).IsNil() || e.Field(2).Len() != 2 || e.Field(3).Len() != 1 {
		if !(r.maybe && !r.present && e.Field(2).Len() == 2 && e.Field(3).Len() == 1) { // a null pointer field stays nil
			return "FAIL struct-roundtrip shape doc=" + strconv.Quote(string(sb))
		}
	}
	got := []reflect.Value{e.Field(0), e.Field(2).Index(0), e.Field(2).Index(1), e.Field(3).MapIndex(reflect.ValueOf("k"))}
	if !e.Field(1).IsNil() {
		got = append(got, e.Field(1).Elem())
	}
	for i, g := range got {
		if d := r.dump(g); d != want {
			return fmt.Sprintf("FAIL struct-roundtrip field=%d got=%s want=%s", i, d, want)
		}
	}
	return "ok"
}

func goJSONRoundTrip(a []string) string {
	if envKinds[a[0]] != nil {
		return goBodyRoundTrip(a)
	}
	r := c20Resolve(a, true)
	if !r.maybe && (r.fam == "cell" || r.fam == "anycell") {
		// a cell that cannot be hashed (deeper than 1024) cannot be serialised: outside the domain
		if _, err := h.BuildCells(h.ParseTable(r.vtoks[0]))[0].Hash(); err != nil {
			return "ok"
		}
	}
	return c20RoundTrip(r, r.value())
}

// heapTable: a DAG of exactly n distinct cells, every inner cell with four references (row i refers to rows
// 4i+1..4i+4), the index in the data (so all cells are distinct), every seventh cell filled up to 1023 bits
func heapTable(g *h.G, n int) []h.Row {
	t := make([]h.Row, n)
	for i := 0; i < n; i++ {
		d := []byte{byte(i >> 24), byte(i >> 16), byte(i >> 8), byte(i)}
		bl := 32
		if i%7 == 0 {
			bl = 1023
			d = append(d, g.RandData(1023-32)...)
		}
		var refs []int
		for k := 1; k <= 4; k++ {
			if c := 4*i + k; c < n {
				refs = append(refs, c)
			}
		}
		t[i] = h.Row{BitLen: bl, Data: d, Refs: refs}
	}
	return t
}

// chainTable: n cells in one chain (depth n-1)
func chainTable(n int) []h.Row {
	t := make([]h.Row, n)
	for i := 0; i < n; i++ {
		r := h.Row{BitLen: 16, Data: []byte{byte(i >> 8), byte(i)}}
		if i+1 < n {
			r.Refs = []int{i + 1}
		}
		t[i] = r
	}
	return t
}

// c20HexLen: byte length of the fixed-size hex families (0 for the others)
func c20HexLen(r c20Resolved) int {
	if r.maybe {
		return 0
	}
	switch r.fam {
	case "bits":
		return atoi(r.ttoks[0])
	case "h256", "i256":
		return 32
	}
	return 0
}

func goJSONMalformed(a []string) (res string) {
	doc := h.MustUnHex(a[len(a)-1])
	var typ reflect.Type
	var r c20Resolved
	if k := envKinds[a[0]]; k != nil {
		return goEnvelopeMalformed(k, doc)
	}
	r = c20Resolve(a[:len(a)-1], false)
	typ = r.typ
	stage := "unmarshal"
	defer func() {
		if x := recover(); x != nil {
			res = fmt.Sprintf("FAIL panic stage=%s %v", stage, x)
		}
	}()
	p := reflect.New(typ)
	err := json.Unmarshal(doc, p.Interface())
	stage = "method"
	q := reflect.New(typ)
	_ = q.Interface().(json.Unmarshaler).UnmarshalJSON(doc)
	if err != nil || r.c == nil {
		return "ok"
	}
	// accepted: fixed-size hex families must have been given exactly 2·n hex digits
	if n := c20HexLen(r); n > 0 {
		cnt := 0
		for _, b := range doc {
			if b >= '0' && b <= '9' || b >= 'a' && b <= 'f' || b >= 'A' && b <= 'F' {
				cnt++
			}
		}
		if cnt != 2*n {
			return fmt.Sprintf("FAIL accepted-wrong-length digits=%d want=%d", cnt, 2*n)
		}
	}
	// accepted: the value must be printable and must round-trip
	stage = "remarshal"
	b, err := json.Marshal(p.Elem().Interface())
	if err != nil {
		return "FAIL accepted-unprintable " + err.Error()
	}
	p2 := reflect.New(typ)
	if err := json.Unmarshal(b, p2.Interface()); err != nil {
		return "FAIL accepted-no-roundtrip unmarshal-error doc=" + strconv.Quote(string(b))
	}
	if d1, d2 := r.dump(p.Elem()), r.dump(p2.Elem()); d1 != d2 {
		return "FAIL accepted-no-roundtrip got=" + d2 + " want=" + d1
	}
	return "ok"
}

// goBodyRoundTrip: abi.InMsgBody / abi.ExtOutMsgBody envelopes.
//
//	inbody empty | inbody unknown <op|-> <table> | inbody known <name>
func goBodyRoundTrip(a []string) string {
	k := envKinds[a[0]]
	var op *uint32
	mk := func(sum string, val any) any { return k.mk(sum, op, val) }
	fresh := k.fresh
	parts := envParts
	var v any
	switch a[1] {
	case "empty":
		if len(a) > 2 && a[2] != "-" { // an op code on an empty body is not printed: outside the round trip
			return "bad-op"
		}
		v = mk(k.empty, nil)
	case "unknown":
		if a[2] != "-" {
			x := uint32(pu64(a[2]))
			op = &x
		}
		cs := h.BuildCells(h.ParseTable(a[3]))
		v = mk(k.unknown, cs[0])
	case "known":
		proto, ok := k.registry[a[2]]
		if !ok {
			return "FAIL unknown-known-type " + a[2]
		}
		if a[3] != "-" {
			x := uint32(pu64(a[3]))
			op = &x
		}
		v = mk(a[2], reflect.Zero(reflect.TypeOf(proto)).Interface())
	}
	b, err := json.Marshal(v)
	if err != nil {
		return "FAIL marshal-error " + err.Error()
	}
	if !json.Valid(b) {
		return "FAIL invalid-json " + strconv.Quote(string(b))
	}
	w := fresh()
	if err := json.Unmarshal(b, w); err != nil {
		return "FAIL roundtrip unmarshal-error " + err.Error() + " doc=" + strconv.Quote(string(b))
	}
	s0, o0, v0 := parts(func() any { // pointer form of v
		switch x := v.(type) {
		case abi.InMsgBody:
			return &x
		case abi.ExtOutMsgBody:
			return &x
		case abi.JettonPayload:
			return &x
		case abi.NFTPayload:
			return &x
		}
		return nil
	}())
	s1, o1, v1 := parts(w)
	if s0 != s1 {
		return "FAIL roundtrip sumtype got=" + s1 + " want=" + s0
	}
	if (o0 == nil) != (o1 == nil) || (o0 != nil && *o0 != *o1) {
		return "FAIL roundtrip opcode"
	}
	switch a[1] {
	case "empty":
		if v1 != nil {
			return "FAIL roundtrip empty-value"
		}
	case "unknown":
		c0, c1 := v0.(*boc.Cell), v1.(*boc.Cell)
		if h.Canon([]*boc.Cell{c0}) != h.Canon([]*boc.Cell{c1}) {
			return "FAIL roundtrip cell"
		}
	case "known":
		// composite records are compared through their JSON form (struct-level JSON is not claimed)
		if reflect.TypeOf(v0) != reflect.TypeOf(v1) {
			return fmt.Sprintf("FAIL roundtrip value-type got=%T want=%T", v1, v0)
		}
		b2, err := json.Marshal(w)
		if err != nil || !bytes.Equal(b, b2) {
			return "FAIL roundtrip known-remarshal"
		}
	}
	return "ok"
}

// ------------------------------------------------------------------------------------------------------- generator

// c20CheckRegistry: every non-generic tlb type with both JSON methods must be in the committed registry, the generic
// ones must be the known list; other packages: the hand-listed types must still have both methods.
func c20CheckRegistry() {
	repo := os.Getenv("VERIF_REPO")
	if repo == "" {
		repo = "/repo"
	}
	fset := token.NewFileSet()
	pkgs, err := parser.ParseDir(fset, filepath.Join(repo, "tlb"), func(fi os.FileInfo) bool {
		return !strings.HasSuffix(fi.Name(), "_test.go")
	}, 0)
	if err != nil {
		h.Fatalf("c20: cannot parse %s/tlb: %v", repo, err)
	}
	m, u, gen := map[string]bool{}, map[string]bool{}, map[string]bool{}
	for _, p := range pkgs {
		for _, f := range p.Files {
			for _, d := range f.Decls {
				fd, ok := d.(*ast.FuncDecl)
				if !ok || fd.Recv == nil || len(fd.Recv.List) != 1 {
					continue
				}
				rt := fd.Recv.List[0].Type
				if st, ok := rt.(*ast.StarExpr); ok {
					rt = st.X
				}
				name := ""
				switch t := rt.(type) {
				case *ast.Ident:
					name = t.Name
				case *ast.IndexExpr:
					name = t.X.(*ast.Ident).Name
					gen[name] = true
				case *ast.IndexListExpr:
					name = t.X.(*ast.Ident).Name
					gen[name] = true
				}
				if fd.Name.Name == "MarshalJSON" {
					m[name] = true
				}
				if fd.Name.Name == "UnmarshalJSON" {
					u[name] = true
				}
			}
		}
	}
	var missing []string
	n := 0
	for name := range m {
		if !u[name] || !ast.IsExported(name) {
			continue
		}
		n++
		if gen[name] {
			if name != "Maybe" {
				missing = append(missing, name+"[…]")
			}
			continue
		}
		if _, ok := c20TlbTypes[name]; !ok {
			missing = append(missing, name)
		}
	}
	if len(missing) > 0 || n == 0 {
		sort.Strings(missing)
		h.Fatalf("c20: tlb types with MarshalJSON+UnmarshalJSON missing from harness/cmd/vh/c20_types_gen.go (regenerate with `extract JsonTypesGo`): %v", missing)
	}
	// every registered generated type must be reachable through a codec
	for name, t := range c20TlbTypes {
		switch name {
		case "Any", "Grams", "Magic", "MsgAddress", "SignedCoins":
			continue
		}
		found := false
		for _, mm := range []map[int]reflect.Type{c20Uint, c20Int, c20Bits} {
			for _, x := range mm {
				if x == t {
					found = true
				}
			}
		}
		if c20Big[name] == t {
			found = true
		}
		if !found {
			h.Fatalf("c20: registered type %s is not covered by any codec", name)
		}
	}
}

type c20Gen struct {
	g *h.G
}

func (c *c20Gen) bin(n int) string {
	if n == 0 {
		return "-"
	}
	b := make([]byte, n)
	mode := c.g.Rng.Intn(5)
	for i := range b {
		switch mode {
		case 0:
			b[i] = '0'
		case 1:
			b[i] = '1'
		default:
			b[i] = '0' + byte(c.g.Rng.Intn(2))
		}
	}
	return string(b)
}

func (c *c20Gen) bitLen() int {
	g := c.g
	switch g.Rng.Intn(8) {
	case 0:
		return g.Pick(0, 1, 2, 3, 4, 5, 7, 8, 9)
	case 1:
		return g.Pick(252, 253, 254, 255, 256, 257, 258, 259, 260)
	case 2:
		return g.Pick(508, 509, 510, 511, 512, 1020, 1021, 1022, 1023)
	default:
		return g.RandBitLen(1023)
	}
}

func (c *c20Gen) anycast() string {
	g := c.g
	switch g.Rng.Intn(5) {
	case 0, 1:
		return "-"
	case 2:
		return fmt.Sprintf("%d,%d", g.Pick(0, 1, 30, 31, 4294967295), g.Pick(0, 1, 1073741823, 4294967295))
	default:
		d := 1 + g.Rng.Intn(30)
		return fmt.Sprintf("%d,%d", d, g.Rng.Int63()&(1<<uint(d)-1))
	}
}

// addr returns an address token; lookalike reports the excluded case (addr_var of 256 bits in an 8-bit workchain).
func (c *c20Gen) addr(i int) (tok string, lookalike bool) {
	g := c.g
	switch g.Rng.Intn(8) {
	case 0:
		g.Count("addr_none")
		return "none", false
	case 1, 2:
		n := c.bitLen()
		g.Count("addr_extern")
		if n == 0 {
			g.Count("addr_extern_len0")
		}
		return "ext/" + c.bin(n), false
	case 3, 4:
		g.Count("addr_std")
		wc := i%256 - 128 // every workchain -128..127 in turn
		return fmt.Sprintf("std/%s/%d/%x", c.anycast(), wc, g.RandData(256)), false
	default:
		n := c.bitLen()
		var wc int64
		switch g.Rng.Intn(4) {
		case 0:
			wc = int64(i%256 - 128)
		case 1:
			wc = int64(g.Pick(-2147483648, -32769, -32768, -129, -128, 127, 128, 255, 256, 32767, 65536, 2147483647))
		default:
			wc = int64(int32(g.Rng.Uint32()))
		}
		if g.Rng.Intn(6) == 0 {
			n = 256
		}
		la := n == 256 && wc >= -128 && wc <= 127
		g.Count("addr_var")
		if la {
			g.Count("addr_var_lookalike_excluded")
		}
		return fmt.Sprintf("var/%s/%d/%s", c.anycast(), wc, c.bin(n)), la
	}
}

// mutations of a document: the malformed stream
func (c *c20Gen) mutate(doc []byte, ascii bool) [][]byte {
	g := c.g
	var out [][]byte
	add := func(b []byte) { out = append(out, append([]byte{}, b...)) }
	cat := func(xs ...[]byte) []byte { return bytes.Join(xs, nil) }
	inner := bytes.Trim(doc, `"`)
	quoted := len(doc) >= 2 && doc[0] == '"'
	q := []byte(`"`)
	// quoting
	if quoted {
		add(inner)
		add(doc[1:])
		add(doc[:len(doc)-1])
		add(cat(q, doc, q))
	} else {
		add(cat(q, doc, q))
		add(cat(q, doc))
	}
	wrap := func(b []byte) []byte {
		if quoted {
			return cat(q, b, q)
		}
		return b
	}
	// signs, spaces, leading zeros, exponents, underscores
	for _, pre := range []string{"+", "-", " ", "0", "00", "0x", "\n", "\t", "--", "+-"} {
		add(wrap(cat([]byte(pre), inner)))
	}
	for _, suf := range []string{" ", "e1", "E+2", ".0", "_", "0", "\n", "x", ":", ")", ":Anycast(1,1)", "_", "8_", "0_"} {
		add(wrap(cat(inner, []byte(suf))))
	}
	add(cat([]byte(" "), doc, []byte(" ")))
	add(cat(doc, []byte("x")))
	if len(inner) > 1 {
		k := 1 + g.Rng.Intn(len(inner)-1)
		add(wrap(cat(inner[:k], []byte("_"), inner[k:])))
		add(wrap(cat(inner[:k], []byte(" "), inner[k:])))
		add(wrap(cat(inner[:k], inner[k+1:])))            // delete one
		add(wrap(cat(inner[:k], inner[k-1:])))            // duplicate one
		add(wrap(cat(inner[:k], []byte("g"), inner[k:]))) // non-hex
		add(wrap(inner[:k]))                              // truncate
		add(wrap(inner[k:]))
		add(doc[:1+g.Rng.Intn(len(doc)-1)]) // truncated document
	}
	// overlong numbers and boundary values
	for _, s := range []string{"18446744073709551615", "18446744073709551616", "18446744073709551620", "9223372036854775807",
		"9223372036854775808", "-9223372036854775808", "-9223372036854775809", "184467440737095516150",
		"1000000000000000000000000000000", "-1", "-0", "+0", "255", "256", "128", "-129", "4294967296"} {
		add(wrap([]byte(s)))
	}
	add(wrap(cat(inner, []byte(strconv.Itoa(g.Rng.Intn(1000))))))
	// other JSON types and non-documents
	for _, s := range []string{"null", "true", "false", "{}", "[]", "[1]", `{"a":1}`, "1.5", "1e3", `""`, `" "`, "", `"`, `"1"`,
		`"\"`, `"\\"`, `"0x"`, `"0x0x1"`, `"0X1f"`, `":"`, `"::"`, `":::"`, `"1:"`, `":1"`, `"0:_"`, `"_"`, `"x_"`, `null `, ` null`,
		`"1:2:Anycast()"`, `"1:2:Anycast("`, `"1:2:Anycast(1)"`, `"1:2:Anycast(1,)"`, `"1:2:Anycast(,1)"`, `"1:2:Anycast( 1, 2)"`,
		`"1:2:Anycast(1,2,3)"`, `"1:2:Anycast(1 ,2)"`, `"1:2:Anycast(4294967296,1)"`, `"1:2:Anycast(1_0,1)"`, `"1:2:Anycast(-1,1)"`,
		`"1:2:Anycast(+1,1)"`, `"1:2:anycast(1,1)"`, `"1:2:Anycast(1,1)x"`, `"1:2:Anycast(1,1x)"`, `"1:2:Anycast(1,1))"`} {
		add([]byte(s))
	}
	// rune-wise parsers: non-ASCII spaces where fmt skips them, runes whose low byte is a hex digit
	if !ascii {
		for _, s := range []string{"\"\xc2\xa0" + string(inner) + "\"", "\"\xe2\x80\x83" + string(inner) + "\"", "\"\xc5\x81\"", "\"\xc5\x81_\"",
			"\"\xc4\xb0\xc4\xb1\"", "\"0:\xc5\x81\"", "\"1:2:Anycast(\xc2\xa01,\xe3\x80\x802)\"", "\"1:2:Anycast(1,\xc2\x852)\"",
			"\"1:2:Anycast(1\xc2\xa0,2)\"", "\"\xc5\x81\xc5\x81C_\""} {
			add([]byte(s))
		}
	}
	// random byte replacement
	alpha := []byte("\"0123456789abcdefABCDEFgxX_:-+ ,().nul{}[]\\\n\t\r/e")
	for k := 0; k < 4 && len(doc) > 0; k++ {
		b := append([]byte{}, doc...)
		b[g.Rng.Intn(len(b))] = alpha[g.Rng.Intn(len(alpha))]
		add(b)
	}
	if !ascii && len(doc) > 0 {
		for _, s := range []string{"\x80", "\xff", "\xc2\xa0", "\xc5\x81", "\xe2\x80\xa8", "\x00", "\xe2\x80\x83", "\xe3\x80\x80",
			"\xed\xa0\x80", "\xf0\x9f\x98\x80", "\xc0\xaf", "\xe0\x80\x80", "\xc2\x85", "\xe1\x9a\x80", "\xf4\x90\x80\x80", "\xc5"} {
			k := g.Rng.Intn(len(doc) + 1)
			add(cat(doc[:k], []byte(s), doc[k:]))
		}
	}
	return out
}

func genC20(g *h.G) {
	c20CheckRegistry()
	c := &c20Gen{g: g}
	reps := g.Scale(1, 20)
	allDocs := map[string]struct{}{}

	// emit: value ops + mutated documents for one value. toks = family tokens + value tokens; ttoks = type tokens.
	prev := map[string][]string{}
	emit := func(ttoks []string, vtoks []string, opts struct{ model, rt, ascii, noPrint bool }) {
		full := append(append([]string{}, ttoks...), vtoks...)
		if opts.model && !opts.noPrint {
			g.Emit("json.print", full...)
		}
		if opts.rt {
			g.Emit("go.json.rt", full...)
			// destination reuse: the previous value of the same type, then this one, into ONE variable — and back
			tk := strings.Join(ttoks, " ")
			if pv, ok := prev[tk]; ok && strings.Join(pv, " ") != strings.Join(vtoks, " ") {
				hd := []string{fmt.Sprint(len(ttoks))}
				g.Count("reuse_pair")
				g.Emit("go.json.reuse", append(append(append(append(hd, fmt.Sprint(len(pv))), ttoks...), pv...), vtoks...)...)
				g.Emit("go.json.reuse", append(append(append(append(hd, fmt.Sprint(len(vtoks))), ttoks...), vtoks...), pv...)...)
			}
			prev[tk] = vtoks
		}
		g.NonTrivial(strings.Join(full, " "))
		// the real document, to derive mutations from
		r := c20Resolve(full, true)
		doc, err := json.Marshal(r.value().Interface())
		if err != nil {
			return
		}
		docs := [][]byte{doc}
		if g.Rng.Intn(g.Scale(6, 3)) == 0 {
			docs = append(docs, c.mutate(doc, opts.ascii)...)
		}
		for _, d := range docs {
			hx := h.Hex(d)
			ascii := true
			for _, b := range d {
				if b >= 0x80 {
					ascii = false
				}
			}
			g.Count("doc_class_" + docClass(d))
			if opts.model && (ascii || !opts.ascii) {
				g.Emit("json.parse", append(append([]string{}, ttoks...), hx)...)
			}
			g.Emit("go.json.mal", append(append([]string{}, ttoks...), hx)...)
			if _, ok := allDocs[hx]; !ok && len(d) < 400 {
				allDocs[hx] = struct{}{}
				g.Emit("json.valid", hx)
			}
		}
	}
	type o = struct{ model, rt, ascii, noPrint bool }
	full := o{true, true, false, false}
	asciiOnly := o{true, true, false, false} // rune-wise families: since the UTF-8 model, compared on all bytes too

	for rep := 0; rep < reps; rep++ {
		// generated machine integers: every width, boundaries and random values
		for bits := 1; bits <= 64; bits++ {
			max := ^uint64(0) >> uint(64-bits)
			vals := []uint64{0, 1, max, max - 1, max / 2, max/2 + 1, g.Rng.Uint64() & max, g.Rng.Uint64() & max}
			for _, v := range vals {
				g.Count("uint_width")
				emit([]string{"uint", fmt.Sprint(bits)}, []string{fmt.Sprint(v)}, full)
			}
			lo := -int64(1) << uint(bits-1)
			hi := int64(max >> 1)
			iv := []int64{0, hi, lo, -1, hi - 1, lo + 1, int64(g.Rng.Uint64()&max) + lo, int64(g.Rng.Uint64()&max) + lo}
			if bits == 1 {
				iv = []int64{0, -1}
			}
			for _, v := range iv {
				g.Count("int_width")
				if v < 0 {
					g.Count("int_negative")
				}
				emit([]string{"int", fmt.Sprint(bits)}, []string{fmt.Sprint(v)}, full)
			}
		}
		// big integers
		var bigNames []string
		for n := range c20Big {
			bigNames = append(bigNames, n)
		}
		sort.Strings(bigNames)
		for _, n := range bigNames {
			w := 0
			signed := strings.HasPrefix(n, "Int")
			if strings.HasPrefix(n, "VarUInteger") {
				k, _ := strconv.Atoi(n[len("VarUInteger"):])
				w = 8 * (k - 1)
			} else {
				w, _ = strconv.Atoi(strings.TrimLeft(n, "UInt"))
			}
			one := big.NewInt(1)
			var vals []*big.Int
			vals = append(vals, big.NewInt(0))
			if w > 0 {
				mx := new(big.Int).Lsh(one, uint(w))
				if signed {
					mx = new(big.Int).Lsh(one, uint(w-1))
					vals = append(vals, big.NewInt(-1), new(big.Int).Neg(mx), new(big.Int).Neg(new(big.Int).Rsh(mx, 1)))
				}
				vals = append(vals, one, new(big.Int).Sub(mx, one))
				r := new(big.Int).SetBytes(g.Bytes((w + 7) / 8))
				r.Mod(r, mx)
				vals = append(vals, r)
				if signed {
					vals = append(vals, new(big.Int).Neg(r))
				}
			}
			for _, v := range vals {
				g.Count("big")
				emit([]string{"big", n}, []string{v.String()}, full)
			}
		}
		// byte arrays
		var lens []int
		for n := range c20Bits {
			lens = append(lens, n)
		}
		sort.Ints(lens)
		for _, n := range lens {
			for k := 0; k < 4; k++ {
				g.Count("bitsN")
				emit([]string{"bits", fmt.Sprint(n)}, []string{h.Hex(g.RandData(8 * n))}, full)
			}
		}
		for k := 0; k < 6; k++ {
			g.Count("bits256_scan")
			emit([]string{"h256"}, []string{h.Hex(g.RandData(256))}, asciiOnly)
			g.Count("int256")
			emit([]string{"i256"}, []string{h.Hex(g.RandData(256))}, full)
		}
		// coins, magic
		for k := 0; k < 30; k++ {
			g.Count("grams")
			emit([]string{"grams"}, []string{fmt.Sprint(g.U64())}, full)
			v := int64(g.U64())
			if k%3 == 0 {
				v = -int64(g.U64() >> 1)
			}
			if k == 0 {
				v = -9223372036854775808
			}
			if k == 1 {
				v = -1
			}
			g.Count("signedcoins")
			if v < 0 {
				g.Count("signedcoins_negative")
			}
			emit([]string{"scoins"}, []string{fmt.Sprint(v)}, full)
			g.Count("magic")
			emit([]string{"magic"}, []string{fmt.Sprint(uint32(g.U64()))}, full)
		}
	}
	// address boundaries on EVERY run: standard addresses at the edges of the 8-bit workchain, variable addresses just
	// outside it and at the edges of int32, each with and without anycast, 256-bit and other lengths
	for _, any := range []string{"-", "1,1", "30,1073741823"} {
		for _, wc := range []int{-128, -127, -1, 0, 1, 126, 127} {
			for k := 0; k < 2; k++ {
				g.Count("addr_std_boundary")
				emit([]string{"addr"}, []string{fmt.Sprintf("std/%s/%d/%x", any, wc, g.RandData(256))}, asciiOnly)
			}
			// variable addresses inside the 8-bit range that are NOT look-alikes (length ≠ 256)
			g.Count("addr_var_boundary")
			emit([]string{"addr"}, []string{fmt.Sprintf("var/%s/%d/%s", any, wc, c.bin(g.Pick(0, 1, 255, 257, 260)))}, asciiOnly)
		}
		for _, wc := range []int64{-129, 128, -2147483648, -2147483647, 2147483646, 2147483647, -32768, 32767, 255, 256} {
			for _, bl := range []int{256, 255, 8} {
				g.Count("addr_var_boundary")
				emit([]string{"addr"}, []string{fmt.Sprintf("var/%s/%d/%s", any, wc, c.bin(bl))}, asciiOnly)
			}
		}
	}
	// bit strings, addresses, optionals
	n := g.Scale(500, 12000)
	for i := 0; i < n; i++ {
		bl := c.bitLen()
		g.Count(fmt.Sprintf("bitstr_mod4_%d", bl%4))
		if bl == 0 || bl == 1023 {
			g.Count(fmt.Sprintf("bitstr_len_%d", bl))
		}
		emit([]string{"bitstr"}, []string{c.bin(bl)}, asciiOnly)
		a, la := c.addr(i)
		emit([]string{"addr"}, []string{a}, o{true, !la, false, false})
		a2, la2 := c.addr(i + 7)
		switch g.Rng.Intn(8) {
		case 0:
			emit([]string{"maybe", "addr"}, []string{"some", a2}, o{true, !la2, false, false})
		case 1:
			emit([]string{"maybe", "addr"}, []string{"none"}, asciiOnly)
		case 2:
			emit([]string{"maybe", "uint", "32"}, []string{"some", fmt.Sprint(uint32(g.U64()))}, full)
			emit([]string{"maybe", "uint", "32"}, []string{"none"}, full)
		case 3:
			emit([]string{"maybe", "int", "64"}, []string{"some", fmt.Sprint(int64(g.U64()))}, full)
			emit([]string{"maybe", "uint", "5"}, []string{"some", fmt.Sprint(g.Rng.Intn(32))}, full)
		case 4:
			emit([]string{"maybe", "grams"}, []string{"some", fmt.Sprint(g.U64())}, full)
			emit([]string{"maybe", "uint", "64"}, []string{"some", fmt.Sprint(g.U64())}, full)
		case 5:
			emit([]string{"maybe", "bits", "32"}, []string{"some", h.Hex(g.RandData(256))}, full)
			emit([]string{"maybe", "bits", "32"}, []string{"none"}, full)
		case 7:
			// a composite record without JSON methods of its own inside Maybe (encoding/json's struct codec)
			g.Count("maybe_composite")
			emit([]string{"maybe", "anycast"}, []string{"some", fmt.Sprintf("%d,%d", uint32(g.U64()), uint32(g.U64()))}, full)
			emit([]string{"maybe", "anycast"}, []string{"none"}, full)
		case 6:
			emit([]string{"maybe", "big", "Uint256"}, []string{"some", new(big.Int).SetBytes(g.Bytes(32)).String()}, full)
			emit([]string{"maybe", "magic"}, []string{"some", fmt.Sprint(uint32(g.U64()))}, full)
		}
		g.Count("maybe")
	}
	// cells at the boundaries of the BOC header fields: exactly 255/256/257 distinct cells (one- vs two-byte references
	// and counters), 65535/65536/65537 in the thorough tier, chains of depth 1023 and 1024, 1023-bit and 4-ref cells
	sizes := []int{255, 256, 257}
	if g.Thorough() {
		sizes = append(sizes, 65535, 65536, 65537)
	}
	var bigTables [][]h.Row
	for _, n := range sizes {
		bigTables = append(bigTables, heapTable(g, n))
	}
	bigTables = append(bigTables, chainTable(255), chainTable(256), chainTable(257), chainTable(1024), chainTable(1025))
	for i, t := range bigTables {
		ts := h.TableString(t)
		g.Count(fmt.Sprintf("cell_boundary_%d_cells", len(t)))
		g.NonTrivial(fmt.Sprintf("boundary-cell-%d", i))
		g.Emit("go.json.rt", "cell", ts)
		g.Emit("go.json.rt", "anycell", ts)
		if len(t) <= 1024 {
			g.Emit("go.json.rt", "maybe", "anycell", "some", ts)
			g.Emit("go.json.rt", "inbody", "unknown", "7", ts)
			g.Emit("go.json.rt", "extout", "unknown", "-", ts)
		}
		if len(t) <= 300 {
			// small enough for the model of the BOC reader: the parse side is compared as well
			if d, err := json.Marshal(h.BuildCells(t)[0]); err == nil {
				g.Emit("json.parse", "cell", h.Hex(d))
			}
		}
	}
	// cells (BOC hex, owned by the boc slice: oracle only), account ids, message body envelopes
	nc := g.Scale(300, 6000)
	for i := 0; i < nc; i++ {
		t := g.RandOrdinaryTable(h.DagOpts{MaxCells: g.Pick(1, 2, 5, 20)})
		ts := h.TableString(t)
		g.Count(fmt.Sprintf("cell_cells_%d", len(t)/5*5))
		if len(t) > 1 {
			g.Count("cell_with_refs")
		}
		fam := "cell"
		if i%3 == 0 {
			fam = "anycell"
		}
		emit([]string{fam}, []string{ts}, o{true, true, false, true}) // parse side modelled through the BOC reader
		if i%5 == 0 {
			emit([]string{"maybe", "anycell"}, []string{"some", ts}, o{true, true, false, true})
		}
		wc := int64(int32(g.Rng.Uint32()))
		if i%2 == 0 {
			wc = int64(i%256 - 128)
		}
		g.Count("account_id")
		emit([]string{"acct"}, []string{fmt.Sprint(wc), h.Hex(g.RandData(256))}, o{false, true, false, false})
		op := "-"
		if i%2 == 1 {
			op = fmt.Sprint(uint32(g.U64()))
		}
		which := []string{"inbody", "extout"}[i%2]
		g.Count("body_unknown")
		g.Emit("go.json.rt", which, "unknown", op, ts)
		if i%40 == 0 {
			g.Emit("go.json.rt", which, "empty")
		}
		if i%8 == 0 {
			if cd, err := json.Marshal(h.BuildCells(t)[0]); err == nil {
				for _, d := range envelopeDocs(string(cd), "TextComment") {
					g.Count("envelope_doc")
					g.Emit("go.json.mal", which, h.Hex([]byte(d)))
					g.Emit("json.parse", "envelope", envDir[which], h.Hex([]byte(d)))
				}
			}
		}
		if i%4 == 0 {
			if d, err := json.Marshal(abi.InMsgBody{SumType: abi.UnknownMsgOp, Value: h.BuildCells(t)[0]}); err == nil {
				for _, m := range c.mutate(d, false) {
					g.Emit("go.json.mal", which, h.Hex(m))
					g.Emit("json.parse", "envelope", envDir[which], h.Hex(m))
				}
			}
		}
	}
	var known []string
	for k := range abi.KnownMsgInTypes {
		known = append(known, k)
	}
	sort.Strings(known)
	for i, k := range known {
		if g.Thorough() || i%4 == int(g.Seed%4) {
			g.Count("body_known")
			g.Emit("go.json.rt", "inbody", "known", k, fmt.Sprint(uint32(i)*2654435761))
		}
	}
	known = known[:0]
	for k := range abi.KnownMsgExtOutTypes {
		known = append(known, k)
	}
	sort.Strings(known)
	for _, k := range known {
		g.Count("body_known")
		g.Emit("go.json.rt", "extout", "known", k, "-")
	}
	genC20Envelopes(g, c)
}

// genC20Envelopes: deterministic part (every run, every seed): the four envelope types over every SumType (empty,
// cell with and without op code, every registered name), hand-made and mutated documents incl. malformed text INSIDE the
// Value of a registered body, destination reuse, cell documents with 0/2/3 roots.
func genC20Envelopes(g *h.G, c *c20Gen) {
	cells := [][]h.Row{
		{{Ty: 0, BitLen: 0}},
		{{Ty: 0, BitLen: 32, Data: []byte{0, 0, 0, 0}}},
		{{Ty: 0, BitLen: 9, Data: []byte{0xff, 0x80}, Refs: []int{1, 1}}, {Ty: 0, BitLen: 3, Data: []byte{0xa0}}},
		g.RandOrdinaryTable(h.DagOpts{MaxCells: 6}),
	}
	kinds := []string{"inbody", "extout", "jetton", "nft"}
	for ki, kn := range kinds {
		k := envKinds[kn]
		var names []string
		for n := range k.registry {
			names = append(names, n)
		}
		sort.Strings(names)
		g.Emit("go.json.rt", kn, "empty")
		var goodDocs []string
		for ci, t := range cells {
			ts := h.TableString(t)
			for _, op := range []string{"-", "0", "4294967295", fmt.Sprint(uint32(0x7362d09c) + uint32(ci))} {
				g.Count("envelope_unknown_" + kn)
				g.Emit("go.json.rt", kn, "unknown", op, ts)
			}
			cd, err := json.Marshal(h.BuildCells(t)[0])
			if err != nil {
				continue
			}
			if d, err := json.Marshal(k.mk(k.unknown, nil, h.BuildCells(t)[0])); err == nil {
				goodDocs = append(goodDocs, string(d))
			}
			x := uint32(ci + 1)
			if d, err := json.Marshal(k.mk(k.unknown, &x, h.BuildCells(t)[0])); err == nil {
				goodDocs = append(goodDocs, string(d))
			}
			kn0 := ""
			if len(names) > 0 {
				kn0 = names[(ci+ki)%len(names)]
			}
			for _, d := range envelopeDocsFor(k.unknown, string(cd), kn0) {
				g.Count("envelope_doc_" + kn)
				g.Emit("go.json.mal", kn, h.Hex([]byte(d)))
			}
		}
		goodDocs = append(goodDocs, `{}`, `{"SumType":""}`, `{"OpCode":4}`)
		for i, n := range names {
			g.Count("envelope_known_" + kn)
			g.Emit("go.json.rt", kn, "known", n, []string{"-", fmt.Sprint(uint32(i) * 2654435761)}[i%2])
			zero, err := json.Marshal(reflect.Zero(reflect.TypeOf(k.registry[n])).Interface())
			if err != nil {
				zero = []byte(`{}`)
			}
			for _, d := range innerMalformedDocs(n, string(zero)) {
				g.Count("envelope_inner_doc_" + kn)
				g.Emit("go.json.mal", kn, h.Hex([]byte(d)))
			}
			if d, err := json.Marshal(k.mk(n, nil, reflect.Zero(reflect.TypeOf(k.registry[n])).Interface())); err == nil {
				if len(goodDocs) < 24 || i%7 == int(g.Seed%7) {
					goodDocs = append(goodDocs, string(d))
				}
				// mutations of a named body: the malformed text lands inside Value as well
				if g.Thorough() || (i+ki)%5 == int(g.Seed%5) {
					for _, m := range c.mutate(d, false) {
						g.Emit("go.json.mal", kn, h.Hex(m))
					}
				}
			}
		}
		// destination reuse over the envelope: every ordered pair of a small set, then a chain over the rest
		for i := range goodDocs {
			for j := range goodDocs {
				if i != j && (i < 9 && j < 9 || j == (i+1)%len(goodDocs)) {
					g.Count("envelope_reuse")
					g.Emit("go.json.reuse.env", kn, h.Hex([]byte(goodDocs[i])), h.Hex([]byte(goodDocs[j])))
				}
			}
		}
	}
	bad, good := multiRootCellDocs(g)
	for _, fam := range []string{"cell", "anycell"} {
		for _, d := range append(append([][]byte{}, bad...), good...) {
			g.Count("cell_roots_doc")
			g.Emit("go.json.cellroots", fam, h.Hex(d))
			g.Emit("go.json.mal", fam, h.Hex(d))
			g.Emit("json.parse", fam, h.Hex(d))
		}
	}
	for _, kn := range kinds {
		k := envKinds[kn]
		for _, d := range bad {
			g.Emit("go.json.mal", kn, h.Hex([]byte(`{"SumType":"`+k.unknown+`","Value":`+string(d)+`}`)))
		}
	}
	// Maybe: a present value, then null, into one variable (and present after present, null after null)
	ts := h.TableString(cells[2])
	for _, m := range []struct {
		tt   []string
		a, b string
	}{
		{[]string{"maybe", "uint", "32"}, "7", "4294967295"}, {[]string{"maybe", "uint", "5"}, "31", "1"},
		{[]string{"maybe", "int", "64"}, "-9223372036854775808", "5"}, {[]string{"maybe", "uint", "64"}, "18446744073709551615", "2"},
		{[]string{"maybe", "grams"}, "1000000000", "3"}, {[]string{"maybe", "bits", "32"}, h.Hex(bytes.Repeat([]byte{0xab}, 32)), h.Hex(bytes.Repeat([]byte{1}, 32))},
		{[]string{"maybe", "big", "Uint256"}, "115792089237316195423570985008687907853269984665640564039457584007913129639935", "9"},
		{[]string{"maybe", "magic"}, "4294967295", "1"}, {[]string{"maybe", "anycast"}, "3,5", "30,4294967295"},
		{[]string{"maybe", "anycell"}, ts, h.TableString(cells[1])},
	} {
		hd := func(n int) []string { return append([]string{fmt.Sprint(len(m.tt)), fmt.Sprint(n)}, m.tt...) }
		g.Count("maybe_reuse")
		g.Emit("go.json.reuse", append(hd(2), "some", m.a, "none")...)
		g.Emit("go.json.reuse", append(hd(1), "none", "some", m.a)...)
		g.Emit("go.json.reuse", append(hd(2), "some", m.a, "some", m.b)...)
		g.Emit("go.json.reuse", append(hd(2), "some", m.b, "some", m.a)...)
	}
}

var envDir = map[string]string{"inbody": "in", "extout": "out"}

// envelopeDocs: hand-made documents for the message-body envelopes around one cell document `cell` (a JSON string)
func envelopeDocs(cell string, known string) []string { return envelopeDocsFor("Unknown", cell, known) }

// innerMalformedDocs: a REGISTERED body name around a malformed / missing / wrongly typed Value, and unregistered names
func innerMalformedDocs(known string, good string) []string {
	q := `{"SumType":"` + known + `",`
	return []string{
		q + `"Value":12}`, q + `"Value":"zzz"`, q + `"Value":[]`, q + `"Value":[` + good + `]}`, q + `"Value":true}`,
		q + `"Value":{"Text":12}}`, q + `"Value":{"QueryId":"x"}}`, q + `"Value":{"QueryId":-1}}`, q + `"Value":{"QueryId":1.5}}`,
		q + `"Value":{"Amount":{}}}`, q + `"Value":{"Amount":[1]}}`, q + `"Value":{"Destination":5}}`, q + `"Value":{"Destination":"zz"}}`,
		q + `"Value":{"NoSuchField":1}}`, q + `"Value":{}}`, q + `"Value":null}`, `{"SumType":"` + known + `"}`, q + `"OpCode":3}`,
		q + `"Value":` + good + `}`, q + `"OpCode":9,"Value":` + good + `}`, q + `"Value":` + good + `,"Value":5}`,
		q + `"Value":5,"Value":` + good + `}`, q + `"OpCode":"9","Value":` + good + `}`,
		`{"SumType":"NoSuchBodyType"}`, `{"SumType":"NoSuchBodyType","Value":` + good + `}`, `{"SumType":"NoSuchBodyType","Value":5}`,
		`{"SumType":"` + known + ` ","Value":` + good + `}`, `{"SumType":"` + strings.ToLower(known) + `x","Value":` + good + `}`,
	}
}

func envelopeDocsFor(unk string, cell string, known string) []string {
	ds := envelopeDocsUnknown(cell, known)
	if unk != "Unknown" {
		for i := range ds {
			ds[i] = strings.ReplaceAll(strings.ReplaceAll(ds[i], "Unknown", unk), "Unk\\u006eown", unk)
		}
		ds = append(ds, `{"SumType":"`+unk+`"}`, `{"SumType":"`+unk+`","OpCode":5}`, `{"SumType":"`+unk+`","Value":""}`,
			`{"SumType":"`+unk+`","Value":"`+"\""+`"}`, `{"SumType":"`+unk+`","Value":"0"}`, `{"SumType":"`+unk+`","Value":1}`,
			`{"SumType":"`+unk+`","OpCode":77,"Value":`+cell+`}`)
	}
	return ds
}

func envelopeDocsUnknown(cell string, known string) []string {
	return []string{
		`{}`, ` { } `, `null`, `[]`, `"x"`, `5`, `true`, `{"SumType":""}`, `{"SumType":"","OpCode":7}`, `{"OpCode":7}`,
		`{"SumType":"Unknown","Value":` + cell + `}`, `{"Value":` + cell + `,"SumType":"Unknown"}`,
		`{"sumtype":"Unknown","value":` + cell + `}`, `{"SUMTYPE":"Unknown","VALUE":` + cell + `,"OPCODE":1}`,
		"{\"\u017fumType\":\"Unknown\",\"Value\":" + cell + "}", "{\"\xc5\xbfumType\":\"Unknown\",\"Value\":" + cell + "}",
		`{"SumType":"Unk\u006eown","Value":` + cell + `}`, `{"Sum\u0054ype":"Unknown","Value":` + cell + `}`,
		`{"SumType":"Unknown"}`, `{"SumType":"Unknown","Value":null}`, `{"SumType":"Unknown","Value":5}`,
		`{"SumType":"Unknown","Value":{"a":` + cell + `}}`, `{"SumType":"Unknown","Value":[` + cell + `]}`,
		`{"SumType":"Unknown","Value":` + cell + `,"Value":null}`, `{"SumType":"Unknown","Value":null,"Value":` + cell + `}`,
		`{"SumType":"x","SumType":"Unknown","Value":` + cell + `}`, `{"SumType":"Unknown","SumType":null,"Value":` + cell + `}`,
		`{"SumType":null,"Value":` + cell + `}`, `{"SumType":5}`, `{"SumType":{}}`, `{"SumType":["Unknown"]}`, `{"SumType":true}`,
		`{"SumType":"Unknown","OpCode":0,"Value":` + cell + `}`, `{"SumType":"Unknown","OpCode":4294967295,"Value":` + cell + `}`,
		`{"SumType":"Unknown","OpCode":4294967296,"Value":` + cell + `}`, `{"SumType":"Unknown","OpCode":-1,"Value":` + cell + `}`,
		`{"SumType":"Unknown","OpCode":1.0,"Value":` + cell + `}`, `{"SumType":"Unknown","OpCode":1e2,"Value":` + cell + `}`,
		`{"SumType":"Unknown","OpCode":"5","Value":` + cell + `}`, `{"SumType":"Unknown","OpCode":null,"Value":` + cell + `}`,
		`{"SumType":"Unknown","OpCode":5,"OpCode":null,"Value":` + cell + `}`, `{"SumType":"Unknown","OpCode":null,"OpCode":6,"Value":` + cell + `}`,
		`{"SumType":"Unknown","OpCode":[1],"Value":` + cell + `}`, `{"SumType":"Unknown","OpCode":true,"Value":` + cell + `}`,
		`{"SumType":"Unknown","Other":{"SumType":"x","q":[1,2,{"Value":3}]},"Value":` + cell + `}`,
		`{ "SumType" : "Unknown" , "OpCode" : 12 , "Value" : ` + cell + ` }`, "{\n\t\"SumType\":\"Unknown\",\r\n\"Value\":" + cell + "\n}\n",
		`{"SumType":"NoSuchBodyType","Value":{}}`, `{"SumType":"` + known + `","OpCode":1,"Value":{}}`, `{"SumType":"` + known + `"}`,
		`{"SumType":"` + known + `","Value":null}`, `{"SumType":"unknown","Value":` + cell + `}`, `{"SumType":" Unknown","Value":` + cell + `}`,
		`{"SumType":"Unknown","Value":` + cell + `,}`, `{"SumType":"Unknown" "Value":` + cell + `}`, `{"SumType":"Unknown","Value":` + cell,
		`{"SumType":"Unknown","Value":` + cell + `}x`, `{SumType:"Unknown"}`, `{"SumType":"Unknown","Value":"zz"}`, `{"SumType":"Unknown","Value":""}`,
	}
}

func docClass(d []byte) string {
	switch {
	case len(d) == 0:
		return "empty"
	case !json.Valid(d):
		return "invalid_json"
	case d[0] == '"':
		return "string"
	case d[0] == '{' || d[0] == '[':
		return "composite"
	case d[0] == 'n' || d[0] == 't' || d[0] == 'f':
		return "literal"
	default:
		return "number"
	}
}

var _ = hex.EncodeToString
