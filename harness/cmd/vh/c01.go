//go:build c01

package main

import (
	"bytes"
	"crypto/sha256"
	"encoding/base64"
	"encoding/hex"
	"fmt"
	"os"
	osexec "os/exec"
	"path/filepath"
	"strings"

	"github.com/tonkeeper/tongo/boc"
	"verifharness/h"
)

func init() {
	h.Register(&h.Prop{ID: "C01", Gen: genC01, Exec: withBoc(map[string]h.ExecFn{
		"boc.emit":      exBocEmit,
		"go.writer":     goWriter,
		"boc.header":    exBocHeader,
		"boc.order":     exBocOrder,
		"boc.serialize": exBocSerialize,
		"go.reader":     goReader,
	})})
}

// ---------------------------------------------------------------------------------------------- the Lean model pipe

func modelPath() string {
	if p := os.Getenv("VERIF_MODEL"); p != "" {
		return p
	}
	exe, err := os.Executable()
	if err != nil {
		return "tongo_model"
	}
	return filepath.Join(filepath.Dir(exe), "..", "..", "lean", ".lake", "build", "bin", "tongo_model")
}

// modelBatch runs the compiled Lean model on the given lines and returns one answer per line.
func modelBatch(lines []string) ([]string, error) {
	cmd := osexec.Command(modelPath())
	cmd.Stdin = strings.NewReader(strings.Join(lines, "\n") + "\n")
	var out bytes.Buffer
	cmd.Stdout = &out
	if err := cmd.Run(); err != nil {
		return nil, err
	}
	res := strings.Split(strings.TrimRight(out.String(), "\n"), "\n")
	if len(res) != len(lines) {
		return nil, fmt.Errorf("model answered %d lines for %d", len(res), len(lines))
	}
	return res, nil
}

// ------------------------------------------------------------------------------------------------------- executors

func parseEmitParams(s string) h.EmitParams {
	f := strings.Split(s, ",")
	if len(f) != 9 {
		panic("bad emit params " + s)
	}
	var p h.EmitParams
	fmt.Sscan(f[0], &p.Magic)
	p.HasIdx, p.HasCrc, p.HasCache = f[1] == "1", f[2] == "1", f[3] == "1"
	fmt.Sscan(f[4], &p.Size)
	fmt.Sscan(f[5], &p.OffBytes)
	fmt.Sscan(f[6], &p.Absent)
	if f[7] != "-" {
		for _, c := range f[7] {
			p.CacheBits = append(p.CacheBits, c == '1')
		}
	}
	if f[8] != "-" {
		for _, x := range strings.Split(f[8], ".") {
			if x == "-" {
				p.Stored = append(p.Stored, nil)
			} else {
				p.Stored = append(p.Stored, h.MustUnHex(x))
			}
		}
	}
	return p
}

func parseRootsArg(s string) []int {
	if s == "-" {
		return nil
	}
	var r []int
	for _, x := range strings.Split(s, ".") {
		var v int
		fmt.Sscan(x, &v)
		r = append(r, v)
	}
	return r
}

// boc.emit <params> <table> <roots> -> hex.  Go side: the harness port of the reference writer (ties the port, which
// the generators use, to the Lean writer about which parse_emit is proved).
func exBocEmit(a []string) string {
	return h.Hex(h.EmitBoc(parseEmitParams(a[0]), h.ParseTable(a[1]), parseRootsArg(a[2])))
}

// go.reader <hex> <table> <roots>: the Go parser on a bag of cells written by another conforming implementation
// must return the intended cells (structure and hashes).
func goReader(a []string) string {
	bs := h.MustUnHex(a[0])
	t := h.ParseTable(a[1])
	roots := parseRootsArg(a[2])
	var got []*boc.Cell
	var err error
	if p, what := safely(func() { got, err = boc.DeserializeBoc(bs) }); p {
		return "FAIL reader-panic " + what
	}
	if err != nil {
		return "FAIL reader-rejects " + strings.Join(strings.Fields(err.Error()), "_")
	}
	if len(got) != len(roots) {
		return fmt.Sprintf("FAIL reader-roots %d_for_%d", len(got), len(roots))
	}
	if gi := h.WalkCells(got); gi.Cyclic || gi.NilRoot {
		return "FAIL reader-cycle"
	}
	if h.Canon(got) != h.CanonTable(t, roots) {
		return "FAIL reader-cells-differ"
	}
	// the same bag of cells carried as hex and as base64 (standard alphabet, padded)
	for _, form := range []struct {
		name string
		f    func() ([]*boc.Cell, error)
	}{
		{"hex", func() ([]*boc.Cell, error) { return boc.DeserializeBocHex(hex.EncodeToString(bs)) }},
		{"base64", func() ([]*boc.Cell, error) { return boc.DeserializeBocBase64(base64.StdEncoding.EncodeToString(bs)) }},
	} {
		var g2 []*boc.Cell
		var e2 error
		if p, what := safely(func() { g2, e2 = form.f() }); p {
			return "FAIL reader-panic " + form.name + "_" + what
		}
		if e2 != nil || len(g2) != len(roots) || h.Canon(g2) != h.Canon(got) {
			return "FAIL reader-string-form " + form.name
		}
	}
	cells := h.BuildCells(t)
	for i, r := range roots {
		h1, e1 := cells[r].Hash()
		h2, e2 := got[i].Hash()
		if (e1 == nil) != (e2 == nil) || !bytes.Equal(h1, h2) {
			return fmt.Sprintf("FAIL reader-hash root%d", i)
		}
	}
	return "ok"
}

// boc.header <table> -> "size,off" written by serializeBoc for each of the 8 option sets (exact tie of the model of
// the writer's width arithmetic, lean/TongoModel/BocWriter.lean)
func exBocHeader(a []string) string {
	root := h.BuildCells(h.ParseTable(a[0]))[0]
	var out []string
	for o := 0; o < 8; o++ {
		bs, err := root.ToBocCustom(o&4 != 0, o&2 != 0, o&1 != 0, 0)
		if err != nil || len(bs) < 6 {
			return "err"
		}
		out = append(out, fmt.Sprintf("%d,%d", bs[4]&7, bs[5]))
	}
	return strings.Join(out, " ")
}

// boc.order <table> -> canonical ids of the cells in the order Go stored them, read off Go's own bytes by the verified
// Lean reader (op boc.rows). Exact tie of the model of importCell / reorderCells / revisit.
func exBocOrder(a []string) string {
	root := h.BuildCells(h.ParseTable(a[0]))[0]
	bs, err := root.ToBoc()
	if err != nil {
		return "err"
	}
	ans, merr := modelBatch([]string{"boc.rows " + h.Hex(bs)})
	if merr != nil {
		return "model-unavailable"
	}
	return ans[0]
}

// boc.serialize <table> -> length.sha256[0:8] of Go's bytes for the 8 option sets (serializeBocModel byte for byte)
func exBocSerialize(a []string) string {
	root := h.BuildCells(h.ParseTable(a[0]))[0]
	out := []string{"ok"}
	for o := 0; o < 8; o++ {
		bs, err := root.ToBocCustom(o&4 != 0, o&2 != 0, o&1 != 0, 0)
		if err != nil {
			return "err"
		}
		sum := sha256.Sum256(bs)
		out = append(out, fmt.Sprintf("%d.%s", len(bs), hex.EncodeToString(sum[:8])))
	}
	return strings.Join(out, " ")
}

func tableDepth(t []h.Row) int {
	d := make([]int, len(t))
	for i := len(t) - 1; i >= 0; i-- {
		for _, c := range t[i].Refs {
			if d[c]+1 > d[i] {
				d[i] = d[c] + 1
			}
		}
	}
	if len(t) == 0 {
		return 0
	}
	return d[0]
}

// go.writer <table>: row 0 serialised by the real code with all 2³ option sets.
//   - determinism/canonicity: the same structure built with maximal pointer sharing, fully unshared, and serialised
//     with a fresh and with a reused Hasher gives byte-identical output;
//   - round trip on Go alone: DeserializeBoc(bytes) is structurally equal and hash-equal;
//   - the VERIFIED Lean reader as oracle: LeanParse(GoBytes) canonical == canonical input, cell count in the header ==
//     number of structurally distinct cells, flags/widths/index/CRC as the format prescribes (op boc.check).
func goWriter(a []string) string {
	t := h.ParseTable(a[0])
	cells := h.BuildCells(t)
	root := cells[0]
	want := h.Canon([]*boc.Cell{root})
	wantHash, hashErr := root.Hash()
	limit := 30000
	unshared := h.BuildCellsUnshared(t, 0, &limit)
	reused := boc.NewHasher()
	depth := tableDepth(t)
	var lines []string
	for o := 0; o < 8; o++ {
		if len(a) > 1 && !strings.Contains(a[1], fmt.Sprint(o)) {
			continue // big inputs in the quick tier: a subset of the option sets
		}
		idx, crc, cache := o&4 != 0, o&2 != 0, o&1 != 0
		var bs []byte
		var err error
		if p, what := safely(func() { bs, err = root.ToBocCustom(idx, crc, cache, 0) }); p {
			return fmt.Sprintf("FAIL writer-panic opts%d_%s", o, what)
		}
		if err != nil {
			if depth > 1024 && hashErr != nil {
				continue // ErrDepthIsTooBig is the specified answer beyond the depth limit
			}
			return fmt.Sprintf("FAIL writer-err opts%d_%s", o, strings.Join(strings.Fields(err.Error()), "_"))
		}
		if hashErr != nil {
			return fmt.Sprintf("FAIL writer-ok-but-hash-err opts%d", o)
		}
		// same structure, different pointer sharing / hasher state
		if unshared != nil {
			b2, err2 := unshared.ToBocCustom(idx, crc, cache, 0)
			if err2 != nil || !bytes.Equal(bs, b2) {
				return fmt.Sprintf("FAIL canonical unshared_build_differs_opts%d", o)
			}
		}
		b3, err3 := root.ToBocCustomWithHasher(reused, idx, crc, cache, 0)
		if err3 != nil || !bytes.Equal(bs, b3) {
			return fmt.Sprintf("FAIL canonical reused_hasher_differs_opts%d", o)
		}
		b4, err4 := boc.SerializeBoc(root, idx, crc, cache, 0)
		if err4 != nil || !bytes.Equal(bs, b4) {
			return fmt.Sprintf("FAIL canonical SerializeBoc_differs_opts%d", o)
		}
		if o == 0 || o == 7 {
			// the `flags` argument of boc.SerializeBoc: only the two reserved header bits change, the reader ignores them
			for fl := uint(1); fl <= 3; fl++ {
				bf, errf := boc.SerializeBoc(root, idx, crc, cache, fl)
				if errf != nil || len(bf) != len(bs) || bf[4] != bs[4]|byte(fl<<3) || !bytes.Equal(bf[:4], bs[:4]) {
					return fmt.Sprintf("FAIL flags opts%d_flags%d_header", o, fl)
				}
				end := len(bs)
				if crc {
					end -= 4
				}
				if !bytes.Equal(bf[5:end], bs[5:end]) {
					return fmt.Sprintf("FAIL flags opts%d_flags%d_body", o, fl)
				}
				cs, errp := boc.DeserializeBoc(bf)
				if errp != nil || len(cs) != 1 || h.Canon(cs) != want {
					return fmt.Sprintf("FAIL flags opts%d_flags%d_reparse", o, fl)
				}
			}
		}
		if o == 0 {
			b5, err5 := root.ToBoc()
			if err5 != nil || !bytes.Equal(bs, b5) {
				return "FAIL canonical ToBoc_differs"
			}
		}
		// round trip on Go alone
		var back []*boc.Cell
		if p, what := safely(func() { back, err = boc.DeserializeBoc(bs) }); p {
			return fmt.Sprintf("FAIL roundtrip-panic opts%d_%s", o, what)
		}
		if err != nil || len(back) != 1 {
			return fmt.Sprintf("FAIL roundtrip-rejected opts%d", o)
		}
		if h.Canon(back) != want {
			return fmt.Sprintf("FAIL roundtrip-differs opts%d", o)
		}
		if hb, e := back[0].Hash(); e != nil || !bytes.Equal(hb, wantHash) {
			return fmt.Sprintf("FAIL roundtrip-hash opts%d", o)
		}
		// every string form of the same bytes: hex and base64 (standard alphabet, padded) writers, and the hex / base64 /
		// single-root / Must… / JSON readers
		if msg := stringForms(root, bs, idx, crc, cache, o, want, wantHash); msg != "" {
			return fmt.Sprintf("FAIL string-form opts%d_%s", o, msg)
		}
		lines = append(lines, fmt.Sprintf("boc.check %s %s %s%s%s", h.Hex(bs), a[0], b01s(idx), b01s(crc), b01s(cache)))
	}
	if len(lines) == 0 {
		return "ok"
	}
	ans, err := modelBatch(lines)
	if err != nil {
		return "FAIL model-unavailable " + strings.Join(strings.Fields(err.Error()), "_")
	}
	for i, x := range ans {
		if x != "ok" {
			return fmt.Sprintf("FAIL lean-reader case%d_%s", i, strings.Join(strings.Fields(x), "_"))
		}
	}
	return "ok"
}

// stringForms: the string-valued writers must render exactly the bytes of ToBocCustom (lower-case hex; base64 with the
// standard alphabet and padding), and every string-valued reader must return the same cells.
func stringForms(root *boc.Cell, bs []byte, idx, crc, cache bool, o int, want string, wantHash []byte) string {
	hx := hex.EncodeToString(bs)
	b64 := base64.StdEncoding.EncodeToString(bs)
	if s, err := root.ToBocStringCustom(idx, crc, cache, 0); err != nil || s != hx {
		return "ToBocStringCustom"
	}
	if s, err := root.ToBocBase64Custom(idx, crc, cache, 0); err != nil || s != b64 {
		return "ToBocBase64Custom"
	}
	if o == 0 {
		if s, err := root.ToBocString(); err != nil || s != hx {
			return "ToBocString"
		}
		if s, err := root.ToBocBase64(); err != nil || s != b64 {
			return "ToBocBase64"
		}
		if js, err := root.MarshalJSON(); err != nil || string(js) != "\""+hx+"\"" {
			return "MarshalJSON"
		}
	}
	if o != 0 && o != 7 {
		return "" // the readers are exercised on two of the eight option sets (cost)
	}
	same := func(cs []*boc.Cell, err error) bool {
		if err != nil || len(cs) != 1 {
			return false
		}
		hb, e := cs[0].Hash()
		return e == nil && bytes.Equal(hb, wantHash) && h.Canon(cs) == want
	}
	one := func(c *boc.Cell, err error) bool { return err == nil && c != nil && same([]*boc.Cell{c}, nil) }
	var msg string
	if p, _ := safely(func() {
		switch {
		case !same(boc.DeserializeBocHex(hx)):
			msg = "DeserializeBocHex"
		case !same(boc.DeserializeBocHex(strings.ToUpper(hx))):
			msg = "DeserializeBocHex_upper"
		case !same(boc.DeserializeBocBase64(b64)):
			msg = "DeserializeBocBase64"
		case !one(boc.DeserializeSingleRootBoc(bs)):
			msg = "DeserializeSingleRootBoc"
		case !one(boc.DeserializeSinglRootHex(hx)):
			msg = "DeserializeSinglRootHex"
		case !one(boc.DeserializeSinglRootBase64(b64)):
			msg = "DeserializeSinglRootBase64"
		case !one(boc.MustDeserializeSinglRootHex(hx), nil):
			msg = "MustDeserializeSinglRootHex"
		case !one(boc.MustDeserializeSinglRootBase64(b64), nil):
			msg = "MustDeserializeSinglRootBase64"
		}
		if msg == "" {
			var c boc.Cell
			if err := c.UnmarshalJSON([]byte("\"" + hx + "\"")); err != nil || !one(&c, nil) {
				msg = "UnmarshalJSON"
			}
		}
	}); p {
		return "panic"
	}
	return msg
}

func b01s(b bool) string {
	if b {
		return "1"
	}
	return "0"
}

// ------------------------------------------------------------------------------------------------------- generator

func classify(g *h.G, t []h.Row) (nontrivial bool) {
	shared, unaligned, exotic := false, false, false
	indeg := make([]int, len(t))
	for _, r := range t {
		for _, c := range r.Refs {
			indeg[c]++
		}
		if r.BitLen%8 != 0 {
			unaligned = true
		}
		if r.Ty != 0 {
			exotic = true
		}
		switch {
		case r.BitLen == 0:
			g.Count("bits_0")
		case r.BitLen >= 1016:
			g.Count("bits_1016..1023")
		case r.BitLen%8 == 0:
			g.Count("bits_aligned")
		default:
			g.Count("bits_unaligned")
		}
		g.Count(fmt.Sprintf("refs_%d", len(r.Refs)))
		g.Count(fmt.Sprintf("type_%d", r.Ty))
	}
	for _, d := range indeg {
		if d > 1 {
			shared = true
		}
	}
	if shared {
		g.Count("dag_shared")
	} else {
		g.Count("dag_tree")
	}
	switch n := len(t); {
	case n == 1:
		g.Count("cells_1")
	case n < 10:
		g.Count("cells_2..9")
	case n < 100:
		g.Count("cells_10..99")
	case n < 1000:
		g.Count("cells_100..999")
	default:
		g.Count("cells_1000+")
	}
	return len(t) >= 2 && (shared || unaligned || exotic)
}

// wideTable: exactly n distinct cells in a 4-ary tree, every cell with distinct data.
func wideTable(n int) []h.Row {
	t := make([]h.Row, n)
	for i := 0; i < n; i++ {
		t[i] = h.Row{BitLen: 24, Data: []byte{byte(i >> 16), byte(i >> 8), byte(i)}}
		for k := 1; k <= 4; k++ {
			if c := 4*i + k; c < n {
				t[i].Refs = append(t[i].Refs, c)
			}
		}
	}
	return t
}

// totTable: a table whose serialised cell data is exactly `target` bytes (offset-width boundaries).
func totTable(g *h.G, target int) []h.Row {
	n := target/130 + 2
	t := wideTable(n)
	for i := range t {
		t[i].BitLen = 1023
		t[i].Data = g.RandData(1023)
		t[i].Data[0], t[i].Data[1], t[i].Data[2] = byte(i>>16), byte(i>>8), byte(i)
	}
	size := h.MinSize(n)
	tot := h.DataSize(size, t, nil)
	for i := n - 1; i >= 0 && tot > target; i-- {
		cut := tot - target
		if cut > 120 {
			cut = 120
		}
		nb := 128 - cut
		t[i].BitLen = 8 * nb
		t[i].Data = t[i].Data[:nb]
		tot -= cut
	}
	if tot != target {
		panic(fmt.Sprintf("totTable: %d != %d", tot, target))
	}
	return t
}

// the cases are buffered and emitted in a shuffled order so that the executor processes get balanced chunks
var pending [][]string

func queue(op string, args ...string) { pending = append(pending, append([]string{op}, args...)) }

func flushQueue(g *h.G) {
	g.Rng.Shuffle(len(pending), func(i, j int) { pending[i], pending[j] = pending[j], pending[i] })
	for _, l := range pending {
		g.Emit(l[0], l[1:]...)
	}
	pending = nil
}

func emitWriterCase(g *h.G, t []h.Row, tag string) {
	ts := h.TableString(t)
	g.Count("writer_" + tag)
	if classify(g, t) {
		g.NonTrivial(ts)
	}
	if len(t) > 2000 && !g.Thorough() {
		queue("go.writer", ts, "07")
	} else {
		queue("go.writer", ts)
	}
	if tableDepth(t) <= 1024 {
		queue("boc.header", ts)
	}
	queue("boc.order", ts)
	queue("boc.serialize", ts)
}

func emitReaderCase(g *h.G, t []h.Row, roots []int, p h.EmitParams) {
	bs := h.EmitBoc(p, t, roots)
	ts := h.TableString(t)
	rs := "-"
	if len(roots) > 0 {
		ss := make([]string, len(roots))
		for i, r := range roots {
			ss[i] = fmt.Sprint(r)
		}
		rs = strings.Join(ss, ".")
	}
	g.Count(fmt.Sprintf("reader_magic%d_idx%s_crc%s_cache%s", p.Magic, b01s(p.Idx()), b01s(p.Crc()), b01s(p.Cache())))
	g.Count(fmt.Sprintf("reader_size%d", p.Size))
	g.Count(fmt.Sprintf("reader_off%d", p.OffBytes))
	if len(roots) != 1 {
		g.Count("reader_multiroot")
	}
	if p.Stored != nil {
		g.Count("reader_with_hashes")
	}
	if classify(g, t) {
		g.NonTrivial(ts + rs + p.String())
	}
	queue("boc.emit", p.String(), ts, rs)
	queue("boc.parse", h.Hex(bs))
	queue("go.reader", h.Hex(bs), ts, rs)
}

func genC01(g *h.G) {
	genPrim(g, "prim.crc32c", "prim.sha256")
	shapes := []string{"rand", "rand", "rand", "chain", "diamond", "bintree", "wide"}

	// (iii) the Go writer, checked by Go round trip, determinism and the verified Lean reader
	nW := g.Scale(1200, 24000)
	for i := 0; i < nW; i++ {
		shape := shapes[g.Rng.Intn(len(shapes))]
		o := h.DagOpts{MaxCells: g.Pick(1, 2, 4, 8, 8, 30, 30, 120, 400), Exotic: g.Rng.Intn(3) == 0}
		if g.Rng.Intn(4) == 0 {
			o.MaxBits = 16
		}
		emitWriterCase(g, g.RandTable(o, shape), shape)
	}
	// depth limit: chains of 1024/1025 cells serialise, 1026/1027 cells answer ErrDepthIsTooBig
	for _, d := range []int{2, 1023, 1024, 1025, 1026, 1027} {
		emitWriterCase(g, g.RandTable(h.DagOpts{ChainDepth: d, MaxBits: 8, MaxCells: 1}, "chain"), "depth_boundary")
	}
	// reference-width boundaries (cell count) and offset-width boundaries (cell data size)
	counts := []int{255, 256, 257}
	if g.Thorough() {
		counts = append(counts, 65535, 65536, 65537)
	}
	for _, n := range counts {
		emitWriterCase(g, wideTable(n), "count_boundary")
	}
	for _, tot := range []int{127, 128, 129, 255, 256, 257, 32767, 32768, 32769, 65535, 65536, 65537} {
		emitWriterCase(g, totTable(g, tot), "offset_boundary")
	}
	// every bag of cells found in the repository under test
	for _, bs := range repoBocs() {
		g.Count("repo_boc")
		hx := h.Hex(bs)
		queue("boc.parse", hx)
		queue("go.parse", hx)
		cs, err := boc.DeserializeBoc(bs)
		if err != nil {
			continue
		}
		for _, c := range cs {
			canon := h.Canon([]*boc.Cell{c})
			emitWriterCase(g, h.ParseTable(strings.Fields(canon)[0]), "repo_boc")
		}
	}

	// (iv) the Go reader on the output of the Lean reference writer: random valid tables in random (non-canonical)
	// topological orders, random header variants, several roots
	nR := g.Scale(1500, 30000)
	for i := 0; i < nR; i++ {
		shape := shapes[g.Rng.Intn(len(shapes))]
		o := h.DagOpts{MaxCells: g.Pick(1, 2, 4, 8, 30, 120), Exotic: g.Rng.Intn(3) == 0}
		if g.Rng.Intn(4) == 0 {
			o.MaxBits = 16
		}
		t := g.RandTable(o, shape)
		roots := []int{0}
		// extra roots anywhere in the table (also the same cell twice)
		if g.Rng.Intn(3) == 0 {
			for k := g.Rng.Intn(4); k > 0; k-- {
				roots = append(roots, g.Rng.Intn(len(t)))
			}
		}
		pt, pos := g.Permute(t)
		proots := make([]int, len(roots))
		for k, r := range roots {
			proots[k] = pos[r]
		}
		if g.Rng.Intn(8) == 0 && len(roots) == 1 {
			pt, proots = t, roots // the idx-only magics need root = cell 0
		}
		p := g.RandEmitParams(pt, len(proots), proots[0] == 0)
		emitReaderCase(g, pt, proots, p)
	}
	if g.Thorough() {
		for _, n := range []int{255, 256, 257, 65535, 65536, 65537} {
			t := wideTable(n)
			emitReaderCase(g, t, []int{0}, g.RandEmitParams(t, 1, true))
		}
	}
	flushQueue(g)
}
