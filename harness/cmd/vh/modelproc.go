//go:build c11 || c12

package main

// Access to the compiled Lean model driver (lean/.lake/build/bin/tongo_model) from inside an executor: bytes observed
// at run time on a real socket (random nonces, ephemeral keys) cannot be known when the op lines are generated, so the
// executor hands the observed transcript to the model as op lines (one batch per scenario) and compares the answers
// itself. The driver only flushes at end of input, hence one process per batch.

import (
	"bytes"
	"fmt"
	"os"
	osexec "os/exec"
	"path/filepath"
	"strings"
)

func modelPath() string {
	if p := os.Getenv("VERIF_MODEL_BIN"); p != "" {
		return p
	}
	exe, err := os.Executable()
	if err == nil {
		// <verif>/harness/bin/vh_xxx  →  <verif>/lean/.lake/build/bin/tongo_model
		p := filepath.Join(filepath.Dir(exe), "..", "..", "lean", ".lake", "build", "bin", "tongo_model")
		if _, e := os.Stat(p); e == nil {
			return p
		}
	}
	return "/verif/lean/.lake/build/bin/tongo_model"
}

// modelBatch runs the given op lines through the model driver and returns one answer per line.
func modelBatch(lines []string) ([]string, error) {
	if len(lines) == 0 {
		return nil, nil
	}
	cmd := osexec.Command(modelPath())
	cmd.Stdin = strings.NewReader(strings.Join(lines, "\n") + "\n")
	var out, errb bytes.Buffer
	cmd.Stdout = &out
	cmd.Stderr = &errb
	if err := cmd.Run(); err != nil {
		return nil, fmt.Errorf("model driver: %v %s", err, firstLine(errb.String()))
	}
	ans := strings.Split(strings.TrimRight(out.String(), "\n"), "\n")
	if len(ans) != len(lines) {
		return nil, fmt.Errorf("model driver answered %d of %d lines %s", len(ans), len(lines), firstLine(errb.String()))
	}
	return ans, nil
}

func firstLine(s string) string {
	s = strings.TrimSpace(s)
	if i := strings.IndexByte(s, '\n'); i >= 0 {
		s = s[:i]
	}
	if len(s) > 200 {
		s = s[:200]
	}
	return s
}
