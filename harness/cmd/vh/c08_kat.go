//go:build c08

package main

// C08: VALUES of the get-method result decoders and of a few hand-written TL-B decoders against expectations computed
// by hand from the TVM / block.tlb conventions (not from the library): the totality oracles accept any value, so a
// decoder that returns the results in the wrong order, or reads a length with the wrong width, passes them.
//
// The VM stack is written bit by bit as block.tlb says — vm_stack#_ depth:(## 24) stack:(VmStackList depth);
// vm_stk_cons#_ rest:^(VmStackList n) tos:VmStackValue — with the LAST value a get-method returns on top (TVM pushes
// results left to right), decoded by the real VmStack decoder, then by the registered result decoder.

import (
	"bytes"
	"fmt"
	"math/big"

	"github.com/tonkeeper/tongo/abi"
	"github.com/tonkeeper/tongo/boc"
	"github.com/tonkeeper/tongo/tlb"
)

type stackWriter func(c *boc.Cell)

// katStack: vals in the order the get-method returns them (first result = bottom of the stack)
func katStack(vals ...stackWriter) *boc.Cell {
	top := boc.NewCell()
	_ = top.WriteUint(uint64(len(vals)), 24)
	cur := top
	for i := len(vals) - 1; i >= 0; i-- {
		rest := boc.NewCell()
		_ = cur.AddRef(rest)
		vals[i](cur)
		cur = rest
	}
	return top
}

func svTiny(v int64) stackWriter {
	return func(c *boc.Cell) { _ = c.WriteUint(1, 8); _ = c.WriteInt(v, 64) }
}

func svNull() stackWriter { return func(c *boc.Cell) { _ = c.WriteUint(0, 8) } }

func svBig(v *big.Int) stackWriter {
	return func(c *boc.Cell) { _ = c.WriteUint(0x0100, 15); _ = c.WriteBigInt(v, 257) }
}

func svCell(p *boc.Cell) stackWriter {
	return func(c *boc.Cell) { _ = c.WriteUint(3, 8); _ = c.AddRef(p) }
}

func svSlice(p *boc.Cell) stackWriter {
	return func(c *boc.Cell) {
		_ = c.WriteUint(4, 8)
		_ = c.AddRef(p)
		_ = c.WriteUint(0, 10)
		_ = c.WriteUint(uint64(p.BitSize()), 10)
		_ = c.WriteUint(0, 3)
		_ = c.WriteUint(uint64(p.RefsSize()), 3)
	}
}

func svTuple(entries ...stackWriter) stackWriter {
	return func(c *boc.Cell) {
		t := tupleCell(len(entries), func(i int) *boc.Cell { e := boc.NewCell(); entries[i](e); return e })
		_ = c.WriteBitString(t.RawBitString())
		for _, r := range t.Refs() {
			_ = c.AddRef(r)
		}
	}
}

// addr_std$10 anycast:nothing$0 workchain_id:int8 address:bits256
func katAddr(wc int8, fill byte) *boc.Cell {
	c := boc.NewCell()
	_ = c.WriteUint(0b100, 3)
	_ = c.WriteInt(int64(wc), 8)
	_ = c.WriteBytes(bytes.Repeat([]byte{fill}, 32))
	return c
}

func katData(v uint32) *boc.Cell {
	c := boc.NewCell()
	_ = c.WriteUint(uint64(v), 32)
	return c
}

func isAddr(a tlb.MsgAddress, wc int8, fill byte) bool {
	var want tlb.Bits256
	copy(want[:], bytes.Repeat([]byte{fill}, 32))
	return a.SumType == "AddrStd" && a.AddrStd.WorkchainId == wc && a.AddrStd.Address == want && !a.AddrStd.Anycast.Exists
}

func isData(a tlb.Any, v uint32) bool {
	c := boc.Cell(a)
	c.ResetCounters()
	x, err := c.ReadUint(32)
	return err == nil && uint32(x) == v && c.BitsAvailableForRead() == 0
}

func isBig(a tlb.Int257, s string) bool { x := big.Int(a); return x.String() == s }

type stackKAT struct {
	stack  func() *boc.Cell
	decode func(tlb.VmStack) (string, any, error)
	check  func(any) bool
}

var bigKey, _ = new(big.Int).SetString("8f2a6c1d0e4b7a3952c8d1f0a9b8c7d6e5f4a3b2c1d0e9f8a7b6c5d4e3f2a1b0", 16)

var stackKATs = map[string]stackKAT{
	// seqno() -> int
	"seqno": {
		func() *boc.Cell { return katStack(svTiny(0x1234)) },
		abi.DecodeSeqnoResult,
		func(r any) bool { v, ok := r.(abi.SeqnoResult); return ok && v.State == 0x1234 },
	},
	// get_wallet_data() -> (int balance, slice owner, slice jetton, cell jetton_wallet_code)
	"get_wallet_data": {
		func() *boc.Cell {
			return katStack(svTiny(1000000007), svSlice(katAddr(0, 0x11)), svSlice(katAddr(-1, 0x22)), svCell(katData(0xdeadbeef)))
		},
		abi.DecodeGetWalletDataResult,
		func(r any) bool {
			v, ok := r.(abi.GetWalletDataResult)
			return ok && isBig(v.Balance, "1000000007") && isAddr(v.Owner, 0, 0x11) && isAddr(v.Jetton, -1, 0x22) && isData(v.JettonWalletCode, 0xdeadbeef)
		},
	},
	// get_nft_data() -> (int init?, int index, slice collection_address, slice owner_address, cell individual_content)
	"get_nft_data": {
		func() *boc.Cell {
			return katStack(svTiny(-1), svTiny(7), svSlice(katAddr(0, 0xaa)), svSlice(katAddr(0, 0xbb)), svCell(katData(0x01020304)))
		},
		abi.DecodeGetNftDataResult,
		func(r any) bool {
			v, ok := r.(abi.GetNftDataResult)
			return ok && v.Init && isBig(v.Index, "7") && isAddr(v.CollectionAddress, 0, 0xaa) && isAddr(v.OwnerAddress, 0, 0xbb) && isData(v.IndividualContent, 0x01020304)
		},
	},
	// get_jetton_data() -> (int total_supply, int mintable, slice admin_address, cell jetton_content, cell jetton_wallet_code)
	"get_jetton_data": {
		func() *boc.Cell {
			return katStack(svBig(new(big.Int).Lsh(big.NewInt(5), 100)), svTiny(0), svSlice(katAddr(-1, 0x33)), svCell(katData(0xc0ffee01)), svCell(katData(0xc0de0002)))
		},
		abi.DecodeGetJettonDataResult,
		func(r any) bool {
			v, ok := r.(abi.GetJettonDataResult)
			return ok && isBig(v.TotalSupply, new(big.Int).Lsh(big.NewInt(5), 100).String()) && !v.Mintable && isAddr(v.AdminAddress, -1, 0x33) && isData(v.JettonContent, 0xc0ffee01) && isData(v.JettonWalletCode, 0xc0de0002)
		},
	},
	// get_wallet_params() -> (int seqno, int subwallet, int public_key)
	"get_wallet_params": {
		func() *boc.Cell { return katStack(svTiny(3), svTiny(698983191), svBig(bigKey)) },
		abi.DecodeGetWalletParamsResult,
		func(r any) bool {
			v, ok := r.(abi.GetWalletParamsResult)
			return ok && v.Seqno == 3 && v.Subwallet == 698983191 && isBig(v.PublicKey, bigKey.String())
		},
	},
	// get_plugin_list() -> a FunC list (cons cells: 2-tuples ending in null) of (int wc, int addr_hash) pairs
	"get_plugin_list": {
		func() *boc.Cell {
			return katStack(svTuple(svTuple(svTiny(0), svBig(bigKey)), svTuple(svTuple(svTiny(-1), svBig(big.NewInt(0x77))), svNull())))
		},
		abi.DecodeGetPluginListResult,
		func(r any) bool {
			v, ok := r.(abi.GetPluginListResult)
			if !ok || len(v.Plugins) != 2 {
				return false
			}
			var k0, k1 tlb.Bits256
			bigKey.FillBytes(k0[:])
			k1[31] = 0x77
			return v.Plugins[0].Workchain == 0 && v.Plugins[0].Address == k0 && v.Plugins[1].Workchain == -1 && v.Plugins[1].Address == k1
		},
	},
}

// go.abi.stackval <case>
func goABIStackVal(a []string) (res string) {
	defer func() {
		if r := recover(); r != nil {
			res = fmt.Sprintf("FAIL panic %v", r)
		}
	}()
	k, ok := stackKATs[a[0]]
	if !ok {
		return "bad-op"
	}
	c := k.stack()
	hx, _ := c.ToBocString()
	var st tlb.VmStack
	if err := tlb.Unmarshal(c, &st); err != nil {
		return "FAIL value: the hand-built stack of " + a[0] + " does not decode: " + noSpaces(err.Error()) + " boc=" + hx
	}
	_, r, err := k.decode(st)
	if err != nil {
		return "FAIL value: result decoder of " + a[0] + " rejects the stack: " + noSpaces(err.Error()) + " boc=" + hx
	}
	if !k.check(r) {
		return fmt.Sprintf("FAIL value: %s decoded as %s, not the values written boc=%s", a[0], noSpaces(fmt.Sprintf("%+v", r)), hx)
	}
	// and through the registry the library itself uses
	found := false
	for _, f := range abi.KnownGetMethodsDecoder[a[0]] {
		if _, r2, err := f(st); err == nil && k.check(r2) {
			found = true
		}
	}
	if !found {
		return "FAIL value: no decoder registered for " + a[0] + " in abi.KnownGetMethodsDecoder returns the values written boc=" + hx
	}
	return "ok"
}

func noSpaces(s string) string {
	if len(s) > 300 {
		s = s[:300]
	}
	return string(bytes.ReplaceAll([]byte(s), []byte(" "), []byte("_")))
}

// ---- hand-written TL-B decoders, values

// go.tlb.kat <case>
func goTLBKat(a []string) (res string) {
	defer func() {
		if r := recover(); r != nil {
			res = fmt.Sprintf("FAIL panic %v", r)
		}
	}()
	switch a[0] {
	case "dnstext":
		// text$_ chunks:(## 8) rest:(TextChunks chunks); text_chunk$_ len:(## 8) data:(bits (len * 8)) next:(TextChunkRef n)
		// two chunks: "hello " (6 bytes) in the root, a 120-byte chunk in the reference
		long := bytes.Repeat([]byte("z"), 120)
		c2 := boc.NewCell()
		_ = c2.WriteUint(120, 8)
		_ = c2.WriteBytes(long)
		c := boc.NewCell()
		_ = c.WriteUint(2, 8)
		_ = c.WriteUint(6, 8)
		_ = c.WriteBytes([]byte("hello "))
		_ = c.AddRef(c2)
		var t tlb.DNSText
		if err := tlb.Unmarshal(c, &t); err != nil {
			return "FAIL value: DNSText of two chunks rejected: " + noSpaces(err.Error())
		}
		if string(t) != "hello "+string(long) {
			return "FAIL value: DNSText decoded as " + noSpaces(fmt.Sprintf("%q", string(t)))
		}
		// the longest chunk a root cell holds: 125 bytes
		c3 := boc.NewCell()
		_ = c3.WriteUint(1, 8)
		_ = c3.WriteUint(125, 8)
		_ = c3.WriteBytes(bytes.Repeat([]byte("q"), 125))
		var t3 tlb.DNSText
		if err := tlb.Unmarshal(c3, &t3); err != nil || len(t3) != 125 {
			return fmt.Sprintf("FAIL value: DNSText chunk of 125 bytes decoded as %d bytes, err %v", len(t3), err != nil)
		}
		return "ok"
	case "text":
		// SnakeData / Text: the bytes of the chain in order
		c2 := boc.NewCell()
		_ = c2.WriteBytes([]byte("world"))
		c := boc.NewCell()
		_ = c.WriteBytes([]byte("hello "))
		_ = c.AddRef(c2)
		var t tlb.Text
		if err := tlb.Unmarshal(c, &t); err != nil || string(t) != "hello world" {
			return "FAIL value: Text decoded as " + noSpaces(fmt.Sprintf("%q", string(t)))
		}
		return "ok"
	case "bintree":
		// bt_fork$1 left right / bt_leaf$0 leaf: leaves left to right
		leaf := func(v uint64) *boc.Cell { c := boc.NewCell(); _ = c.WriteBit(false); _ = c.WriteUint(v, 8); return c }
		fork := func(l, r *boc.Cell) *boc.Cell {
			c := boc.NewCell()
			_ = c.WriteBit(true)
			_ = c.AddRef(l)
			_ = c.AddRef(r)
			return c
		}
		c := fork(fork(leaf(1), leaf(2)), fork(leaf(3), fork(leaf(4), leaf(5))))
		var b tlb.BinTree[tlb.Uint8]
		if err := tlb.Unmarshal(c, &b); err != nil {
			return "FAIL value: BinTree rejected: " + noSpaces(err.Error())
		}
		if fmt.Sprint(b.Values) != "[1 2 3 4 5]" {
			return "FAIL value: BinTree leaves decoded as " + noSpaces(fmt.Sprint(b.Values))
		}
		return "ok"
	case "vmstack":
		// three values: the cell order is top first, the decoded slice is bottom first
		var st tlb.VmStack
		if err := tlb.Unmarshal(katStack(svTiny(10), svTiny(20), svTiny(30)), &st); err != nil || len(st) != 3 {
			return "FAIL value: VmStack of three values rejected"
		}
		if st[0].VmStkTinyInt != 10 || st[1].VmStkTinyInt != 20 || st[2].VmStkTinyInt != 30 {
			return fmt.Sprintf("FAIL value: VmStack (10,20,30 bottom to top) decoded as %d,%d,%d", st[0].VmStkTinyInt, st[1].VmStkTinyInt, st[2].VmStkTinyInt)
		}
		return "ok"
	}
	return "bad-op"
}

func (gc *genCtx) genKAT() {
	for _, k := range []string{"seqno", "get_wallet_data", "get_nft_data", "get_jetton_data", "get_wallet_params", "get_plugin_list"} {
		gc.g.Emit("go.abi.stackval", k)
	}
	for _, k := range []string{"dnstext", "text", "bintree", "vmstack"} {
		gc.g.Emit("go.tlb.kat", k)
	}
}
