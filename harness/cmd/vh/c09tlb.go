//go:build c09

package main

import (
	"encoding/hex"
	"fmt"
	"math/rand"
	"os"
	osexec "os/exec"
	"path/filepath"
	"reflect"
	"sort"
	"strings"
	"sync"
	"syscall"

	abiparser "github.com/tonkeeper/tongo/abi/parser"
	tlbparser "github.com/tonkeeper/tongo/tlb/parser"
	"github.com/tonkeeper/tongo/utils"
	"verifharness/h"
	"verifharness/tlbmini"
	"verifharness/tlbx"
)

// TL-B half of property C09: tlb/parser.GenerateGolangTypes is run on random TL-B schemas (twice: identical output),
// the emitted struct types are compiled in a scratch module and driven through the library's reflection codec
// (tlb.Marshal / tlb.Unmarshal) on random values; the resulting cell must be the one the declaration prescribes
// (harness reference encoder, package tlbmini). Direct oracles only: there is no Lean model of TL-B in this property.

func registerTlbOps(ops map[string]h.ExecFn) {
	ops["go.tlbc.generate"] = goTlbGenerate
	ops["go.tlbc.compile"] = func(a []string) string {
		if _, err := ensureTlbProgram(string(h.MustUnHex(a[0]))); err != nil {
			return failf("compile", "%v", err)
		}
		return "ok"
	}
	for _, op := range []string{"go.tlbc.values", "tlbs.desc", "tlbs.enc", "tlbs.dec"} {
		op := op
		ops[op] = func(a []string) string {
			path, err := ensureTlbProgram(string(h.MustUnHex(a[0])))
			if err != nil {
				if strings.HasPrefix(op, "go.") {
					return failf("nocompile", "%v", err)
				}
				return "nocompile"
			}
			return forwardTo(path, op, a)
		}
	}
	ops["go.regen.abi"] = func([]string) string { return goRegenAbi() }
	ops["tlbs.absdesc"] = exAbsDesc
	ops["tlbs.ok"] = func(a []string) string { return "ok 1 1" } // the schema generator stays inside the subset
}

// goRegenAbi: run the repository's abi/generator.go on the checked-in abi/schemas into a scratch directory and compare
// every artefact it writes with the checked-in file (as go.regen.liteclient does for the TL bindings).
func goRegenAbi() string {
	repo := repoDir()
	dir, err := scratchDir("regen-abi")
	if err != nil {
		return failf("regen-scratch", "%v", err)
	}
	defer os.RemoveAll(dir)
	bin := filepath.Join(dir, "gen")
	cmd := osexec.Command("go", "build", "-o", bin, "./abi/generator.go")
	cmd.Dir = repo
	if out, err := cmd.CombinedOutput(); err != nil {
		return failf("regen-build", "%v: %.300s", err, out)
	}
	cp := osexec.Command("cp", "-r", filepath.Join(repo, "abi", "schemas"), filepath.Join(dir, "schemas"))
	if out, err := cp.CombinedOutput(); err != nil {
		return failf("regen-input", "%v: %s", err, out)
	}
	run := osexec.Command(bin)
	run.Dir = dir
	if out, err := run.CombinedOutput(); err != nil {
		class := "regen-run"
		if strings.Contains(string(out), "not defined type: uint257") {
			class = "regen-run-uint257" // the one recorded finding; any other reason keeps the unrecorded class
		}
		return failf(class, "abi/generator.go on the checked-in abi/schemas: %v: %.200s", err, strings.ReplaceAll(string(out), "\n", " "))
	}
	for _, f := range []string{"types.go", "messages_generated.go", "get_methods.go", "interfaces.go", "jetton_msg_types.go",
		"nfts_msg_types.go", "contracts_errors.go", "messages.md"} {
		got, err1 := os.ReadFile(filepath.Join(dir, f))
		want, err2 := os.ReadFile(filepath.Join(repo, "abi", f))
		if err1 != nil || err2 != nil || string(got) != string(want) {
			return failf("regen-differs", "abi/%s is not what abi/generator.go produces from abi/schemas", f)
		}
	}
	return "ok"
}

// ---------------------------------------------------------------------------------- the checked-in abi structs

var (
	abiTypesOnce sync.Once
	abiTypes     map[string]reflect.Type
)

// exAbsDesc: tlbs.absdesc <tlb text> <Type> <Go type name in package abi> <skipMagic> — the reflection descriptor of
// the CHECKED-IN generated struct (the abi generator cannot be re-run, see go.regen.abi), to be compared with what the
// declaration in abi/schemas denotes.
func exAbsDesc(a []string) string {
	abiTypesOnce.Do(func() {
		abiTypes = map[string]reflect.Type{}
		for _, t := range tlbx.Registry {
			abiTypes[tlbx.TypeName(t)] = t
		}
	})
	rt, ok := abiTypes["abi."+a[2]]
	if !ok {
		return "nobinding abi." + a[2]
	}
	u := tlbx.NewUniverse()
	d := u.Describe(rt)
	body, ok := u.Named[d.Name]
	if !ok {
		return "nobinding not a named struct"
	}
	return "ok " + tlbmini.NormDesc(body.TextIdx(nil)) + " " + tlbmini.GoFieldNames(body)
}

// genAbi: every TL-B declaration of abi/schemas/*.xml that lies in the modelled subset (all of its types are builtin
// or declared in the same block) against the checked-in struct of package abi.
func genAbi(g *h.G) {
	files, _ := filepath.Glob(filepath.Join(repoDir(), "abi", "schemas", "*.xml"))
	sort.Strings(files)
	emit := func(text, goPrefix string, skipMagic bool) {
		s, err := tlbmini.Parse(text)
		if err != nil || !s.Closed() {
			g.Count("abi_decls_outside_subset")
			return
		}
		for _, tn := range s.TypeNames() {
			goName := tn
			if goPrefix != "" {
				goName = goPrefix
			}
			sm := "0"
			if skipMagic {
				sm = "1"
			}
			g.Count("abi_decls_compared")
			g.Emit("tlbs.absdesc", hex.EncodeToString([]byte(text)), tn, goName, sm)
		}
	}
	for _, f := range files {
		raw, err := os.ReadFile(f)
		if err != nil {
			continue
		}
		a, err := abiparser.ParseABI(raw)
		if err != nil {
			g.Count("abi_files_unparsed")
			continue
		}
		for _, t := range a.Types {
			emit(t, "", false)
		}
		for _, grp := range []struct {
			ms     []abiparser.Message
			suffix string
		}{{a.Internals, "MsgBody"}, {a.ExtIn, "ExtInMsgBody"}, {a.ExtOut, "ExtOutMsgBody"}, {a.JettonPayloads, "JettonPayload"}, {a.NFTPayloads, "NFTPayload"}} {
			for _, m := range grp.ms {
				emit(m.Input, utils.ToCamelCase(m.Name)+grp.suffix, true)
			}
		}
	}
}

func generateTlb(schema string) (string, error) {
	code, _, err := generateTlbAll(schema)
	return code, err
}

// generateTlbAll calls both exported entry points of tlb/parser's generator: GenerateGolangTypes (the Go text) and
// GetTlbTypes (the list of declared types with their definitions that abi/parser writes out, IN ORDER).
func generateTlbAll(schema string) (string, []tlbparser.TlbType, error) {
	parsed, err := tlbparser.Parse(schema)
	if err != nil {
		return "", nil, fmt.Errorf("parse: %v", err)
	}
	g := tlbparser.NewGenerator()
	code, err := g.GenerateGolangTypes(parsed.Declarations, "", false)
	return code, g.GetTlbTypes(), err
}

// goTlbGenerate: two runs (two generator instances) give the identical Go text AND the identical list of TL-B types in
// the identical order; that order is the documented one (ascending type name), and one more call on the same generator
// repeats it.
func goTlbGenerate(a []string) string {
	schema := string(h.MustUnHex(a[0]))
	c1, t1, err := generateTlbAll(schema)
	if err != nil {
		return failf("generate", "%v", err)
	}
	c2, t2, err := generateTlbAll(schema)
	if err != nil || c1 != c2 {
		return failf("nondeterministic", "two runs of the TL-B generator differ (%v)", err)
	}
	if len(t1) != len(t2) {
		return failf("nondeterministic", "GetTlbTypes: %d types, then %d", len(t1), len(t2))
	}
	for i := range t1 {
		if t1[i] != t2[i] {
			return failf("nondeterministic", "GetTlbTypes: entry %d is %s, then %s", i, t1[i].Name, t2[i].Name)
		}
		if i > 0 && t1[i-1].Name >= t1[i].Name {
			return failf("type-order", "GetTlbTypes: %s listed before %s (ascending type names expected)", t1[i-1].Name, t1[i].Name)
		}
	}
	return "ok"
}

const tlbProgMain = `package main

import (
	"bufio"
	"crypto/sha1"
	"encoding/hex"
	"os"
	"reflect"
	"strings"

	"github.com/tonkeeper/tongo/boc"
	"github.com/tonkeeper/tongo/tlb"
	"verifharness/tlbmini"
%s)

var bindings = map[string]map[string]reflect.Type{
%s}

func run(line string) string {
	f := strings.Fields(line)
	if len(f) < 3 {
		return "bad-op"
	}
	raw, err := hex.DecodeString(f[1])
	if err != nil {
		return "bad-op"
	}
	sum := sha1.Sum(append([]byte("tlb:"), raw...))
	types, ok := bindings[hex.EncodeToString(sum[:8])]
	if !ok {
		if strings.HasPrefix(f[0], "go.") {
			return "FAIL noprogram"
		}
		return "noprogram"
	}
	return tlbmini.Serve(f, string(raw), types,
		func(c *boc.Cell, o any) error { return tlb.Marshal(c, o) },
		func(c *boc.Cell, o any) error { return tlb.Unmarshal(c, o) })
}

func main() {
	in := bufio.NewReaderSize(os.Stdin, 1<<20)
	w := bufio.NewWriter(os.Stdout)
	for {
		line, err := in.ReadString('\n')
		if line == "" && err != nil {
			break
		}
		w.WriteString(strings.ReplaceAll(run(strings.TrimRight(line, "\r\n")), "\n", " "))
		w.WriteByte('\n')
		w.Flush()
	}
}
`

func tlbSid(schema string) string { return sid("tlb:" + schema) }

func writeTlbPackage(dir, pkg, schema string) error {
	code, err := generateTlb(schema)
	if err != nil {
		return err
	}
	s, err := tlbmini.Parse(schema)
	if err != nil {
		return err
	}
	pd := filepath.Join(dir, pkg)
	if err := os.MkdirAll(pd, 0o755); err != nil {
		return err
	}
	var sb strings.Builder
	fmt.Fprintf(&sb, "package %s\n\nimport (\n\t\"encoding/json\"\n\t\"fmt\"\n\t\"reflect\"\n\n\t\"github.com/tonkeeper/tongo/tlb\"\n)\n\n", pkg)
	sb.WriteString("var (\n\t_ = json.Marshal\n\t_ = fmt.Sprintf\n\t_ tlb.Magic\n)\n")
	sb.WriteString(code)
	sb.WriteString("\n\nfunc VerifTypes() map[string]reflect.Type {\n\treturn map[string]reflect.Type{\n")
	for _, tn := range s.TypeNames() {
		fmt.Fprintf(&sb, "\t\t%q: reflect.TypeOf(%s{}),\n", tn, tn)
	}
	sb.WriteString("\t}\n}\n")
	return os.WriteFile(filepath.Join(pd, "generated.go"), []byte(sb.String()), 0o644)
}

func buildTlbProgram(schemas []string) (map[string]error, error) {
	genErr := map[string]error{}
	// whatever a previous run (of another state of the repository) left for these schemas is stale
	for _, sc := range schemas {
		os.RemoveAll(filepath.Join(cacheDir(), tlbSid(sc)))
	}
	dir, err := scratchDir("c09-tlbmod")
	if err != nil {
		return genErr, err
	}
	defer os.RemoveAll(dir)
	gomod := fmt.Sprintf("module c09scratch\n\ngo 1.19\n\nrequire (\n\tgithub.com/tonkeeper/tongo v0.0.0\n\tverifharness v0.0.0\n)\n\n"+
		"replace github.com/tonkeeper/tongo => %s\n\nreplace verifharness => %s\n", repoDir(), filepath.Join(verifRoot(), "harness"))
	os.WriteFile(filepath.Join(dir, "go.mod"), []byte(gomod), 0o644)
	if sum, err := os.ReadFile(filepath.Join(repoDir(), "go.sum")); err == nil {
		os.WriteFile(filepath.Join(dir, "go.sum"), sum, 0o644)
	}
	var imports, binds strings.Builder
	var ok []string
	for i, sc := range schemas {
		pkg := fmt.Sprintf("b%d", i)
		if err := writeTlbPackage(dir, pkg, sc); err != nil {
			genErr[tlbSid(sc)] = err
			os.RemoveAll(filepath.Join(dir, pkg))
			continue
		}
		ok = append(ok, sc)
		fmt.Fprintf(&imports, "\t%s \"c09scratch/%s\"\n", pkg, pkg)
		fmt.Fprintf(&binds, "\t%q: %s.VerifTypes(),\n", tlbSid(sc), pkg)
	}
	if len(ok) == 0 {
		return genErr, nil
	}
	os.WriteFile(filepath.Join(dir, "main.go"), []byte(fmt.Sprintf(tlbProgMain, imports.String(), binds.String())), 0o644)
	bin := filepath.Join(dir, "prog")
	cmd := osexec.Command("go", "build", "-tags", "verif", "-o", bin, ".")
	cmd.Dir = dir
	cmd.Env = append(os.Environ(), "GOFLAGS=-mod=mod", "GOPROXY=off", "GOSUMDB=off", "GOTOOLCHAIN=local", "CGO_ENABLED=0")
	if out, err := cmd.CombinedOutput(); err != nil {
		return genErr, fmt.Errorf("%s", firstErrors(string(out), dir))
	}
	for _, sc := range ok {
		d := filepath.Join(cacheDir(), tlbSid(sc))
		os.MkdirAll(d, 0o755)
		dst := filepath.Join(d, "prog")
		os.Remove(dst)
		if err := os.Link(bin, dst); err != nil {
			b, _ := os.ReadFile(bin)
			os.WriteFile(dst, b, 0o755)
		}
	}
	return genErr, nil
}

func ensureTlbProgram(schema string) (string, error) {
	id := tlbSid(schema)
	p := filepath.Join(cacheDir(), id, "prog")
	if _, err := os.Stat(p); err == nil {
		return p, nil
	}
	os.MkdirAll(cacheDir(), 0o755)
	lock, err := os.OpenFile(filepath.Join(cacheDir(), id+".lock"), os.O_CREATE|os.O_RDWR, 0o644)
	if err != nil {
		return "", err
	}
	defer lock.Close()
	syscall.Flock(int(lock.Fd()), syscall.LOCK_EX)
	defer syscall.Flock(int(lock.Fd()), syscall.LOCK_UN)
	if _, err := os.Stat(p); err == nil {
		return p, nil
	}
	if msg, err := os.ReadFile(filepath.Join(cacheDir(), id, "error")); err == nil {
		return "", fmt.Errorf("%s", msg)
	}
	ge, be := buildTlbProgram([]string{schema})
	err = be
	if e, bad := ge[id]; bad {
		err = e
	}
	if err != nil {
		os.MkdirAll(filepath.Join(cacheDir(), id), 0o755)
		os.WriteFile(filepath.Join(cacheDir(), id, "error"), []byte(err.Error()), 0o644)
		return "", err
	}
	return p, nil
}

const tlbCoverageSchema = `leaf$_ a:uint1 b:uint63 c:uint64 d:int1 e:int63 f:int64 g:uint8 h:uint16 i:uint32 j:int8 k:int32 = Leaf;
tagged#0f8a7ea5 v:(## 1) w:(## 64) x:# y:Bool z:Coins = Tagged;
bin$1011 m:bits80 n:bits256 o:(VarUInteger 16) p:(VarUInteger 32) q:MsgAddress = Bin;
dicts$_ d8:(HashmapE 8 uint7) d32:(HashmapE 32 Leaf) d63:(HashmapE 63 ^Leaf) d64:(HashmapE 64 Tagged) d256:(HashmapE 256 ^Bin) = Dicts;
refs#ab r1:^Cell r2:^Leaf r3:^bits128 m1:(Maybe uint5) = Refs;
opt$_ m2:(Maybe ^Cell) m3:(Maybe ^Tagged) m4:(Maybe Leaf) e1:(Either Leaf ^Leaf) = Opt;
eith$_ e2:(Either uint3 Bool) e3:(Either ^Bin ^Cell) e4:(Either Bool ^Tagged) = Eith;
u_a$0 x:Leaf = U;
u_b$10 y:^Dicts = U;
u_c$110 = U;
u_d$111 z:Opt w:^Eith = U;
h_a#00000001 q:uint64 = H;
h_b#00000002 r:Refs tail:Cell = H;
`

// second fixed schema: Go's int16, odd and boundary widths of both signs, `## n`, bitsN, every Either form (X Y, X ^Y,
// ^X Y, ^X ^Y, X ^X, ^X ^X), Maybe / Maybe ^ over them, anonymous constructor, `#_`, short hex tag, further dictionary
// key widths, a type with five constructors
const tlbCoverageSchema2 = `ints$_ a:int16 b:int5 c:int33 d:uint7 e:uint33 f:uint2 g:int2 h:int64 i:uint16 j:int8 k:uint8 = Ints;
nats#_ a:(## 5) b:(## 32) c:(## 63) d:bits96 e:bits264 f:bits128 = Nats;
_ x:int16 y:(Maybe int16) z:(Maybe ^Ints) = Anon;
er$_ e1:(Either ^Ints ^Ints) e2:(Either ^Cell ^Cell) e3:(Either Ints ^Ints) e4:(Either ^Ints Nats) e5:(Either int16 uint16) e6:(Either Nats ^Ints) e7:(Either ^Nats ^Ints) = Er;
er2#7a e1:(Either ^Anon ^Anon) e2:(Maybe ^Er) tail:Cell = Er2;
dk$_ d16:(HashmapE 16 int16) d128:(HashmapE 128 Ints) d1:(HashmapE 1 ^Er) = Dk;
f_a$000 x:int16 = Five;
f_b$001 y:^Er = Five;
f_c$01 z:(Either ^Ints ^Ints) = Five;
f_d$10 = Five;
f_e$11 w:Dk = Five;
`

func genTlb(g *h.G) {
	g.Emit("go.regen.abi")
	genAbi(g)
	n := g.Scale(6, 100)
	var schemas []*tlbmini.Schema
	var texts []string
	// a fixed schema first: every construct of the subset at its boundary parameters, on every run (dictionary key
	// widths 8/32/63/64/256, integer widths 1/63/64 and Go's own 8/16/32/64, every tag form, every reference form)
	for _, cs := range []string{tlbCoverageSchema, tlbCoverageSchema2} {
		fixed, err := tlbmini.Parse(cs)
		if err != nil {
			h.Fatalf("coverage schema: %v", err)
		}
		schemas = append(schemas, fixed)
		texts = append(texts, cs)
	}
	for i := 0; i < n; i++ {
		s := tlbmini.GenSchema(rand.New(rand.NewSource(g.Rng.Int63())), 12, g.Count)
		schemas = append(schemas, s)
		texts = append(texts, s.String())
	}
	for lo := 0; lo < len(texts); lo += 20 {
		hi := lo + 20
		if hi > len(texts) {
			hi = len(texts)
		}
		buildTlbProgram(texts[lo:hi])
	}
	for i, s := range schemas {
		g.Count("tlb_programs")
		hx := hex.EncodeToString([]byte(texts[i]))
		g.Emit("go.tlbc.generate", hx)
		g.Emit("go.tlbc.compile", hx)
		g.Emit("tlbs.ok", hx)
		path, perr := ensureTlbProgram(texts[i])
		for _, tn := range s.TypeNames() {
			g.NonTrivial("tlb/" + tlbSid(texts[i]) + "/" + tn)
			g.Emit("tlbs.desc", hx, tn)
			g.Emit("go.tlbc.values", hx, tn, fmt.Sprint(g.Rng.Int63()), fmt.Sprint(g.Scale(40, 200)))
			if perr != nil {
				continue
			}
			// values come from the compiled program (reflection generator of package tlbx over the generated structs)
			ans := forwardTo(path, "gen", []string{hx, tn, fmt.Sprint(g.Rng.Int63()), fmt.Sprint(g.Scale(12, 40))})
			if !strings.HasPrefix(ans, "ok ") {
				continue
			}
			for _, it := range strings.Fields(ans[3:]) {
				k := strings.LastIndexByte(it, '@')
				if k < 0 {
					continue
				}
				g.Count("tlb_values")
				g.Emit("tlbs.enc", hx, tn, it[:k])
				if it[k+1:] != "!" {
					g.Emit("tlbs.dec", hx, tn, it[k+1:])
				}
			}
		}
	}
}
