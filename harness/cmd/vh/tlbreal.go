//go:build c03 || c04

package main

import (
	"encoding/hex"
	"fmt"
	"os"
	"path/filepath"
	"reflect"
	"sort"

	"github.com/tonkeeper/tongo/boc"
	"github.com/tonkeeper/tongo/tlb"
	"verifharness/h"
	"verifharness/tlbx"
)

// Real chain data: every transaction and message (and the state-inits they carry) found by decoding the blocks in
// tlb/testdata and ton/testdata. Source cells are recovered from the block's cell tree by hash.

type realItem struct {
	Kind  string // tx | msg | stateinit
	Cell  *boc.Cell
	Value reflect.Value // stateinit: the decoded value (its source cell is not individually addressable)
	From  string
}

func repoDir() string {
	if d := os.Getenv("VERIF_REPO"); d != "" {
		return d
	}
	return "/repo"
}

func blockFiles() []string {
	r := repoDir()
	fs, _ := filepath.Glob(filepath.Join(r, "tlb", "testdata", "block-*", "block.bin"))
	sort.Strings(fs)
	if _, err := os.Stat(filepath.Join(r, "ton", "testdata", "raw-13516764.bin")); err == nil {
		fs = append(fs, filepath.Join(r, "ton", "testdata", "raw-13516764.bin"))
	}
	return fs
}

func indexCells(root *boc.Cell) map[string]*boc.Cell {
	idx := map[string]*boc.Cell{}
	seen := map[*boc.Cell]bool{}
	var walk func(c *boc.Cell)
	walk = func(c *boc.Cell) {
		if seen[c] {
			return
		}
		seen[c] = true
		if hs, err := c.Hash(); err == nil {
			idx[hex.EncodeToString(hs)] = c
		}
		for _, r := range c.Refs() {
			walk(r)
		}
	}
	walk(root)
	return idx
}

func loadReal(limitPerBlock int) (items []realItem, notes []string) {
	for _, fn := range blockFiles() {
		data, err := os.ReadFile(fn)
		if err != nil {
			notes = append(notes, "unreadable:"+fn)
			continue
		}
		cells, err := boc.DeserializeBoc(data)
		if err != nil || len(cells) == 0 {
			notes = append(notes, "not-a-boc:"+fn)
			continue
		}
		var block tlb.Block
		if err := tlb.Unmarshal(cells[0], &block); err != nil {
			notes = append(notes, "block-decode-err:"+fn)
			continue
		}
		short := filepath.Base(filepath.Dir(fn)) + "/" + filepath.Base(fn)
		n := 0
		for _, acc := range block.Extra.AccountBlocks.Values() {
			for _, txRef := range acc.Transactions.Values() {
				tx := txRef.Value
				if limitPerBlock > 0 && n >= limitPerBlock {
					break
				}
				n++
				src, err := tx.SourceBoc()
				if err != nil {
					notes = append(notes, "no-source-boc:"+short)
					continue
				}
				tc, err := boc.DeserializeBoc(src)
				if err != nil || len(tc) != 1 {
					notes = append(notes, "tx-source-boc-unreadable:"+short)
					continue
				}
				items = append(items, realItem{Kind: "tx", Cell: tc[0], From: short})
				idx := indexCells(tc[0])
				var msgs []tlb.Message
				if tx.Msgs.InMsg.Exists {
					msgs = append(msgs, tx.Msgs.InMsg.Value.Value)
				}
				for _, m := range tx.Msgs.OutMsgs.Values() {
					msgs = append(msgs, m.Value)
				}
				for _, m := range msgs {
					hs := m.Hash(false)
					if c, ok := idx[hex.EncodeToString(hs[:])]; ok {
						items = append(items, realItem{Kind: "msg", Cell: c, From: short})
					} else {
						notes = append(notes, "msg-cell-not-found:"+short)
					}
					if m.Init.Exists {
						items = append(items, realItem{Kind: "stateinit", Value: reflect.ValueOf(m.Init.Value.Value), From: short})
					}
				}
			}
		}
	}
	return items, notes
}

// realBlockParts: the four children of every real block (block#11ef55aa info:^BlockInfo value_flow:^ValueFlow
// state_update:^(MERKLE_UPDATE ShardState) extra:^BlockExtra) and the block itself, decoded by the hand-written
// decoders with flag-dependent layout — compared with their models (`decodeCustom`, the HashmapAug and BinTree
// decoders).
var realBlockParts = []struct {
	Ref  int // -1: the block root
	Type string
}{{0, "tlb.BlockInfo"}, {1, "tlb.ValueFlow"}, {2, "tlb.MerkleUpdate[tlb.ShardState]"}, {3, "tlb.BlockExtra"}, {-1, "tlb.Block"}}

func genRealBlocks(g *h.G) {
	for _, fn := range blockFiles() {
		data, err := os.ReadFile(fn)
		if err != nil {
			continue
		}
		cells, err := boc.DeserializeBoc(data)
		if err != nil || len(cells) == 0 {
			continue
		}
		root := cells[0]
		for _, part := range realBlockParts {
			tt, ok := tlbByN[part.Type]
			if !ok || (tt.Class != "model" && tt.Class != "partial" && tt.Class != "decode") {
				g.Count("real_block_part_without_model:" + part.Type)
				continue
			}
			c := root
			if part.Ref >= 0 {
				if part.Ref >= len(root.Refs()) {
					continue
				}
				c = root.Refs()[part.Ref]
			}
			tbl := tlbx.CellText(c)
			limit := g.Scale(400000, 0)
			if limit > 0 && len(tbl) > limit {
				g.Count("real_block_part_skipped_too_large:" + part.Type)
				continue
			}
			if _, err := unmarshalInto(c, tt.T); err != nil {
				g.Count("real_block_part_go_decode_err:" + part.Type)
			}
			g.Emit("tlb.dec", tt.Name, tt.Ty, tt.Env, tbl)
			for _, m := range flagVariants(part.Type, c) {
				g.Emit("tlb.dec", tt.Name, tt.Ty, tt.Env, tlbx.CellText(m))
				g.Count("real_block_part_flag_variants:" + part.Type)
			}
			g.Count("real_block_part_compared_with_model:" + part.Type)
			g.NonTrivial("realblock/" + part.Type + "/" + tbl[:minInt(len(tbl), 64)])
		}
	}
}

// flagVariants: the real cell with each of the bits that steer the flag-dependent layout flipped (BlockInfo:
// not_master … vert_seqno_incr and the 8 flags bits; ValueFlow: the other version's magic), and with the last
// reference dropped — every branch of the hand-written decoders, most of them ending in an error.
func flagVariants(typ string, c *boc.Cell) []*boc.Cell {
	row := h.RowOf(c)
	refs := c.Refs()
	var out []*boc.Cell
	mk := func(data []byte, rs []*boc.Cell) {
		out = append(out, boc.VerifNewCell(boc.OrdinaryCell, 0, data, row.BitLen, rs))
	}
	switch typ {
	case "tlb.BlockInfo":
		for i := 64; i < 80 && i < row.BitLen; i++ {
			d := append([]byte{}, row.Data...)
			d[i/8] ^= 1 << uint(7-i%8)
			mk(d, refs)
		}
	case "tlb.ValueFlow":
		if row.BitLen >= 32 {
			d := append([]byte{}, row.Data...)
			other := []byte{0x3e, 0xbf, 0x98, 0xb7}
			if d[0] == 0x3e {
				other = []byte{0xb8, 0xe4, 0x8d, 0xfb}
			}
			copy(d, other)
			mk(d, refs)
		}
	default:
		return nil
	}
	if len(refs) > 0 {
		mk(append([]byte{}, row.Data...), refs[:len(refs)-1])
	}
	return out
}

var realTypes = map[string]string{"tx": "tlb.Transaction", "msg": "tlb.Message", "stateinit": "tlb.StateInit"}

// genReal emits, for every real record: the direct re-decode / re-encode oracle, and (when the record stays inside
// the model: no non-empty dictionary) the decode line compared with the Lean model. Distribution: how many records
// reproduce their source hash, how many do not (non-canonical source encoding), how many cannot be re-encoded.
func genReal(g *h.G) {
	genRealBlocks(g)
	items, notes := loadReal(g.Scale(60, 0))
	for _, n := range notes {
		g.Count("real_note:" + n)
	}
	for _, it := range items {
		tt := tlbLookup(realTypes[it.Kind])
		if it.Kind == "stateinit" {
			v := tlbx.Addressable(it.Value)
			g.Emit("go.rt", tt.Name, tlbx.Print(v))
			g.Count("real_stateinit")
			continue
		}
		tbl := tlbx.CellText(it.Cell)
		if len(tbl) > 200000 {
			g.Count("real_" + it.Kind + "_skipped_too_large")
			continue
		}
		_, class := reDecode(tt, it.Cell)
		g.Count("real_" + it.Kind + "_" + class)
		if class == "other-hash" {
			hs, _ := it.Cell.Hash()
			g.Count(fmt.Sprintf("real_noncanonical:%s:%s:%x", it.Kind, it.From, hs[:6]))
		}
		g.Emit("go.redec", tt.Name, tbl)
		// the cell-level canonicity check of the model on the real cell (C03.reencode_canonical_cell): a cell the model
		// calls canonical must be reproduced by the Go code (compared); how many real cells are canonical (info)
		g.Emit("tlb.canon", tt.Name, tt.Ty, tt.Env, tbl, class)
		g.Emit("tlb.canoninfo", tt.Name, tt.Ty, tt.Env, tbl)
		if v, err := unmarshalInto(it.Cell, tt.T); err == nil && tlbx.ModelSafe(tlbU, tt.D, v) {
			g.Emit("tlb.dec", tt.Name, tt.Ty, tt.Env, tbl)
			g.Count("real_" + it.Kind + "_compared_with_model")
			g.NonTrivial("real/" + tbl[:minInt(len(tbl), 64)])
		}
	}
}
