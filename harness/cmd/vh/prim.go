package main

import (
	"crypto/sha256"
	"fmt"
	"hash/crc32"

	"github.com/snksoft/crc"
	"verifharness/h"
)

// primExec: executors validating the Lean primitives against Go's standard library (trusted-base validation).
var primExec = map[string]h.ExecFn{
	"prim.sha256": func(a []string) string { s := sha256.Sum256(h.MustUnHex(a[0])); return h.Hex(s[:]) },
	"prim.crc16": func(a []string) string {
		return fmt.Sprint(crc.CalculateCRC(crc.XMODEM, h.MustUnHex(a[0])))
	},
	"prim.crc32c": func(a []string) string {
		return fmt.Sprint(crc32.Checksum(h.MustUnHex(a[0]), crc32.MakeTable(crc32.Castagnoli)))
	},
}

func genPrim(g *h.G, ops ...string) {
	for _, op := range ops {
		for _, n := range []int{0, 1, 3, 55, 56, 57, 63, 64, 65, 119, 120, 128, 200} {
			g.Emit(op, h.Hex(g.Bytes(n)))
		}
	}
}

func withPrim(m map[string]h.ExecFn) map[string]h.ExecFn {
	for k, v := range primExec {
		m[k] = v
	}
	return m
}
