//go:build c08

package main

import "runtime/coverage"

func coverageClear() error { return coverage.ClearCounters() }

func coverageWrite(dir string) error {
	if err := coverage.WriteMetaDir(dir); err != nil {
		return err
	}
	return coverage.WriteCountersDir(dir)
}
