package main

import (
	"bytes"
	"encoding/base64"
	"encoding/hex"
	"fmt"
	"os"
	"path/filepath"
	"regexp"
	"runtime"
	"sort"
	"strings"

	"github.com/tonkeeper/tongo/boc"
	"verifharness/h"
)

// Executors around the bag-of-cells parser, shared by C01 and C07.

// allocation budget of DeserializeBoc for an input of n bytes (C07: "memory in proportion to the input").
// A cell costs at least 2 input bytes and the parser allocates per cell a Cell struct (112 B), the 128-byte buffer of
// NewCell, the data copy, the refs slice and two table slots: ~300 B, i.e. ~150 B per input byte in the worst case.
const allocPerByte = 320
const allocSlack = 1 << 20

// safely runs f under recover and reports the panic value.
func safely(f func()) (panicked bool, what string) {
	defer func() {
		if r := recover(); r != nil {
			panicked = true
			what = strings.Join(strings.Fields(fmt.Sprint(r)), "_")
			if len(what) > 80 {
				what = what[:80]
			}
		}
	}()
	f()
	return
}

// parseOutcome renders what the parser returned, canonically: "ok <table> <roots> <hash|err|panic per root>".
func parseOutcome(roots []*boc.Cell, err error) string {
	if err != nil {
		return "err"
	}
	gi := h.WalkCells(roots)
	if gi.NilRoot {
		return "ok nil-root"
	}
	if gi.Cyclic {
		return "ok cyclic"
	}
	if gi.MaxDepth > 90000 {
		return "ok too-deep-to-dump"
	}
	var sb strings.Builder
	sb.WriteString("ok ")
	sb.WriteString(h.Canon(roots))
	hashes := map[*boc.Cell]string{}
	for _, r := range roots {
		hs, ok := hashes[r]
		if !ok {
			var hb []byte
			var herr error
			p, _ := safely(func() { hb, herr = r.Hash() })
			switch {
			case p:
				hs = "panic"
			case herr != nil:
				hs = "err"
			default:
				hs = h.Hex(hb)
			}
			hashes[r] = hs
		}
		sb.WriteString(" " + hs)
	}
	return sb.String()
}

// boc.parse <hex> -> ok <canonical table> <roots> <root hashes…> | err | panic
func exBocParse(a []string) string {
	bs := h.MustUnHex(a[0])
	roots, err := boc.DeserializeBoc(bs)
	return parseOutcome(roots, err)
}

// go.parse <hex>: the C07 oracle on the implementation alone. The parser must return (no panic, no fatal crash —
// the orchestrator turns a dead executor into "fatal"), must not allocate out of proportion, and whatever it
// returns must be acyclic, within the cell limits, and must survive Hash / ToBoc / ToString / re-parse.
func goParse(a []string) string {
	bs := h.MustUnHex(a[0])
	var roots []*boc.Cell
	var err error
	var m0, m1 runtime.MemStats
	runtime.ReadMemStats(&m0)
	p, what := safely(func() { roots, err = boc.DeserializeBoc(bs) })
	runtime.ReadMemStats(&m1)
	if p {
		return "FAIL parse-panic " + what
	}
	alloc := m1.TotalAlloc - m0.TotalAlloc
	if os.Getenv("VH_ALLOC_DETAIL") != "" {
		fmt.Fprintf(os.Stderr, "alloc %d for %d bytes\n", alloc, len(bs))
	}
	if alloc > uint64(allocPerByte*len(bs)+allocSlack) {
		return fmt.Sprintf("FAIL alloc %d_bytes_for_%d_input_bytes", alloc, len(bs))
	}
	// the single-root wrapper on the same bytes: no panic, an error exactly when the bag is rejected or has not one root
	{
		var c1 *boc.Cell
		var e1 error
		if p, what := safely(func() { c1, e1 = boc.DeserializeSingleRootBoc(bs) }); p {
			return "FAIL single-root-panic " + what
		}
		if (e1 == nil) != (err == nil && len(roots) == 1) || (e1 == nil && c1 == nil) {
			return "FAIL single-root-result"
		}
	}
	if err != nil {
		return "ok"
	}
	return checkParsed(roots)
}

// go.carrier <hex of a string>: every string / JSON entry point of the reader on an ARBITRARY string (empty, a few
// characters, odd-length hex, bad alphabet, valid carriers of malformed bags, truncated carriers, JSON quoting debris):
// none may panic or allocate out of proportion; the single-root forms accept exactly the one-root bags; the Must… forms
// panic exactly when their plain form returns an error; Cell.UnmarshalJSON rejects bags with several roots.
func goCarrier(a []string) string {
	s := string(h.MustUnHex(a[0]))
	budget := uint64(allocPerByte*len(s) + allocSlack)
	guard := func(name string, f func()) string {
		var m0, m1 runtime.MemStats
		runtime.ReadMemStats(&m0)
		p, what := safely(f)
		runtime.ReadMemStats(&m1)
		if p {
			return "FAIL carrier-panic " + name + "_" + what
		}
		if d := m1.TotalAlloc - m0.TotalAlloc; d > budget {
			return fmt.Sprintf("FAIL carrier-alloc %s_%d_bytes_for_%d", name, d, len(s))
		}
		return ""
	}
	var rh, rb []*boc.Cell
	var eh, eb, esh, esb, ej error
	var ch, cb *boc.Cell
	var cj boc.Cell
	for _, st := range []struct {
		name string
		f    func()
	}{
		{"DeserializeBocHex", func() { rh, eh = boc.DeserializeBocHex(s) }},
		{"DeserializeBocBase64", func() { rb, eb = boc.DeserializeBocBase64(s) }},
		{"DeserializeSinglRootHex", func() { ch, esh = boc.DeserializeSinglRootHex(s) }},
		{"DeserializeSinglRootBase64", func() { cb, esb = boc.DeserializeSinglRootBase64(s) }},
		{"Cell.UnmarshalJSON", func() { ej = cj.UnmarshalJSON([]byte(s)) }},
	} {
		if msg := guard(st.name, st.f); msg != "" {
			return msg
		}
	}
	if (esh == nil) != (eh == nil && len(rh) == 1) || (esh == nil && ch == nil) {
		return "FAIL carrier-single-root hex"
	}
	if (esb == nil) != (eb == nil && len(rb) == 1) || (esb == nil && cb == nil) {
		return "FAIL carrier-single-root base64"
	}
	// Must…: panic by contract, but only on error results
	if p, _ := safely(func() { boc.MustDeserializeSinglRootHex(s) }); p != (esh != nil) {
		return "FAIL carrier-must hex"
	}
	if p, _ := safely(func() { boc.MustDeserializeSinglRootBase64(s) }); p != (esb != nil) {
		return "FAIL carrier-must base64"
	}
	// JSON: the document is the hex form between optional quotes; several roots are an error
	{
		inner, e2 := boc.DeserializeBocHex(strings.Trim(s, "\""))
		if (ej == nil) != (e2 == nil && len(inner) == 1) {
			return fmt.Sprintf("FAIL carrier-json accepted=%v_roots=%d", ej == nil, len(inner))
		}
	}
	for _, rs := range [][]*boc.Cell{rh, rb} {
		if rs != nil {
			if msg := checkParsed(rs); msg != "ok" {
				return msg
			}
		}
	}
	return "ok"
}

// checkParsed: soundness of cells returned by the parser.
func checkParsed(roots []*boc.Cell) string {
	gi := h.WalkCells(roots)
	if gi.NilRoot {
		return "FAIL nil-root"
	}
	if gi.Cyclic {
		return "FAIL cycle parsed_cells_reach_themselves"
	}
	if gi.MaxBits > 1023 {
		return fmt.Sprintf("FAIL bits %d", gi.MaxBits)
	}
	for i, r := range roots {
		var hb []byte
		var herr error
		if p, what := safely(func() { hb, herr = r.Hash() }); p {
			return fmt.Sprintf("FAIL hash-panic root%d_%s", i, what)
		}
		var out []byte
		var serr error
		if p, what := safely(func() { out, serr = r.ToBoc() }); p {
			return fmt.Sprintf("FAIL toboc-panic root%d_%s", i, what)
		}
		_ = herr
		// printing: bounded by the visit budget of toStringImpl (65536 expanded cells, each printing at most 4
		// children), whatever the unfolding of the DAG, and allocated in proportion to what is printed
		{
			var out string
			var t0, t1 runtime.MemStats
			runtime.ReadMemStats(&t0)
			if p, what := safely(func() { out = r.ToString() }); p {
				return fmt.Sprintf("FAIL tostring-panic root%d_%s", i, what)
			}
			runtime.ReadMemStats(&t1)
			lines := strings.Count(out, "\n")
			if lines > 4*boc.BOCSizeLimit+1 {
				return fmt.Sprintf("FAIL tostring-lines root%d_%d_lines_%d_bytes", i, lines, len(out))
			}
			if len(out) > (4*boc.BOCSizeLimit+1)*(gi.MaxDepth+263) {
				return fmt.Sprintf("FAIL tostring-size root%d_%d_bytes", i, len(out))
			}
			if a := t1.TotalAlloc - t0.TotalAlloc; a > uint64(32*len(out)+allocSlack) {
				return fmt.Sprintf("FAIL tostring-alloc root%d_%d_bytes_allocated_for_%d_bytes_printed", i, a, len(out))
			}
		}
		if serr == nil {
			var back []*boc.Cell
			var berr error
			if p, what := safely(func() { back, berr = boc.DeserializeBoc(out) }); p {
				return fmt.Sprintf("FAIL reparse-panic root%d_%s", i, what)
			}
			if berr != nil || len(back) != 1 {
				return fmt.Sprintf("FAIL reparse-err root%d", i)
			}
			if gi.MaxDepth <= 90000 {
				if h.Canon(back) != h.Canon([]*boc.Cell{r}) {
					return fmt.Sprintf("FAIL reparse-differs root%d", i)
				}
			}
			hb2, herr2 := back[0].Hash()
			if herr2 != nil || !bytes.Equal(hb, hb2) {
				return fmt.Sprintf("FAIL reparse-hash root%d", i)
			}
		}
	}
	return "ok"
}

// boc.tostring <hex> -> ok <lines>:<bytes> of Cell.ToString() for every root | err
func exBocToString(a []string) string {
	roots, err := boc.DeserializeBoc(h.MustUnHex(a[0]))
	if err != nil {
		return "err"
	}
	if gi := h.WalkCells(roots); gi.Cyclic || gi.NilRoot {
		return "ok cyclic"
	}
	out := []string{"ok"}
	for _, r := range roots {
		s := r.ToString()
		out = append(out, fmt.Sprintf("%d:%d", strings.Count(s, "\n"), len(s)))
	}
	return strings.Join(out, " ")
}

var bocExec = map[string]h.ExecFn{
	"boc.tostring": exBocToString,
	"boc.parse":    exBocParse,
	"go.parse":     goParse,
	"go.carrier":   goCarrier,
}

func withBoc(m map[string]h.ExecFn) map[string]h.ExecFn {
	for k, v := range bocExec {
		m[k] = v
	}
	return withCells(m)
}

var reHexBoc = regexp.MustCompile(`(?i)b5ee9c72[0-9a-f]{8,}`)
var reB64Boc = regexp.MustCompile(`te6cc[A-Za-z0-9+/]{6,}={0,2}`)

// repoBocs collects every byte string in the repository under test that looks like a bag of cells (hex or base64,
// in testdata files and in string constants) and that the parser accepts.
var repoBocsCache [][]byte

func repoBocs() [][]byte {
	if repoBocsCache != nil {
		return repoBocsCache
	}
	root := os.Getenv("VERIF_REPO")
	if root == "" {
		root = "/repo"
	}
	seen := map[string]bool{}
	var out [][]byte
	filepath.Walk(root, func(path string, info os.FileInfo, err error) error {
		if err != nil {
			return nil
		}
		if info.IsDir() {
			if info.Name() == ".git" {
				return filepath.SkipDir
			}
			return nil
		}
		if info.Size() > 8<<20 {
			return nil
		}
		data, err := os.ReadFile(path)
		if err != nil {
			return nil
		}
		try := func(bs []byte) {
			if len(bs) < 10 || seen[string(bs)] {
				return
			}
			ok := false
			safely(func() {
				cs, err := boc.DeserializeBoc(bs)
				ok = err == nil && len(cs) >= 1
			})
			if ok {
				seen[string(bs)] = true
				out = append(out, bs)
			}
		}
		for _, m := range reHexBoc.FindAll(data, -1) {
			if len(m)%2 == 1 {
				m = m[:len(m)-1]
			}
			if bs, err := hex.DecodeString(string(m)); err == nil {
				try(bs)
			}
		}
		for _, m := range reB64Boc.FindAll(data, -1) {
			if bs, err := base64.StdEncoding.DecodeString(string(m)); err == nil {
				try(bs)
			}
		}
		return nil
	})
	sort.Slice(out, func(i, j int) bool {
		if len(out[i]) != len(out[j]) {
			return len(out[i]) < len(out[j])
		}
		return bytes.Compare(out[i], out[j]) < 0
	})
	repoBocsCache = out
	return out
}

// repoSeedBocs: the repository's bags of cells up to 64 KiB, smallest first.
func repoSeedBocs() [][]byte {
	var out [][]byte
	for _, b := range repoBocs() {
		if len(b) <= 65536 {
			out = append(out, b)
		}
	}
	return out
}
