//go:build c08

package main

// C08: the allocation models of lean/TongoModel/TlbAlloc.lean (theorem tlb_custom_alloc) against the real decoders.
// Compared per line: the outcome (number of values / leaves / bytes, or an error) and the allocation CLASS — the model
// says `lin` when its element count is within k per cell, the Go side when runtime.MemStats.TotalAlloc stays within
// a per-cell budget that the repaired decoders meet with a wide margin and a copy per level does not.

import (
	"fmt"
	"strconv"

	"github.com/tonkeeper/tongo/boc"
	"github.com/tonkeeper/tongo/tlb"
	"verifharness/h"
)

// measured on the repaired code: VmStack ~1.1 KiB per cell (a VmStackValue is 600+ bytes), BinTree ~0.25 KiB per
// cell, Text ~0.5 KiB per cell
func allocTieClass(al uint64, perCell, cells int) string {
	if al <= 64<<10+uint64(perCell)*uint64(cells) {
		return "lin"
	}
	return "super"
}

func allocTie(cells, perCell int, run func() (int, error)) (res string) {
	defer func() {
		if r := recover(); r != nil {
			res = fmt.Sprintf("panic %v", r)
		}
	}()
	a0 := totalAlloc()
	n, err := run()
	al := totalAlloc() - a0
	cl := allocTieClass(al, perCell, cells)
	if cl != "lin" {
		// a slow GC cycle does not change TotalAlloc; measure once more to rule out a concurrent allocation
		a0 = totalAlloc()
		n, err = run()
		cl = allocTieClass(totalAlloc()-a0, perCell, cells)
	}
	if err != nil {
		return "err " + cl
	}
	return fmt.Sprintf("ok %d %s", n, cl)
}

const (
	perCellStack = 4096
	perCellBin   = 1024
	perCellSnake = 2048
)

func exAllocStack(a []string) string {
	rows := h.ParseTable(a[0])
	return allocTie(len(rows), perCellStack, func() (int, error) {
		cells := h.BuildCells(rows)
		var s tlb.VmStack
		err := tlb.Unmarshal(cells[0], &s)
		return len(s), err
	})
}

func exAllocBinTree(a []string) string {
	rows := h.ParseTable(a[0])
	return allocTie(len(rows), perCellBin, func() (int, error) {
		cells := h.BuildCells(rows)
		var b tlb.BinTree[struct{}]
		err := tlb.Unmarshal(cells[0], &b)
		return len(b.Values), err
	})
}

func exAllocSnake(a []string) string {
	rows := h.ParseTable(a[0])
	return allocTie(len(rows), perCellSnake, func() (int, error) {
		cells := h.BuildCells(rows)
		var s tlb.SnakeData
		err := tlb.Unmarshal(cells[0], &s)
		bs := boc.BitString(s)
		return bs.BitsAvailableForRead(), err
	})
}

func exAllocDeep(a []string) string {
	d, _ := strconv.Atoi(a[1])
	switch a[0] {
	case "vmstack":
		c := deepVmStack(d)
		return allocTie(d+1, perCellStack, func() (int, error) {
			c.ResetCounters()
			var s tlb.VmStack
			err := tlb.Unmarshal(c, &s)
			return len(s), err
		})
	case "bintree":
		c := deepComb(d, false)
		return allocTie(2*d+1, perCellBin, func() (int, error) {
			c.ResetCounters()
			var b tlb.BinTree[struct{}]
			err := tlb.Unmarshal(c, &b)
			return len(b.Values), err
		})
	case "snake":
		if d == 0 {
			return "bad-op"
		}
		c := deepSnake(d)
		return allocTie(d, perCellSnake, func() (int, error) {
			c.ResetCounters()
			var t tlb.Text
			err := tlb.Unmarshal(c, &t)
			return len(t), err
		})
	}
	return "bad-op"
}

// stack cells: a VmStack of `n` values; `depthField` is what the root announces; cell `broken` (if >= 0) carries an
// invalid tag; the chain is cut after `cut` cells (if >= 0)
func stackTable(n, depthField, broken, cut int, null func(i int) bool) []h.Row {
	var rows []h.Row
	for i := 0; i <= n; i++ {
		w := &bitw{}
		if i == 0 {
			w.u(uint64(depthField), 24)
		}
		var refs []int
		if i < n && (cut < 0 || i < cut) {
			refs = []int{i + 1}
			switch {
			case i == broken:
				w.u(0xff, 8)
			case null(i):
				w.u(0, 8)
			default:
				w.u(1, 8)
				w.u(uint64(i)*0x9e3779b97f4a7c15, 64)
			}
		}
		rows = append(rows, w.row(refs))
		if cut >= 0 && i >= cut {
			break
		}
	}
	return rows
}

func (gc *genCtx) genAllocTie() {
	g := gc.g
	for k := 0; k < g.Scale(150, 2000); k++ {
		n := g.Pick(0, 1, 2, 3, 5, 17, 60, 200)
		depth := n
		switch g.Rng.Intn(6) {
		case 0:
			depth = n + 1 + g.Rng.Intn(3)
		case 1:
			depth = g.Pick(1<<24-1, 1<<20, 70000, 1000)
		case 2:
			if n > 0 {
				depth = g.Rng.Intn(n)
			}
		}
		broken, cut := -1, -1
		if n > 0 && g.Rng.Intn(5) == 0 {
			broken = g.Rng.Intn(n)
		}
		if n > 0 && g.Rng.Intn(6) == 0 {
			cut = g.Rng.Intn(n)
		}
		t := stackTable(n, depth, broken, cut, func(int) bool { return g.Rng.Intn(4) == 0 })
		if g.Rng.Intn(10) == 0 {
			// truncation / a missing reference only: a flipped tag could select a VmStackValue the line's simple
			// top-of-stack decoder (null, tinyint) does not know
			t = damage(t, g.Pick(1, 2), g.Rng.Intn(len(t)), g.Rng.Intn(1024), g.Rng)
		}
		ts := h.TableString(t)
		g.Emit("tlb.alloc.stack", ts)
		g.NonTrivial("allocstack" + ts)
	}
	for k := 0; k < g.Scale(150, 2000); k++ {
		var t []h.Row
		var build func(depth int) int
		maxd := g.Pick(3, 6, 12, 40)
		build = func(depth int) int {
			id := len(t)
			t = append(t, h.Row{})
			w := &bitw{}
			if depth < maxd && len(t) < 400 && g.Rng.Intn(5) < 3 {
				w.u(1, 1)
				l := build(depth + 1)
				r := build(depth + 1)
				t[id] = w.row([]int{l, r})
			} else {
				w.u(0, 1)
				t[id] = w.row(nil)
			}
			return id
		}
		build(0)
		if g.Rng.Intn(3) == 0 {
			t = damage(t, g.Pick(0, 1, 2, 3), g.Rng.Intn(len(t)), g.Rng.Intn(1024), g.Rng)
		}
		ts := h.TableString(t)
		g.Emit("tlb.alloc.bintree", ts)
		g.NonTrivial("allocbin" + ts)
	}
	for k := 0; k < g.Scale(100, 1500); k++ {
		n := g.Pick(1, 2, 3, 10, 40, 120)
		var t []h.Row
		for i := 0; i < n; i++ {
			w := &bitw{}
			bytes := g.Pick(0, 1, 30, 127)
			for j := 0; j < bytes; j++ {
				w.u(uint64(g.Rng.Intn(256)), 8)
			}
			var refs []int
			if i+1 < n {
				refs = []int{i + 1}
			}
			t = append(t, w.row(refs))
		}
		if g.Rng.Intn(4) == 0 {
			t = damage(t, g.Pick(0, 1, 2, 3), g.Rng.Intn(len(t)), g.Rng.Intn(1024), g.Rng)
		}
		ts := h.TableString(t)
		g.Emit("tlb.alloc.snake", ts)
		g.NonTrivial("allocsnake" + ts)
	}
	for _, k := range []string{"vmstack", "bintree", "snake"} {
		ds := []int{1, 2, 50, 300, 1000, g.Scale(2500, 6000)}
		if k == "bintree" {
			ds = []int{0, 1, 2, 50, 1000, 8000, 16000}
		}
		if k == "snake" {
			ds = []int{1, 2, 50, 300, 1000}
		}
		for _, d := range ds {
			g.Emit("tlb.alloc.deep", k, strconv.Itoa(d))
		}
	}
}
