//go:build c08

package main

// C08: the TL decoder where `int` has 32 bits. The harness is a 64-bit program; this one oracle cross-compiles a
// probe for GOARCH=386 (the package tl builds there, liteclient does not) and runs it: vector counts around 2^31
// and byte-string prefixes must give a value or an error. The probe is laid over the repository with -overlay,
// nothing is written into the repository.

import (
	"encoding/json"
	"fmt"
	"os"
	osexec "os/exec"
	"path/filepath"
	"strings"
	"time"
)

const int32Probe = `package tl

import (
	"bytes"
	"encoding/hex"
	"fmt"
	"strconv"
	"strings"
	"testing"
)

func TestVerifInt32(t *testing.T) {
	if strconv.IntSize != 32 {
		fmt.Println("PROBE skip int is not 32 bits")
		return
	}
	for _, hx := range strings.Split("%s", ",") {
		bs, _ := hex.DecodeString(hx)
		func() {
			defer func() {
				if r := recover(); r != nil {
					fmt.Printf("PROBE panic %%s %%v\n", hx, r)
				}
			}()
			var v struct{ A []uint32 }
			err := Unmarshal(bytes.NewReader(bs), &v)
			var w struct{ A [][]byte }
			err2 := Unmarshal(bytes.NewReader(bs), &w)
			var x struct{ A []byte }
			err3 := Unmarshal(bytes.NewReader(bs), &x)
			fmt.Printf("PROBE done %%s %%v %%v %%v\n", hx, err != nil, err2 != nil, err3 != nil)
		}()
	}
}
`

// go.tl.int32 <hex,hex,...>: every input decoded as []uint32, [][]byte and []byte by a GOARCH=386 build of package tl
func goTLInt32(a []string) string {
	dir, err := os.MkdirTemp("", "c08int32")
	if err != nil {
		return "skip " + err.Error()
	}
	defer os.RemoveAll(dir)
	src := filepath.Join(dir, "probe_test.go")
	if err := os.WriteFile(src, []byte(fmt.Sprintf(int32Probe, a[0])), 0o644); err != nil {
		return "skip " + err.Error()
	}
	repo := repoDir()
	ov, _ := json.Marshal(map[string]any{"Replace": map[string]string{filepath.Join(repo, "tl", "zz_verif_int32_probe_test.go"): src}})
	ovf := filepath.Join(dir, "overlay.json")
	_ = os.WriteFile(ovf, ov, 0o644)
	cmd := osexec.Command("go", "test", "-overlay", ovf, "-vet=off", "-v", "-count=1", "-run", "TestVerifInt32", "./tl")
	cmd.Dir = repo
	cmd.Env = append(os.Environ(), "GOARCH=386", "CGO_ENABLED=0", "GOFLAGS=-mod=mod", "GOPROXY=off", "GOSUMDB=off", "GOTOOLCHAIN=local")
	done := make(chan struct{})
	var out []byte
	go func() { out, err = cmd.CombinedOutput(); close(done) }()
	select {
	case <-done:
	case <-time.After(50 * time.Second):
		if cmd.Process != nil {
			_ = cmd.Process.Kill()
		}
		return "skip probe timed out"
	}
	n := 0
	for _, l := range strings.Split(string(out), "\n") {
		if strings.HasPrefix(l, "PROBE panic ") {
			return "FAIL panic with 32-bit int: " + strings.ReplaceAll(strings.TrimPrefix(l, "PROBE panic "), " ", "_")
		}
		if strings.HasPrefix(l, "PROBE skip") {
			return "skip not a 32-bit build"
		}
		if strings.HasPrefix(l, "PROBE done ") {
			n++
		}
	}
	if n == 0 {
		// no 386 toolchain / cannot execute 386 binaries here: the oracle says so instead of passing silently
		s := strings.ReplaceAll(strings.TrimSpace(string(out)), "\n", "|")
		if len(s) > 160 {
			s = s[:160]
		}
		return "skip probe did not run: " + strings.ReplaceAll(s, " ", "_")
	}
	return fmt.Sprintf("ok %d", n)
}
