//go:build c03 || c04

package main

import (
	"fmt"
	"reflect"
	"sort"
	"strings"
	"sync"

	"github.com/tonkeeper/tongo/boc"
	"github.com/tonkeeper/tongo/tlb"
	"verifharness/h"
	"verifharness/tlbx"
)

// shared by C03 and C04: the type universe (built once from the regenerated registry) and the executors of the
// lines that are compared with the Lean model.

type tlbType struct {
	Name  string
	T     reflect.Type
	D     *tlbx.Desc
	Class string // model | partial | opaque | unsupported
	Why   []string
	Ty    string // descriptor text
	Env   string // environment text
}

var (
	tlbOnce  sync.Once
	tlbU     *tlbx.Universe
	tlbTypes []*tlbType
	tlbByN   map[string]*tlbType
)

func tlbInit() {
	tlbOnce.Do(func() {
		tlbU = tlbx.NewUniverse()
		tlbByN = map[string]*tlbType{}
		types := append([]reflect.Type{}, tlbx.Registry...)
		// the instantiated field types of tlb.Block (MERKLE_UPDATE ShardState, …): decoded on the real blocks
		bt := reflect.TypeOf(tlb.Block{})
		for i := 0; i < bt.NumField(); i++ {
			if ft := bt.Field(i).Type; ft.Kind() == reflect.Struct && ft.Name() != "" {
				types = append(types, ft)
			}
		}
		for _, t := range types {
			n := tlbx.TypeName(t)
			if _, dup := tlbByN[n]; dup {
				continue
			}
			d := tlbU.Describe(t)
			c, why := tlbU.Coverage(d)
			if tlbx.NotTlb(n) {
				c, why = "not-tlb", []string{tlbx.NonWf[n]}
			}
			tt := &tlbType{Name: n, T: t, D: d, Class: c, Why: why}
			if c == "model" || c == "partial" || c == "decode" {
				tt.Ty, tt.Env = tlbU.TyEnvText(d)
			}
			tlbTypes = append(tlbTypes, tt)
			tlbByN[n] = tt
		}
		sort.Slice(tlbTypes, func(i, j int) bool { return tlbTypes[i].Name < tlbTypes[j].Name })
	})
}

func tlbLookup(name string) *tlbType {
	tlbInit()
	t, ok := tlbByN[name]
	if !ok {
		panic("unknown type " + name)
	}
	return t
}

// marshalValue encodes v (of type tt.T) into a fresh cell with the package-level tlb.Marshal.
// A panic of the codec is reported as errPanic (the executors of compared lines re-raise it).
type errPanic struct{ v interface{} }

func (e errPanic) Error() string { return fmt.Sprintf("panic: %v", e.v) }

func isPanic(err error) bool { _, ok := err.(errPanic); return ok }

func marshalValue(v reflect.Value) (c *boc.Cell, err error) {
	defer func() {
		if r := recover(); r != nil {
			c, err = nil, errPanic{r}
		}
	}()
	c = boc.NewCell()
	if err := tlb.Marshal(c, v.Interface()); err != nil {
		return nil, err
	}
	return c, nil
}

func unmarshalInto(c *boc.Cell, t reflect.Type) (v reflect.Value, err error) {
	defer func() {
		if r := recover(); r != nil {
			v, err = reflect.Value{}, errPanic{r}
		}
	}()
	p := reflect.New(t)
	c.ResetCounters()
	if err := tlb.Unmarshal(c, p.Interface()); err != nil {
		return reflect.Value{}, err
	}
	return p.Elem(), nil
}

func outcomeOf(err error) string {
	if isPanic(err) {
		return "panic"
	}
	return "err"
}

// tlb.enc <GoType> <ty> <env> <val>  → ok <canonical table> | err      (the model ignores <GoType>)
func exTlbEnc(a []string) string {
	tt := tlbLookup(a[0])
	v, err := tlbx.Read(a[3], tt.T)
	if err != nil {
		return "bad-op"
	}
	c, err := marshalValue(v)
	if err != nil {
		return outcomeOf(err)
	}
	return "ok " + tlbx.CellText(c)
}

// tlb.canon <GoType> <ty> <env> <table> <class>: the class the Go code finds now (decode, re-encode, compare hashes)
func exTlbCanon(a []string) string {
	tt := tlbLookup(a[0])
	c := h.BuildCells(h.ParseTable(a[3]))[0]
	_, class := reDecode(tt, c)
	return "ok " + class
}

// tlb.canoninfo <GoType> <ty> <env> <table>: `canonical` iff the Go code reproduces the hash of the cell
func exTlbCanonInfo(a []string) string {
	tt := tlbLookup(a[0])
	c := h.BuildCells(h.ParseTable(a[3]))[0]
	if _, class := reDecode(tt, c); class == "same-hash" {
		return "ok canonical"
	}
	return "ok noncanonical"
}

// tlb.dec <GoType> <ty> <env> <table> → ok <val> | err
func exTlbDec(a []string) string {
	tt := tlbLookup(a[0])
	c := h.BuildCells(h.ParseTable(a[3]))[0]
	v, err := unmarshalInto(c, tt.T)
	if err != nil {
		return outcomeOf(err)
	}
	return "ok " + tlbx.Print(tlbx.Addressable(v))
}

func cellHashHex(c *boc.Cell) string {
	hs, err := c.Hash()
	if err != nil {
		return "hash-err"
	}
	return h.Hex(hs)
}

// roundTrip is the direct oracle on the implementation alone: Unmarshal(Marshal v) equals v (structural dump), the
// same constructor is selected for every tagged union (part of the dump), and encoding the decoded value again gives
// a cell with the same hash. VM stacks follow the documented convention: the decoded list is the reverse.
func roundTrip(tt *tlbType, v reflect.Value) string {
	c, err := marshalValue(v)
	if isPanic(err) {
		return "FAIL marshal-panic " + trunc(err.Error())
	}
	if err != nil {
		return "ok enc-err"
	}
	want := tlbx.Print(tlbx.Addressable(v))
	if tt.Name == "tlb.VmStack" {
		rv := reflect.MakeSlice(tt.T, v.Len(), v.Len())
		for i := 0; i < v.Len(); i++ {
			rv.Index(i).Set(v.Index(v.Len() - 1 - i))
		}
		want = tlbx.Print(tlbx.Addressable(rv))
	}
	v2, err := unmarshalInto(c, tt.T)
	if err != nil {
		return "FAIL roundtrip-decode-err " + trunc(err.Error())
	}
	got := tlbx.Print(tlbx.Addressable(v2))
	if got != want {
		return "FAIL roundtrip-value " + firstDiff(want, got)
	}
	if tt.Name == "tlb.VmStack" {
		return "ok"
	}
	c2, err := marshalValue(v2)
	if err != nil {
		return "FAIL reencode-err " + trunc(err.Error())
	}
	if cellHashHex(c2) != cellHashHex(c) {
		return "FAIL reencode-hash"
	}
	return "ok"
}

func trunc(s string) string {
	s = strings.ReplaceAll(s, " ", "_")
	if len(s) > 80 {
		s = s[:80]
	}
	return s
}

func firstDiff(a, b string) string {
	i := 0
	for i < len(a) && i < len(b) && a[i] == b[i] {
		i++
	}
	lo := i - 20
	if lo < 0 {
		lo = 0
	}
	cut := func(s string) string {
		hi := i + 30
		if hi > len(s) {
			hi = len(s)
		}
		if lo > len(s) {
			return ""
		}
		return s[lo:hi]
	}
	return fmt.Sprintf("at=%d want=%s got=%s", i, cut(a), cut(b))
}

// go.rt <GoType> <val>
func goRoundTrip(a []string) string {
	tt := tlbLookup(a[0])
	v, err := tlbx.Read(a[1], tt.T)
	if err != nil {
		return "bad-op"
	}
	return roundTrip(tt, v)
}

// reDecode is the direct oracle for cells that come from outside (real chain data, decode-only types): decoding
// must not panic; if the value can be encoded again, decoding that cell gives the same value; for canonical cells
// the hash is reproduced (non-canonical sources are counted, not failed).
func reDecode(tt *tlbType, c *boc.Cell) (answer string, class string) {
	v, err := unmarshalInto(c, tt.T)
	if isPanic(err) {
		return "FAIL unmarshal-panic " + trunc(err.Error()), "fail"
	}
	if err != nil {
		return "ok dec-err", "dec-err"
	}
	c2, err := marshalValue(v)
	if isPanic(err) {
		return "FAIL marshal-panic " + trunc(err.Error()), "fail"
	}
	if err != nil {
		return "ok enc-err", "enc-err"
	}
	v2, err := unmarshalInto(c2, tt.T)
	if err != nil {
		return "FAIL redecode-err " + trunc(err.Error()), "fail"
	}
	if a, b := tlbx.Print(tlbx.Addressable(v)), tlbx.Print(tlbx.Addressable(v2)); a != b {
		return "FAIL redecode-value " + firstDiff(a, b), "fail"
	}
	if cellHashHex(c) == cellHashHex(c2) {
		return "ok same-hash", "same-hash"
	}
	return "ok other-hash", "other-hash"
}

// go.redec <GoType> <table>
func goReDecode(a []string) string {
	tt := tlbLookup(a[0])
	c := h.BuildCells(h.ParseTable(a[1]))[0]
	ans, _ := reDecode(tt, c)
	return ans
}

// go.stable <GoType> <val>: for types whose decoder is hand-written over dependent fields (flags that switch other
// fields on and off) a structurally generated value may lie outside the domain; what must hold for ANY value is that
// nothing panics and that a decoded value is a fixed point: v -Marshal-> c -Unmarshal-> v2 -Marshal-> c2 -Unmarshal-> v3
// with v3 = v2 and hash(c2) reproduced by encoding v3.
func goStable(a []string) string {
	tt := tlbLookup(a[0])
	v, err := tlbx.Read(a[1], tt.T)
	if err != nil {
		return "bad-op"
	}
	c, err := marshalValue(v)
	if isPanic(err) {
		return "FAIL marshal-panic " + trunc(err.Error())
	}
	if err != nil {
		return "ok enc-err"
	}
	v2, err := unmarshalInto(c, tt.T)
	if isPanic(err) {
		return "FAIL unmarshal-panic " + trunc(err.Error())
	}
	if err != nil {
		return "ok dec-err"
	}
	r := roundTrip(tt, v2)
	if r == "ok enc-err" {
		return "FAIL decoded-value-not-encodable"
	}
	return r
}

func minInt(a, b int) int {
	if a < b {
		return a
	}
	return b
}

// tlb.parsetag <hex> → ok <len> <val> | err : the exported ParseTag on a constructor / Magic tag string
func exParseTag(a []string) string {
	t, err := tlb.ParseTag(string(h.MustUnHex(a[0])))
	if err != nil {
		return "err"
	}
	return fmt.Sprintf("ok %d %d", t.Len, t.Val)
}

// tlb.fieldtag <hex> → ok p|r|m|mr | err : the unexported parseTag (through the verif hook) on a field tag string
func exFieldTag(a []string) string {
	isRef, isMaybe, isMaybeRef, _, err := tlb.VerifParseTag(string(h.MustUnHex(a[0])))
	switch {
	case err != nil:
		return "err"
	case isMaybeRef:
		return "ok mr"
	case isMaybe:
		return "ok m"
	case isRef:
		return "ok r"
	}
	return "ok p"
}

// genTags: every tag string of the code base (collected by the X1 walk) and damaged variants of each
func genTags(g *h.G) {
	emit := func(s string) {
		g.Emit("tlb.parsetag", h.Hex([]byte(s)))
		g.Emit("tlb.fieldtag", h.Hex([]byte(s)))
	}
	all := map[string]bool{}
	for s := range tlbU.FieldTags {
		all[s] = true
	}
	for s := range tlbU.SumTags {
		all[s] = true
	}
	keys := make([]string, 0, len(all))
	for s := range all {
		keys = append(keys, s)
	}
	sort.Strings(keys)
	alphabet := "$#_^01af9gz maybebitsbytes"
	for _, s := range keys {
		emit(s)
		g.Count("tag_strings_of_the_code_base")
		for k := 0; k < 3; k++ {
			b := []byte(s)
			switch g.Rng.Intn(4) {
			case 0:
				if len(b) > 0 {
					b = b[:g.Rng.Intn(len(b))]
				}
			case 1:
				if len(b) > 0 {
					b[g.Rng.Intn(len(b))] = alphabet[g.Rng.Intn(len(alphabet))]
				}
			case 2:
				i := g.Rng.Intn(len(b) + 1)
				b = append(b[:i:i], append([]byte{alphabet[g.Rng.Intn(len(alphabet))]}, b[i:]...)...)
			default:
				b = append(b, alphabet[g.Rng.Intn(len(alphabet))])
			}
			emit(string(b))
			g.Count("tag_strings_damaged")
		}
	}
	for _, s := range []string{"", "$", "#", "$_", "#_", "x$_", "maybe", "maybe^", "^", "^ x", "maybe^maybe", "100bits",
		"32bytes", "$2", "#g", "#ffffffff", "#100000000", "$11111111111111111111111111111111", "$111111111111111111111111111111111",
		"a$1#2", "a#1$0", "#0201_", "$000000100000000", "!merkle_proof#03", "#FF", "#fF"} {
		emit(s)
	}
}
