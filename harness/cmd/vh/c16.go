//go:build c16

package main

// C16 — message and transaction identity hashes match their source cells.
//
// Compared with the model (Tongo.Message), cells given as canonical tables (row 0 = the message / transaction cell):
//   msg.hash <table>  -> ok <Hash(false)> <Hash(true)> <kind 0 int|1 ext-in|2 ext-out> <hash of Body.Value> | err
//   tx.hash <table>   -> ok <Transaction.Hash()>
//   msg.hash.hasher / tx.hash.hasher: the same through tlb.NewDecoder() (caching hasher); same model answer
// Tables also come with one leaf replaced by a pruned-branch cell (level 1), so that the source cell has a level > 0
// and the representation hash (level 3) differs from the level-0 hash.
// Direct oracles on the implementation alone:
//   go.msg.hash <table>        Hash(false) == Cell.Hash of the source, with and without a Hasher-carrying decoder, decoded
//                              twice, and when the message sits in references of an enclosing record; non-ext-in:
//                              Hash(true) == Hash(false); Hash(true) leaves the message value (its re-encoding) unchanged
//   go.msg.norm_eq <A> <B>     two ext-in messages that differ only in ignored parts: Hash(true) equal
//   go.msg.norm_ne <A> <B>     two ext-in messages that differ in destination or body: Hash(true) different
//   go.msg.canon <table>       Hash(true) == hash of tlb.Marshal of the canonical message (schema encoder)
//   go.tx.seq / go.msg.seq     ONE Transaction / Message variable reused for several decodes with SourceBoc()/Hash()/
//                              Hash(true) interleaved: every observation is the one of the LAST decoded source
//                              (tx.seq / msg.seq: the same scripts compared with the model)
//   go.tx.hash <table>         Transaction.Hash() == Cell.Hash, with/without hasher; DeserializeBoc(SourceBoc()) is one cell
//                              with the same hash and the same canonical dump

import (
	"bytes"
	"fmt"
	"math/big"
	"os"
	"path/filepath"
	"sort"
	"strings"

	"github.com/tonkeeper/tongo/boc"
	"github.com/tonkeeper/tongo/tlb"
	"verifharness/h"
)

func init() {
	h.Register(&h.Prop{ID: "C16", Gen: genC16, Exec: withCells(map[string]h.ExecFn{
		"msg.hash":             func(a []string) string { return exMsgHash(a, false) },
		"msg.hash.hasher":      func(a []string) string { return exMsgHash(a, true) },
		"msg.hash.moved":       exMsgHashMoved,
		"tx.hash":              func(a []string) string { return exTxHash(a, false) },
		"tx.hash.hasher":       func(a []string) string { return exTxHash(a, true) },
		"go.msg.shared_hasher": goMsgSharedHasher,
		"tx.seq":               func(a []string) string { return runTxSeq(a, false) },
		"go.tx.seq":            func(a []string) string { return runTxSeq(a, true) },
		"msg.seq":              func(a []string) string { return runMsgSeq(a, false) },
		"go.msg.seq":           func(a []string) string { return runMsgSeq(a, true) },
		"go.msg.hash":          goMsgHash,
		"go.msg.norm_eq":       func(a []string) string { return goMsgNormPair(a, true) },
		"go.msg.norm_ne":       func(a []string) string { return goMsgNormPair(a, false) },
		"go.msg.canon":         goMsgCanon,
		"go.tx.hash":           goTxHash,
	})})
}

func rootOf(table string) *boc.Cell { return h.BuildCells(h.ParseTable(table))[0] }

func msgKind(m *tlb.Message) int {
	switch m.Info.SumType {
	case "IntMsgInfo":
		return 0
	case "ExtInMsgInfo":
		return 1
	case "ExtOutMsgInfo":
		return 2
	}
	return 9
}

func unmarshalWith(hasher bool, c *boc.Cell, o any) error {
	if hasher {
		return tlb.NewDecoder().Unmarshal(c, o)
	}
	return tlb.Unmarshal(c, o)
}

func exMsgHash(a []string, hasher bool) string {
	c := rootOf(a[0])
	var m tlb.Message
	if err := unmarshalWith(hasher, c, &m); err != nil {
		return "err"
	}
	h0 := m.Hash(false)
	h1 := m.Hash(true)
	body := boc.Cell(m.Body.Value)
	bh, err := body.CopyRemaining().Hash()
	if err != nil {
		return "err"
	}
	return fmt.Sprintf("ok %x %x %d %x", h0[:], h1[:], msgKind(&m), bh)
}

// exMsgHashMoved: msg.hash.moved <table> <bits> <refs> <mode>: the message cell is handed to the decoder with its read
// cursors moved (`bits` bits and `refs` references already consumed, the consumed children partly read themselves);
// mode 0 plain, 1 a hasher that has already hashed the cell, 2 a hasher that has hashed only its children.
// Same answer as msg.hash: the model (mutable cells with cursors, TongoModel/MessageHeap.lean) says the cursors and the
// hasher state are irrelevant.
func exMsgHashMoved(a []string) string {
	c := rootOf(a[0])
	nb, nr := 0, 0
	fmt.Sscan(a[1], &nb)
	fmt.Sscan(a[2], &nr)
	if nb > c.BitsAvailableForRead() {
		nb = c.BitsAvailableForRead()
	}
	_, _ = c.ReadBits(nb)
	for i := 0; i < nr; i++ {
		ch, err := c.NextRef()
		if err != nil {
			break
		}
		_, _ = ch.ReadBits(ch.BitsAvailableForRead() / 2)
		_, _ = ch.NextRef()
	}
	var m tlb.Message
	var err error
	switch a[3] {
	case "1":
		dec := tlb.NewDecoder()
		var warm tlb.Message
		_ = dec.Unmarshal(rootOf(a[0]), &warm) // another pointer: does not warm the table for c
		hsh := boc.NewHasher()
		_, _ = hsh.Hash(c)
		err = dec.Unmarshal(c, &m)
	case "2":
		dec := tlb.NewDecoder()
		for _, r := range c.Refs() {
			var x tlb.Message
			_ = dec.Unmarshal(r, &x) // puts the children into the decoder's memo table (and moves their cursors)
		}
		err = dec.Unmarshal(c, &m)
	default:
		err = tlb.Unmarshal(c, &m)
	}
	if err != nil {
		return "err"
	}
	h0 := m.Hash(false)
	h1 := m.Hash(true)
	body := boc.Cell(m.Body.Value)
	bh, err := body.CopyRemaining().Hash()
	if err != nil {
		return "err"
	}
	return fmt.Sprintf("ok %x %x %d %x", h0[:], h1[:], msgKind(&m), bh)
}

func exTxHash(a []string, hasher bool) string {
	c := rootOf(a[0])
	var tx tlb.Transaction
	if err := unmarshalWith(hasher, c, &tx); err != nil {
		return "err"
	}
	hs := tx.Hash()
	return fmt.Sprintf("ok %x", hs[:])
}

func goMsgHash(a []string) string {
	want, err := rootOf(a[0]).Hash()
	if err != nil {
		return "ok" // no hash defined (depth limit): nothing to compare
	}
	// plain decoder
	c := rootOf(a[0])
	var m tlb.Message
	if err := tlb.Unmarshal(c, &m); err != nil {
		return "ok" // not a message: the property says nothing
	}
	h0 := m.Hash(false)
	if !bytes.Equal(h0[:], want) {
		return fmt.Sprintf("FAIL hash-plain got=%x want=%x", h0[:], want)
	}
	// asking for the normalised hash must not change the message: its re-encoding is the same before and after
	reenc := func() string {
		x := boc.NewCell()
		if err := tlb.Marshal(x, m); err != nil {
			return "-"
		}
		s, err := x.HashString()
		if err != nil {
			return "-"
		}
		return s
	}
	before := reenc()
	_ = m.Hash(true)
	if after := reenc(); before != after {
		return "FAIL norm-mutates-message before=" + before + " after=" + after
	}
	if m.Hash(false) != h0 {
		return "FAIL norm-changes-plain-hash"
	}
	// decoded a second time from the same (already read) cell
	var m2 tlb.Message
	if err := tlb.Unmarshal(c, &m2); err != nil {
		return "FAIL second-decode-error"
	}
	if m2.Hash(false) != h0 || m2.Hash(true) != m.Hash(true) {
		return "FAIL second-decode-differs"
	}
	// with a read cursor left in the middle of the cell
	c3 := rootOf(a[0])
	_, _ = c3.ReadUint(1)
	var m3 tlb.Message
	if err := tlb.Unmarshal(c3, &m3); err == nil {
		if m3.Hash(false) != h0 {
			return "FAIL hash-with-moved-cursor"
		}
	}
	// hasher-carrying decoder
	c4 := rootOf(a[0])
	var m4 tlb.Message
	dec := tlb.NewDecoder()
	if err := dec.Unmarshal(c4, &m4); err != nil {
		return "FAIL hasher-decode-error"
	}
	if m4.Hash(false) != h0 {
		hh := m4.Hash(false)
		return fmt.Sprintf("FAIL hash-hasher got=%x want=%x", hh[:], want)
	}
	if m4.Hash(true) != m.Hash(true) {
		return "FAIL norm-hasher-differs"
	}
	// the same decoder again (warm cache)
	var m5 tlb.Message
	if err := dec.Unmarshal(c4, &m5); err != nil || m5.Hash(false) != h0 {
		return "FAIL hash-hasher-warm"
	}
	// inside an enclosing record, in two reference positions
	outer := boc.NewCell()
	_ = outer.WriteUint(0x55, 7)
	mc := rootOf(a[0])
	_ = outer.AddRef(mc)
	_ = outer.AddRef(mc)
	var rec struct {
		X  tlb.Uint7
		M1 tlb.Message `tlb:"^"`
		M2 tlb.Ref[tlb.Message]
	}
	for _, d := range []*tlb.Decoder{nil, tlb.NewDecoder()} {
		outer.ResetCounters()
		var err error
		if d == nil {
			err = tlb.Unmarshal(outer, &rec)
		} else {
			err = d.Unmarshal(outer, &rec)
		}
		if err != nil {
			return "FAIL enclosing-decode-error"
		}
		if rec.M1.Hash(false) != h0 || rec.M2.Value.Hash(false) != h0 {
			return "FAIL hash-in-enclosing-record"
		}
	}
	if msgKind(&m) != 1 && m.Hash(true) != h0 {
		return "FAIL non-extin-normalised-differs"
	}
	return "ok"
}

// goMsgSharedHasher: ONE hasher-carrying decoder decodes several messages (each also twice, and all of them as
// references of one enclosing record, so cells are shared between the cached trees); every reported hash must be the
// Cell.Hash of its own source cell.
func goMsgSharedHasher(a []string) string {
	dec := tlb.NewDecoder()
	var cells []*boc.Cell
	var want [][]byte
	for _, t := range a {
		c := rootOf(t)
		hs, err := rootOf(t).Hash()
		if err != nil {
			return "ok"
		}
		cells = append(cells, c)
		want = append(want, hs)
	}
	for round := 0; round < 2; round++ {
		for i, c := range cells {
			var m tlb.Message
			if err := dec.Unmarshal(c, &m); err != nil {
				return "ok"
			}
			got := m.Hash(false)
			if !bytes.Equal(got[:], want[i]) {
				return fmt.Sprintf("FAIL shared-hasher round=%d msg=%d got=%x want=%x", round, i, got[:], want[i])
			}
		}
	}
	outer := boc.NewCell()
	for i := 0; i < len(cells) && i < 4; i++ {
		_ = outer.AddRef(cells[i])
	}
	for k := 0; k < len(cells) && k < 4; k++ {
		outer.ResetCounters()
		for j := 0; j <= k; j++ {
			r, err := outer.NextRef()
			if err != nil {
				return "FAIL shared-hasher-nextref"
			}
			var m tlb.Message
			if err := dec.Unmarshal(r, &m); err != nil {
				return "FAIL shared-hasher-decode"
			}
			if got := m.Hash(false); !bytes.Equal(got[:], want[j]) {
				return fmt.Sprintf("FAIL shared-hasher-enclosed msg=%d", j)
			}
		}
	}
	return "ok"
}

// seqDecoder: how the decodes of one script get their decoder: 0 plain tlb.Unmarshal, 1 ONE hasher-carrying decoder
// for the whole script, 2 a fresh hasher-carrying decoder per decode
type seqDecoder struct {
	mode   string
	shared *tlb.Decoder
}

func (d *seqDecoder) unmarshal(c *boc.Cell, o any) error {
	switch d.mode {
	case "1":
		if d.shared == nil {
			d.shared = tlb.NewDecoder()
		}
		return d.shared.Unmarshal(c, o)
	case "2":
		return tlb.NewDecoder().Unmarshal(c, o)
	}
	return tlb.Unmarshal(c, o)
}

// runTxSeq: ONE tlb.Transaction variable through a script of operations
//
//	<mode> <script> <table0> <table1> …      script = steps joined by '.': dI decode table I into the variable,
//	                                         s SourceBoc() parsed back, h Hash()
//
// spec form (tx.seq): "ok" + the hash observed at every s / h step; oracle form (go.tx.seq): after every step the
// observation must be the one of the LAST decoded source cell.
func runTxSeq(a []string, oracle bool) string {
	dec := &seqDecoder{mode: a[0]}
	tables := a[2:]
	var tx tlb.Transaction
	last := -1
	out := "ok"
	for k, st := range strings.Split(a[1], ".") {
		switch st[0] {
		case 'd':
			i := int(st[1] - '0')
			if err := dec.unmarshal(rootOf(tables[i]), &tx); err != nil {
				if oracle {
					return "ok"
				}
				return "err"
			}
			last = i
		case 's', 'h':
			if last < 0 {
				continue
			}
			var got []byte
			if st[0] == 'h' {
				hs := tx.Hash()
				got = hs[:]
			} else {
				b, err := tx.SourceBoc()
				if err != nil {
					return fmt.Sprintf("FAIL source-boc-error step=%d", k)
				}
				cells, err := boc.DeserializeBoc(b)
				if err != nil || len(cells) != 1 {
					return fmt.Sprintf("FAIL source-boc-parse step=%d", k)
				}
				got, err = cells[0].Hash()
				if err != nil {
					return fmt.Sprintf("FAIL source-boc-hash-error step=%d", k)
				}
				if oracle && h.Canon(cells) != h.Canon([]*boc.Cell{rootOf(tables[last])}) {
					return fmt.Sprintf("FAIL source-boc-is-not-the-last-decoded-cell step=%d (%s) last=d%d", k, st, last)
				}
			}
			if oracle {
				want, err := rootOf(tables[last]).Hash()
				if err == nil && !bytes.Equal(got, want) {
					return fmt.Sprintf("FAIL stale-%s step=%d last=d%d got=%x want=%x", map[byte]string{'s': "source-boc", 'h': "hash"}[st[0]], k, last, got, want)
				}
			} else {
				out += fmt.Sprintf(" %x", got)
			}
		}
	}
	return out
}

// runMsgSeq: the same for ONE tlb.Message variable: dI, h Hash(false), n Hash(true)
func runMsgSeq(a []string, oracle bool) string {
	dec := &seqDecoder{mode: a[0]}
	tables := a[2:]
	var m tlb.Message
	last := -1
	out := "ok"
	for k, st := range strings.Split(a[1], ".") {
		switch st[0] {
		case 'd':
			i := int(st[1] - '0')
			if err := dec.unmarshal(rootOf(tables[i]), &m); err != nil {
				if oracle {
					return "ok"
				}
				return "err"
			}
			last = i
		case 'h', 'n':
			if last < 0 {
				continue
			}
			got := m.Hash(st[0] == 'n')
			if oracle {
				var fresh tlb.Message
				if err := tlb.Unmarshal(rootOf(tables[last]), &fresh); err != nil {
					return "ok"
				}
				if want := fresh.Hash(st[0] == 'n'); got != want {
					return fmt.Sprintf("FAIL stale-msg-hash step=%d (%s) last=d%d got=%x want=%x", k, st, last, got[:], want[:])
				}
			} else {
				out += fmt.Sprintf(" %x", got[:])
			}
		}
	}
	return out
}

var seqScripts = []string{"d0.s.d1.s.h", "d0.s.h.d1.h.s", "d0.h.d1.s", "d0.d1.s.h", "d0.s.s.d1.s.d2.s.h.d0.s", "d0.h.s.d1.s.h.s.d2.h",
	"d0.s.d0.s", "d0.s.d1.h.d2.s", "d1.s.h.d0.s.h", "d0.h.h.s.s.d2.h.s.d1.s.s.h"}

func (c *c16Gen) randScript(alphabet string, ntab int) string {
	n := 4 + c.g.Rng.Intn(8)
	st := []string{fmt.Sprintf("d%d", c.g.Rng.Intn(ntab))}
	for i := 1; i < n; i++ {
		if c.g.Rng.Intn(3) == 0 {
			st = append(st, fmt.Sprintf("d%d", c.g.Rng.Intn(ntab)))
		} else {
			st = append(st, string(alphabet[c.g.Rng.Intn(len(alphabet))]))
		}
	}
	return strings.Join(st, ".")
}

// emitSeq: scripts over one reused variable, for the three decoder modes
func (c *c16Gen) emitSeq(op string, alphabet string, tables []string, nscripts int) {
	g := c.g
	for k := 0; k < nscripts; k++ {
		script := seqScripts[(k+g.Rng.Intn(3))%len(seqScripts)]
		if alphabet != "sh" {
			script = strings.NewReplacer("s", "n").Replace(script)
		}
		if k%2 == 1 {
			script = c.randScript(alphabet, len(tables))
		}
		mode := fmt.Sprint(k % 3)
		args := append([]string{mode, script}, tables...)
		g.Count("seq_" + op)
		g.Emit(op+".seq", args...)
		g.Emit("go."+op+".seq", args...)
	}
}

func normHash(table string) (tlb.Bits256, *tlb.Message, error) {
	var m tlb.Message
	if err := tlb.Unmarshal(rootOf(table), &m); err != nil {
		return tlb.Bits256{}, nil, err
	}
	if msgKind(&m) != 1 {
		return tlb.Bits256{}, nil, fmt.Errorf("not ext-in")
	}
	return m.Hash(true), &m, nil
}

func goMsgNormPair(a []string, wantEqual bool) string {
	ha, _, err := normHash(a[0])
	if err != nil {
		return "FAIL pair-decode-a " + err.Error()
	}
	hb, _, err := normHash(a[1])
	if err != nil {
		return "FAIL pair-decode-b " + err.Error()
	}
	if wantEqual && ha != hb {
		return fmt.Sprintf("FAIL norm-not-equal a=%x b=%x", ha[:], hb[:])
	}
	if !wantEqual && ha == hb {
		return fmt.Sprintf("FAIL norm-collides h=%x", ha[:])
	}
	return "ok"
}

func goMsgCanon(a []string) string {
	hn, m, err := normHash(a[0])
	if err != nil {
		return "ok"
	}
	// the canonical message through the schema encoder
	dest := m.Info.ExtInMsgInfo.Dest
	if dest.SumType == "AddrStd" {
		dest.AddrStd.Anycast = tlb.Maybe[tlb.Anycast]{}
	}
	body := boc.Cell(m.Body.Value)
	var canon tlb.Message
	canon.Info.SumType = "ExtInMsgInfo"
	canon.Info.ExtInMsgInfo = &struct {
		Src       tlb.MsgAddress
		Dest      tlb.MsgAddress
		ImportFee tlb.VarUInteger16
	}{Src: tlb.MsgAddress{SumType: "AddrNone"}, Dest: dest, ImportFee: tlb.VarUInteger16(*big.NewInt(0))}
	canon.Body.IsRight = true
	canon.Body.Value = tlb.Any(*body.CopyRemaining())
	c := boc.NewCell()
	if err := tlb.Marshal(c, canon); err != nil {
		return "FAIL canon-marshal-error " + err.Error()
	}
	hc, err := c.Hash()
	if err != nil {
		return "ok"
	}
	if !bytes.Equal(hc, hn[:]) {
		return fmt.Sprintf("FAIL norm-not-canonical norm=%x canon=%x", hn[:], hc)
	}
	// and the canonical message is a fixed point: decoding it and normalising again gives the same hash
	var back tlb.Message
	c.ResetCounters()
	if err := tlb.Unmarshal(c, &back); err != nil {
		return "FAIL canon-decode-error"
	}
	if back.Hash(true) != hn || back.Hash(false) != hn {
		return "FAIL canon-not-fixed-point"
	}
	return "ok"
}

func goTxHash(a []string) string {
	want, err := rootOf(a[0]).Hash()
	if err != nil {
		return "ok"
	}
	srcDump := h.Canon([]*boc.Cell{rootOf(a[0])})
	for _, withHasher := range []bool{false, true} {
		c := rootOf(a[0])
		var tx tlb.Transaction
		if withHasher {
			err = tlb.NewDecoder().Unmarshal(c, &tx)
		} else {
			err = tlb.Unmarshal(c, &tx)
		}
		if err != nil {
			if withHasher {
				return "FAIL hasher-decode-error"
			}
			return "ok"
		}
		hs := tx.Hash()
		if !bytes.Equal(hs[:], want) {
			return fmt.Sprintf("FAIL tx-hash hasher=%v got=%x want=%x", withHasher, hs[:], want)
		}
		b, err := tx.SourceBoc()
		if err != nil {
			return "FAIL source-boc-error " + err.Error()
		}
		cells, err := boc.DeserializeBoc(b)
		if err != nil || len(cells) != 1 {
			return "FAIL source-boc-parse"
		}
		hb, err := cells[0].Hash()
		if err != nil || !bytes.Equal(hb, want) {
			return fmt.Sprintf("FAIL source-boc-hash hasher=%v", withHasher)
		}
		if h.Canon(cells) != srcDump {
			return "FAIL source-boc-cells-differ"
		}
		// every message of the transaction reports the hash of its own cell
		if tx.Msgs.InMsg.Exists {
			// the in-message is the first reference of the transaction's first reference
			r0 := c.Refs()[0]
			if len(r0.Refs()) > 0 && r0.Refs()[0].CellType() == boc.OrdinaryCell { // a pruned in-message is skipped by the decoder
				mh, _ := r0.Refs()[0].Hash()
				got := tx.Msgs.InMsg.Value.Value.Hash(false)
				if !bytes.Equal(mh, got[:]) {
					return "FAIL in-msg-hash"
				}
			}
		}
	}
	return "ok"
}

// --------------------------------------------------------------------------------------------- synthetic messages

type bitw struct {
	b []bool
}

func (w *bitw) bit(x bool) { w.b = append(w.b, x) }
func (w *bitw) uint(v uint64, n int) {
	for i := n - 1; i >= 0; i-- {
		w.bit(v>>uint(i)&1 == 1)
	}
}
func (w *bitw) big(v *big.Int, n int) {
	for i := n - 1; i >= 0; i-- {
		w.bit(v.Bit(i) == 1)
	}
}
func (w *bitw) bits(x []bool) { w.b = append(w.b, x...) }
func (w *bitw) row(refs []int) h.Row {
	n := len(w.b)
	d := make([]byte, (n+7)/8)
	for i, x := range w.b {
		if x {
			d[i/8] |= 0x80 >> uint(i%8)
		}
	}
	return h.Row{BitLen: n, Data: d, Refs: refs}
}

type synAddr struct {
	kind    int // 0 none 1 extern 2 std 3 var
	anycast bool
	depth   int
	pfx     uint64
	wc      int64
	bits    []bool // extern / var address bits, std: 256 bits
}

func (a synAddr) write(w *bitw) {
	w.uint(uint64(a.kind), 2)
	any := func() {
		w.bit(a.anycast)
		if a.anycast {
			w.uint(uint64(a.depth), 5)
			w.uint(a.pfx, a.depth)
		}
	}
	switch a.kind {
	case 1:
		w.uint(uint64(len(a.bits)), 9)
		w.bits(a.bits)
	case 2:
		any()
		w.uint(uint64(a.wc)&0xff, 8)
		w.bits(a.bits)
	case 3:
		any()
		w.uint(uint64(len(a.bits)), 9)
		w.uint(uint64(a.wc)&0xffffffff, 32)
		w.bits(a.bits)
	}
}

// sansAnycastOfStd: the destination as the normalised hash sees it
func (a synAddr) normKey() string {
	b := a
	if b.kind == 2 {
		b.anycast, b.depth, b.pfx = false, 0, 0
	}
	var w bitw
	b.write(&w)
	return fmt.Sprint(w.b)
}

type synInit struct {
	form  int // 0 absent 1 inline 2 ref
	sd    int // -1 absent
	sp    int // -1 absent, else 0..3
	code  bool
	data  bool
	table []h.Row // for form 2: the state-init cell itself (its own sub-table, row 0)
}

type synMsg struct {
	kind      int
	src, dest synAddr
	fee       *big.Int // import fee (ext-in) / grams (int)
	flags     int
	lt        uint64
	at        uint32
	init      synInit
	bodyRef   bool
	body      []h.Row // body sub-table, row 0 = body cell
}

type c16Gen struct{ g *h.G }

func (c *c16Gen) rbits(n int) []bool {
	b := make([]bool, n)
	mode := c.g.Rng.Intn(4)
	for i := range b {
		switch mode {
		case 0:
			b[i] = false
		case 1:
			b[i] = true
		default:
			b[i] = c.g.Rng.Intn(2) == 1
		}
	}
	return b
}

func (c *c16Gen) addr(kinds ...int) synAddr {
	g := c.g
	a := synAddr{kind: kinds[g.Rng.Intn(len(kinds))]}
	if g.Rng.Intn(3) == 0 {
		a.anycast = true
		a.depth = 1 + g.Rng.Intn(30)
		a.pfx = g.Rng.Uint64() & (1<<uint(a.depth) - 1)
	}
	switch a.kind {
	case 1:
		a.anycast = false
		a.bits = c.rbits(g.Pick(0, 1, 7, 8, 64, 255, 256, 257, 511, g.Rng.Intn(512)))
	case 2:
		a.wc = int64(int8(g.Rng.Intn(256)))
		if g.Rng.Intn(2) == 0 {
			a.wc = int64(g.Pick(0, -1))
		}
		a.bits = c.rbits(256)
	case 3:
		a.wc = int64(int32(g.Rng.Uint32()))
		a.bits = c.rbits(g.Pick(0, 1, 8, 64, 255, 256, 257, g.Rng.Intn(300)))
	default:
		a.anycast = false
	}
	return a
}

// appendSub appends a sub-table to t, shifting its internal references; returns the index of its row 0
func appendSub(t *[]h.Row, sub []h.Row) int {
	base := len(*t)
	for _, r := range sub {
		nr := h.Row{Ty: r.Ty, Mask: r.Mask, BitLen: r.BitLen, Data: r.Data}
		for _, x := range r.Refs {
			nr.Refs = append(nr.Refs, x+base)
		}
		*t = append(*t, nr)
	}
	return base
}

func rowBits(r h.Row) []bool {
	b := make([]bool, r.BitLen)
	for i := range b {
		b[i] = r.Data[i/8]>>(7-uint(i%8))&1 == 1
	}
	return b
}

func writeVarUint(w *bitw, v *big.Int, lenBits int) {
	n := (v.BitLen() + 7) / 8
	w.uint(uint64(n), lenBits)
	w.big(v, 8*n)
}

// build returns the table of the message (row 0) or nil when it does not fit into one cell
func (m synMsg) build() []h.Row {
	var w bitw
	t := []h.Row{{}}
	var refs []int
	switch m.kind {
	case 0:
		w.bit(false)
		w.uint(uint64(m.flags), 3)
		m.src.write(&w)
		m.dest.write(&w)
		writeVarUint(&w, m.fee, 4)
		w.bit(false) // no extra currencies
		writeVarUint(&w, big.NewInt(int64(m.flags)*1000), 4)
		writeVarUint(&w, big.NewInt(int64(m.at)), 4)
		w.uint(m.lt, 64)
		w.uint(uint64(m.at), 32)
	case 1:
		w.uint(2, 2)
		m.src.write(&w)
		m.dest.write(&w)
		writeVarUint(&w, m.fee, 4)
	case 2:
		w.uint(3, 2)
		m.src.write(&w)
		m.dest.write(&w)
		w.uint(m.lt, 64)
		w.uint(uint64(m.at), 32)
	}
	// init
	switch m.init.form {
	case 0:
		w.bit(false)
	case 1:
		w.bit(true)
		w.bit(false)
		if m.init.sd >= 0 {
			w.bit(true)
			w.uint(uint64(m.init.sd), 5)
		} else {
			w.bit(false)
		}
		if m.init.sp >= 0 {
			w.bit(true)
			w.uint(uint64(m.init.sp), 2)
		} else {
			w.bit(false)
		}
		w.bit(m.init.code)
		if m.init.code {
			refs = append(refs, appendSub(&t, []h.Row{{BitLen: 16, Data: []byte{0xff, 0x00}}}))
		}
		w.bit(m.init.data)
		if m.init.data {
			refs = append(refs, appendSub(&t, []h.Row{{BitLen: 8, Data: []byte{byte(m.flags)}}}))
		}
		w.bit(false) // empty library
	case 2:
		w.bit(true)
		w.bit(true)
		refs = append(refs, appendSub(&t, m.init.table))
	}
	// body
	if m.bodyRef {
		w.bit(true)
		refs = append(refs, appendSub(&t, m.body))
	} else {
		w.bit(false)
		w.bits(rowBits(m.body[0]))
		base := len(t) - 1 // body row 0 is not materialised; its children are appended behind
		sub := m.body[1:]
		for _, x := range m.body[0].Refs {
			refs = append(refs, x+base)
		}
		for _, r := range sub {
			nr := h.Row{Ty: r.Ty, Mask: r.Mask, BitLen: r.BitLen, Data: r.Data}
			for _, x := range r.Refs {
				nr.Refs = append(nr.Refs, x+base)
			}
			t = append(t, nr)
		}
	}
	if len(w.b) > 1023 || len(refs) > 4 {
		return nil
	}
	t[0] = w.row(refs)
	return t
}

func (c *c16Gen) stateInitCell() []h.Row {
	// a state-init cell: no split depth, no special, code, data, empty library
	var w bitw
	w.bit(false)
	w.bit(false)
	w.bit(true)
	w.bit(true)
	w.bit(false)
	code := h.Row{BitLen: 24, Data: c.g.Bytes(3)}
	data := h.Row{BitLen: 64, Data: c.g.Bytes(8)}
	return []h.Row{w.row([]int{1, 2}), code, data}
}

func (c *c16Gen) body() []h.Row {
	g := c.g
	t := g.RandOrdinaryTable(h.DagOpts{MaxCells: g.Pick(1, 1, 2, 4, 9)})
	// bias the root: 0..1023 bits and 0..4 refs
	if g.Rng.Intn(4) == 0 {
		bl := g.Pick(0, 1, 7, 8, 500, 600, 700, 1000, 1023)
		t[0].BitLen, t[0].Data = bl, g.RandData(bl)
	}
	return t
}

func (c *c16Gen) message(kind int) synMsg {
	g := c.g
	m := synMsg{kind: kind, flags: g.Rng.Intn(8), lt: g.U64(), at: uint32(g.U64()), fee: new(big.Int)}
	switch kind {
	case 0:
		m.src, m.dest = c.addr(2, 3, 2, 0), c.addr(2, 3, 2)
		m.fee.SetUint64(g.U64())
	case 1:
		m.src, m.dest = c.addr(0, 1, 0), c.addr(2, 2, 2, 3)
		if g.Rng.Intn(15) == 0 {
			m.dest = c.addr(0, 1) // off-schema but accepted by the decoder
		}
		switch g.Rng.Intn(3) {
		case 0:
		case 1:
			m.fee.SetUint64(g.U64())
		default:
			m.fee.SetBytes(g.Bytes(1 + g.Rng.Intn(15)))
		}
	default:
		m.src, m.dest = c.addr(2, 3, 2), c.addr(0, 1)
	}
	m.init.form = g.Rng.Intn(3)
	m.init.sd, m.init.sp = -1, -1
	if m.init.form == 1 {
		if g.Rng.Intn(2) == 0 {
			m.init.sd = g.Rng.Intn(32)
		}
		if g.Rng.Intn(2) == 0 {
			m.init.sp = g.Rng.Intn(4)
		}
		m.init.code, m.init.data = g.Rng.Intn(2) == 0, g.Rng.Intn(2) == 0
	}
	if m.init.form == 2 {
		m.init.table = c.stateInitCell()
	}
	m.body = c.body()
	m.bodyRef = g.Rng.Intn(2) == 0
	return m
}

// withPruned replaces one leaf row (not the root) by a well-formed pruned-branch cell of level 1 (0x01, mask 0x01, a
// 32-byte hash, a 2-byte depth) and propagates the level mask to every ordinary ancestor, so the root has level 1.
// Returns nil when the table has no suitable leaf.
func withPruned(g *h.G, t []h.Row) []h.Row {
	var leaves []int
	for i := 1; i < len(t); i++ {
		if len(t[i].Refs) == 0 && t[i].Ty == 0 {
			leaves = append(leaves, i)
		}
	}
	if len(leaves) == 0 {
		return nil
	}
	out := make([]h.Row, len(t))
	copy(out, t)
	k := leaves[g.Rng.Intn(len(leaves))]
	data := append([]byte{0x01, 0x01}, g.Bytes(32)...)
	data = append(data, 0, byte(g.Rng.Intn(6)))
	out[k] = h.Row{Ty: 1, Mask: 1, BitLen: 288, Data: data}
	for i := len(out) - 1; i >= 0; i-- {
		if out[i].Ty != 0 {
			continue
		}
		m := 0
		for _, r := range out[i].Refs {
			m |= out[r].Mask
		}
		out[i].Mask = m
	}
	if out[0].Mask == 0 {
		return nil // the chosen leaf is not reachable from the root
	}
	return out
}

func safeMsg(t []h.Row) (ok bool) {
	defer func() {
		if recover() != nil {
			ok = false
		}
	}()
	var m tlb.Message
	return tlb.Unmarshal(h.BuildCells(t)[0], &m) == nil
}

// fit: flips the body placement (and then drops the init) until the message fits into a cell
func fit(m synMsg) (synMsg, []h.Row) {
	if t := m.build(); t != nil {
		return m, t
	}
	m.bodyRef = true
	if t := m.build(); t != nil {
		return m, t
	}
	m.init.form = 0
	return m, m.build()
}

func genC16(g *h.G) {
	genPrim(g, "prim.sha256")
	c := &c16Gen{g: g}
	n := g.Scale(2500, 40000)
	var recent []string
	var seqMsgs []string
	emitOne := func(ts string) {
		seqMsgs = append(seqMsgs, ts)
		if len(seqMsgs) == 3 {
			if g.Rng.Intn(g.Scale(12, 4)) == 0 {
				c.emitSeq("msg", "hn", seqMsgs, 3)
			}
			seqMsgs = nil
		}
		g.Emit("msg.hash", ts)
		g.Emit("msg.hash.hasher", ts)
		g.Emit("go.msg.hash", ts)
		if g.Rng.Intn(2) == 0 {
			g.Count("msg_decoded_with_moved_cursors")
			g.Emit("msg.hash.moved", ts, fmt.Sprint(g.Pick(0, 1, 7, 64, 300, 1023)), fmt.Sprint(g.Rng.Intn(5)), fmt.Sprint(g.Rng.Intn(3)))
		}
		recent = append(recent, ts)
		if len(recent) == 4 {
			g.Emit("go.msg.shared_hasher", recent...)
			recent = recent[:0]
		}
	}
	emitMsg := func(t []h.Row) {
		emitOne(h.TableString(t))
		// the same message with a pruned branch somewhere below it: the source cell then has level 1
		if pt := withPruned(g, t); pt != nil && safeMsg(pt) {
			g.Count("msg_with_pruned_branch")
			emitOne(h.TableString(pt))
		}
	}
	for i := 0; i < n; i++ {
		kind := i % 3
		m, t := fit(c.message(kind))
		if t == nil {
			continue
		}
		g.Count(fmt.Sprintf("kind_%d", kind))
		g.Count(fmt.Sprintf("init_form_%d", m.init.form))
		if m.bodyRef {
			g.Count("body_ref")
		} else {
			g.Count("body_inline")
		}
		g.Count(fmt.Sprintf("dest_kind_%d", m.dest.kind))
		g.Count(fmt.Sprintf("src_kind_%d", m.src.kind))
		if m.dest.anycast || m.src.anycast {
			g.Count("anycast")
		}
		g.Count(fmt.Sprintf("body_bits_%04d", m.body[0].BitLen/128*128))
		g.Count(fmt.Sprintf("body_refs_%d", len(m.body[0].Refs)))
		g.NonTrivial(h.TableString(t))
		emitMsg(t)
		if kind != 1 {
			continue
		}
		g.Emit("go.msg.canon", h.TableString(t))
		// a partner differing only in ignored parts
		p := m
		p.src = c.addr(0, 1, 1)
		p.fee = new(big.Int).SetBytes(g.Bytes(g.Rng.Intn(16)))
		q := c.message(1)
		p.init = q.init
		p.bodyRef = !m.bodyRef
		if p.dest.kind == 2 {
			p.dest.anycast = !m.dest.anycast
			p.dest.depth = 1 + g.Rng.Intn(30)
			p.dest.pfx = g.Rng.Uint64() & (1<<uint(p.dest.depth) - 1)
		}
		if pt := p.build(); pt != nil {
			g.Count("pair_equal")
			if p.bodyRef != m.bodyRef {
				g.Count("pair_equal_inline_vs_ref")
			}
			g.Emit("go.msg.norm_eq", h.TableString(t), h.TableString(pt))
			emitMsg(pt)
		} else {
			p.bodyRef = m.bodyRef
			if pt := p.build(); pt != nil {
				g.Count("pair_equal")
				g.Emit("go.msg.norm_eq", h.TableString(t), h.TableString(pt))
			}
		}
		// partners differing in the destination or the body
		d := m
		switch g.Rng.Intn(6) {
		case 0: // one address bit
			d.dest.bits = append([]bool{}, m.dest.bits...)
			if len(d.dest.bits) > 0 {
				k := g.Rng.Intn(len(d.dest.bits))
				d.dest.bits[k] = !d.dest.bits[k]
			} else {
				d.dest.wc++
			}
		case 1: // workchain
			d.dest.wc = m.dest.wc ^ 1
		case 2: // anycast of a var destination is significant
			if d.dest.kind == 3 {
				d.dest.anycast = !m.dest.anycast
				d.dest.depth, d.dest.pfx = 3, 5
			} else {
				d.dest.wc = m.dest.wc ^ 2
			}
		case 3: // one body bit / body length
			d.body = append([]h.Row{}, m.body...)
			r := d.body[0]
			if r.BitLen > 0 {
				nd := append([]byte{}, r.Data...)
				k := g.Rng.Intn(r.BitLen)
				nd[k/8] ^= 0x80 >> uint(k%8)
				r.Data = nd
			} else {
				r.BitLen, r.Data = 1, []byte{0x80}
			}
			d.body[0] = r
		case 4: // trailing zero bit appended to the body
			d.body = append([]h.Row{}, m.body...)
			r := d.body[0]
			if r.BitLen < 1000 {
				r.BitLen++
				nd := make([]byte, (r.BitLen+7)/8)
				copy(nd, r.Data)
				r.Data = nd
				d.body[0] = r
			} else {
				d.dest.wc = m.dest.wc ^ 4
			}
		default: // a different body altogether
			d.body = c.body()
			if h.TableString(d.body) == h.TableString(m.body) {
				d.dest.wc = m.dest.wc ^ 1
			}
		}
		if d.dest.normKey() == m.dest.normKey() && h.Canon(h.BuildCells(d.body)[:1]) == h.Canon(h.BuildCells(m.body)[:1]) {
			continue
		}
		if _, dt := fit(d); dt != nil {
			g.Count("pair_different")
			g.Emit("go.msg.norm_ne", h.TableString(t), h.TableString(dt))
		}
	}
	c.realBlocks()
}

// safeTx decodes a cell as a transaction; nil when it is not one (errors and panics of the decoder included: the
// generator must survive a broken implementation so that the oracles can report it)
func safeTx(x *boc.Cell) (res *tlb.Transaction) {
	defer func() {
		if recover() != nil {
			res = nil
		}
	}()
	var tx tlb.Transaction
	if tlb.Unmarshal(x, &tx) != nil {
		return nil
	}
	return &tx
}

// realBlocks: every transaction of the blocks in tlb/testdata and every message inside them
func (c *c16Gen) realBlocks() {
	g := c.g
	repo := os.Getenv("VERIF_REPO")
	if repo == "" {
		repo = "/repo"
	}
	files, _ := filepath.Glob(filepath.Join(repo, "tlb", "testdata", "block-*", "block.bin"))
	sort.Strings(files)
	if len(files) == 0 {
		h.Fatalf("c16: no blocks found under %s/tlb/testdata", repo)
	}
	for _, f := range files {
		data, err := os.ReadFile(f)
		if err != nil {
			h.Fatalf("c16: %v", err)
		}
		roots, err := boc.DeserializeBoc(data)
		if err != nil || len(roots) != 1 {
			h.Fatalf("c16: cannot parse %s", f)
		}
		seen := map[*boc.Cell]bool{}
		var txCells []*boc.Cell
		var walk func(x *boc.Cell)
		walk = func(x *boc.Cell) {
			if seen[x] {
				return
			}
			seen[x] = true
			if x.CellType() == boc.OrdinaryCell && x.BitSize() >= 4 {
				x.ResetCounters()
				if tag, err := x.ReadUint(4); err == nil && tag == 7 {
					x.ResetCounters()
					if safeTx(x) != nil {
						txCells = append(txCells, x)
					}
				}
				x.ResetCounters()
			}
			for _, r := range x.Refs() {
				walk(r)
			}
		}
		walk(roots[0])
		name := filepath.Base(filepath.Dir(f))
		var seqTx []string
		for _, x := range txCells {
			g.Count("real_tx_" + name)
			ts := strings.Fields(h.Canon([]*boc.Cell{x}))[0]
			g.Emit("tx.hash", ts)
			g.Emit("tx.hash.hasher", ts)
			g.Emit("go.tx.hash", ts)
			g.NonTrivial(ts)
			seqTx = append(seqTx, ts)
			if len(seqTx) == 3 {
				if g.Rng.Intn(g.Scale(4, 1)) == 0 {
					c.emitSeq("tx", "sh", seqTx, 6)
				}
				seqTx = nil
			}
			if pt := withPruned(g, h.ParseTable(ts)); pt != nil {
				if pc := h.BuildCells(pt)[0]; safeTx(pc) != nil {
					g.Count("real_tx_with_pruned_branch_" + name)
					ps := h.TableString(pt)
					g.Emit("tx.hash", ps)
					g.Emit("tx.hash.hasher", ps)
					g.Emit("go.tx.hash", ps)
				}
			}
			// the messages: the first reference holds in_msg (a reference) and the out_msgs dictionary
			x.ResetCounters()
			txp := safeTx(x)
			if txp == nil {
				continue
			}
			tx := *txp
			want := map[string]bool{}
			if tx.Msgs.InMsg.Exists {
				hs := tx.Msgs.InMsg.Value.Value.Hash(false)
				want[string(hs[:])] = true
			}
			for _, om := range tx.Msgs.OutMsgs.Values() {
				hs := om.Value.Hash(false)
				want[string(hs[:])] = true
			}
			ms := map[*boc.Cell]bool{}
			var find func(y *boc.Cell, depth int)
			find = func(y *boc.Cell, depth int) {
				if ms[y] || depth > 20 {
					return
				}
				ms[y] = true
				if hs, err := y.Hash(); err == nil && want[string(hs)] {
					g.Count("real_msg_" + name)
					mt := strings.Fields(h.Canon([]*boc.Cell{y}))[0]
					g.Emit("msg.hash", mt)
					g.Emit("msg.hash.hasher", mt)
					g.Emit("go.msg.hash", mt)
					g.Emit("go.msg.canon", mt)
					if pt := withPruned(g, h.ParseTable(mt)); pt != nil && safeMsg(pt) {
						g.Count("real_msg_with_pruned_branch_" + name)
						ps := h.TableString(pt)
						g.Emit("msg.hash", ps)
						g.Emit("msg.hash.hasher", ps)
						g.Emit("go.msg.hash", ps)
					}
					g.NonTrivial(mt)
					delete(want, string(hs))
					return
				}
				for _, r := range y.Refs() {
					find(r, depth+1)
				}
			}
			if len(x.Refs()) > 0 {
				find(x.Refs()[0], 0)
			}
			if len(want) > 0 {
				g.Count("real_msg_not_located")
			}
		}
	}
}
