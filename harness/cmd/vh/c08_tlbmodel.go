//go:build c08

package main

// C08: correspondence between the modelled TL-B custom decoders (lean/TongoModel/TlbRead.lean) and the real ones:
// hashmap labels, the hashmap walk, countLeafs, SnakeData, BinTree.

import (
	"fmt"
	"reflect"
	"sort"
	"strconv"
	"strings"

	"github.com/tonkeeper/tongo/boc"
	"github.com/tonkeeper/tongo/tlb"
	"verifharness/h"
)

func binOrDash(s string) string {
	if s == "" {
		return "-"
	}
	return s
}

func exTLBLabel(a []string) string {
	size, _ := strconv.Atoi(a[0])
	kcap, _ := strconv.Atoi(a[1])
	cells := h.BuildCells(h.ParseTable(a[2]))
	n, key, err := tlb.VerifLoadLabel(size, cells[0], kcap)
	if err != nil {
		return "err"
	}
	return fmt.Sprintf("ok %d %s", n, binOrDash(key.BinaryString()))
}

func exTLBCountLeafs(a []string) string {
	ks, _ := strconv.Atoi(a[0])
	left, _ := strconv.Atoi(a[1])
	cells := h.BuildCells(h.ParseTable(a[2]))
	n, err := tlb.VerifCountLeafs(ks, left, cells[0])
	if err != nil {
		return "err"
	}
	return fmt.Sprintf("ok %d", n)
}

func exTLBSnake(a []string) string {
	cells := h.BuildCells(h.ParseTable(a[0]))
	var s tlb.SnakeData
	if err := tlb.Unmarshal(cells[0], &s); err != nil {
		return "err"
	}
	bs := boc.BitString(s)
	return "ok " + binOrDash(bs.BinaryString())
}

func exTLBBinTree(a []string) string {
	cells := h.BuildCells(h.ParseTable(a[0]))
	var b tlb.BinTree[struct{}]
	if err := tlb.Unmarshal(cells[0], &b); err != nil {
		return "err"
	}
	return fmt.Sprintf("ok %d", len(b.Values))
}

func keysOut[K interface{ ~uint8 | ~uint32 }](keys []K, bits int) string {
	if len(keys) == 0 {
		return "ok -"
	}
	ss := make([]string, len(keys))
	for i, k := range keys {
		s := strconv.FormatUint(uint64(k), 2)
		ss[i] = strings.Repeat("0", bits-len(s)) + s
	}
	return "ok " + strings.Join(ss, ".")
}

func exTLBHashmap(a []string) string {
	cells := h.BuildCells(h.ParseTable(a[1]))
	switch a[0] {
	case "3":
		var m tlb.Hashmap[tlb.Uint3, struct{}]
		if err := tlb.Unmarshal(cells[0], &m); err != nil {
			return "err"
		}
		return keysOut(m.Keys(), 3)
	case "8":
		var m tlb.Hashmap[tlb.Uint8, struct{}]
		if err := tlb.Unmarshal(cells[0], &m); err != nil {
			return "err"
		}
		return keysOut(m.Keys(), 8)
	case "32":
		var m tlb.Hashmap[tlb.Uint32, struct{}]
		if err := tlb.Unmarshal(cells[0], &m); err != nil {
			return "err"
		}
		return keysOut(m.Keys(), 32)
	}
	return "bad-op"
}

// ---------------------------------------------------------------------------------------- generation

type bitw struct{ bits []bool }

func (w *bitw) u(v uint64, n int) {
	for i := n - 1; i >= 0; i-- {
		w.bits = append(w.bits, v>>uint(i)&1 == 1)
	}
}
func (w *bitw) row(refs []int) h.Row {
	if len(w.bits) > 1023 {
		w.bits = w.bits[:1023]
	}
	r := h.Row{BitLen: len(w.bits), Data: make([]byte, (len(w.bits)+7)/8), Refs: refs}
	for i, b := range w.bits {
		if b {
			r.Data[i/8] |= 1 << uint(7-i%8)
		}
	}
	return r
}

func minBitsGo(n int) int {
	if n < 0 {
		return 64
	}
	k := 0
	for v := uint64(n); v != 0; v >>= 1 {
		k++
	}
	return k
}

// labelCell: a cell that starts with a label of the given form whose length field says n
func (gc *genCtx) labelRow(form, size, n int) h.Row {
	g := gc.g
	w := &bitw{}
	switch form {
	case 0: // hml_short$0 unary
		w.u(0, 1)
		for i := 0; i < n; i++ {
			w.u(1, 1)
		}
		w.u(0, 1)
		for i := 0; i < n; i++ {
			w.u(uint64(g.Rng.Intn(2)), 1)
		}
	case 1: // hml_long$10
		w.u(2, 2)
		w.u(uint64(n), minBitsGo(size))
		for i := 0; i < n && i < 1100; i++ {
			w.u(uint64(g.Rng.Intn(2)), 1)
		}
	case 2: // hml_same$11
		w.u(3, 2)
		w.u(uint64(g.Rng.Intn(2)), 1)
		w.u(uint64(n), minBitsGo(size))
	}
	// a tail of random bits, sometimes cut short
	for i := g.Rng.Intn(20); i > 0; i-- {
		w.u(uint64(g.Rng.Intn(2)), 1)
	}
	r := w.row(nil)
	if g.Rng.Intn(5) == 0 && r.BitLen > 0 {
		setBitLen(&r, g.Rng.Intn(r.BitLen))
	}
	return r
}

func (gc *genCtx) genTLBModel() {
	g := gc.g
	// labels
	for k := 0; k < g.Scale(1500, 30000); k++ {
		size := g.Pick(0, 1, 2, 3, 7, 8, 9, 31, 32, 255, 256, 1023, -1, -5, 1<<20)
		kcap := g.Pick(0, 1, 2, 8, 32, 256, 1023)
		if g.Rng.Intn(2) == 0 {
			kcap = size
			if kcap < 0 {
				kcap = 8
			}
			if kcap > 1023 {
				kcap = 1023
			}
		}
		n := g.Pick(0, 1, 2, 7, 8, 9, 30, 255, 256, 257, 500)
		if g.Rng.Intn(2) == 0 && kcap > 0 {
			n = g.Rng.Intn(kcap + 2)
		}
		var r h.Row
		if g.Rng.Intn(8) == 0 {
			bl := g.RandBitLen(1023)
			r = h.Row{BitLen: bl, Data: g.RandData(bl)}
		} else {
			r = gc.labelRow(g.Rng.Intn(3), size, n)
		}
		g.Emit("tlb.label", strconv.Itoa(size), strconv.Itoa(kcap), h.TableString([]h.Row{r}))
		g.NonTrivial("label" + r.String() + strconv.Itoa(size))
	}
	// hashmaps: valid encodings of random key sets, damaged; random trees
	vg := &valGen{rng: g.Rng}
	mk := func(bits int) []h.Row {
		n := 1 + g.Rng.Intn(6)
		c := boc.NewCell()
		var err error
		switch bits {
		case 3:
			seen := map[tlb.Uint3]bool{}
			var ks []tlb.Uint3
			for i := 0; i < n; i++ {
				k := tlb.Uint3(g.Rng.Intn(8))
				if !seen[k] {
					seen[k] = true
					ks = append(ks, k)
				}
			}
			sortSlice(ks)
			err = safeMarshalTLB(c, tlb.NewHashmap(ks, make([]struct{}, len(ks))))
		case 8:
			seen := map[tlb.Uint8]bool{}
			var ks []tlb.Uint8
			for i := 0; i < n; i++ {
				k := tlb.Uint8(g.Rng.Intn(256))
				if !seen[k] {
					seen[k] = true
					ks = append(ks, k)
				}
			}
			sortSlice(ks)
			err = safeMarshalTLB(c, tlb.NewHashmap(ks, make([]struct{}, len(ks))))
		default:
			seen := map[tlb.Uint32]bool{}
			var ks []tlb.Uint32
			for i := 0; i < n; i++ {
				k := tlb.Uint32(g.U64())
				if !seen[k] {
					seen[k] = true
					ks = append(ks, k)
				}
			}
			sortSlice(ks)
			err = safeMarshalTLB(c, tlb.NewHashmap(ks, make([]struct{}, len(ks))))
		}
		if err != nil {
			return nil
		}
		limit := 200
		return cellToRows(c, &limit)
	}
	for k := 0; k < g.Scale(600, 12000); k++ {
		bits := g.Pick(3, 8, 32)
		t := mk(bits)
		if t == nil || g.Rng.Intn(6) == 0 {
			t = randTree(g)
		}
		switch g.Rng.Intn(4) {
		case 0:
		case 1, 2:
			t = damage(t, g.Rng.Intn(nDamageKinds), g.Rng.Intn(len(t)), g.Rng.Intn(1024), g.Rng)
		default:
			t = damage(t, g.Rng.Intn(nDamageKinds), g.Rng.Intn(len(t)), g.Rng.Intn(1024), g.Rng)
			t = damage(t, g.Rng.Intn(nDamageKinds), g.Rng.Intn(len(t)), g.Rng.Intn(1024), g.Rng)
		}
		ts := h.TableString(t)
		g.Emit("tlb.hashmap", strconv.Itoa(bits), ts)
		ks := g.Pick(bits, bits, bits, 0, 1, 300, -3)
		left := ks
		if g.Rng.Intn(4) == 0 {
			left = g.Pick(0, 1, bits-1, bits+1, -1, 70)
		}
		g.Emit("tlb.countleafs", strconv.Itoa(ks), strconv.Itoa(left), ts)
		g.NonTrivial("hm" + ts)
	}
	// snake chains and bin trees
	for k := 0; k < g.Scale(500, 8000); k++ {
		var t []h.Row
		switch g.Rng.Intn(4) {
		case 0:
			t = randTree(g)
		case 1:
			t = bombTable(g.Rng, nil, 1, 1+g.Rng.Intn(12))
		default:
			c := boc.NewCell()
			var sd tlb.SnakeData
			vg.fill(reflectValueOf(&sd), 0)
			if safeMarshalTLB(c, sd) != nil {
				continue
			}
			limit := 50
			t = cellToRows(c, &limit)
			if t == nil {
				continue
			}
		}
		if g.Rng.Intn(2) == 0 {
			t = damage(t, g.Rng.Intn(nDamageKinds), g.Rng.Intn(len(t)), g.Rng.Intn(1024), g.Rng)
		}
		g.Emit("tlb.snake", h.TableString(t))
		g.NonTrivial("snake" + h.TableString(t))
	}
	for k := 0; k < g.Scale(500, 8000); k++ {
		// a random binary tree: inner nodes start with bit 1 and have two references, leaves start with bit 0
		var t []h.Row
		var build func(depth int) int
		build = func(depth int) int {
			id := len(t)
			t = append(t, h.Row{})
			w := &bitw{}
			if depth < 5 && g.Rng.Intn(5) < 3 {
				w.u(1, 1)
				w.u(uint64(g.Rng.Intn(16)), 4)
				l := build(depth + 1)
				r := build(depth + 1)
				t[id] = w.row([]int{l, r})
			} else {
				w.u(0, 1)
				w.u(uint64(g.Rng.Intn(16)), 4)
				t[id] = w.row(nil)
			}
			return id
		}
		build(0)
		if g.Rng.Intn(2) == 0 {
			t = damage(t, g.Rng.Intn(nDamageKinds), g.Rng.Intn(len(t)), g.Rng.Intn(1024), g.Rng)
		}
		if g.Rng.Intn(8) == 0 {
			t = randTree(g)
		}
		g.Emit("tlb.bintree", h.TableString(t))
		g.NonTrivial("bintree" + h.TableString(t))
	}
}

func reflectValueOf(p any) reflect.Value { return reflect.ValueOf(p).Elem() }

func sortSlice[K interface{ ~uint8 | ~uint32 }](ks []K) {
	sort.Slice(ks, func(i, j int) bool { return ks[i] < ks[j] })
}
