//go:build c07

package main

import (
	"verifharness/h"
)

func init() {
	h.Register(&h.Prop{ID: "C07", Gen: genC07, Exec: withBoc(map[string]h.ExecFn{})})
}

func genC07(g *h.G) {
}
