//go:build c07

package main

import (
	"encoding/base64"
	"encoding/binary"
	"encoding/hex"
	"fmt"
	"hash/crc32"
	"math/bits"
	"strings"

	"github.com/tonkeeper/tongo/boc"
	"verifharness/h"
)

func init() {
	h.Register(&h.Prop{ID: "C07", Gen: genC07, Exec: withBoc(map[string]h.ExecFn{
		"go.parse.deep": goParseDeep,
	})})
}

// go.parse.deep <cells>: a chain of that many cells (built here, not shipped on the line) is parsed and hashed.
// Measures the recursion of the hasher on a very deep ACYCLIC input (DESIGN C07 "Partial").
func goParseDeep(a []string) string {
	var n int
	fmt.Sscan(a[0], &n)
	return goParse([]string{h.Hex(chainBoc(n))})
}

// chainBoc: a bag of cells holding one chain of n cells.
func chainBoc(n int) []byte {
	size := h.MinSize(n)
	t := make([]h.Row, n)
	for i := range t {
		t[i] = h.Row{BitLen: 8, Data: []byte{byte(i)}}
		if i+1 < n {
			t[i].Refs = []int{i + 1}
		}
	}
	tot := h.DataSize(size, t, nil)
	off := (bits.Len(uint(tot)) + 7) / 8
	return h.EmitBoc(h.EmitParams{Size: size, OffBytes: off}, t, []int{0})
}

// ------------------------------------------------------------------------------------------------ raw bag of cells

// rawBoc is a bag of cells field by field; every field may lie.
type rawBoc struct {
	magic    []byte
	flagByte byte
	size     int // width used for writing counters, roots and refs
	off      int // width used for writing tot_cells_size and index entries
	offByte  byte
	cells    uint64
	roots    uint64
	absent   uint64
	tot      uint64
	rootList []uint64
	hasRoots bool
	index    []uint64 // nil: none
	cellData []byte
	crc      int // 0 none, 1 right, 2 wrong
	trailing []byte
}

func (r *rawBoc) bytes() []byte {
	out := append([]byte{}, r.magic...)
	out = append(out, r.flagByte, r.offByte)
	out = append(out, h.BE(r.size, r.cells)...)
	out = append(out, h.BE(r.size, r.roots)...)
	out = append(out, h.BE(r.size, r.absent)...)
	out = append(out, h.BE(r.off, r.tot)...)
	if r.hasRoots {
		for _, x := range r.rootList {
			out = append(out, h.BE(r.size, x)...)
		}
	}
	for _, x := range r.index {
		out = append(out, h.BE(r.off, x)...)
	}
	out = append(out, r.cellData...)
	switch r.crc {
	case 1, 2:
		var cs [4]byte
		binary.LittleEndian.PutUint32(cs[:], crc32.Checksum(out, crc32.MakeTable(crc32.Castagnoli)))
		if r.crc == 2 {
			cs[1] ^= 0x40
		}
		out = append(out, cs[:]...)
	}
	return append(out, r.trailing...)
}

// interesting values for a counter written on w bytes, around `actual`
func (g *cgen) count(actual uint64, w int) uint64 {
	var top uint64 = ^uint64(0)
	if w < 8 {
		top = (uint64(1) << (8 * uint(w))) - 1
	}
	switch g.g.Rng.Intn(14) {
	case 0:
		return 0
	case 1:
		return 1
	case 2:
		return actual + 1
	case 3:
		if actual > 0 {
			return actual - 1
		}
		return 2
	case 4:
		return 255
	case 5:
		return 256
	case 6:
		return 65535
	case 7:
		return 65536
	case 8:
		return 1<<32 - 1
	case 9:
		return top
	case 10:
		return 1 << 63
	case 11:
		return 1<<63 - 1
	case 12:
		return uint64(g.g.Rng.Intn(1000))
	default:
		return g.g.Rng.Uint64()
	}
}

type cgen struct{ g *h.G }

// adversarial builds a mostly valid bag of cells and applies a few lies to it.
func (cg *cgen) adversarial() []byte {
	g := cg.g
	// a small valid table, sometimes empty
	var t []h.Row
	if g.Rng.Intn(12) != 0 {
		t = g.RandTable(h.DagOpts{MaxCells: g.Pick(1, 1, 2, 3, 5, 9), Exotic: g.Rng.Intn(2) == 0, MaxBits: g.Pick(0, 16, 16, 80)},
			[]string{"rand", "chain", "diamond", "wide"}[g.Rng.Intn(4)])
	}
	n := len(t)
	r := &rawBoc{magic: h.MagicBytes[0], hasRoots: true}
	kind := g.Rng.Intn(10)
	switch {
	case kind == 0:
		r.magic, r.hasRoots = h.MagicBytes[1], false
	case kind == 1:
		r.magic, r.hasRoots = h.MagicBytes[2], false
	}
	r.size = h.MinSize(n)
	if g.Rng.Intn(3) == 0 {
		r.size = r.size + g.Rng.Intn(4-r.size+1)
	}
	// per-cell encodings with cell-level lies
	lies := g.Pick(0, 1, 1, 1, 2, 2, 3, 4)
	cellLie := -1
	if lies > 0 && n > 0 && g.Rng.Intn(2) == 0 {
		cellLie = g.Rng.Intn(n)
		lies--
	}
	g.Count(fmt.Sprintf("adv_lies_%d", lies))
	var ends []uint64
	for i, row := range t {
		var stored []byte
		if g.Rng.Intn(8) == 0 {
			stored = g.Bytes((bits.OnesCount(uint(row.Mask)) + 1) * 34)
		}
		c := h.EmitCell(r.size, row, stored)
		if i == cellLie {
			switch g.Rng.Intn(12) {
			case 0: // d1: any combination of refs 0..7 / exotic / with-hashes / mask
				c[0] = byte(g.Rng.Intn(256))
				g.Count("adv_cell_d1")
			case 1: // d2
				c[1] = byte(g.Pick(0, 1, 2, 3, 254, 255, g.Rng.Intn(256)))
				g.Count("adv_cell_d2")
			case 2: // with-hashes flag without the stored bytes
				c[0] |= 16
				g.Count("adv_cell_with_hashes")
			case 3: // exotic flag on whatever the data is, or exotic first byte
				c[0] |= 8
				if len(c) > 2 {
					c[2] = byte(g.Pick(0, 1, 2, 3, 4, 5, 255))
				}
				g.Count("adv_cell_exotic")
			case 4: // reference to itself
				c = refLie(c, r.size, len(row.Refs), uint64(i), g)
				g.Count("adv_ref_self")
			case 5: // backward reference
				c = refLie(c, r.size, len(row.Refs), uint64(g.Rng.Intn(i+1)), g)
				g.Count("adv_ref_backward")
			case 6: // out of range
				c = refLie(c, r.size, len(row.Refs), uint64(n+g.Rng.Intn(3)), g)
				g.Count("adv_ref_out_of_range")
			case 7: // maximal value
				c = refLie(c, r.size, len(row.Refs), ^uint64(0), g)
				g.Count("adv_ref_max")
			case 8: // truncated cell
				c = c[:g.Rng.Intn(len(c))]
				g.Count("adv_cell_truncated")
			case 9: // completion tag removed / data zeroed
				for k := 2; k < len(c); k++ {
					c[k] = 0
				}
				g.Count("adv_cell_zeroed")
			case 10: // pruned branch too short for its mask: lengths around 2+32k (hashes) and 2+34k (hashes + depths)
				mask := 1 + g.Rng.Intn(7)
				k := bits.OnesCount(uint(mask))
				l := g.Pick(1, 2, 2+32*k-1, 2+32*k, 2+32*k+1, 2+33*k, 2+34*k-2, 2+34*k-1, 2+34*k, 1+g.Rng.Intn(20))
				if l > 127 {
					l = 127
				}
				c = []byte{byte(8 + 32*mask), 2 * byte(l), 1, byte(mask)}
				c = append(c, g.Bytes(l)...)[:2+l]
				for j := 2 + 32*k; j < len(c); j += 2 { // small stored depths
					c[j] = 0
				}
				g.Count("adv_cell_pruned_short")
			default: // more refs than 4
				c[0] = c[0]&^7 | byte(5+g.Rng.Intn(3))
				g.Count("adv_cell_refs_5..7")
			}
		}
		r.cellData = append(r.cellData, c...)
		ends = append(ends, uint64(len(r.cellData)))
	}
	r.tot = uint64(len(r.cellData))
	r.cells, r.roots = uint64(n), 1
	r.rootList = []uint64{0}
	if n == 0 {
		r.roots, r.rootList = 0, nil
	}
	if r.hasRoots && g.Rng.Intn(4) == 0 && n > 0 {
		k := g.Rng.Intn(4)
		r.rootList = nil
		for j := 0; j < k; j++ {
			r.rootList = append(r.rootList, uint64(g.Rng.Intn(n)))
		}
		r.roots = uint64(k)
	}
	hasIdx, hasCrc, hasCache := g.Rng.Intn(2) == 0, g.Rng.Intn(2) == 0, g.Rng.Intn(3) == 0
	if !r.hasRoots {
		hasIdx, hasCache = true, false
		hasCrc = kind == 1
	}
	maxOff := r.tot
	if hasCache {
		maxOff = 2*maxOff + 1
	}
	r.off = (bits.Len64(maxOff) + 7) / 8
	if r.off < 1 {
		r.off = 1
	}
	if g.Rng.Intn(3) == 0 {
		r.off += g.Rng.Intn(8 - r.off + 1)
	}
	if hasIdx {
		for _, e := range ends {
			if hasCache {
				e = 2*e + uint64(g.Rng.Intn(2))
			}
			r.index = append(r.index, e)
		}
		if r.index == nil {
			r.index = []uint64{}
		}
	}
	if hasCrc {
		r.crc = 1
	}
	// header-level lies
	sizeField, offField := r.size, r.off
	for ; lies > 0; lies-- {
		switch g.Rng.Intn(13) {
		case 0: // size field 0..7 (generic) / 0..255 (idx magics), written width follows the field up to a bound
			if r.hasRoots {
				sizeField = g.Rng.Intn(8)
			} else {
				sizeField = g.Pick(0, 1, 2, 3, 4, 5, 7, 8, 9, 16, 255, g.Rng.Intn(256))
			}
			if g.Rng.Intn(2) == 0 {
				r.size = sizeField
			}
			g.Count("adv_size")
		case 1:
			offField = g.Pick(0, 1, 2, 7, 8, 9, 16, 64, 128, 255, g.Rng.Intn(256))
			if g.Rng.Intn(2) == 0 {
				r.off = offField
			}
			g.Count("adv_off_bytes")
		case 2:
			r.cells = cg.count(r.cells, r.size)
			g.Count("adv_cells_count")
		case 3:
			r.roots = cg.count(r.roots, r.size)
			g.Count("adv_roots_count")
		case 4:
			r.absent = cg.count(r.absent, r.size)
			g.Count("adv_absent")
		case 5:
			r.tot = cg.count(r.tot, r.off)
			g.Count("adv_tot_cells_size")
		case 6: // root indices: out of range, = cells, maximal
			if len(r.rootList) > 0 {
				r.rootList[g.Rng.Intn(len(r.rootList))] = []uint64{uint64(n), uint64(n + 1), ^uint64(0), 255, 5}[g.Rng.Intn(5)]
			} else {
				r.rootList = append(r.rootList, uint64(g.Rng.Intn(3)))
			}
			g.Count("adv_root_index")
		case 7: // index garbage / short / long
			switch g.Rng.Intn(3) {
			case 0:
				for k := range r.index {
					r.index[k] = g.Rng.Uint64()
				}
			case 1:
				if len(r.index) > 0 {
					r.index = r.index[:len(r.index)-1]
				}
			default:
				r.index = append(r.index, 0)
			}
			g.Count("adv_index")
		case 8:
			r.crc = g.Rng.Intn(3)
			g.Count("adv_crc")
		case 9:
			r.trailing = g.Bytes(1 + g.Rng.Intn(4))
			g.Count("adv_trailing")
		case 10: // flag bits flipped without adapting the layout
			hasIdx, hasCrc, hasCache = g.Rng.Intn(2) == 0, g.Rng.Intn(2) == 0, g.Rng.Intn(2) == 0
			g.Count("adv_flags")
		case 11: // the two reserved flag bits
			r.flagByte |= byte(g.Rng.Intn(4)) << 3
			g.Count("adv_reserved_flags")
		default: // unknown magic
			r.magic = g.Bytes(4)
			g.Count("adv_magic")
		}
	}
	if r.hasRoots {
		fb := byte(sizeField & 7)
		if hasIdx {
			fb |= 128
		}
		if hasCrc {
			fb |= 64
		}
		if hasCache {
			fb |= 32
		}
		r.flagByte |= fb
	} else {
		r.flagByte = byte(sizeField)
	}
	r.offByte = byte(offField)
	return r.bytes()
}

// refLie overwrites one reference of an encoded cell (or appends one when the cell has none).
func refLie(c []byte, size, nrefs int, v uint64, g *h.G) []byte {
	if nrefs == 0 {
		if c[0]&7 < 4 {
			c[0]++
		}
		return append(c, h.BE(size, v)...)
	}
	k := g.Rng.Intn(nrefs)
	pos := len(c) - size*(nrefs-k)
	copy(c[pos:pos+size], h.BE(size, v))
	return c
}

// ------------------------------------------------------------------------------------------------------- generator

var carrierTick int

// emitCarriers: a bounded, deterministic sample of the byte inputs is also sent through the string / JSON entry
// points, in every carrier form and mutilated (truncated, odd length, wrong alphabet, quoting debris).
func emitCarriers(g *h.G, bs []byte) {
	carrierTick++
	hx := hex.EncodeToString(bs)
	b64 := base64.StdEncoding.EncodeToString(bs)
	forms := []string{hx, b64, "\"" + hx + "\"", strings.ToUpper(hx), "0x" + hx, base64.RawStdEncoding.EncodeToString(bs),
		base64.URLEncoding.EncodeToString(bs), "\"" + hx, hx + "\"", "\"" + b64 + "\""}
	k := carrierTick % len(forms)
	pick := []string{forms[k], forms[(k+3)%len(forms)]}
	// mutilations of the primary carriers, cycling through the cut points
	if len(hx) > 0 {
		cut := carrierTick % len(hx)
		pick = append(pick, hx[:cut], hx[:len(hx)-1], hx[1:])
	}
	if len(b64) > 0 {
		cut := carrierTick % len(b64)
		pick = append(pick, b64[:cut], b64[:len(b64)-1], strings.TrimRight(b64, "=")+"=")
	}
	for _, s := range pick {
		g.Count("carrier")
		g.Emit("go.carrier", h.Hex([]byte(s)))
	}
}

func emitInput(g *h.G, class string, bs []byte) {
	hx := h.Hex(bs)
	g.Count(class)
	g.Emit("boc.parse", hx)
	g.Emit("go.parse", hx)
	if class == "seed_valid" || class == "dag_bomb" || class == "depth_boundary_chain" || g.N%8 == 0 {
		g.Emit("boc.tostring", hx)
	}
	g.NonTrivial(hx)
	if class == "seed_valid" || class == "dag_bomb" || g.N%12 == 0 {
		emitCarriers(g, bs)
	}
}

// bombBoc: k levels, every cell refers m times to the next one: 2·k+… bytes of input, m^k nodes unfolded.
func bombBoc(k, m int) []byte {
	t := make([]h.Row, k)
	for i := range t {
		t[i] = h.Row{BitLen: 8, Data: []byte{byte(i)}}
		if i+1 < k {
			for j := 0; j < m; j++ {
				t[i].Refs = append(t[i].Refs, i+1)
			}
		}
	}
	tot := h.DataSize(1, t, nil)
	off := (bits.Len(uint(tot)) + 7) / 8
	return h.EmitBoc(h.EmitParams{Size: 1, OffBytes: off}, t, []int{0})
}

// seedBocs: own output for small DAGs (Go writer, all option sets; reference writer, all header variants) and a few
// real bags of cells from the repository (wallet code, proofs).
func seedBocs(g *h.G, n int) [][]byte {
	var seeds [][]byte
	for i := 0; len(seeds) < n*2/3; i++ {
		t := g.RandTable(h.DagOpts{MaxCells: g.Pick(1, 2, 3, 5, 8), Exotic: i%3 == 0, MaxBits: g.Pick(8, 16, 40, 0)},
			[]string{"rand", "chain", "diamond", "wide", "bintree"}[i%5])
		if i%2 == 0 {
			root := h.BuildCells(t)[0]
			o := g.Rng.Intn(8)
			bs, err := root.ToBocCustom(o&4 != 0, o&2 != 0, o&1 != 0, 0)
			if err == nil && len(bs) < 400 {
				seeds = append(seeds, bs)
			}
		} else {
			pt, pos := g.Permute(t)
			roots := []int{pos[0]}
			if g.Rng.Intn(3) == 0 {
				roots = append(roots, g.Rng.Intn(len(pt)))
			}
			bs := h.EmitBoc(g.RandEmitParams(pt, len(roots), roots[0] == 0), pt, roots)
			if len(bs) < 400 {
				seeds = append(seeds, bs)
			}
		}
	}
	repo := repoSeedBocs()
	for i := 0; len(seeds) < n && i < len(repo); i++ {
		seeds = append(seeds, repo[i])
	}
	return seeds
}

func headerLen(bs []byte) int {
	// positions treated as "header" for the exhaustive 256-value substitution: magic, flags, off_bytes, counters, the
	// root list and the first cell's descriptors
	if len(bs) < 6 {
		return len(bs)
	}
	size, off := int(bs[4]&7), int(bs[5])
	n := 6 + 3*size + off + size + 2
	if n > len(bs) {
		n = len(bs)
	}
	return n
}

func genC07(g *h.G) {
	genPrim(g, "prim.crc32c")
	cg := &cgen{g}
	// (a) every truncation and every single-byte substitution of the seeds
	seeds := seedBocs(g, g.Scale(24, 60))
	budget := g.Scale(45000, 900000)
	used := 0
	for si, s := range seeds {
		g.Count("seed")
		emitInput(g, "seed_valid", s)
		if used > budget || (len(s) > 700 && !g.Thorough()) {
			continue
		}
		for k := 0; k < len(s); k++ {
			emitInput(g, "truncation", s[:k])
			used++
		}
		hl := headerLen(s)
		for pos := 0; pos < len(s); pos++ {
			if pos < hl {
				for v := 0; v < 256; v++ {
					if byte(v) == s[pos] {
						continue
					}
					m := append([]byte{}, s...)
					m[pos] = byte(v)
					emitInput(g, "subst_header_byte", m)
					used++
				}
			} else {
				for b := 0; b < 8; b++ {
					m := append([]byte{}, s...)
					m[pos] ^= 1 << uint(b)
					emitInput(g, "subst_bit_flip", m)
					used++
				}
			}
		}
		_ = si
	}
	// (b) random multi-byte mutations (also of the larger repository seeds)
	all := append(append([][]byte{}, seeds...), repoSeedBocs()...)
	for i := g.Scale(12000, 300000); i > 0 && len(all) > 0; i-- {
		s := all[g.Rng.Intn(len(all))]
		if len(s) > 3000 && g.Rng.Intn(10) != 0 {
			continue
		}
		m := append([]byte{}, s...)
		for k := 1 + g.Rng.Intn(4); k > 0 && len(m) > 0; k-- {
			switch g.Rng.Intn(6) {
			case 0:
				m[g.Rng.Intn(len(m))] = byte(g.Rng.Intn(256))
			case 1:
				m[g.Rng.Intn(len(m))] ^= 1 << uint(g.Rng.Intn(8))
			case 2: // delete a byte
				p := g.Rng.Intn(len(m))
				m = append(m[:p], m[p+1:]...)
			case 3: // insert a byte
				p := g.Rng.Intn(len(m) + 1)
				m = append(m[:p], append([]byte{byte(g.Rng.Intn(256))}, m[p:]...)...)
			case 4: // boundary values
				m[g.Rng.Intn(len(m))] = byte(g.Pick(0, 1, 0x7f, 0x80, 0xff))
			default: // duplicate a chunk
				p := g.Rng.Intn(len(m))
				q := p + g.Rng.Intn(min(len(m)-p, 8)+1)
				m = append(m[:q], append(append([]byte{}, m[p:q]...), m[q:]...)...)
			}
		}
		emitInput(g, "mutation_multi", m)
	}
	// (c) grammar-based adversarial headers and cells
	for i := g.Scale(40000, 700000); i > 0; i-- {
		emitInput(g, "adversarial", cg.adversarial())
	}
	// (d) random bytes, bare and behind each magic
	for i := g.Scale(3000, 60000); i > 0; i-- {
		bs := g.Bytes(g.Rng.Intn(40))
		if k := g.Rng.Intn(4); k < 3 {
			bs = append(append([]byte{}, h.MagicBytes[k]...), bs...)
		}
		emitInput(g, "random", bs)
	}
	// (d2) the string / JSON entry points on degenerate documents: empty, 1-3 characters, odd-length hex, bad
	// alphabet, quoting debris; and bags with several roots (Cell.UnmarshalJSON must reject them)
	for _, s := range []string{"", "0", "00", "0x", "0x0", "x", "=", "==", "====", "\"", "\"\"", "\"x", "\"0", "\"00\"", "zz", "b5e",
		"b5ee9c7", "b5ee9c72", "te6cc", "te6ccg", "te6ccgE=", "te6c!", " ", "\n", "b5ee9c72 01", "\"b5ee9c72\"", "null", "{}", "\"\"\""} {
		g.Count("carrier_degenerate")
		g.Emit("go.carrier", h.Hex([]byte(s)))
	}
	for i := 0; i < 24; i++ {
		t := g.RandTable(h.DagOpts{MaxCells: 2 + i%5, MaxBits: 24}, "rand")
		roots := []int{0}
		for k := 0; k <= i%3; k++ {
			roots = append(roots, (k+i)%len(t))
		}
		bs := h.EmitBoc(g.RandEmitParams(t, len(roots), false), t, roots)
		g.Count("carrier_multiroot")
		g.Emit("go.carrier", h.Hex([]byte("\""+hex.EncodeToString(bs)+"\"")))
		g.Emit("go.carrier", h.Hex([]byte(hex.EncodeToString(bs))))
		g.Emit("go.carrier", h.Hex([]byte(base64.StdEncoding.EncodeToString(bs))))
		emitInput(g, "multiroot_valid", bs)
	}
	// (e0) DAG bombs: tiny inputs whose unfolding is exponential (printing must stay within its visit budget)
	for _, km := range [][2]int{{9, 4}, {10, 3}, {16, 2}, {17, 2}, {18, 2}, {23, 2}, {12, 4}, {30, 2}, {40, 3}, {60, 2}, {60, 4}} {
		emitInput(g, "dag_bomb", bombBoc(km[0], km[1]))
	}
	// (e) deep acyclic chains: the hasher recurses once per level before it can answer ErrDepthIsTooBig
	for _, n := range []int{1024, 1025, 1026, 1027, 3000} {
		emitInput(g, "depth_boundary_chain", chainBoc(n)) // 1025 cells = depth 1024 is the deepest accepted
	}
	for _, n := range []int{1025, 1026, 5000, 20000} {
		g.Count("deep_chain")
		g.Emit("go.parse.deep", fmt.Sprint(n))
	}
	if g.Thorough() {
		g.Emit("go.parse.deep", "200000")
		g.Emit("go.parse.deep", "1000000")
	}
}

func min(a, b int) int {
	if a < b {
		return a
	}
	return b
}

var _ = boc.DeserializeBoc
