//go:build c12

package main

import (
	"bytes"
	"context"
	"encoding/binary"
	"fmt"
	"math/rand"
	"os"
	osexec "os/exec"
	"path/filepath"
	"runtime"
	"strconv"
	"strings"
	"sync"
	"sync/atomic"
	"time"

	"github.com/tonkeeper/tongo/liteclient"
	"verifharness/h"
)

func init() {
	h.Register(&h.Prop{ID: "C12", Gen: genC12, Exec: map[string]h.ExecFn{
		"client.run":           exClientRun,
		"go.client.chaos":      goClientChaos,
		"go.client.roundrobin": goClientRoundRobin,
		"go.client.goroutines": goClientGoroutines,
		"go.client.race":       goClientRace,
		"go.client.deadlines":  goClientDeadlines,
		"go.client.idle":       goClientIdle,
		"go.client.stalled":    goClientStalled,
		"go.client.wait":       goClientWait,
	}})
}

var quietOnce12 sync.Once

func quiet12() {
	quietOnce12.Do(func() {
		if f, err := os.OpenFile(os.DevNull, os.O_WRONLY, 0); err == nil {
			os.Stdout = f
		}
	})
}

// Scheduling canary: a goroutine that sleeps 5 ms in a loop and records by how much it overslept. A stall of the whole
// process (CPU starvation, stop-the-world under load) shows up here; a call that is late because of the client's own
// locking does not. Wall-clock oracles are judged relative to it, and a scenario during which the process itself was
// stalled is run again instead of being judged.
var (
	lagOnce sync.Once
	lagMax  atomic.Int64
)

func lagReset() {
	lagOnce.Do(func() {
		go func() {
			for {
				t := time.Now()
				time.Sleep(5 * time.Millisecond)
				if l := int64(time.Since(t) - 5*time.Millisecond); l > lagMax.Load() {
					lagMax.Store(l)
				}
			}
		}()
	})
	lagMax.Store(0)
}

func lagSeen() time.Duration { return time.Duration(lagMax.Load()) }

// retryStalled runs a scenario; when the process was stalled during it (canary lag above `limit`) or its setup failed /
// a wall-clock oracle fired while some stall was seen, the scenario is run again (at most five times).
// failedScenarios counts failing scenarios of this executor process: on a broken tree every scenario runs into its
// timeouts; after 25 failures the remaining lines of this process are answered at once (each of them is still a failing
// line, and replaying it alone runs it in full).
var failedScenarios atomic.Int64

func retryStalled(limit time.Duration, run func() string) string {
	if failedScenarios.Load() >= 25 {
		return "FAIL not-run (25 scenarios already failed in this executor; replay this line alone to run it)"
	}
	ans := retryStalled1(limit, run)
	if strings.HasPrefix(ans, "FAIL") {
		failedScenarios.Add(1)
	}
	return ans
}

func retryStalled1(limit time.Duration, run func() string) string {
	var ans string
	for attempt := 0; attempt < 5; attempt++ {
		lagReset()
		ans = run()
		lag := lagSeen()
		wallClock := strings.HasPrefix(ans, "FAIL setup") || strings.HasPrefix(ans, "FAIL deadline-overrun") ||
			strings.HasPrefix(ans, "FAIL not-reconnected") || strings.HasPrefix(ans, "FAIL client-not-usable")
		if lag > limit || (wallClock && lag > 100*time.Millisecond) {
			time.Sleep(200 * time.Millisecond)
			continue
		}
		break
	}
	return ans
}

func atoi12(s string) int {
	v, err := strconv.Atoi(s)
	if err != nil {
		panic("bad int arg " + s)
	}
	return v
}

const (
	magicQuery  = 0xb48bf97a
	magicAnswer = 0x0fac8416
	magicPing   = 0x4d082b9a
	magicPong   = 0xdc69fb03
)

// ---- script ---------------------------------------------------------------------------------------------------------
//
// one action per call:
//	n        answer at once
//	d<ms>    answer after ms
//	L        answer only after twice the client timeout (too late)
//	2        answer twice (the second with another payload)
//	u        an answer with an unknown id first, then the answer
//	p        a pong, a 3-byte packet and a packet with another magic first, then the answer
//	x        never answer
//	m        a malformed answer (bad TL length) with the right id first, then a well-formed one
//	o        answer on the next connection instead of the one the query came on
//	X        close the connection instead of answering

type act struct {
	kind byte
	ms   int
}

func parseScript(s string) []act {
	var r []act
	for _, t := range strings.Split(s, ",") {
		a := act{kind: t[0]}
		if t[0] == 'd' {
			a.ms = atoi12(t[1:])
		}
		r = append(r, a)
	}
	return r
}

func tagOf(k int) int    { return 1000 + k }
func dupTagOf(k int) int { return 500000 + k }

// answerBody is the answer payload for a tag: le32(tag) followed by a filler determined by the tag.
func answerBody(tag int) []byte {
	n := (tag * 7) % 300
	b := make([]byte, 4+n)
	binary.LittleEndian.PutUint32(b, uint32(tag))
	for i := 0; i < n; i++ {
		b[4+i] = byte(tag*31 + i)
	}
	return b
}

func tlBytes(b []byte) []byte {
	var out []byte
	if len(b) >= 254 {
		out = append(out, 254, byte(len(b)), byte(len(b)>>8), byte(len(b)>>16))
	} else {
		out = append(out, byte(len(b)))
	}
	out = append(out, b...)
	for len(out)%4 != 0 {
		out = append(out, 0)
	}
	return out
}

func answerPacket(id []byte, body []byte) []byte {
	p := make([]byte, 4, 40+len(body))
	binary.LittleEndian.PutUint32(p, magicAnswer)
	p = append(p, id...)
	return append(p, tlBytes(body)...)
}

// ---- event log ------------------------------------------------------------------------------------------------------

type evLog struct {
	mu  sync.Mutex
	evs []string
	// per call: connection its query was seen on (-1 = not seen), id, whether it has returned
	seenOn   []int
	returned []bool
	started  []time.Time
	fail     string
}

func (l *evLog) add(f string, a ...interface{}) {
	l.mu.Lock()
	l.evs = append(l.evs, fmt.Sprintf(f, a...))
	l.mu.Unlock()
}

func (l *evLog) setFail(f string, a ...interface{}) {
	l.mu.Lock()
	if l.fail == "" {
		l.fail = fmt.Sprintf(f, a...)
	}
	l.mu.Unlock()
}

// ---- scripted server ------------------------------------------------------------------------------------------------

type scenario struct {
	ncalls  int // calls of the scripted phase; acts holds a few more 'n' entries for the recovery phase
	nconn   int
	timeout time.Duration
	acts    []act
	log     *evLog
	servers []*scriptServer
	client  *liteclient.Client
	rngMu   sync.Mutex
	rng     *rand.Rand
	closing atomic.Bool
	// wait: script for the lite-server wrapper calls (nil: such queries are refused)
	wait *waitScript
	// stall: the servers stop READING from their connections (a stalled peer: TCP window closes)
	stall atomic.Bool
	// optional caller-side deadline for some calls
	short    time.Duration
	shortFor func(act) bool
}

type scriptServer struct {
	sc      *scenario
	idx     int
	srv     *adnlServer
	mu      sync.Mutex
	cur     *srvConn
	accepts int
	// number of upcoming connection attempts to cut before the handshake completes ("drop during reconnect")
	rejectNext int
	wg         sync.WaitGroup
	// emu makes "log the event + do the I/O" atomic with respect to the other events of this connection, so that the
	// log order is the order on the wire
	emu sync.Mutex
}

func (s *scenario) rnd(n int) int {
	s.rngMu.Lock()
	defer s.rngMu.Unlock()
	return s.rng.Intn(n)
}

func (s *scenario) rndBytes(n int) []byte {
	s.rngMu.Lock()
	defer s.rngMu.Unlock()
	b := make([]byte, n)
	s.rng.Read(b)
	return b
}

func (ss *scriptServer) current() *srvConn {
	ss.mu.Lock()
	defer ss.mu.Unlock()
	return ss.cur
}

func (ss *scriptServer) loop() {
	defer ss.wg.Done()
	for {
		c, err := ss.srv.ln.Accept()
		if err != nil {
			return
		}
		ss.mu.Lock()
		rej := ss.rejectNext > 0
		if rej {
			ss.rejectNext--
		}
		ss.mu.Unlock()
		if rej {
			// sometimes before reading anything, sometimes after the handshake bytes arrived
			if ss.sc.rnd(2) == 0 {
				buf := make([]byte, 256)
				c.SetReadDeadline(time.Now().Add(200 * time.Millisecond))
				c.Read(buf)
			}
			c.Close()
			continue
		}
		sc, err := ss.srv.handshake(c, 2*time.Second, nil)
		if err != nil {
			// a handshake for another key is not ours: a Connection retired by an earlier scenario of this process may
			// still be in its reconnect loop and reach a listener that got the same port
			// ... and a peer whose 256 bytes do not arrive within the server's 2 s is cut off (the client retries): a
			// slow machine, not a protocol failure
			if !ss.sc.closing.Load() && !strings.Contains(err.Error(), "unknown key id") &&
				!strings.Contains(err.Error(), "i/o timeout") && !strings.Contains(err.Error(), "EOF") {
				ss.sc.log.setFail("handshake-rejected-by-server conn=%d %v", ss.idx, err)
			}
			continue
		}
		ss.mu.Lock()
		first := ss.accepts == 0
		ss.accepts++
		ss.mu.Unlock()
		ss.emu.Lock()
		ss.mu.Lock()
		ss.cur = sc
		ss.mu.Unlock()
		if !first {
			ss.sc.log.add("H%d", ss.idx)
		}
		err = sc.sendPacket(ss.sc.rndBytes(32), nil)
		ss.emu.Unlock()
		if err != nil {
			continue
		}
		ss.wg.Add(1)
		go ss.serve(sc)
	}
}

// dropConn closes the current connection of this server (logged before the close).
func (ss *scriptServer) dropConn(sc *srvConn) {
	ss.emu.Lock()
	defer ss.emu.Unlock()
	ss.mu.Lock()
	if ss.cur != sc || sc == nil {
		ss.mu.Unlock()
		return
	}
	ss.cur = nil
	ss.mu.Unlock()
	ss.sc.log.add("D%d", ss.idx)
	sc.close()
}

func (ss *scriptServer) serve(sc *srvConn) {
	defer ss.wg.Done()
	for {
		for ss.sc.stall.Load() && !ss.sc.closing.Load() {
			time.Sleep(5 * time.Millisecond)
		}
		_, payload, _, err := sc.readFrame()
		if err != nil {
			return
		}
		if len(payload) < 4 {
			continue
		}
		switch binary.LittleEndian.Uint32(payload) {
		case magicPing:
			if len(payload) == 12 {
				pong := make([]byte, 12)
				binary.LittleEndian.PutUint32(pong, magicPong)
				copy(pong[4:], payload[4:])
				ss.sendLogged(sc, fmt.Sprintf("O%d", ss.idx), pong)
			}
		case magicQuery:
			if len(payload) < 41 {
				ss.sc.log.setFail("malformed-query-from-client len=%d", len(payload))
				continue
			}
			id := append([]byte{}, payload[4:36]...)
			q := payload[36:]
			var body []byte
			if q[0] == 254 {
				body = q[4:]
			} else {
				body = q[1:]
			}
			if len(body) < 4 {
				ss.sc.log.setFail("malformed-query-body")
				continue
			}
			if binary.LittleEndian.Uint32(body) == 0x798c06df { // liteServer.query: a lite-server method call
				ss.serveLiteQuery(sc, id, body)
				continue
			}
			k := int(binary.LittleEndian.Uint32(body))
			if uint32(k) == 0xffffffff {
				continue // a probe of the recovery phase: never answered
			}
			if k < 0 || k >= len(ss.sc.acts) {
				ss.sc.log.setFail("query-with-unknown-call-index %d", k)
				continue
			}
			// direct oracle (register_before_send on the implementation): when the query reaches the server the reply
			// channel of this id is registered, unless the call has already returned
			var id32 [32]byte
			copy(id32[:], id)
			reg := ss.sc.client.VerifQueryRegistered(id32)
			// frames that were buffered before this connection was dropped are not "seen": the log order must be the
			// wire order, so the check and the log entry are atomic with respect to the drop
			ss.emu.Lock()
			if ss.current() != sc {
				ss.emu.Unlock()
				return
			}
			ss.sc.log.mu.Lock()
			ss.sc.log.seenOn[k] = ss.idx
			ret := ss.sc.log.returned[k]
			ss.sc.log.evs = append(ss.sc.log.evs, fmt.Sprintf("Q%d:%d", k, ss.idx))
			ss.sc.log.mu.Unlock()
			ss.emu.Unlock()
			// (a call that has given up unregisters a moment before the harness notes its return: only calls that are
			// certainly still inside Request count — less than half of their deadline has passed)
			ss.sc.log.mu.Lock()
			age := time.Since(ss.sc.log.started[k])
			ss.sc.log.mu.Unlock()
			if !reg && !ret && age < ss.sc.limitOf(k)/2 {
				ss.sc.log.setFail("query-on-wire-before-registration call=%d", k)
			}
			ss.wg.Add(1)
			go ss.handle(sc, k, id)
		}
	}
}

// sendLogged logs the event and writes the packet, atomically w.r.t. drops; nothing is logged or written on a
// connection that is no longer the current one.
func (ss *scriptServer) sendLogged(sc *srvConn, ev string, payload []byte) {
	ss.emu.Lock()
	defer ss.emu.Unlock()
	if ss.current() != sc {
		return
	}
	ss.sc.log.add("%s", ev)
	sc.sendPacket(ss.sc.rndBytes(32), payload)
}

func (ss *scriptServer) sendAnswer(sc *srvConn, k int, id []byte, tag int) {
	ss.sendLogged(sc, fmt.Sprintf("A%d:%d:g:%d", ss.idx, k, tag), answerPacket(id, answerBody(tag)))
}

func (ss *scriptServer) handle(sc *srvConn, k int, id []byte) {
	defer ss.wg.Done()
	a := ss.sc.acts[k]
	switch a.kind {
	case 'n':
		ss.sendAnswer(sc, k, id, tagOf(k))
	case 'd':
		time.Sleep(time.Duration(a.ms) * time.Millisecond)
		ss.sendAnswer(sc, k, id, tagOf(k))
	case 'L':
		if ss.sc.short > 0 {
			time.Sleep(5 * ss.sc.short)
		} else {
			time.Sleep(2*ss.sc.timeout + 20*time.Millisecond)
		}
		ss.sendAnswer(sc, k, id, tagOf(k))
	case '2':
		ss.sendAnswer(sc, k, id, tagOf(k))
		ss.sendAnswer(sc, k, id, dupTagOf(k))
	case 'u':
		ss.sendLogged(sc, fmt.Sprintf("U%d", ss.idx), answerPacket(ss.sc.rndBytes(32), answerBody(dupTagOf(k))))
		ss.sendAnswer(sc, k, id, tagOf(k))
	case 'p':
		pong := make([]byte, 12)
		binary.LittleEndian.PutUint32(pong, magicPong)
		copy(pong[4:], ss.sc.rndBytes(8))
		o := fmt.Sprintf("O%d", ss.idx)
		ss.sendLogged(sc, o, pong)
		ss.sendLogged(sc, o, []byte{1, 2, 3})
		other := append([]byte{0x11, 0x22, 0x33, 0x44}, id...)
		other = append(other, tlBytes(answerBody(dupTagOf(k)))...)
		ss.sendLogged(sc, o, other)
		// an answer magic but shorter than 37 bytes
		short := make([]byte, 36)
		binary.LittleEndian.PutUint32(short, magicAnswer)
		copy(short[4:], id)
		ss.sendLogged(sc, o, short)
		ss.sendAnswer(sc, k, id, tagOf(k))
	case 'x':
	case 'm':
		bad := make([]byte, 4, 48)
		binary.LittleEndian.PutUint32(bad, magicAnswer)
		bad = append(bad, id...)
		switch ss.sc.rnd(3) {
		case 0:
			bad = append(bad, 255, 0, 0, 0)
		case 1:
			bad = append(bad, 254, 1)
		default:
			bad = append(bad, 200, 1, 2, 3) // declares 200 bytes, carries 3
		}
		ss.sendLogged(sc, fmt.Sprintf("A%d:%d:m", ss.idx, k), bad)
		ss.sendAnswer(sc, k, id, tagOf(k))
	case 'o':
		other := ss.sc.servers[(ss.idx+1)%ss.sc.nconn]
		if oc := other.current(); oc != nil {
			other.sendAnswer(oc, k, id, tagOf(k))
		}
	case 'X':
		ss.dropConn(sc)
	}
}

// ---- running a scenario ---------------------------------------------------------------------------------------------

type callResult struct {
	class string // "m<tag>" ok with the payload of that tag, "m?" ok with an unexpected payload, "t", "e"
	over  time.Duration
}

func newScenario(seed int64, nconn int, timeout time.Duration, acts []act) (*scenario, []*liteclient.Connection, error) {
	n := len(acts)
	acts = append([]act{}, acts...)
	for i := 0; i < 60; i++ {
		acts = append(acts, act{kind: 'n'})
	}
	sc := &scenario{ncalls: n, nconn: nconn, timeout: timeout, acts: acts, rng: rand.New(rand.NewSource(seed)),
		log: &evLog{seenOn: make([]int, len(acts)), returned: make([]bool, len(acts)), started: make([]time.Time, len(acts))}}
	for i := range sc.log.seenOn {
		sc.log.seenOn[i] = -1
	}
	var conns []*liteclient.Connection
	for c := 0; c < nconn; c++ {
		srv, err := newADNLServer(sc.rndBytes(32))
		if err != nil {
			return nil, nil, err
		}
		ss := &scriptServer{sc: sc, idx: c, srv: srv}
		sc.servers = append(sc.servers, ss)
		ss.wg.Add(1)
		go ss.loop()
		ctx, cancel := context.WithTimeout(context.Background(), 3*time.Second)
		conn, err := liteclient.NewConnection(ctx, srv.key.pub, srv.addr())
		cancel()
		if err != nil {
			return nil, nil, fmt.Errorf("NewConnection: %w", err)
		}
		conns = append(conns, conn)
	}
	sc.client = liteclient.NewClient(conns[0], liteclient.OptionTimeout(timeout),
		liteclient.VerifOptionExtraConnections(conns[1:]...))
	return sc, conns, nil
}

func (sc *scenario) shutdown(conns []*liteclient.Connection) {
	sc.closing.Store(true)
	for _, c := range conns {
		c.VerifRetire()
	}
	for _, ss := range sc.servers {
		ss.srv.close()
		if cur := ss.current(); cur != nil {
			cur.close()
		}
	}
}

// limitOf: the deadline of call k (client timeout, or the caller's own shorter deadline)
func (sc *scenario) limitOf(k int) time.Duration {
	if sc.shortFor != nil && sc.shortFor(sc.acts[k]) {
		return sc.short
	}
	return sc.timeout
}

// doCall issues call k and classifies the result.
func (sc *scenario) doCall(k int) callResult {
	q := make([]byte, 4+sc.rnd(100))
	binary.LittleEndian.PutUint32(q, uint32(k))
	sc.log.mu.Lock()
	sc.log.started[k] = time.Now()
	sc.log.returned[k] = false
	sc.log.seenOn[k] = -1
	sc.log.evs = append(sc.log.evs, fmt.Sprintf("B%d", k))
	sc.log.mu.Unlock()
	ctx, limit := context.Background(), sc.timeout
	if sc.shortFor != nil && sc.shortFor(sc.acts[k]) {
		// the caller's own deadline (Request derives its context from it): used by the deterministic scenarios for calls
		// that are never answered in time, so that the client timeout itself can be generous
		var cancel context.CancelFunc
		ctx, cancel = context.WithTimeout(ctx, sc.short)
		defer cancel()
		limit = sc.short
	}
	start := time.Now()
	watchdog := time.AfterFunc(limit+10*time.Second, func() {
		// a Request far beyond its deadline: keep the goroutine dump for diagnosis
		buf := make([]byte, 1<<22)
		n := runtime.Stack(buf, true)
		dumpRejected(fmt.Sprintf("# call %d still inside Request %v after its deadline", k, 10*time.Second), string(buf[:n]))
	})
	b, err := sc.client.Request(ctx, q)
	watchdog.Stop()
	el := time.Since(start)
	res := callResult{over: el - limit}
	switch {
	case err == nil:
		res.class = "m?"
		if len(b) >= 4 {
			tag := int(binary.LittleEndian.Uint32(b))
			if bytes.Equal(b, answerBody(tag)) {
				res.class = fmt.Sprintf("m%d", tag)
			}
		}
	case strings.Contains(err.Error(), "timeout"):
		res.class = "t"
	default:
		res.class = "e"
	}
	sc.log.mu.Lock()
	sc.log.returned[k] = true
	on := "-"
	if sc.log.seenOn[k] >= 0 {
		on = strconv.Itoa(sc.log.seenOn[k])
	}
	switch res.class[0] {
	case 'm':
		sc.log.evs = append(sc.log.evs, fmt.Sprintf("R%d:o:%s:%s", k, res.class[1:], on))
	default:
		sc.log.evs = append(sc.log.evs, fmt.Sprintf("R%d:%s:%s", k, res.class, on))
	}
	sc.log.mu.Unlock()
	return res
}

// runCallers: `callers` goroutines, caller j issuing calls j*per .. j*per+per-1 one after the other.
func (sc *scenario) runCallers(callers, per int) []callResult {
	res := make([]callResult, callers*per)
	var wg sync.WaitGroup
	for j := 0; j < callers; j++ {
		wg.Add(1)
		go func(j int) {
			defer wg.Done()
			for i := 0; i < per; i++ {
				k := j*per + i
				res[k] = sc.doCall(k)
			}
		}(j)
	}
	wg.Wait()
	return res
}

// oracles on the results alone
func (sc *scenario) checkResults(res []callResult) string {
	for k, r := range res {
		if r.class == "m?" {
			return fmt.Sprintf("FAIL foreign-payload call=%d", k)
		}
		if r.class[0] == 'm' {
			tag := atoi12(r.class[1:])
			if tag != tagOf(k) && tag != dupTagOf(k) {
				return fmt.Sprintf("FAIL payload-of-another-id call=%d tag=%d", k, tag)
			}
		}
		if r.over > time.Second+5*lagSeen() {
			return fmt.Sprintf("FAIL deadline-overrun call=%d over=%v", k, r.over)
		}
	}
	return ""
}

// exClientRun: a scenario whose external history is determined by the script: the client timeout is generous (2 s) and
// calls that the script never answers in time (x, m, L) carry their own 50 ms deadline, so a loaded machine does not
// change the result classes. The model computes the same line from the script.
//
//	args: seed nconn timeoutMs callers perCaller script
func exClientRun(a []string) string {
	quiet12()
	// result classes can only change when the process stalls for about as long as the 2 s client timeout — or, in the
	// scenarios with late answers, for the 200 ms between a caller's 50 ms deadline and the late answer
	limit := time.Second
	if len(a) > 5 && strings.Contains(a[5], "L") {
		limit = 120 * time.Millisecond
	}
	return retryStalled(limit, func() string { return exClientRun1(a) })
}

func exClientRun1(a []string) string {
	seed, nconn, tmo, callers, per := int64(atoi12(a[0])), atoi12(a[1]), atoi12(a[2]), atoi12(a[3]), atoi12(a[4])
	acts := parseScript(a[5])
	if len(acts) != callers*per {
		return "bad-op"
	}
	sc, conns, err := newScenario(seed, nconn, time.Duration(tmo)*time.Millisecond, acts)
	if err != nil {
		return "FAIL setup " + err.Error()
	}
	sc.short = 50 * time.Millisecond
	sc.shortFor = func(a act) bool { return a.kind == 'x' || a.kind == 'm' || a.kind == 'L' }
	res := sc.runCallers(callers, per)
	for _, a := range acts {
		if a.kind == 'L' { // let the late answers arrive: they must be dropped as unknown ids
			time.Sleep(5 * sc.short)
			break
		}
	}
	left := sc.client.VerifQueriesLen()
	sc.shutdown(conns)
	if f := sc.log.fail; f != "" {
		return "FAIL " + f
	}
	if f := sc.checkResults(res); f != "" {
		return f
	}
	if left != 0 {
		return fmt.Sprintf("FAIL registry-leak entries=%d", left)
	}
	out := make([]string, len(res))
	for k, r := range res {
		out[k] = r.class
	}
	return "ok " + strings.Join(out, " ")
}

// goClientChaos: random delays around the deadline, connections closed by the server in the middle of requests, while
// idle and while the client reconnects; the recorded history must be a trace of the model (checked by the compiled
// Lean driver), plus the direct oracles.
//
//	args: seed nconn timeoutMs callers perCaller script idleDrops rejects
func goClientChaos(a []string) string {
	quiet12()
	return retryStalled(3*time.Second, func() string { return goClientChaos1(a) })
}

func goClientChaos1(a []string) string {
	seed, nconn, tmo, callers, per := int64(atoi12(a[0])), atoi12(a[1]), atoi12(a[2]), atoi12(a[3]), atoi12(a[4])
	acts := parseScript(a[5])
	idleDrops, rejects := atoi12(a[6]), atoi12(a[7])
	if len(acts) != callers*per {
		return "bad-op"
	}
	timeout := time.Duration(tmo) * time.Millisecond
	sc, conns, err := newScenario(seed, nconn, timeout, acts)
	if err != nil {
		return "FAIL setup " + err.Error()
	}
	defer sc.shutdown(conns)
	for _, ss := range sc.servers {
		ss.mu.Lock()
		ss.rejectNext = rejects
		ss.mu.Unlock()
	}
	stop := make(chan struct{})
	var dwg sync.WaitGroup
	if idleDrops > 0 {
		dwg.Add(1)
		go func() {
			defer dwg.Done()
			for i := 0; i < idleDrops; i++ {
				select {
				case <-stop:
					return
				case <-time.After(time.Duration(sc.rnd(tmo*per+1)) * time.Millisecond):
				}
				ss := sc.servers[sc.rnd(nconn)]
				ss.dropConn(ss.current())
			}
		}()
	}
	res := sc.runCallers(callers, per)
	close(stop)
	dwg.Wait()
	if f := sc.log.fail; f != "" {
		return "FAIL " + f
	}
	if f := sc.checkResults(res); f != "" {
		return f
	}
	// history against the model
	sc.log.mu.Lock()
	evs := append([]string{}, sc.log.evs...)
	sc.log.mu.Unlock()
	line := fmt.Sprintf("clientsm.check %d %d %s", nconn, sc.ncalls, strings.Join(evs, " "))
	ans, merr := modelBatch([]string{line})
	if merr != nil {
		return "FAIL model-unavailable " + merr.Error()
	}
	if ans[0] != "accept" {
		dumpRejected(line, ans[0])
		return "FAIL history-not-a-trace " + ans[0] + " :: " + clip12(strings.Join(evs, " "))
	}
	// recovery: every connection is Connected again within the bound and calls succeed on each of them
	deadline := time.Now().Add(15 * time.Second)
	for _, c := range conns {
		for c.Status() != liteclient.Connected {
			if time.Now().After(deadline) {
				return "FAIL not-reconnected-within-15s"
			}
			// traffic makes a dead socket visible (otherwise only the 3 s ping does)
			q := make([]byte, 4)
			binary.LittleEndian.PutUint32(q, 0xffffffff)
			ctx, cancel := context.WithTimeout(context.Background(), 30*time.Millisecond)
			sc.client.Request(ctx, q)
			cancel()
			time.Sleep(20 * time.Millisecond)
		}
	}
	// after recovery a fresh "answer at once" call must succeed on every connection (round robin reaches all of them)
	base := sc.ncalls
	extra := 2 * nconn
	okCount := 0
	for i := 0; okCount < extra && time.Now().Before(deadline); i++ {
		k := base + i%(len(sc.acts)-base) // the spare call indices are reused: these calls are sequential
		r := sc.doCall(k)
		if os.Getenv("VH_DEBUG") != "" {
			st := ""
			for _, c := range conns {
				st += fmt.Sprint(c.Status())
			}
			fmt.Fprintf(os.Stderr, "recovery call %d -> %s status=%s\n", k, r.class, st)
		}
		if r.class == fmt.Sprintf("m%d", tagOf(k)) {
			okCount++
		} else {
			// a connection dropped just before the end needs one failing send to notice; a reconnect attempt that the
			// server cut sleeps 1 s before the next one
			okCount = 0
			time.Sleep(100 * time.Millisecond)
		}
	}
	if okCount < extra {
		if os.Getenv("VH_DEBUG") != "" {
			buf := make([]byte, 1<<22)
			n := runtime.Stack(buf, true)
			os.Stderr.Write(buf[:n])
		}
		return "FAIL client-not-usable-after-drops"
	}
	if n := sc.client.VerifQueriesLen(); n != 0 {
		return fmt.Sprintf("FAIL registry-leak entries=%d", n)
	}
	return "ok"
}

// dumpRejected keeps the complete rejected history (the answer line is clipped) under <verif>/.work/C12_rejects/ as a
// ready-made input for the model driver.
func dumpRejected(line, why string) {
	exe, err := os.Executable()
	if err != nil {
		return
	}
	dir := filepath.Join(filepath.Dir(exe), "..", "..", ".work", "C12_rejects")
	if os.MkdirAll(dir, 0o755) != nil {
		return
	}
	name := fmt.Sprintf("%d_%d.txt", time.Now().UnixNano(), os.Getpid())
	os.WriteFile(filepath.Join(dir, name), []byte(line+"\n# "+why+"\n"), 0o644)
}

func clip12(s string) string {
	if os.Getenv("VH_FULL") != "" {
		return s
	}
	if len(s) > 1500 {
		return s[:1500] + "..."
	}
	return s
}

// goClientDeadlines: never-answered calls whose CALLER context has no deadline / a deadline shorter than, equal to,
// longer than the client timeout / is cancelled in mid-flight. Each must return an error at the EARLIER of the two
// deadlines (theorem timeout_is_min), within a tolerance judged against the scheduling canary.
//
//	args: seed nconn clientTimeoutMs
func goClientDeadlines(a []string) string {
	quiet12()
	return retryStalled(150*time.Millisecond, func() string { return goClientDeadlines1(a) })
}

func goClientDeadlines1(a []string) string {
	seed, nconn, tmo := int64(atoi12(a[0])), atoi12(a[1]), atoi12(a[2])
	T := time.Duration(tmo) * time.Millisecond
	type ctxCase struct {
		name     string
		deadline time.Duration // 0 = none
		cancelAt time.Duration // 0 = never
	}
	cases := []ctxCase{
		{"no-caller-deadline", 0, 0},
		{"caller-shorter", T / 3, 0},
		{"caller-equal", T, 0},
		{"caller-longer", 3 * T, 0},
		{"caller-much-longer", 10 * T, 0},
		{"cancelled-midflight", 3 * T, T / 4},
		{"cancelled-no-deadline", 0, T / 2},
	}
	acts := make([]act, len(cases))
	for i := range acts {
		acts[i] = act{kind: 'x'}
	}
	sc, conns, err := newScenario(seed, nconn, T, acts)
	if err != nil {
		return "FAIL setup " + err.Error()
	}
	defer sc.shutdown(conns)
	type res struct {
		el  time.Duration
		err error
	}
	out := make([]res, len(cases))
	var wg sync.WaitGroup
	for i, c := range cases {
		wg.Add(1)
		go func(i int, c ctxCase) {
			defer wg.Done()
			ctx := context.Background()
			var cancel context.CancelFunc = func() {}
			if c.deadline > 0 {
				ctx, cancel = context.WithTimeout(ctx, c.deadline)
			} else if c.cancelAt > 0 {
				ctx, cancel = context.WithCancel(ctx)
			}
			defer cancel()
			if c.cancelAt > 0 {
				stop := cancel
				if c.deadline > 0 {
					var inner context.CancelFunc
					ctx, inner = context.WithCancel(ctx)
					stop = inner
					defer inner()
				}
				time.AfterFunc(c.cancelAt, stop)
			}
			q := make([]byte, 8)
			binary.LittleEndian.PutUint32(q, uint32(i))
			start := time.Now()
			_, err := sc.client.Request(ctx, q)
			out[i] = res{time.Since(start), err}
		}(i, c)
	}
	wg.Wait()
	tol := 100*time.Millisecond + 5*lagSeen()
	for i, c := range cases {
		want := T
		if c.deadline > 0 && c.deadline < want {
			want = c.deadline
		}
		if c.cancelAt > 0 && c.cancelAt < want {
			want = c.cancelAt
		}
		if out[i].err == nil {
			return fmt.Sprintf("FAIL unanswered-call-returned-ok case=%s", c.name)
		}
		if out[i].el > want+tol {
			return fmt.Sprintf("FAIL returns-after-min-deadline case=%s min=%v returned-after=%v", c.name, want, out[i].el)
		}
		if out[i].el < want-5*time.Millisecond {
			return fmt.Sprintf("FAIL returns-before-deadline case=%s min=%v returned-after=%v", c.name, want, out[i].el)
		}
	}
	if n := sc.client.VerifQueriesLen(); n != 0 {
		return fmt.Sprintf("FAIL registry-leak entries=%d", n)
	}
	return "ok"
}

// goClientIdle (THOROUGH tier, real time: the 10 s silence period and the 3 s ping period are constants of
// liteclient/connection.go and cannot be shortened without editing existing lines): a connection on which only pings
// and pongs flow for more than three silence periods. A call answered after 25 s must succeed (its connection may not
// have been torn down meanwhile), a fresh call after the idle time must succeed, and the server must have seen exactly
// ONE connection: pongs count as traffic.
//
//	args: seed idleSeconds
func goClientIdle(a []string) string {
	quiet12()
	seed, idle := int64(atoi12(a[0])), atoi12(a[1])
	slow := idle - 7
	acts := []act{{kind: 'd', ms: slow * 1000}, {kind: 'n'}}
	sc, conns, err := newScenario(seed, 1, time.Duration(idle+10)*time.Second, acts)
	if err != nil {
		return "FAIL setup " + err.Error()
	}
	defer sc.shutdown(conns)
	first := make(chan callResult, 1)
	go func() { first <- sc.doCall(0) }()
	time.Sleep(time.Duration(idle) * time.Second)
	r0 := <-first
	r1 := sc.doCall(1)
	ss := sc.servers[0]
	ss.mu.Lock()
	accepts := ss.accepts
	ss.mu.Unlock()
	if accepts != 1 {
		return fmt.Sprintf("FAIL healthy-idle-connection-redialled connections-seen=%d (pongs did not count as traffic)", accepts)
	}
	if r0.class != fmt.Sprintf("m%d", tagOf(0)) {
		return fmt.Sprintf("FAIL answer-after-%ds-lost result=%s", slow, r0.class)
	}
	if r1.class != fmt.Sprintf("m%d", tagOf(1)) {
		return "FAIL call-after-idle-period-failed result=" + r1.class
	}
	return "ok"
}

// goClientStalled: a peer that stops READING (it neither answers nor closes; its TCP window fills). Connection.Send
// writes to the socket while holding Connection.mu and has no write deadline, and Request calls it before it starts
// waiting on its context: once the socket buffers are full, the call inside Write, and every other call queued on the
// mutex, cannot return at their deadline. Oracle: every call returns an error by its deadline + tolerance.
//
//	args: seed callers queryMiB timeoutMs stallMs
func goClientStalled(a []string) string {
	quiet12()
	seed, callers, mib, tmo, stallMs := int64(atoi12(a[0])), atoi12(a[1]), atoi12(a[2]), atoi12(a[3]), atoi12(a[4])
	acts := make([]act, callers)
	for i := range acts {
		acts[i] = act{kind: 'x'}
	}
	T := time.Duration(tmo) * time.Millisecond
	sc, conns, err := newScenario(seed, 1, T, acts)
	if err != nil {
		return "FAIL setup " + err.Error()
	}
	defer sc.shutdown(conns)
	lagReset()
	sc.stall.Store(true)
	time.AfterFunc(time.Duration(stallMs)*time.Millisecond, func() { sc.stall.Store(false) })
	els := make([]time.Duration, callers)
	errs := make([]error, callers)
	var wg sync.WaitGroup
	for i := 0; i < callers; i++ {
		wg.Add(1)
		go func(i int) {
			defer wg.Done()
			q := make([]byte, mib<<20)
			binary.LittleEndian.PutUint32(q, uint32(i))
			start := time.Now()
			_, errs[i] = sc.client.Request(context.Background(), q)
			els[i] = time.Since(start)
		}(i)
	}
	wg.Wait()
	worst := time.Duration(0)
	for i := range els {
		if errs[i] == nil {
			return fmt.Sprintf("FAIL unanswered-call-returned-ok call=%d", i)
		}
		if els[i] > worst {
			worst = els[i]
		}
	}
	if worst > T+time.Second+5*lagSeen() {
		return fmt.Sprintf("FAIL deadline-overrun-on-stalled-peer timeout=%v slowest-call=%v peer-stalled-for=%dms", T, worst, stallMs)
	}
	return "ok"
}

// ---- lite-server method calls read with the harness's OWN TL reading (constants from TON's lite_api.tl) ---------------
//
//	liteServer.query#798c06df data:bytes = Object
//	liteServer.waitMasterchainSeqno#baeab892 seqno:int timeout_ms:int = Object   (a prefix: the query proper follows)
//	liteServer.lookupBlock#fac8f71e mode:# id:tonNode.blockId lt:mode.1?long utime:mode.2?int = liteServer.BlockHeader
//	tonNode.blockId workchain:int shard:long seqno:int
//	liteServer.blockHeader#752d8219 id:tonNode.blockIdExt mode:# header_proof:bytes
//	liteServer.error#bba9e148 code:int message:string

// readTLBytes reads a TL `bytes` value (length prefix, data, padding to 4) and returns data and the rest.
func readTLBytes(b []byte) (data, rest []byte, ok bool) {
	if len(b) == 0 {
		return nil, nil, false
	}
	n, hdr := int(b[0]), 1
	if b[0] == 254 {
		if len(b) < 4 {
			return nil, nil, false
		}
		n, hdr = int(b[1])|int(b[2])<<8|int(b[3])<<16, 4
	} else if b[0] == 255 {
		return nil, nil, false
	}
	total := hdr + n
	pad := (4 - total%4) % 4
	if len(b) < total+pad {
		return nil, nil, false
	}
	return b[hdr:total], b[total+pad:], true
}

func tlError(code uint32, msg string) []byte {
	out := []byte{0x48, 0xe1, 0xa9, 0xbb}
	out = binary.LittleEndian.AppendUint32(out, code)
	return append(out, tlBytes([]byte(msg))...)
}

// waitScript: what the server expects and answers for the lite-server wrapper calls of one scenario
type waitScript struct {
	mu       sync.Mutex
	seqno    uint32
	timeout  uint32
	errCode  uint32 // answer liteServer.error with this code instead of a result (0 = the normal answer)
	rootHash []byte
	fileHash []byte
	proof    []byte
	seen     []string
}

func (ss *scriptServer) serveLiteQuery(sc *srvConn, id, body []byte) {
	w := ss.sc.wait
	answer := func(b []byte) { sc.sendPacket(ss.sc.rndBytes(32), answerPacket(id, b)) }
	if w == nil {
		answer(tlError(400, "no lite-server script"))
		return
	}
	w.mu.Lock()
	defer w.mu.Unlock()
	data, _, ok := readTLBytes(body[4:])
	if !ok || len(data) < 12 {
		ss.sc.log.setFail("lite-query-malformed")
		answer(tlError(400, "malformed liteServer.query"))
		return
	}
	if binary.LittleEndian.Uint32(data) != 0xbaeab892 {
		ss.sc.log.setFail("wait-prefix-wrong-constructor got=%08x want=baeab892", binary.LittleEndian.Uint32(data))
		answer(tlError(400, "unknown constructor"))
		return
	}
	seqno, tmo := binary.LittleEndian.Uint32(data[4:]), binary.LittleEndian.Uint32(data[8:])
	if seqno != w.seqno || tmo != w.timeout {
		ss.sc.log.setFail("wait-prefix-wrong-arguments seqno=%d timeout=%d", seqno, tmo)
		answer(tlError(400, "bad arguments"))
		return
	}
	inner := data[12:]
	if w.errCode != 0 {
		answer(tlError(w.errCode, "scripted error"))
		return
	}
	if len(inner) == 0 {
		// the bare prefix: tongo's WaitMasterchainSeqno expects liteServer.error with code 0 as "reached"
		w.seen = append(w.seen, "wait")
		answer(tlError(0, ""))
		return
	}
	// the query proper: liteServer.lookupBlock mode=1 id=(-1, 0x8000000000000000, seqno)
	if len(inner) != 4+4+16 || binary.LittleEndian.Uint32(inner) != 0xfac8f71e {
		ss.sc.log.setFail("wait-inner-query-not-lookupBlock len=%d first=%08x", len(inner), binary.LittleEndian.Uint32(append(inner, 0, 0, 0, 0)))
		answer(tlError(400, "unknown inner query"))
		return
	}
	mode := binary.LittleEndian.Uint32(inner[4:])
	wc := binary.LittleEndian.Uint32(inner[8:])
	shard := binary.LittleEndian.Uint64(inner[12:])
	sq := binary.LittleEndian.Uint32(inner[20:])
	if mode != 1 || wc != 0xffffffff || shard != 0x8000000000000000 || sq != w.seqno {
		ss.sc.log.setFail("wait-lookupBlock-arguments mode=%d wc=%08x shard=%016x seqno=%d", mode, wc, shard, sq)
		answer(tlError(400, "bad lookupBlock"))
		return
	}
	w.seen = append(w.seen, "lookup")
	out := []byte{0x19, 0x82, 0x2d, 0x75}
	out = binary.LittleEndian.AppendUint32(out, wc)
	out = binary.LittleEndian.AppendUint64(out, shard)
	out = binary.LittleEndian.AppendUint32(out, sq)
	out = append(out, w.rootHash...)
	out = append(out, w.fileHash...)
	out = binary.LittleEndian.AppendUint32(out, 1)
	out = append(out, tlBytes(w.proof)...)
	answer(out)
}

// goClientWait: the HAND-WRITTEN request wrappers of client.go (WaitMasterchainSeqno, WaitMasterchainBlock) through the
// real Client; the server reads the bytes with its own TL reading: liteServer.query, the waitMasterchainSeqno prefix with
// its arguments, the lookupBlock query behind it, and answers liteServer.error / liteServer.blockHeader.
//
//	args: seed nconn
func goClientWait(a []string) string {
	quiet12()
	return retryStalled(time.Second, func() string { return goClientWait1(a) })
}

func goClientWait1(a []string) string {
	seed, nconn := int64(atoi12(a[0])), atoi12(a[1])
	sc, conns, err := newScenario(seed, nconn, 2*time.Second, nil)
	if err != nil {
		return "FAIL setup " + err.Error()
	}
	defer sc.shutdown(conns)
	w := &waitScript{}
	sc.wait = w
	set := func(errCode uint32) {
		w.mu.Lock()
		w.seqno, w.timeout, w.errCode = uint32(sc.rnd(1<<30)), uint32(sc.rnd(100000)), errCode
		w.rootHash, w.fileHash, w.proof = sc.rndBytes(32), sc.rndBytes(32), sc.rndBytes(sc.rnd(400))
		w.mu.Unlock()
	}
	ctx := context.Background()
	for round := 0; round < 3; round++ {
		set(0)
		if err := sc.client.WaitMasterchainSeqno(ctx, w.seqno, w.timeout); err != nil {
			return "FAIL WaitMasterchainSeqno-failed " + firstLine(err.Error()) + " server: " + sc.log.fail
		}
		set(0)
		res, err := sc.client.WaitMasterchainBlock(ctx, w.seqno, w.timeout)
		if err != nil {
			return "FAIL WaitMasterchainBlock-failed " + firstLine(err.Error()) + " server: " + sc.log.fail
		}
		if res.Id.Seqno != w.seqno || res.Id.Workchain != 0xffffffff || res.Id.Shard != 0x8000000000000000 ||
			!bytes.Equal(res.Id.RootHash[:], w.rootHash) || !bytes.Equal(res.Id.FileHash[:], w.fileHash) ||
			res.Mode != 1 || !bytes.Equal(res.HeaderProof, w.proof) {
			return "FAIL WaitMasterchainBlock-wrong-header"
		}
		// a lite-server error must come back as an error from both wrappers
		set(uint32(600 + sc.rnd(100)))
		if err := sc.client.WaitMasterchainSeqno(ctx, w.seqno, w.timeout); err == nil {
			return "FAIL WaitMasterchainSeqno-ignores-error"
		}
		if _, err := sc.client.WaitMasterchainBlock(ctx, w.seqno, w.timeout); err == nil {
			return "FAIL WaitMasterchainBlock-ignores-error"
		}
	}
	if f := sc.log.fail; f != "" {
		return "FAIL " + f
	}
	if n := sc.client.VerifQueriesLen(); n != 0 {
		return fmt.Sprintf("FAIL registry-leak entries=%d", n)
	}
	return "ok"
}

// goClientRoundRobin: sequential calls over n connections reach the servers in the order 0,1,..,n-1,0,..
func goClientRoundRobin(a []string) string {
	quiet12()
	nconn, ncalls := atoi12(a[0]), atoi12(a[1])
	acts := make([]act, ncalls)
	for i := range acts {
		acts[i] = act{kind: 'n'}
	}
	sc, conns, err := newScenario(int64(nconn*1000+ncalls), nconn, 2*time.Second, acts)
	if err != nil {
		return "FAIL setup " + err.Error()
	}
	defer sc.shutdown(conns)
	for k := 0; k < ncalls; k++ {
		r := sc.doCall(k)
		if r.class != fmt.Sprintf("m%d", tagOf(k)) {
			return fmt.Sprintf("FAIL call=%d result=%s", k, r.class)
		}
		sc.log.mu.Lock()
		on := sc.log.seenOn[k]
		sc.log.mu.Unlock()
		if on != k%nconn {
			return fmt.Sprintf("FAIL not-round-robin call=%d conn=%d", k, on)
		}
	}
	return "ok"
}

// goClientGoroutines: the number of goroutines (and of registry entries) does not grow with completed calls.
//
//	args: seed warmup calls
func goClientGoroutines(a []string) string {
	quiet12()
	seed, warm, calls := int64(atoi12(a[0])), atoi12(a[1]), atoi12(a[2])
	total := warm + calls
	acts := make([]act, total)
	rng := rand.New(rand.NewSource(seed))
	for i := range acts {
		switch rng.Intn(20) {
		case 0:
			acts[i] = act{kind: 'x'}
		case 1:
			acts[i] = act{kind: '2'}
		case 2:
			acts[i] = act{kind: 'u'}
		default:
			acts[i] = act{kind: 'n'}
		}
	}
	sc, conns, err := newScenario(seed, 2, 25*time.Millisecond, acts)
	if err != nil {
		return "FAIL setup " + err.Error()
	}
	defer sc.shutdown(conns)
	const par = 16
	phase := func(from, to int) {
		var wg sync.WaitGroup
		var next int64 = int64(from)
		for j := 0; j < par; j++ {
			wg.Add(1)
			go func() {
				defer wg.Done()
				for {
					k := int(atomic.AddInt64(&next, 1)) - 1
					if k >= to {
						return
					}
					sc.doCall(k)
				}
			}()
		}
		wg.Wait()
	}
	settle := func() int {
		time.Sleep(80 * time.Millisecond)
		runtime.GC()
		return runtime.NumGoroutine()
	}
	phase(0, warm)
	g1 := settle()
	phase(warm, total)
	g2 := settle()
	if f := sc.log.fail; f != "" {
		return "FAIL " + f
	}
	if g2 > g1+8 {
		return fmt.Sprintf("FAIL goroutines-grow before=%d after=%d calls=%d", g1, g2, calls)
	}
	if n := sc.client.VerifQueriesLen(); n != 0 {
		return fmt.Sprintf("FAIL registry-leak entries=%d", n)
	}
	return "ok"
}

// goClientRace: builds the harness with the race detector and runs chaos scenarios under it (thorough tier only).
//
//	args: seed scenarios
func goClientRace(a []string) string {
	exe, err := os.Executable()
	if err != nil {
		return "FAIL race-setup " + err.Error()
	}
	harn := filepath.Join(filepath.Dir(exe), "..")
	modfile := filepath.Join(harn, "..", ".work", "mod_c12", "go.mod")
	out := filepath.Join(harn, "..", ".work", "vh_c12_race")
	build := osexec.Command("go", "build", "-race", "-modfile="+modfile, "-tags", "verif,c12", "-o", out, "./cmd/vh")
	build.Dir = harn
	build.Env = append(os.Environ(), "CGO_ENABLED=1", "GOFLAGS=-mod=mod", "GOPROXY=off", "GOSUMDB=off", "GOTOOLCHAIN=local")
	if b, err := build.CombinedOutput(); err != nil {
		return "FAIL race-build " + firstLine(string(b))
	}
	var buf bytes.Buffer
	w := &buf
	g := h.NewG(int64(atoi12(a[0])), "quick", nil)
	for i := 0; i < atoi12(a[1]); i++ {
		fmt.Fprintln(w, strings.Join(append([]string{"go.client.chaos"}, chaosArgs(g, false)...), " "))
		fmt.Fprintln(w, strings.Join(append([]string{"client.run"}, runArgs(g)...), " "))
	}
	run := osexec.Command(out, "exec", "-prop", "C12", "-timeout", "120s")
	run.Stdin = &buf
	run.Env = append(os.Environ(), "GORACE=halt_on_error=0", "VERIF_MODEL_BIN="+modelPath())
	var so, se bytes.Buffer
	run.Stdout, run.Stderr = &so, &se
	rerr := run.Run()
	if strings.Contains(se.String(), "DATA RACE") {
		i := strings.Index(se.String(), "DATA RACE")
		return "FAIL data-race " + strings.ReplaceAll(clip12(se.String()[i:]), "\n", " | ")
	}
	if rerr != nil {
		return "FAIL race-run " + rerr.Error() + " " + firstLine(se.String())
	}
	for _, l := range strings.Split(strings.TrimSpace(so.String()), "\n") {
		if strings.HasPrefix(l, "FAIL") || l == "timeout" || l == "panic" {
			return "FAIL under-race-detector " + clip12(l)
		}
	}
	return "ok"
}

// ---- generator ------------------------------------------------------------------------------------------------------

func scriptString(acts []act) string {
	ss := make([]string, len(acts))
	for i, a := range acts {
		if a.kind == 'd' {
			ss[i] = fmt.Sprintf("d%d", a.ms)
		} else {
			ss[i] = string(a.kind)
		}
	}
	return strings.Join(ss, ",")
}

func shape(g *h.G) (nconn, callers, per int) {
	nconn = 1 + g.Rng.Intn(3)
	callers = g.Pick(2, 2, 3, 4, 8, 8, 16, 32, 64)
	per = 1 + g.Rng.Intn(3)
	if callers >= 32 {
		per = 1 + g.Rng.Intn(2)
	}
	return
}

// runArgs: deterministic-outcome scenario
func runArgs(g *h.G) []string {
	nconn, callers, per := shape(g)
	if per > 2 {
		per = 1 + g.Rng.Intn(2)
	}
	tmo := 2000
	acts := make([]act, callers*per)
	late := g.Rng.Intn(8) == 0 // scenarios with late answers wait for them at the end: one in eight
	for i := range acts {
		switch g.Rng.Intn(16) {
		case 0:
			acts[i] = act{kind: 'x'}
		case 1:
			if late {
				acts[i] = act{kind: 'L'}
			} else {
				acts[i] = act{kind: 'x'}
			}
		case 2:
			acts[i] = act{kind: 'm'}
		case 3, 4:
			acts[i] = act{kind: '2'}
		case 5, 6:
			acts[i] = act{kind: 'u'}
		case 7, 8:
			acts[i] = act{kind: 'p'}
		case 9:
			acts[i] = act{kind: 'o'}
		case 10, 11:
			acts[i] = act{kind: 'd', ms: 1 + g.Rng.Intn(40)}
		default:
			acts[i] = act{kind: 'n'}
		}
	}
	g.Count(fmt.Sprintf("run_callers_%02d", callers))
	g.Count(fmt.Sprintf("run_conns_%d", nconn))
	for _, a := range acts {
		g.Count("run_action_" + string(a.kind))
	}
	return []string{fmt.Sprint(g.Rng.Int31()), fmt.Sprint(nconn), fmt.Sprint(tmo), fmt.Sprint(callers), fmt.Sprint(per), scriptString(acts)}
}

// chaosArgs: delays around the deadline, drops mid-request / idle / during reconnect
func chaosArgs(g *h.G, slow bool) []string {
	nconn, callers, per := shape(g)
	per++
	tmo := g.Pick(40, 60, 80, 120)
	acts := make([]act, callers*per)
	drops := 0
	for i := range acts {
		switch g.Rng.Intn(20) {
		case 0:
			acts[i] = act{kind: 'x'}
		case 1:
			if drops < 3 {
				acts[i] = act{kind: 'X'}
				drops++
			} else {
				acts[i] = act{kind: 'n'}
			}
		case 2:
			acts[i] = act{kind: 'm'}
		case 3:
			acts[i] = act{kind: '2'}
		case 4:
			acts[i] = act{kind: 'u'}
		case 5:
			acts[i] = act{kind: 'p'}
		case 6:
			acts[i] = act{kind: 'o'}
		case 7, 8, 9, 10:
			acts[i] = act{kind: 'd', ms: g.Rng.Intn(tmo * 3 / 2)}
		default:
			acts[i] = act{kind: 'n'}
		}
	}
	idle := g.Pick(0, 0, 1, 2)
	rejects := 0
	if slow {
		rejects = g.Pick(1, 1, 2)
	}
	g.Count(fmt.Sprintf("chaos_callers_%02d", callers))
	g.Count(fmt.Sprintf("chaos_conns_%d", nconn))
	g.Count(fmt.Sprintf("chaos_midrequest_drops_%d", drops))
	g.Count(fmt.Sprintf("chaos_idle_drops_%d", idle))
	g.Count(fmt.Sprintf("chaos_drops_during_reconnect_%d", rejects))
	return []string{fmt.Sprint(g.Rng.Int31()), fmt.Sprint(nconn), fmt.Sprint(tmo), fmt.Sprint(callers), fmt.Sprint(per),
		scriptString(acts), fmt.Sprint(idle), fmt.Sprint(rejects)}
}

func genC12(g *h.G) {
	if g.Thorough() {
		// first, so that the failing-input search of a quick run (thorough generator, capped) reaches it
		g.Emit("go.client.idle", "5", "32")
	}
	nRun := g.Scale(1000, 8000)
	nChaos := g.Scale(400, 4000)
	nSlow := g.Scale(6, 150)
	for i := 0; i < nRun; i++ {
		args := runArgs(g)
		g.NonTrivial("r/" + strings.Join(args, "/"))
		g.Emit("client.run", args...)
		if i*nChaos/nRun != (i+1)*nChaos/nRun {
			a := chaosArgs(g, false)
			g.NonTrivial("c/" + strings.Join(a, "/"))
			g.Emit("go.client.chaos", a...)
		}
		if i*nSlow/nRun != (i+1)*nSlow/nRun {
			a := chaosArgs(g, true)
			g.NonTrivial("c/" + strings.Join(a, "/"))
			g.Emit("go.client.chaos", a...)
		}
	}
	for n := 1; n <= 3; n++ {
		g.Emit("go.client.roundrobin", fmt.Sprint(n), fmt.Sprint(3*n+2))
	}
	g.Emit("go.client.goroutines", fmt.Sprint(g.Rng.Int31()), "300", fmt.Sprint(g.Scale(3000, 10000)))
	for i := 0; i < g.Scale(12, 120); i++ {
		g.Count("wrapper_call_scenarios")
		g.Emit("go.client.wait", fmt.Sprint(g.Rng.Int31()), fmt.Sprint(1+g.Rng.Intn(3)))
	}
	for i := 0; i < g.Scale(24, 300); i++ {
		g.Count("deadline_scenarios")
		g.Emit("go.client.deadlines", fmt.Sprint(g.Rng.Int31()), fmt.Sprint(1+g.Rng.Intn(3)), fmt.Sprint(g.Pick(120, 150, 200, 300)))
	}
	if g.Thorough() {
		// a peer that stops reading for 2.5 s while 16 callers send 6 MiB queries with a 300 ms timeout: KNOWN FINDING.
		// Thorough tier only: a (known) oracle failure in the quick tier would switch off check.py's failing-input search
		// for broken proof obligations.
		g.Emit("go.client.stalled", fmt.Sprint(g.Rng.Int31()), "16", "6", "300", "2500")
		g.Emit("go.client.race", fmt.Sprint(g.Rng.Int31()), "40")
	}
}
