//go:build c03

package main

import (
	"fmt"
	"reflect"
	"strings"

	"github.com/tonkeeper/tongo/boc"
	"github.com/tonkeeper/tongo/tlb"
	"verifharness/h"
	"verifharness/tlbx"
)

func init() {
	h.Register(&h.Prop{ID: "C03", Gen: genC03, Exec: withPrim(map[string]h.ExecFn{
		"tlb.enc":         exTlbEnc,
		"tlb.parsetag":    exParseTag,
		"tlb.fieldtag":    exFieldTag,
		"tlb.dec":         exTlbDec,
		"tlb.canon":       exTlbCanon,
		"tlb.canoninfo":   exTlbCanonInfo,
		"go.rt":           goRoundTrip,
		"go.redec":        goReDecode,
		"go.stable":       goStable,
		"go.bigint":       goBigInt,
		"go.magictrunc":   goMagicTrunc,
		"go.tight":        goTight,
		"abi.dec":         exAbiDec,
		"abi.enc":         exAbiEnc,
		"go.abi.rt":       goAbiRT,
		"tlb.stackput":    exTlbStackPut,
		"tlb.dns":         exTlbDns,
		"tlb.dnstext":     exTlbDnsText,
		"tlb.dnsspec":     exTlbDnsSpec,
		"go.vmstack.dest": goVmStackDest,
		"go.vmtuple":      goVmTuple,
		"go.vmcell.rt":    goVmCellRT,
		"go.chunked":      goChunked,
		"go.abi.wallet":   goAbiWallet,
		"go.readsrc":      goReadSrc,
	})})
}

// mutate returns damaged variants of a cell (as real cells): last bits dropped, one bit flipped, last ref dropped.
func mutateCell(g *h.G, c *boc.Cell) []*boc.Cell {
	row := h.RowOf(c)
	refs := c.Refs()
	var out []*boc.Cell
	mk := func(data []byte, n int, rs []*boc.Cell) {
		d := make([]byte, (n+7)/8)
		copy(d, data)
		if n%8 != 0 {
			d[len(d)-1] &= byte(0xff << uint(8-n%8))
		}
		out = append(out, boc.VerifNewCell(boc.OrdinaryCell, 0, d, n, rs))
	}
	if row.BitLen > 0 {
		mk(row.Data, row.BitLen-1-g.Rng.Intn(minInt(row.BitLen, 9)), refs)
		d := append([]byte{}, row.Data...)
		i := g.Rng.Intn(row.BitLen)
		d[i/8] ^= 1 << uint(7-i%8)
		mk(d, row.BitLen, refs)
	}
	if len(refs) > 0 {
		mk(row.Data, row.BitLen, refs[:len(refs)-1])
	}
	return out
}

func genC03(g *h.G) {
	tlbInit()
	perType := g.Scale(8, 400)
	gc := tlbx.NewGenCtx(g.Rng, tlbU)
	goc := tlbx.NewGenCtx(g.Rng, tlbU)
	goc.Cov = gc.Cov
	totalCtors := map[string]bool{}
	for _, tt := range tlbTypes {
		g.Count("types_" + tt.Class)
		if tt.Class != "model" {
			why := strings.Join(tt.Why, ";")
			if len(why) > 120 {
				why = why[:120]
			}
			g.Count("not_fully_modelled:" + tt.Name + ":" + tt.Class + ":" + strings.ReplaceAll(why, " ", "_"))
		} else if r, pinned := tlbx.NonWf[tt.Name]; pinned {
			g.Count("modelled_but_outside_the_theorem:" + tt.Name + ":" + strings.ReplaceAll(r[:minInt(len(r), 100)], " ", "_"))
		}
		tlbU.Walk(tt.D, map[string]bool{}, func(*tlbx.Desc) {})
		switch tt.Class {
		case "unsupported", "not-tlb":
			continue
		case "model", "partial", "decode":
			for i := 0; i < perType; i++ {
				gc.ModelOnly = true
				v := reflect.New(tt.T).Elem()
				gc.Gen(tt.D, v, "p")
				txt := tlbx.Print(v)
				g.Emit("tlb.enc", tt.Name, tt.Ty, tt.Env, txt)
				g.Emit("go.rt", tt.Name, txt)
				if strings.Count(txt, "(") >= 2 || strings.Contains(txt, ":") {
					g.NonTrivial(tt.Name + "/" + txt)
				}
				c, err := marshalValue(v)
				if err != nil {
					g.Count("values_enc_err")
					continue
				}
				g.Count("values_encodable")
				g.Emit("tlb.dec", tt.Name, tt.Ty, tt.Env, tlbx.CellText(c))
				if tt.Class == "model" && i%2 == 0 {
					for _, m := range mutateCell(g, c) {
						g.Emit("tlb.dec", tt.Name, tt.Ty, tt.Env, tlbx.CellText(m))
						g.Count("malformed_dec_inputs")
					}
				}
			}
			if tt.Class == "partial" { // also values outside the model (non-empty dictionaries): Go-side oracle only
				for i := 0; i < perType/2+1; i++ {
					goc.ModelOnly = false
					v := reflect.New(tt.T).Elem()
					goc.Gen(tt.D, v, "p")
					g.Emit("go.rt", tt.Name, tlbx.Print(v))
				}
			}
		case "opaque":
			for i := 0; i < perType; i++ {
				goc.ModelOnly = false
				v := reflect.New(tt.T).Elem()
				goc.Gen(tt.D, v, "p")
				txt := tlbx.Print(v)
				if strings.Contains(txt, ":?") {
					// holds a Go interface (decoded payload of unknown type): no textual value form
					g.Count("opaque_types_with_interface_values")
					break
				}
				g.Emit("go.stable", tt.Name, txt)
				if strings.Count(txt, "(") >= 2 {
					g.NonTrivial(tt.Name + "/" + txt)
				}
			}
		}
	}
	// constructor coverage of every sum type reachable from the registry
	seen := map[string]bool{}
	for _, tt := range tlbTypes {
		tlbU.Walk(tt.D, seen, func(d *tlbx.Desc) {})
	}
	for name, body := range tlbU.Named {
		if body.Kind != tlbx.KSum {
			continue
		}
		for _, c := range body.Ctors {
			totalCtors[name+"."+c.Name] = true
		}
	}
	hit := 0
	for k := range totalCtors {
		if gc.Cov[k] > 0 {
			hit++
		} else {
			g.Count("ctor_never_generated:" + k)
		}
	}
	g.Counters["sum_constructors_total"] = len(totalCtors)
	g.Counters["sum_constructors_generated"] = hit
	for k, n := range gc.Cov {
		if !strings.Contains(k, ".") {
			g.Counters["gen_"+k] += n
		}
	}
	genBigInt(g)
	// Magic.ValidateTag on a cell that ends before the tag (zero-valued tags: the shipped code dropped the read error)
	for _, tag := range []string{"#0", "#00", "$0", "$00", "#00000000", "x#0", "shardident$00"} {
		for _, n := range []int{0, 1, 3} {
			g.Emit("go.magictrunc", fmt.Sprintf("%x", tag), fmt.Sprint(n))
		}
	}
	// the hand codecs with their own MarshalTLB and a flag-dependent layout: the decoder must consume all the encoder wrote
	for _, n := range []string{"tlb.McBlockExtra", "tlb.McStateExtraOther"} {
		tt := tlbLookup(n)
		for i := 0; i < g.Scale(12, 200); i++ {
			gc.ModelOnly = true
			v := reflect.New(tt.T).Elem()
			gc.Gen(tt.D, v, "p")
			g.Emit("go.tight", n, tlbx.Print(v))
		}
	}
	genAbiBodies(g)
	genNilPointers(g)
	genDnsAndStack(g)
	genRound6(g)
	genTags(g)
	genReal(g)
}

// ------------------------------------------------------------------------------------------- wide integers

// go.bigint <kind> <width> <value>: the generated wide integer types round-trip every in-range value.
func goBigInt(a []string) string {
	name := map[string]string{"u": "tlb.Uint", "i": "tlb.Int"}[a[0]] + a[1]
	tt := tlbLookup(name)
	v, err := tlbx.Read(a[2], tt.T)
	if err != nil {
		return "bad-op"
	}
	r := roundTrip(tt, v)
	if r == "ok enc-err" {
		return "FAIL in-range-value-rejected"
	}
	return r
}

// go.magictrunc <hex of the tag> <n>: a cell of n zero bits, n smaller than the tag: ValidateTag must fail
func goMagicTrunc(a []string) string {
	var tag []byte
	fmt.Sscanf(a[0], "%x", &tag)
	var n int
	fmt.Sscan(a[1], &n)
	t, err := tlb.ParseTag(string(tag))
	if err != nil || t.Len <= n {
		return "ok skipped"
	}
	c := boc.NewCell()
	if err := c.WriteUint(0, n); err != nil {
		return "bad-op"
	}
	var m tlb.Magic
	if err := m.ValidateTag(c, string(tag)); err == nil {
		return "FAIL truncated-cell-passes-the-tag-check"
	}
	return "ok rejected"
}

// go.tight <GoType> <val>: what Marshal writes is consumed entirely by Unmarshal (no field written that the decoder
// does not read: McBlockExtra's config outside a key block)
func goTight(a []string) string {
	tt := tlbLookup(a[0])
	v, err := tlbx.Read(a[1], tt.T)
	if err != nil {
		return "bad-op"
	}
	c, err := marshalValue(v)
	if err != nil {
		return "ok enc-err"
	}
	p := reflect.New(tt.T)
	c.ResetCounters()
	if err := tlb.Unmarshal(c, p.Interface()); err != nil {
		return "FAIL own-output-not-decodable"
	}
	if c.BitsAvailableForRead() != 0 || c.RefsAvailableForRead() != 0 {
		return fmt.Sprintf("FAIL written-but-not-read bits=%d refs=%d", c.BitsAvailableForRead(), c.RefsAvailableForRead())
	}
	return "ok tight"
}

func genBigInt(g *h.G) {
	gc := tlbx.NewGenCtx(g.Rng, tlbU)
	n := g.Scale(40, 1500)
	for _, w := range []int{128, 256, 257} {
		for i := 0; i < n; i++ {
			x, c := gc.UintValue(w)
			g.Emit("go.bigint", "u", fmt.Sprint(w), x.String())
			y, c2 := gc.IntValue(w)
			g.Emit("go.bigint", "i", fmt.Sprint(w), y.String())
			g.Count(fmt.Sprintf("bigint_%d_%s_%s", w, c, c2))
		}
	}
}
