//go:build c10

package main

import (
	"bytes"
	"context"
	"encoding/binary"
	"fmt"
	"go/ast"
	"go/format"
	"go/parser"
	"go/token"
	"hash/crc32"
	"io"
	"math/bits"
	"net"
	"os"
	osexec "os/exec"
	"path/filepath"
	"reflect"
	"strconv"
	"strings"
	"sync"
	"time"

	"github.com/tonkeeper/tongo/boc"
	"github.com/tonkeeper/tongo/liteclient"
	"github.com/tonkeeper/tongo/tl"
	"github.com/tonkeeper/tongo/tlb"
	"github.com/tonkeeper/tongo/ton"
	"verifharness/h"
	"verifharness/tlexec"
	"verifharness/tlmini"
)

type liteBinding struct{}

func init() {
	ops := tlexec.Ops(liteBinding{}, "tl.req", stripQid)
	for k, v := range map[string]h.ExecFn{
		"prim.crc32":          func(a []string) string { return fmt.Sprint(crc32.ChecksumIEEE(h.MustUnHex(a[0]))) },
		"tl.schema":           exSchema,
		"tl.crcid":            exCrcID,
		"tl.wait.seqno":       exWaitSeqno,
		"tl.wait.block":       exWaitBlock,
		"go.tl.tagtable":      goTagTable,
		"go.tl.reflectsum":    goReflectSum,
		"go.tl.zerovec":       goZeroVec,
		"tl.hw.accountid":     exHwAccountID,
		"tl.hw.blockidext":    exHwBlockIDExt,
		"tl.hw.accountid.dec": exHwAccountIDDec,
		"tl.hw.blockidext.dec": exHwBlockIDExtDec,
		"tl.hw.int256.dec":    exHwInt256Dec,
		"go.tl.hw":            goHandwritten,
		"go.tl.hw.vmstack":    goVmStack,
		"go.tl.toolong":       goTooLong,
		"go.regen.liteclient": func([]string) string { return goRegen("liteclient", "generated.go", "lite_api.tl") },
		"go.regen.integers":   func([]string) string { return goRegen("tlb", "integers.go") },
	} {
		ops[k] = v
	}
	h.Register(&h.Prop{ID: "C10", Gen: genC10, Exec: ops})
}

// stripQid removes the random part of a captured ADNL payload: magic, 32 bytes random query id, query
func stripQid(captured []byte) ([]byte, bool) {
	if len(captured) < 36 {
		return nil, false
	}
	return append(append([]byte{}, captured[:4]...), captured[36:]...), true
}

// the hand-written request builders of liteclient/client.go against the stub connection:
// tl.wait.seqno / tl.wait.block <schema> <seqno> <timeout> <answer hex> -> ok <request as sent, query id removed> <outcome>
func waitCall(a []string, f func(st *stubServer, seqno, timeout uint32) string) string {
	sq, e1 := strconv.ParseUint(a[1], 10, 32)
	to, e2 := strconv.ParseUint(a[2], 10, 32)
	if e1 != nil || e2 != nil {
		return "bad-op"
	}
	st := getStub()
	st.mu.Lock()
	st.answer, st.captured = unDash(a[3]), nil
	st.mu.Unlock()
	res := f(st, uint32(sq), uint32(to))
	st.mu.Lock()
	captured := st.captured
	st.mu.Unlock()
	out, ok := stripQid(captured)
	if !ok {
		return "err"
	}
	return "ok " + h.Hex(out) + " " + res
}

func lsErrText(s *tlmini.Schema, err error) string {
	le, ok := err.(liteclient.LiteServerErrorC)
	if !ok {
		return "err"
	}
	vs, err2 := s.GetFields(s.Ctor("liteServer.error"), reflect.ValueOf(le))
	if err2 != nil {
		return "nobinding " + err2.Error()
	}
	return "lserr " + (&tlmini.Val{K: tlmini.VTuple, Items: vs}).String()
}

func exWaitSeqno(a []string) string {
	s := schemaOfArg(a[0])
	return waitCall(a, func(st *stubServer, seqno, timeout uint32) string {
		err := st.client.WaitMasterchainSeqno(context.Background(), seqno, timeout)
		if err == nil {
			return "nil"
		}
		return lsErrText(s, err)
	})
}

func exWaitBlock(a []string) string {
	s := schemaOfArg(a[0])
	return waitCall(a, func(st *stubServer, seqno, timeout uint32) string {
		res, err := st.client.WaitMasterchainBlock(context.Background(), seqno, timeout)
		if err != nil {
			return lsErrText(s, err)
		}
		c := s.Ctor("liteServer.blockHeader")
		vs, err2 := s.GetFields(c, reflect.ValueOf(res))
		if err2 != nil {
			return "nobinding " + err2.Error()
		}
		return "res " + (&tlmini.Val{K: tlmini.VSum, Ctor: c.Ctor, Items: vs}).String()
	})
}

// reflAdnlMessage: adnl.Message written for package tl's REFLECTION codec (tl.SumType + `tlSumType` struct tags, the
// mechanism the generated request wrappers use for marshalling); the generated AdnlMessage has its own methods.
type reflAdnlMessage struct {
	tl.SumType
	AdnlMessageQuery struct {
		QueryId tl.Int256
		Query   []byte
	} `tlSumType:"b48bf97a"`
	AdnlMessageAnswer struct {
		QueryId tl.Int256
		Answer  []byte
	} `tlSumType:"0fac8416"`
}

// goReflectSum <0|1> <query id hex32> <payload hex>: the reflection codec of package tl on a sum type agrees, in both
// directions, with the generated codec of the same type: same bytes, and each decodes the other's bytes to the value.
func goReflectSum(a []string) string {
	var id tl.Int256
	copy(id[:], h.MustUnHex(a[1]))
	data := unDash(a[2])
	var r reflAdnlMessage
	var gen liteclient.AdnlMessage
	if a[0] == "0" {
		r.SumType, gen.SumType = "AdnlMessageQuery", "AdnlMessageQuery"
		r.AdnlMessageQuery.QueryId, r.AdnlMessageQuery.Query = id, data
		gen.AdnlMessageQuery.QueryId, gen.AdnlMessageQuery.Query = id, data
	} else {
		r.SumType, gen.SumType = "AdnlMessageAnswer", "AdnlMessageAnswer"
		r.AdnlMessageAnswer.QueryId, r.AdnlMessageAnswer.Answer = id, data
		gen.AdnlMessageAnswer.QueryId, gen.AdnlMessageAnswer.Answer = id, data
	}
	b1, err1 := tl.Marshal(r)
	b2, err2 := tl.Marshal(gen)
	if err1 != nil || err2 != nil || !bytes.Equal(b1, b2) {
		return failf("reflectsum", "reflection %x (%v) vs generated %x (%v)", b1, err1, b2, err2)
	}
	var back reflAdnlMessage
	if err := tl.Unmarshal(bytes.NewReader(b2), &back); err != nil {
		return failf("reflectsum", "reflection decoder on %x: %v", b2, err)
	}
	if back.SumType != r.SumType || back.AdnlMessageQuery.QueryId != r.AdnlMessageQuery.QueryId || !bytes.Equal(back.AdnlMessageQuery.Query, r.AdnlMessageQuery.Query) ||
		back.AdnlMessageAnswer.QueryId != r.AdnlMessageAnswer.QueryId || !bytes.Equal(back.AdnlMessageAnswer.Answer, r.AdnlMessageAnswer.Answer) {
		return failf("reflectsum", "reflection decoder on %x gives another value (SumType %q)", b2, back.SumType)
	}
	return "ok"
}

// goZeroVec <count>: a vector whose items occupy zero bytes (a constructor without fields) is decodable from the four
// bytes of its count alone; tl.decodeVector then performs `count` iterations (up to 2^32) for a 4-byte input. A decoder
// with work bounded by its input answers at once.
func goZeroVec(a []string) string {
	n, _ := strconv.ParseUint(a[0], 10, 32)
	var v struct{ Items []struct{} }
	t0 := time.Now()
	err := tl.Unmarshal(bytes.NewReader(binary.LittleEndian.AppendUint32(nil, uint32(n))), &v)
	if d := time.Since(t0); d > time.Second {
		return failf("unbounded-work", "tl.Unmarshal of a 4-byte input (vector of %d zero-size items) took %v (err=%v)", n, d.Round(time.Second), err)
	}
	return "ok"
}

// goTagTable: liteapi/models.go is a table `<CamelCase(constructor)>Tag = <id, bytes reversed>`; every constant whose
// name is that of a declaration of lite_api.tl (or of its commented `liteServer.waitMasterchainSeqno`) must carry that
// declaration's id. Input-free comparison of two artefacts.
func goTagTable([]string) string {
	src, err := os.ReadFile(filepath.Join(repoDir(), "liteclient", "lite_api.tl"))
	if err != nil {
		return "bad-op"
	}
	s, err := tlmini.Parse(string(src))
	if err != nil {
		return "bad-op"
	}
	want := map[string]uint32{"LiteServerWaitMasterchainSeqno": 0xbaeab892}
	for _, d := range append(append([]*tlmini.Decl{}, s.Types...), s.Funcs...) {
		want[tlmini.GoBoxedName(d.Ctor)] = uint32(d.ID)
	}
	f, err := parser.ParseFile(token.NewFileSet(), filepath.Join(repoDir(), "liteapi", "models.go"), nil, 0)
	if err != nil {
		return failf("tagtable", "%v", err)
	}
	var bad []string
	n := 0
	for _, d := range f.Decls {
		gd, ok := d.(*ast.GenDecl)
		if !ok || gd.Tok != token.CONST {
			continue
		}
		for _, sp := range gd.Specs {
			vs := sp.(*ast.ValueSpec)
			if len(vs.Names) != 1 || len(vs.Values) != 1 || !strings.HasSuffix(vs.Names[0].Name, "Tag") {
				continue
			}
			lit, ok := vs.Values[0].(*ast.BasicLit)
			if !ok {
				continue
			}
			v, err := strconv.ParseUint(lit.Value, 0, 32)
			id, known := want[strings.TrimSuffix(vs.Names[0].Name, "Tag")]
			if err != nil || !known {
				continue
			}
			n++
			if bits.ReverseBytes32(uint32(v)) != id {
				bad = append(bad, fmt.Sprintf("%s=%#08x (schema id %08x)", vs.Names[0].Name, v, id))
			}
		}
	}
	if len(bad) > 0 {
		return failf("tagtable", "%d of %d constants of liteapi/models.go do not carry the id of their declaration: %s", len(bad), n, strings.Join(bad, ", "))
	}
	return "ok"
}

func (liteBinding) Type(name string) (reflect.Type, bool) { return goType(name) }

func (liteBinding) Call(method string, req reflect.Value, answer []byte) (reflect.Value, error, []byte, bool) {
	return getStub().call(method, req, answer)
}

func (liteBinding) ServerError(err error) (reflect.Value, bool) {
	le, ok := err.(liteclient.LiteServerErrorC)
	return reflect.ValueOf(le), ok
}

func (liteBinding) DecodeRequest(b []byte) (uint32, *string, any, error) {
	return liteclient.LiteapiRequestDecoder(b)
}

// ------------------------------------------------------------------------------------------- Go type registry

var (
	liteTypesOnce sync.Once
	liteTypes     map[string]reflect.Type
)

func collectTypes(t reflect.Type, seen map[reflect.Type]bool) {
	if seen[t] {
		return
	}
	seen[t] = true
	switch t.Kind() {
	case reflect.Pointer, reflect.Slice, reflect.Array:
		collectTypes(t.Elem(), seen)
	case reflect.Struct:
		if t.Name() != "" && strings.HasSuffix(t.PkgPath(), "/liteclient") {
			liteTypes[t.Name()] = t
		}
		for i := 0; i < t.NumField(); i++ {
			collectTypes(t.Field(i).Type, seen)
		}
	}
}

// goType finds the generated Go type by the generator's naming convention. Types are discovered by reflection from
// the methods of *liteclient.Client; the few declarations no function mentions are listed here.
func goType(name string) (reflect.Type, bool) {
	liteTypesOnce.Do(func() {
		liteTypes = map[string]reflect.Type{}
		seen := map[reflect.Type]bool{}
		ct := reflect.TypeOf(&liteclient.Client{})
		for i := 0; i < ct.NumMethod(); i++ {
			mt := ct.Method(i).Type
			for k := 1; k < mt.NumIn(); k++ {
				collectTypes(mt.In(k), seen)
			}
			for k := 0; k < mt.NumOut(); k++ {
				collectTypes(mt.Out(k), seen)
			}
		}
		for _, x := range []any{liteclient.AdnlMessage{}, liteclient.LiteServerErrorC{}, liteclient.TonNodeShardPublicOverlayIdC{},
			liteclient.LiteServerDebugVerbosityC{}, liteclient.LiteServerSignatureSet{}, liteclient.LiteServerSignatureSetC{},
			liteclient.LiteServerMasterchainInfoC{}, liteclient.LiteServerGetMasterchainInfoRequest{},
			liteclient.LiteServerGetTimeRequest{}, liteclient.LiteServerGetVersionRequest{},
			liteclient.LiteProxyGetRequestRateLimitRequest{}} {
			collectTypes(reflect.TypeOf(x), seen)
		}
	})
	t, ok := liteTypes[name]
	return t, ok
}

// ------------------------------------------------------------------------------------------------- schema ops

func exSchema(a []string) string {
	s := schemaOfArg(a[0])
	return fmt.Sprintf("ok %d %d 1 %s", len(s.Types), len(s.Funcs), textHex(s.Render()))
}

// the id spelled in the schema (the model answers with the CRC-32 of the declaration text)
func exCrcID(a []string) string {
	s := schemaOfArg(a[1])
	all := append(append([]*tlmini.Decl{}, s.Types...), s.Funcs...)
	if len(all) != 1 {
		return "bad-op"
	}
	return fmt.Sprintf("ok %08x", all[0].ID)
}

// genWait: WaitMasterchainSeqno / WaitMasterchainBlock with every kind of answer: liteServer.error with code 0 and with
// other codes, a block header, another constructor id, fewer than four bytes, a truncated error / header
func genWait(g *h.G, s *tlmini.Schema) {
	sub := textHex(s.Sub(nil, []string{"liteServer.lookupBlock"}, "liteServer.error"))
	le32 := func(v uint32) []byte { return binary.LittleEndian.AppendUint32(nil, v) }
	errID, hdrID := uint32(s.Ctor("liteServer.error").ID), uint32(s.Ctor("liteServer.blockHeader").ID)
	for i := 0; i < g.Scale(40, 600); i++ {
		seqno, timeout := uint32(g.U64()), uint32(g.U64())
		if i%4 == 0 {
			seqno, timeout = uint32(g.Rng.Intn(3)), uint32(g.Rng.Intn(3))
		}
		var ans []byte
		switch i % 8 {
		case 0, 1: // liteServer.error code 0
			msg, _ := tlmini.EncBytes(g.Bytes(g.Rng.Intn(20)))
			ans = append(append(le32(errID), le32(0)...), msg...)
		case 2:
			msg, _ := tlmini.EncBytes(g.Bytes(g.Rng.Intn(300)))
			ans = append(append(le32(errID), le32(uint32(g.U64()))...), msg...)
		case 3, 4: // liteServer.blockHeader id:tonNode.blockIdExt mode:# header_proof:bytes
			proof, _ := tlmini.EncBytes(g.Bytes(g.Rng.Intn(300)))
			ans = append(append(append(le32(hdrID), g.Bytes(80)...), le32(uint32(g.U64()))...), proof...)
			ans = append(ans, g.Bytes(g.Rng.Intn(2)*4)...)
		case 5:
			ans = append(le32(uint32(g.U64())), g.Bytes(g.Rng.Intn(100))...)
		case 6:
			ans = g.Bytes(g.Rng.Intn(4))
		case 7:
			id := errID
			if g.Rng.Intn(2) == 0 {
				id = hdrID
			}
			ans = append(le32(id), g.Bytes(g.Rng.Intn(40))...)
		}
		g.Emit("tl.wait.seqno", sub, fmt.Sprint(seqno), fmt.Sprint(timeout), hexDash(ans))
		g.Emit("tl.wait.block", sub, fmt.Sprint(seqno), fmt.Sprint(timeout), hexDash(ans))
	}
}

// -------------------------------------------------------------------------------------------- stub connection

type idStream struct{}

func (idStream) XORKeyStream(dst, src []byte) { copy(dst, src) }

type stubServer struct {
	client   *liteclient.Client
	inject   func([]byte)
	mu       sync.Mutex
	answer   []byte // what the "lite server" answers to the next liteServer.query
	captured []byte // the last ADNL payload written by the client
}

var (
	stubOnce sync.Once
	stub     *stubServer
)

func getStub() *stubServer {
	stubOnce.Do(func() {
		cl, srv := net.Pipe()
		st := &stubServer{}
		st.client, st.inject = liteclient.VerifNewClient(cl, idStream{}, idStream{}, 10*time.Second)
		go func() {
			for {
				var sz [4]byte
				if _, err := io.ReadFull(srv, sz[:]); err != nil {
					return
				}
				n := int(binary.LittleEndian.Uint32(sz[:]))
				frame := make([]byte, n)
				if _, err := io.ReadFull(srv, frame); err != nil || n < 64 {
					return
				}
				payload := frame[32 : n-32]
				st.mu.Lock()
				st.captured = append([]byte{}, payload...)
				ans := st.answer
				st.mu.Unlock()
				if len(payload) < 36 {
					continue
				}
				// adnl.message.answer#0fac8416 query_id:int256 answer:bytes
				resp := []byte{0x16, 0x84, 0xac, 0x0f}
				resp = append(resp, payload[4:36]...)
				body, err := tlmini.EncBytes(ans)
				if err != nil {
					continue
				}
				resp = append(resp, body...)
				go st.inject(resp)
			}
		}()
		stub = st
	})
	return stub
}

// call invokes (*Client).<method> by reflection with the given request (invalid Value = no parameter).
func (st *stubServer) call(method string, req reflect.Value, answer []byte) (res reflect.Value, err error, captured []byte, ok bool) {
	m := reflect.ValueOf(st.client).MethodByName(method)
	if !m.IsValid() {
		return reflect.Value{}, nil, nil, false
	}
	st.mu.Lock()
	st.answer, st.captured = answer, nil
	st.mu.Unlock()
	args := []reflect.Value{reflect.ValueOf(context.Background())}
	if m.Type().NumIn() == 2 {
		if !req.IsValid() {
			req = reflect.New(m.Type().In(1)).Elem()
		}
		args = append(args, req)
	}
	out := m.Call(args)
	if e, isErr := out[1].Interface().(error); isErr && e != nil {
		err = e
	}
	st.mu.Lock()
	captured = st.captured
	st.mu.Unlock()
	return out[0], err, captured, true
}

// ------------------------------------------------------------------------------------------ hand-written types

func exHwAccountID(a []string) string {
	wc, _ := strconv.ParseUint(a[0], 10, 32)
	id := ton.AccountID{Workchain: int32(uint32(wc))}
	copy(id.Address[:], h.MustUnHex(a[1]))
	b, err := tl.Marshal(id)
	return h.Outcome(h.Hex(b), err)
}

func mkBlockIDExt(a []string) ton.BlockIDExt {
	wc, _ := strconv.ParseUint(a[0], 10, 32)
	sh, _ := strconv.ParseUint(a[1], 10, 64)
	sq, _ := strconv.ParseUint(a[2], 10, 32)
	id := ton.BlockIDExt{BlockID: ton.BlockID{Workchain: int32(uint32(wc)), Shard: sh, Seqno: uint32(sq)}}
	copy(id.RootHash[:], h.MustUnHex(a[3]))
	copy(id.FileHash[:], h.MustUnHex(a[4]))
	return id
}

func exHwBlockIDExt(a []string) string {
	b, err := tl.Marshal(mkBlockIDExt(a))
	return h.Outcome(h.Hex(b), err)
}

func hexDash(b []byte) string {
	if len(b) == 0 {
		return "-"
	}
	return h.Hex(b)
}

// decode sides of the hand-written codecs, on arbitrary bytes (encodings, truncations, extra bytes)
func exHwAccountIDDec(a []string) string {
	r := bytes.NewReader(unDash(a[0]))
	var id ton.AccountID
	if err := tl.Unmarshal(r, &id); err != nil {
		return "err"
	}
	rest, _ := io.ReadAll(r)
	return fmt.Sprintf("ok %d %s %s", uint32(id.Workchain), h.Hex(id.Address[:]), hexDash(rest))
}

func exHwBlockIDExtDec(a []string) string {
	var id ton.BlockIDExt
	if err := id.UnmarshalTL(unDash(a[0])); err != nil {
		return "err"
	}
	return fmt.Sprintf("ok %d %d %d %s %s", uint32(id.Workchain), id.Shard, id.Seqno, h.Hex(id.RootHash[:]), h.Hex(id.FileHash[:]))
}

func exHwInt256Dec(a []string) string {
	r := bytes.NewReader(unDash(a[0]))
	var i tl.Int256
	if err := tl.Unmarshal(r, &i); err != nil {
		return "err"
	}
	rest, _ := io.ReadAll(r)
	return fmt.Sprintf("ok %s %s", h.Hex(i[:]), hexDash(rest))
}

func unDash(s string) []byte {
	if s == "-" {
		return nil
	}
	return h.MustUnHex(s)
}

// goHandwritten: the hand-written codecs agree with the generated ones of the same declaration, and decode what they
// encode (wc addrhex shard seqno roothex filehex).
func goHandwritten(a []string) string {
	wc, _ := strconv.ParseUint(a[0], 10, 32)
	id := ton.AccountID{Workchain: int32(uint32(wc))}
	copy(id.Address[:], h.MustUnHex(a[1]))
	b1, err := tl.Marshal(id)
	if err != nil {
		return failf("hw-accountid", "marshal: %v", err)
	}
	b2, err := tl.Marshal(liteclient.AccountID(id))
	if err != nil || !bytes.Equal(b1, b2) {
		return failf("hw-accountid", "ton.AccountID %x vs LiteServerAccountIdC %x", b1, b2)
	}
	var back ton.AccountID
	if err := tl.Unmarshal(bytes.NewReader(b1), &back); err != nil || back != id {
		return failf("hw-accountid", "round trip %v", err)
	}
	bid := mkBlockIDExt([]string{a[0], a[2], a[3], a[4], a[5]})
	c1, err := tl.Marshal(bid)
	if err != nil {
		return failf("hw-blockidext", "marshal: %v", err)
	}
	c2, err := tl.Marshal(liteclient.BlockIDExt(bid))
	if err != nil || !bytes.Equal(c1, c2) {
		return failf("hw-blockidext", "ton.BlockIDExt %x vs TonNodeBlockIdExtC %x", c1, c2)
	}
	var gen liteclient.TonNodeBlockIdExtC
	if err := tl.Unmarshal(bytes.NewReader(c1), &gen); err != nil || gen.ToBlockIdExt() != bid {
		return failf("hw-blockidext", "generated decoder on hand-written bytes: %v", err)
	}
	var back2 ton.BlockIDExt
	if err := back2.UnmarshalTL(c1); err != nil || back2 != bid {
		return failf("hw-blockidext", "round trip %v", err)
	}
	var i256 tl.Int256
	copy(i256[:], h.MustUnHex(a[4]))
	d1, _ := tl.Marshal(i256)
	var i2 tl.Int256
	if !bytes.Equal(d1, i256[:]) || tl.Unmarshal(bytes.NewReader(append(d1, 1, 2, 3)), &i2) != nil || i2 != i256 {
		return failf("hw-int256", "%x", d1)
	}
	return "ok"
}

// goVmStack: tlb.VmStack.MarshalTL is the TL `bytes` encoding of the stack's BOC, and UnmarshalTL reads it back
// (the BOC and TL-B layers themselves are properties C01/C03). args: n tiny integers.
func goVmStack(a []string) string {
	var st tlb.VmStack
	for _, x := range a {
		n, _ := strconv.ParseInt(x, 10, 64)
		st = append(st, tlb.VmStackValue{SumType: "VmStkTinyInt", VmStkTinyInt: n})
	}
	got, err := tl.Marshal(st)
	if err != nil {
		return failf("hw-vmstack", "marshal: %v", err)
	}
	cell := boc.NewCell()
	if err := tlb.Marshal(cell, st); err != nil {
		return failf("hw-vmstack", "tlb: %v", err)
	}
	bocBytes, err := cell.ToBocCustom(false, false, false, 0)
	if err != nil {
		return failf("hw-vmstack", "boc: %v", err)
	}
	want, _ := tlmini.EncBytes(bocBytes)
	if !bytes.Equal(got, want) {
		return failf("hw-vmstack", "layout: %x, want bytes(boc) = %x", got, want)
	}
	var back tlb.VmStack
	r := bytes.NewReader(append(append([]byte{}, got...), 0xaa))
	if err := tl.Unmarshal(r, &back); err != nil || r.Len() != 1 {
		return failf("hw-vmstack", "unmarshal: %v, %d bytes left", err, r.Len())
	}
	// the TL-B codec of VmStack writes top-first and reads bottom-first (documented convention, property C03)
	rev := make(tlb.VmStack, len(back))
	for i := range back {
		rev[len(back)-1-i] = back[i]
	}
	again, err := tl.Marshal(rev)
	if err != nil || !bytes.Equal(again, got) || len(back) != len(st) {
		return failf("hw-vmstack", "round trip")
	}
	return "ok"
}

// goTooLong: a byte string that has no TL representation (2^24 bytes or more: the long length prefix has three bytes)
// must be refused, not encoded under a truncated length. args: length kind(bytes|string)
func goTooLong(a []string) string {
	n, _ := strconv.Atoi(a[0])
	data := make([]byte, n)
	var v any = data
	if a[1] == "string" {
		v = string(data)
	}
	b, err := tl.Marshal(v)
	if n >= 1<<24 {
		if err == nil {
			var back []byte
			if tl.Unmarshal(bytes.NewReader(b), &back) != nil || len(back) != n {
				return failf("toolong", "Marshal of %d bytes returns %d bytes with prefix %x and no error; they decode to %d bytes", n, len(b), b[:4], len(back))
			}
		}
		return "ok"
	}
	if err != nil || len(b) != 4+n+(4-n%4)%4 {
		return failf("toolong", "Marshal of %d bytes: %v", n, err)
	}
	return "ok"
}

// goRegen (translator X6): run the repository's own generator into a scratch directory and compare its output, after
// gofmt (the checked-in files are gofmt-ed, the generators write an unformatted header), byte for byte with the
// checked-in file.
func goRegen(pkg, artefact string, inputs ...string) string {
	repo := repoDir()
	dir, err := scratchDir("regen")
	if err != nil {
		return failf("regen-scratch", "%v", err)
	}
	defer os.RemoveAll(dir)
	bin := filepath.Join(dir, "gen")
	cmd := osexec.Command("go", "build", "-o", bin, "./"+pkg+"/generator.go")
	cmd.Dir = repo
	if out, err := cmd.CombinedOutput(); err != nil {
		return failf("regen-build", "%v: %s", err, out)
	}
	for _, in := range inputs {
		b, err := os.ReadFile(filepath.Join(repo, pkg, in))
		if err != nil {
			return failf("regen-input", "%v", err)
		}
		os.WriteFile(filepath.Join(dir, in), b, 0o644)
	}
	run := osexec.Command(bin)
	run.Dir = dir
	if out, err := run.CombinedOutput(); err != nil {
		return failf("regen-run", "%v: %.300s", err, out)
	}
	got, err := os.ReadFile(filepath.Join(dir, artefact))
	if err != nil {
		return failf("regen-output", "%v", err)
	}
	got, err = format.Source(got)
	if err != nil {
		return failf("regen-gofmt", "%v", err)
	}
	want, err := os.ReadFile(filepath.Join(repo, pkg, artefact))
	if err != nil {
		return failf("regen-artefact", "%v", err)
	}
	if !bytes.Equal(got, want) {
		gl, wl := strings.Split(string(got), "\n"), strings.Split(string(want), "\n")
		i := 0
		for i < len(gl) && i < len(wl) && gl[i] == wl[i] {
			i++
		}
		g, w := "<eof>", "<eof>"
		if i < len(gl) {
			g = gl[i]
		}
		if i < len(wl) {
			w = wl[i]
		}
		return failf("regen-differs", "%s/%s line %d: generator gives %q, checked-in file has %q", pkg, artefact, i+1, g, w)
	}
	return "ok"
}

// ---------------------------------------------------------------------------------------------- generation

func genC10(g *h.G) {
	src, err := os.ReadFile(filepath.Join(repoDir(), "liteclient", "lite_api.tl"))
	if err != nil {
		h.Fatalf("%v", err)
	}
	s, err := tlmini.Parse(string(src))
	if err != nil {
		h.Fatalf("lite_api.tl: %v", err)
	}
	for _, n := range []int{0, 1, 3, 4, 5, 63, 64, 65, 200} {
		g.Emit("prim.crc32", h.Hex(g.Bytes(n)))
	}
	g.Emit("prim.crc32", textHex("liteServer.query data:bytes = Object"))
	g.Emit("go.regen.liteclient")
	g.Emit("go.tl.tagtable")
	g.Emit("go.tl.zerovec", "1000")
	g.Emit("go.tl.zerovec", "30000000")
	for i := 0; i < g.Scale(12, 200); i++ {
		g.Emit("go.tl.reflectsum", fmt.Sprint(i%2), h.Hex(g.Bytes(32)), hexDash(g.Bytes([]int{0, 1, 3, 4, 253, 254, 300}[i%7])))
	}
	genWait(g, s)
	g.Emit("go.regen.integers")
	g.Emit("tl.schema", textHex(string(src)))
	all := append(append([]*tlmini.Decl{}, s.Types...), s.Funcs...)
	for _, d := range all {
		g.Emit("tl.crcid", d.Ctor, textHex(d.Render()))
	}

	// every type (single-constructor types through their bare constructor, the others boxed) and every function
	tys := append(tlexec.TopTypes(s), &tlmini.Ty{Kind: tlmini.KBoxed, Name: "liteServer.SignatureSet"}) // hand-written boxed codec
	tlexec.EmitCases(g, s, tys, g.Scale(60, 3000), "tl.req", "", "")

	// byte strings of every length 0..1100 (bytes and string carriers), and around 2^16 / 2^24 in the thorough tier
	lib := &tlmini.Ty{Kind: tlmini.KBare, Name: "liteServer.libraryEntry"}
	libSub := textHex(s.Sub([]*tlmini.Ty{lib}, nil))
	ert := &tlmini.Ty{Kind: tlmini.KBare, Name: "liteServer.error"}
	errSub := textHex(s.Sub([]*tlmini.Ty{ert}, nil))
	sendSub := textHex(s.Sub(nil, []string{"liteServer.sendMessage"}, "liteServer.error"))
	lens := []int{}
	for l := 0; l <= 1100; l++ {
		lens = append(lens, l)
	}
	if g.Thorough() {
		for _, c := range []int{1 << 16, 1 << 24} {
			for d := -3; d <= 4; d++ {
				if c+d < 1<<24+2 {
					lens = append(lens, c+d)
				}
			}
		}
	} else {
		lens = append(lens, 65535, 65536, 65537)
	}
	// around the decoder's incremental-read chunk (maxPrealloc = 4096 bytes) and its multiples
	for _, c := range []int{4096, 8192, 12288} {
		lens = append(lens, c-1, c, c+1)
	}
	for _, l := range lens {
		g.Count("sweep_lengths")
		data := g.Bytes(l)
		v := &tlmini.Val{K: tlmini.VTuple, Items: []*tlmini.Val{{K: tlmini.VRaw, B: g.Bytes(32)}, {K: tlmini.VRaw, B: data}}}
		g.Emit("tl.enc", libSub, lib.Name, v.String())
		if ref, err := s.Encode(lib, v); err == nil {
			g.Emit("tl.dec", libSub, lib.Name, h.Hex(append(ref, 0xaa)))
			g.Emit("go.tl.roundtrip", libSub, "type", lib.Name, v.String(), "aa")
		}
		if l <= 1100 {
			ev := &tlmini.Val{K: tlmini.VTuple, Items: []*tlmini.Val{{K: tlmini.VNum, N: uint64(l)}, {K: tlmini.VRaw, B: data}}}
			g.Emit("tl.enc", errSub, ert.Name, ev.String())
			ref, _ := s.Encode(ert, ev)
			g.Emit("tl.dec", errSub, ert.Name, h.Hex(ref))
			if l%7 == 0 {
				pv := &tlmini.Val{K: tlmini.VTuple, Items: []*tlmini.Val{{K: tlmini.VRaw, B: data}}}
				g.Emit("tl.req", sendSub, "liteServer.sendMessage", pv.String())
			}
		}
	}

	for _, n := range []int{1<<24 - 1, 1 << 24, 1<<24 + 1, 1<<24 + 255, 1 << 25} {
		g.Emit("go.tl.toolong", fmt.Sprint(n), "bytes")
		g.Emit("go.tl.toolong", fmt.Sprint(n), "string")
	}
	for i := 0; i < g.Scale(30, 300); i++ {
		var xs []string
		for k := g.Rng.Intn(6); k >= 0; k-- {
			xs = append(xs, fmt.Sprint(int64(g.U64())))
		}
		g.Emit("go.tl.hw.vmstack", xs...)
	}
	// hand-written codecs
	for i := 0; i < g.Scale(200, 3000); i++ {
		wc := fmt.Sprint(uint32(g.U64()))
		addr, root, file := h.Hex(g.Bytes(32)), h.Hex(g.Bytes(32)), h.Hex(g.Bytes(32))
		sh, sq := fmt.Sprint(g.U64()), fmt.Sprint(uint32(g.U64()))
		g.Emit("tl.hw.accountid", wc, addr)
		g.Emit("tl.hw.blockidext", wc, sh, sq, root, file)
		g.Emit("go.tl.hw", wc, addr, sh, sq, root, file)
		// decode sides: lengths around 36 / 80 / 32 (truncated, exact, with extra bytes), and a few arbitrary lengths
		n := []int{0, 3, 4, 31, 32, 33, 35, 36, 37, 40, 79, 80, 81, 100}[g.Rng.Intn(14)]
		if g.Rng.Intn(4) == 0 {
			n = g.Rng.Intn(120)
		}
		hx := hexDash(g.Bytes(n))
		g.Emit("tl.hw.accountid.dec", hx)
		g.Emit("tl.hw.blockidext.dec", hx)
		g.Emit("tl.hw.int256.dec", hx)
	}
}
