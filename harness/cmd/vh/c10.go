//go:build c10

package main

import (
	"bytes"
	"context"
	"encoding/binary"
	"fmt"
	"go/format"
	"hash/crc32"
	"io"
	"math/rand"
	"net"
	"os"
	osexec "os/exec"
	"path/filepath"
	"reflect"
	"strconv"
	"strings"
	"sync"
	"time"

	"github.com/tonkeeper/tongo/liteclient"
	"github.com/tonkeeper/tongo/tl"
	"github.com/tonkeeper/tongo/ton"
	"verifharness/h"
	"verifharness/tlmini"
)

func init() {
	h.Register(&h.Prop{ID: "C10", Gen: genC10, Exec: map[string]h.ExecFn{
		"prim.crc32":          func(a []string) string { return fmt.Sprint(crc32.ChecksumIEEE(h.MustUnHex(a[0]))) },
		"tl.schema":           exSchema,
		"tl.crcid":            exCrcID,
		"tl.enc":              exEnc,
		"tl.dec":              exDec,
		"tl.fenc":             exFenc,
		"tl.fdec":             exFdec,
		"tl.req":              exReq,
		"tl.ans":              exAns,
		"tl.reqdec":           exReqDec,
		"tl.hw.accountid":     exHwAccountID,
		"tl.hw.blockidext":    exHwBlockIDExt,
		"go.tl.roundtrip":     goRoundtrip,
		"go.tl.hw":            goHandwritten,
		"go.tl.reqtable":      goReqTable,
		"go.regen.liteclient": func([]string) string { return goRegen("liteclient", "generated.go", "lite_api.tl") },
		"go.regen.integers":   func([]string) string { return goRegen("tlb", "integers.go") },
	}})
}

// ------------------------------------------------------------------------------------------- Go type registry

var (
	liteTypesOnce sync.Once
	liteTypes     map[string]reflect.Type
)

func collectTypes(t reflect.Type, seen map[reflect.Type]bool) {
	if seen[t] {
		return
	}
	seen[t] = true
	switch t.Kind() {
	case reflect.Pointer, reflect.Slice, reflect.Array:
		collectTypes(t.Elem(), seen)
	case reflect.Struct:
		if t.Name() != "" && strings.HasSuffix(t.PkgPath(), "/liteclient") {
			liteTypes[t.Name()] = t
		}
		for i := 0; i < t.NumField(); i++ {
			collectTypes(t.Field(i).Type, seen)
		}
	}
}

// goType finds the generated Go type by the generator's naming convention. Types are discovered by reflection from
// the methods of *liteclient.Client; the few declarations no function mentions are listed here.
func goType(name string) (reflect.Type, bool) {
	liteTypesOnce.Do(func() {
		liteTypes = map[string]reflect.Type{}
		seen := map[reflect.Type]bool{}
		ct := reflect.TypeOf(&liteclient.Client{})
		for i := 0; i < ct.NumMethod(); i++ {
			mt := ct.Method(i).Type
			for k := 1; k < mt.NumIn(); k++ {
				collectTypes(mt.In(k), seen)
			}
			for k := 0; k < mt.NumOut(); k++ {
				collectTypes(mt.Out(k), seen)
			}
		}
		for _, x := range []any{liteclient.AdnlMessage{}, liteclient.LiteServerErrorC{}, liteclient.TonNodeShardPublicOverlayIdC{},
			liteclient.LiteServerDebugVerbosityC{}, liteclient.LiteServerSignatureSet{}, liteclient.LiteServerSignatureSetC{},
			liteclient.LiteServerMasterchainInfoC{}, liteclient.LiteServerGetMasterchainInfoRequest{},
			liteclient.LiteServerGetTimeRequest{}, liteclient.LiteServerGetVersionRequest{},
			liteclient.LiteProxyGetRequestRateLimitRequest{}} {
			collectTypes(reflect.TypeOf(x), seen)
		}
	})
	t, ok := liteTypes[name]
	return t, ok
}

func goTypeOfTy(t *tlmini.Ty) (reflect.Type, bool) {
	if t.Kind == tlmini.KBoxed {
		return goType(tlmini.GoBoxedName(t.Name))
	}
	return goType(tlmini.GoBareName(t.Name))
}

// ------------------------------------------------------------------------------------------------- schema ops

func exSchema(a []string) string {
	s := schemaOfArg(a[0])
	return fmt.Sprintf("ok %d %d 1 %s", len(s.Types), len(s.Funcs), textHex(s.Render()))
}

// the id spelled in the schema (the model answers with the CRC-32 of the declaration text)
func exCrcID(a []string) string {
	s := schemaOfArg(a[1])
	all := append(append([]*tlmini.Decl{}, s.Types...), s.Funcs...)
	if len(all) != 1 {
		return "bad-op"
	}
	return fmt.Sprintf("ok %08x", all[0].ID)
}

func exEnc(a []string) string {
	s, t := schemaOfArg(a[0]), namedTy(a[1])
	v, err := tlmini.ParseVal(a[2])
	if err != nil {
		return "bad-op"
	}
	rt, ok := goTypeOfTy(t)
	if !ok {
		return "nobinding " + a[1]
	}
	rv := reflect.New(rt).Elem()
	if err := s.ToGo(t, v, rv); err != nil {
		return "nobinding " + err.Error()
	}
	b, err := tl.Marshal(rv.Interface())
	return h.Outcome(h.Hex(b), err)
}

func decodeInto(s *tlmini.Schema, rt reflect.Type, data []byte, read func(reflect.Value) (*tlmini.Val, error)) string {
	rv := reflect.New(rt)
	r := bytes.NewReader(data)
	if err := tl.Unmarshal(r, rv.Interface()); err != nil {
		return "err"
	}
	v, err := read(rv.Elem())
	if err != nil {
		return "nobinding " + err.Error()
	}
	rest, _ := io.ReadAll(r)
	return "ok " + v.String() + " " + h.Hex(rest)
}

func exDec(a []string) string {
	s, t := schemaOfArg(a[0]), namedTy(a[1])
	rt, ok := goTypeOfTy(t)
	if !ok {
		return "nobinding " + a[1]
	}
	return decodeInto(s, rt, h.MustUnHex(a[2]), func(rv reflect.Value) (*tlmini.Val, error) { return s.FromGo(t, rv) })
}

func requestValue(s *tlmini.Schema, fn string, val string) (*tlmini.Decl, reflect.Value, string) {
	d := s.Func(fn)
	if d == nil {
		return nil, reflect.Value{}, "bad-op"
	}
	v, err := tlmini.ParseVal(val)
	if err != nil || v.K != tlmini.VTuple {
		return nil, reflect.Value{}, "bad-op"
	}
	rt, ok := goType(tlmini.GoRequestName(fn))
	if !ok {
		return nil, reflect.Value{}, "nobinding " + fn
	}
	rv := reflect.New(rt).Elem()
	if err := s.SetFields(d, v.Items, rv); err != nil {
		return nil, reflect.Value{}, "nobinding " + err.Error()
	}
	return d, rv, ""
}

func exFenc(a []string) string {
	s := schemaOfArg(a[0])
	_, rv, bad := requestValue(s, a[1], a[2])
	if bad != "" {
		return bad
	}
	b, err := tl.Marshal(rv.Interface())
	return h.Outcome(h.Hex(b), err)
}

func exFdec(a []string) string {
	s := schemaOfArg(a[0])
	d := s.Func(a[1])
	rt, ok := goType(tlmini.GoRequestName(a[1]))
	if d == nil || !ok {
		return "nobinding " + a[1]
	}
	return decodeInto(s, rt, h.MustUnHex(a[2]), func(rv reflect.Value) (*tlmini.Val, error) {
		vs, err := s.GetFields(d, rv)
		return &tlmini.Val{K: tlmini.VTuple, Items: vs}, err
	})
}

// -------------------------------------------------------------------------------------------- stub connection

type idStream struct{}

func (idStream) XORKeyStream(dst, src []byte) { copy(dst, src) }

type stubServer struct {
	client   *liteclient.Client
	inject   func([]byte)
	mu       sync.Mutex
	answer   []byte // what the "lite server" answers to the next liteServer.query
	captured []byte // the last ADNL payload written by the client
}

var (
	stubOnce sync.Once
	stub     *stubServer
)

func getStub() *stubServer {
	stubOnce.Do(func() {
		cl, srv := net.Pipe()
		st := &stubServer{}
		st.client, st.inject = liteclient.VerifNewClient(cl, idStream{}, idStream{}, 10*time.Second)
		go func() {
			for {
				var sz [4]byte
				if _, err := io.ReadFull(srv, sz[:]); err != nil {
					return
				}
				n := int(binary.LittleEndian.Uint32(sz[:]))
				frame := make([]byte, n)
				if _, err := io.ReadFull(srv, frame); err != nil || n < 64 {
					return
				}
				payload := frame[32 : n-32]
				st.mu.Lock()
				st.captured = append([]byte{}, payload...)
				ans := st.answer
				st.mu.Unlock()
				if len(payload) < 36 {
					continue
				}
				// adnl.message.answer#0fac8416 query_id:int256 answer:bytes
				resp := []byte{0x16, 0x84, 0xac, 0x0f}
				resp = append(resp, payload[4:36]...)
				body, err := tlmini.EncBytes(ans)
				if err != nil {
					continue
				}
				resp = append(resp, body...)
				go st.inject(resp)
			}
		}()
		stub = st
	})
	return stub
}

// call invokes (*Client).<method> by reflection with the given request (invalid Value = no parameter).
func (st *stubServer) call(fn string, req reflect.Value, answer []byte) (res reflect.Value, err error, captured []byte, ok bool) {
	m := reflect.ValueOf(st.client).MethodByName(tlmini.GoMethodName(fn))
	if !m.IsValid() {
		return reflect.Value{}, nil, nil, false
	}
	st.mu.Lock()
	st.answer, st.captured = answer, nil
	st.mu.Unlock()
	args := []reflect.Value{reflect.ValueOf(context.Background())}
	if m.Type().NumIn() == 2 {
		if !req.IsValid() {
			req = reflect.New(m.Type().In(1)).Elem()
		}
		args = append(args, req)
	}
	out := m.Call(args)
	if e, isErr := out[1].Interface().(error); isErr && e != nil {
		err = e
	}
	st.mu.Lock()
	captured = st.captured
	st.mu.Unlock()
	return out[0], err, captured, true
}

func exReq(a []string) string {
	s := schemaOfArg(a[0])
	_, rv, bad := requestValue(s, a[1], a[2])
	if bad != "" {
		return bad
	}
	_, _, captured, ok := getStub().call(a[1], rv, []byte{0, 0, 0, 0})
	if !ok {
		return "nobinding method " + a[1]
	}
	if len(captured) < 36 {
		return "err"
	}
	return "ok " + h.Hex(append(append([]byte{}, captured[:4]...), captured[36:]...))
}

func exAns(a []string) string {
	s := schemaOfArg(a[0])
	d := s.Func(a[1])
	if d == nil {
		return "bad-op"
	}
	res, err, _, ok := getStub().call(a[1], reflect.Value{}, h.MustUnHex(a[2]))
	if !ok {
		return "nobinding method " + a[1]
	}
	if err != nil {
		if le, isLs := err.(liteclient.LiteServerErrorC); isLs {
			e := s.Ctor("liteServer.error")
			vs, err2 := s.GetFields(e, reflect.ValueOf(le))
			if err2 != nil {
				return "nobinding " + err2.Error()
			}
			return "lserr " + (&tlmini.Val{K: tlmini.VTuple, Items: vs}).String()
		}
		return "err"
	}
	cs := s.CtorsOf(d.Result)
	var v *tlmini.Val
	var err2 error
	if len(cs) == 1 {
		var vs []*tlmini.Val
		vs, err2 = s.GetFields(cs[0], res)
		v = &tlmini.Val{K: tlmini.VSum, Ctor: cs[0].Ctor, Items: vs}
	} else {
		v, err2 = s.FromGo(&tlmini.Ty{Kind: tlmini.KBoxed, Name: d.Result}, res)
	}
	if err2 != nil {
		return "nobinding " + err2.Error()
	}
	return "ok " + v.String()
}

func exReqDec(a []string) string {
	s := schemaOfArg(a[0])
	tag, name, val, err := liteclient.LiteapiRequestDecoder(h.MustUnHex(a[1]))
	if err != nil {
		return "err"
	}
	if name == nil || *name == liteclient.UnknownRequest {
		return fmt.Sprintf("ok %08x Unknown", tag)
	}
	d := s.Func(*name)
	if d == nil {
		return fmt.Sprintf("nobinding request name %q", *name)
	}
	vs, err := s.GetFields(d, reflect.ValueOf(val))
	if err != nil {
		return "nobinding " + err.Error()
	}
	return fmt.Sprintf("ok %08x %s %s", tag, *name, (&tlmini.Val{K: tlmini.VTuple, Items: vs}).String())
}

// ------------------------------------------------------------------------------------------ hand-written types

func exHwAccountID(a []string) string {
	wc, _ := strconv.ParseUint(a[0], 10, 32)
	id := ton.AccountID{Workchain: int32(uint32(wc))}
	copy(id.Address[:], h.MustUnHex(a[1]))
	b, err := tl.Marshal(id)
	return h.Outcome(h.Hex(b), err)
}

func mkBlockIDExt(a []string) ton.BlockIDExt {
	wc, _ := strconv.ParseUint(a[0], 10, 32)
	sh, _ := strconv.ParseUint(a[1], 10, 64)
	sq, _ := strconv.ParseUint(a[2], 10, 32)
	id := ton.BlockIDExt{BlockID: ton.BlockID{Workchain: int32(uint32(wc)), Shard: sh, Seqno: uint32(sq)}}
	copy(id.RootHash[:], h.MustUnHex(a[3]))
	copy(id.FileHash[:], h.MustUnHex(a[4]))
	return id
}

func exHwBlockIDExt(a []string) string {
	b, err := tl.Marshal(mkBlockIDExt(a))
	return h.Outcome(h.Hex(b), err)
}

// goHandwritten: the hand-written codecs agree with the generated ones of the same declaration, and decode what they
// encode (wc addrhex shard seqno roothex filehex).
func goHandwritten(a []string) string {
	wc, _ := strconv.ParseUint(a[0], 10, 32)
	id := ton.AccountID{Workchain: int32(uint32(wc))}
	copy(id.Address[:], h.MustUnHex(a[1]))
	b1, err := tl.Marshal(id)
	if err != nil {
		return failf("hw-accountid", "marshal: %v", err)
	}
	b2, err := tl.Marshal(liteclient.AccountID(id))
	if err != nil || !bytes.Equal(b1, b2) {
		return failf("hw-accountid", "ton.AccountID %x vs LiteServerAccountIdC %x", b1, b2)
	}
	var back ton.AccountID
	if err := tl.Unmarshal(bytes.NewReader(b1), &back); err != nil || back != id {
		return failf("hw-accountid", "round trip %v", err)
	}
	bid := mkBlockIDExt([]string{a[0], a[2], a[3], a[4], a[5]})
	c1, err := tl.Marshal(bid)
	if err != nil {
		return failf("hw-blockidext", "marshal: %v", err)
	}
	c2, err := tl.Marshal(liteclient.BlockIDExt(bid))
	if err != nil || !bytes.Equal(c1, c2) {
		return failf("hw-blockidext", "ton.BlockIDExt %x vs TonNodeBlockIdExtC %x", c1, c2)
	}
	var gen liteclient.TonNodeBlockIdExtC
	if err := tl.Unmarshal(bytes.NewReader(c1), &gen); err != nil || gen.ToBlockIdExt() != bid {
		return failf("hw-blockidext", "generated decoder on hand-written bytes: %v", err)
	}
	var back2 ton.BlockIDExt
	if err := back2.UnmarshalTL(c1); err != nil || back2 != bid {
		return failf("hw-blockidext", "round trip %v", err)
	}
	var i256 tl.Int256
	copy(i256[:], h.MustUnHex(a[4]))
	d1, _ := tl.Marshal(i256)
	var i2 tl.Int256
	if !bytes.Equal(d1, i256[:]) || tl.Unmarshal(bytes.NewReader(append(d1, 1, 2, 3)), &i2) != nil || i2 != i256 {
		return failf("hw-int256", "%x", d1)
	}
	return "ok"
}

// ------------------------------------------------------------------------------------------ direct oracles

// goRoundtrip: on the implementation alone — MarshalTL bytes equal the harness' reference layout, and UnmarshalTL of
// those bytes followed by junk gives the value back and leaves exactly the junk unread.
// args: schema kind(type|func) name value junkhex
func goRoundtrip(a []string) string {
	s := schemaOfArg(a[0])
	v, err := tlmini.ParseVal(a[3])
	if err != nil {
		return "bad-op"
	}
	junk := h.MustUnHex(a[4])
	var rt reflect.Type
	var ok bool
	var want []byte
	var set func(reflect.Value) error
	var get func(reflect.Value) (*tlmini.Val, error)
	if a[1] == "func" {
		d := s.Func(a[2])
		rt, ok = goType(tlmini.GoRequestName(a[2]))
		if d == nil || !ok {
			return failf("nobinding", "%s", a[2])
		}
		want, err = s.EncodeFields(d.Fields, v.Items)
		set = func(rv reflect.Value) error { return s.SetFields(d, v.Items, rv) }
		get = func(rv reflect.Value) (*tlmini.Val, error) {
			vs, err := s.GetFields(d, rv)
			return &tlmini.Val{K: tlmini.VTuple, Items: vs}, err
		}
	} else {
		t := namedTy(a[2])
		rt, ok = goTypeOfTy(t)
		if !ok {
			return failf("nobinding", "%s", a[2])
		}
		want, err = s.Encode(t, v)
		set = func(rv reflect.Value) error { return s.ToGo(t, v, rv) }
		get = func(rv reflect.Value) (*tlmini.Val, error) { return s.FromGo(t, rv) }
	}
	if err != nil {
		return "bad-op"
	}
	rv := reflect.New(rt).Elem()
	if err := set(rv); err != nil {
		return failf("nobinding", "%v", err)
	}
	got, err := tl.Marshal(rv.Interface())
	if err != nil {
		return failf("marshal-error", "%v", err)
	}
	if !bytes.Equal(got, want) {
		i := 0
		for i < len(got) && i < len(want) && got[i] == want[i] {
			i++
		}
		return failf("layout", "first difference at byte %d: got %d bytes, layout of the schema has %d", i, len(got), len(want))
	}
	back := reflect.New(rt)
	r := bytes.NewReader(append(append([]byte{}, got...), junk...))
	if err := tl.Unmarshal(r, back.Interface()); err != nil {
		return failf("unmarshal-error", "%v", err)
	}
	v2, err := get(back.Elem())
	if err != nil {
		return failf("roundtrip", "%v", err)
	}
	if v2.String() != v.String() {
		return failf("roundtrip", "decoded value differs")
	}
	if r.Len() != len(junk) {
		return failf("self-delimiting", "%d bytes left unread, want %d", r.Len(), len(junk))
	}
	return "ok"
}

// goReqTable: every function id of the schema selects the decoder of that function, under the function's name.
func goReqTable(a []string) string {
	s := schemaOfArg(a[0])
	g := &tlmini.Gen{R: rand.New(rand.NewSource(int64(len(a[0])))), S: s, MaxVec: 3, Len: func() int { return 5 },
		Mode: func(used uint32) uint32 { return used }, Budget: 1 << 20}
	for _, d := range s.Funcs {
		req, err := s.EncodeFields(d.Fields, g.Fields(d, 0))
		if err != nil {
			return failf("reqtable", "%s: %v", d.Ctor, err)
		}
		b := append(le32b(d.ID), req...)
		tag, name, _, err := liteclient.LiteapiRequestDecoder(b)
		if err != nil || tag != d.ID || name == nil || *name != d.Ctor {
			n := "<nil>"
			if name != nil {
				n = *name
			}
			return failf("reqtable", "id %08x of %s decoded as %s", d.ID, d.Ctor, n)
		}
	}
	return "ok"
}

func le32b(n uint32) []byte { b := make([]byte, 4); binary.LittleEndian.PutUint32(b, n); return b }

// goRegen (translator X6): run the repository's own generator into a scratch directory and compare its output, after
// gofmt (the checked-in files are gofmt-ed, the generators write an unformatted header), byte for byte with the
// checked-in file.
func goRegen(pkg, artefact string, inputs ...string) string {
	repo := repoDir()
	dir, err := scratchDir("regen")
	if err != nil {
		return failf("regen-scratch", "%v", err)
	}
	defer os.RemoveAll(dir)
	bin := filepath.Join(dir, "gen")
	cmd := osexec.Command("go", "build", "-o", bin, "./"+pkg+"/generator.go")
	cmd.Dir = repo
	if out, err := cmd.CombinedOutput(); err != nil {
		return failf("regen-build", "%v: %s", err, out)
	}
	for _, in := range inputs {
		b, err := os.ReadFile(filepath.Join(repo, pkg, in))
		if err != nil {
			return failf("regen-input", "%v", err)
		}
		os.WriteFile(filepath.Join(dir, in), b, 0o644)
	}
	run := osexec.Command(bin)
	run.Dir = dir
	if out, err := run.CombinedOutput(); err != nil {
		return failf("regen-run", "%v: %.300s", err, out)
	}
	got, err := os.ReadFile(filepath.Join(dir, artefact))
	if err != nil {
		return failf("regen-output", "%v", err)
	}
	got, err = format.Source(got)
	if err != nil {
		return failf("regen-gofmt", "%v", err)
	}
	want, err := os.ReadFile(filepath.Join(repo, pkg, artefact))
	if err != nil {
		return failf("regen-artefact", "%v", err)
	}
	if !bytes.Equal(got, want) {
		gl, wl := strings.Split(string(got), "\n"), strings.Split(string(want), "\n")
		i := 0
		for i < len(gl) && i < len(wl) && gl[i] == wl[i] {
			i++
		}
		g, w := "<eof>", "<eof>"
		if i < len(gl) {
			g = gl[i]
		}
		if i < len(wl) {
			w = wl[i]
		}
		return failf("regen-differs", "%s/%s line %d: generator gives %q, checked-in file has %q", pkg, artefact, i+1, g, w)
	}
	return "ok"
}

// ---------------------------------------------------------------------------------------------- generation

func genC10(g *h.G) {
	src, err := os.ReadFile(filepath.Join(repoDir(), "liteclient", "lite_api.tl"))
	if err != nil {
		h.Fatalf("%v", err)
	}
	s, err := tlmini.Parse(string(src))
	if err != nil {
		h.Fatalf("lite_api.tl: %v", err)
	}
	for _, n := range []int{0, 1, 3, 4, 5, 63, 64, 65, 200} {
		g.Emit("prim.crc32", h.Hex(g.Bytes(n)))
	}
	g.Emit("prim.crc32", textHex("liteServer.query data:bytes = Object"))
	g.Emit("go.regen.liteclient")
	g.Emit("go.regen.integers")
	g.Emit("tl.schema", textHex(string(src)))
	all := append(append([]*tlmini.Decl{}, s.Types...), s.Funcs...)
	for _, d := range all {
		g.Emit("tl.crcid", d.Ctor, textHex(d.Render()))
	}
	fullHex := textHex(s.Render())
	g.Emit("go.tl.reqtable", fullHex)

	gen := &tlmini.Gen{R: g.Rng, S: s, MaxVec: 50, Len: lengthPlan(g), Mode: modePlan(g)}
	junk := func() string {
		if g.Rng.Intn(3) == 0 {
			return "-"
		}
		return h.Hex(g.Bytes(1 + g.Rng.Intn(9)))
	}
	count := func(v *tlmini.Val) {
		var walk func(v *tlmini.Val)
		walk = func(v *tlmini.Val) {
			switch v.K {
			case tlmini.VRaw:
				n := len(v.B)
				switch {
				case n == 0:
					g.Count("bytes_len_0")
				case n < 254:
					g.Count(fmt.Sprintf("bytes_len_mod4_%d", n%4))
				default:
					g.Count("bytes_len_ge254")
				}
			case tlmini.VVec:
				switch n := len(v.Items); {
				case n == 0:
					g.Count("vec_0")
				case n < 8:
					g.Count("vec_1..7")
				default:
					g.Count("vec_8..50")
				}
			case tlmini.VAbsent:
				g.Count("field_absent")
			case tlmini.VSum:
				g.Count("sum_" + v.Ctor)
			}
			for _, it := range v.Items {
				walk(it)
			}
		}
		walk(v)
	}

	// every type: single-constructor types through their (bare) constructor, the others boxed
	n := g.Scale(60, 3000)
	var tys []*tlmini.Ty
	for _, tn := range s.TypeNames() {
		cs := s.CtorsOf(tn)
		if len(cs) == 1 {
			tys = append(tys, &tlmini.Ty{Kind: tlmini.KBare, Name: cs[0].Ctor})
		} else {
			tys = append(tys, &tlmini.Ty{Kind: tlmini.KBoxed, Name: tn})
		}
	}
	tys = append(tys, &tlmini.Ty{Kind: tlmini.KBoxed, Name: "liteServer.SignatureSet"}) // hand-written boxed codec
	for _, t := range tys {
		sub := textHex(s.Sub([]*tlmini.Ty{t}, nil))
		for i := 0; i < n; i++ {
			gen.Budget = 60
			v := gen.Val(t, 0)
			count(v)
			vs := v.String()
			g.NonTrivial(t.Name + "/" + vs)
			g.Emit("tl.enc", sub, t.Name, vs)
			ref, err := s.Encode(t, v)
			if err != nil {
				h.Fatalf("reference encoder: %v", err)
			}
			j := junk()
			g.Emit("tl.dec", sub, t.Name, h.Hex(append(ref, h.MustUnHex(j)...)))
			g.Emit("go.tl.roundtrip", sub, "type", t.Name, vs, j)
			if t.Kind == tlmini.KBoxed && g.Rng.Intn(4) == 0 { // dispatch on an id that is not one of the type's
				bad := append([]byte{}, ref...)
				bad[g.Rng.Intn(4)] ^= byte(1 << uint(g.Rng.Intn(8)))
				g.Emit("tl.dec", sub, t.Name, h.Hex(bad))
			}
		}
	}

	// every function: parameter struct, request as sent by the client method, answers
	errDecl := s.Ctor("liteServer.error")
	for _, d := range s.Funcs {
		sub := textHex(s.Sub(nil, []string{d.Ctor}, "liteServer.error"))
		resTy := &tlmini.Ty{Kind: tlmini.KBoxed, Name: d.Result}
		for i := 0; i < n; i++ {
			gen.Budget = 60
			ps := &tlmini.Val{K: tlmini.VTuple, Items: gen.Fields(d, 0)}
			count(ps)
			g.NonTrivial(d.Ctor + "/" + ps.String())
			g.Emit("tl.fenc", sub, d.Ctor, ps.String())
			ref, err := s.EncodeFields(d.Fields, ps.Items)
			if err != nil {
				h.Fatalf("reference encoder: %v", err)
			}
			j := junk()
			g.Emit("tl.fdec", sub, d.Ctor, h.Hex(append(ref, h.MustUnHex(j)...)))
			g.Emit("go.tl.roundtrip", sub, "func", d.Ctor, ps.String(), j)
			if i%3 == 0 || len(d.Fields) > 0 && i < 20 {
				g.Emit("tl.req", sub, d.Ctor, ps.String())
			}
			g.Emit("tl.reqdec", fullHex, h.Hex(append(append(le32b(d.ID), ref...), h.MustUnHex(j)...)))
			// answers
			gen.Budget = 60
			res := gen.Val(resTy, 0)
			count(res)
			rb, err := s.Encode(resTy, res)
			if err != nil {
				h.Fatalf("reference encoder: %v", err)
			}
			switch g.Rng.Intn(8) {
			case 0: // liteServer.error
				ev := gen.Fields(errDecl, 0)
				eb, _ := s.EncodeFields(errDecl.Fields, ev)
				g.Count("answer_error")
				g.Emit("tl.ans", sub, d.Ctor, h.Hex(append(le32b(errDecl.ID), eb...)))
			case 1: // wrong tag: the id of some other declaration, or a flipped bit
				bad := append([]byte{}, rb...)
				if g.Rng.Intn(2) == 0 {
					copy(bad, le32b(all[g.Rng.Intn(len(all))].ID))
				} else {
					bad[g.Rng.Intn(4)] ^= byte(1 << uint(g.Rng.Intn(8)))
				}
				g.Count("answer_wrong_tag")
				g.Emit("tl.ans", sub, d.Ctor, h.Hex(bad))
			case 2: // too short for a tag, or cut inside the value
				g.Count("answer_truncated")
				g.Emit("tl.ans", sub, d.Ctor, h.Hex(rb[:g.Rng.Intn(len(rb))]))
			case 3: // trailing bytes after the value are ignored by the generated code
				g.Count("answer_trailing")
				g.Emit("tl.ans", sub, d.Ctor, h.Hex(append(rb, g.Bytes(1+g.Rng.Intn(8))...)))
			default:
				g.Count("answer_result")
				g.Emit("tl.ans", sub, d.Ctor, h.Hex(rb))
			}
		}
	}
	// request decoder: ids that are no function, short inputs
	for i := 0; i < g.Scale(40, 400); i++ {
		b := g.Bytes(g.Rng.Intn(12))
		if g.Rng.Intn(3) == 0 && len(b) >= 4 {
			copy(b, le32b(s.Types[g.Rng.Intn(len(s.Types))].ID))
		}
		g.Emit("tl.reqdec", fullHex, h.Hex(b))
	}

	// byte strings of every length 0..1100 (bytes and string carriers), and around 2^16 / 2^24 in the thorough tier
	lib := &tlmini.Ty{Kind: tlmini.KBare, Name: "liteServer.libraryEntry"}
	libSub := textHex(s.Sub([]*tlmini.Ty{lib}, nil))
	ert := &tlmini.Ty{Kind: tlmini.KBare, Name: "liteServer.error"}
	errSub := textHex(s.Sub([]*tlmini.Ty{ert}, nil))
	sendSub := textHex(s.Sub(nil, []string{"liteServer.sendMessage"}, "liteServer.error"))
	lens := []int{}
	for l := 0; l <= 1100; l++ {
		lens = append(lens, l)
	}
	if g.Thorough() {
		for _, c := range []int{1 << 16, 1 << 24} {
			for d := -3; d <= 4; d++ {
				if c+d < 1<<24+2 {
					lens = append(lens, c+d)
				}
			}
		}
	} else {
		lens = append(lens, 65535, 65536, 65537)
	}
	for _, l := range lens {
		g.Count("sweep_lengths")
		data := g.Bytes(l)
		v := &tlmini.Val{K: tlmini.VTuple, Items: []*tlmini.Val{{K: tlmini.VRaw, B: g.Bytes(32)}, {K: tlmini.VRaw, B: data}}}
		g.Emit("tl.enc", libSub, lib.Name, v.String())
		if ref, err := s.Encode(lib, v); err == nil {
			g.Emit("tl.dec", libSub, lib.Name, h.Hex(append(ref, 0xaa)))
			g.Emit("go.tl.roundtrip", libSub, "type", lib.Name, v.String(), "aa")
		}
		if l <= 1100 {
			ev := &tlmini.Val{K: tlmini.VTuple, Items: []*tlmini.Val{{K: tlmini.VNum, N: uint64(l)}, {K: tlmini.VRaw, B: data}}}
			g.Emit("tl.enc", errSub, ert.Name, ev.String())
			ref, _ := s.Encode(ert, ev)
			g.Emit("tl.dec", errSub, ert.Name, h.Hex(ref))
			if l%7 == 0 {
				pv := &tlmini.Val{K: tlmini.VTuple, Items: []*tlmini.Val{{K: tlmini.VRaw, B: data}}}
				g.Emit("tl.req", sendSub, "liteServer.sendMessage", pv.String())
			}
		}
	}

	// hand-written codecs
	for i := 0; i < g.Scale(200, 3000); i++ {
		wc := fmt.Sprint(uint32(g.U64()))
		addr, root, file := h.Hex(g.Bytes(32)), h.Hex(g.Bytes(32)), h.Hex(g.Bytes(32))
		sh, sq := fmt.Sprint(g.U64()), fmt.Sprint(uint32(g.U64()))
		g.Emit("tl.hw.accountid", wc, addr)
		g.Emit("tl.hw.blockidext", wc, sh, sq, root, file)
		g.Emit("go.tl.hw", wc, addr, sh, sq, root, file)
	}
}
