//go:build c14 || c15 || c19

package main

import (
	"context"
	"crypto/ed25519"
	"errors"
	"fmt"
	"strconv"
	"strings"
	"sync"

	"github.com/tonkeeper/tongo/boc"
	"github.com/tonkeeper/tongo/tlb"
	"github.com/tonkeeper/tongo/ton"
	"github.com/tonkeeper/tongo/wallet"
	"verifharness/h"
)

// Shared by the wallet / tonconnect slices (C14, C15, C19).

var supportedVers = []wallet.Version{wallet.V1R1, wallet.V1R2, wallet.V1R3, wallet.V2R1, wallet.V2R2, wallet.V3R1,
	wallet.V3R2, wallet.V4R1, wallet.V4R2, wallet.V5Beta, wallet.V5R1, wallet.HighLoadV2R2}

// versions able to build messages
var sendVers = []wallet.Version{wallet.V3R1, wallet.V3R2, wallet.V4R1, wallet.V4R2, wallet.V5Beta, wallet.V5R1, wallet.HighLoadV2R2}

var unsupportedVers = []wallet.Version{wallet.V3R2Lockup, wallet.HighLoadV1R1, wallet.HighLoadV1R2, wallet.HighLoadV2,
	wallet.HighLoadV2R1, 17, 99}

func isSupported(v wallet.Version) bool {
	for _, x := range supportedVers {
		if x == v {
			return true
		}
	}
	return false
}

func maxMsgs(v wallet.Version) int {
	switch v {
	case wallet.V5Beta, wallet.HighLoadV2R2:
		return 254
	case wallet.V5R1:
		return 255
	}
	return 4
}

var codeTableCache sync.Map

// codeTable: the version's code cell as a canonical table ("-" for versions newWallet rejects)
func codeTable(v wallet.Version) string {
	if !isSupported(v) {
		return "-"
	}
	if s, ok := codeTableCache.Load(v); ok {
		return s.(string)
	}
	s := cellTable(wallet.GetCodeByVer(v))
	codeTableCache.Store(v, s)
	return s
}

// cellTable dumps one cell as a canonical table whose root is row 0.
func cellTable(c *boc.Cell) string {
	s := h.Canon([]*boc.Cell{c})
	f := strings.Fields(s)
	if len(f) != 2 || f[1] != "0" {
		panic("canon root is not row 0: " + f[1])
	}
	return f[0]
}

func tableCell(s string) *boc.Cell {
	if s == "-" {
		return boc.NewCell()
	}
	return h.BuildCells(h.ParseTable(s))[0]
}

func atoi(s string) int {
	v, err := strconv.Atoi(s)
	if err != nil {
		panic("bad int arg " + s)
	}
	return v
}

func atoi64(s string) int64 {
	v, err := strconv.ParseInt(s, 10, 64)
	if err != nil {
		panic("bad int arg " + s)
	}
	return v
}

// walletOpts turns the optional line arguments (`_` = absent) into wallet options.
func walletOpts(wc, sub, net string) []wallet.Option {
	var o []wallet.Option
	if wc != "_" {
		o = append(o, wallet.WithWorkchain(atoi(wc)))
	}
	if sub != "_" {
		o = append(o, wallet.WithSubWalletID(uint32(atoi64(sub))))
	}
	if net != "_" {
		o = append(o, wallet.WithNetworkGlobalID(int32(atoi64(net))))
	}
	return o
}

func optU32(s string) *uint32 {
	if s == "_" {
		return nil
	}
	v := uint32(atoi64(s))
	return &v
}

func optI32(s string) *int32 {
	if s == "_" {
		return nil
	}
	v := int32(atoi64(s))
	return &v
}

func keyFromSeed(seedHex string) ed25519.PrivateKey {
	return ed25519.NewKeyFromSeed(h.MustUnHex(seedHex))
}

func addrAns(a ton.AccountID, err error) string {
	if err != nil {
		return "err"
	}
	return fmt.Sprintf("ok %d %s", a.Workchain, h.Hex(a.Address[:]))
}

// ---------------------------------------------------------------------------------------- scripted blockchain

type pollAns struct {
	seqno uint32
	err   bool
}

// scriptedChain implements wallet's blockchain interface from a script and records what it was asked.
type scriptedChain struct {
	state    tlb.ShardAccount
	acctErr  bool
	sendErr  bool
	polls    []pollAns // poll i gets polls[i]; the last entry repeats; empty = always an error
	sent     [][]byte
	acctArgs []ton.AccountID
	seqArgs  []ton.AccountID
	observed []pollAns
	// context handling: the chain honours ctx (returns ctx.Err() once cancelled); when cancelAt >= 0 it cancels the
	// context itself right before its cancelAt-th call (0 = GetAccountState, 1 = SendMessage, 2+i = poll i)
	cancelAt int
	cancel   func()
	calls    int
	ctxErrs  int
}

// enter is called at the start of every interface method
func (b *scriptedChain) enter(ctx context.Context) error {
	if b.cancel != nil && b.cancelAt >= 0 && b.calls >= b.cancelAt {
		b.cancel()
	}
	b.calls++
	if err := ctx.Err(); err != nil {
		b.ctxErrs++
		return err
	}
	return nil
}

func (b *scriptedChain) GetSeqno(ctx context.Context, account ton.AccountID) (uint32, error) {
	i := len(b.observed)
	b.seqArgs = append(b.seqArgs, account)
	if err := b.enter(ctx); err != nil {
		b.observed = append(b.observed, pollAns{0, true})
		return 0, err
	}
	var p pollAns
	switch {
	case len(b.polls) == 0:
		p = pollAns{0, true}
	case i < len(b.polls):
		p = b.polls[i]
	default:
		p = b.polls[len(b.polls)-1]
	}
	b.observed = append(b.observed, p)
	if p.err {
		return p.seqno, errors.New("scripted seqno error")
	}
	return p.seqno, nil
}

func (b *scriptedChain) SendMessage(ctx context.Context, payload []byte) (uint32, error) {
	b.sent = append(b.sent, append([]byte{}, payload...))
	if err := b.enter(ctx); err != nil {
		return 0, err
	}
	if b.sendErr {
		return 0, errors.New("scripted send error")
	}
	return 0, nil
}

func (b *scriptedChain) GetAccountState(ctx context.Context, accountID ton.AccountID) (tlb.ShardAccount, error) {
	b.acctArgs = append(b.acctArgs, accountID)
	if err := b.enter(ctx); err != nil {
		return tlb.ShardAccount{}, err
	}
	if b.acctErr {
		return tlb.ShardAccount{}, errors.New("scripted account error")
	}
	return b.state, nil
}

func parsePolls(s string) []pollAns {
	if s == "-" {
		return nil
	}
	var r []pollAns
	for _, it := range strings.Split(s, ",") {
		f := strings.Split(it, ":")
		r = append(r, pollAns{uint32(atoi64(f[0])), f[1] == "1"})
	}
	return r
}

// acctState builds the tlb.ShardAccount for a state word of the line protocol:
// none | uninit | frozen | invalid | active:<data table or ->
func acctState(s string) tlb.ShardAccount {
	var sa tlb.ShardAccount
	switch {
	case s == "none":
		sa.Account.SumType = "AccountNone"
	case s == "uninit":
		sa.Account.SumType = "Account"
		sa.Account.Account.Storage.State.SumType = "AccountUninit"
	case s == "frozen":
		sa.Account.SumType = "Account"
		sa.Account.Account.Storage.State.SumType = "AccountFrozen"
	case s == "invalid":
		// the zero value: no constructor name anywhere
	case strings.HasPrefix(s, "active:"):
		sa.Account.SumType = "Account"
		sa.Account.Account.Storage.State.SumType = "AccountActive"
		d := s[len("active:"):]
		if d != "-" {
			si := &sa.Account.Account.Storage.State.AccountActive.StateInit
			si.Data.Exists = true
			si.Data.Value.Value = *tableCell(d)
		}
	default:
		panic("bad state " + s)
	}
	return sa
}

// sentInfo decodes a captured payload by reading the bits directly (independently of the tlb decoders):
// ext_in_msg_info$10 src:addr_none$00 dest:addr_std$10 nothing$0 wc:int8 addr:bits256 import_fee:Grams(0000)
// init:(Maybe (Either StateInit ^StateInit)) body:(Either X ^X)
type sentInfo struct {
	destWc   int8
	destAddr [32]byte
	init     *boc.Cell
	body     *boc.Cell
	root     *boc.Cell
}

func parseSent(payload []byte) (*sentInfo, error) {
	cells, err := boc.DeserializeBoc(payload)
	if err != nil {
		return nil, err
	}
	if len(cells) != 1 {
		return nil, fmt.Errorf("%d roots", len(cells))
	}
	c := cells[0]
	root := tableCell(cellTable(c)) // an untouched copy
	rd := func(n int) uint64 {
		v, e := c.ReadUint(n)
		if e != nil && err == nil {
			err = e
		}
		return v
	}
	si := &sentInfo{root: root}
	if rd(2) != 2 {
		return nil, fmt.Errorf("not ext_in_msg_info")
	}
	if rd(2) != 0 {
		return nil, fmt.Errorf("src is not addr_none")
	}
	if rd(2) != 2 {
		return nil, fmt.Errorf("dest is not addr_std")
	}
	if rd(1) != 0 {
		return nil, fmt.Errorf("anycast present")
	}
	si.destWc = int8(rd(8))
	for i := 0; i < 32; i++ {
		si.destAddr[i] = byte(rd(8))
	}
	if rd(4) != 0 {
		return nil, fmt.Errorf("import fee is not zero")
	}
	if rd(1) == 1 {
		if rd(1) != 1 {
			return nil, fmt.Errorf("inline init")
		}
		si.init, err = c.NextRef()
		if err != nil {
			return nil, err
		}
	}
	if rd(1) != 1 {
		return nil, fmt.Errorf("inline body")
	}
	if err != nil {
		return nil, err
	}
	if c.BitsAvailableForRead() != 0 {
		return nil, fmt.Errorf("trailing bits")
	}
	si.body, err = c.NextRef()
	if err != nil {
		return nil, err
	}
	if c.RefsAvailableForRead() != 0 {
		return nil, fmt.Errorf("trailing refs")
	}
	return si, nil
}

// bodySeqno reads the seqno field of a signed body by its fixed offset; ok=false for highload (no seqno).
func bodySeqno(v wallet.Version, body *boc.Cell) (uint32, bool, error) {
	c := tableCell(cellTable(body))
	var skip int
	switch v {
	case wallet.V3R1, wallet.V3R2, wallet.V4R1, wallet.V4R2:
		skip = 512 + 32 + 32
	case wallet.V5R1:
		skip = 32 + 32 + 32
	case wallet.V5Beta:
		skip = 32 + 80 + 32
	default:
		return 0, false, nil
	}
	if err := c.Skip(skip); err != nil {
		return 0, false, err
	}
	s, err := c.ReadUint(32)
	return uint32(s), true, err
}
