//go:build c06

package main

import (
	"bytes"
	"fmt"
	"math/big"
	"math/bits"
	"strconv"
	"strings"

	"github.com/tonkeeper/tongo/boc"
	"verifharness/h"
)

// Property C06: bit-string and cell read/write primitives behave like an ideal bit list.
//
// Compared with the model:  bs.seq, bs.spec (same sequence, answered by the ideal bit list on the Lean side),
// bs.grid, bs.fromfift, bs.cell, bs.minbits.   Direct oracles on the Go code alone:  go.wr, go.overflow, go.underflow,
// go.fifthex, go.parsedwrite, go.refs, go.writeint, go.minbits.

func init() {
	h.Register(&h.Prop{ID: "C06", Gen: genC06, Exec: map[string]h.ExecFn{
		"bs.seq":         exSeq,
		"bs.spec":        exSeq,
		"bs.grid":        exGrid,
		"bs.fromfift":    exFromFift,
		"bs.cell":        exCell,
		"bs.cellseq":     exCellSeq,
		"bs.cellspec":    exCellSeq,
		"bs.minbits":     func(a []string) string { return strconv.Itoa(boc.VerifMinBitsRequired(u64c(a[0]))) },
		"go.wr":          goWriteRead,
		"go.overflow":    goOverflow,
		"go.underflow":   goUnderflow,
		"go.fifthex":     goFiftHex,
		"go.fiftreject":  goFiftReject,
		"go.topup":       goTopUp,
		"go.settop":      goSetTop,
		"go.parsedwrite": goParsedWrite,
		"go.refs":        goRefs,
		"go.copyrem":     goCopyRemaining,
		"go.negarg":      goNegArg,
		"go.bigarg":      goNegArg, // same contract: no panic, an error, state untouched
		"go.writeint":    goWriteInt,
		"go.minbits":     goMinBits,
	}})
}

func pickS(g *h.G, xs ...string) string { return xs[g.Rng.Intn(len(xs))] }

// randUpTo: a value in 0..mx, boundaries over-weighted
func randUpTo(g *h.G, mx int) int {
	if mx <= 0 {
		return 0
	}
	switch g.Rng.Intn(5) {
	case 0:
		return 0
	case 1:
		return mx
	}
	return int(g.Rng.Int63n(int64(mx)))
}

func minI(a, b int) int {
	if a < b {
		return a
	}
	return b
}

func u64c(s string) uint64 {
	v, err := strconv.ParseUint(s, 10, 64)
	if err != nil {
		panic("bad u64 arg " + s)
	}
	return v
}

func atoi(s string) int {
	v, err := strconv.Atoi(s)
	if err != nil {
		panic("bad int arg " + s)
	}
	return v
}

func bigOf(s string) *big.Int {
	v, ok := new(big.Int).SetString(s, 10)
	if !ok {
		panic("bad big arg " + s)
	}
	return v
}

// srcOf: the source of WriteBitString / Append: the bits, optionally ("bits:k") with k of them already read
// (Skip(k)) — the source's read cursor must not matter.
func srcOf(f []string) boc.BitString {
	b := bsOf(f[1])
	if len(f) > 2 {
		k := atoi(f[2])
		if err := b.Skip(k); err != nil {
			panic("srcOf: skip")
		}
		if k > 0 {
			b.PickUint(1) // a peek leaves the cursor where it is
		}
	}
	return b
}

// bsOf builds the canonical bit string holding the given bits: NewBitString(len) + WriteBit.
func bsOf(bin string) boc.BitString {
	b := boc.NewBitString(len(bin))
	for _, c := range bin {
		if err := b.WriteBit(c == '1'); err != nil {
			panic("bsOf: " + err.Error())
		}
	}
	return b
}

func bitsOfBs(b boc.BitString) string {
	b.ResetCounter()
	var sb strings.Builder
	for b.BitsAvailableForRead() > 0 {
		v, err := b.ReadBit()
		if err != nil {
			panic("bitsOfBs")
		}
		if v {
			sb.WriteByte('1')
		} else {
			sb.WriteByte('0')
		}
	}
	return sb.String()
}

func bufPrefix(b *boc.BitString) []byte {
	buf := b.Buffer()
	n := (b.GetWriteCursor() + 7) / 8
	if n > len(buf) {
		n = len(buf)
	}
	if n < 0 {
		n = 0
	}
	return buf[:n]
}

func showState(b *boc.BitString) string {
	return fmt.Sprintf("%d %d %d %s", b.GetWriteCursor(), b.BitsAvailableForWrite(), b.BitsAvailableForRead(), h.Hex(bufPrefix(b)))
}

func showBs(b boc.BitString) string {
	return fmt.Sprintf("%d/%d/%s", b.GetWriteCursor(), b.BitsAvailableForWrite(), h.Hex(bufPrefix(&b)))
}

// bitIO is the part of the API shared by *boc.BitString and *boc.Cell.
type bitIO interface {
	WriteBit(bool) error
	WriteUint(uint64, int) error
	WriteInt(int64, int) error
	WriteBytes([]byte) error
	WriteBitString(boc.BitString) error
	WriteBigUint(*big.Int, int) error
	WriteBigInt(*big.Int, int) error
	WriteUnary(uint) error
	WriteLimUint(int, int) error
	ReadBit() (bool, error)
	Skip(int) error
	ReadUint(int) (uint64, error)
	PickUint(int) (uint64, error)
	ReadInt(int) (int64, error)
	ReadBytes(int) ([]byte, error)
	ReadBits(int) (boc.BitString, error)
	ReadRemainingBits() boc.BitString
	ReadBigUint(int) (*big.Int, error)
	ReadBigInt(int) (*big.Int, error)
	ReadUnary() (uint, error)
	ReadLimUint(int) (uint, error)
	BitsAvailableForRead() int
	BitsAvailableForWrite() int
}

func res(v string, err error) string {
	if err != nil {
		return "err"
	}
	if v == "" {
		return "ok"
	}
	return "ok:" + v
}

// applyItem runs one item on a bit string or a cell; a panic is reported as "panic".
func applyItem(t bitIO, tok string) (out string) {
	defer func() {
		if r := recover(); r != nil {
			out = "panic"
		}
	}()
	f := strings.Split(tok, ":")
	bs, isBs := t.(*boc.BitString)
	cell, isCell := t.(*boc.Cell)
	switch f[0] {
	case "wb":
		return res("", t.WriteBit(f[1] == "1"))
	case "wu":
		return res("", t.WriteUint(u64c(f[1]), atoi(f[2])))
	case "wi":
		v, err := strconv.ParseInt(f[1], 10, 64)
		if err != nil {
			panic("bad int64 " + f[1])
		}
		return res("", t.WriteInt(v, atoi(f[2])))
	case "wy":
		return res("", t.WriteBytes(h.MustUnHex(f[1])))
	case "ws":
		src := srcOf(f)
		before := src.BitsAvailableForRead()
		r := res("", t.WriteBitString(src))
		if src.BitsAvailableForRead() != before {
			return "src-moved"
		}
		return r
	case "wU":
		return res("", t.WriteBigUint(bigOf(f[1]), atoi(f[2])))
	case "wI":
		return res("", t.WriteBigInt(bigOf(f[1]), atoi(f[2])))
	case "wn":
		return res("", t.WriteUnary(uint(u64c(f[1]))))
	case "wl":
		return res("", t.WriteLimUint(atoi(f[1]), atoi(f[2])))
	case "rb":
		v, err := t.ReadBit()
		if v {
			return res("1", err)
		}
		return res("0", err)
	case "sk":
		return res("", t.Skip(atoi(f[1])))
	case "ru":
		v, err := t.ReadUint(atoi(f[1]))
		return res(strconv.FormatUint(v, 10), err)
	case "pu":
		v, err := t.PickUint(atoi(f[1]))
		return res(strconv.FormatUint(v, 10), err)
	case "ri":
		v, err := t.ReadInt(atoi(f[1]))
		return res(strconv.FormatInt(v, 10), err)
	case "ry":
		v, err := t.ReadBytes(atoi(f[1]))
		return res(h.Hex(v), err)
	case "rs":
		v, err := t.ReadBits(atoi(f[1]))
		if err != nil {
			return "err"
		}
		return "ok:" + showBs(v)
	case "rr":
		return "ok:" + showBs(t.ReadRemainingBits())
	case "rU":
		v, err := t.ReadBigUint(atoi(f[1]))
		if err != nil {
			return "err"
		}
		return "ok:" + v.String()
	case "rI":
		v, err := t.ReadBigInt(atoi(f[1]))
		if err != nil {
			return "err"
		}
		return "ok:" + v.String()
	case "rn":
		v, err := t.ReadUnary()
		return res(strconv.FormatUint(uint64(v), 10), err)
	case "rl":
		v, err := t.ReadLimUint(atoi(f[1]))
		return res(strconv.FormatUint(uint64(v), 10), err)
	case "av":
		return fmt.Sprintf("ok:%d/%d", t.BitsAvailableForWrite(), t.BitsAvailableForRead())
	}
	if isBs {
		switch f[0] {
		case "wa":
			arr := make([]bool, len(f[1]))
			for i, c := range f[1] {
				arr[i] = c == '1'
			}
			return res("", bs.WriteBitArray(arr))
		case "wB":
			return res("", bs.WriteByte(byte(atoi(f[1]))))
		case "rB":
			v, err := bs.ReadByte()
			return res(strconv.Itoa(int(v)), err)
		case "rc":
			bs.ResetCounter()
			return "ok"
		case "gr":
			bs.Grow(atoi(f[1]))
			return "ok"
		case "ap":
			bs.Append(srcOf(f))
			return "ok"
		case "cp":
			*bs = bs.Copy()
			return "ok"
		case "fh":
			return "ok:" + bs.ToFiftHex()
		case "gt":
			v, err := bs.GetTopUppedArray()
			return res(h.Hex(v), err)
		case "on":
			return res("", bs.On(atoi(f[1])))
		case "off":
			return res("", bs.Off(atoi(f[1])))
		case "st":
			return res("", bs.SetTopUppedArray(h.MustUnHex(f[1]), f[2] == "1"))
		}
	}
	if isCell {
		switch f[0] {
		case "ar":
			return res("", cell.AddRef(refCell(f[1])))
		case "nr":
			r, err := cell.NextRef()
			if err != nil {
				return "err"
			}
			return fmt.Sprintf("ok:%s/%d", showBs(r.RawBitString()), r.BitsAvailableForRead())
		case "rC":
			cell.ResetCounters()
			return "ok"
		case "cr":
			c2 := cell.CopyRemaining()
			out := fmt.Sprintf("ok:%s/%d/%d/%d", showBs(c2.RawBitString()), c2.BitsAvailableForRead(), c2.RefsSize(), c2.RefsAvailableForRead())
			for _, r := range c2.Refs() {
				out += fmt.Sprintf("/%s:%d", showBs(r.RawBitString()), r.BitsAvailableForRead())
			}
			return out
		}
	}
	return "bad"
}

func refCell(bin string) *boc.Cell {
	c := boc.NewCell()
	for _, ch := range bin {
		if err := c.WriteBit(ch == '1'); err != nil {
			panic("refCell")
		}
	}
	return c
}

func runItems(t bitIO, items string, final func() string) string {
	var out []string
	if items != "-" {
		for _, tok := range strings.Split(items, ";") {
			r := applyItem(t, tok)
			out = append(out, r)
			if r == "panic" {
				return strings.Join(append(out, "|", "panic"), " ")
			}
			if r == "bad" {
				return "bad-op"
			}
		}
	}
	return strings.Join(append(out, "|", final()), " ")
}

func exSeq(a []string) string {
	bs := boc.NewBitString(atoi(a[0]))
	return runItems(&bs, a[1], func() string { return showState(&bs) })
}

// parsedCell: a cell holding the bits, serialised and parsed back (the path through Cell.setTopUppedArray).
func parsedCell(bin string) (*boc.Cell, error) {
	c := refCell(bin)
	b, err := c.ToBoc()
	if err != nil {
		return nil, err
	}
	cs, err := boc.DeserializeBoc(b)
	if err != nil {
		return nil, err
	}
	if len(cs) != 1 {
		return nil, fmt.Errorf("roots")
	}
	return cs[0], nil
}

func exCell(a []string) string {
	var c *boc.Cell
	if a[0] == "-" {
		c = boc.NewCell()
	} else if strings.HasPrefix(a[0], "p") {
		var err error
		c, err = parsedCell(a[0][1:])
		if err != nil {
			return "err"
		}
	} else {
		return "bad-op"
	}
	return runItems(c, a[1], func() string {
		r := c.RawBitString()
		return fmt.Sprintf("%s %d %d", showState(&r), c.RefsSize(), c.RefsAvailableForRead())
	})
}

// exCellSeq: a heap of cells addressed by index; steps "<target>.<item>". References are pointers: the id of a cell
// returned by NextRef / stored in a slot is found by pointer identity.
func exCellSeq(a []string) string {
	heap := []*boc.Cell{boc.NewCell()}
	idOf := func(c *boc.Cell) int {
		for i, x := range heap {
			if x == c {
				return i
			}
		}
		return -1
	}
	var out []string
	panicked := false
	if a[0] != "-" {
		for _, tok := range strings.Split(a[0], ";") {
			dot := strings.IndexByte(tok, '.')
			if dot < 0 {
				return "bad-op"
			}
			t, it := atoi(tok[:dot]), tok[dot+1:]
			r := func() (res string) {
				defer func() {
					if e := recover(); e != nil {
						res = "panic"
					}
				}()
				if it == "nc" {
					heap = append(heap, boc.NewCell())
					return fmt.Sprintf("ok:%d", len(heap)-1)
				}
				if t < 0 || t >= len(heap) {
					return "err"
				}
				c := heap[t]
				f := strings.Split(it, ":")
				switch f[0] {
				case "ar":
					ch := atoi(f[1])
					if ch < 0 || ch >= len(heap) {
						return "err"
					}
					return res0(c.AddRef(heap[ch]))
				case "nf":
					n, err := c.NewRef()
					heap = append(heap, n)
					if err != nil {
						return "err"
					}
					return fmt.Sprintf("ok:%d", len(heap)-1)
				case "nr":
					r, err := c.NextRef()
					if err != nil {
						return "err"
					}
					return fmt.Sprintf("ok:%d", idOf(r))
				case "rC":
					c.ResetCounters()
					return "ok"
				case "cr":
					c2 := c.CopyRemaining()
					heap = append(heap, c2)
					return fmt.Sprintf("ok:%d", len(heap)-1)
				case "rz":
					return fmt.Sprintf("ok:%d", c.RefsSize())
				case "ra":
					return fmt.Sprintf("ok:%d", c.RefsAvailableForRead())
				case "ba":
					return fmt.Sprintf("ok:%d", c.BitsAvailableForRead())
				case "bw":
					return fmt.Sprintf("ok:%d", c.BitsAvailableForWrite())
				}
				return applyItem(c, it)
			}()
			if r == "bad" {
				return "bad-op"
			}
			out = append(out, r)
			if r == "panic" {
				panicked = true
				break
			}
		}
	}
	if panicked {
		return strings.Join(append(out, "|", "panic"), " ")
	}
	var cells []string
	for _, c := range heap {
		raw := c.RawBitString()
		var ids []string
		for _, r := range c.Refs() {
			ids = append(ids, strconv.Itoa(idOf(r)))
		}
		cells = append(cells, fmt.Sprintf("%s [%s] %d", showState(&raw), strings.Join(ids, ","), c.RefsAvailableForRead()))
	}
	return strings.Join(append(out, "|", strings.Join(cells, " / ")), " ")
}

func res0(err error) string {
	if err != nil {
		return "err"
	}
	return "ok"
}

func exGrid(a []string) string {
	buf := h.MustUnHex(a[0])
	w, lo, hi := atoi(a[1]), atoi(a[2]), atoi(a[3])
	var bs boc.BitString
	if err := bs.SetTopUppedArray(buf, true); err != nil {
		return "bad-op"
	}
	one := func(off int, f func() (string, error)) (out string) {
		defer func() {
			if r := recover(); r != nil {
				out = "p"
			}
		}()
		bs.ResetCounter()
		if err := bs.Skip(off); err != nil {
			return fmt.Sprintf("e:%d", bs.BitsAvailableForRead())
		}
		v, err := f()
		if err != nil {
			return fmt.Sprintf("e:%d", bs.BitsAvailableForRead())
		}
		return fmt.Sprintf("%s:%d", v, bs.BitsAvailableForRead())
	}
	var out []string
	for off := lo; off <= hi; off++ {
		u := one(off, func() (string, error) { v, err := bs.ReadUint(w); return strconv.FormatUint(v, 10), err })
		p := one(off, func() (string, error) { v, err := bs.PickUint(w); return strconv.FormatUint(v, 10), err })
		i := one(off, func() (string, error) { v, err := bs.ReadInt(w); return strconv.FormatInt(v, 10), err })
		out = append(out, u+","+p+","+i)
	}
	return strings.Join(out, " ")
}

func exFromFift(a []string) string {
	s := ""
	if len(a) == 1 {
		s = a[0]
	} else if len(a) > 1 {
		return "bad-op"
	}
	bs, err := boc.BitStringFromFiftHex(s)
	if err != nil {
		return "err"
	}
	return "ok " + showState(bs)
}

// ------------------------------------------------------------------------------------------------ direct oracles

func fail(class string, f string, a ...interface{}) string {
	return "FAIL " + class + " " + strings.ReplaceAll(fmt.Sprintf(f, a...), " ", "_")
}

// representable reports whether v fits into an n-bit two's complement field.
func representable(v *big.Int, n int) bool {
	if n <= 0 {
		return false
	}
	lim := new(big.Int).Lsh(big.NewInt(1), uint(n-1))
	return v.Cmp(new(big.Int).Neg(lim)) >= 0 && v.Cmp(lim) < 0
}

// go.wr <cap> <prefix bits> <typed values>: write the prefix (sets the alignment), write every value, skip the
// prefix, read every value back with the matching reader; everything must come back, nothing must be left over, and a
// further read must fail.
func goWriteRead(a []string) string {
	bs := boc.NewBitString(atoi(a[0]))
	pre := a[1]
	if pre == "-" {
		pre = ""
	}
	for _, c := range pre {
		if err := bs.WriteBit(c == '1'); err != nil {
			return fail("write-err", "prefix")
		}
	}
	vals := strings.Split(a[2], ";")
	for k, tok := range vals {
		f := strings.Split(tok, ":")
		var err error
		switch f[0] {
		case "u":
			err = bs.WriteUint(u64c(f[1]), atoi(f[2]))
		case "i":
			v, _ := strconv.ParseInt(f[1], 10, 64)
			err = bs.WriteInt(v, atoi(f[2]))
		case "U":
			err = bs.WriteBigUint(bigOf(f[1]), atoi(f[2]))
		case "I":
			err = bs.WriteBigInt(bigOf(f[1]), atoi(f[2]))
		case "y":
			err = bs.WriteBytes(h.MustUnHex(f[1]))
		case "B":
			err = bs.WriteByte(byte(atoi(f[1])))
		case "b":
			err = bs.WriteBit(f[1] == "1")
		case "n":
			err = bs.WriteUnary(uint(atoi(f[1])))
		case "l":
			err = bs.WriteLimUint(atoi(f[1]), atoi(f[2]))
		case "s":
			err = bs.WriteBitString(srcOf(f))
		default:
			return "bad-op"
		}
		if err != nil {
			return fail("write-err", "value %d %s", k, tok)
		}
	}
	if err := bs.Skip(len(pre)); err != nil {
		return fail("skip", "prefix")
	}
	for k, tok := range vals {
		f := strings.Split(tok, ":")
		at := fmt.Sprintf("value %d %s cursor-mod8=%d", k, tok, (bs.GetWriteCursor()-bs.BitsAvailableForRead())%8)
		switch f[0] {
		case "u":
			want, n := u64c(f[1]), atoi(f[2])
			p, err := bs.PickUint(n)
			if err != nil || p != want {
				return fail("pick", "%s got %d err %v", at, p, err)
			}
			v, err := bs.ReadUint(n)
			if err != nil || v != want {
				return fail("uint", "%s got %d err %v", at, v, err)
			}
		case "i":
			want, _ := strconv.ParseInt(f[1], 10, 64)
			v, err := bs.ReadInt(atoi(f[2]))
			if err != nil || v != want {
				return fail("int", "%s got %d err %v", at, v, err)
			}
		case "U":
			v, err := bs.ReadBigUint(atoi(f[2]))
			if err != nil || v.Cmp(bigOf(f[1])) != 0 {
				return fail("biguint", "%s got %v err %v", at, v, err)
			}
		case "I":
			v, err := bs.ReadBigInt(atoi(f[2]))
			if err != nil || v.Cmp(bigOf(f[1])) != 0 {
				return fail("bigint", "%s got %v err %v", at, v, err)
			}
		case "y":
			want := h.MustUnHex(f[1])
			v, err := bs.ReadBytes(len(want))
			if err != nil || !bytes.Equal(v, want) {
				return fail("bytes", "%s got %x err %v", at, v, err)
			}
		case "B":
			v, err := bs.ReadByte()
			if err != nil || int(v) != atoi(f[1]) {
				return fail("byte", "%s got %d err %v", at, v, err)
			}
		case "b":
			v, err := bs.ReadBit()
			if err != nil || v != (f[1] == "1") {
				return fail("bit", "%s got %v err %v", at, v, err)
			}
		case "n":
			v, err := bs.ReadUnary()
			if err != nil || int(v) != atoi(f[1]) {
				return fail("unary", "%s got %d err %v", at, v, err)
			}
		case "l":
			v, err := bs.ReadLimUint(atoi(f[2]))
			if err != nil || int(v) != atoi(f[1]) {
				return fail("limuint", "%s got %d err %v", at, v, err)
			}
		case "s":
			r, err := bs.ReadBits(len(f[1]))
			if err != nil {
				return fail("bits", "%s err %v", at, err)
			}
			if got := bitsOfBs(r); got != f[1] {
				return fail("bits", "%s got %s", at, got)
			}
			// the returned bit string must be as good as one written directly: same buffer, same cell hash
			fresh := bsOf(f[1])
			if !bytes.Equal(r.Buffer(), fresh.Buffer()) {
				return fail("bits-dirty", "%s buffer %x want %x", at, r.Buffer(), fresh.Buffer())
			}
			h1, e1 := boc.NewCellWithBits(r).Hash()
			h2, e2 := boc.NewCellWithBits(fresh).Hash()
			if e1 != nil || e2 != nil || !bytes.Equal(h1, h2) {
				return fail("bits-hash", "%s", at)
			}
		}
	}
	if bs.BitsAvailableForRead() != 0 {
		return fail("tail", "left %d", bs.BitsAvailableForRead())
	}
	if _, err := bs.ReadBit(); err == nil {
		return fail("underflow", "ReadBit at the end succeeded")
	}
	if v, err := bs.ReadUint(1); err == nil {
		return fail("underflow", "ReadUint(1) at the end gave %d", v)
	}
	return "ok"
}

// go.overflow <cap> <prefill bits> <write item>: the item does not fit; it must return an error (no panic, no success)
// and the bits written before must still be there.
func goOverflow(a []string) string {
	bs := boc.NewBitString(atoi(a[0]))
	pre := a[1]
	if pre == "-" {
		pre = ""
	}
	for _, c := range pre {
		if err := bs.WriteBit(c == '1'); err != nil {
			return fail("write-err", "prefill")
		}
	}
	r := applyItem(&bs, a[2])
	if r != "err" {
		return fail("overflow-"+r, "%s into %d free bits", a[2], atoi(a[0])-len(pre))
	}
	if bs.GetWriteCursor() > atoi(a[0]) || bs.GetWriteCursor() < len(pre) {
		return fail("overflow-len", "len %d", bs.GetWriteCursor())
	}
	if got := bitsOfBs(bs); !strings.HasPrefix(got, pre) {
		return fail("overflow-data", "old data changed")
	}
	return "ok"
}

// go.underflow <bits> <skip> <read item>: the item asks for more than is left; it must return an error and (except
// ReadUnary, which consumes the ones it saw) leave the cursor where it was.
func goUnderflow(a []string) string {
	bin := a[0]
	if bin == "-" {
		bin = ""
	}
	bs := bsOf(bin)
	if err := bs.Skip(atoi(a[1])); err != nil {
		return fail("skip", "Skip(%d) of %d bits failed", atoi(a[1]), len(bin))
	}
	before := bs.BitsAvailableForRead()
	r := applyItem(&bs, a[2])
	if r != "err" {
		return fail("underflow-"+strings.SplitN(r, ":", 2)[0], "%s with %d bits left", a[2], before)
	}
	if a[2] != "rn" && bs.BitsAvailableForRead() != before {
		return fail("underflow-cursor", "%s moved the cursor by %d", a[2], before-bs.BitsAvailableForRead())
	}
	return "ok"
}

// go.fifthex <bits> <extra capacity>: ToFiftHex then BitStringFromFiftHex gives the same bits (upper and lower case).
func goFiftHex(a []string) string {
	bin := a[0]
	if bin == "-" {
		bin = ""
	}
	bs := boc.NewBitString(len(bin) + atoi(a[1]))
	for _, c := range bin {
		if err := bs.WriteBit(c == '1'); err != nil {
			return "bad-op"
		}
	}
	s := bs.ToFiftHex()
	for _, t := range []string{s, strings.ToLower(s)} {
		back, err := boc.BitStringFromFiftHex(t)
		if err != nil {
			return fail("fift-parse", "%s", t)
		}
		if got := bitsOfBs(*back); got != bin {
			return fail("fift-roundtrip", "%s gives %d bits", t, len(got))
		}
	}
	if bitsOfBs(bs) != bin {
		return fail("fift-mutates", "receiver changed")
	}
	return "ok"
}

// go.fiftreject <hex of the UTF-8 bytes of a text>: a text containing a byte that is neither a hex digit nor part of a
// valid "<digit>_" completion suffix is not the Fift-hex form of any bit string and must be rejected.
func goFiftReject(a []string) string {
	txt := string(h.MustUnHex(a[0]))
	body := txt
	if strings.HasSuffix(body, "_") && len(body) >= 2 {
		body = body[:len(body)-2]
	}
	bad := false
	for i := 0; i < len(body); i++ {
		c := body[i]
		if !(c >= '0' && c <= '9' || c >= 'a' && c <= 'f' || c >= 'A' && c <= 'F') {
			bad = true
		}
	}
	if !bad {
		return "ok" // nothing to reject in this input
	}
	if bs, err := boc.BitStringFromFiftHex(txt); err == nil {
		return fail("fift-accepts", "%q accepted as %s", txt, bs.ToFiftHex())
	}
	return "ok"
}

// go.topup <bits> <extra capacity>: GetTopUppedArray gives the bits followed by the completion tag (1 0…0 up to a byte
// boundary, nothing when aligned), and SetTopUppedArray of that array gives the bits back.
func goTopUp(a []string) string {
	bin := a[0]
	if bin == "-" {
		bin = ""
	}
	bs := boc.NewBitString(len(bin) + atoi(a[1]))
	for _, c := range bin {
		if err := bs.WriteBit(c == '1'); err != nil {
			return "bad-op"
		}
	}
	arr, err := bs.GetTopUppedArray()
	room := atoi(a[1]) >= (8-len(bin)%8)%8 // the tag must fit into the capacity
	if err != nil {
		if room {
			return fail("topup-err", "%d bits, %s spare", len(bin), a[1])
		}
		return "ok" // no room for the tag: an error is acceptable
	}
	want := bin
	if len(bin)%8 != 0 {
		want += "1" + strings.Repeat("0", 7-len(bin)%8)
	}
	var got strings.Builder
	for _, b := range arr {
		fmt.Fprintf(&got, "%08b", b)
	}
	if got.String() != want {
		return fail("topup-bytes", "%d bits give %x", len(bin), arr)
	}
	var back boc.BitString
	if err := back.SetTopUppedArray(arr, len(bin)%8 == 0); err != nil {
		return fail("topup-parse", "%x", arr)
	}
	if bitsOfBs(back) != bin {
		return fail("topup-roundtrip", "%d bits", len(bin))
	}
	if bitsOfBs(bs) != bin {
		return fail("topup-mutates", "receiver changed")
	}
	return "ok"
}

// go.settop <hex>: SetTopUppedArray(arr, false) accepts exactly the arrays whose last byte carries the completion tag in
// its low seven bits (a 1 followed by 0..6 zeros) and then holds the bits before the tag; an array whose last seven bits
// are all zero has no tag and must be rejected (a 1 eight bits from the end is data, not a tag).
func goSetTop(a []string) string {
	arr := h.MustUnHex(a[0])
	var bs boc.BitString
	err := bs.SetTopUppedArray(arr, false)
	if len(arr) == 0 {
		if err != nil {
			return fail("settop-empty", "")
		}
		return "ok"
	}
	last := arr[len(arr)-1]
	if last&0x7f == 0 {
		if err == nil {
			return fail("settop-accepts", "%x has no tag in its last 7 bits, accepted with %d bits", arr, bs.GetWriteCursor())
		}
		return "ok"
	}
	if err != nil {
		return fail("settop-rejects", "%x", arr)
	}
	want := 8*len(arr) - 1 - bits.TrailingZeros8(last)
	if bs.GetWriteCursor() != want {
		return fail("settop-len", "%x: %d bits, want %d", arr, bs.GetWriteCursor(), want)
	}
	var sb strings.Builder
	for _, b := range arr {
		fmt.Fprintf(&sb, "%08b", b)
	}
	if got := bitsOfBs(bs); got != sb.String()[:want] {
		return fail("settop-bits", "%x", arr)
	}
	return "ok"
}

// go.parsedwrite <bits> <write item>: a cell parsed from a BOC accepts a write that fits into 1023 bits.
func goParsedWrite(a []string) string {
	bin := a[0]
	if bin == "-" {
		bin = ""
	}
	c, err := parsedCell(bin)
	if err != nil {
		return fail("parse", "%v", err)
	}
	if c.BitsAvailableForWrite() != 1023-len(bin) {
		return fail("parsed-cap", "%d", c.BitsAvailableForWrite())
	}
	r := applyItem(c, a[1])
	if r != "ok" {
		return fail("parsed-write-"+r, "%s after %d parsed bits", a[1], len(bin))
	}
	if got := bitsOfBs(c.RawBitString()); !strings.HasPrefix(got, bin) || len(got) <= len(bin) {
		return fail("parsed-data", "")
	}
	// the written cell must serialise and parse back to itself
	c2, err := parsedCell(bitsOfBs(c.RawBitString()))
	if err != nil {
		return fail("parsed-reparse", "%v", err)
	}
	h1, _ := c.Hash()
	h2, _ := c2.Hash()
	if !bytes.Equal(h1, h2) {
		return fail("parsed-hash", "")
	}
	return "ok"
}

// go.refs <n>: AddRef succeeds four times and then fails, leaving the four; NextRef returns them in order and then fails.
func goRefs(a []string) string {
	n := atoi(a[0])
	c := boc.NewCell()
	var rs []*boc.Cell
	for i := 0; i < n; i++ {
		r := refCell(strconv.FormatInt(int64(i+8), 2))
		err := c.AddRef(r)
		if i < 4 {
			if err != nil {
				return fail("refs-add", "%d", i)
			}
			rs = append(rs, r)
		} else if err == nil {
			return fail("refs-overflow", "AddRef %d accepted", i+1)
		}
	}
	if c.RefsSize() != len(rs) {
		return fail("refs-size", "%d", c.RefsSize())
	}
	for i := range rs {
		r, err := c.NextRef()
		if err != nil || r != rs[i] {
			return fail("refs-next", "%d", i)
		}
	}
	if _, err := c.NextRef(); err == nil {
		return fail("refs-underflow", "NextRef beyond the last reference succeeded")
	}
	c.ResetCounters()
	if c.RefsAvailableForRead() != len(rs) {
		return fail("refs-reset", "")
	}
	c2 := c.CopyRemaining()
	if c2.RefsSize() != len(rs) || c.RefsAvailableForRead() != len(rs) {
		return fail("refs-copy", "")
	}
	return "ok"
}

// go.copyrem <bits> <skip> <nrefs> <k> <reset>: a cell with the bits and nrefs references; Skip(skip), NextRef x k,
// optionally ResetCounters; CopyRemaining must return exactly the unread bits and exactly the unread references (same
// cells, same order, counters reset) and leave both cursors of the source where they were.
func goCopyRemaining(a []string) string {
	bin := a[0]
	if bin == "-" {
		bin = ""
	}
	skip, n, k, reset := atoi(a[1]), atoi(a[2]), atoi(a[3]), a[4] == "1"
	c := refCell(bin)
	var rs []*boc.Cell
	for i := 0; i < n; i++ {
		r := refCell(strconv.FormatInt(int64(i+8), 2))
		if err := c.AddRef(r); err != nil {
			return "bad-op"
		}
		rs = append(rs, r)
	}
	if err := c.Skip(skip); err != nil {
		return "bad-op"
	}
	for i := 0; i < k; i++ {
		r, err := c.NextRef()
		if err != nil || r != rs[i] {
			return fail("copyrem-next", "%d", i)
		}
		r.ReadBit() // a consumed child with a moved cursor
	}
	if reset {
		c.ResetCounters()
		skip, k = 0, 0
	}
	avB, avR := c.BitsAvailableForRead(), c.RefsAvailableForRead()
	if avB != len(bin)-skip || avR != n-k {
		return fail("copyrem-setup", "bits %d refs %d", avB, avR)
	}
	c2 := c.CopyRemaining()
	if got := bitsOfBs(c2.RawBitString()); got != bin[skip:] {
		return fail("copyrem-bits", "skip %d (mod8 %d): got %d bits want %d", skip, skip%8, len(got), len(bin)-skip)
	}
	fresh := bsOf(bin[skip:])
	if raw := c2.RawBitString(); !bytes.Equal(bufPrefix(&raw), fresh.Buffer()) {
		return fail("copyrem-dirty", "skip %d", skip)
	}
	if c2.BitsAvailableForRead() != len(bin)-skip || c2.RefsAvailableForRead() != n-k {
		return fail("copyrem-cursors", "copy has %d bits %d refs to read", c2.BitsAvailableForRead(), c2.RefsAvailableForRead())
	}
	got := c2.Refs()
	if len(got) != n-k {
		return fail("copyrem-refcount", "%d refs, %d consumed: copy has %d", n, k, len(got))
	}
	for i, r := range got {
		if r != rs[k+i] {
			return fail("copyrem-refs", "%d refs, %d consumed: copy ref %d is not source ref %d", n, k, i, k+i)
		}
		if r.BitsAvailableForRead() != r.BitSize() {
			return fail("copyrem-child-cursor", "ref %d", i)
		}
	}
	if c.BitsAvailableForRead() != avB || c.RefsAvailableForRead() != avR {
		return fail("copyrem-source", "source cursors moved: bits %d->%d refs %d->%d", avB, c.BitsAvailableForRead(), avR, c.RefsAvailableForRead())
	}
	if k < n {
		if r, err := c.NextRef(); err != nil || r != rs[k] {
			return fail("copyrem-source-next", "NextRef after CopyRemaining is not ref %d", k)
		}
	} else if _, err := c.NextRef(); err == nil {
		return fail("copyrem-source-next", "NextRef beyond the last ref succeeded")
	}
	for i := 0; ; i++ {
		r, err := c2.NextRef()
		if err != nil {
			if i != n-k {
				return fail("copyrem-copy-next", "%d", i)
			}
			break
		}
		if i >= n-k || r != rs[k+i] {
			return fail("copyrem-copy-next", "%d", i)
		}
	}
	return "ok"
}

// go.negarg <bits> <skip> <item with a negative int argument>: no panic; Skip and every reader return an error and leave
// the state alone (a read must fail instead of inventing data); WriteUint writes nothing; WriteInt/WriteBigUint fail;
// WriteBigInt fails after at most its sign bit; On/Off fail.
func goNegArg(a []string) string {
	bin := a[0]
	if bin == "-" {
		bin = ""
	}
	bs := boc.NewBitString(len(bin) + 70)
	for _, c := range bin {
		if err := bs.WriteBit(c == '1'); err != nil {
			return "bad-op"
		}
	}
	if err := bs.Skip(atoi(a[1])); err != nil {
		return "bad-op"
	}
	before := showState(&bs)
	r := applyItem(&bs, a[2])
	kind := strings.SplitN(a[2], ":", 2)[0]
	if r == "panic" {
		return fail("negarg-panic", "%s", a[2])
	}
	switch kind {
	case "wu":
		if r != "ok" || showState(&bs) != before {
			return fail("negarg-write", "%s gave %s", a[2], r)
		}
	case "wI":
		if r != "err" || bs.GetWriteCursor() > len(bin)+1 {
			return fail("negarg-write", "%s gave %s", a[2], r)
		}
	default:
		if r != "err" {
			return fail("negarg-"+strings.SplitN(r, ":", 2)[0], "%s with %d bits left gave %s", a[2], len(bin)-atoi(a[1]), r)
		}
		if showState(&bs) != before {
			return fail("negarg-state", "%s changed the state", a[2])
		}
	}
	// the cursor is still inside the data: a following read sees the bit at the cursor
	if atoi(a[1]) < len(bin) {
		v, err := bs.ReadBit()
		if err != nil || v != (bin[atoi(a[1])] == '1') {
			return fail("negarg-after", "%s: the next ReadBit is wrong", a[2])
		}
	}
	return "ok"
}

// go.writeint <v> <n>: a successful WriteInt(v, n) appends exactly n ≥ 1 bits, and for representable v, ReadInt(n) gives v.
func goWriteInt(a []string) string {
	v, _ := strconv.ParseInt(a[0], 10, 64)
	n := atoi(a[1])
	bs := boc.NewBitString(200)
	if err := bs.WriteInt(v, n); err != nil {
		if n >= 1 && n <= 64 && representable(big.NewInt(v), n) {
			return fail("writeint-rejects", "%d width %d", v, n)
		}
		return "ok"
	}
	if n < 1 || bs.GetWriteCursor() != n {
		return fail("writeint-len", "WriteInt(%d,%d) succeeded and wrote %d bits", v, n, bs.GetWriteCursor())
	}
	if n <= 64 && representable(big.NewInt(v), n) {
		got, err := bs.ReadInt(n)
		if err != nil || got != v {
			return fail("writeint-readback", "%d width %d got %d", v, n, got)
		}
	}
	return "ok"
}

func goMinBits(a []string) string {
	v := u64c(a[0])
	if got := boc.VerifMinBitsRequired(v); got != bits.Len64(v) {
		return fail("minbits", "%d got %d", v, got)
	}
	return "ok"
}

// ------------------------------------------------------------------------------------------------------ generator

func randBits(g *h.G, n int) string {
	var sb strings.Builder
	mode := g.Rng.Intn(6)
	for i := 0; i < n; i++ {
		var b bool
		switch mode {
		case 0:
			b = false
		case 1:
			b = true
		case 2:
			b = i%2 == 0
		default:
			b = g.Rng.Intn(2) == 1
		}
		if b {
			sb.WriteByte('1')
		} else {
			sb.WriteByte('0')
		}
	}
	return sb.String()
}

func pickWidth(g *h.G) int {
	switch g.Rng.Intn(4) {
	case 0:
		return g.Pick(0, 1, 7, 8, 9, 15, 16, 17, 31, 32, 33, 55, 56, 57, 58, 63, 64)
	default:
		return g.Rng.Intn(65)
	}
}

func valOfWidth(g *h.G, n int) uint64 {
	if n == 0 {
		return 0
	}
	max := ^uint64(0) >> uint(64-n)
	switch g.Rng.Intn(6) {
	case 0:
		return 0
	case 1:
		return max
	case 2:
		return 1 << uint(n-1)
	case 3:
		return 0xAAAAAAAAAAAAAAAA & max
	default:
		return g.Rng.Uint64() & max
	}
}

func intOfWidth(g *h.G, n int) int64 {
	if n == 0 {
		return 0
	}
	lim := int64(1) << uint(n-1) // n = 64: MinInt64
	switch g.Rng.Intn(6) {
	case 0:
		return 0
	case 1:
		return -1 & (lim - 1) // max
	case 2:
		return -lim
	case 3:
		if n == 1 {
			return -1
		}
		return -1
	default:
		v := int64(g.Rng.Uint64())
		if n < 64 {
			v >>= uint(64 - n)
		}
		return v
	}
}

func bigOfWidth(g *h.G, n int, signed bool) *big.Int {
	if n == 0 {
		return big.NewInt(0)
	}
	v := new(big.Int).SetBytes(g.Bytes((n + 7) / 8))
	m := n
	if signed {
		m = n - 1
	}
	v.And(v, new(big.Int).Sub(new(big.Int).Lsh(big.NewInt(1), uint(m)), big.NewInt(1)))
	switch g.Rng.Intn(6) {
	case 0:
		v.SetInt64(0)
	case 1:
		v.Sub(new(big.Int).Lsh(big.NewInt(1), uint(m)), big.NewInt(1))
	}
	if signed && g.Rng.Intn(2) == 0 {
		// negative: v - 2^(n-1)
		v.Sub(v, new(big.Int).Lsh(big.NewInt(1), uint(n-1)))
	}
	return v
}

// seqGen produces a random item sequence, tracking an approximate state to keep most operations valid.
type seqGen struct {
	g                   *h.G
	cap, ln, cur        int
	items               []string
	wf                  bool // every item is a well-formed Op of the specification
	unaligned, errs, wd bool
	cell                bool
}

func (q *seqGen) write(n int, tok string) {
	q.items = append(q.items, tok)
	if q.ln+n <= q.cap {
		q.ln += n
	} else {
		q.errs = true
		if q.ln < q.cap {
			q.ln = q.cap
		}
	}
}

func (q *seqGen) read(n int, tok string, advance bool) {
	q.items = append(q.items, tok)
	if q.cur%8 != 0 {
		q.unaligned = true
	}
	if q.cur+n <= q.ln {
		if advance {
			q.cur += n
		}
	} else {
		q.errs = true
	}
}

func negItem(g *h.G) string {
	n := -(1 + g.Rng.Intn(20))
	if g.Rng.Intn(3) == 0 {
		n = -g.Pick(1, 7, 8, 9, 16, 64, 1000)
	}
	switch g.Rng.Intn(13) {
	case 0:
		return fmt.Sprintf("sk:%d", n)
	case 1:
		return fmt.Sprintf("ru:%d", n)
	case 2:
		return fmt.Sprintf("pu:%d", n)
	case 3:
		return fmt.Sprintf("ri:%d", n)
	case 4:
		return fmt.Sprintf("ry:%d", n)
	case 5:
		return fmt.Sprintf("rs:%d", n)
	case 6:
		return fmt.Sprintf("rU:%d", n)
	case 7:
		return fmt.Sprintf("rI:%d", n)
	case 8:
		return fmt.Sprintf("wu:%d:%d", g.U64(), n)
	case 9:
		return fmt.Sprintf("wi:%d:%d", int64(g.U64()), n)
	case 10:
		return fmt.Sprintf("wU:%d:%d", g.Rng.Intn(1000), n)
	case 11:
		return fmt.Sprintf("on:%d", n)
	default:
		return fmt.Sprintf("off:%d", n)
	}
}

// bigItem: a read / skip whose count is near 2^60 .. 2^63: products such as size*8 overflow a Go int there
func bigItem(g *h.G, i int) string {
	sizes := []uint64{1 << 60, 1<<60 + 1, 1<<61 - 1, 1 << 61, 1<<61 + 3, 1 << 62, 1<<62 + 7, 1<<63 - 8, 1<<63 - 1}
	n := sizes[i%len(sizes)]
	ops := []string{"ry", "rs", "sk", "rU", "rI", "ru", "pu", "ri"}
	return fmt.Sprintf("%s:%d", ops[(i/len(sizes))%len(ops)], n)
}

// negItem2: a negative-argument item available through the Cell wrappers
func negItem2(g *h.G) string {
	for {
		it := negItem(g)
		if !strings.HasPrefix(it, "o") {
			return it
		}
	}
}

func (q *seqGen) step() {
	g := q.g
	if g.Rng.Intn(45) == 0 {
		q.items = append(q.items, bigItem(g, g.Rng.Intn(72)))
		q.errs = true
		return
	}
	if g.Rng.Intn(30) == 0 {
		it := negItem(g)
		if strings.HasPrefix(it, "o") {
			if q.cell {
				return
			}
			q.wf = false // On/Off are not part of the specification vocabulary
		}
		q.items = append(q.items, it)
		if !strings.HasPrefix(it, "wu") {
			q.errs = true
		}
		return
	}
	free := q.cap - q.ln
	avail := q.ln - q.cur
	wantRead := avail > 0 && g.Rng.Intn(100) < 45
	if g.Rng.Intn(40) == 0 {
		wantRead = !wantRead
	}
	if !wantRead {
		switch k := g.Rng.Intn(20); {
		case k < 4:
			n := pickWidth(g)
			if g.Rng.Intn(30) == 0 {
				n = 65 + g.Rng.Intn(10)
			}
			v := valOfWidth(g, minI(n, 64))
			if g.Rng.Intn(20) == 0 {
				v = g.U64()
			}
			q.write(n, fmt.Sprintf("wu:%d:%d", v, n))
		case k < 7:
			n := pickWidth(g)
			v := intOfWidth(g, n)
			if g.Rng.Intn(15) == 0 {
				v = int64(g.U64())
			}
			tok := fmt.Sprintf("wi:%d:%d", v, n)
			if n == 0 || (n == 1 && v != 0 && v != -1) {
				q.items = append(q.items, tok) // rejected
				q.errs = true
				return
			}
			q.write(n, tok)
		case k < 8:
			q.write(1, fmt.Sprintf("wb:%d", g.Rng.Intn(2)))
		case k < 10:
			n := g.Pick(0, 1, 1, 2, 3, 4, 8, 16, 32)
			if n*8 > free && g.Rng.Intn(4) != 0 {
				n = free / 8
			}
			q.write(n*8, "wy:"+h.Hex(g.Bytes(n)))
		case k < 11:
			if q.cell {
				q.write(8, "wy:"+h.Hex(g.Bytes(1)))
			} else {
				q.write(8, fmt.Sprintf("wB:%d", g.Rng.Intn(256)))
			}
		case k < 13:
			n := g.Rng.Intn(40)
			if g.Rng.Intn(4) == 0 {
				n = g.Rng.Intn(300)
			}
			tok := "ws:"
			if !q.cell && g.Rng.Intn(3) == 0 {
				tok = "wa:"
			}
			bitsS := randBits(g, n)
			if tok == "ws:" && n > 0 && g.Rng.Intn(2) == 0 { // a partially (or completely) read source
				bitsS += fmt.Sprintf(":%d", 1+g.Rng.Intn(n))
			}
			q.write(n, tok+bitsS)
		case k < 15:
			n := 1 + g.Rng.Intn(257)
			if g.Rng.Intn(3) == 0 {
				n = g.Pick(1, 2, 7, 8, 9, 63, 64, 65, 127, 128, 129, 255, 256, 257)
			}
			signed := g.Rng.Intn(2) == 0
			v := bigOfWidth(g, n, signed)
			if g.Rng.Intn(25) == 0 { // too wide for the field, or width 0
				if g.Rng.Intn(2) == 0 {
					v = new(big.Int).Lsh(big.NewInt(1), uint(n))
				} else {
					n = 0
				}
				q.wf = false
				q.errs = true
				op := "wU"
				if signed {
					op = "wI"
				}
				q.items = append(q.items, fmt.Sprintf("%s:%s:%d", op, v.String(), n))
				// the sign bit may have been written: keep the approximation conservative
				if signed && q.ln < q.cap {
					q.ln++
				}
				return
			}
			if signed {
				q.write(n, fmt.Sprintf("wI:%s:%d", v.String(), n))
			} else {
				if v.Sign() < 0 {
					v.Neg(v)
					v.Rsh(v, 1)
				}
				q.write(n, fmt.Sprintf("wU:%s:%d", v.String(), n))
			}
		case k < 17:
			n := g.Rng.Intn(12)
			if g.Rng.Intn(6) == 0 {
				n = g.Pick(61, 62, 63, 64, 65, 100)
			}
			if g.Rng.Intn(60) == 0 { // a count >= 2^63: ones up to the capacity, then the overflow error
				q.write(1<<40, fmt.Sprintf("wn:%d", uint64(1)<<63+uint64(g.Rng.Intn(5))))
				return
			}
			q.write(n+1, fmt.Sprintf("wn:%d", n))
		case k < 19:
			mx := int(g.U64() >> uint(1+g.Rng.Intn(63)))
			v := randUpTo(g, mx)
			q.write(bits.Len64(uint64(mx)), fmt.Sprintf("wl:%d:%d", v, mx))
		default:
			if q.cell {
				q.write(1, "wb:1")
				return
			}
			switch g.Rng.Intn(4) {
			case 0:
				n := g.Rng.Intn(70)
				q.items = append(q.items, fmt.Sprintf("gr:%d", n))
				q.cap += n
			case 1:
				n := g.Rng.Intn(60)
				apS := randBits(g, n)
				if n > 0 && g.Rng.Intn(2) == 0 {
					apS += fmt.Sprintf(":%d", 1+g.Rng.Intn(n))
				}
				q.items = append(q.items, "ap:"+apS)
				if q.ln+n > q.cap {
					q.cap = q.ln + n
				}
				q.ln += n
			case 2:
				q.items = append(q.items, "cp")
				q.cur = 0
			default:
				q.items = append(q.items, pickS(g, "fh", "gt", "av"))
				q.wf = false
			}
		}
		return
	}
	switch k := g.Rng.Intn(22); {
	case k < 5:
		n := pickWidth(g)
		if n > avail && g.Rng.Intn(5) != 0 {
			n = avail % 65
		}
		if g.Rng.Intn(40) == 0 {
			n = 65 + g.Rng.Intn(5)
		}
		if n > 56 {
			q.wd = true
		}
		if n > 64 {
			q.items = append(q.items, fmt.Sprintf("ru:%d", n))
			q.errs = true
			return
		}
		q.read(n, fmt.Sprintf("ru:%d", n), true)
	case k < 7:
		n := pickWidth(g)
		if n > avail && g.Rng.Intn(5) != 0 {
			n = avail % 65
		}
		q.read(n, fmt.Sprintf("pu:%d", n), false)
	case k < 10:
		n := pickWidth(g)
		if n > avail && g.Rng.Intn(5) != 0 {
			n = avail % 65
		}
		if n == 0 {
			q.items = append(q.items, "ri:0")
			q.errs = true
			return
		}
		if n > 57 {
			q.wd = true
		}
		q.read(n, fmt.Sprintf("ri:%d", n), true)
	case k < 11:
		q.read(1, "rb", true)
	case k < 12:
		n := g.Rng.Intn(10)
		q.read(n, fmt.Sprintf("sk:%d", n), true)
	case k < 13:
		if q.cell {
			q.read(8, "ry:1", true)
		} else {
			q.read(8, "rB", true)
		}
	case k < 15:
		n := g.Rng.Intn(6)
		if n*8 > avail && g.Rng.Intn(4) != 0 {
			n = avail / 8
		}
		q.read(n*8, fmt.Sprintf("ry:%d", n), true)
	case k < 17:
		n := g.Rng.Intn(40)
		if n > avail && g.Rng.Intn(4) != 0 {
			n = avail
		}
		q.read(n, fmt.Sprintf("rs:%d", n), true)
	case k < 19:
		n := g.Rng.Intn(258)
		if g.Rng.Intn(3) == 0 {
			n = g.Pick(0, 1, 2, 7, 8, 9, 63, 64, 65, 127, 128, 129, 255, 256, 257)
		}
		if n > avail && g.Rng.Intn(4) != 0 {
			n = avail
		}
		q.read(n, fmt.Sprintf("%s:%d", pickS(g, "rU", "rI"), n), true)
	case k < 20:
		q.items = append(q.items, "rn")
		q.cur = q.ln // approximation
	case k < 21:
		mx := int(g.U64() >> uint(1+g.Rng.Intn(63)))
		q.read(bits.Len64(uint64(mx)), fmt.Sprintf("rl:%d", mx), true)
	default:
		if g.Rng.Intn(3) == 0 {
			q.read(avail, "rr", true)
		} else if q.cell {
			q.items = append(q.items, "rC")
			q.cur = 0
		} else {
			q.items = append(q.items, "rc")
			q.cur = 0
		}
	}
}

func genSeq(g *h.G, capBits, nOps int, cell bool) *seqGen {
	q := &seqGen{g: g, cap: capBits, wf: !cell, cell: cell}
	for i := 0; i < nOps; i++ {
		q.step()
	}
	return q
}

// fiftOf: independent encoder of the Fift hex form (for generating parser inputs).
func fiftOf(bin string) string {
	pad := false
	if len(bin)%4 != 0 {
		pad = true
		bin += "1"
		for len(bin)%4 != 0 {
			bin += "0"
		}
	}
	var sb strings.Builder
	for i := 0; i < len(bin); i += 4 {
		v, _ := strconv.ParseUint(bin[i:i+4], 2, 8)
		sb.WriteString(strings.ToUpper(strconv.FormatUint(v, 16)))
	}
	if pad {
		sb.WriteByte('_')
	}
	return sb.String()
}

func genC06(g *h.G) {
	// (a) fast-path grid -------------------------------------------------------------------------------------------
	widths := []int{0, 1, 7, 8, 9, 16, 55, 56, 57, 58, 63, 64}
	if g.Thorough() {
		widths = widths[:0]
		for w := 0; w <= 64; w++ {
			widths = append(widths, w)
		}
	}
	contents := func(n int) [][]byte {
		rep := func(b byte) []byte { return bytes.Repeat([]byte{b}, n) }
		cs := [][]byte{rep(0), rep(0xff), rep(0xaa), g.Bytes(n), g.Bytes(n)}
		if g.Thorough() {
			cs = append(cs, rep(0x55), g.Bytes(n))
		}
		return cs
	}
	for _, w := range widths {
		for _, c := range contents(128) {
			// one line per 256 offsets keeps lines short; the last line runs two offsets past the end (errors)
			for lo := 0; lo <= 1024-w+2; lo += 256 {
				hi := lo + 255
				if hi > 1024-w+2 {
					hi = 1024 - w + 2
				}
				g.Emit("bs.grid", h.Hex(c), fmt.Sprint(w), fmt.Sprint(lo), fmt.Sprint(hi))
			}
			g.Count(fmt.Sprintf("grid_width_%02d", w))
		}
	}
	// reads ending at the end of a buffer of every length
	for B := 1; B <= 127; B++ {
		for _, w := range widths {
			if w > 8*B {
				continue
			}
			lo := 8*B - w - 9
			if lo < 0 {
				lo = 0
			}
			cs := contents(B)
			if !g.Thorough() {
				cs = cs[3:4]
			}
			for _, c := range cs {
				g.Emit("bs.grid", h.Hex(c), fmt.Sprint(w), fmt.Sprint(lo), fmt.Sprint(8*B-w+1))
			}
			g.Count("grid_buffer_end")
		}
	}
	// (b) operation sequences ------------------------------------------------------------------------------------------
	nSeq := g.Scale(3000, 60000)
	for i := 0; i < nSeq; i++ {
		capBits := 1023
		switch g.Rng.Intn(6) {
		case 0:
			capBits = g.Rng.Intn(1024)
		case 1:
			capBits = g.Pick(0, 1, 7, 8, 9, 63, 64, 65, 1016, 1022, 1023, 1024, 2000)
		case 2:
			capBits = 8 * g.Rng.Intn(128)
		}
		nOps := 20 + g.Rng.Intn(60)
		if g.Rng.Intn(10) == 0 {
			nOps = 100 + g.Rng.Intn(100)
		}
		q := genSeq(g, capBits, nOps, false)
		line := strings.Join(q.items, ";")
		g.Emit("bs.seq", fmt.Sprint(capBits), line)
		if q.wf {
			g.Emit("bs.spec", fmt.Sprint(capBits), line)
			g.Count("seq_also_on_spec")
		}
		g.Count(fmt.Sprintf("seq_cap_mod8_%d", capBits%8))
		if q.unaligned && (q.errs || q.wd) {
			g.NonTrivial(line)
		}
		if q.errs {
			g.Count("seq_with_error")
		}
		if q.wd {
			g.Count("seq_with_width_gt_56")
		}
	}
	// cells: fresh and parsed, with references
	nCell := g.Scale(600, 12000)
	for i := 0; i < nCell; i++ {
		init := "-"
		start := 0
		if g.Rng.Intn(2) == 0 {
			start = g.Rng.Intn(200)
			if g.Rng.Intn(5) == 0 {
				start = g.Pick(0, 1, 7, 8, 9, 1015, 1016, 1017, 1022, 1023)
			}
			init = "p" + randBits(g, start)
			g.Count("cell_parsed")
		}
		q := &seqGen{g: g, cap: 1023, ln: start, cell: true}
		for k := 0; k < 10+g.Rng.Intn(40); k++ {
			if g.Rng.Intn(6) == 0 {
				q.items = append(q.items, pickS(g, "ar:"+randBits(g, 1+g.Rng.Intn(9)), "nr", "cr", "rC", "av"))
				if q.items[len(q.items)-1] == "rC" {
					q.cur = 0
				}
			} else {
				q.step()
			}
		}
		line := strings.Join(q.items, ";")
		g.Emit("bs.cell", init, line)
		if q.unaligned && (q.errs || q.wd) {
			g.NonTrivial("cell " + init + " " + line)
		}
	}
	// cell-level sequences over a heap: sharing, self references, NextRef resetting children, CopyRemaining
	for i := 0; i < g.Scale(1500, 30000); i++ {
		n := 1
		var st []string
		bitItem := func() string {
			switch g.Rng.Intn(16) {
			case 0, 1, 2:
				w := pickWidth(g)
				return fmt.Sprintf("wu:%d:%d", valOfWidth(g, w), w)
			case 3:
				w := pickWidth(g)
				return fmt.Sprintf("wi:%d:%d", intOfWidth(g, w), w)
			case 4:
				nb := g.Rng.Intn(40)
				if nb > 0 && g.Rng.Intn(2) == 0 {
					return fmt.Sprintf("ws:%s:%d", randBits(g, nb), 1+g.Rng.Intn(nb))
				}
				return "ws:" + randBits(g, nb)
			case 5:
				return "wy:" + h.Hex(g.Bytes(g.Rng.Intn(5)))
			case 6, 7:
				return fmt.Sprintf("ru:%d", pickWidth(g))
			case 8:
				w := pickWidth(g)
				return fmt.Sprintf("ri:%d", w)
			case 9:
				return fmt.Sprintf("sk:%d", g.Rng.Intn(12))
			case 10:
				return fmt.Sprintf("rs:%d", g.Rng.Intn(30))
			case 11:
				return "rr"
			case 12:
				return "rb"
			case 13:
				return fmt.Sprintf("wn:%d", g.Rng.Intn(8))
			case 14:
				return negItem2(g)
			default:
				return fmt.Sprintf("ry:%d", g.Rng.Intn(4))
			}
		}
		steps := 10 + g.Rng.Intn(40)
		alias := false
		for k := 0; k < steps; k++ {
			t := g.Rng.Intn(n)
			if g.Rng.Intn(40) == 0 {
				t = n + g.Rng.Intn(2) // no such cell
			}
			var it string
			switch r := g.Rng.Intn(20); {
			case r < 7:
				it = bitItem()
			case r < 10:
				ch := g.Rng.Intn(n)
				if g.Rng.Intn(25) == 0 {
					ch = n
				}
				if ch == t {
					alias = true
				}
				it = fmt.Sprintf("ar:%d", ch)
			case r < 11:
				it = "nf"
				if t < n {
					n++
				}
			case r < 14:
				it = "nr"
			case r < 15:
				it = "rC"
			case r < 17:
				it = "cr"
				if t < n {
					n++
				}
			case r < 18:
				it = pickS(g, "rz", "ra", "ba", "bw")
			default:
				it = "nc"
				n++
			}
			st = append(st, fmt.Sprintf("%d.%s", t, it))
		}
		line := strings.Join(st, ";")
		g.Emit("bs.cellseq", line)
		g.Emit("bs.cellspec", line)
		g.Count("cellseq")
		if alias {
			g.Count("cellseq_with_self_reference")
		}
		if strings.Contains(line, "nr") && strings.Contains(line, "cr") {
			g.NonTrivial("cellseq " + line)
		}
	}
	// (c) Fift hex: every length 0..1023 x 3 contents; (d) malformed text ---------------------------------------------
	for n := 0; n <= 1023; n++ {
		for k := 0; k < 3; k++ {
			if !g.Thorough() && k > 0 && n%8 > 4 && n > 64 {
				continue
			}
			bin := randBits(g, n)
			extra := g.Pick(0, 0, 1, 3, 4, 8, 1023-n)
			g.Emit("bs.seq", fmt.Sprint(n+extra), "wa:"+bin+";fh;gt")
			g.Emit("bs.fromfift", fiftOf(bin))
			if g.Rng.Intn(2) == 0 {
				g.Emit("bs.fromfift", strings.ToLower(fiftOf(bin)))
			}
			arg := bin
			if arg == "" {
				arg = "-"
			}
			g.Emit("go.fifthex", arg, fmt.Sprint(extra))
			g.Emit("go.topup", arg, fmt.Sprint(extra))
			g.Count(fmt.Sprintf("fift_len_mod8_%d", n%8))
		}
	}
	alphabet := "0123456789abcdefABCDEF_gGxXzZ-+.8_4_C_"
	for i := 0; i < g.Scale(1500, 20000); i++ {
		var s string
		switch g.Rng.Intn(4) {
		case 0: // a valid string with one character replaced / inserted / removed
			s = fiftOf(randBits(g, g.Rng.Intn(70)))
			if len(s) > 0 {
				p := g.Rng.Intn(len(s))
				c := string(alphabet[g.Rng.Intn(len(alphabet))])
				switch g.Rng.Intn(3) {
				case 0:
					s = s[:p] + c + s[p+1:]
				case 1:
					s = s[:p] + c + s[p:]
				default:
					s = s[:p] + s[p+1:]
				}
			}
		case 1: // every possible one- and two-character tail
			s = fiftOf(randBits(g, 4*g.Rng.Intn(5))) + string(alphabet[g.Rng.Intn(len(alphabet))]) + "_"
		case 2:
			s = pickS(g, "_", "__", "8_", "0_", "4_", "C_", "c_", "1_", "F_", "f_", "G_", "_4", "4__", "A", "a", "g", "", "00_", "_8_")
		default:
			n := g.Rng.Intn(12)
			b := make([]byte, n)
			for k := range b {
				b[k] = alphabet[g.Rng.Intn(len(alphabet))]
			}
			s = string(b)
		}
		g.Emit("bs.fromfift", s)
		g.Count("fift_malformed_stream")
	}
	for i := 0; i < g.Scale(300, 3000); i++ {
		// a valid text with one character replaced by a non-ASCII rune; half of them have a hex digit as low byte
		t := []rune(fiftOf(randBits(g, 4+g.Rng.Intn(60))))
		var r rune
		if g.Rng.Intn(2) == 0 {
			lows := "0123456789abcdefABCDEF"
			r = rune(0x100*(1+g.Rng.Intn(0x20))) + rune(lows[g.Rng.Intn(len(lows))])
		} else {
			r = rune(0x80 + g.Rng.Intn(0x2000))
		}
		t[g.Rng.Intn(len(t))] = r
		g.Emit("go.fiftreject", h.Hex([]byte(string(t))))
		g.Count("fift_non_ascii")
	}
	// (e) direct oracles ---------------------------------------------------------------------------------------------
	nWr := g.Scale(4000, 80000)
	for i := 0; i < nWr; i++ {
		pre := randBits(g, g.Rng.Intn(17))
		if g.Rng.Intn(3) == 0 {
			pre = randBits(g, g.Rng.Intn(8))
		}
		total := len(pre)
		var vals []string
		for k := 0; k < 1+g.Rng.Intn(12); k++ {
			var tok string
			var n int
			switch g.Rng.Intn(11) {
			case 0, 1:
				n = pickWidth(g)
				tok = fmt.Sprintf("u:%d:%d", valOfWidth(g, n), n)
			case 2, 3:
				n = pickWidth(g)
				if n == 0 {
					n = 1
				}
				tok = fmt.Sprintf("i:%d:%d", intOfWidth(g, n), n)
			case 4:
				n = 1 + g.Rng.Intn(257)
				if g.Rng.Intn(3) == 0 {
					n = g.Pick(1, 2, 7, 8, 9, 63, 64, 65, 127, 128, 129, 255, 256, 257)
				}
				v := bigOfWidth(g, n, false)
				tok = fmt.Sprintf("U:%s:%d", v.String(), n)
			case 5:
				n = 1 + g.Rng.Intn(257)
				if g.Rng.Intn(3) == 0 {
					n = g.Pick(1, 2, 7, 8, 9, 63, 64, 65, 127, 128, 129, 255, 256, 257)
				}
				tok = fmt.Sprintf("I:%s:%d", bigOfWidth(g, n, true).String(), n)
			case 6:
				k := g.Rng.Intn(6)
				n = 8 * k
				tok = "y:" + h.Hex(g.Bytes(k))
			case 7:
				n = 8
				tok = fmt.Sprintf("B:%d", g.Rng.Intn(256))
			case 8:
				k := g.Rng.Intn(10)
				if g.Rng.Intn(8) == 0 {
					k = g.Pick(62, 63, 64, 65, 66, 100)
				}
				n = k + 1
				tok = fmt.Sprintf("n:%d", k)
			case 9:
				mx := int(g.U64() >> uint(1+g.Rng.Intn(63)))
				v := randUpTo(g, mx)
				n = bits.Len64(uint64(mx))
				tok = fmt.Sprintf("l:%d:%d", v, mx)
			default:
				n = g.Rng.Intn(30)
				tok = "s:" + randBits(g, n)
				if n > 0 && k%2 == 0 { // every second nested bit string comes from a source that has been read
					tok += fmt.Sprintf(":%d", 1+g.Rng.Intn(n))
				}
			}
			if total+n > 1023 {
				break
			}
			total += n
			vals = append(vals, tok)
		}
		if len(vals) == 0 {
			vals = []string{"b:1"}
			total++
		}
		capBits := g.Pick(total, total, total+1, 1023)
		p := pre
		if p == "" {
			p = "-"
		}
		g.Emit("go.wr", fmt.Sprint(capBits), p, strings.Join(vals, ";"))
		g.Count(fmt.Sprintf("wr_prefix_mod8_%d", len(pre)%8))
	}
	writeItem := func(n int) string { // a write of exactly n ≥ 1 bits
		switch g.Rng.Intn(7) {
		case 0:
			if n <= 64 {
				return fmt.Sprintf("wu:%d:%d", valOfWidth(g, n), n)
			}
		case 1:
			if n <= 64 {
				return fmt.Sprintf("wi:%d:%d", intOfWidth(g, n), n)
			}
		case 2:
			if n%8 == 0 {
				return "wy:" + h.Hex(g.Bytes(n/8))
			}
		case 3:
			return fmt.Sprintf("wn:%d", n-1)
		case 4:
			if n <= 257 {
				return fmt.Sprintf("wU:%s:%d", bigOfWidth(g, n, false).String(), n)
			}
		case 5:
			if n <= 257 {
				return fmt.Sprintf("wI:%s:%d", bigOfWidth(g, n, true).String(), n)
			}
		}
		return "ws:" + randBits(g, n)
	}
	for i := 0; i < g.Scale(1500, 30000); i++ {
		capBits := g.Pick(1023, 1023, g.Rng.Intn(1024), 8*g.Rng.Intn(128))
		free := g.Rng.Intn(20)
		if free > capBits {
			free = capBits
		}
		pre := randBits(g, capBits-free)
		p := pre
		if p == "" {
			p = "-"
		}
		n := free + 1 + g.Rng.Intn(70)
		it := writeItem(n)
		if g.Rng.Intn(25) == 0 { // a unary count >= 2^63 never fits (before repair d72ec26 it wrote a single 0 and succeeded)
			it = fmt.Sprintf("wn:%d", uint64(1)<<63+uint64(g.Rng.Int63()))
		}
		g.Emit("go.overflow", fmt.Sprint(capBits), p, it)
		g.Count("overflow")
	}
	for i := 0; i < g.Scale(1500, 30000); i++ {
		n := g.Rng.Intn(200)
		left := g.Rng.Intn(20)
		if left > n {
			left = n
		}
		bin := randBits(g, n)
		if bin == "" {
			bin = "-"
		}
		need := left + 1 + g.Rng.Intn(40)
		var it string
		switch g.Rng.Intn(9) {
		case 0:
			it = fmt.Sprintf("ru:%d", minI(need, 64))
			if need > 64 {
				it = fmt.Sprintf("rU:%d", need)
			}
		case 1:
			it = fmt.Sprintf("pu:%d", minI(need, 64))
			if need > 64 {
				it = fmt.Sprintf("rI:%d", need)
			}
		case 2:
			it = fmt.Sprintf("ri:%d", minI(need, 64))
			if need > 64 {
				it = fmt.Sprintf("rs:%d", need)
			}
		case 3:
			it = fmt.Sprintf("ry:%d", (need+7)/8)
		case 4:
			it = fmt.Sprintf("rs:%d", need)
		case 5:
			it = fmt.Sprintf("rU:%d", need)
		case 6:
			it = fmt.Sprintf("rI:%d", need)
		case 7:
			it = fmt.Sprintf("sk:%d", need)
		default:
			if left < 8 {
				it = "rB"
			} else {
				it = fmt.Sprintf("sk:%d", need)
			}
		}
		if left == 0 && g.Rng.Intn(3) == 0 {
			it = pickS(g, "rb", "rn")
		}
		g.Emit("go.underflow", bin, fmt.Sprint(n-left), it)
		g.Count("underflow")
	}
	// ReadUnary running off the end
	for i := 0; i < 50; i++ {
		n := g.Rng.Intn(30)
		bin := strings.Repeat("1", n)
		if bin == "" {
			bin = "-"
		}
		g.Emit("go.underflow", bin, "0", "rn")
	}
	for i := 0; i < g.Scale(800, 8000); i++ {
		n := g.Rng.Intn(1000)
		if g.Rng.Intn(3) == 0 {
			n = g.Pick(0, 1, 7, 8, 9, 15, 16, 1000, 1015)
		}
		bin := randBits(g, n)
		if bin == "" {
			bin = "-"
		}
		w := 1 + g.Rng.Intn(minI(64, 1023-n))
		g.Emit("go.parsedwrite", bin, writeItem(w))
		g.Count("parsedwrite")
	}
	for n := 0; n <= 7; n++ {
		g.Emit("go.refs", fmt.Sprint(n))
	}
	// SetTopUppedArray on arbitrary arrays: every value of the last byte x both parities of the byte before it
	for last := 0; last < 256; last++ {
		for _, prev := range []byte{0x00, 0x01, 0xfe, 0xff} {
			arr := append(g.Bytes(g.Rng.Intn(3)), prev, byte(last))
			if last%4 == 0 && prev == 0 {
				arr = []byte{byte(last)}
			}
			g.Emit("go.settop", h.Hex(arr))
			g.Emit("bs.seq", "0", fmt.Sprintf("st:%s:0;av;ru:3;rr", h.Hex(arr)))
		}
	}
	g.Emit("go.settop", "-")
	g.Emit("bs.seq", "0", "st:-:0;av")
	g.Emit("bs.seq", "0", "st:-:1;av")
	for i := 0; i < 72*g.Scale(2, 6); i++ { // every (operation, size) pair, deterministically
		nb := 8 * g.Rng.Intn(6)
		if i%3 == 0 {
			nb = g.Rng.Intn(40)
		}
		bin := randBits(g, nb)
		if bin == "" {
			bin = "-"
		}
		sk := g.Rng.Intn(nb + 1)
		if i%2 == 0 {
			sk = sk / 8 * 8 // the byte-aligned path of ReadBytes slices the buffer directly
		}
		g.Emit("go.bigarg", bin, fmt.Sprint(sk), bigItem(g, i))
		g.Count("huge_int_argument")
	}
	for i := 0; i < g.Scale(600, 6000); i++ {
		nb := g.Rng.Intn(40)
		bin := randBits(g, nb)
		if bin == "" {
			bin = "-"
		}
		it := negItem(g)
		if g.Rng.Intn(8) == 0 {
			it = fmt.Sprintf("wI:%d:%d", int64(g.U64())>>uint(g.Rng.Intn(64)), -g.Rng.Intn(3))
		}
		g.Emit("go.negarg", bin, fmt.Sprint(g.Rng.Intn(nb+1)), it)
		g.Count("negative_int_argument")
	}
	// CopyRemaining after k consumed references / skipped bits, every ref count 0..4, every k, every alignment
	for n := 0; n <= 4; n++ {
		for k := 0; k <= n; k++ {
			for rep := 0; rep < g.Scale(8, 60); rep++ {
				nb := g.Rng.Intn(120)
				if g.Rng.Intn(6) == 0 {
					nb = g.Pick(0, 1, 7, 8, 9, 1016, 1022, 1023)
				}
				bin := randBits(g, nb)
				skip := 0
				if nb > 0 {
					skip = g.Rng.Intn(nb + 1)
					if rep < 8 && rep <= nb {
						skip = rep // every alignment 0..7
					}
				}
				reset := g.Rng.Intn(5) == 0
				arg := bin
				if arg == "" {
					arg = "-"
				}
				g.Emit("go.copyrem", arg, fmt.Sprint(skip), fmt.Sprint(n), fmt.Sprint(k), fmt.Sprint(map[bool]int{false: 0, true: 1}[reset]))
				// the same shape through the model: distinct reference markers, cursors observed afterwards
				var it []string
				if bin != "" {
					it = append(it, "ws:"+bin)
				}
				for i := 0; i < n; i++ {
					it = append(it, "ar:"+strconv.FormatInt(int64(i+8), 2))
				}
				if g.Rng.Intn(4) == 0 {
					it = append(it, "ar:1") // a fifth AddRef must fail when n = 4
				}
				it = append(it, fmt.Sprintf("sk:%d", skip))
				for i := 0; i < k; i++ {
					it = append(it, "nr")
				}
				if g.Rng.Intn(6) == 0 {
					it = append(it, "nr")
				}
				if reset {
					it = append(it, "rC")
				}
				it = append(it, "cr", "av", "nr", "cr", "rC", "cr")
				init := "-"
				if g.Rng.Intn(3) == 0 && bin != "" {
					init = "p" + bin
					it = it[1:]
				}
				g.Emit("bs.cell", init, strings.Join(it, ";"))
				g.Count(fmt.Sprintf("copyrem_refs_%d_consumed_%d", n, k))
			}
		}
	}
	for i := 0; i < g.Scale(600, 6000); i++ {
		n := pickWidth(g)
		v := intOfWidth(g, n)
		if g.Rng.Intn(3) == 0 {
			v = int64(g.U64())
		}
		if g.Rng.Intn(6) == 0 {
			n = g.Pick(0, 1)
		}
		g.Emit("go.writeint", fmt.Sprint(v), fmt.Sprint(n))
		g.Count(fmt.Sprintf("writeint_width_%02d", n/8*8))
	}
	for k := 0; k < 64; k++ {
		for _, v := range []uint64{1<<uint(k) - 1, 1 << uint(k), 1<<uint(k) + 1, 1<<uint(k) | g.Rng.Uint64()>>uint(64-k)} {
			g.Emit("bs.minbits", fmt.Sprint(v))
			g.Emit("go.minbits", fmt.Sprint(v))
		}
	}
	g.Emit("bs.minbits", fmt.Sprint(^uint64(0)))
	g.Emit("go.minbits", fmt.Sprint(^uint64(0)))
	for i := 0; i < g.Scale(500, 5000); i++ {
		v := g.U64()
		g.Emit("bs.minbits", fmt.Sprint(v))
		g.Emit("go.minbits", fmt.Sprint(v))
	}
}
