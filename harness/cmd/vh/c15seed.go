//go:build c15

package main

import (
	"crypto/hmac"
	"crypto/sha512"
	"fmt"
	"strings"

	"github.com/tonkeeper/tongo/wallet"
	"verifharness/h"
)

// Mnemonic -> key (wallet/seed.go): executors, an independent composition from crypto/hmac + crypto/sha512 (PBKDF2
// written out here, not imported), and the generator part.

func refHmac512(key, msg []byte) []byte {
	m := hmac.New(sha512.New, key)
	m.Write(msg)
	return m.Sum(nil)
}

// refPbkdf2: RFC 8018 PBKDF2 with HMAC-SHA-512, written out
func refPbkdf2(password, salt []byte, iters, keyLen int) []byte {
	var out []byte
	for block := 1; len(out) < keyLen; block++ {
		u := refHmac512(password, append(append([]byte{}, salt...), byte(block>>24), byte(block>>16), byte(block>>8), byte(block)))
		t := append([]byte{}, u...)
		for i := 1; i < iters; i++ {
			u = refHmac512(password, u)
			for j := range t {
				t[j] ^= u[j]
			}
		}
		out = append(out, t...)
	}
	return out[:keyLen]
}

// refSeedKey: the rule of SeedToPrivateKey composed independently: (accepted, 32-byte Ed25519 seed)
func refSeedKey(seed string) (bool, []byte) {
	if strings.Count(seed, " ")+1 < 12 {
		return false, nil
	}
	hash := refHmac512([]byte(seed), nil)
	if refPbkdf2(hash, []byte("TON seed version"), 100000/256, 1)[0] != 0 {
		return false, nil
	}
	return true, refPbkdf2(hash, []byte("TON default seed"), 100000, 32)
}

func refVersionOk(seed string) bool {
	return refPbkdf2(refHmac512([]byte(seed), nil), []byte("TON seed version"), 100000/256, 1)[0] == 0
}

func seedExecs() map[string]h.ExecFn {
	return map[string]h.ExecFn{
		"prim.sha512":  func(a []string) string { s := sha512.Sum512(h.MustUnHex(a[0])); return h.Hex(s[:]) },
		"prim.hmac512": func(a []string) string { return h.Hex(refHmac512(h.MustUnHex(a[0]), h.MustUnHex(a[1]))) },
		"prim.pbkdf2_512": func(a []string) string {
			return h.Hex(refPbkdf2(h.MustUnHex(a[0]), h.MustUnHex(a[1]), atoi(a[2]), atoi(a[3])))
		},
		// seed.key <seed text hex>
		"seed.key": func(a []string) string {
			k, err := wallet.SeedToPrivateKey(string(h.MustUnHex(a[0])))
			if err != nil {
				return "err"
			}
			return "ok " + h.Hex(k.Seed())
		},
		// go.seed.indep <seed text hex>: SeedToPrivateKey agrees with the independent composition (acceptance and key),
		// and the wallet built from the key is the one DefaultWalletFromSeed builds
		"go.seed.indep": func(a []string) string {
			seed := string(h.MustUnHex(a[0]))
			ok, want := refSeedKey(seed)
			k, err := wallet.SeedToPrivateKey(seed)
			if ok != (err == nil) {
				return fmt.Sprintf("FAIL acceptance got=%v want=%v", err == nil, ok)
			}
			if ok {
				if string(k.Seed()) != string(want) {
					return "FAIL derived-key-differs"
				}
				w, err := wallet.DefaultWalletFromSeed(seed, nil)
				w2, err2 := wallet.New(k, wallet.V4R2, nil)
				if err != nil || err2 != nil || w.GetAddress() != w2.GetAddress() {
					return "FAIL default-wallet-from-seed"
				}
			}
			return "ok"
		},
		// go.seed.random <n>: RandomSeed returns 24 words of the word list, accepted by the version rule (independent
		// composition) and by SeedToPrivateKey; two draws differ
		"go.seed.random": func(a []string) string {
			inList := map[string]bool{}
			for _, w := range wallet.WORDLIST {
				inList[w] = true
			}
			if len(wallet.WORDLIST) != 2048 || len(inList) != 2048 {
				return "FAIL wordlist-size"
			}
			prev := ""
			for i := 0; i < atoi(a[0]); i++ {
				s := wallet.RandomSeed()
				ws := strings.Split(s, " ")
				if len(ws) != 24 {
					return "FAIL word-count"
				}
				for _, w := range ws {
					if !inList[w] {
						return "FAIL word-not-in-list"
					}
				}
				if !refVersionOk(s) {
					return "FAIL random-seed-not-accepted-by-version-rule"
				}
				if _, err := wallet.SeedToPrivateKey(s); err != nil {
					return "FAIL random-seed-rejected"
				}
				if s == prev {
					return "FAIL repeated-seed"
				}
				prev = s
			}
			return "ok"
		},
	}
}

func randWords(g *h.G, n int) string {
	ws := make([]string, n)
	for i := range ws {
		ws[i] = wallet.WORDLIST[g.Rng.Intn(len(wallet.WORDLIST))]
	}
	return strings.Join(ws, " ")
}

func genSeeds(g *h.G) {
	for _, n := range []int{0, 1, 111, 112, 127, 128, 129, 240, 300} {
		g.Emit("prim.sha512", h.Hex(g.Bytes(n)))
	}
	for _, kn := range []int{0, 1, 64, 127, 128, 129, 200} {
		g.Emit("prim.hmac512", h.Hex(g.Bytes(kn)), h.Hex(g.Bytes(g.Pick(0, 1, 64, 128, 150))))
	}
	for _, it := range []int{1, 2, 3, 390} {
		for _, kl := range []int{1, 32, 64, 65, 130} {
			g.Emit("prim.pbkdf2_512", h.Hex(g.Bytes(g.Pick(0, 8, 64, 130))), h.Hex(g.Bytes(g.Pick(0, 4, 16))), fmt.Sprint(it), fmt.Sprint(kl))
		}
	}
	emit := func(seed, kind string) {
		g.Count("seed_" + kind)
		g.NonTrivial("seed/" + seed)
		g.Emit("seed.key", h.Hex([]byte(seed)))
		g.Emit("go.seed.indep", h.Hex([]byte(seed)))
	}
	// random 24- and 12-word texts: 255 of 256 are rejected by the version byte
	for i := 0; i < g.Scale(150, 3000); i++ {
		emit(randWords(g, g.Pick(24, 24, 12, 18, 13)), "random_words")
	}
	// accepted seeds (searched with the independent composition): the model runs the full 100000 iterations on them
	for i := 0; i < g.Scale(3, 20); i++ {
		for {
			s := randWords(g, g.Pick(24, 24, 12))
			if refVersionOk(s) {
				emit(s, "accepted")
				// one character changed: almost surely rejected; fewer than 12 fields: rejected whatever the version byte
				emit(strings.Replace(s, "a", "b", 1), "accepted_one_char_changed")
				f := strings.Split(s, " ")
				emit(strings.Join(f[:11], " "), "eleven_words")
				break
			}
		}
	}
	// field counting: empty fields count, other white space does not separate, words need not be in the list
	for i := 0; i < g.Scale(30, 300); i++ {
		switch g.Rng.Intn(5) {
		case 0:
			emit(strings.Repeat(" ", g.Pick(10, 11, 12, 23)), "spaces_only")
		case 1:
			emit(strings.ReplaceAll(randWords(g, 24), " ", "\t"), "tabs")
		case 2:
			emit(randWords(g, 6)+"      "+randWords(g, 1), "double_spaces")
		case 3:
			emit(h.Hex(g.Bytes(8))+" "+randWords(g, 11)+" zzzz", "not_in_wordlist")
		case 4:
			emit(randWords(g, g.Pick(0, 1, 11)), "short")
		}
	}
	g.Emit("go.seed.random", fmt.Sprint(g.Scale(3, 20)))
}
