//go:build c08

package main

// C08, TL side: descriptors of every TL type (reflection for the generic decoder, go/ast over
// liteclient/generated.go for the generated UnmarshalTL bodies), valid encodings made with the real Marshal,
// mutations, and the executors that run the real decoders under recover() with allocation measured.

import (
	"bytes"
	"encoding/binary"
	"fmt"
	"os"
	"reflect"
	"runtime"
	"sort"
	"strconv"
	"sync"
	"time"

	"github.com/tonkeeper/tongo/liteclient"
	"github.com/tonkeeper/tongo/tl"
	"verifharness/h"
	"verifharness/tldesc"
)

func repoDir() string {
	if d := os.Getenv("VERIF_REPO"); d != "" {
		return d
	}
	return "/repo"
}

// ---------------------------------------------------------------------------------------- synthetic generic types

// Types decoded by the GENERIC path of tl.decode (every liteclient type has a generated UnmarshalTL).
type gInner struct {
	A uint32
	B []byte
	C [3]byte
	D bool
}
type gSum struct {
	tl.SumType
	X gInner               `tlSumType:"0a0b0c0d"`
	Y struct{ V []uint64 } `tlSumType:"01020304"`
	Z uint32               `tlSumType:"zz"`
}
type gPtr struct {
	P *uint32
	Q *gInner
}
type gBad struct {
	A uint32
	M map[string]int
}
type gVec struct {
	V [][]byte
	W []gInner
	S string
	I tl.Int256
	L int64
	J int32
}
type gUnexp struct {
	A uint32
	b uint32 //nolint:unused
}
type gZero struct {
	E []struct{}
}
type gArr struct {
	A [32]byte
	B [4]uint32
}

var genericTL = []regType{
	{"g.Inner", reflect.TypeOf(gInner{})},
	{"g.Sum", reflect.TypeOf(gSum{})},
	{"g.Ptr", reflect.TypeOf(gPtr{})},
	{"g.Bad", reflect.TypeOf(gBad{})},
	{"g.Vec", reflect.TypeOf(gVec{})},
	{"g.Unexp", reflect.TypeOf(gUnexp{})},
	{"g.Zero", reflect.TypeOf(gZero{})},
	{"g.Arr", reflect.TypeOf(gArr{})},
	{"g.Bytes", reflect.TypeOf([]byte{})},
	{"g.VecInt256", reflect.TypeOf([]tl.Int256{})},
	{"g.U64", reflect.TypeOf(uint64(0))},
}

var tlByName = func() map[string]reflect.Type {
	m := map[string]reflect.Type{}
	for _, r := range tlRegistry {
		m[r.Name] = r.T
	}
	for _, r := range genericTL {
		m[r.Name] = r.T
	}
	return m
}()

// The descriptors (go/ast schema of generated.go + reflection) live in package verifharness/tldesc, shared with the
// translator TldTypes.

// ---------------------------------------------------------------------------------------- random values

func (gc *genCtx) tlBytes() []byte {
	g := gc.g
	var n int
	switch g.Rng.Intn(400) {
	case 0, 1, 2, 3, 4, 5, 6, 7, 8, 9:
		n = 253 + g.Rng.Intn(3) // around the 1-byte / 4-byte prefix switch
	case 10:
		n = 4090 + g.Rng.Intn(12) // around maxPrealloc
	case 11:
		n = 5000 + g.Rng.Intn(4000)
	case 12:
		n = 65536 + g.Rng.Intn(8) - 4
	default:
		if g.Rng.Intn(8) == 0 {
			n = 0
		} else {
			n = g.Rng.Intn(24)
		}
	}
	return g.Bytes(n)
}

// fillTL fills v (settable) with a random value whose TL encoding exists.
func (gc *genCtx) fillTL(v reflect.Value, depth int) {
	g := gc.g
	t := v.Type()
	switch t.Kind() {
	case reflect.Uint32, reflect.Uint64:
		v.SetUint(g.U64())
	case reflect.Int32, reflect.Int64:
		v.SetInt(int64(g.U64()))
	case reflect.Bool:
		v.SetBool(g.Rng.Intn(2) == 0)
	case reflect.String:
		v.SetString(string(gc.tlBytes()))
	case reflect.Slice:
		if t.Elem().Kind() == reflect.Uint8 {
			v.SetBytes(gc.tlBytes())
			return
		}
		n := g.Rng.Intn(4)
		if depth > 3 {
			n = g.Rng.Intn(2)
		}
		s := reflect.MakeSlice(t, n, n)
		for i := 0; i < n; i++ {
			gc.fillTL(s.Index(i), depth+1)
		}
		v.Set(s)
	case reflect.Array:
		for i := 0; i < v.Len(); i++ {
			gc.fillTL(v.Index(i), depth+1)
		}
	case reflect.Uint8:
		v.SetUint(uint64(g.Rng.Intn(256)))
	case reflect.Pointer:
		p := reflect.New(t.Elem())
		gc.fillTL(p.Elem(), depth+1)
		v.Set(p)
	case reflect.Struct:
		if sf, ok := t.FieldByName("SumType"); ok && sf.Type.Kind() == reflect.String {
			var idx []int
			for i := 0; i < t.NumField(); i++ {
				f := t.Field(i)
				if f.Type.Name() == "SumType" {
					continue
				}
				if tag := f.Tag.Get("tlSumType"); tag != "" && len(tag) != 8 {
					continue // malformed tag: cannot be encoded
				}
				idx = append(idx, i)
			}
			i := idx[g.Rng.Intn(len(idx))]
			if depth == 0 && gc.forceAlt >= 0 {
				i = idx[gc.forceAlt%len(idx)] // every alternative of a top-level sum type gets a valid encoding
			}
			v.FieldByName("SumType").SetString(t.Field(i).Name)
			gc.fillTL(v.Field(i), depth+1)
			return
		}
		for i := 0; i < t.NumField(); i++ {
			if !t.Field(i).IsExported() {
				continue
			}
			if t.Field(i).Name == "Mode" && t.Field(i).Type.Kind() == reflect.Uint32 {
				v.Field(i).SetUint(uint64(g.Rng.Intn(64)))
				continue
			}
			gc.fillTL(v.Field(i), depth+1)
		}
	}
}

func safeMarshalTL(o any) (b []byte, err error) {
	defer func() {
		if r := recover(); r != nil {
			err = fmt.Errorf("marshal panicked: %v", r)
		}
	}()
	return tl.Marshal(o)
}

// ---------------------------------------------------------------------------------------- generation

type genCtx struct {
	g        *h.G
	sc       *tldesc.Schema
	forceAlt int
	noSeed   map[string]bool
	perType  map[string]int
	tlbStats map[string]*tlbStat
	// queued go.tlb.flags lines
	pendingFlags [][]string
}

var lenPatterns = [][]byte{
	{0xfe, 0xff, 0xff, 0xff}, // bytes: 2^24-1
	{0xff, 0xff, 0xff, 0xff}, // vector: 2^32-1 ; bytes: invalid prefix
	{0x00, 0x00, 0x01, 0x00}, // vector: 2^16
	{0xfe, 0x00, 0x00, 0x01}, // bytes: 2^16
	{0xfe, 0x01, 0x00, 0x01}, // bytes: 2^16+1
	{0x00, 0x00, 0x00, 0x01}, // vector: 2^24
	{0xff, 0xff, 0xff, 0x7f}, // vector: 2^31-1
	{0xfe, 0x01, 0x10, 0x00}, // bytes: 4097
	{0xfd, 0x00, 0x00, 0x00}, // bytes: 253
}

func (gc *genCtx) emitTL(name, desc string, bs []byte, kind string) {
	g := gc.g
	hx := h.Hex(bs)
	g.Emit("tld.dec", name, desc, hx)
	g.Emit("go.tl.safe", name, hx)
	g.Count("tl_" + kind)
	gc.perType[name]++
	if kind != "valid" {
		g.NonTrivial(name + hx)
	}
}

func (gc *genCtx) genTLType(r regType, perType int) {
	g := gc.g
	desc := gc.sc.Desc(r.T)
	g.Emit("tld.consts", r.Name, desc)
	budget := perType
	seeds := 3
	if r.T.Kind() == reflect.Struct {
		if _, ok := r.T.FieldByName("SumType"); ok {
			// one accepted encoding per alternative, outside the budget: a reflect panic that depends on the Go type
			// alone (not on the bytes) shows on the first decode of that alternative
			for a := 0; a < r.T.NumField()-1; a++ {
				v := reflect.New(r.T)
				gc.forceAlt = a
				gc.fillTL(v.Elem(), 0)
				gc.forceAlt = -1
				if bs, err := safeMarshalTL(v.Elem().Interface()); err == nil {
					gc.emitTL(r.Name, desc, bs, "valid")
				}
			}
		}
	}
	valid := 0
	for s := 0; s < seeds && budget > 0; s++ {
		v := reflect.New(r.T)
		gc.fillTL(v.Elem(), 0)
		bs, err := safeMarshalTL(v.Elem().Interface())
		if err != nil {
			continue
		}
		valid++
		gc.emitTL(r.Name, desc, bs, "valid")
		budget--
		if len(bs) > 4096 {
			// a long encoding: a handful of mutants only (the lines are long)
			for k := 0; k < 3; k++ {
				gc.emitTL(r.Name, desc, bs[:g.Rng.Intn(len(bs))], "trunc")
				m := append([]byte{}, bs...)
				m[g.Rng.Intn(len(m))] ^= byte(1 << uint(g.Rng.Intn(8)))
				gc.emitTL(r.Name, desc, m, "flip")
			}
			continue
		}
		if r.Name == "g.Zero" {
			continue // zero-width elements: a huge count spins without reading (tl_steps_zero_width_elements); not mutated
		}
		// truncation: every offset when short, else a sample plus the boundaries
		offs := map[int]bool{}
		if len(bs) <= 48 {
			for i := 0; i < len(bs); i++ {
				offs[i] = true
			}
		} else {
			for i := 0; i < 12; i++ {
				offs[i] = true
				offs[len(bs)-1-i] = true
			}
			for i := 0; i < 16; i++ {
				offs[g.Rng.Intn(len(bs))] = true
			}
		}
		var ol []int
		for o := range offs {
			ol = append(ol, o)
		}
		sort.Ints(ol)
		if g.Thorough() {
			for _, o := range ol {
				gc.emitTL(r.Name, desc, bs[:o], "trunc")
			}
		} else {
			for k := 0; k < 14 && k < len(ol); k++ {
				gc.emitTL(r.Name, desc, bs[:ol[g.Rng.Intn(len(ol))]], "trunc")
			}
		}
		// length prefixes replaced at 4-aligned offsets (every TL field is 4-aligned)
		nAligned := len(bs)/4 + 1
		tries := g.Scale(12, 200)
		for k := 0; k < tries; k++ {
			off := 4 * g.Rng.Intn(nAligned)
			pat := lenPatterns[g.Rng.Intn(len(lenPatterns))]
			m := append([]byte{}, bs...)
			if off+4 > len(m) {
				m = append(m[:off], pat...)
			} else {
				copy(m[off:], pat)
			}
			if len(m) > 2048 && g.Rng.Intn(2) == 0 {
				m = m[:off+4+g.Rng.Intn(64)] // keep big inputs rare
			}
			gc.emitTL(r.Name, desc, m, "lenprefix")
		}
		// byte flips
		flips := g.Scale(6, 150)
		for k := 0; k < flips && len(bs) > 0; k++ {
			m := append([]byte{}, bs...)
			n := 1 + g.Rng.Intn(3)
			for j := 0; j < n; j++ {
				m[g.Rng.Intn(len(m))] ^= byte(1 << uint(g.Rng.Intn(8)))
			}
			gc.emitTL(r.Name, desc, m, "flip")
		}
	}
	if valid == 0 {
		gc.noSeed["tl:"+r.Name] = true
	}
	if r.Name == "g.Zero" {
		gc.emitTL(r.Name, desc, []byte{0, 4, 0, 0}, "lenprefix") // 2^10 empty structs
		return
	}
	// random bytes
	for k := 0; k < g.Scale(4, 100); k++ {
		gc.emitTL(r.Name, desc, g.Bytes(g.Pick(0, 1, 3, 4, 8, 36, 40, 100)), "random")
	}
	// MarshalTL with mode bits selecting nil optional pointers
	if r.T.Kind() != reflect.Struct {
		return
	}
	if _, ok := r.T.FieldByName("Mode"); ok {
		for m := 0; m < 8; m++ {
			g.Emit("go.tl.marshalnil", r.Name, strconv.Itoa(m))
		}
		g.Emit("go.tl.marshalnil", r.Name, "4294967295")
	}
}

func (gc *genCtx) genTL() {
	g := gc.g
	per := g.Scale(100, 3000)
	all := append(append([]regType{}, tlRegistry...), genericTL...)
	for _, r := range all {
		gc.genTLType(r, per)
		gc.emitPendingFlag()
		gc.emitPendingFlag()
	}
	// LiteapiRequestDecoder: every registered request tag x (valid body, truncations, length patterns), unknown tags, short input
	var tags []uint32
	for t := range gc.sc.Requests {
		tags = append(tags, t)
	}
	sort.Slice(tags, func(i, j int) bool { return tags[i] < tags[j] })
	emitReq := func(b []byte) {
		d := "-"
		if len(b) >= 4 {
			if n, ok := gc.sc.Requests[binary.LittleEndian.Uint32(b[:4])]; ok {
				d = gc.sc.Desc(tlByName[n])
			}
		}
		g.Emit("tld.reqdec", d, h.Hex(b))
		g.Emit("go.tl.reqdec", h.Hex(b))
		g.Count("tl_reqdec")
	}
	for _, tag := range tags {
		rt := tlByName[gc.sc.Requests[tag]]
		for s := 0; s < g.Scale(2, 20); s++ {
			v := reflect.New(rt)
			gc.fillTL(v.Elem(), 0)
			body, err := safeMarshalTL(v.Elem().Interface())
			if err != nil || len(body) > 4096 {
				continue
			}
			b := binary.LittleEndian.AppendUint32(nil, tag)
			b = append(b, body...)
			emitReq(b)
			for k := 0; k < g.Scale(4, 40); k++ {
				emitReq(b[:g.Rng.Intn(len(b)+1)])
			}
			for k := 0; k < g.Scale(3, 30) && len(b) >= 8; k++ {
				m := append([]byte{}, b...)
				off := 4 + 4*g.Rng.Intn((len(m)-4)/4)
				copy(m[off:], lenPatterns[g.Rng.Intn(len(lenPatterns))])
				emitReq(m)
			}
		}
	}
	for k := 0; k < g.Scale(20, 300); k++ {
		emitReq(g.Bytes(g.Pick(0, 1, 3, 4, 5, 8, 40)))
	}
	// ADNL helpers
	for k := 0; k < g.Scale(300, 5000); k++ {
		var b []byte
		switch g.Rng.Intn(6) {
		case 0:
			b = g.Bytes(g.Rng.Intn(6))
		case 1:
			b = append([]byte{254}, g.Bytes(g.Rng.Intn(5))...)
		case 2:
			b = append([]byte{255}, g.Bytes(g.Rng.Intn(5))...)
		case 3:
			b = append([]byte{byte(250 + g.Rng.Intn(6))}, g.Bytes(g.Rng.Intn(8))...)
		default:
			b = g.Bytes(g.Rng.Intn(12))
		}
		g.Emit("tld.len", h.Hex(b))
		g.NonTrivial("len" + h.Hex(b))
	}
	for k := 0; k < g.Scale(400, 6000); k++ {
		// payload = 4 magic + 32 id + length prefix + data (+ padding), mutated
		n := g.Pick(0, 1, 5, 100, 253, 254, 255, 300)
		p := append(g.Bytes(36), tl.EncodeLength(n)...)
		p = append(p, g.Bytes(n+g.Rng.Intn(4))...)
		switch g.Rng.Intn(5) {
		case 0:
			p = p[:g.Rng.Intn(len(p)+1)]
		case 1:
			if len(p) > 36 {
				p[36] = byte(g.Pick(253, 254, 255, 0))
			}
		case 2:
			if len(p) > 40 {
				copy(p[36:], lenPatterns[g.Rng.Intn(len(lenPatterns))])
			}
		}
		known := "1"
		if g.Rng.Intn(4) == 0 {
			known = "0"
		}
		g.Emit("tld.pqa", known, h.Hex(p))
		g.NonTrivial("pqa" + h.Hex(p))
	}
}

// ---------------------------------------------------------------------------------------- execution

func totalAlloc() uint64 {
	var m runtime.MemStats
	runtime.ReadMemStats(&m)
	return m.TotalAlloc
}

// allocBudget: what a decoder may allocate for an input of n bytes
func allocBudget(n int) uint64 { return 64*uint64(n) + 1<<20 }

func allocClass(delta uint64, n int) string {
	if delta > allocBudget(n) {
		return "big"
	}
	return "small"
}

func exTLDec(a []string) (ans string) {
	t, ok := tlByName[a[0]]
	if !ok {
		return "bad-op"
	}
	bs := h.MustUnHex(a[2])
	r := bytes.NewReader(bs)
	v := reflect.New(t)
	a0 := totalAlloc()
	err := tl.Unmarshal(r, v.Interface())
	d := totalAlloc() - a0
	c := strconv.Itoa(len(bs)-r.Len()) + " " + allocClass(d, len(bs))
	if err != nil {
		return "err " + c
	}
	return "ok " + c
}

func goTLSafe(a []string) string {
	return retrySlow(func() string { return goTLSafeOnce(a) })
}

func goTLSafeOnce(a []string) (ans string) {
	t, ok := tlByName[a[0]]
	if !ok {
		return "bad-op"
	}
	bs := h.MustUnHex(a[1])
	defer func() {
		if r := recover(); r != nil {
			ans = fmt.Sprintf("FAIL panic %v", r)
		}
	}()
	v := reflect.New(t)
	a0 := totalAlloc()
	t0 := time.Now()
	_ = tl.Unmarshal(bytes.NewReader(bs), v.Interface())
	dt := time.Since(t0)
	d := totalAlloc() - a0
	if d > allocBudget(len(bs)) {
		return fmt.Sprintf("FAIL alloc %d bytes allocated for %d bytes of input", d, len(bs))
	}
	if dt > 200*time.Millisecond+time.Duration(len(bs))*20*time.Microsecond {
		return fmt.Sprintf("FAIL slow %v for %d bytes of input", dt, len(bs))
	}
	return "ok"
}

func goTLMarshalNil(a []string) (ans string) {
	t, ok := tlByName[a[0]]
	if !ok {
		return "bad-op"
	}
	mode, _ := strconv.ParseUint(a[1], 10, 32)
	defer func() {
		if r := recover(); r != nil {
			ans = fmt.Sprintf("FAIL panic %v", r)
		}
	}()
	v := reflect.New(t).Elem()
	v.FieldByName("Mode").SetUint(mode)
	_, _ = tl.Marshal(v.Interface())
	return "ok"
}

func exTLReqDec(a []string) string {
	b := h.MustUnHex(a[1])
	tag, name, _, err := liteclient.LiteapiRequestDecoder(b)
	if err != nil {
		return "err"
	}
	known := "1"
	if name == nil || *name == liteclient.UnknownRequest {
		known = "0"
	}
	return fmt.Sprintf("ok %d %s", tag, known)
}

func goTLReqDec(a []string) (ans string) {
	b := h.MustUnHex(a[0])
	defer func() {
		if r := recover(); r != nil {
			ans = fmt.Sprintf("FAIL panic %v", r)
		}
	}()
	a0 := totalAlloc()
	_, name, val, err := liteclient.LiteapiRequestDecoder(b)
	d := totalAlloc() - a0
	if d > allocBudget(len(b)) {
		return fmt.Sprintf("FAIL alloc %d bytes allocated for %d bytes of input", d, len(b))
	}
	if err == nil && name == nil {
		return "FAIL no-name"
	}
	if err == nil && *name != liteclient.UnknownRequest && val == nil {
		return "FAIL known-request-without-value"
	}
	return "ok"
}

func exTLLen(a []string) string {
	n, p, err := liteclient.VerifDecodeLength(h.MustUnHex(a[0]))
	if err != nil {
		return "err"
	}
	return fmt.Sprintf("ok %d %d", n, p)
}

func exTLPqa(a []string) string {
	d, ok, err := liteclient.VerifProcessQueryAnswer(h.MustUnHex(a[1]), a[0] == "1")
	if err != nil {
		return "err"
	}
	if !ok {
		return "FAIL answer-not-delivered"
	}
	return "ok " + h.Hex(d)
}

// tl.consts is answered by the model only (constants of the proved bounds for this descriptor); the Go side echoes
// the line's expectation: the descriptor must be well formed.
var execSchema = sync.OnceValue(func() *tldesc.Schema { return tldesc.Load(repoDir()) })

// the descriptor is recomputed from the current source at execution time: the model answers with the printed form of
// what it parsed from the op line
func exTLConsts(a []string) string {
	t, ok := tlByName[a[0]]
	if !ok {
		return "bad-op"
	}
	wf := "ok wf "
	if a[0] == "g.Zero" {
		wf = "ok notwf " // a vector of zero-width elements: outside the hypothesis of the step bound
	}
	return wf + execSchema().Desc(t)
}
