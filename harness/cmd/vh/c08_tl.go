//go:build c08

package main

// C08, TL side: descriptors of every TL type (reflection for the generic decoder, go/ast over
// liteclient/generated.go for the generated UnmarshalTL bodies), valid encodings made with the real Marshal,
// mutations, and the executors that run the real decoders under recover() with allocation measured.

import (
	"bytes"
	"encoding/binary"
	"fmt"
	"go/ast"
	"go/parser"
	"go/token"
	"os"
	"path/filepath"
	"reflect"
	"regexp"
	"runtime"
	"sort"
	"strconv"
	"strings"
	"time"

	"github.com/tonkeeper/tongo/liteclient"
	"github.com/tonkeeper/tongo/tl"
	"verifharness/h"
)

func repoDir() string {
	if d := os.Getenv("VERIF_REPO"); d != "" {
		return d
	}
	return "/repo"
}

// ---------------------------------------------------------------------------------------- synthetic generic types

// Types decoded by the GENERIC path of tl.decode (every liteclient type has a generated UnmarshalTL).
type gInner struct {
	A uint32
	B []byte
	C [3]byte
	D bool
}
type gSum struct {
	tl.SumType
	X gInner               `tlSumType:"0a0b0c0d"`
	Y struct{ V []uint64 } `tlSumType:"01020304"`
	Z uint32               `tlSumType:"zz"`
}
type gPtr struct {
	P *uint32
	Q *gInner
}
type gBad struct {
	A uint32
	M map[string]int
}
type gVec struct {
	V [][]byte
	W []gInner
	S string
	I tl.Int256
	L int64
	J int32
}
type gUnexp struct {
	A uint32
	b uint32 //nolint:unused
}
type gZero struct {
	E []struct{}
}
type gArr struct {
	A [32]byte
	B [4]uint32
}

var genericTL = []regType{
	{"g.Inner", reflect.TypeOf(gInner{})},
	{"g.Sum", reflect.TypeOf(gSum{})},
	{"g.Ptr", reflect.TypeOf(gPtr{})},
	{"g.Bad", reflect.TypeOf(gBad{})},
	{"g.Vec", reflect.TypeOf(gVec{})},
	{"g.Unexp", reflect.TypeOf(gUnexp{})},
	{"g.Zero", reflect.TypeOf(gZero{})},
	{"g.Arr", reflect.TypeOf(gArr{})},
	{"g.Bytes", reflect.TypeOf([]byte{})},
	{"g.VecInt256", reflect.TypeOf([]tl.Int256{})},
	{"g.U64", reflect.TypeOf(uint64(0))},
}

var tlByName = func() map[string]reflect.Type {
	m := map[string]reflect.Type{}
	for _, r := range tlRegistry {
		m[r.Name] = r.T
	}
	for _, r := range genericTL {
		m[r.Name] = r.T
	}
	return m
}()

// ---------------------------------------------------------------------------------------- go/ast schema of generated.go

type genField struct {
	Path []string // t.A.B -> [A B]
	Cond int      // -1 = unconditional, else mode bit
}
type genAlt struct {
	Tag    uint64
	Fields []genField
}
type genType struct {
	Fields []genField
	Alts   []genAlt // non-nil for tag-switch types
	IsSum  bool
}

type tlSchema struct {
	Types    map[string]*genType
	Requests map[uint32]string // tag -> request type name (taggedRequestDecodeFunctions)
	SigTag   uint64            // tag checked by the hand-written LiteServerSignatureSet.UnmarshalTL
}

func fatalSubset(what string, pos token.Position) {
	panic(fmt.Sprintf("c08 translator: construct outside the supported subset of generated UnmarshalTL: %s at %v", what, pos))
}

// selector chain t.A.B -> [A B]; an identifier tempX -> nil, name
func selPath(e ast.Expr) ([]string, string) {
	switch x := e.(type) {
	case *ast.Ident:
		return nil, x.Name
	case *ast.SelectorExpr:
		p, root := selPath(x.X)
		return append(p, x.Sel.Name), root
	}
	return nil, ""
}

// isUnmarshalCall recognises `tl.Unmarshal(r, &X)` and returns X.
func isUnmarshalCall(e ast.Expr) (ast.Expr, bool) {
	c, ok := e.(*ast.CallExpr)
	if !ok || len(c.Args) != 2 {
		return nil, false
	}
	s, ok := c.Fun.(*ast.SelectorExpr)
	if !ok || s.Sel.Name != "Unmarshal" {
		return nil, false
	}
	if id, ok := s.X.(*ast.Ident); !ok || id.Name != "tl" {
		return nil, false
	}
	u, ok := c.Args[1].(*ast.UnaryExpr)
	if !ok || u.Op != token.AND {
		return nil, false
	}
	return u.X, true
}

func isErrCheck(s ast.Stmt) bool {
	i, ok := s.(*ast.IfStmt)
	if !ok || i.Init != nil {
		return false
	}
	b, ok := i.Cond.(*ast.BinaryExpr)
	if !ok || b.Op != token.NEQ {
		return false
	}
	x, ok := b.X.(*ast.Ident)
	return ok && x.Name == "err"
}

// modeBit recognises `(t.Mode>>k)&1 == 1`
func modeBit(e ast.Expr) (int, bool) {
	b, ok := e.(*ast.BinaryExpr)
	if !ok || b.Op != token.EQL {
		return 0, false
	}
	and, ok := b.X.(*ast.BinaryExpr)
	if !ok || and.Op != token.AND {
		return 0, false
	}
	par, ok := and.X.(*ast.ParenExpr)
	if !ok {
		return 0, false
	}
	sh, ok := par.X.(*ast.BinaryExpr)
	if !ok || sh.Op != token.SHR {
		return 0, false
	}
	p, root := selPath(sh.X)
	if root != "t" || len(p) == 0 || p[len(p)-1] != "Mode" {
		return 0, false
	}
	lit, ok := sh.Y.(*ast.BasicLit)
	if !ok {
		return 0, false
	}
	k, err := strconv.Atoi(lit.Value)
	return k, err == nil
}

func parseGenBody(fset *token.FileSet, stmts []ast.Stmt, gt *genType) []genField {
	var fields []genField
	for _, s := range stmts {
		switch x := s.(type) {
		case *ast.DeclStmt: // var err error / var b [4]byte
			continue
		case *ast.ReturnStmt:
			continue
		case *ast.AssignStmt:
			if len(x.Rhs) == 1 {
				if target, ok := isUnmarshalCall(x.Rhs[0]); ok {
					p, root := selPath(target)
					if root != "t" || len(p) == 0 {
						fatalSubset("tl.Unmarshal target", fset.Position(x.Pos()))
					}
					fields = append(fields, genField{Path: p, Cond: -1})
					continue
				}
				// _, err = io.ReadFull(r, b[:]) ; tag := int(binary.LittleEndian.Uint32(b[:])) ; t.SumType = "X"
				if c, ok := x.Rhs[0].(*ast.CallExpr); ok {
					if se, ok := c.Fun.(*ast.SelectorExpr); ok && (se.Sel.Name == "ReadFull") {
						gt.IsSum = true
						continue
					}
					if id, ok := c.Fun.(*ast.Ident); ok && id.Name == "int" {
						continue
					}
				}
				if _, ok := x.Rhs[0].(*ast.BasicLit); ok { // t.SumType = "..."
					continue
				}
			}
			fatalSubset("assignment", fset.Position(x.Pos()))
		case *ast.IfStmt:
			if isErrCheck(x) {
				continue
			}
			k, ok := modeBit(x.Cond)
			if !ok {
				fatalSubset("if condition", fset.Position(x.Pos()))
			}
			// var tempF X; err = tl.Unmarshal(r, &tempF); if err..; t.F = tempF | &tempF
			var dst []string
			sawUnmarshal := false
			for _, bs := range x.Body.List {
				switch y := bs.(type) {
				case *ast.DeclStmt:
				case *ast.IfStmt:
					if !isErrCheck(y) {
						fatalSubset("nested if", fset.Position(y.Pos()))
					}
				case *ast.AssignStmt:
					if _, ok := isUnmarshalCall(y.Rhs[0]); ok {
						sawUnmarshal = true
						continue
					}
					p, root := selPath(y.Lhs[0])
					if root != "t" || len(p) == 0 {
						fatalSubset("conditional assignment", fset.Position(y.Pos()))
					}
					dst = p
				default:
					fatalSubset("conditional body", fset.Position(bs.Pos()))
				}
			}
			if len(x.Body.List) == 0 {
				continue // `mode.k?true`: a flag without payload
			}
			if !sawUnmarshal || dst == nil {
				fatalSubset("conditional field without decode", fset.Position(x.Pos()))
			}
			fields = append(fields, genField{Path: dst, Cond: k})
		case *ast.SwitchStmt:
			for _, cc := range x.Body.List {
				cl := cc.(*ast.CaseClause)
				if cl.List == nil {
					continue // default: return error
				}
				lit, ok := cl.List[0].(*ast.BasicLit)
				if !ok {
					fatalSubset("case label", fset.Position(cl.Pos()))
				}
				tag, err := strconv.ParseUint(lit.Value, 0, 64)
				if err != nil {
					fatalSubset("case label value", fset.Position(cl.Pos()))
				}
				sub := &genType{}
				fs := parseGenBody(fset, cl.Body, sub)
				gt.Alts = append(gt.Alts, genAlt{Tag: tag, Fields: fs})
			}
		default:
			fatalSubset(fmt.Sprintf("%T", s), fset.Position(s.Pos()))
		}
	}
	return fields
}

func loadTLSchema() *tlSchema {
	sc := &tlSchema{Types: map[string]*genType{}, Requests: map[uint32]string{}}
	fset := token.NewFileSet()
	path := filepath.Join(repoDir(), "liteclient", "generated.go")
	f, err := parser.ParseFile(fset, path, nil, 0)
	if err != nil {
		panic(fmt.Sprintf("c08: cannot parse %s: %v", path, err))
	}
	for _, d := range f.Decls {
		switch x := d.(type) {
		case *ast.FuncDecl:
			if x.Name.Name != "UnmarshalTL" || x.Recv == nil {
				continue
			}
			st, ok := x.Recv.List[0].Type.(*ast.StarExpr)
			if !ok {
				continue
			}
			name := st.X.(*ast.Ident).Name
			gt := &genType{}
			gt.Fields = parseGenBody(fset, x.Body.List, gt)
			sc.Types[name] = gt
		case *ast.GenDecl:
			// decodeFuncX = decodeRequest(0x.., XName, X{})
			for _, sp := range x.Specs {
				vs, ok := sp.(*ast.ValueSpec)
				if !ok || len(vs.Values) != 1 {
					continue
				}
				c, ok := vs.Values[0].(*ast.CallExpr)
				if !ok {
					continue
				}
				if id, ok := c.Fun.(*ast.Ident); !ok || id.Name != "decodeRequest" || len(c.Args) != 3 {
					continue
				}
				tag, err := strconv.ParseUint(c.Args[0].(*ast.BasicLit).Value, 0, 32)
				if err != nil {
					panic("c08: decodeRequest tag")
				}
				cl, ok := c.Args[2].(*ast.CompositeLit)
				if !ok {
					panic("c08: decodeRequest type")
				}
				sc.Requests[uint32(tag)] = cl.Type.(*ast.Ident).Name
			}
		}
	}
	ext, err := os.ReadFile(filepath.Join(repoDir(), "liteclient", "extensions.go"))
	if err != nil {
		panic(err)
	}
	m := regexp.MustCompile(`(?s)func \(t \*LiteServerSignatureSet\) UnmarshalTL.*?tag != (0x[0-9a-fA-F]+)`).FindSubmatch(ext)
	if m == nil {
		panic("c08: LiteServerSignatureSet.UnmarshalTL has changed shape")
	}
	sc.SigTag, _ = strconv.ParseUint(string(m[1]), 0, 64)
	// the registry must list exactly the types that have an UnmarshalTL
	have := map[string]bool{"LiteServerSignatureSet": true}
	for n := range sc.Types {
		have[n] = true
	}
	for _, r := range tlRegistry {
		if !have[r.Name] {
			panic("c08: registry lists " + r.Name + " which has no UnmarshalTL any more; run tools_gen_c08_registry.py")
		}
		delete(have, r.Name)
	}
	for n := range have {
		panic("c08: type " + n + " has an UnmarshalTL but is not in the registry; run tools_gen_c08_registry.py")
	}
	return sc
}

// ---------------------------------------------------------------------------------------- descriptors

var unmarshalerTL = reflect.TypeOf((*tl.UnmarshalerTL)(nil)).Elem()
var int256Type = reflect.TypeOf(tl.Int256{})

func fieldByPath(t reflect.Type, path []string) reflect.Type {
	for _, p := range path {
		f, ok := t.FieldByName(p)
		if !ok {
			panic("c08: field " + p + " not found in " + t.String())
		}
		t = f.Type
	}
	return t
}

func (sc *tlSchema) fieldsDesc(t reflect.Type, fs []genField) string {
	var parts []string
	for _, f := range fs {
		ft := fieldByPath(t, f.Path)
		s := ""
		if f.Path[len(f.Path)-1] == "Mode" && f.Cond < 0 {
			s += "m"
		}
		if f.Cond >= 0 {
			s += "?" + strconv.Itoa(f.Cond) + ":"
			if ft.Kind() == reflect.Pointer {
				ft = ft.Elem() // var temp T; t.F = &temp
			}
		}
		parts = append(parts, s+sc.desc(ft))
	}
	return "T(" + strings.Join(parts, ",") + ")"
}

// desc: the shape of type t as tl.decode sees it (see lean/TongoModel/TlDecode.lean for the grammar)
func (sc *tlSchema) desc(t reflect.Type) string {
	if t == int256Type {
		return "H"
	}
	if reflect.PointerTo(t).Implements(unmarshalerTL) {
		if t.PkgPath() == "github.com/tonkeeper/tongo/liteclient" {
			if t.Name() == "LiteServerSignatureSet" {
				inner := reflect.TypeOf(liteclient.LiteServerSignatureSetC{})
				return "U(" + strconv.FormatUint(sc.SigTag, 10) + "=" + sc.desc(inner) + ")"
			}
			gt, ok := sc.Types[t.Name()]
			if !ok {
				panic("c08: no generated UnmarshalTL found for " + t.Name())
			}
			if gt.IsSum {
				var alts []string
				for _, a := range gt.Alts {
					alts = append(alts, strconv.FormatUint(a.Tag, 10)+"="+sc.fieldsDesc(t, a.Fields))
				}
				return "U(" + strings.Join(alts, ",") + ")"
			}
			return sc.fieldsDesc(t, gt.Fields)
		}
		panic("c08: type with a hand-written UnmarshalTL outside the model: " + t.String())
	}
	switch t.Kind() {
	case reflect.Uint32, reflect.Int32:
		return "i"
	case reflect.Uint64, reflect.Int64:
		return "l"
	case reflect.Bool:
		return "b"
	case reflect.String:
		return "B"
	case reflect.Slice:
		if t.Elem().Kind() == reflect.Uint8 {
			return "B"
		}
		return "V" + strconv.Itoa(int(t.Elem().Size())) + "(" + sc.desc(t.Elem()) + ")"
	case reflect.Array:
		if t.Elem().Kind() == reflect.Uint8 {
			return "A" + strconv.Itoa(t.Len())
		}
		return "X"
	case reflect.Pointer:
		return "P(" + sc.desc(t.Elem()) + ")"
	case reflect.Struct:
		if _, ok := t.FieldByName("SumType"); ok {
			var alts []string
			for i := 0; i < t.NumField(); i++ {
				f := t.Field(i)
				if f.Type.Name() == "SumType" {
					continue
				}
				tag := f.Tag.Get("tlSumType")
				if len(tag) == 8 {
					if v, err := strconv.ParseUint(tag, 16, 32); err == nil {
						alts = append(alts, strconv.FormatUint(v, 10)+"="+sc.desc(f.Type))
						continue
					}
				}
				alts = append(alts, "!="+sc.desc(f.Type))
			}
			return "U(" + strings.Join(alts, ",") + ")"
		}
		var parts []string
		for i := 0; i < t.NumField(); i++ {
			f := t.Field(i)
			if !f.IsExported() {
				parts = append(parts, "X") // "can't set field": an error before anything is read
				break
			}
			parts = append(parts, sc.desc(f.Type))
		}
		return "T(" + strings.Join(parts, ",") + ")"
	}
	return "X"
}

// ---------------------------------------------------------------------------------------- random values

func (gc *genCtx) tlBytes() []byte {
	g := gc.g
	var n int
	switch g.Rng.Intn(400) {
	case 0, 1, 2, 3, 4, 5, 6, 7, 8, 9:
		n = 253 + g.Rng.Intn(3) // around the 1-byte / 4-byte prefix switch
	case 10:
		n = 4090 + g.Rng.Intn(12) // around maxPrealloc
	case 11:
		n = 5000 + g.Rng.Intn(4000)
	case 12:
		n = 65536 + g.Rng.Intn(8) - 4
	default:
		if g.Rng.Intn(8) == 0 {
			n = 0
		} else {
			n = g.Rng.Intn(24)
		}
	}
	return g.Bytes(n)
}

// fillTL fills v (settable) with a random value whose TL encoding exists.
func (gc *genCtx) fillTL(v reflect.Value, depth int) {
	g := gc.g
	t := v.Type()
	switch t.Kind() {
	case reflect.Uint32, reflect.Uint64:
		v.SetUint(g.U64())
	case reflect.Int32, reflect.Int64:
		v.SetInt(int64(g.U64()))
	case reflect.Bool:
		v.SetBool(g.Rng.Intn(2) == 0)
	case reflect.String:
		v.SetString(string(gc.tlBytes()))
	case reflect.Slice:
		if t.Elem().Kind() == reflect.Uint8 {
			v.SetBytes(gc.tlBytes())
			return
		}
		n := g.Rng.Intn(4)
		if depth > 3 {
			n = g.Rng.Intn(2)
		}
		s := reflect.MakeSlice(t, n, n)
		for i := 0; i < n; i++ {
			gc.fillTL(s.Index(i), depth+1)
		}
		v.Set(s)
	case reflect.Array:
		for i := 0; i < v.Len(); i++ {
			gc.fillTL(v.Index(i), depth+1)
		}
	case reflect.Uint8:
		v.SetUint(uint64(g.Rng.Intn(256)))
	case reflect.Pointer:
		p := reflect.New(t.Elem())
		gc.fillTL(p.Elem(), depth+1)
		v.Set(p)
	case reflect.Struct:
		if sf, ok := t.FieldByName("SumType"); ok && sf.Type.Kind() == reflect.String {
			var idx []int
			for i := 0; i < t.NumField(); i++ {
				f := t.Field(i)
				if f.Type.Name() == "SumType" {
					continue
				}
				if tag := f.Tag.Get("tlSumType"); tag != "" && len(tag) != 8 {
					continue // malformed tag: cannot be encoded
				}
				idx = append(idx, i)
			}
			i := idx[g.Rng.Intn(len(idx))]
			v.FieldByName("SumType").SetString(t.Field(i).Name)
			gc.fillTL(v.Field(i), depth+1)
			return
		}
		for i := 0; i < t.NumField(); i++ {
			if !t.Field(i).IsExported() {
				continue
			}
			if t.Field(i).Name == "Mode" && t.Field(i).Type.Kind() == reflect.Uint32 {
				v.Field(i).SetUint(uint64(g.Rng.Intn(64)))
				continue
			}
			gc.fillTL(v.Field(i), depth+1)
		}
	}
}

func safeMarshalTL(o any) (b []byte, err error) {
	defer func() {
		if r := recover(); r != nil {
			err = fmt.Errorf("marshal panicked: %v", r)
		}
	}()
	return tl.Marshal(o)
}

// ---------------------------------------------------------------------------------------- generation

type genCtx struct {
	g        *h.G
	sc       *tlSchema
	noSeed   map[string]bool
	perType  map[string]int
	tlbStats map[string]*tlbStat
	// queued go.tlb.flags lines
	pendingFlags [][]string
}

var lenPatterns = [][]byte{
	{0xfe, 0xff, 0xff, 0xff}, // bytes: 2^24-1
	{0xff, 0xff, 0xff, 0xff}, // vector: 2^32-1 ; bytes: invalid prefix
	{0x00, 0x00, 0x01, 0x00}, // vector: 2^16
	{0xfe, 0x00, 0x00, 0x01}, // bytes: 2^16
	{0xfe, 0x01, 0x00, 0x01}, // bytes: 2^16+1
	{0x00, 0x00, 0x00, 0x01}, // vector: 2^24
	{0xff, 0xff, 0xff, 0x7f}, // vector: 2^31-1
	{0xfe, 0x01, 0x10, 0x00}, // bytes: 4097
	{0xfd, 0x00, 0x00, 0x00}, // bytes: 253
}

func (gc *genCtx) emitTL(name, desc string, bs []byte, kind string) {
	g := gc.g
	hx := h.Hex(bs)
	g.Emit("tld.dec", name, desc, hx)
	g.Emit("go.tl.safe", name, hx)
	g.Count("tl_" + kind)
	gc.perType[name]++
	if kind != "valid" {
		g.NonTrivial(name + hx)
	}
}

func (gc *genCtx) genTLType(r regType, perType int) {
	g := gc.g
	desc := gc.sc.desc(r.T)
	g.Emit("tld.consts", r.Name, desc)
	budget := perType
	seeds := 3
	valid := 0
	for s := 0; s < seeds && budget > 0; s++ {
		v := reflect.New(r.T)
		gc.fillTL(v.Elem(), 0)
		bs, err := safeMarshalTL(v.Elem().Interface())
		if err != nil {
			continue
		}
		valid++
		gc.emitTL(r.Name, desc, bs, "valid")
		budget--
		if len(bs) > 4096 {
			// a long encoding: a handful of mutants only (the lines are long)
			for k := 0; k < 3; k++ {
				gc.emitTL(r.Name, desc, bs[:g.Rng.Intn(len(bs))], "trunc")
				m := append([]byte{}, bs...)
				m[g.Rng.Intn(len(m))] ^= byte(1 << uint(g.Rng.Intn(8)))
				gc.emitTL(r.Name, desc, m, "flip")
			}
			continue
		}
		if r.Name == "g.Zero" {
			continue // zero-width elements: a huge count spins without reading (tl_steps_zero_width_elements); not mutated
		}
		// truncation: every offset when short, else a sample plus the boundaries
		offs := map[int]bool{}
		if len(bs) <= 48 {
			for i := 0; i < len(bs); i++ {
				offs[i] = true
			}
		} else {
			for i := 0; i < 12; i++ {
				offs[i] = true
				offs[len(bs)-1-i] = true
			}
			for i := 0; i < 16; i++ {
				offs[g.Rng.Intn(len(bs))] = true
			}
		}
		var ol []int
		for o := range offs {
			ol = append(ol, o)
		}
		sort.Ints(ol)
		if g.Thorough() {
			for _, o := range ol {
				gc.emitTL(r.Name, desc, bs[:o], "trunc")
			}
		} else {
			for k := 0; k < 14 && k < len(ol); k++ {
				gc.emitTL(r.Name, desc, bs[:ol[g.Rng.Intn(len(ol))]], "trunc")
			}
		}
		// length prefixes replaced at 4-aligned offsets (every TL field is 4-aligned)
		nAligned := len(bs)/4 + 1
		tries := g.Scale(12, 200)
		for k := 0; k < tries; k++ {
			off := 4 * g.Rng.Intn(nAligned)
			pat := lenPatterns[g.Rng.Intn(len(lenPatterns))]
			m := append([]byte{}, bs...)
			if off+4 > len(m) {
				m = append(m[:off], pat...)
			} else {
				copy(m[off:], pat)
			}
			if len(m) > 2048 && g.Rng.Intn(2) == 0 {
				m = m[:off+4+g.Rng.Intn(64)] // keep big inputs rare
			}
			gc.emitTL(r.Name, desc, m, "lenprefix")
		}
		// byte flips
		flips := g.Scale(6, 150)
		for k := 0; k < flips && len(bs) > 0; k++ {
			m := append([]byte{}, bs...)
			n := 1 + g.Rng.Intn(3)
			for j := 0; j < n; j++ {
				m[g.Rng.Intn(len(m))] ^= byte(1 << uint(g.Rng.Intn(8)))
			}
			gc.emitTL(r.Name, desc, m, "flip")
		}
	}
	if valid == 0 {
		gc.noSeed["tl:"+r.Name] = true
	}
	if r.Name == "g.Zero" {
		gc.emitTL(r.Name, desc, []byte{0, 4, 0, 0}, "lenprefix") // 2^10 empty structs
		return
	}
	// random bytes
	for k := 0; k < g.Scale(4, 100); k++ {
		gc.emitTL(r.Name, desc, g.Bytes(g.Pick(0, 1, 3, 4, 8, 36, 40, 100)), "random")
	}
	// MarshalTL with mode bits selecting nil optional pointers
	if r.T.Kind() != reflect.Struct {
		return
	}
	if _, ok := r.T.FieldByName("Mode"); ok {
		for m := 0; m < 8; m++ {
			g.Emit("go.tl.marshalnil", r.Name, strconv.Itoa(m))
		}
		g.Emit("go.tl.marshalnil", r.Name, "4294967295")
	}
}

func (gc *genCtx) genTL() {
	g := gc.g
	per := g.Scale(100, 3000)
	all := append(append([]regType{}, tlRegistry...), genericTL...)
	for _, r := range all {
		gc.genTLType(r, per)
		gc.emitPendingFlag()
		gc.emitPendingFlag()
	}
	// LiteapiRequestDecoder: every registered request tag x (valid body, truncations, length patterns), unknown tags, short input
	var tags []uint32
	for t := range gc.sc.Requests {
		tags = append(tags, t)
	}
	sort.Slice(tags, func(i, j int) bool { return tags[i] < tags[j] })
	emitReq := func(b []byte) {
		d := "-"
		if len(b) >= 4 {
			if n, ok := gc.sc.Requests[binary.LittleEndian.Uint32(b[:4])]; ok {
				d = gc.sc.desc(tlByName[n])
			}
		}
		g.Emit("tld.reqdec", d, h.Hex(b))
		g.Emit("go.tl.reqdec", h.Hex(b))
		g.Count("tl_reqdec")
	}
	for _, tag := range tags {
		rt := tlByName[gc.sc.Requests[tag]]
		for s := 0; s < g.Scale(2, 20); s++ {
			v := reflect.New(rt)
			gc.fillTL(v.Elem(), 0)
			body, err := safeMarshalTL(v.Elem().Interface())
			if err != nil || len(body) > 4096 {
				continue
			}
			b := binary.LittleEndian.AppendUint32(nil, tag)
			b = append(b, body...)
			emitReq(b)
			for k := 0; k < g.Scale(4, 40); k++ {
				emitReq(b[:g.Rng.Intn(len(b)+1)])
			}
			for k := 0; k < g.Scale(3, 30) && len(b) >= 8; k++ {
				m := append([]byte{}, b...)
				off := 4 + 4*g.Rng.Intn((len(m)-4)/4)
				copy(m[off:], lenPatterns[g.Rng.Intn(len(lenPatterns))])
				emitReq(m)
			}
		}
	}
	for k := 0; k < g.Scale(20, 300); k++ {
		emitReq(g.Bytes(g.Pick(0, 1, 3, 4, 5, 8, 40)))
	}
	// ADNL helpers
	for k := 0; k < g.Scale(300, 5000); k++ {
		var b []byte
		switch g.Rng.Intn(6) {
		case 0:
			b = g.Bytes(g.Rng.Intn(6))
		case 1:
			b = append([]byte{254}, g.Bytes(g.Rng.Intn(5))...)
		case 2:
			b = append([]byte{255}, g.Bytes(g.Rng.Intn(5))...)
		case 3:
			b = append([]byte{byte(250 + g.Rng.Intn(6))}, g.Bytes(g.Rng.Intn(8))...)
		default:
			b = g.Bytes(g.Rng.Intn(12))
		}
		g.Emit("tld.len", h.Hex(b))
		g.NonTrivial("len" + h.Hex(b))
	}
	for k := 0; k < g.Scale(400, 6000); k++ {
		// payload = 4 magic + 32 id + length prefix + data (+ padding), mutated
		n := g.Pick(0, 1, 5, 100, 253, 254, 255, 300)
		p := append(g.Bytes(36), tl.EncodeLength(n)...)
		p = append(p, g.Bytes(n+g.Rng.Intn(4))...)
		switch g.Rng.Intn(5) {
		case 0:
			p = p[:g.Rng.Intn(len(p)+1)]
		case 1:
			if len(p) > 36 {
				p[36] = byte(g.Pick(253, 254, 255, 0))
			}
		case 2:
			if len(p) > 40 {
				copy(p[36:], lenPatterns[g.Rng.Intn(len(lenPatterns))])
			}
		}
		known := "1"
		if g.Rng.Intn(4) == 0 {
			known = "0"
		}
		g.Emit("tld.pqa", known, h.Hex(p))
		g.NonTrivial("pqa" + h.Hex(p))
	}
}

// ---------------------------------------------------------------------------------------- execution

func totalAlloc() uint64 {
	var m runtime.MemStats
	runtime.ReadMemStats(&m)
	return m.TotalAlloc
}

// allocBudget: what a decoder may allocate for an input of n bytes
func allocBudget(n int) uint64 { return 64*uint64(n) + 1<<20 }

func allocClass(delta uint64, n int) string {
	if delta > allocBudget(n) {
		return "big"
	}
	return "small"
}

func exTLDec(a []string) (ans string) {
	t, ok := tlByName[a[0]]
	if !ok {
		return "bad-op"
	}
	bs := h.MustUnHex(a[2])
	r := bytes.NewReader(bs)
	v := reflect.New(t)
	a0 := totalAlloc()
	err := tl.Unmarshal(r, v.Interface())
	d := totalAlloc() - a0
	c := strconv.Itoa(len(bs)-r.Len()) + " " + allocClass(d, len(bs))
	if err != nil {
		return "err " + c
	}
	return "ok " + c
}

func goTLSafe(a []string) string {
	return retrySlow(func() string { return goTLSafeOnce(a) })
}

func goTLSafeOnce(a []string) (ans string) {
	t, ok := tlByName[a[0]]
	if !ok {
		return "bad-op"
	}
	bs := h.MustUnHex(a[1])
	defer func() {
		if r := recover(); r != nil {
			ans = fmt.Sprintf("FAIL panic %v", r)
		}
	}()
	v := reflect.New(t)
	a0 := totalAlloc()
	t0 := time.Now()
	_ = tl.Unmarshal(bytes.NewReader(bs), v.Interface())
	dt := time.Since(t0)
	d := totalAlloc() - a0
	if d > allocBudget(len(bs)) {
		return fmt.Sprintf("FAIL alloc %d bytes allocated for %d bytes of input", d, len(bs))
	}
	if dt > 200*time.Millisecond+time.Duration(len(bs))*20*time.Microsecond {
		return fmt.Sprintf("FAIL slow %v for %d bytes of input", dt, len(bs))
	}
	return "ok"
}

func goTLMarshalNil(a []string) (ans string) {
	t, ok := tlByName[a[0]]
	if !ok {
		return "bad-op"
	}
	mode, _ := strconv.ParseUint(a[1], 10, 32)
	defer func() {
		if r := recover(); r != nil {
			ans = fmt.Sprintf("FAIL panic %v", r)
		}
	}()
	v := reflect.New(t).Elem()
	v.FieldByName("Mode").SetUint(mode)
	_, _ = tl.Marshal(v.Interface())
	return "ok"
}

func exTLReqDec(a []string) string {
	b := h.MustUnHex(a[1])
	tag, name, _, err := liteclient.LiteapiRequestDecoder(b)
	if err != nil {
		return "err"
	}
	known := "1"
	if name == nil || *name == liteclient.UnknownRequest {
		known = "0"
	}
	return fmt.Sprintf("ok %d %s", tag, known)
}

func goTLReqDec(a []string) (ans string) {
	b := h.MustUnHex(a[0])
	defer func() {
		if r := recover(); r != nil {
			ans = fmt.Sprintf("FAIL panic %v", r)
		}
	}()
	a0 := totalAlloc()
	_, name, val, err := liteclient.LiteapiRequestDecoder(b)
	d := totalAlloc() - a0
	if d > allocBudget(len(b)) {
		return fmt.Sprintf("FAIL alloc %d bytes allocated for %d bytes of input", d, len(b))
	}
	if err == nil && name == nil {
		return "FAIL no-name"
	}
	if err == nil && *name != liteclient.UnknownRequest && val == nil {
		return "FAIL known-request-without-value"
	}
	return "ok"
}

func exTLLen(a []string) string {
	n, p, err := liteclient.VerifDecodeLength(h.MustUnHex(a[0]))
	if err != nil {
		return "err"
	}
	return fmt.Sprintf("ok %d %d", n, p)
}

func exTLPqa(a []string) string {
	d, ok, err := liteclient.VerifProcessQueryAnswer(h.MustUnHex(a[1]), a[0] == "1")
	if err != nil {
		return "err"
	}
	if !ok {
		return "FAIL answer-not-delivered"
	}
	return "ok " + h.Hex(d)
}

// tl.consts is answered by the model only (constants of the proved bounds for this descriptor); the Go side echoes
// the line's expectation: the descriptor must be well formed.
func exTLConsts(a []string) string {
	if a[0] == "g.Zero" {
		return "ok notwf" // a vector of zero-width elements: outside the hypothesis of the step bound
	}
	return "ok wf"
}
