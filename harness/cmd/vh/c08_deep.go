//go:build c08

package main

// C08: deep, well-formed inputs built by the executor itself (the tables would be megabytes): a VM stack of depth d,
// a comb-shaped BinTree of depth d, a snake of d cells — decoders that copy their partial results at every level of a
// recursion are quadratic in d.

import (
	"fmt"
	"strconv"
	"time"

	"github.com/tonkeeper/tongo/boc"
	"github.com/tonkeeper/tongo/tlb"
	"verifharness/h"
)

func deepVmStack(d int) *boc.Cell {
	top := boc.NewCell()
	_ = top.WriteUint(uint64(d), 24)
	cur := top
	for i := 0; i < d; i++ {
		rest := boc.NewCell()
		_ = cur.AddRef(rest)
		_ = cur.WriteUint(1, 8) // vm_stk_tinyint
		_ = cur.WriteUint(uint64(i), 64)
		cur = rest
	}
	return top
}

func deepComb(d int, left bool) *boc.Cell {
	leaf := func() *boc.Cell { c := boc.NewCell(); _ = c.WriteBit(false); return c }
	cur := leaf()
	for i := 0; i < d; i++ {
		c := boc.NewCell()
		_ = c.WriteBit(true)
		if left {
			_ = c.AddRef(cur)
			_ = c.AddRef(leaf())
		} else {
			_ = c.AddRef(leaf())
			_ = c.AddRef(cur)
		}
		cur = c
	}
	return cur
}

func deepSnake(d int) *boc.Cell {
	var next *boc.Cell
	for i := 0; i < d; i++ {
		c := boc.NewCell()
		for j := 0; j < 127; j++ {
			_ = c.WriteUint(uint64('a'+j%26), 8)
		}
		if next != nil {
			_ = c.AddRef(next)
		}
		next = c
	}
	return next
}

// go.tlb.deep <kind> <depth>
func goTLBDeep(a []string) string {
	return retrySlow(func() string { return goTLBDeepOnce(a) })
}

func goTLBDeepOnce(a []string) (res string) {
	d, _ := strconv.Atoi(a[1])
	defer func() {
		if r := recover(); r != nil {
			res = fmt.Sprintf("FAIL panic %v", r)
		}
	}()
	var c *boc.Cell
	var run func() error
	cells := d
	switch a[0] {
	case "vmstack":
		c = deepVmStack(d)
		cells = d + 1
		run = func() error { var s tlb.VmStack; return tlb.Unmarshal(c, &s) }
	case "bintree", "bintree-left":
		c = deepComb(d, a[0] == "bintree-left")
		cells = 2*d + 1
		run = func() error { var b tlb.BinTree[struct{}]; return tlb.Unmarshal(c, &b) }
	case "snake":
		c = deepSnake(d)
		run = func() error { var t tlb.Text; return tlb.Unmarshal(c, &t) }
	default:
		return "bad-op"
	}
	size := uint64(cells) * 160
	a0 := totalAlloc()
	t0 := time.Now()
	err := run()
	dt := time.Since(t0)
	al := totalAlloc() - a0
	if err != nil {
		return "FAIL harness: well-formed deep input rejected: " + err.Error()
	}
	if al > 64*size+1<<20 {
		return fmt.Sprintf("FAIL alloc %d bytes allocated for %s of depth %d (%d cells)", al, a[0], d, cells)
	}
	if dt > 200*time.Millisecond+time.Duration(cells)*50*time.Microsecond {
		return fmt.Sprintf("FAIL slow %v for %s of depth %d (%d cells)", dt, a[0], d, cells)
	}
	return "ok"
}

func (gc *genCtx) genDeep() {
	g := gc.g
	for _, k := range []string{"vmstack", "bintree", "bintree-left", "snake"} {
		ds := []int{0, 1, 2, 50, 300, 1000, g.Scale(2500, 6000)}
		if k == "bintree" || k == "bintree-left" {
			ds = []int{0, 1, 2, 50, 1000, 8000, 16000} // the copies are pointers: the blow-up shows from ~8000 levels
		}
		for _, d := range ds {
			if d == 0 && k == "snake" {
				continue
			}
			g.Emit("go.tlb.deep", k, strconv.Itoa(d))
		}
	}
	_ = h.Hex
}
