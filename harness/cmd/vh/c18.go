//go:build c18

package main

import (
	"bytes"
	"fmt"
	"math/bits"
	"sort"
	"strconv"
	"strings"

	"github.com/tonkeeper/tongo/boc"
	"github.com/tonkeeper/tongo/tlb"
	"verifharness/h"
)

func init() {
	h.Register(&h.Prop{ID: "C18", Gen: genC18, Exec: withCells(map[string]h.ExecFn{
		"mk.prune": execPrune,
		"mk.prove": execProve,
		"go.prune": goPrune,
		"go.prove": goProve,
	})})
}

// ------------------------------------------------------------------------------------------------- helpers

func parsePaths(s string) [][]int {
	if s == "-" {
		return nil
	}
	var out [][]int
	for _, p := range strings.Split(s, "/") {
		var path []int
		if p != "r" {
			for _, x := range strings.Split(p, ".") {
				v, _ := strconv.Atoi(x)
				path = append(path, v)
			}
		}
		out = append(out, path)
	}
	return out
}

func pathsString(ps [][]int) string {
	if len(ps) == 0 {
		return "-"
	}
	ss := make([]string, len(ps))
	for i, p := range ps {
		if len(p) == 0 {
			ss[i] = "r"
			continue
		}
		xs := make([]string, len(p))
		for j, x := range p {
			xs[j] = strconv.Itoa(x)
		}
		ss[i] = strings.Join(xs, ".")
	}
	return strings.Join(ss, "/")
}

func bitsOfString(s string) []bool {
	if s == "-" {
		return nil
	}
	out := make([]bool, len(s))
	for i := range s {
		out[i] = s[i] == '1'
	}
	return out
}

func bitStringOf(bs []bool) boc.BitString {
	b := boc.NewBitString(len(bs))
	for _, x := range bs {
		b.WriteBit(x)
	}
	return b
}

func binString(bs []bool) string {
	if len(bs) == 0 {
		return "-"
	}
	var sb strings.Builder
	for _, b := range bs {
		if b {
			sb.WriteByte('1')
		} else {
			sb.WriteByte('0')
		}
	}
	return sb.String()
}

func rowBits(r h.Row) []bool {
	out := make([]bool, r.BitLen)
	for i := range out {
		out[i] = r.Data[i/8]>>(7-uint(i%8))&1 == 1
	}
	return out
}

// runPrune drives NewMerkleProver / Cursor / CreateProof on the real code.
func runPrune(t []h.Row, paths [][]int) ([]byte, error) {
	cs := h.BuildCells(t)
	prover, err := boc.NewMerkleProver(cs[0])
	if err != nil {
		return nil, err
	}
	cursor := prover.Cursor()
	for _, p := range paths {
		c := cursor
		for _, i := range p {
			c = c.Ref(i)
		}
		c.Prune()
	}
	return prover.CreateProof(cursor)
}

func canonOfBoc(b []byte) (string, []h.Row, error) {
	roots, err := boc.DeserializeBoc(b)
	if err != nil {
		return "", nil, err
	}
	if len(roots) != 1 {
		return "", nil, fmt.Errorf("%d roots", len(roots))
	}
	s := h.Canon(roots)
	return s, h.ParseTable(strings.Fields(s)[0]), nil
}

// mk.prune <table> <paths> -> "ok <canonical table of the parsed proof> 0" | err
func execPrune(a []string) string {
	proof, err := runPrune(h.ParseTable(a[0]), parsePaths(a[1]))
	if err != nil {
		return "err"
	}
	s, _, err := canonOfBoc(proof)
	if err != nil {
		return "FAIL proof-does-not-parse"
	}
	return "ok " + s
}

// proveWith runs tlb.ProveKeyInHashmap with the value type selected by its width; returns the value's bits.
func proveWith(vbits int, root *boc.Cell, key boc.BitString) ([]bool, []byte, error) {
	prover, err := boc.NewMerkleProver(root)
	if err != nil {
		return nil, nil, err
	}
	var v any
	var proof []byte
	switch vbits {
	case 8:
		v, proof, err = tlb.ProveKeyInHashmap[tlb.Uint8](prover, root, key)
	case 32:
		v, proof, err = tlb.ProveKeyInHashmap[tlb.Uint32](prover, root, key)
	case 64:
		v, proof, err = tlb.ProveKeyInHashmap[tlb.Uint64](prover, root, key)
	case 256:
		v, proof, err = tlb.ProveKeyInHashmap[tlb.Bits256](prover, root, key)
	default:
		panic("unsupported value width")
	}
	if err != nil {
		return nil, nil, err
	}
	c := boc.NewCell()
	if err := tlb.Marshal(c, v); err != nil {
		return nil, nil, err
	}
	r := h.RowOf(c)
	return rowBits(r), proof, nil
}

// mk.prove <key bits> <value width> <table> -> "ok <value bits> <canonical table of the parsed proof> 0" | err
func execProve(a []string) string {
	key := bitStringOf(bitsOfString(a[0]))
	vbits, _ := strconv.Atoi(a[1])
	cs := h.BuildCells(h.ParseTable(a[2]))
	val, proof, err := proveWith(vbits, cs[0], key)
	if err != nil {
		return "err"
	}
	s, _, err := canonOfBoc(proof)
	if err != nil {
		return "FAIL proof-does-not-parse"
	}
	return "ok " + binString(val) + " " + s
}

// ------------------------------------------------------------------------------------------- direct oracles

// checkProof checks a parsed proof against the original tree, using only the definition of the hash (SpecHasher).
// pathPruned tells which positions of the original were requested to be pruned (nil: unknown, only consistency is checked).
func checkProof(orig []h.Row, proof []h.Row) string {
	so, sp := h.NewSpecHasher(orig), h.NewSpecHasher(proof)
	root := proof[0]
	if root.Ty != 3 || root.Mask != 0 || root.BitLen != 8+256+16 || len(root.Refs) != 1 || root.Data[0] != 3 {
		return "FAIL proof-root-is-not-a-merkle-proof-cell"
	}
	committedHash := root.Data[1:33]
	committedDepth := int(root.Data[33])<<8 | int(root.Data[34])
	if !bytes.Equal(committedHash, so.Hash(0, 0)) {
		return "FAIL committed-hash-is-not-the-original-root-hash"
	}
	if committedDepth != so.Depth(0, 0) {
		return "FAIL committed-depth-is-not-the-original-root-depth"
	}
	child := root.Refs[0]
	if !bytes.Equal(sp.Hash(child, 0), committedHash) {
		return "FAIL child-level0-hash-differs-from-committed-hash"
	}
	if sp.Depth(child, 0) != committedDepth {
		return "FAIL child-level0-depth-differs-from-committed-depth"
	}
	if !h.WFExotic(proof) {
		return "FAIL proof-violates-exotic-cell-rules"
	}
	// walk proof and original in parallel
	budget := 200000
	var walk func(p, o int) string
	walk = func(p, o int) string {
		budget--
		if budget < 0 {
			return ""
		}
		pr, or := proof[p], orig[o]
		if pr.Ty == 1 && !(or.Ty == 1 && pr.String() == rowNoRefs(or)) {
			// a pruned branch created by the prover
			if pr.Mask != 1 || pr.BitLen != 8+8+256+16 || len(pr.Refs) != 0 || pr.Data[0] != 1 || pr.Data[1] != 1 {
				return "FAIL malformed-pruned-branch"
			}
			if !bytes.Equal(pr.Data[2:34], so.Hash(o, 0)) {
				return "FAIL pruned-branch-does-not-store-the-hash-of-what-it-replaces"
			}
			if int(pr.Data[34])<<8|int(pr.Data[35]) != so.Depth(o, 0) {
				return "FAIL pruned-branch-does-not-store-the-depth-of-what-it-replaces"
			}
			return ""
		}
		if pr.Ty != or.Ty || pr.BitLen != or.BitLen || !bytes.Equal(pr.Data, or.Data) || len(pr.Refs) != len(or.Refs) {
			return "FAIL kept-cell-differs-from-original"
		}
		for i := range pr.Refs {
			if r := walk(pr.Refs[i], or.Refs[i]); r != "" {
				return r
			}
		}
		return ""
	}
	if r := walk(child, 0); r != "" {
		return r
	}
	// the library's own accessors and decoder of the proof cell report what the cell commits to
	{
		pc := h.BuildCells(proof)[0]
		mr, err := pc.GetMerkleRoot()
		if err != nil || !bytes.Equal(mr[:], so.Hash(0, 0)) {
			return "FAIL GetMerkleRoot-is-not-the-original-root-hash"
		}
		pc.ResetCounters()
		var mp tlb.MerkleProof[tlb.Any]
		if err := tlb.Unmarshal(pc, &mp); err != nil {
			if proof[child].Ty != 2 { // a library cell as virtual root needs a resolver
				return "FAIL tlb.MerkleProof-does-not-decode-the-proof"
			}
		} else if !bytes.Equal(mp.VirtualHash[:], so.Hash(0, 0)) || int(mp.Depth) != so.Depth(0, 0) {
			return "FAIL tlb.MerkleProof-virtual-hash-or-depth-differs-from-the-original-root"
		}
	}
	// the real code's hash of the parsed proof agrees with the definition (C02 on cells made by the proof builder)
	cs := h.BuildCells(proof)
	hs, ds, err := boc.VerifHashLevels(cs[0])
	if err != nil {
		return "FAIL proof-does-not-hash"
	}
	for l := 0; l < 4; l++ {
		if !bytes.Equal(hs[l], sp.Hash(0, l)) || ds[l] != sp.Depth(0, l) {
			return "FAIL proof-hash-differs-from-definition"
		}
	}
	return "ok"
}

func rowNoRefs(r h.Row) string { r.Refs = nil; return r.String() }

// prunedAt reports whether the proof has a (prover-made) pruned branch at the given path below its child.
func cellAtPath(t []h.Row, root int, path []int) (int, bool) {
	i := root
	for _, k := range path {
		if k >= len(t[i].Refs) {
			return 0, false
		}
		i = t[i].Refs[k]
	}
	return i, true
}

// go.prune <table> <paths>: proof through the cursor API commits to the original and stores the right hashes;
// requested positions are pruned (unless an ancestor is).
func goPrune(a []string) string {
	t := h.ParseTable(a[0])
	paths := parsePaths(a[1])
	proofBytes, err := runPrune(t, paths)
	if err != nil {
		return "FAIL create-proof-error"
	}
	_, proof, err := canonOfBoc(proofBytes)
	if err != nil {
		return "FAIL proof-does-not-parse"
	}
	if r := checkProof(t, proof); r != "ok" {
		return r
	}
	for _, p := range paths {
		// walk the proof along p: either we meet a pruned branch on the way, or the cell at p is one
		i := proof[0].Refs[0]
		met := proof[i].Ty == 1
		for _, k := range p {
			if met {
				break
			}
			if k >= len(proof[i].Refs) {
				return "FAIL proof-lost-a-ref"
			}
			i = proof[i].Refs[k]
			met = proof[i].Ty == 1
		}
		if !met {
			return "FAIL requested-position-not-pruned"
		}
	}
	return "ok"
}

// independent dictionary lookup on a table (TON specification; labels must match the key)
func dictLookup(t []h.Row, i int, n int, key []bool) ([]bool, bool) {
	for {
		r := t[i]
		if r.Ty != 0 {
			return nil, false
		}
		bs := rowBits(r)
		label, rest, ok := loadLabel(n, bs)
		if !ok || len(label) > n || len(label) > len(key) {
			return nil, false
		}
		for j := range label {
			if label[j] != key[j] {
				return nil, false
			}
		}
		if len(label) == n {
			return rest, true
		}
		key = key[len(label):]
		if len(key) == 0 {
			return nil, false
		}
		b := 0
		if key[0] {
			b = 1
		}
		if b >= len(r.Refs) {
			return nil, false
		}
		i = r.Refs[b]
		n = n - len(label) - 1
		key = key[1:]
	}
}

func loadLabel(n int, bs []bool) (label, rest []bool, ok bool) {
	if len(bs) < 1 {
		return nil, nil, false
	}
	if !bs[0] { // hml_short
		k := 1
		ln := 0
		for {
			if k >= len(bs) {
				return nil, nil, false
			}
			if !bs[k] {
				k++
				break
			}
			ln++
			k++
		}
		if len(bs)-k < ln {
			return nil, nil, false
		}
		return bs[k : k+ln], bs[k+ln:], true
	}
	if len(bs) < 2 {
		return nil, nil, false
	}
	w := bits.Len(uint(n))
	readN := func(from int) (int, bool) {
		if len(bs)-from < w {
			return 0, false
		}
		v := 0
		for j := 0; j < w; j++ {
			v <<= 1
			if bs[from+j] {
				v |= 1
			}
		}
		return v, true
	}
	if !bs[1] { // hml_long
		ln, ok := readN(2)
		if !ok || len(bs)-2-w < ln {
			return nil, nil, false
		}
		return bs[2+w : 2+w+ln], bs[2+w+ln:], true
	}
	if len(bs) < 3 { // hml_same
		return nil, nil, false
	}
	ln, ok := readN(3)
	if !ok {
		return nil, nil, false
	}
	label = make([]bool, ln)
	for j := range label {
		label[j] = bs[2]
	}
	return label, bs[3+w:], true
}

// go.prove <key bits> <value width> <present 0|1> <table>
func goProve(a []string) string {
	keyBits := bitsOfString(a[0])
	vbits, _ := strconv.Atoi(a[1])
	present := a[2] == "1"
	t := h.ParseTable(a[3])
	cs := h.BuildCells(t)
	val, proofBytes, err := proveWith(vbits, cs[0], bitStringOf(keyBits))
	want, found := dictLookup(t, 0, len(keyBits), keyBits)
	if found != present {
		return "FAIL harness-lookup-disagrees-with-generator"
	}
	if !present {
		if err == nil {
			return "FAIL absent-key-yields-a-proof"
		}
		return "ok"
	}
	if err != nil {
		return "FAIL present-key-yields-an-error"
	}
	if len(want) < vbits || binString(val) != binString(want[:vbits]) {
		return "FAIL returned-value-differs-from-the-dictionary"
	}
	_, proof, err := canonOfBoc(proofBytes)
	if err != nil {
		return "FAIL proof-does-not-parse"
	}
	if r := checkProof(t, proof); r != "ok" {
		return r
	}
	// the value can be decoded from the proof alone (independent lookup under the Merkle-proof cell)
	got, ok := dictLookup(proof, proof[0].Refs[0], len(keyBits), keyBits)
	if !ok || len(got) < vbits || binString(got[:vbits]) != binString(want[:vbits]) {
		return "FAIL value-not-decodable-from-the-proof"
	}
	// ... and by the library's own dictionary decoder
	if r := libDecode(len(keyBits), vbits, h.BuildCells(proof)[proof[0].Refs[0]], keyBits, want[:vbits]); r != "" {
		return r
	}
	return "ok"
}

type fixedKey interface {
	comparable
	FixedSize() int
	Equal(other any) bool
	Compare(other any) (int, bool)
}

func libDecodeKV[K fixedKey, V any](c *boc.Cell, keyBits []bool, want []bool) string {
	var hm tlb.Hashmap[K, V]
	if err := tlb.Unmarshal(c, &hm); err != nil {
		return "FAIL library-decoder-rejects-the-proof"
	}
	for i, k := range hm.Keys() {
		kc := boc.NewCell()
		if err := tlb.Marshal(kc, k); err != nil {
			return "FAIL key-marshal"
		}
		if binString(rowBits(h.RowOf(kc))) == binString(keyBits) {
			vc := boc.NewCell()
			tlb.Marshal(vc, hm.Values()[i])
			if binString(rowBits(h.RowOf(vc))) != binString(want) {
				return "FAIL library-decoder-finds-a-different-value"
			}
			return ""
		}
	}
	return "FAIL library-decoder-does-not-find-the-key-in-the-proof"
}

func libDecode(kbits, vbits int, c *boc.Cell, keyBits, want []bool) string {
	if k, ok := oddKinds[kbits]; ok && vbits == 32 && kbits%8 != 0 {
		return k.decode(c, keyBits, want)
	}
	switch [2]int{kbits, vbits} {
	case [2]int{8, 32}:
		return libDecodeKV[tlb.Uint8, tlb.Uint32](c, keyBits, want)
	case [2]int{16, 32}:
		return libDecodeKV[tlb.Uint16, tlb.Uint32](c, keyBits, want)
	case [2]int{32, 32}:
		return libDecodeKV[tlb.Uint32, tlb.Uint32](c, keyBits, want)
	case [2]int{64, 32}:
		return libDecodeKV[tlb.Uint64, tlb.Uint32](c, keyBits, want)
	case [2]int{256, 32}:
		return libDecodeKV[tlb.Bits256, tlb.Uint32](c, keyBits, want)
	case [2]int{8, 8}:
		return libDecodeKV[tlb.Uint8, tlb.Uint8](c, keyBits, want)
	case [2]int{16, 64}:
		return libDecodeKV[tlb.Uint16, tlb.Uint64](c, keyBits, want)
	case [2]int{32, 256}:
		return libDecodeKV[tlb.Uint32, tlb.Bits256](c, keyBits, want)
	case [2]int{64, 64}:
		return libDecodeKV[tlb.Uint64, tlb.Uint64](c, keyBits, want)
	case [2]int{256, 256}:
		return libDecodeKV[tlb.Bits256, tlb.Bits256](c, keyBits, want)
	}
	return ""
}

// ------------------------------------------------------------------------------------------------ generator

// buildDict builds the dictionary with the real tlb.HashmapE and returns the table of the Hashmap root cell.
func buildDictKV[K fixedKey, V any](keys []K, vals []V) []h.Row {
	hm := tlb.NewHashmapE(keys, vals)
	c := boc.NewCell()
	if err := tlb.Marshal(c, hm); err != nil {
		panic("marshal dictionary: " + err.Error())
	}
	root := c.Refs()[0]
	return h.ParseTable(strings.Fields(h.Canon([]*boc.Cell{root}))[0])
}

func natBits(v uint64, n int) []bool {
	out := make([]bool, n)
	for i := 0; i < n; i++ {
		out[i] = v>>(uint(n-1-i))&1 == 1
	}
	return out
}

func bytesBits(b []byte) []bool {
	out := make([]bool, len(b)*8)
	for i := range out {
		out[i] = b[i/8]>>(7-uint(i%8))&1 == 1
	}
	return out
}

type dictCase struct {
	kbits, vbits int
	table        []h.Row
	keys         [][]bool
}

// randKeys: n distinct keys of the given width, sorted as bit strings; clustered so that long common prefixes,
// hml_same labels and sibling leaves with equal suffixes occur.
func randKeys(g *h.G, kbits, n int) [][]byte {
	nb := kbits / 8
	seen := map[string]bool{}
	var out [][]byte
	base := g.Bytes(nb)
	mode := g.Rng.Intn(4)
	if kbits == 8 && n > 256 {
		n = 256
	}
	for tries := 0; len(out) < n; tries++ {
		if tries > 20*n+100 {
			mode = 0 // the clustered modes ran out of distinct keys
		}
		k := make([]byte, nb)
		switch mode {
		case 0: // uniform
			g.Rng.Read(k)
		case 1: // small numbers
			v := uint64(g.Rng.Intn(4 * n))
			for i := 0; i < nb && i < 8; i++ {
				k[nb-1-i] = byte(v >> (8 * uint(i)))
			}
		case 2: // cluster around a base: flip a few bits
			copy(k, base)
			for f := g.Rng.Intn(4); f >= 0; f-- {
				b := g.Rng.Intn(kbits)
				k[b/8] ^= 1 << uint(7-b%8)
			}
		default: // all zeros / all ones runs
			fill := byte(0)
			if g.Rng.Intn(2) == 0 {
				fill = 0xff
			}
			for i := range k {
				k[i] = fill
			}
			b := g.Rng.Intn(kbits)
			k[b/8] ^= 1 << uint(7-b%8)
			if g.Rng.Intn(2) == 0 {
				b := g.Rng.Intn(kbits)
				k[b/8] ^= 1 << uint(7-b%8)
			}
		}
		if !seen[string(k)] {
			seen[string(k)] = true
			out = append(out, k)
		}
	}
	sort.Slice(out, func(i, j int) bool { return bytes.Compare(out[i], out[j]) < 0 })
	return out
}

func be(b []byte) uint64 {
	var v uint64
	for _, x := range b {
		v = v<<8 | uint64(x)
	}
	return v
}

func makeDict(g *h.G, kbits, vbits, n int) dictCase {
	keys := randKeys(g, kbits, n)
	n = len(keys)
	// values from a small domain half of the time, so that equal leaves occur
	small := g.Rng.Intn(2) == 0
	val := func() uint64 {
		if small {
			return uint64(g.Rng.Intn(3))
		}
		return g.Rng.Uint64()
	}
	dc := dictCase{kbits: kbits, vbits: vbits}
	for _, k := range keys {
		dc.keys = append(dc.keys, bytesBits(k))
	}
	mk := func() (any, any) { return nil, nil }
	_ = mk
	u8 := func() []tlb.Uint8 {
		o := make([]tlb.Uint8, n)
		for i := range o {
			o[i] = tlb.Uint8(val())
		}
		return o
	}
	u32 := func() []tlb.Uint32 {
		o := make([]tlb.Uint32, n)
		for i := range o {
			o[i] = tlb.Uint32(val())
		}
		return o
	}
	u64 := func() []tlb.Uint64 {
		o := make([]tlb.Uint64, n)
		for i := range o {
			o[i] = tlb.Uint64(val())
		}
		return o
	}
	b256 := func() []tlb.Bits256 {
		o := make([]tlb.Bits256, n)
		for i := range o {
			if small {
				o[i][31] = byte(g.Rng.Intn(3))
			} else {
				g.Rng.Read(o[i][:])
			}
		}
		return o
	}
	k8 := make([]tlb.Uint8, n)
	k16 := make([]tlb.Uint16, n)
	k32 := make([]tlb.Uint32, n)
	k64 := make([]tlb.Uint64, n)
	k256 := make([]tlb.Bits256, n)
	for i, k := range keys {
		switch kbits {
		case 8:
			k8[i] = tlb.Uint8(be(k))
		case 16:
			k16[i] = tlb.Uint16(be(k))
		case 32:
			k32[i] = tlb.Uint32(be(k))
		case 64:
			k64[i] = tlb.Uint64(be(k))
		case 256:
			copy(k256[i][:], k)
		}
	}
	switch [2]int{kbits, vbits} {
	case [2]int{8, 32}:
		dc.table = buildDictKV(k8, u32())
	case [2]int{16, 32}:
		dc.table = buildDictKV(k16, u32())
	case [2]int{32, 32}:
		dc.table = buildDictKV(k32, u32())
	case [2]int{64, 32}:
		dc.table = buildDictKV(k64, u32())
	case [2]int{256, 32}:
		dc.table = buildDictKV(k256, u32())
	case [2]int{8, 8}:
		dc.table = buildDictKV(k8, u8())
	case [2]int{16, 64}:
		dc.table = buildDictKV(k16, u64())
	case [2]int{32, 256}:
		dc.table = buildDictKV(k32, b256())
	case [2]int{64, 64}:
		dc.table = buildDictKV(k64, u64())
	case [2]int{256, 256}:
		dc.table = buildDictKV(k256, b256())
	default:
		panic("no such dictionary type")
	}
	return dc
}

var dictTypes = [][2]int{{8, 32}, {16, 32}, {32, 32}, {64, 32}, {256, 32}, {8, 8}, {16, 64}, {32, 256}, {64, 64}, {256, 256}}

func absentKeys(g *h.G, dc dictCase, n int) [][]bool {
	have := map[string]bool{}
	for _, k := range dc.keys {
		have[binString(k)] = true
	}
	var out [][]bool
	for tries := 0; len(out) < n && tries < 50*n; tries++ {
		var k []bool
		if g.Rng.Intn(2) == 0 && len(dc.keys) > 0 {
			// a present key with one or two bits flipped (shares a long path with it)
			k = append([]bool{}, dc.keys[g.Rng.Intn(len(dc.keys))]...)
			for f := g.Rng.Intn(2); f >= 0; f-- {
				b := g.Rng.Intn(len(k))
				k[b] = !k[b]
			}
		} else {
			k = bytesBits(g.Bytes(dc.kbits / 8))
		}
		if !have[binString(k)] {
			have[binString(k)] = true
			out = append(out, k)
		}
	}
	return out
}

func genC18(g *h.G) {
	genPrim(g, "prim.sha256")
	// dictionaries
	budget := g.Scale(1100, 30000)
	proofs := 0
	for d := 0; proofs < budget; d++ {
		ty := dictTypes[d%len(dictTypes)]
		n := g.Pick(1, 1, 2, 2, 3, 4, 5, 8, 13, 20, 40, 80, 150, 300)
		if !g.Thorough() && d%7 != 0 && n > 40 {
			n = g.Pick(2, 3, 5, 8, 16, 30)
		}
		dc := makeDict(g, ty[0], ty[1], n)
		ts := h.TableString(dc.table)
		g.Count(fmt.Sprintf("dict_k%d_v%d", ty[0], ty[1]))
		g.Count(fmt.Sprintf("dict_entries_%s", bucket(len(dc.keys))))
		// every present key (a sample for big dictionaries in the quick tier), and absent keys
		keys := dc.keys
		maxKeys := g.Scale(40, 300)
		if len(keys) > maxKeys {
			idx := g.Rng.Perm(len(keys))[:maxKeys]
			sort.Ints(idx)
			ks := make([][]bool, 0, maxKeys)
			for _, i := range idx {
				ks = append(ks, keys[i])
			}
			keys = ks
		}
		for _, k := range keys {
			ks := binString(k)
			g.NonTrivial(ks + ts)
			g.Emit("mk.prove", ks, strconv.Itoa(ty[1]), ts)
			g.Emit("go.prove", ks, strconv.Itoa(ty[1]), "1", ts)
			proofs++
		}
		for _, k := range absentKeys(g, dc, g.Scale(6, 20)) {
			ks := binString(k)
			g.Count("absent_keys")
			g.Emit("mk.prove", ks, strconv.Itoa(ty[1]), ts)
			g.Emit("go.prove", ks, strconv.Itoa(ty[1]), "0", ts)
		}
		// keys of the wrong width, empty key
		if d%5 == 0 {
			for _, k := range [][]bool{{}, dc.keys[0][:len(dc.keys[0])-1], append(append([]bool{}, dc.keys[0]...), true)} {
				g.Count("wrong_width_keys")
				g.Emit("mk.prove", binString(k), strconv.Itoa(ty[1]), ts)
			}
		}
	}
	genC18More(g)
	// random trees x random prune sets through the cursor API
	n := g.Scale(500, 10000)
	for i := 0; i < n; i++ {
		var t []h.Row
		for {
			t = g.RandOrdinaryTable(h.DagOpts{MaxCells: g.Pick(1, 2, 4, 8, 16, 30)})
			if unfolded(t) <= 1500 {
				break
			}
		}
		// library cells are level-0 exotic cells: allowed below a prover
		if g.Rng.Intn(5) == 0 {
			for j := range t {
				if len(t[j].Refs) == 0 && g.Rng.Intn(3) == 0 {
					t[j] = h.Row{Ty: 2, BitLen: 8 + 256, Data: append([]byte{2}, g.Bytes(32)...)}
				}
			}
		}
		paths := randPaths(g, t)
		ts, ps := h.TableString(t), pathsString(paths)
		g.Count(fmt.Sprintf("prune_paths_%d", minI(len(paths), 5)))
		if len(paths) > 0 {
			g.NonTrivial(ts + ps)
		}
		g.Emit("mk.prune", ts, ps)
		g.Emit("go.prune", ts, ps)
	}
	// deep chains: the prover accepts depth 1024, the proof cell over an unpruned chain of depth 1024 is too deep
	for _, d := range []int{1022, 1023, 1024, 1025} {
		t := h.ChainTable(d, h.Row{BitLen: 5, Data: []byte{0x50}})
		for _, p := range [][][]int{nil, {{}}, {{0}}, {make([]int, d)}, {make([]int, d/2)}, {make([]int, 1)}} {
			g.Count("prune_deep_chain")
			g.Emit("mk.prune", h.TableString(t), pathsString(p))
		}
	}
	// inputs the prover does not support or that make the cursor panic: model = code only
	for i := 0; i < g.Scale(150, 1500); i++ {
		t := g.RandExoticTable(g.Pick(2, 4, 8))
		if unfolded(t) > 1500 {
			continue
		}
		g.Count("prune_unsupported_exotic")
		g.Emit("mk.prune", h.TableString(t), pathsString(randPaths(g, t)))
	}
	for i := 0; i < g.Scale(40, 400); i++ {
		t := g.RandOrdinaryTable(h.DagOpts{MaxCells: 5})
		p := randPaths(g, t)
		p = append(p, []int{g.Rng.Intn(4), g.Rng.Intn(4), g.Rng.Intn(4)})
		g.Count("prune_bad_path")
		g.Emit("mk.prune", h.TableString(t), pathsString(p))
	}
}

func bucket(n int) string {
	switch {
	case n <= 1:
		return "001"
	case n <= 4:
		return "002-004"
	case n <= 16:
		return "005-016"
	case n <= 64:
		return "017-064"
	default:
		return "065-300"
	}
}

func unfolded(t []h.Row) int {
	size := make([]int, len(t))
	for i := len(t) - 1; i >= 0; i-- {
		size[i] = 1
		for _, c := range t[i].Refs {
			size[i] += size[c]
			if size[i] > 1<<20 {
				size[i] = 1 << 20
			}
		}
	}
	return size[0]
}

func randPaths(g *h.G, t []h.Row) [][]int {
	var paths [][]int
	k := g.Pick(0, 1, 1, 2, 3, 5)
	for j := 0; j < k; j++ {
		var p []int
		i := 0
		for len(t[i].Refs) > 0 && g.Rng.Intn(4) != 0 {
			r := g.Rng.Intn(len(t[i].Refs))
			p = append(p, r)
			i = t[i].Refs[r]
		}
		if len(p) == 0 && g.Rng.Intn(4) != 0 && len(t[0].Refs) > 0 {
			p = []int{g.Rng.Intn(len(t[0].Refs))}
		}
		paths = append(paths, p)
	}
	return paths
}

func minI(a, b int) int {
	if a < b {
		return a
	}
	return b
}
