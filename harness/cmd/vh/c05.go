//go:build c05

package main

// Property C05: dictionaries (tlb.Hashmap / HashmapE / HashmapAugE) preserve their key->value mapping.
//
// Text forms (shared with lean/Driver/OpsC05.lean):
//
//	key type   u<N> | i<N> | b<N> | a288      key text: decimal (u, i) or hex of the encoded key (b, a)
//	value type U32 | B256 | P | R             value text: decimal | hex | cell table (payload cell / referenced cell)
//	entry      <key>=<value>
//
// Compared with the model:  hm.minbits, hm.putkeys, hm.build, hm.decode (spec op), hm.get (spec op), hm.decput, hma.decode
// Direct oracles:           go.hm.roundtrip, go.hm.spec, go.hm.spec_wc32, go.hm.decput, go.hm.real

import (
	"encoding/binary"
	"encoding/hex"
	"fmt"
	"math/big"
	"os"
	"path/filepath"
	"regexp"
	"sort"
	"strconv"
	"strings"

	"github.com/tonkeeper/tongo/boc"
	"github.com/tonkeeper/tongo/tlb"
	"verifharness/h"
)

// ------------------------------------------------------------------------------------------------ value types

// Payload is the harness' own value type: "the rest of the leaf cell" (bits and refs), i.e. an abstract value whose
// codec is the identity. It implements the tlb marshalling interfaces itself.
type Payload struct{ C *boc.Cell }

func (p Payload) MarshalTLB(c *boc.Cell, e *tlb.Encoder) error {
	if p.C == nil {
		return nil
	}
	if err := c.WriteBitString(p.C.RawBitString()); err != nil {
		return err
	}
	for _, r := range p.C.Refs() {
		if err := c.AddRef(r); err != nil {
			return err
		}
	}
	return nil
}

func (p *Payload) UnmarshalTLB(c *boc.Cell, d *tlb.Decoder) error {
	p.C = c.CopyRemaining()
	return nil
}

func canonTable(c *boc.Cell) string {
	if c == nil {
		c = boc.NewCell()
	}
	s := h.Canon([]*boc.Cell{c})
	return s[:strings.IndexByte(s, ' ')]
}

func cellOfTable(s string) *boc.Cell { return h.BuildCells(h.ParseTable(s))[0] }

type valCodec[V any] struct {
	parse func(string) V
	show  func(V) string
}

var u32Codec = valCodec[tlb.Uint32]{
	parse: func(s string) tlb.Uint32 { return tlb.Uint32(u64c(s)) },
	show:  func(v tlb.Uint32) string { return strconv.FormatUint(uint64(v), 10) },
}
var b256Codec = valCodec[tlb.Bits256]{
	parse: func(s string) tlb.Bits256 { var v tlb.Bits256; copy(v[:], h.MustUnHex(s)); return v },
	show:  func(v tlb.Bits256) string { return hex.EncodeToString(v[:]) },
}
var pCodec = valCodec[Payload]{
	parse: func(s string) Payload { return Payload{C: cellOfTable(s)} },
	show:  func(v Payload) string { return canonTable(v.C) },
}
var rCodec = valCodec[tlb.Ref[Payload]]{
	parse: func(s string) tlb.Ref[Payload] { return tlb.Ref[Payload]{Value: Payload{C: cellOfTable(s)}} },
	show:  func(v tlb.Ref[Payload]) string { return canonTable(v.Value.C) },
}

func u64c(s string) uint64 {
	v, err := strconv.ParseUint(s, 10, 64)
	if err != nil {
		panic("bad uint arg " + s)
	}
	return v
}

// ------------------------------------------------------------------------------------------------ key types

type keyC interface {
	FixedSize() int
	Equal(other any) bool
	Compare(other any) (int, bool)
}

type keyCodec[K any] struct {
	parse func(string) K
	show  func(K) string
}

// dict is one concrete HashmapE[K,V] instantiation behind a type-erased interface.
type dict interface {
	PutKeys(entries []string) string
	Build(entries []string) string
	Decode(table string) string
	Get(table string, keys []string) string
	DecPut(table string, entries []string) string
	BuildBare(entries []string) string
	DecodeBare(table string) string
	GoRoundtrip(kt string, entries []string) string
	GoSpec(kt string, table string, entries []string) string
	GoDecPut(kt string, table string, entries []string) string
	GoReencode(table string) string
	GoReuse(kt string, bare bool, script []string) string
	New(nk int, rest []string) string
	GoOob(kt string, entries []string) string
}

type runner[K keyC, V any] struct {
	kc keyCodec[K]
	vc valCodec[V]
}

var dicts = map[string]dict{}
var keyTypes []string

// regK registers HashmapE[K, V] for all four value types; regKU32 only for Uint32 values (the integer widths that are
// sampled less often: every UintN / IntN is instantiated at least once).
func regK[K keyC](name string, kc keyCodec[K]) {
	keyTypes = append(keyTypes, name)
	dicts[name+"/U32"] = runner[K, tlb.Uint32]{kc, u32Codec}
	dicts[name+"/B256"] = runner[K, tlb.Bits256]{kc, b256Codec}
	dicts[name+"/P"] = runner[K, Payload]{kc, pCodec}
	dicts[name+"/R"] = runner[K, tlb.Ref[Payload]]{kc, rCodec}
}

var u32OnlyKeyTypes []string

func regKU32[K keyC](name string, kc keyCodec[K]) {
	u32OnlyKeyTypes = append(u32OnlyKeyTypes, name)
	dicts[name+"/U32"] = runner[K, tlb.Uint32]{kc, u32Codec}
}

type uintKey interface {
	~uint8 | ~uint16 | ~uint32 | ~uint64
	keyC
}
type intKey interface {
	~int8 | ~int16 | ~int32 | ~int64
	keyC
}

func uintCodec[K uintKey]() keyCodec[K] {
	return keyCodec[K]{
		parse: func(s string) K { return K(u64c(s)) },
		show:  func(k K) string { return strconv.FormatUint(uint64(k), 10) },
	}
}

func regU[K uintKey](n int)  { regK[K](fmt.Sprintf("u%d", n), uintCodec[K]()) }
func regU1[K uintKey](n int) { regKU32[K](fmt.Sprintf("u%d", n), uintCodec[K]()) }

func intCodec[K intKey]() keyCodec[K] {
	return keyCodec[K]{
		parse: func(s string) K {
			v, err := strconv.ParseInt(s, 10, 64)
			if err != nil {
				panic("bad int arg " + s)
			}
			return K(v)
		},
		show: func(k K) string { return strconv.FormatInt(int64(k), 10) },
	}
}

func regI[K intKey](n int)  { regK[K](fmt.Sprintf("i%d", n), intCodec[K]()) }
func regI1[K intKey](n int) { regKU32[K](fmt.Sprintf("i%d", n), intCodec[K]()) }

func init() {
	regU[tlb.Uint1](1)
	regU[tlb.Uint2](2)
	regU[tlb.Uint3](3)
	regU[tlb.Uint7](7)
	regU[tlb.Uint8](8)
	regU[tlb.Uint9](9)
	regU[tlb.Uint15](15)
	regU[tlb.Uint16](16)
	regU[tlb.Uint17](17)
	regU[tlb.Uint31](31)
	regU[tlb.Uint32](32)
	regU[tlb.Uint33](33)
	regU[tlb.Uint63](63)
	regU[tlb.Uint64](64)
	regI[tlb.Int1](1)
	regI[tlb.Int2](2)
	regI[tlb.Int3](3)
	regI[tlb.Int7](7)
	regI[tlb.Int8](8)
	regI[tlb.Int9](9)
	regI[tlb.Int15](15)
	regI[tlb.Int16](16)
	regI[tlb.Int17](17)
	regI[tlb.Int31](31)
	regI[tlb.Int32](32)
	regI[tlb.Int33](33)
	regI[tlb.Int63](63)
	regI[tlb.Int64](64)
	regU1[tlb.Uint4](4)
	regU1[tlb.Uint5](5)
	regU1[tlb.Uint6](6)
	regU1[tlb.Uint10](10)
	regU1[tlb.Uint11](11)
	regU1[tlb.Uint12](12)
	regU1[tlb.Uint13](13)
	regU1[tlb.Uint14](14)
	regU1[tlb.Uint18](18)
	regU1[tlb.Uint19](19)
	regU1[tlb.Uint20](20)
	regU1[tlb.Uint21](21)
	regU1[tlb.Uint22](22)
	regU1[tlb.Uint23](23)
	regU1[tlb.Uint24](24)
	regU1[tlb.Uint25](25)
	regU1[tlb.Uint26](26)
	regU1[tlb.Uint27](27)
	regU1[tlb.Uint28](28)
	regU1[tlb.Uint29](29)
	regU1[tlb.Uint30](30)
	regU1[tlb.Uint34](34)
	regU1[tlb.Uint35](35)
	regU1[tlb.Uint36](36)
	regU1[tlb.Uint37](37)
	regU1[tlb.Uint38](38)
	regU1[tlb.Uint39](39)
	regU1[tlb.Uint40](40)
	regU1[tlb.Uint41](41)
	regU1[tlb.Uint42](42)
	regU1[tlb.Uint43](43)
	regU1[tlb.Uint44](44)
	regU1[tlb.Uint45](45)
	regU1[tlb.Uint46](46)
	regU1[tlb.Uint47](47)
	regU1[tlb.Uint48](48)
	regU1[tlb.Uint49](49)
	regU1[tlb.Uint50](50)
	regU1[tlb.Uint51](51)
	regU1[tlb.Uint52](52)
	regU1[tlb.Uint53](53)
	regU1[tlb.Uint54](54)
	regU1[tlb.Uint55](55)
	regU1[tlb.Uint56](56)
	regU1[tlb.Uint57](57)
	regU1[tlb.Uint58](58)
	regU1[tlb.Uint59](59)
	regU1[tlb.Uint60](60)
	regU1[tlb.Uint61](61)
	regU1[tlb.Uint62](62)
	regI1[tlb.Int4](4)
	regI1[tlb.Int5](5)
	regI1[tlb.Int6](6)
	regI1[tlb.Int10](10)
	regI1[tlb.Int11](11)
	regI1[tlb.Int12](12)
	regI1[tlb.Int13](13)
	regI1[tlb.Int14](14)
	regI1[tlb.Int18](18)
	regI1[tlb.Int19](19)
	regI1[tlb.Int20](20)
	regI1[tlb.Int21](21)
	regI1[tlb.Int22](22)
	regI1[tlb.Int23](23)
	regI1[tlb.Int24](24)
	regI1[tlb.Int25](25)
	regI1[tlb.Int26](26)
	regI1[tlb.Int27](27)
	regI1[tlb.Int28](28)
	regI1[tlb.Int29](29)
	regI1[tlb.Int30](30)
	regI1[tlb.Int34](34)
	regI1[tlb.Int35](35)
	regI1[tlb.Int36](36)
	regI1[tlb.Int37](37)
	regI1[tlb.Int38](38)
	regI1[tlb.Int39](39)
	regI1[tlb.Int40](40)
	regI1[tlb.Int41](41)
	regI1[tlb.Int42](42)
	regI1[tlb.Int43](43)
	regI1[tlb.Int44](44)
	regI1[tlb.Int45](45)
	regI1[tlb.Int46](46)
	regI1[tlb.Int47](47)
	regI1[tlb.Int48](48)
	regI1[tlb.Int49](49)
	regI1[tlb.Int50](50)
	regI1[tlb.Int51](51)
	regI1[tlb.Int52](52)
	regI1[tlb.Int53](53)
	regI1[tlb.Int54](54)
	regI1[tlb.Int55](55)
	regI1[tlb.Int56](56)
	regI1[tlb.Int57](57)
	regI1[tlb.Int58](58)
	regI1[tlb.Int59](59)
	regI1[tlb.Int60](60)
	regI1[tlb.Int61](61)
	regI1[tlb.Int62](62)
	regK[tlb.Bits80]("b80", keyCodec[tlb.Bits80]{
		parse: func(s string) tlb.Bits80 { var k tlb.Bits80; copy(k[:], h.MustUnHex(s)); return k },
		show:  func(k tlb.Bits80) string { return hex.EncodeToString(k[:]) }})
	regK[tlb.Bits96]("b96", keyCodec[tlb.Bits96]{
		parse: func(s string) tlb.Bits96 { var k tlb.Bits96; copy(k[:], h.MustUnHex(s)); return k },
		show:  func(k tlb.Bits96) string { return hex.EncodeToString(k[:]) }})
	regK[tlb.Bits128]("b128", keyCodec[tlb.Bits128]{
		parse: func(s string) tlb.Bits128 { var k tlb.Bits128; copy(k[:], h.MustUnHex(s)); return k },
		show:  func(k tlb.Bits128) string { return hex.EncodeToString(k[:]) }})
	regK[tlb.Bits256]("b256", keyCodec[tlb.Bits256]{
		parse: func(s string) tlb.Bits256 { var k tlb.Bits256; copy(k[:], h.MustUnHex(s)); return k },
		show:  func(k tlb.Bits256) string { return hex.EncodeToString(k[:]) }})
	regK[tlb.Bits264]("b264", keyCodec[tlb.Bits264]{
		parse: func(s string) tlb.Bits264 { var k tlb.Bits264; copy(k[:], h.MustUnHex(s)); return k },
		show:  func(k tlb.Bits264) string { return hex.EncodeToString(k[:]) }})
	regK[tlb.Bits320]("b320", keyCodec[tlb.Bits320]{
		parse: func(s string) tlb.Bits320 { var k tlb.Bits320; copy(k[:], h.MustUnHex(s)); return k },
		show:  func(k tlb.Bits320) string { return hex.EncodeToString(k[:]) }})
	regK[tlb.Bits352]("b352", keyCodec[tlb.Bits352]{
		parse: func(s string) tlb.Bits352 { var k tlb.Bits352; copy(k[:], h.MustUnHex(s)); return k },
		show:  func(k tlb.Bits352) string { return hex.EncodeToString(k[:]) }})
	regK[tlb.Bits512]("b512", keyCodec[tlb.Bits512]{
		parse: func(s string) tlb.Bits512 { var k tlb.Bits512; copy(k[:], h.MustUnHex(s)); return k },
		show:  func(k tlb.Bits512) string { return hex.EncodeToString(k[:]) }})
	regK[tlb.AddressWithWorkchain]("a288", keyCodec[tlb.AddressWithWorkchain]{
		parse: func(s string) tlb.AddressWithWorkchain {
			b := h.MustUnHex(s)
			if len(b) != 36 {
				panic("bad a288 key")
			}
			var k tlb.AddressWithWorkchain
			k.Workchain = int8(int32(binary.BigEndian.Uint32(b[:4])))
			copy(k.Address[:], b[4:])
			return k
		},
		show: func(k tlb.AddressWithWorkchain) string {
			var w [4]byte
			binary.BigEndian.PutUint32(w[:], uint32(int32(k.Workchain)))
			return hex.EncodeToString(w[:]) + hex.EncodeToString(k.Address[:])
		}})

	h.Register(&h.Prop{ID: "C05", Gen: genC05, Exec: withCells(map[string]h.ExecFn{
		"hm.minbits":      func(a []string) string { return strconv.Itoa(boc.VerifMinBitsRequired(u64c(a[0]))) },
		"hm.putkeys":      func(a []string) string { return dictOf(a).PutKeys(a[2:]) },
		"hm.build":        func(a []string) string { return dictOf(a).Build(a[2:]) },
		"hm.decode":       func(a []string) string { return dictOf(a).Decode(a[2]) },
		"hmb.build":       func(a []string) string { return dictOf(a).BuildBare(a[2:]) },
		"hmb.decode":      func(a []string) string { return dictOf(a).DecodeBare(a[2]) },
		"hm.get":          func(a []string) string { return dictOf(a).Get(a[2], a[3:]) },
		"hm.decput":       func(a []string) string { return dictOf(a).DecPut(a[2], a[3:]) },
		"hma.decode":      func(a []string) string { return augOf(a).Decode(a[3]) },
		"hmai.decode":     func(a []string) string { return augOf(a).DecodeInline(a[3]) },
		"go.hma.real":     func(a []string) string { return augOf(a).GoReal(a[0], a[3], a[4:]) },
		"go.hm.roundtrip": func(a []string) string { return dictOf(a).GoRoundtrip(a[0], a[2:]) },
		"go.hm.spec":      func(a []string) string { return dictOf(a).GoSpec(a[0], a[2], a[3:]) },
		"go.hm.spec_wc32": func(a []string) string { return dictOf(a).GoSpec(a[0], a[2], a[3:]) },
		"go.hm.real":      func(a []string) string { return dictOf(a).GoSpec(a[0], a[2], a[3:]) },
		"go.hm.decput":    func(a []string) string { return dictOf(a).GoDecPut(a[0], a[2], a[3:]) },
		"go.hm.reencode":  func(a []string) string { return dictOf(a).GoReencode(a[2]) },
		"go.hm.oob":       func(a []string) string { return dictOf(a).GoOob(a[0], a[2:]) },
		"go.hm.reuse":     func(a []string) string { return dictOf(a).GoReuse(a[0], false, a[2:]) },
		"go.hmb.reuse":    func(a []string) string { return dictOf(a).GoReuse(a[0], true, a[2:]) },
		"go.hma.reuse":    func(a []string) string { return augOf(a).GoReuse(a[3:]) },
		"hm.new": func(a []string) string {
			nk, err := strconv.Atoi(a[2])
			if err != nil {
				panic("bad nk")
			}
			return dictOf(a).New(nk, a[3:])
		},
	})})
}

func dictOf(a []string) dict {
	d, ok := dicts[a[0]+"/"+a[1]]
	if !ok {
		panic("unknown dictionary type " + a[0] + "/" + a[1])
	}
	return d
}

func splitEntry(e string) (string, string) {
	i := strings.IndexByte(e, '=')
	if i < 0 {
		panic("bad entry " + e)
	}
	return e[:i], e[i+1:]
}

// ------------------------------------------------------------------------------------------------ executors

func (r runner[K, V]) putAll(d *tlb.HashmapE[K, V], entries []string) {
	for _, e := range entries {
		k, v := splitEntry(e)
		d.Put(r.kc.parse(k), r.vc.parse(v))
	}
}

// items prints Items() and cross-checks Keys()/Values() against it.
func (r runner[K, V]) items(d *tlb.HashmapE[K, V]) string {
	items := d.Items()
	keys, vals := d.Keys(), d.Values()
	if len(keys) != len(items) || len(vals) != len(items) {
		return "inconsistent-items"
	}
	var sb strings.Builder
	sb.WriteString(strconv.Itoa(len(items)))
	for i, it := range items {
		ks, vs := r.kc.show(it.Key), r.vc.show(it.Value)
		if r.kc.show(keys[i]) != ks || r.vc.show(vals[i]) != vs {
			return "inconsistent-items"
		}
		sb.WriteString(" " + ks + "=" + vs)
	}
	return sb.String()
}

func (r runner[K, V]) marshal(d tlb.HashmapE[K, V]) (*boc.Cell, error) {
	c := boc.NewCell()
	if err := tlb.Marshal(c, d); err != nil {
		return nil, err
	}
	return c, nil
}

func (r runner[K, V]) unmarshal(table string) (*tlb.HashmapE[K, V], error) {
	var d tlb.HashmapE[K, V]
	err := tlb.Unmarshal(cellOfTable(table), &d)
	return &d, err
}

func (r runner[K, V]) PutKeys(entries []string) string {
	var d tlb.HashmapE[K, V]
	r.putAll(&d, entries)
	return "ok " + r.items(&d)
}

func (r runner[K, V]) Build(entries []string) string {
	var d tlb.HashmapE[K, V]
	r.putAll(&d, entries)
	c, err := r.marshal(d)
	if err != nil {
		return "err"
	}
	return "ok " + canonTable(c)
}

func (r runner[K, V]) Decode(table string) string {
	d, err := r.unmarshal(table)
	if err != nil {
		return "err"
	}
	return "ok " + r.items(d)
}

// BuildBare / DecodeBare: tlb.Hashmap (without the Maybe ^ wrapper of HashmapE) marshalled into / read from a cell.
func (r runner[K, V]) BuildBare(entries []string) string {
	var d tlb.Hashmap[K, V]
	for _, e := range entries {
		k, v := splitEntry(e)
		d.Put(r.kc.parse(k), r.vc.parse(v))
	}
	c := boc.NewCell()
	if err := tlb.Marshal(c, d); err != nil {
		return "err"
	}
	return "ok " + canonTable(c)
}

func (r runner[K, V]) DecodeBare(table string) string {
	var d tlb.Hashmap[K, V]
	if err := tlb.Unmarshal(cellOfTable(table), &d); err != nil {
		return "err"
	}
	items := d.Items()
	var sb strings.Builder
	sb.WriteString("ok " + strconv.Itoa(len(items)))
	for _, it := range items {
		sb.WriteString(" " + r.kc.show(it.Key) + "=" + r.vc.show(it.Value))
	}
	return sb.String()
}

func (r runner[K, V]) Get(table string, keys []string) string {
	d, err := r.unmarshal(table)
	if err != nil {
		return "err"
	}
	out := make([]string, len(keys))
	for i, k := range keys {
		v, ok := d.Get(r.kc.parse(k))
		if ok {
			out[i] = r.vc.show(v)
		} else {
			out[i] = "none"
		}
	}
	return h.Outcome(strings.Join(out, " "), nil)
}

func (r runner[K, V]) DecPut(table string, entries []string) string {
	d, err := r.unmarshal(table)
	if err != nil {
		return "err"
	}
	r.putAll(d, entries)
	c, err := r.marshal(*d)
	if err != nil {
		return "err"
	}
	return "ok " + r.items(d) + " | " + canonTable(c)
}

// ------------------------------------------------------------------------------------------------ key bits (independent of tongo)

func ktWidth(kt string) int {
	n, err := strconv.Atoi(kt[1:])
	if err != nil {
		panic("bad key type " + kt)
	}
	return n
}

// keyBits converts a key text into its n-bit encoding as a string of '0'/'1'.
func keyBits(kt, s string) string {
	n := ktWidth(kt)
	switch kt[0] {
	case 'u', 'i':
		v, ok := new(big.Int).SetString(s, 10)
		if !ok {
			panic("bad key " + s)
		}
		if v.Sign() < 0 {
			v.Add(v, new(big.Int).Lsh(big.NewInt(1), uint(n)))
		}
		b := v.Text(2)
		if len(b) > n {
			panic("key out of range " + s)
		}
		return strings.Repeat("0", n-len(b)) + b
	default:
		return bytesToBitStr(h.MustUnHex(s))[:n]
	}
}

func bytesToBitStr(b []byte) string {
	var sb strings.Builder
	for _, x := range b {
		sb.WriteString(fmt.Sprintf("%08b", x))
	}
	return sb.String()
}

func bitStrToBytes(s string) []byte {
	out := make([]byte, (len(s)+7)/8)
	for i := 0; i < len(s); i++ {
		if s[i] == '1' {
			out[i/8] |= 1 << uint(7-i%8)
		}
	}
	return out
}

// keyText converts an n-bit string into the key text of the family.
func keyText(kt, bits string) string {
	switch kt[0] {
	case 'u':
		v, _ := new(big.Int).SetString(bits, 2)
		return v.String()
	case 'i':
		v, _ := new(big.Int).SetString(bits, 2)
		if bits[0] == '1' {
			v.Sub(v, new(big.Int).Lsh(big.NewInt(1), uint(len(bits))))
		}
		return v.String()
	default:
		return hex.EncodeToString(bitStrToBytes(bits))
	}
}

// finalMap applies entries in order (later wins) and returns the entries sorted by ascending key bits.
func finalMap(kt string, base []string, entries []string) []string {
	m := map[string]string{}
	for _, e := range append(append([]string{}, base...), entries...) {
		k, v := splitEntry(e)
		m[keyBits(kt, k)] = k + "=" + v
	}
	bits := make([]string, 0, len(m))
	for b := range m {
		bits = append(bits, b)
	}
	sort.Strings(bits)
	out := make([]string, len(bits))
	for i, b := range bits {
		out[i] = m[b]
	}
	return out
}

func wantItems(es []string) string {
	if len(es) == 0 {
		return "0"
	}
	return strconv.Itoa(len(es)) + " " + strings.Join(es, " ")
}

// absentKeys derives a few keys not in the set by flipping single bits of present keys.
func absentKeys(kt string, present map[string]bool, limit int) []string {
	var out []string
	seen := map[string]bool{}
	sorted := make([]string, 0, len(present))
	for b := range present {
		sorted = append(sorted, b)
	}
	sort.Strings(sorted)
	for _, b := range sorted {
		for _, pos := range []int{0, len(b) - 1, len(b) / 2} {
			c := []byte(b)
			if c[pos] == '0' {
				c[pos] = '1'
			} else {
				c[pos] = '0'
			}
			cs := string(c)
			if !present[cs] && !seen[cs] && (kt != "a288" || wcFits(cs)) {
				seen[cs] = true
				out = append(out, keyText(kt, cs))
			}
		}
		if len(out) >= limit {
			break
		}
	}
	sort.Strings(out)
	return out
}

// wcFits: the 32-bit workchain of a 288-bit address key is the sign extension of an int8 (representable by the Go type).
func wcFits(bits string) bool {
	for i := 0; i < 25; i++ {
		if bits[i] != bits[0] {
			return false
		}
	}
	return true
}

// ------------------------------------------------------------------------------------------------ direct oracles

// checkDict: d lists exactly `want` (ascending key bits) and Get agrees with it (present and absent keys).
func (r runner[K, V]) checkDict(kt string, d *tlb.HashmapE[K, V], want []string, tag string) string {
	want = r.normValues(want)
	if got := r.items(d); got != wantItems(want) {
		return "FAIL " + tag + "-items got=" + clip(got) + " want=" + clip(wantItems(want))
	}
	present := map[string]bool{}
	for _, e := range want {
		k, v := splitEntry(e)
		present[keyBits(kt, k)] = true
		gv, ok := d.Get(r.kc.parse(k))
		if !ok || r.vc.show(gv) != v {
			return "FAIL " + tag + "-get key=" + k
		}
	}
	for _, k := range absentKeys(kt, present, 6) {
		if _, ok := d.Get(r.kc.parse(k)); ok {
			return "FAIL " + tag + "-get-absent key=" + k
		}
	}
	return ""
}

func imin(a, b int) int {
	if a < b {
		return a
	}
	return b
}

func imax(a, b int) int {
	if a > b {
		return a
	}
	return b
}

// normValues rewrites the value text of every entry into the canonical text the harness prints for values
// (cell tables are renumbered canonically); keys are left as given.
func (r runner[K, V]) normValues(es []string) []string {
	out := make([]string, len(es))
	for i, e := range es {
		k, v := splitEntry(e)
		out[i] = k + "=" + r.vc.show(r.vc.parse(v))
	}
	return out
}

func clip(s string) string {
	if len(s) > 160 {
		return s[:160] + "..."
	}
	return s
}

// GoRoundtrip: Put in the given order (later wins) -> Marshal -> Unmarshal lists the final map in ascending key-bit
// order and Get agrees; building the same final map in reversed, ascending and rotated orders gives the same hash.
func (r runner[K, V]) GoRoundtrip(kt string, entries []string) string {
	var d tlb.HashmapE[K, V]
	r.putAll(&d, entries)
	c, err := r.marshal(d)
	if err != nil {
		return "FAIL marshal " + err.Error()
	}
	want := r.normValues(finalMap(kt, nil, entries))
	var d2 tlb.HashmapE[K, V]
	if err := tlb.Unmarshal(c, &d2); err != nil {
		return "FAIL unmarshal " + err.Error()
	}
	if f := r.checkDict(kt, &d2, want, "decoded"); f != "" {
		return f
	}
	// lookups on the built (not decoded) dictionary as well
	for _, e := range want {
		k, v := splitEntry(e)
		gv, ok := d.Get(r.kc.parse(k))
		if !ok || r.vc.show(gv) != v {
			return "FAIL built-get key=" + k
		}
	}
	hash0, err := c.HashString()
	if err != nil {
		return "FAIL hash " + err.Error()
	}
	n := len(want)
	orders := [][]string{want, make([]string, n), make([]string, n)}
	for i := range want {
		orders[1][n-1-i] = want[i]
		orders[2][(i+n/2+1)%imax(n, 1)] = want[i]
	}
	items0 := ""
	for oi, o := range orders {
		var dx tlb.HashmapE[K, V]
		r.putAll(&dx, o)
		// the slice kept by Put: the same listing for every insertion order, ascending in the key family's Compare order
		itx := r.items(&dx)
		if oi == 0 {
			items0 = itx
			if f := compareOrderViolation(kt, dx.Items(), r.kc.show); f != "" {
				return "FAIL put-order " + f
			}
		} else if itx != items0 {
			return fmt.Sprintf("FAIL put-order-dependent order=%d got=%s want=%s", oi, clip(itx), clip(items0))
		}
		cx, err := r.marshal(dx)
		if err != nil {
			return fmt.Sprintf("FAIL marshal-order%d %v", oi, err)
		}
		hx, _ := cx.HashString()
		if hx != hash0 {
			return fmt.Sprintf("FAIL order-dependent order=%d", oi)
		}
	}
	return "ok"
}

// compareOrderViolation: the keys of a dictionary filled by Put alone must ascend in the order of the key family —
// numeric for UintN / IntN, byte order (= bit order) for BitsN and the address key. Computed on the key texts.
func compareOrderViolation[K keyC, V any](kt string, items []tlb.HashmapItem[K, V], show func(K) string) string {
	var prev *big.Int
	prevText := ""
	for i, it := range items {
		txt := show(it.Key)
		var v *big.Int
		if kt[0] == 'u' || kt[0] == 'i' {
			v, _ = new(big.Int).SetString(txt, 10)
		} else {
			v = new(big.Int).SetBytes(h.MustUnHex(txt))
		}
		if i > 0 && prev.Cmp(v) >= 0 {
			return "keys " + prevText + " then " + txt
		}
		prev, prevText = v, txt
	}
	return ""
}

// GoSpec: Unmarshal of a dictionary tree built by an independent encoder (any label form on any edge) lists exactly
// the given entries, in this (ascending key-bit) order, and Get agrees.
func (r runner[K, V]) GoSpec(kt string, table string, entries []string) string {
	d, err := r.unmarshal(table)
	if err != nil {
		return "FAIL unmarshal " + err.Error()
	}
	if f := r.checkDict(kt, d, entries, "spec"); f != "" {
		return f
	}
	return "ok"
}

// ---- stateful sequences over ONE variable and retained copies (aliasing is invisible to the value-level model)

// dictVar abstracts one dictionary variable (HashmapE or bare Hashmap) behind closures.
type dictVar[K keyC, V any] struct {
	unmarshal func(c *boc.Cell) error
	put       func(k K, v V)
	keys      func() []K
	values    func() []V
	items     func() []tlb.HashmapItem[K, V]
	get       func(k K) (V, bool)
	marshal   func() (*boc.Cell, error)
	clone     func() *dictVar[K, V] // plain struct copy: `a := d`
}

func newVarE[K keyC, V any](p *tlb.HashmapE[K, V]) *dictVar[K, V] {
	return &dictVar[K, V]{
		unmarshal: func(c *boc.Cell) error { return tlb.Unmarshal(c, p) },
		put:       func(k K, v V) { p.Put(k, v) },
		keys:      func() []K { return p.Keys() },
		values:    func() []V { return p.Values() },
		items:     func() []tlb.HashmapItem[K, V] { return p.Items() },
		get:       func(k K) (V, bool) { return p.Get(k) },
		marshal: func() (*boc.Cell, error) {
			c := boc.NewCell()
			return c, tlb.Marshal(c, *p)
		},
		clone: func() *dictVar[K, V] { c := *p; return newVarE(&c) },
	}
}

func newVarBare[K keyC, V any](p *tlb.Hashmap[K, V]) *dictVar[K, V] {
	return &dictVar[K, V]{
		unmarshal: func(c *boc.Cell) error { return tlb.Unmarshal(c, p) },
		put:       func(k K, v V) { p.Put(k, v) },
		keys:      func() []K { return p.Keys() },
		values:    func() []V { return p.Values() },
		items:     func() []tlb.HashmapItem[K, V] { return p.Items() },
		get:       func(k K) (V, bool) { return p.Get(k) },
		marshal: func() (*boc.Cell, error) {
			c := boc.NewCell()
			return c, tlb.Marshal(c, *p)
		},
		clone: func() *dictVar[K, V] { c := *p; return newVarBare(&c) },
	}
}

func (r runner[K, V]) listKV(ks []K, vs []V) string {
	if len(ks) != len(vs) {
		return fmt.Sprintf("inconsistent(%d keys,%d values)", len(ks), len(vs))
	}
	parts := make([]string, len(ks))
	for i := range ks {
		parts[i] = r.kc.show(ks[i]) + "=" + r.vc.show(vs[i])
	}
	return strings.Join(parts, " ")
}

func (r runner[K, V]) listItems(it []tlb.HashmapItem[K, V]) string {
	parts := make([]string, len(it))
	for i := range it {
		parts[i] = r.kc.show(it[i].Key) + "=" + r.vc.show(it[i].Value)
	}
	return strings.Join(parts, " ")
}

// listVar renders a variable through every accessor and cross-checks them (Keys/Values vs Items vs Get).
func (r runner[K, V]) listVar(d *dictVar[K, V]) string {
	a, b := r.listKV(d.keys(), d.values()), r.listItems(d.items())
	if a != b {
		return "inconsistent(keys/values: " + a + " items: " + b + ")"
	}
	for _, it := range d.items() {
		v, ok := d.get(it.Key)
		if !ok || r.vc.show(v) != r.vc.show(it.Value) {
			return "inconsistent(get " + r.kc.show(it.Key) + ")"
		}
	}
	return a
}

// sortedByBits orders a rendered listing by ascending key bits (the slice order after Put is Compare order).
func sortedByBits(kt, listing string) string {
	if listing == "" {
		return ""
	}
	return strings.Join(finalMap(kt, nil, strings.Fields(listing)), " ")
}

type reuseSnap[K keyC, V any] struct {
	gen         int
	copy        *dictVar[K, V]
	ks          []K
	vs          []V
	it          []tlb.HashmapItem[K, V]
	sCopy       string // rendering of the struct copy when last legitimately changed
	sSlices     string // rendering of the retained Keys()/Values() results
	sItems      string // rendering of the retained Items() result
	checkSlices bool   // false once a Put through an alias of the same generation may legitimately have moved them
}

// GoReuse runs a script over ONE dictionary variable `d` and the values retained from it:
//
//	U|table|k=v+k=v…   Unmarshal the table into d (expected listing given, ascending key bits)
//	P|k=v              Put on d
//	C|i|k=v            Put on the i-th retained struct copy (always one of an earlier generation than d's current one)
//	M                  Marshal d and every retained copy (must not change them; the output decodes to their mapping)
//
// Before every U the current state of d is retained: a struct copy, the Keys() and Values() slices, the Items() slice.
// After every step every retained value must still render exactly as when it was retained (or legitimately updated).
func (r runner[K, V]) GoReuse(kt string, bare bool, script []string) string {
	var d *dictVar[K, V]
	if bare {
		d = newVarBare(new(tlb.Hashmap[K, V]))
	} else {
		d = newVarE(new(tlb.HashmapE[K, V]))
	}
	var snaps []*reuseSnap[K, V]
	gen := 0
	retain := func() {
		s := &reuseSnap[K, V]{gen: gen, copy: d.clone(), ks: d.keys(), vs: d.values(), it: d.items(), checkSlices: true}
		s.sCopy, s.sSlices, s.sItems = r.listVar(s.copy), r.listKV(s.ks, s.vs), r.listItems(s.it)
		snaps = append(snaps, s)
	}
	verify := func(step int, what string) string {
		for i, s := range snaps {
			if s.gen == gen {
				continue // still shares its arrays with d by Go's slice semantics
			}
			if got := r.listVar(s.copy); got != s.sCopy {
				return fmt.Sprintf("FAIL retained-copy-changed step=%d(%s) copy=%d got=%s want=%s", step, what, i, clip(got), clip(s.sCopy))
			}
			if got := r.listItems(s.it); got != s.sItems {
				return fmt.Sprintf("FAIL retained-items-changed step=%d(%s) copy=%d got=%s want=%s", step, what, i, clip(got), clip(s.sItems))
			}
			if s.checkSlices {
				if got := r.listKV(s.ks, s.vs); got != s.sSlices {
					return fmt.Sprintf("FAIL retained-keys-values-changed step=%d(%s) copy=%d got=%s want=%s", step, what, i, clip(got), clip(s.sSlices))
				}
			}
		}
		return ""
	}
	cur := "" // expected listing of d, ascending key bits
	for step, tok := range script {
		f := strings.Split(tok, "|")
		switch f[0] {
		case "U":
			retain()
			gen++
			if err := d.unmarshal(cellOfTable(f[1])); err != nil {
				return fmt.Sprintf("FAIL unmarshal step=%d %v", step, err)
			}
			want := ""
			if f[2] != "" {
				want = strings.Join(strings.Split(f[2], "+"), " ")
			}
			if got := r.listVar(d); got != want {
				return fmt.Sprintf("FAIL reused-variable-decodes-wrong step=%d got=%s want=%s", step, clip(got), clip(want))
			}
			cur = want
		case "P":
			k, v := splitEntry(f[1])
			d.put(r.kc.parse(k), r.vc.parse(v))
			cur = strings.Join(finalMap(kt, strings.Fields(cur), []string{f[1]}), " ")
			if got := sortedByBits(kt, r.listVar(d)); got != cur {
				return fmt.Sprintf("FAIL put-on-variable step=%d got=%s want=%s", step, clip(got), clip(cur))
			}
			for _, s := range snaps {
				if s.gen == gen {
					s.checkSlices = false
				}
			}
		case "C":
			i, _ := strconv.Atoi(f[1])
			if i >= len(snaps) || snaps[i].gen == gen {
				continue
			}
			s := snaps[i]
			k, v := splitEntry(f[2])
			want := strings.Join(finalMap(kt, strings.Fields(s.sCopy), []string{f[2]}), " ")
			s.copy.put(r.kc.parse(k), r.vc.parse(v))
			got := r.listVar(s.copy)
			if sortedByBits(kt, got) != want {
				return fmt.Sprintf("FAIL put-on-copy step=%d got=%s want=%s", step, clip(got), clip(want))
			}
			s.sCopy = got
			for _, o := range snaps { // Keys()/Values() results of the same generation share arrays with this copy
				if o.gen == s.gen {
					o.checkSlices = false
					if o != s {
						o.sCopy = r.listVar(o.copy) // a sibling struct copy may legitimately see the in-place insert
					}
				}
			}
			if got := sortedByBits(kt, r.listVar(d)); got != cur {
				return fmt.Sprintf("FAIL put-on-copy-changed-variable step=%d got=%s want=%s", step, clip(got), clip(cur))
			}
		case "M":
			all := []*dictVar[K, V]{d}
			for _, s := range snaps {
				all = append(all, s.copy)
			}
			for i, x := range all {
				before := r.listVar(x)
				c, err := x.marshal()
				if err != nil {
					return fmt.Sprintf("FAIL marshal step=%d var=%d %v", step, i, err)
				}
				if after := r.listVar(x); after != before {
					return fmt.Sprintf("FAIL marshal-mutates-receiver step=%d var=%d before=%s after=%s", step, i, clip(before), clip(after))
				}
				var back *dictVar[K, V]
				if bare {
					back = newVarBare(new(tlb.Hashmap[K, V]))
				} else {
					back = newVarE(new(tlb.HashmapE[K, V]))
				}
				if before == "" && bare {
					continue // an empty bare Hashmap writes nothing
				}
				if err := back.unmarshal(c); err != nil {
					return fmt.Sprintf("FAIL unmarshal-of-marshal step=%d var=%d %v", step, i, err)
				}
				if got := r.listVar(back); got != sortedByBits(kt, before) {
					return fmt.Sprintf("FAIL marshal-of-retained step=%d var=%d got=%s want=%s", step, i, clip(got), clip(sortedByBits(kt, before)))
				}
			}
		default:
			panic("bad reuse step " + tok)
		}
		if f := verify(step, f[0]); f != "" {
			return f
		}
	}
	return "ok"
}

// New: NewHashmapE(keys, values) with slices of any two lengths; Marshal and Items() each under their own recover.
func (r runner[K, V]) New(nk int, rest []string) string {
	var keys []K
	var vals []V
	for _, k := range rest[:nk] {
		keys = append(keys, r.kc.parse(k))
	}
	for _, v := range rest[nk:] {
		vals = append(vals, r.vc.parse(v))
	}
	guard := func(f func() string) (out string) {
		defer func() {
			if recover() != nil {
				out = "panic"
			}
		}()
		return f()
	}
	m := guard(func() string {
		c, err := r.marshal(tlb.NewHashmapE(keys, vals))
		if err != nil {
			return "err"
		}
		return "ok " + canonTable(c)
	})
	it := guard(func() string {
		d := tlb.NewHashmapE(keys, vals)
		items := d.Items()
		out := "ok " + strconv.Itoa(len(items))
		for _, x := range items {
			out += " " + r.kc.show(x.Key) + "=" + r.vc.show(x.Value)
		}
		return out
	})
	return "ok M=" + strings.ReplaceAll(m, " ", ":") + " I=" + strings.ReplaceAll(it, " ", ":")
}

// goKeyBits: what Marshal writes for a typed integer key, possibly outside its declared width (independent of tongo):
// UintN keeps the low N bits; IntN (N >= 2) the sign and the low N-1 bits; Int1 accepts only 0 and -1 ("" = error).
func goKeyBits(kt, s string) string {
	n := ktWidth(kt)
	v, ok := new(big.Int).SetString(s, 10)
	if !ok {
		panic("bad key " + s)
	}
	low := func(x *big.Int, w int) string {
		m := new(big.Int).Mod(x, new(big.Int).Lsh(big.NewInt(1), uint(w)))
		b := m.Text(2)
		if w == 0 {
			return ""
		}
		return strings.Repeat("0", w-len(b)) + b
	}
	if kt[0] == 'u' {
		return low(v, n)
	}
	if n == 1 {
		switch s {
		case "0":
			return "0"
		case "-1":
			return "1"
		}
		return ""
	}
	if v.Sign() < 0 {
		return "1" + low(v, n-1)
	}
	return "0" + low(v, n-1)
}

// GoOob: typed integer keys, some outside the declared width. Marshal must either fail — required when a key cannot
// be written (Int1) or two keys truncate to the same bits — or produce a dictionary that decodes to exactly the
// truncated keys with their values: entries with keys inside the domain are never lost or altered.
func (r runner[K, V]) GoOob(kt string, entries []string) string {
	var d tlb.HashmapE[K, V]
	r.putAll(&d, entries)
	typed := map[string]string{} // typed key text -> value (later Put of the same typed key wins)
	var order []string
	for _, e := range entries {
		k, v := splitEntry(e)
		if _, seen := typed[k]; !seen {
			order = append(order, k)
		}
		typed[k] = v
	}
	byBits := map[string]string{}
	mustFail := false
	for _, k := range order {
		b := goKeyBits(kt, k)
		if b == "" {
			mustFail = true
			continue
		}
		if _, dup := byBits[b]; dup {
			mustFail = true
		}
		byBits[b] = keyText(kt, b) + "=" + typed[k]
	}
	c, err := r.marshal(d)
	if mustFail {
		if err == nil {
			return "FAIL marshal-accepts-colliding-keys " + clip(canonTable(c))
		}
		return "ok"
	}
	if err != nil {
		return "FAIL marshal " + err.Error()
	}
	bits := make([]string, 0, len(byBits))
	for b := range byBits {
		bits = append(bits, b)
	}
	sort.Strings(bits)
	want := make([]string, len(bits))
	for i, b := range bits {
		want[i] = byBits[b]
	}
	var d2 tlb.HashmapE[K, V]
	if err := tlb.Unmarshal(c, &d2); err != nil {
		return "FAIL unmarshal " + err.Error()
	}
	if f := r.checkDict(kt, &d2, want, "oob"); f != "" {
		return f
	}
	return "ok"
}

// GoReencode: Unmarshal a dictionary written by TON itself (found in chain data) and Marshal it again: the cell hash
// must be the same, i.e. tongo picks the label form TON picks (the shortest one).
func (r runner[K, V]) GoReencode(table string) string {
	src := cellOfTable(table)
	want, err := src.HashString()
	if err != nil {
		return "FAIL hash " + err.Error()
	}
	src.ResetCounters()
	var d tlb.HashmapE[K, V]
	if err := tlb.Unmarshal(src, &d); err != nil {
		return "FAIL unmarshal " + err.Error()
	}
	c, err := r.marshal(d)
	if err != nil {
		return "FAIL marshal " + err.Error()
	}
	got, _ := c.HashString()
	if got != want {
		return "FAIL non-canonical got=" + clip(canonTable(c)) + " want=" + clip(table)
	}
	return "ok"
}

// GoDecPut: Unmarshal a valid tree, Put the given entries, Marshal, Unmarshal: the result lists the updated map.
func (r runner[K, V]) GoDecPut(kt string, table string, entries []string) string {
	d, err := r.unmarshal(table)
	if err != nil {
		return "FAIL unmarshal " + err.Error()
	}
	var base []string
	for _, it := range d.Items() {
		base = append(base, r.kc.show(it.Key)+"="+r.vc.show(it.Value))
	}
	r.putAll(d, entries)
	want := r.normValues(finalMap(kt, base, entries))
	// Get on the updated dictionary
	for _, e := range want {
		k, v := splitEntry(e)
		gv, ok := d.Get(r.kc.parse(k))
		if !ok || r.vc.show(gv) != v {
			return "FAIL updated-get key=" + k
		}
	}
	c, err := r.marshal(*d)
	if err != nil {
		return "FAIL marshal-after-put " + err.Error()
	}
	var d2 tlb.HashmapE[K, V]
	if err := tlb.Unmarshal(c, &d2); err != nil {
		return "FAIL unmarshal-after-put " + err.Error()
	}
	if f := r.checkDict(kt, &d2, want, "after-put"); f != "" {
		return f
	}
	return "ok"
}

// ------------------------------------------------------------------------------------------------ HashmapAugE (decode only)

func showGrams(g tlb.Grams) string { return strconv.FormatUint(uint64(g), 10) }

func showCC(c tlb.CurrencyCollection) string {
	var parts []string
	for _, it := range c.Other.Dict.Items() {
		v := big.Int(it.Value)
		parts = append(parts, strconv.FormatUint(uint64(it.Key), 10)+":"+v.String())
	}
	return showGrams(c.Grams) + "/{" + strings.Join(parts, ",") + "}"
}

func showExtraTree[X any](l *tlb.HashMapAugExtraList[X], show func(X) string) string {
	if l.Left == nil && l.Right == nil {
		return "L(" + show(l.Data) + ")"
	}
	left, right := "nil", "nil"
	if l.Left != nil {
		left = showExtraTree(l.Left, show)
	}
	if l.Right != nil {
		right = showExtraTree(l.Right, show)
	}
	return "F(" + show(l.Data) + "," + left + "," + right + ")"
}

type augRunner interface {
	GoReuse(tables []string) string
	Decode(table string) string
	DecodeInline(table string) string
	GoReal(kt, table string, entries []string) string
}

type augR[K keyC, V any, X any] struct {
	kc keyCodec[K]
	vc valCodec[V]
	xs func(X) string
}

func (r augR[K, V, X]) entries(keys []K, vals []V) (string, bool) {
	if len(keys) != len(vals) {
		return "inconsistent-items", false
	}
	var sb strings.Builder
	sb.WriteString(strconv.Itoa(len(keys)))
	for i := range keys {
		sb.WriteString(" " + r.kc.show(keys[i]) + "=" + r.vc.show(vals[i]))
	}
	return sb.String(), true
}

func (r augR[K, V, X]) Decode(table string) string {
	var d tlb.HashmapAugE[K, V, X]
	if err := tlb.Unmarshal(cellOfTable(table), &d); err != nil {
		return "err"
	}
	es, ok := r.entries(d.Keys(), d.Values())
	if !ok {
		return es
	}
	xl := d.VerifExtras()
	return "ok " + es + " | X=" + r.xs(d.VerifRootExtra()) + " T=" + showExtraTree(&xl, r.xs)
}

// GoReuse: decode several augmented dictionaries through ONE HashmapAugE variable and ONE HashmapAug variable; the struct
// copies and Keys()/Values() results retained from the earlier decodes must not change, and each decode must list
// what a fresh variable lists.
func (r augR[K, V, X]) GoReuse(tables []string) string {
	var d tlb.HashmapAugE[K, V, X]
	type kept struct {
		copy tlb.HashmapAugE[K, V, X]
		ks   []K
		vs   []V
		s    string
	}
	var keeps []kept
	for step, t := range tables {
		var fresh tlb.HashmapAugE[K, V, X]
		errF := tlb.Unmarshal(cellOfTable(t), &fresh)
		errD := tlb.Unmarshal(cellOfTable(t), &d)
		if (errF == nil) != (errD == nil) {
			return fmt.Sprintf("FAIL reused-variable-error-differs step=%d", step)
		}
		if errF != nil {
			continue
		}
		want, _ := r.entries(fresh.Keys(), fresh.Values())
		got, _ := r.entries(d.Keys(), d.Values())
		if got != want {
			return fmt.Sprintf("FAIL reused-variable-decodes-wrong step=%d got=%s want=%s", step, clip(got), clip(want))
		}
		for i, k := range keeps {
			a, _ := r.entries(k.copy.Keys(), k.copy.Values())
			b, _ := r.entries(k.ks, k.vs)
			if a != k.s || b != k.s {
				return fmt.Sprintf("FAIL retained-copy-changed step=%d copy=%d got=%s / %s want=%s", step, i, clip(a), clip(b), clip(k.s))
			}
		}
		keeps = append(keeps, kept{copy: d, ks: d.Keys(), vs: d.Values(), s: got})
	}
	// the inline form: HashmapAug decodes into its receiver directly
	var in tlb.HashmapAug[K, V, X]
	var prev string
	var prevKeys []K
	var prevVals []V
	for step, t := range tables {
		c := cellOfTable(t)
		if c.BitsAvailableForRead() < 1 || len(c.Refs()) < 1 {
			continue
		}
		root := c.Refs()[0]
		var fresh tlb.HashmapAug[K, V, X]
		root.ResetCounters()
		errF := tlb.Unmarshal(root, &fresh)
		root.ResetCounters()
		errD := tlb.Unmarshal(root, &in)
		if (errF == nil) != (errD == nil) {
			return fmt.Sprintf("FAIL reused-inline-variable-error-differs step=%d", step)
		}
		if errF != nil {
			in = tlb.HashmapAug[K, V, X]{}
			prevKeys = nil
			continue
		}
		want, _ := r.entries(fresh.VerifKeys(), fresh.Values())
		got, _ := r.entries(in.VerifKeys(), in.Values())
		if got != want {
			return fmt.Sprintf("FAIL reused-inline-variable-decodes-wrong step=%d got=%s want=%s", step, clip(got), clip(want))
		}
		if prevKeys != nil {
			if b, _ := r.entries(prevKeys, prevVals); b != prev {
				return fmt.Sprintf("FAIL retained-inline-keys-changed step=%d got=%s want=%s", step, clip(b), clip(prev))
			}
		}
		prev, prevKeys, prevVals = got, in.VerifKeys(), in.Values()
	}
	return "ok"
}

func (r augR[K, V, X]) DecodeInline(table string) string {
	var d tlb.HashmapAug[K, V, X]
	if err := tlb.Unmarshal(cellOfTable(table), &d); err != nil {
		return "err"
	}
	es, ok := r.entries(d.VerifKeys(), d.Values())
	if !ok {
		return es
	}
	xl := d.VerifExtras()
	return "ok " + es + " | T=" + showExtraTree(&xl, r.xs)
}

// GoReal: Unmarshal of an augmented dictionary taken from chain data lists exactly the entries the independent reader
// (augParse) finds, in ascending key order.
func (r augR[K, V, X]) GoReal(kt, table string, entries []string) string {
	var d tlb.HashmapAugE[K, V, X]
	if err := tlb.Unmarshal(cellOfTable(table), &d); err != nil {
		return "FAIL unmarshal " + err.Error()
	}
	got, _ := r.entries(d.Keys(), d.Values())
	want := make([]string, len(entries))
	for i, e := range entries {
		k, v := splitEntry(e)
		want[i] = k + "=" + r.vc.show(r.vc.parse(v))
	}
	if got != wantItems(want) {
		return "FAIL aug-items got=" + clip(got) + " want=" + clip(wantItems(want))
	}
	return "ok"
}

var augs = map[string]augRunner{}

func regAugU32[K keyC](name string) {
	kc := dicts[name+"/U32"].(runner[K, tlb.Uint32]).kc
	augs[name+"/U32/U32"] = augR[K, tlb.Uint32, tlb.Uint32]{kc, u32Codec, u32Codec.show}
	augs[name+"/U32/CC"] = augR[K, tlb.Uint32, tlb.CurrencyCollection]{kc, u32Codec, showCC}
}

func regAugReal[K keyC](name string) {
	kc := dicts[name+"/U32"].(runner[K, tlb.Uint32]).kc
	augs[name+"/P/CC"] = augR[K, Payload, tlb.CurrencyCollection]{kc, pCodec, showCC}
	augs[name+"/P/DBI"] = augR[K, Payload, tlb.DepthBalanceInfo]{kc, pCodec, func(x tlb.DepthBalanceInfo) string {
		return strconv.FormatUint(uint64(x.SplitDepth), 10) + "|" + showCC(x.Balance)
	}}
	augs[name+"/P/IF"] = augR[K, Payload, tlb.ImportFees]{kc, pCodec, func(x tlb.ImportFees) string {
		return showGrams(x.FeesCollected) + "+" + showCC(x.ValueImported)
	}}
	augs[name+"/R/CC"] = augR[K, tlb.Ref[Payload], tlb.CurrencyCollection]{kc, rCodec, showCC}
}

func augOf(a []string) augRunner {
	if len(augs) == 0 {
		regAugU32[tlb.Uint8]("u8")
		regAugU32[tlb.Uint32]("u32")
		regAugU32[tlb.Int16]("i16")
		regAugU32[tlb.Bits96]("b96")
		regAugU32[tlb.Bits256]("b256")
		regAugReal[tlb.Bits256]("b256")
		regAugReal[tlb.Uint64]("u64")
		regAugReal[tlb.Uint16]("u16")
	}
	r, ok := augs[a[0]+"/"+a[1]+"/"+a[2]]
	if !ok {
		panic("no aug dictionary type " + strings.Join(a[:3], "/"))
	}
	return r
}

var augKeyTypes = []string{"u8", "u32", "i16", "b96", "b256"}

// ---- independent reader of augmented dictionaries

// skipExtra returns the number of bits and refs an extra of the given type occupies at the start of (bits, refs).
func skipExtra(xt, bits string, nrefs int) (nb, nr int, ok bool) {
	grams := func(b string) (int, bool) {
		if len(b) < 4 {
			return 0, false
		}
		ln, _ := strconv.ParseInt(b[:4], 2, 64)
		if len(b) < 4+8*int(ln) {
			return 0, false
		}
		return 4 + 8*int(ln), true
	}
	cc := func(b string, refs int) (int, int, bool) {
		g, ok := grams(b)
		if !ok || len(b) < g+1 {
			return 0, 0, false
		}
		if b[g] == '1' {
			if refs < 1 {
				return 0, 0, false
			}
			return g + 1, 1, true
		}
		return g + 1, 0, true
	}
	switch xt {
	case "NONE":
		return 0, 0, true
	case "U32":
		return 32, 0, len(bits) >= 32
	case "CC":
		return cc(bits, nrefs)
	case "DBI":
		if len(bits) < 5 {
			return 0, 0, false
		}
		b, r, ok := cc(bits[5:], nrefs)
		return b + 5, r, ok
	case "IF":
		g, ok := grams(bits)
		if !ok {
			return 0, 0, false
		}
		b, r, ok := cc(bits[g:], nrefs)
		return g + b, r, ok
	}
	panic("unknown extra type " + xt)
}

// augParse reads `HashmapAug m X Y` by the TL-B definition (pruned branches are skipped). It returns the entries (key
// bits, value = rest of the leaf) and a trimmed copy of the tree in which the refs of the values are replaced by
// empty stub cells when stub is set (the dictionary decoder never looks inside them).
func augParse(n *node, m int, prefix, xt string, stub bool, out *[]specEntry, budget *int) (*node, bool) {
	*budget--
	if *budget < 0 {
		return nil, false
	}
	if n.ty == 1 {
		return &node{ty: 1, bits: n.bits}, true
	}
	if n.ty != 0 {
		return nil, false
	}
	var dummy []specEntry
	b := n.bits
	l, label, rest, ok := parseLabel(b, m)
	_ = dummy
	if !ok {
		return nil, false
	}
	if l == m {
		xb, xr, ok := skipExtra(xt, rest, len(n.refs))
		if !ok {
			return nil, false
		}
		val := &node{bits: rest[xb:], refs: n.refs[xr:]}
		copyN := &node{bits: n.bits, refs: append([]*node{}, n.refs[:xr]...)}
		if stub {
			sv := &node{bits: val.bits}
			for range val.refs {
				sv.refs = append(sv.refs, &node{})
				copyN.refs = append(copyN.refs, &node{})
			}
			val = sv
		} else {
			copyN.refs = append(copyN.refs, val.refs...)
		}
		*out = append(*out, specEntry{key: prefix + label, val: val})
		return copyN, true
	}
	if len(n.refs) < 2 {
		return nil, false
	}
	xb, xr, ok := skipExtra(xt, rest, len(n.refs)-2)
	if !ok || xb != len(rest) || xr > len(n.refs)-2 { // (an inline root may be followed by further refs of its container)
		return nil, false
	}
	lo, ok1 := augParse(n.refs[0], m-l-1, prefix+label+"0", xt, stub, out, budget)
	if !ok1 {
		return nil, false
	}
	hi, ok2 := augParse(n.refs[1], m-l-1, prefix+label+"1", xt, stub, out, budget)
	if !ok2 {
		return nil, false
	}
	return &node{bits: n.bits, refs: append([]*node{lo, hi}, n.refs[2:]...)}, true
}

// parseLabel reads one HmLabel ~l m from the front of b.
func parseLabel(b string, m int) (l int, label, rest string, ok bool) {
	switch {
	case len(b) >= 1 && b[0] == '0':
		i := 1
		for i < len(b) && b[i] == '1' {
			i++
		}
		if i >= len(b) {
			return 0, "", "", false
		}
		l = i - 1
		if l > m || len(b) < i+1+l {
			return 0, "", "", false
		}
		return l, b[i+1 : i+1+l], b[i+1+l:], true
	case len(b) >= 2 && b[:2] == "10":
		w := bitLen(m)
		if len(b) < 2+w {
			return 0, "", "", false
		}
		v, _ := strconv.ParseInt("0"+b[2:2+w], 2, 64)
		l = int(v)
		if l > m || len(b) < 2+w+l {
			return 0, "", "", false
		}
		return l, b[2+w : 2+w+l], b[2+w+l:], true
	case len(b) >= 3 && b[:2] == "11":
		w := bitLen(m)
		if len(b) < 3+w {
			return 0, "", "", false
		}
		v, _ := strconv.ParseInt("0"+b[3:3+w], 2, 64)
		l = int(v)
		if l > m {
			return 0, "", "", false
		}
		return l, strings.Repeat(b[2:3], l), b[3+w:], true
	}
	return 0, "", "", false
}

// ------------------------------------------------------------------------------------------------ independent spec encoder

// node is a cell tree of the generator (bits as a '0'/'1' string).
type node struct {
	ty     int
	bits   string
	refs   []*node
	isFork bool // set by specTree on fork nodes (a leaf may carry refs of its value)
}

func flatten(root *node) []h.Row {
	var rows []h.Row
	var visit func(n *node) int
	visit = func(n *node) int {
		i := len(rows)
		rows = append(rows, h.Row{})
		refs := make([]int, len(n.refs))
		for j, c := range n.refs {
			refs[j] = visit(c)
		}
		rows[i] = h.Row{Ty: n.ty, BitLen: len(n.bits), Data: bitStrToBytes(n.bits), Refs: refs}
		return i
	}
	visit(root)
	return rows
}

func tableOf(root *node) string { return h.TableString(flatten(root)) }

func bitLen(m int) int {
	n := 0
	for m > 0 {
		n++
		m >>= 1
	}
	return n
}

func binN(v, w int) string {
	s := strconv.FormatInt(int64(v), 2)
	if v == 0 {
		s = ""
	}
	if len(s) > w {
		panic("binN overflow")
	}
	return strings.Repeat("0", w-len(s)) + s
}

// label forms: 0 short, 1 long, 2 same
func encLabel(form int, label string, m int) string {
	switch form {
	case 0:
		return "0" + strings.Repeat("1", len(label)) + "0" + label
	case 1:
		return "10" + binN(len(label), bitLen(m)) + label
	default:
		b := "0"
		if len(label) > 0 {
			b = label[:1]
		}
		return "11" + b + binN(len(label), bitLen(m))
	}
}

func allSame(s string) bool {
	for i := 1; i < len(s); i++ {
		if s[i] != s[0] {
			return false
		}
	}
	return true
}

type specEntry struct {
	key string // remaining key bits
	val *node  // payload: bits + refs appended to the leaf cell
}

// formChooser picks the label form for a label of the given length; canonical() is what tongo's encoder picks.
type formChooser func(label string, m int, room int) int

// specTree builds the cell tree of `Hashmap m X` for entries sorted by key bits (all keys m bits, distinct).
func specTree(es []specEntry, m int, choose formChooser, st *labelStats) *node {
	if len(es) == 1 {
		e := es[0]
		form := choose(e.key, m, 1023-len(e.val.bits))
		st.count(form, len(e.key))
		return &node{bits: encLabel(form, e.key, m) + e.val.bits, refs: e.val.refs}
	}
	first, last := es[0].key, es[len(es)-1].key
	l := 0
	for l < m && first[l] == last[l] {
		l++
	}
	label := first[:l]
	split := sort.Search(len(es), func(i int) bool { return es[i].key[l] == '1' })
	sub := func(part []specEntry) []specEntry {
		out := make([]specEntry, len(part))
		for i, e := range part {
			out[i] = specEntry{key: e.key[l+1:], val: e.val}
		}
		return out
	}
	form := choose(label, m, 1023)
	st.count(form, l)
	return &node{isFork: true, bits: encLabel(form, label, m), refs: []*node{
		specTree(sub(es[:split]), m-l-1, choose, st),
		specTree(sub(es[split:]), m-l-1, choose, st),
	}}
}

type labelStats struct{ g *h.G }

func (s *labelStats) count(form, l int) {
	if s == nil || s.g == nil {
		return
	}
	name := []string{"short", "long", "same"}[form]
	bucket := "0"
	switch {
	case l >= 10:
		bucket = "10+"
	case l >= 7:
		bucket = strconv.Itoa(l)
	case l >= 1:
		bucket = "1-6"
	}
	s.g.Count("label_" + name + "_len_" + bucket)
}

// canonicalForm is TON's choice (crypto/vm/dict.cpp append_dict_label): the shortest form; hml_short wins a tie
// with hml_long, and both win a tie with hml_same.
func canonicalForm(label string, m int) int {
	n, k := len(label), bitLen(m)
	switch {
	case n > 1 && k < 2*n-1 && allSame(label):
		return 2
	case k < n:
		return 1
	default:
		return 0
	}
}

func canonicalForms(label string, m int, room int) int { return canonicalForm(label, m) }

func randomForms(g *h.G) formChooser {
	return func(label string, m int, room int) int {
		var ok []int
		if 2+2*len(label) <= room {
			ok = append(ok, 0)
		}
		if 2+bitLen(m)+len(label) <= room {
			ok = append(ok, 1)
		}
		if allSame(label) && 3+bitLen(m) <= room {
			ok = append(ok, 2, 2)
		}
		if len(ok) == 0 {
			return 1
		}
		return ok[g.Rng.Intn(len(ok))]
	}
}

// hashmapE wraps a Hashmap root (or nil) into the HashmapE cell.
func hashmapE(root *node) *node {
	if root == nil {
		return &node{bits: "0"}
	}
	return &node{bits: "1", refs: []*node{root}}
}

// ------------------------------------------------------------------------------------------------ independent strict parser (real dictionaries)

// specParse reads `Hashmap m X` strictly by the TL-B definition: returns the entries (key bits, payload) or false.
func specParse(n *node, m int, prefix string, out *[]specEntry, budget *int, canon *bool) bool {
	*budget--
	if *budget < 0 || n.ty != 0 {
		return false
	}
	b := n.bits
	var l int
	var label string
	form := 0
	switch {
	case len(b) >= 1 && b[0] == '0':
		i := 1
		for i < len(b) && b[i] == '1' {
			i++
		}
		if i >= len(b) {
			return false
		}
		l = i - 1
		if l > m || len(b) < i+1+l {
			return false
		}
		label, b = b[i+1:i+1+l], b[i+1+l:]
	case len(b) >= 2 && b[:2] == "10":
		form = 1
		w := bitLen(m)
		if len(b) < 2+w {
			return false
		}
		v, _ := strconv.ParseInt("0"+b[2:2+w], 2, 64)
		l = int(v)
		if l > m || len(b) < 2+w+l {
			return false
		}
		label, b = b[2+w:2+w+l], b[2+w+l:]
	case len(b) >= 3 && b[:2] == "11":
		form = 2
		w := bitLen(m)
		if len(b) < 3+w {
			return false
		}
		v, _ := strconv.ParseInt("0"+b[3:3+w], 2, 64)
		l = int(v)
		if l > m {
			return false
		}
		label, b = strings.Repeat(b[2:3], l), b[3+w:]
	default:
		return false
	}
	if canon != nil && form != canonicalForm(label, m) {
		*canon = false
	}
	if l == m {
		*out = append(*out, specEntry{key: prefix + label, val: &node{bits: b, refs: n.refs}})
		return true
	}
	if len(b) != 0 || len(n.refs) != 2 {
		return false
	}
	return specParse(n.refs[0], m-l-1, prefix+label+"0", out, budget, canon) &&
		specParse(n.refs[1], m-l-1, prefix+label+"1", out, budget, canon)
}

func nodeOfCell(c *boc.Cell, memo map[*boc.Cell]*node) *node {
	if n, ok := memo[c]; ok {
		return n
	}
	r := h.RowOf(c)
	n := &node{ty: r.Ty, bits: bytesToBitStr(r.Data)[:r.BitLen]}
	memo[c] = n
	for _, ch := range c.Refs() {
		n.refs = append(n.refs, nodeOfCell(ch, memo))
	}
	return n
}

func unfoldedSize(n *node, memo map[*node]int) int {
	if v, ok := memo[n]; ok {
		return v
	}
	s := 1
	for _, c := range n.refs {
		s += unfoldedSize(c, memo)
		if s > 1<<30 {
			s = 1 << 30
		}
	}
	memo[n] = s
	return s
}

func hasExotic(n *node, memo map[*node]bool) bool {
	if v, ok := memo[n]; ok {
		return v
	}
	memo[n] = false
	r := n.ty != 0
	for _, c := range n.refs {
		r = r || hasExotic(c, memo)
	}
	memo[n] = r
	return r
}

type realDict struct {
	canon   bool // every label in TON's canonical (shortest) form under this key width
	kt      string
	root    *node
	entries []specEntry
	src     string
}

var realWidthTypes = []struct {
	n  int
	kt string
}{{8, "u8"}, {16, "u16"}, {32, "u32"}, {64, "u64"}, {96, "b96"}, {256, "b256"}, {320, "b320"}, {352, "b352"}}

// findRealDicts scans every cell of the repo's test BOCs for trees that are strictly valid `Hashmap n X` with >= 2 leaves.
func findRealDicts(repo string) []realDict {
	var files []string
	for _, pat := range []string{"tlb/testdata/block-*/block.bin", "ton/testdata/*.boc", "ton/testdata/*.bin", "tlb/testdata/hashmap_aug.hex"} {
		m, _ := filepath.Glob(filepath.Join(repo, pat))
		files = append(files, m...)
	}
	sort.Strings(files)
	var out []realDict
	type source struct {
		name  string
		roots []*boc.Cell
	}
	var sources []source
	parse := func(name string, f func() ([]*boc.Cell, error)) {
		var roots []*boc.Cell
		var err error
		func() {
			defer func() {
				if recover() != nil {
					err = fmt.Errorf("panic")
				}
			}()
			roots, err = f()
		}()
		if err == nil && len(roots) > 0 {
			sources = append(sources, source{name, roots})
		}
	}
	for _, f := range files {
		data, err := os.ReadFile(f)
		if err != nil {
			continue
		}
		name := filepath.Base(filepath.Dir(f)) + "/" + filepath.Base(f)
		if strings.HasSuffix(f, ".hex") {
			parse(name, func() ([]*boc.Cell, error) { return boc.DeserializeBocHex(strings.TrimSpace(string(data))) })
		} else {
			parse(name, func() ([]*boc.Cell, error) { return boc.DeserializeBoc(data) })
		}
	}
	// BOC literals (base64 "te6cc…", hex "b5ee9c72…") in the test sources of the whole repo: wallet messages
	// (highload payloads), contract states, config fragments
	var tests []string
	filepath.Walk(repo, func(path string, info os.FileInfo, err error) error {
		if err == nil && !info.IsDir() && strings.HasSuffix(path, "_test.go") {
			tests = append(tests, path)
		}
		return nil
	})
	sort.Strings(tests)
	lit := regexp.MustCompile(`te6cc[A-Za-z0-9+/=_-]{20,}|(?i:b5ee9c72)[0-9a-fA-F]{20,}`)
	seenLit := map[string]bool{}
	for _, f := range tests {
		data, err := os.ReadFile(f)
		if err != nil {
			continue
		}
		rel, _ := filepath.Rel(repo, f)
		for i, m := range lit.FindAllString(string(data), -1) {
			if seenLit[m] {
				continue
			}
			seenLit[m] = true
			name := fmt.Sprintf("%s#%d", rel, i)
			if strings.HasPrefix(m, "te6cc") {
				parse(name, func() ([]*boc.Cell, error) { return boc.DeserializeBocBase64(m) })
			} else if len(m)%2 == 0 {
				parse(name, func() ([]*boc.Cell, error) { return boc.DeserializeBocHex(m) })
			}
		}
	}
	for _, src := range sources {
		roots := src.roots
		memo := map[*boc.Cell]*node{}
		var order []*node
		seen := map[*node]bool{}
		queue := []*node{}
		for _, r := range roots {
			queue = append(queue, nodeOfCell(r, memo))
		}
		for len(queue) > 0 {
			n := queue[0]
			queue = queue[1:]
			if seen[n] {
				continue
			}
			seen[n] = true
			order = append(order, n)
			queue = append(queue, n.refs...)
		}
		sizes := map[*node]int{}
		exo := map[*node]bool{}
		inside := map[*node]bool{}
		var mark func(n *node)
		mark = func(n *node) {
			if inside[n] {
				return
			}
			inside[n] = true
			for _, c := range n.refs {
				mark(c)
			}
		}
		for _, n := range order {
			if inside[n] || len(n.refs) != 2 || hasExotic(n, exo) || unfoldedSize(n, sizes) > 6000 {
				continue
			}
			// a tree may parse under several key widths: prefer the width under which it is canonical (that is how TON
			// wrote it); a tree that is canonical under no width is still a valid dictionary to decode
			var best *realDict
			for _, wt := range realWidthTypes {
				var es []specEntry
				budget := 4000
				canon := true
				if specParse(n, wt.n, "", &es, &budget, &canon) && len(es) >= 2 && len(es) <= 400 {
					d := realDict{canon: canon, kt: wt.kt, root: n, entries: es, src: src.name}
					if best == nil || (canon && !best.canon) {
						best = &d
					}
					if canon {
						break
					}
				}
			}
			if best != nil {
				out = append(out, *best)
				mark(n)
			}
		}
	}
	return out
}

// ------------------------------------------------------------------------------------------------ generator

func randBits(g *h.G, n int) string {
	b := make([]byte, n)
	for i := range b {
		b[i] = '0' + byte(g.Rng.Intn(2))
	}
	return string(b)
}

func addBig(bits string, d int64) string {
	n := len(bits)
	v, _ := new(big.Int).SetString(bits, 2)
	v.Add(v, big.NewInt(d))
	mod := new(big.Int).Lsh(big.NewInt(1), uint(n))
	v.Mod(v, mod)
	s := v.Text(2)
	return strings.Repeat("0", n-len(s)) + s
}

// keySet returns distinct n-bit keys (unsorted) of roughly the requested size, in one of the adversarial shapes.
func keySet(g *h.G, kt string, size int) (keys []string, shape string) {
	n := ktWidth(kt)
	if n < 20 && size > 1<<uint(n) {
		size = 1 << uint(n)
	}
	set := map[string]bool{}
	add := func(k string) {
		if len(k) != n {
			panic("keySet width")
		}
		if kt == "a288" && !wcFits(k) {
			// representable workchains only: sign-extend bit 24..31
			k = strings.Repeat(k[24:25], 24) + k[24:]
		}
		if !set[k] {
			set[k] = true
			keys = append(keys, k)
		}
	}
	run := func(l int) string { return strings.Repeat(string('0'+byte(g.Rng.Intn(2))), l) }
	shapeID := g.Rng.Intn(8)
	if size <= 1 {
		shapeID = 0
	}
	tries := 0
	switch shapeID {
	case 0:
		shape = "random"
		for len(keys) < size && tries < 10*size+10 {
			add(randBits(g, n))
			tries++
		}
	case 1:
		shape = "common-prefix"
		p := g.Pick(n-1, n-2, n-8, n-9, 7, 8, 9, n/2, g.Rng.Intn(n))
		if p < 0 {
			p = 0
		}
		if p > n-1 {
			p = n - 1
		}
		pre := randBits(g, p)
		if g.Rng.Intn(2) == 0 {
			pre = run(p)
		}
		for len(keys) < size && tries < 10*size+10 {
			add(pre + randBits(g, n-p))
			tries++
		}
	case 2:
		shape = "runs"
		// prefix ++ run(6..10|15|16) ++ suffix: some edge label is exactly the run (plus its branch bit)
		for len(keys) < size && tries < 10*size+10 {
			a := g.Rng.Intn(n/2 + 1)
			l := g.Pick(6, 7, 8, 9, 10, 15, 16)
			if a+l > n {
				l = n - a
			}
			base := randBits(g, a) + run(l)
			grp := 2 + g.Rng.Intn(3)
			for j := 0; j < grp; j++ {
				add(base + randBits(g, n-len(base)))
				tries++
			}
		}
	case 3:
		shape = "dense-range"
		start := randBits(g, n)
		switch g.Rng.Intn(4) {
		case 0:
			start = strings.Repeat("0", n)
		case 1:
			start = addBig(strings.Repeat("1", n), int64(-size/2)) // wraps through max -> 0
		}
		for i := 0; i < size; i++ {
			add(addBig(start, int64(i)))
		}
	case 4:
		shape = "min-max"
		add(strings.Repeat("0", n))
		add(strings.Repeat("1", n))
		add("1" + strings.Repeat("0", n-1))
		add("0" + strings.Repeat("1", n-1))
		for len(keys) < size && tries < 10*size+10 {
			add(randBits(g, n))
			tries++
		}
	case 5:
		shape = "both-signs"
		zero := strings.Repeat("0", n)
		for i := 0; i < size; i++ {
			add(addBig(zero, int64(i-size/2)))
		}
	case 6:
		shape = "last-bit-pairs"
		for len(keys) < size && tries < 10*size+10 {
			if n == 1 {
				add("0")
				add("1")
				break
			}
			b := randBits(g, n-1)
			add(b + "0")
			add(b + "1")
			tries++
		}
	default:
		shape = "clustered"
		// a few clusters sharing long prefixes, with all-zero/all-one tails
		for len(keys) < size && tries < 10*size+10 {
			p := g.Rng.Intn(n)
			pre := randBits(g, p)
			for j := 0; j < 3; j++ {
				tail := randBits(g, n-p)
				if g.Rng.Intn(3) == 0 {
					tail = run(n - p)
				}
				add(pre + tail)
				tries++
			}
		}
	}
	if len(keys) > size && size > 0 {
		keys = keys[:size]
	}
	return keys, shape
}

func randSmallCell(g *h.G, maxBits, maxRefs, depth int) *node {
	n := &node{bits: randBits(g, g.Rng.Intn(maxBits+1))}
	if depth > 0 {
		for i := g.Rng.Intn(maxRefs + 1); i > 0; i-- {
			n.refs = append(n.refs, randSmallCell(g, 40, 2, depth-1))
		}
	}
	return n
}

// randValue returns (value text for put ops, payload node appended to a leaf in spec trees).
func randValue(g *h.G, vt string, maxPayloadBits int) (string, *node) {
	switch vt {
	case "U32":
		v := uint32(g.U64())
		return strconv.FormatUint(uint64(v), 10), &node{bits: binN64(uint64(v), 32)}
	case "B256":
		b := g.Bytes(32)
		return hex.EncodeToString(b), &node{bits: bytesToBitStr(b)}
	case "P":
		mb := g.Pick(0, 1, 8, 33, 100)
		if mb > maxPayloadBits {
			mb = maxPayloadBits
		}
		c := randSmallCell(g, mb, g.Pick(0, 0, 1, 2, 4), 2)
		return tableOf(c), c
	default: // R
		c := randSmallCell(g, 64, 2, 2)
		return tableOf(c), &node{refs: []*node{c}}
	}
}

func binN64(v uint64, w int) string {
	s := strconv.FormatUint(v, 2)
	if len(s) > w {
		s = s[len(s)-w:]
	}
	return strings.Repeat("0", w-len(s)) + s
}

var c05KeyWeights = []string{
	"u1", "u2", "u3", "u7", "u8", "u8", "u9", "u15", "u16", "u16", "u17", "u31", "u32", "u32", "u33", "u63", "u64", "u64",
	"i1", "i2", "i3", "i7", "i8", "i8", "i9", "i15", "i16", "i16", "i17", "i31", "i32", "i32", "i33", "i63", "i64", "i64",
	"b80", "b96", "b128", "b256", "b256", "b264", "b320", "b352", "b512", "a288", "a288",
}

func genC05(g *h.G) {
	for _, v := range []uint64{0, 1, 2, 3, 7, 8, 9, 255, 256, 288, 511, 512, 1023, 1 << 32, 1<<63 - 1, 1 << 63, ^uint64(0)} {
		g.Emit("hm.minbits", strconv.FormatUint(v, 10))
	}
	for k := uint(0); k < 64; k++ { // every power of two and its neighbours; every value below 1100 (all key sizes)
		for _, v := range []uint64{1<<k - 1, 1 << k, 1<<k + 1} {
			g.Emit("hm.minbits", strconv.FormatUint(v, 10))
		}
	}
	for v := 0; v < 1100; v++ {
		g.Emit("hm.minbits", strconv.Itoa(v))
	}
	for i := 0; i < 40; i++ {
		g.Emit("hm.minbits", strconv.FormatUint(g.U64(), 10))
	}
	nMaps := g.Scale(2000, 60000)
	for i := 0; i < nMaps; i++ {
		genOneMap(g)
	}
	genBoundary(g)
	genTypedLayer(g, g.Scale(200, 4000))
	genReuse(g, g.Scale(400, 8000))
	genAug(g, g.Scale(300, 4000))
	genMalformed(g, g.Scale(800, 12000))
	genReal(g)
	genRealAug(g)
}

func pickSize(g *h.G) int {
	switch g.Rng.Intn(20) {
	case 0:
		return 0
	case 1, 2:
		return 1
	case 3, 4:
		return 2
	case 5, 6:
		return 3
	case 7:
		return 100 + g.Rng.Intn(101)
	case 8, 9:
		return 20 + g.Rng.Intn(60)
	default:
		return 3 + g.Rng.Intn(14)
	}
}

func shuffled(g *h.G, xs []string) []string {
	out := append([]string{}, xs...)
	g.Rng.Shuffle(len(out), func(a, b int) { out[a], out[b] = out[b], out[a] })
	return out
}

func genOneMap(g *h.G) {
	kt := c05KeyWeights[g.Rng.Intn(len(c05KeyWeights))]
	vt := []string{"U32", "U32", "B256", "P", "P", "R"}[g.Rng.Intn(6)]
	if g.Rng.Intn(7) == 0 { // the remaining integer widths (Uint32 values only)
		kt, vt = u32OnlyKeyTypes[g.Rng.Intn(len(u32OnlyKeyTypes))], "U32"
	}
	n := ktWidth(kt)
	size := pickSize(g)
	keys, shape := keySet(g, kt, size)
	sort.Strings(keys)
	g.Count("keytype_" + kt[:1])
	g.Count(fmt.Sprintf("width_%d", n))
	g.Count("shape_" + shape)
	g.Count("valtype_" + vt)
	switch {
	case len(keys) == 0:
		g.Count("size_0")
	case len(keys) == 1:
		g.Count("size_1")
	case len(keys) <= 3:
		g.Count("size_2-3")
	case len(keys) <= 20:
		g.Count("size_4-20")
	case len(keys) <= 99:
		g.Count("size_21-99")
	default:
		g.Count("size_100-200")
	}
	if len(keys) >= 2 {
		g.NonTrivial(kt + "/" + strings.Join(keys, ","))
	}
	maxPayload := 1023 - (2 + bitLen(n) + n) - 2
	entries := make([]string, len(keys)) // ascending key-bit order
	spec := make([]specEntry, len(keys))
	for i, k := range keys {
		vtext, vnode := randValue(g, vt, maxPayload)
		entries[i] = keyText(kt, k) + "=" + vtext
		spec[i] = specEntry{key: k, val: vnode}
	}
	// insertion orders: ascending, descending, shuffles; one of them with replacing updates appended
	orders := [][]string{entries}
	if len(entries) > 1 {
		desc := make([]string, len(entries))
		for i, e := range entries {
			desc[len(entries)-1-i] = e
		}
		orders = append(orders, desc, shuffled(g, entries), shuffled(g, entries))
		if g.Thorough() {
			orders = append(orders, shuffled(g, entries))
		}
	}
	withUpdates := shuffled(g, entries)
	for j := 0; j < len(entries) && j < 3; j++ {
		k, _ := splitEntry(entries[g.Rng.Intn(len(entries))])
		vtext, _ := randValue(g, vt, maxPayload)
		withUpdates = append(withUpdates, k+"="+vtext)
	}
	g.Emit("hm.putkeys", append([]string{kt, vt}, withUpdates...)...)
	for _, o := range orders {
		g.Emit("hm.build", append([]string{kt, vt}, o...)...)
	}
	g.Emit("hm.build", append([]string{kt, vt}, withUpdates...)...)
	g.Emit("go.hm.roundtrip", append([]string{kt, vt}, withUpdates...)...)
	g.Emit("go.hm.roundtrip", append([]string{kt, vt}, orders[len(orders)-1]...)...)

	// the same mapping as a tree written by an independent encoder with random label forms
	var root *node
	if len(spec) > 0 {
		root = specTree(spec, n, randomForms(g), &labelStats{g})
	}
	table := tableOf(hashmapE(root))
	if len(spec) > 0 { // the same mapping written canonically by the independent encoder: tongo must re-encode it bit-exactly
		g.Emit("go.hm.reencode", kt, vt, tableOf(hashmapE(specTree(spec, n, canonicalForms, nil))))
	}
	g.Emit("hm.decode", kt, vt, table)
	if g.Rng.Intn(4) == 0 { // the bare Hashmap (no Maybe ^ wrapper): same tree at the root, same entries by Put
		bare := &node{}
		if root != nil {
			bare = root
		}
		g.Emit("hmb.decode", kt, vt, tableOf(bare))
		g.Emit("hmb.build", append([]string{kt, vt}, orders[len(orders)-1]...)...)
		g.Count("bare_hashmap")
	}
	g.Emit("go.hm.spec", append([]string{kt, vt, table}, entries...)...)
	present := map[string]bool{}
	for _, k := range keys {
		present[k] = true
	}
	var probe []string
	for _, k := range keys {
		if len(probe) < 8 || g.Rng.Intn(8) == 0 {
			probe = append(probe, keyText(kt, k))
		}
	}
	probe = append(probe, absentKeys(kt, present, 5)...)
	g.Emit("hm.get", append([]string{kt, vt, table}, shuffled(g, probe)...)...)
	// updates on the decoded dictionary: new keys (both below and above everything, and for signed types on both
	// sides of zero), replacements
	var puts []string
	for _, k := range absentKeys(kt, present, 4) {
		vtext, _ := randValue(g, vt, maxPayload)
		puts = append(puts, k+"="+vtext)
	}
	for _, kb := range []string{strings.Repeat("0", n), strings.Repeat("1", n), "0" + strings.Repeat("1", n-1), addBig(strings.Repeat("0", n), 2)} {
		if !present[kb] && g.Rng.Intn(2) == 0 && (kt != "a288" || wcFits(kb)) {
			vtext, _ := randValue(g, vt, maxPayload)
			puts = append(puts, keyText(kt, kb)+"="+vtext)
		}
	}
	if len(entries) > 0 {
		k, _ := splitEntry(entries[g.Rng.Intn(len(entries))])
		vtext, _ := randValue(g, vt, maxPayload)
		puts = append(puts, k+"="+vtext)
	}
	puts = shuffled(g, puts)
	g.Emit("hm.decput", append([]string{kt, vt, table}, puts...)...)
	g.Emit("go.hm.decput", append([]string{kt, vt, table}, puts...)...)
}

// genTypedLayer: integer keys outside their declared width (within the Go kind: Uint7 is a uint8), and NewHashmapE with
// key / value slices of different lengths.
func genTypedLayer(g *h.G, count int) {
	under := func(n int) int {
		switch {
		case n <= 8:
			return 8
		case n <= 16:
			return 16
		case n <= 32:
			return 32
		}
		return 64
	}
	var narrow []string
	for _, kt := range append(append([]string{}, keyTypes...), u32OnlyKeyTypes...) {
		if (kt[0] == 'u' || kt[0] == 'i') && ktWidth(kt) < under(ktWidth(kt)) {
			narrow = append(narrow, kt)
		}
	}
	sort.Strings(narrow)
	for i := 0; i < count; i++ {
		kt := narrow[g.Rng.Intn(len(narrow))]
		n, ub := ktWidth(kt), under(ktWidth(kt))
		vt := "U32"
		if _, full := dicts[kt+"/P"]; full && g.Rng.Intn(3) == 0 {
			vt = "P"
		}
		seen := map[string]bool{}
		var entries []string
		oob := 0
		for j := 2 + g.Rng.Intn(5); j > 0; j-- {
			w := n
			if g.Rng.Intn(2) == 0 {
				w = ub
			}
			bits := randBits(g, w)
			if g.Rng.Intn(4) == 0 && len(entries) > 0 { // an out-of-range twin of an earlier key: same low bits
				k0, _ := splitEntry(entries[g.Rng.Intn(len(entries))])
				tb := goKeyBits(kt, k0)
				if len(tb) == n && ub > n {
					bits = randBits(g, ub-n) + tb
					if kt[0] == 'i' && n >= 2 {
						bits = tb[:1] + randBits(g, ub-n) + tb[1:]
					}
				}
			}
			fam := kt[:1] + strconv.Itoa(len(bits))
			k := keyText(fam, bits)
			if seen[k] {
				continue
			}
			seen[k] = true
			if goKeyBits(kt, k) == "" || keyText(kt, goKeyBits(kt, k)) != k {
				oob++
			}
			vtext, _ := randValue(g, vt, 100)
			entries = append(entries, k+"="+vtext)
		}
		if oob > 0 {
			g.Count("typed_out_of_range_sets")
		} else {
			g.Count("typed_in_range_sets")
		}
		g.Emit("hm.putkeys", append([]string{kt, vt}, entries...)...)
		g.Emit("hm.build", append([]string{kt, vt}, entries...)...)
		g.Emit("go.hm.oob", append([]string{kt, vt}, entries...)...)
	}
	for i := 0; i < count/2; i++ {
		kt := c05KeyWeights[g.Rng.Intn(len(c05KeyWeights))]
		vt := []string{"U32", "B256", "P"}[g.Rng.Intn(3)]
		keys, _ := keySet(g, kt, g.Rng.Intn(5))
		args := []string{kt, vt, strconv.Itoa(len(keys))}
		for _, k := range keys {
			args = append(args, keyText(kt, k))
		}
		nv := g.Rng.Intn(6)
		if g.Rng.Intn(3) == 0 {
			nv = len(keys)
		}
		for j := 0; j < nv; j++ {
			vtext, _ := randValue(g, vt, 100)
			args = append(args, vtext)
		}
		switch {
		case nv < len(keys):
			g.Count("slices_fewer_values")
		case nv > len(keys):
			g.Count("slices_more_values")
		default:
			g.Count("slices_equal")
		}
		g.Emit("hm.new", args...)
	}
}

// genBoundary: leaf cells at the 1023-bit capacity, labels of exactly 7/8/9 bits, workchains outside int8.
func genBoundary(g *h.G) {
	for _, kt := range []string{"u8", "i9", "u64", "b256", "b512", "a288"} {
		n := ktWidth(kt)
		labelLen := 2 + bitLen(n) + n // hml_long of the whole key
		if n < 8 {
			labelLen = 2 + 2*n
		}
		for _, d := range []int{-1, 0, 1, 2} {
			pl := 1023 - labelLen + d
			if pl > 1023 {
				continue
			}
			keys, _ := keySet(g, kt, 1)
			c := &node{bits: randBits(g, pl)}
			g.Emit("hm.build", kt, "P", keyText(kt, keys[0])+"="+tableOf(c))
			g.Count("boundary_leaf_capacity")
		}
	}
	// two keys sharing exactly l bits, l around the short/long threshold
	for _, kt := range []string{"u16", "i16", "u32", "b80", "b256"} {
		n := ktWidth(kt)
		for l := 5; l <= 10 && l < n; l++ {
			for _, pre := range []string{randBits(g, l), strings.Repeat("0", l), strings.Repeat("1", l)} {
				a := pre + "0" + randBits(g, n-l-1)
				b := pre + "1" + randBits(g, n-l-1)
				g.Emit("hm.build", kt, "U32", keyText(kt, b)+"=1", keyText(kt, a)+"=2")
				g.Emit("go.hm.roundtrip", kt, "U32", keyText(kt, b)+"=1", keyText(kt, a)+"=2")
				g.Count(fmt.Sprintf("boundary_label_len_%d", l))
			}
		}
	}
	// 288-bit address keys whose 32-bit workchain is not the sign extension of an int8: valid dictionaries that the Go
	// key type cannot represent
	for i := 0; i < 6; i++ {
		var spec []specEntry
		var entries []string
		var ks []string
		for j := 0; j < 3; j++ {
			wc := []string{"00000000000000000000000100000000", "01111111111111111111111111111111", "11111111111111111111111101111111",
				"00000000000000000000000010000000", "10000000000000000000000000000000"}[g.Rng.Intn(5)]
			ks = append(ks, wc+randBits(g, 256))
		}
		sort.Strings(ks)
		for _, k := range ks {
			vtext, vnode := randValue(g, "U32", 0)
			spec = append(spec, specEntry{key: k, val: vnode})
			entries = append(entries, keyText("a288", k)+"="+vtext)
		}
		table := tableOf(hashmapE(specTree(spec, 288, randomForms(g), nil)))
		g.Emit("hm.decode", "a288", "U32", table)
		g.Emit("go.hm.spec_wc32", append([]string{"a288", "U32", table}, entries...)...)
		g.Count("boundary_wc32")
	}
}

// random extras of the given type: (bits, refs)
func randGrams(g *h.G) string {
	ln := g.Pick(0, 1, 2, 4, 8)
	if g.Rng.Intn(40) == 0 {
		ln = 9 + g.Rng.Intn(7) // more than 8 bytes: tongo's Grams reports an overflow
	}
	return binN(ln, 4) + randBits(g, 8*ln)
}

func randCC(g *h.G) (string, []*node) {
	bits := randGrams(g)
	if g.Rng.Intn(4) != 0 {
		return bits + "0", nil
	}
	keys, _ := keySet(g, "u32", 1+g.Rng.Intn(3))
	sort.Strings(keys)
	var spec []specEntry
	for _, k := range keys {
		ln := g.Rng.Intn(5)
		spec = append(spec, specEntry{key: k, val: &node{bits: binN(ln, 5) + randBits(g, 8*ln)}})
	}
	return bits + "1", []*node{specTree(spec, 32, randomForms(g), nil)}
}

func randExtra(g *h.G, xt string) (string, []*node) {
	switch xt {
	case "U32":
		return randBits(g, 32), nil
	case "CC":
		return randCC(g)
	case "DBI":
		b, r := randCC(g)
		return binN(g.Rng.Intn(31), 5) + b, r
	default: // IF
		b, r := randCC(g)
		return randGrams(g) + b, r
	}
}

// augTree builds one HashmapAugE[K, Uint32, X] cell tree with random label forms and random extras.
func augTree(g *h.G, kt, xt string, size int) *node {
	n := ktWidth(kt)
	keys, _ := keySet(g, kt, size)
	sort.Strings(keys)
	var spec []specEntry
	for _, k := range keys {
		// leaf: extra then value
		xb, xr := randExtra(g, xt)
		spec = append(spec, specEntry{key: k, val: &node{bits: xb + randBits(g, 32), refs: xr}})
	}
	xb, xr := randExtra(g, xt)
	top := &node{bits: "0" + xb, refs: xr}
	if len(spec) > 0 {
		root := specTree(spec, n, randomForms(g), nil)
		addForkExtras(g, root, xt)
		top = &node{bits: "1" + xb, refs: append([]*node{root}, xr...)}
	}
	return top
}

// genAug: HashmapAugE[K, Uint32, X] trees (X = Uint32 or CurrencyCollection) with random label forms.
func genAug(g *h.G, count int) {
	for i := 0; i < count; i++ {
		kt := augKeyTypes[g.Rng.Intn(len(augKeyTypes))]
		xt := "U32"
		if g.Rng.Intn(3) == 0 {
			xt = "CC"
		}
		top := augTree(g, kt, xt, g.Pick(0, 1, 2, 3, 5, 9, 30))
		if g.Rng.Intn(6) == 0 {
			mutateTree(g, top)
			g.Count("aug_mutated")
		}
		g.Count("aug_trees_" + xt)
		g.Emit("hma.decode", kt, "U32", xt, tableOf(top))
	}
	for i := 0; i < count/4; i++ { // several dictionaries through one variable
		kt := augKeyTypes[g.Rng.Intn(len(augKeyTypes))]
		args := []string{kt, "U32", "U32"}
		for j := 2 + g.Rng.Intn(3); j > 0; j-- {
			args = append(args, tableOf(augTree(g, kt, "U32", g.Pick(1, 2, 3, 5, 9))))
		}
		g.Count("reuse_aug_sequences")
		g.Emit("go.hma.reuse", args...)
	}
}

// genReuse: stateful sequences over one dictionary variable and the values retained from it (see GoReuse).
func genReuse(g *h.G, count int) {
	for i := 0; i < count; i++ {
		kt := c05KeyWeights[g.Rng.Intn(len(c05KeyWeights))]
		n := ktWidth(kt)
		bare := g.Rng.Intn(3) == 0
		var script []string
		nU := 0
		// sizes so that a later dictionary is smaller than, as large as, and larger than an earlier one
		sizes := [][]int{{5, 2, 5, 9}, {3, 3, 1, 6}, {8, 4, 8, 2, 12}, {1, 1, 2}, {6, 6, 6}, {2, 7, 3}}[g.Rng.Intn(6)]
		randEntry := func() string {
			ks, _ := keySet(g, kt, 1)
			return keyText(kt, ks[0]) + "=" + strconv.FormatUint(uint64(uint32(g.U64())), 10)
		}
		for _, size := range sizes {
			if size == 0 && bare {
				size = 1
			}
			keys, _ := keySet(g, kt, size)
			sort.Strings(keys)
			var spec []specEntry
			var entries []string
			for _, k := range keys {
				vtext, vnode := randValue(g, "U32", 0)
				spec = append(spec, specEntry{key: k, val: vnode})
				entries = append(entries, keyText(kt, k)+"="+vtext)
			}
			root := specTree(spec, n, randomForms(g), nil)
			top := root
			if !bare {
				top = hashmapE(root)
			}
			script = append(script, "U|"+tableOf(top)+"|"+strings.Join(entries, "+"))
			nU++
			for j := g.Rng.Intn(3); j > 0; j-- {
				switch g.Rng.Intn(4) {
				case 0, 1:
					e := randEntry()
					if len(entries) > 0 && g.Rng.Intn(3) == 0 { // replace an existing key
						k, _ := splitEntry(entries[g.Rng.Intn(len(entries))])
						_, v := splitEntry(e)
						e = k + "=" + v
					}
					script = append(script, "P|"+e)
				case 2:
					script = append(script, fmt.Sprintf("C|%d|%s", g.Rng.Intn(nU), randEntry()))
				default:
					script = append(script, "M")
				}
			}
		}
		script = append(script, "M")
		if bare {
			g.Count("reuse_sequences_bare")
			g.Emit("go.hmb.reuse", append([]string{kt, "U32"}, script...)...)
		} else {
			g.Count("reuse_sequences_hashmapE")
			g.Emit("go.hm.reuse", append([]string{kt, "U32"}, script...)...)
		}
	}
}

func addForkExtras(g *h.G, n *node, xt string) {
	if len(n.refs) >= 2 && n.isFork {
		lo, hi := n.refs[0], n.refs[1]
		xb, xr := randExtra(g, xt)
		n.bits += xb
		n.refs = append(n.refs, xr...)
		addForkExtras(g, lo, xt)
		addForkExtras(g, hi, xt)
	}
}

// ---- real augmented dictionaries and transaction out_msgs dictionaries, located by the block layout

func hasPrefixHex(n *node, hx string) bool {
	want := bytesToBitStr(h.MustUnHex(hx))
	return strings.HasPrefix(n.bits, want)
}

func countNodes(n *node, seen map[*node]bool) int {
	if seen[n] {
		return 0
	}
	seen[n] = true
	c := 1
	for _, r := range n.refs {
		c += countNodes(r, seen)
	}
	return c
}

type realAugStats struct {
	g        *h.G
	txBudget int
}

// emitAugE emits the decode ops for one HashmapAugE cell of chain data; returns the un-stubbed entries.
func (st *realAugStats) emitAugE(kt, vt, xt string, cell *node, what string) []specEntry {
	g := st.g
	if cell.ty != 0 || len(cell.bits) < 1 {
		g.Count("realaug_skipped_" + what)
		return nil
	}
	top := &node{bits: cell.bits, refs: append([]*node{}, cell.refs...)}
	var entries, full []specEntry
	if cell.bits[0] == '1' {
		if len(cell.refs) < 1 {
			g.Count("realaug_skipped_" + what)
			return nil
		}
		budget := 20000
		trimmed, ok := augParse(cell.refs[0], ktWidth(kt), "", xt, true, &entries, &budget)
		if !ok || len(entries) > 700 {
			g.Count("realaug_unparsed_" + what)
			return nil
		}
		budget = 20000
		augParse(cell.refs[0], ktWidth(kt), "", xt, false, &full, &budget)
		top.refs[0] = trimmed
	}
	table := tableOf(top)
	args := []string{kt, vt, xt, table}
	for _, e := range entries {
		args = append(args, keyText(kt, e.key)+"="+tableOf(e.val))
	}
	g.Count("realaug_" + what)
	g.Count(fmt.Sprintf("realaug_entries_%s_%d", what, len(entries)/50*50))
	g.NonTrivial("realaug/" + what + "/" + table[:imin(len(table), 200)])
	g.Emit("hma.decode", kt, vt, xt, table)
	g.Emit("go.hma.real", args...)
	return full
}

// emitAccountBlock: AccountBlock = acc_trans#5 account_addr:bits256 transactions:(HashmapAug 64 ^Transaction CC)
// state_update:^(HASH_UPDATE Account): the inline HashmapAug, and the out_msgs dictionary of every transaction.
func (st *realAugStats) emitAccountBlock(val *node, what string) {
	g := st.g
	if len(val.bits) < 260 || val.bits[:4] != "0101" {
		g.Count("realaug_accountblock_unrecognised")
		return
	}
	inner := &node{bits: val.bits[260:], refs: val.refs}
	var entries, full []specEntry
	budget := 5000
	trimmed, ok := augParse(inner, 64, "", "CC", true, &entries, &budget)
	if !ok {
		g.Count("realaug_inline_unparsed")
		return
	}
	budget = 5000
	augParse(inner, 64, "", "CC", false, &full, &budget)
	g.Count("realaug_inline_transactions_dict")
	g.Emit("hmai.decode", "u64", "R", "CC", tableOf(trimmed))
	for _, e := range full {
		if st.txBudget <= 0 {
			g.Count("realtx_over_budget")
			return
		}
		if len(e.val.refs) < 1 {
			continue
		}
		tx := e.val.refs[0]
		if tx.ty != 0 || len(tx.bits) < 4 || tx.bits[:4] != "0111" || len(tx.refs) < 1 {
			g.Count("realtx_unrecognised")
			continue
		}
		r1 := tx.refs[0]
		if r1.ty != 0 || len(r1.bits) < 2 {
			continue
		}
		idx := 0
		if r1.bits[0] == '1' {
			idx = 1
		}
		if r1.bits[1] != '1' || len(r1.refs) <= idx {
			g.Count("realtx_no_out_msgs")
			continue
		}
		var es []specEntry
		b2 := 2000
		trimmedDict, ok := augParse(r1.refs[idx], 15, "", "NONE", true, &es, &b2)
		if !ok {
			g.Count("realtx_out_msgs_unparsed")
			continue
		}
		st.txBudget--
		table := tableOf(hashmapE(trimmedDict))
		g.Count(fmt.Sprintf("realtx_out_msgs_%d", len(es)))
		g.Emit("hm.decode", "u15", "R", table)
		g.Emit("go.hm.reencode", "u15", "R", table)
	}
}

func genRealAug(g *h.G) {
	repo := os.Getenv("VERIF_REPO")
	if repo == "" {
		repo = "/repo"
	}
	st := &realAugStats{g: g, txBudget: g.Scale(400, 100000)}
	load := func(f string) *node {
		data, err := os.ReadFile(f)
		if err != nil {
			return nil
		}
		var roots []*boc.Cell
		func() {
			defer func() { recover() }()
			if strings.HasSuffix(f, ".hex") {
				roots, err = boc.DeserializeBocHex(strings.TrimSpace(string(data)))
			} else {
				roots, err = boc.DeserializeBoc(data)
			}
		}()
		if err != nil || len(roots) == 0 {
			return nil
		}
		return nodeOfCell(roots[0], map[*boc.Cell]*node{})
	}
	blocks, _ := filepath.Glob(filepath.Join(repo, "tlb/testdata/block-*/block.bin"))
	more, _ := filepath.Glob(filepath.Join(repo, "ton/testdata/*.bin"))
	blocks = append(blocks, more...)
	sort.Strings(blocks)
	for _, f := range blocks {
		n := load(f)
		if n == nil || !hasPrefixHex(n, "11ef55aa") || len(n.refs) != 4 {
			continue
		}
		g.Count("realaug_block_files")
		extra := n.refs[3]
		if extra.ty == 0 && hasPrefixHex(extra, "4a33f6fd") && len(extra.refs) >= 3 {
			st.emitAugE("b256", "P", "IF", extra.refs[0], "in_msg_descr")
			st.emitAugE("b256", "P", "CC", extra.refs[1], "out_msg_descr")
			for _, e := range st.emitAugE("b256", "P", "CC", extra.refs[2], "account_blocks") {
				st.emitAccountBlock(e.val, "account_blocks")
			}
		}
		upd := n.refs[2]
		if upd.ty == 4 && len(upd.refs) == 2 {
			for _, stt := range upd.refs {
				if stt.ty == 0 && hasPrefixHex(stt, "9023afe2") && len(stt.refs) >= 2 {
					st.emitAugE("b256", "P", "DBI", stt.refs[1], "shard_accounts")
				}
			}
		}
	}
	if n := load(filepath.Join(repo, "tlb/testdata/hashmap_aug.hex")); n != nil {
		for _, e := range st.emitAugE("b256", "P", "CC", n, "hashmap_aug_hex") {
			st.emitAccountBlock(e.val, "hashmap_aug_hex")
		}
	}
}

func allNodes(n *node, out *[]*node) {
	*out = append(*out, n)
	for _, c := range n.refs {
		allNodes(c, out)
	}
}

// mutateTree damages one cell of a tree: flip / drop / add bits, drop or duplicate refs, change the cell type.
func mutateTree(g *h.G, root *node) string {
	var ns []*node
	allNodes(root, &ns)
	n := ns[g.Rng.Intn(len(ns))]
	switch g.Rng.Intn(9) {
	case 0:
		if len(n.bits) > 0 {
			i := g.Rng.Intn(imin(len(n.bits), 12))
			b := []byte(n.bits)
			b[i] ^= 1
			n.bits = string(b)
		}
		return "flip-head-bit"
	case 1:
		if len(n.bits) > 0 {
			n.bits = n.bits[:g.Rng.Intn(len(n.bits))]
		}
		return "truncate"
	case 2:
		n.bits = ""
		return "empty-bits"
	case 3:
		if len(n.refs) > 0 {
			n.refs = n.refs[:len(n.refs)-1]
		}
		return "drop-ref"
	case 4:
		n.ty = 1
		return "pruned"
	case 5:
		n.ty = 2
		return "library"
	case 6:
		if len(n.bits) > 3 {
			i := g.Rng.Intn(len(n.bits))
			b := []byte(n.bits)
			b[i] ^= 1
			n.bits = string(b)
		}
		return "flip-any-bit"
	case 7:
		if len(n.refs) == 2 {
			n.refs[0], n.refs[1] = n.refs[1], n.refs[0]
		}
		return "swap-refs"
	default:
		n.bits = "1" + n.bits
		if len(n.bits) > 1023 {
			n.bits = n.bits[:1023]
		}
		return "shift"
	}
}

// genMalformed: damaged dictionary trees and random cell DAGs through the decoder (exact correspondence only).
func genMalformed(g *h.G, count int) {
	for i := 0; i < count; i++ {
		kt := c05KeyWeights[g.Rng.Intn(len(c05KeyWeights))]
		vt := []string{"U32", "B256", "P", "R"}[g.Rng.Intn(4)]
		n := ktWidth(kt)
		if g.Rng.Intn(5) == 0 {
			t := g.RandOrdinaryTable(h.DagOpts{MaxCells: g.Pick(1, 3, 8), MaxBits: g.Pick(8, 40, 300)})
			if len(t[0].Data) > 0 && g.Rng.Intn(2) == 0 {
				t[0].Data[0] |= 0x80
			}
			g.Count("malformed_random-dag")
			g.Emit("hm.decode", kt, vt, h.TableString(t))
			continue
		}
		keys, _ := keySet(g, kt, g.Pick(1, 2, 3, 6, 12))
		sort.Strings(keys)
		var spec []specEntry
		for _, k := range keys {
			_, vnode := randValue(g, vt, 100)
			spec = append(spec, specEntry{key: k, val: vnode})
		}
		top := hashmapE(specTree(spec, n, randomForms(g), nil))
		kind := mutateTree(g, top)
		if g.Rng.Intn(4) == 0 {
			kind += "+" + mutateTree(g, top)
		}
		g.Count("malformed_" + strings.SplitN(kind, "+", 2)[0])
		table := tableOf(top)
		g.Emit("hm.decode", kt, vt, table)
		if len(keys) > 0 && g.Rng.Intn(3) == 0 {
			g.Emit("hm.get", kt, vt, table, keyText(kt, keys[0]), keyText(kt, keys[len(keys)-1]))
		}
	}
}

// genReal: dictionaries found in the BOC files of the repo's testdata.
func genReal(g *h.G) {
	repo := os.Getenv("VERIF_REPO")
	if repo == "" {
		repo = "/repo"
	}
	ds := findRealDicts(repo)
	limit := g.Scale(400, 5000)
	for i, d := range ds {
		if i >= limit {
			g.Count("real_skipped_over_limit")
			continue
		}
		table := tableOf(hashmapE(d.root))
		var entries []string
		for _, e := range d.entries {
			entries = append(entries, keyText(d.kt, e.key)+"="+tableOf(e.val))
		}
		g.Count("real_dict_" + d.kt)
		g.Count("real_src_" + strings.SplitN(d.src, "#", 2)[0])
		g.NonTrivial("real/" + d.src + "/" + d.entries[0].key)
		g.Emit("hm.decode", d.kt, "P", table)
		g.Emit("go.hm.real", append([]string{d.kt, "P", table}, entries...)...)
		if d.canon {
			g.Count("real_canonical")
			g.Emit("go.hm.reencode", d.kt, "P", table)
		} else {
			g.Count("real_noncanonical_under_any_width")
		}
	}
	if len(ds) == 0 {
		g.Count("real_none_found")
	}
}
