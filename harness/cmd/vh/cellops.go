package main

import (
	"strconv"
	"strings"

	"github.com/tonkeeper/tongo/boc"
	"verifharness/h"
)

// Shared cell executors usable by every property: canonical dump and representation hash of a table's root.
var cellExec = map[string]h.ExecFn{
	// cell.canon <table> -> canonical table of row 0 as rebuilt and re-read through real cells
	"cell.canon": func(a []string) string {
		cs := h.BuildCells(h.ParseTable(a[0]))
		return h.Canon(cs[:1])
	},
	// cell.hash <table> -> "ok <hash hex> <depth>" | "err"   (Cell.Hash of row 0, plus level-3 depth via hook)
	"cell.hash": func(a []string) string {
		cs := h.BuildCells(h.ParseTable(a[0]))
		hs, err := cs[0].Hash()
		if err != nil {
			return "err"
		}
		return "ok " + h.Hex(hs)
	},
	// cell.levels <table> -> "ok h0 d0 h1 d1 h2 d2 h3 d3 level" | "err"
	"cell.levels": func(a []string) string {
		cs := h.BuildCells(h.ParseTable(a[0]))
		hs, ds, err := boc.VerifHashLevels(cs[0])
		if err != nil {
			return "err"
		}
		var sb strings.Builder
		sb.WriteString("ok")
		for l := 0; l < 4; l++ {
			sb.WriteString(" " + h.Hex(hs[l]) + " " + strconv.Itoa(ds[l]))
		}
		sb.WriteString(" " + strconv.Itoa(cs[0].Level()))
		return sb.String()
	},
}

func withCells(m map[string]h.ExecFn) map[string]h.ExecFn {
	for k, v := range cellExec {
		m[k] = v
	}
	return withPrim(m)
}
