//go:build c03

package main

import (
	"math/rand"
	"reflect"
	"strings"

	"github.com/tonkeeper/tongo/tlb"
	"verifharness/h"
	"verifharness/tlbx"
)

// genNilPointers: values Go can represent but the encoder must REJECT WITH AN ERROR, never with a panic (AUDIT item
// 10a): a nil pointer in a field that is not optional — in particular a nil pointer to a type with a value-receiver
// MarshalTLB (e.g. *tlb.MsgAddress), which tlb.Marshal called through the nil pointer before the `fix:` —, a
// MsgAddress whose selected payload pointer (AddrExtern / AddrVar) is nil, the zero VmCellSlice. Each value goes
// through tlb.enc (the model must say `err` too) and go.rt. A private random source: the other streams do not move.
func genNilPointers(g *h.G) {
	rng := rand.New(rand.NewSource(g.Seed*7919 + 10))
	gc := tlbx.NewGenCtx(rng, tlbU)
	gc.ModelOnly = true
	emit := func(tt *tlbType, v reflect.Value) {
		txt := tlbx.Print(v)
		if strings.Contains(txt, ":?") {
			return
		}
		if tt.Class != "opaque" && tt.Class != "not-tlb" {
			// whatever else the type holds: the encoder meets the nil pointer (or an earlier error) — `err` on both sides
			g.Emit("tlb.enc", tt.Name, tt.Ty, tt.Env, txt)
		}
		g.Emit("go.rt", tt.Name, txt)
		g.Count("nil_pointer_values")
	}
	for _, tt := range tlbTypes {
		if tt.T.Kind() != reflect.Struct || tt.Class == "unsupported" {
			continue
		}
		goOnly := tt.Class == "opaque" || tt.Class == "not-tlb"
		gc.ModelOnly = !goOnly
		for f := 0; f < tt.T.NumField(); f++ {
			sf := tt.T.Field(f)
			if sf.Type.Kind() != reflect.Pointer || !sf.IsExported() {
				continue
			}
			if tag := sf.Tag.Get("tlb"); strings.Contains(tag, "maybe") {
				continue
			}
			if _, isSum := tt.T.FieldByName("SumType"); isSum {
				continue
			}
			v := reflect.New(tt.T).Elem()
			gc.Gen(tt.D, v, "p")
			v.Field(f).Set(reflect.Zero(sf.Type))
			emit(tt, v)
		}
	}
	// tlb.Unary at every boundary (AUDIT2 B9: WriteUnary(n >= 2^63) wrote a single 0 and returned nil before the `fix:`)
	if tt := tlbLookup("tlb.Unary"); tt != nil {
		for _, n := range tlbx.UnaryBoundaries {
			v := reflect.New(tt.T).Elem()
			v.SetUint(n)
			emit(tt, v)
			g.Count("unary_boundary_values")
		}
	}
	if tt := tlbLookup("tlb.MsgAddress"); tt != nil {
		for _, st := range []string{"AddrExtern", "AddrVar"} {
			a := tlb.MsgAddress{}
			a.SumType = tlb.SumType(st)
			emit(tt, reflect.ValueOf(&a).Elem())
		}
	}
	if tt := tlbLookup("tlb.VmCellSlice"); tt != nil {
		emit(tt, reflect.New(tt.T).Elem())
	}
}
