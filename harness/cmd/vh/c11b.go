//go:build c11

package main

// Two further network oracles of C11:
//
//	go.adnl.concurrent  several goroutines call Connection.Send on ONE connection at the same time: the independent
//	                    server must receive intact frames (checksum ok, stream decryptable to the end) carrying exactly
//	                    the multiset of payloads sent, and the bytes on the wire must be what the model's single
//	                    sending cipher produces for the frames in the order they arrived.
//	go.adnl.coalesced   the server writes the handshake confirmation and the first packets in ONE Write (or cut at a
//	                    given byte position inside / right after the confirmation): every packet must come out of
//	                    Responses() — the handshake may not swallow bytes that follow the confirmation.

import (
	"bytes"
	"context"
	"crypto/ecdh"
	"crypto/ed25519"
	"encoding/binary"
	"fmt"
	"math/rand"
	"runtime"
	"sort"
	"strings"
	"sync"
	"time"

	"github.com/tonkeeper/tongo/liteclient"
	"verifharness/h"
)

// dialReal runs liteclient.NewConnection against srv; returns the client connection and the server connection.
func dialReal(srv *adnlServer, replyNonce []byte) (*liteclient.Connection, *srvConn, string) {
	type accRes struct {
		sc  *srvConn
		err error
	}
	acc := make(chan accRes, 1)
	go func() {
		sc, err := srv.accept(sessionDeadline, replyNonce)
		acc <- accRes{sc, err}
	}()
	ctx, cancel := context.WithTimeout(context.Background(), sessionDeadline)
	defer cancel()
	type connRes struct {
		c   *liteclient.Connection
		err error
	}
	connCh := make(chan connRes, 1)
	go func() {
		c, err := liteclient.NewConnection(ctx, srv.key.pub, srv.addr())
		connCh <- connRes{c, err}
	}()
	ar := <-acc
	if ar.err != nil {
		go func() {
			if r := <-connCh; r.c != nil {
				r.c.VerifRetire()
			}
		}()
		return nil, nil, "FAIL handshake-rejected-by-server " + ar.err.Error()
	}
	select {
	case r := <-connCh:
		if r.err != nil {
			ar.sc.close()
			return nil, nil, "FAIL handshake-client-error " + r.err.Error()
		}
		return r.c, ar.sc, ""
	case <-time.After(sessionDeadline):
		ar.sc.close()
		return nil, nil, "FAIL handshake-client-hangs"
	}
}

// goAdnlConcurrent args: serverSeed seed goroutines perGoroutine maxSize
func goAdnlConcurrent(a []string) string {
	quietStdout()
	if runtime.GOMAXPROCS(0) < 4 {
		runtime.GOMAXPROCS(4)
	}
	rng := rand.New(rand.NewSource(int64(atoi(a[1]))))
	ng, per, maxSize := atoi(a[2]), atoi(a[3]), atoi(a[4])
	srv, err := newADNLServer(h.MustUnHex(a[0]))
	if err != nil {
		return "FAIL listen " + err.Error()
	}
	defer srv.close()
	replyNonce := make([]byte, 32)
	rng.Read(replyNonce)
	conn, sc, fail := dialReal(srv, replyNonce)
	if fail != "" {
		return fail
	}
	defer sc.close()
	defer conn.VerifRetire()

	// payload = le32(goroutine) ‖ le32(index) ‖ filler: all distinct
	payloads := make([][][]byte, ng)
	var want []string
	for g := 0; g < ng; g++ {
		for j := 0; j < per; j++ {
			n := 8 + rng.Intn(maxSize+1)
			if rng.Intn(4) == 0 {
				n = 8
			}
			b := make([]byte, n)
			rng.Read(b)
			binary.LittleEndian.PutUint32(b, uint32(g))
			binary.LittleEndian.PutUint32(b[4:], uint32(j))
			payloads[g] = append(payloads[g], b)
			want = append(want, string(b))
		}
	}
	total := ng * per
	var srvGot []pkt
	var srvRaw []byte
	var srvErr error
	done := make(chan struct{})
	go func() {
		defer close(done)
		sc.c.SetReadDeadline(time.Now().Add(sessionDeadline))
		for i := 0; i < total; i++ {
			n, p, raw, err := sc.readFrame()
			srvRaw = append(srvRaw, raw...)
			if err != nil {
				srvErr = err
				return
			}
			srvGot = append(srvGot, pkt{n, p})
		}
	}()
	start := make(chan struct{})
	var wg sync.WaitGroup
	var mu sync.Mutex
	var sendErr error
	for g := 0; g < ng; g++ {
		wg.Add(1)
		go func(g int) {
			defer wg.Done()
			<-start
			for _, pl := range payloads[g] {
				p, err := liteclient.NewPacket(pl)
				if err == nil {
					err = conn.Send(p)
				}
				if err != nil {
					mu.Lock()
					sendErr = err
					mu.Unlock()
					return
				}
			}
		}(g)
	}
	close(start)
	wg.Wait()
	if sendErr != nil {
		return "FAIL client-send-error " + sendErr.Error()
	}
	<-done
	if srvErr != nil {
		return fmt.Sprintf("FAIL concurrent-send-corrupts-stream after=%d frames: %v", len(srvGot), srvErr)
	}
	var got []string
	perG := make([]int, ng)
	for _, p := range srvGot {
		got = append(got, string(p.payload))
		// per goroutine the packets must arrive in the order that goroutine sent them
		if len(p.payload) >= 8 {
			g, j := int(binary.LittleEndian.Uint32(p.payload)), int(binary.LittleEndian.Uint32(p.payload[4:]))
			if g < ng {
				if j != perG[g] {
					return fmt.Sprintf("FAIL concurrent-send-reorders goroutine=%d got=%d want=%d", g, j, perG[g])
				}
				perG[g]++
			}
		}
	}
	sort.Strings(got)
	sort.Strings(want)
	for i := range want {
		if got[i] != want[i] {
			return "FAIL concurrent-send-payload-multiset-differs"
		}
	}
	// the wire bytes are those of ONE continuous cipher over the frames in arrival order
	params := sc.params
	args := []string{h.Hex(params[32:64]), h.Hex(params[80:96]), "0"}
	for _, p := range srvGot {
		args = append(args, pktArg(p))
	}
	return modelCheck([]string{"adnl.send " + strings.Join(args, " ")},
		[]string{fmt.Sprintf("ok %d %s", len(srvRaw), shaHex(srvRaw))})
}

// goAdnlCoalesced args: serverSeed seed sizes cut     (cut = -1: one single Write; otherwise two Writes, the first
// carrying `cut` bytes of confirmation ‖ packets, the second — a little later — the rest)
func goAdnlCoalesced(a []string) string {
	quietStdout()
	rng := rand.New(rand.NewSource(int64(atoi(a[1]))))
	sizes := parseSizes(a[2])
	cut := atoi(a[3])
	srv, err := newADNLServer(h.MustUnHex(a[0]))
	if err != nil {
		return "FAIL listen " + err.Error()
	}
	defer srv.close()
	replyNonce := make([]byte, 32)
	rng.Read(replyNonce)
	var in []pkt
	for _, n := range sizes {
		nonce := make([]byte, 32)
		rng.Read(nonce)
		in = append(in, pkt{nonce, payloadOf(rng, n)})
	}
	type connRes struct {
		c   *liteclient.Connection
		err error
	}
	connCh := make(chan connRes, 1)
	ctx, cancel := context.WithTimeout(context.Background(), sessionDeadline)
	defer cancel()
	go func() {
		c, err := liteclient.NewConnection(ctx, srv.key.pub, srv.addr())
		connCh <- connRes{c, err}
	}()
	sc, err := srv.accept(sessionDeadline, nil) // no confirmation yet
	if err != nil {
		go func() {
			if r := <-connCh; r.c != nil {
				r.c.VerifRetire()
			}
		}()
		return "FAIL handshake-rejected-by-server " + err.Error()
	}
	defer sc.close()
	plain := specFrame(replyNonce, nil)
	for _, p := range in {
		plain = append(plain, specFrame(p.nonce, p.payload)...)
	}
	wire := sc.encrypt(plain)
	if cut < 0 || cut >= len(wire) {
		err = sc.writeRaw(wire)
	} else {
		if cut > 0 {
			err = sc.writeRaw(wire[:cut])
			time.Sleep(3 * time.Millisecond)
		}
		if err == nil {
			err = sc.writeRaw(wire[cut:])
		}
	}
	if err != nil {
		return "FAIL server-write-error " + err.Error()
	}
	var conn *liteclient.Connection
	select {
	case r := <-connCh:
		if r.err != nil {
			return "FAIL handshake-client-error " + r.err.Error()
		}
		conn = r.c
	case <-time.After(sessionDeadline):
		sc.close()
		return "FAIL handshake-client-hangs"
	}
	defer conn.VerifRetire()
	t := time.NewTimer(time.Second)
	defer t.Stop()
	for i, p := range in {
		select {
		case got := <-conn.Responses():
			if !bytes.Equal(got.Payload, p.payload) {
				return fmt.Sprintf("FAIL packet-behind-confirmation-differs frame=%d", i)
			}
		case <-t.C:
			return fmt.Sprintf("FAIL packet-behind-confirmation-lost delivered=%d of %d", i, len(in))
		}
	}
	params := sc.params
	all := append([]pkt{{replyNonce, nil}}, in...)
	return modelCheck(
		[]string{"adnl.recv " + strings.Join([]string{h.Hex(params[0:32]), h.Hex(params[64:80]), "0", h.Hex(wire)}, " ")},
		[]string{fmt.Sprintf("%d %s waiting", len(all), packetsDigest(all))})
}

// ---- keys.go, everything except the scalar multiplication ------------------------------------------------------------

// exAdnlKeyID: Address.hash
func exAdnlKeyID(a []string) string {
	b, err := liteclient.VerifAddressHash(h.MustUnHex(a[0]))
	if err != nil {
		return "err"
	}
	return "ok " + h.Hex(b)
}

// exAdnlScalar: the X25519 scalar sharedKey derives from an Ed25519 private key (SHA-512 of the seed, clamped)
func exAdnlScalar(a []string) string {
	return "ok " + h.Hex(liteclient.VerifX25519Scalar(ed25519.NewKeyFromSeed(h.MustUnHex(a[0]))))
}

// exAdnlToMont: does tongo's sharedKey accept this peer key, and the Montgomery u-coordinate (computed with math/big,
// independently of tongo and of the model) it must have used
func exAdnlToMont(a []string) string {
	pub := h.MustUnHex(a[0])
	priv := ed25519.NewKeyFromSeed(bytes.Repeat([]byte{7}, 32))
	if _, err := liteclient.VerifSharedKey(priv, pub); err != nil {
		return "rejected"
	}
	u, err := edPubToMontgomery(pub)
	if err != nil {
		return "rejected"
	}
	return "ok " + h.Hex(u)
}

// goAdnlSharedKey: sharedKey(priv, pub) is X25519(scalar sharedKey derives from priv, Montgomery form of pub) with the
// multiplication done by crypto/ecdh and the conversion by math/big
func goAdnlSharedKey(a []string) string {
	priv := ed25519.NewKeyFromSeed(h.MustUnHex(a[0]))
	peer := newServerKey(h.MustUnHex(a[1]))
	got, err := liteclient.VerifSharedKey(priv, peer.pub)
	if err != nil {
		return "FAIL sharedkey-error " + err.Error()
	}
	u, err := edPubToMontgomery(peer.pub)
	if err != nil {
		return "FAIL tomont " + err.Error()
	}
	sk, err := ecdh.X25519().NewPrivateKey(liteclient.VerifX25519Scalar(priv))
	if err != nil {
		return "FAIL ecdh " + err.Error()
	}
	pk, err := ecdh.X25519().NewPublicKey(u)
	if err != nil {
		return "FAIL ecdh " + err.Error()
	}
	want, err := sk.ECDH(pk)
	if err != nil {
		return "FAIL ecdh " + err.Error()
	}
	if !bytes.Equal(got, want) {
		return "FAIL sharedkey-is-not-x25519-of-scalar-and-montgomery-form"
	}
	return "ok"
}

// goAdnlNewKeys: newKeys sends an Ed25519 PUBLIC key whose owner shares the secret it returns: the server, from its
// own private key and that public key, computes the same value
func goAdnlNewKeys(a []string) string {
	srv := newServerKey(h.MustUnHex(a[0]))
	pub, shared, err := liteclient.VerifNewKeys(srv.pub)
	if err != nil {
		return "FAIL newkeys-error " + err.Error()
	}
	if len(pub) != 32 || len(shared) != 32 {
		return "FAIL newkeys-lengths"
	}
	want, err := srv.shared(pub)
	if err != nil {
		return "FAIL newkeys-public-not-a-point " + err.Error()
	}
	if !bytes.Equal(want, shared) {
		return "FAIL newkeys-public-key-does-not-match-shared-secret"
	}
	return "ok"
}

// ---- the same fault stream, slow consumers and long-lived sessions through the real Connection -----------------------

// goAdnlConnFaults: like go.adnl.faults, but through liteclient.NewConnection and Connection.Responses(): the server
// sends frames one of which is corrupted (or cuts the stream) and closes. Responses() must yield exactly the frames
// before the faulty one and then NOTHING — not even an empty packet — for the corrupt frame or the end of the stream.
//
//	args: serverSeed seed sizes fault
func goAdnlConnFaults(a []string) string {
	quietStdout()
	rng := rand.New(rand.NewSource(int64(atoi(a[1]))))
	sizes := parseSizes(a[2])
	f := parseFault(a[3])
	if f.frame < 0 || f.frame >= len(sizes) {
		return "bad-op"
	}
	srv, err := newADNLServer(h.MustUnHex(a[0]))
	if err != nil {
		return "FAIL listen " + err.Error()
	}
	defer srv.close()
	replyNonce := make([]byte, 32)
	rng.Read(replyNonce)
	conn, sc, fail := dialReal(srv, replyNonce)
	if fail != "" {
		return fail
	}
	defer sc.close()
	defer conn.VerifRetire()
	var in []pkt
	var plain []byte
	start := 0
	for i, n := range sizes {
		nonce := make([]byte, 32)
		rng.Read(nonce)
		p := pkt{nonce, payloadOf(rng, n)}
		in = append(in, p)
		if i == f.frame {
			start = len(plain)
		}
		plain = append(plain, specFrame(p.nonce, p.payload)...)
	}
	stream := sc.encrypt(plain)
	off, ok := f.offsetIn(len(in[f.frame].payload))
	if !ok {
		return "bad-op"
	}
	bad := f.apply(stream, start+off)
	closed := make(chan struct{})
	go func() {
		sc.writeSegmented(bad, rng)
		sc.close()
		close(closed)
	}()
	var got [][]byte
	quiet := time.NewTimer(time.Hour)
	defer quiet.Stop()
	closedCh := closed
	for done := false; !done; {
		select {
		case p := <-conn.Responses():
			got = append(got, p.Payload)
			if len(got) > len(in)+2 {
				done = true
			}
		case <-closedCh:
			// everything is written and the connection closed: whatever the client still delivers comes shortly
			closedCh = nil
			quiet.Reset(250 * time.Millisecond)
		case <-quiet.C:
			done = true
		}
	}
	for i, g := range got {
		if i >= f.frame {
			return fmt.Sprintf("FAIL delivered-for-corrupt-frame-or-end-of-stream position=%d len=%d (Responses() after a %s fault in the %s of frame %d)", i, len(g), f.kind, f.region, f.frame)
		}
		if !bytes.Equal(g, in[i].payload) {
			return fmt.Sprintf("FAIL s2c-payload-differs frame=%d", i)
		}
	}
	if len(got) != f.frame {
		return fmt.Sprintf("FAIL intact-frame-lost got=%d want=%d", len(got), f.frame)
	}
	return "ok"
}

// goAdnlSlowConsumer: the consumer of Responses() starts reading only after `sleepMs`: every packet must still arrive,
// in order (the connection's reader may block on the consumer, it may not drop).
//
//	args: serverSeed seed n sleepMs
func goAdnlSlowConsumer(a []string) string {
	quietStdout()
	rng := rand.New(rand.NewSource(int64(atoi(a[1]))))
	n, sleepMs := atoi(a[2]), atoi(a[3])
	srv, err := newADNLServer(h.MustUnHex(a[0]))
	if err != nil {
		return "FAIL listen " + err.Error()
	}
	defer srv.close()
	replyNonce := make([]byte, 32)
	rng.Read(replyNonce)
	conn, sc, fail := dialReal(srv, replyNonce)
	if fail != "" {
		return fail
	}
	defer sc.close()
	defer conn.VerifRetire()
	var in []pkt
	var plain []byte
	for i := 0; i < n; i++ {
		nonce := make([]byte, 32)
		rng.Read(nonce)
		p := pkt{nonce, payloadOf(rng, 1+rng.Intn(300))}
		in = append(in, p)
		plain = append(plain, specFrame(p.nonce, p.payload)...)
	}
	if err := sc.writeRaw(sc.encrypt(plain)); err != nil {
		return "FAIL server-write-error " + err.Error()
	}
	time.Sleep(time.Duration(sleepMs) * time.Millisecond)
	t := time.NewTimer(3 * time.Second)
	defer t.Stop()
	for i, p := range in {
		select {
		case got := <-conn.Responses():
			if !bytes.Equal(got.Payload, p.payload) {
				return fmt.Sprintf("FAIL slow-consumer-loses-packets position=%d (a later or different packet arrived)", i)
			}
		case <-t.C:
			return fmt.Sprintf("FAIL slow-consumer-loses-packets delivered=%d of %d after the consumer slept %d ms", i, n, sleepMs)
		}
	}
	return "ok"
}

// goAdnlDialDeadline: the context passed to NewConnection bounds the DIAL (and handshake), not the life of the
// connection: long after that deadline has passed, packets still flow in both directions.
//
//	args: serverSeed seed dialTimeoutMs
func goAdnlDialDeadline(a []string) string {
	quietStdout()
	rng := rand.New(rand.NewSource(int64(atoi(a[1]))))
	dialMs := atoi(a[2])
	srv, err := newADNLServer(h.MustUnHex(a[0]))
	if err != nil {
		return "FAIL listen " + err.Error()
	}
	defer srv.close()
	replyNonce := make([]byte, 32)
	rng.Read(replyNonce)
	type accRes struct {
		sc  *srvConn
		err error
	}
	acc := make(chan accRes, 1)
	go func() {
		sc, err := srv.accept(sessionDeadline, replyNonce)
		acc <- accRes{sc, err}
	}()
	ctx, cancel := context.WithTimeout(context.Background(), time.Duration(dialMs)*time.Millisecond)
	defer cancel()
	conn, cerr := liteclient.NewConnection(ctx, srv.key.pub, srv.addr())
	ar := <-acc
	if cerr != nil || ar.err != nil {
		if conn != nil {
			conn.VerifRetire()
		}
		return fmt.Sprintf("FAIL setup client=%v server=%v", cerr, ar.err)
	}
	sc := ar.sc
	defer sc.close()
	defer conn.VerifRetire()
	time.Sleep(time.Duration(2*dialMs+100) * time.Millisecond)
	// server → client
	nonce := make([]byte, 32)
	rng.Read(nonce)
	down := payloadOf(rng, 100)
	if err := sc.sendPacket(nonce, down); err != nil {
		return "FAIL connection-dead-after-dial-deadline server-write: " + err.Error()
	}
	select {
	case p := <-conn.Responses():
		if !bytes.Equal(p.Payload, down) {
			return "FAIL s2c-payload-differs"
		}
	case <-time.After(2 * time.Second):
		return "FAIL connection-dead-after-dial-deadline: nothing received"
	}
	// client → server
	up := payloadOf(rng, 100)
	p, _ := liteclient.NewPacket(up)
	if err := conn.Send(p); err != nil {
		return "FAIL connection-dead-after-dial-deadline client-send: " + err.Error()
	}
	sc.c.SetReadDeadline(time.Now().Add(2 * time.Second))
	_, gotUp, _, err := sc.readFrame()
	if err != nil || !bytes.Equal(gotUp, up) {
		return fmt.Sprintf("FAIL connection-dead-after-dial-deadline server-read: %v", err)
	}
	return "ok"
}

// goAdnlPingRace (THOROUGH tier, real time): one connection kept busy by several sender goroutines for more than two
// ping periods (the keep-alive goroutine writes every 3 s): every frame the server reads — data and pings alike — must be
// intact and the data frames must be exactly what was sent.
//
//	args: serverSeed seed goroutines seconds
func goAdnlPingRace(a []string) string {
	quietStdout()
	if runtime.GOMAXPROCS(0) < 4 {
		runtime.GOMAXPROCS(4)
	}
	rng := rand.New(rand.NewSource(int64(atoi(a[1]))))
	ng, secs := atoi(a[2]), atoi(a[3])
	srv, err := newADNLServer(h.MustUnHex(a[0]))
	if err != nil {
		return "FAIL listen " + err.Error()
	}
	defer srv.close()
	replyNonce := make([]byte, 32)
	rng.Read(replyNonce)
	conn, sc, fail := dialReal(srv, replyNonce)
	if fail != "" {
		return fail
	}
	defer sc.close()
	defer conn.VerifRetire()
	stop := time.Now().Add(time.Duration(secs) * time.Second)
	var sent [16]int64
	var wg sync.WaitGroup
	var mu sync.Mutex
	var sendErr error
	for g := 0; g < ng && g < 16; g++ {
		wg.Add(1)
		go func(g int) {
			defer wg.Done()
			for j := 0; time.Now().Before(stop); j++ {
				b := make([]byte, 16)
				binary.LittleEndian.PutUint32(b, uint32(g))
				binary.LittleEndian.PutUint32(b[4:], uint32(j))
				p, _ := liteclient.NewPacket(b)
				if err := conn.Send(p); err != nil {
					mu.Lock()
					sendErr = err
					mu.Unlock()
					return
				}
				sent[g] = int64(j + 1)
			}
		}(g)
	}
	type rd struct {
		data, pings int
		err         error
	}
	res := make(chan rd, 1)
	finished := make(chan struct{})
	go func() {
		var r rd
		next := make([]int, 16)
		for {
			sc.c.SetReadDeadline(time.Now().Add(1500 * time.Millisecond))
			_, p, _, err := sc.readFrame()
			if err != nil {
				select {
				case <-finished: // senders are done and the stream ran dry
				default:
					r.err = err
					sc.close() // the senders must not block on a peer that stopped reading
				}
				res <- r
				return
			}
			if len(p) == 12 && binary.LittleEndian.Uint32(p) == 0x4d082b9a {
				r.pings++
				// answer like a server does: without pongs the client's 10 s silence timer re-dials
				pong := append([]byte{0x03, 0xfb, 0x69, 0xdc}, p[4:]...)
				sc.sendPacket(bytes.Repeat([]byte{byte(r.pings)}, 32), pong)
				continue
			}
			if len(p) != 16 {
				r.err = fmt.Errorf("unexpected payload of %d bytes", len(p))
				sc.close()
				res <- r
				return
			}
			g, j := int(binary.LittleEndian.Uint32(p)), int(binary.LittleEndian.Uint32(p[4:]))
			if g >= 16 || j != next[g] {
				r.err = fmt.Errorf("goroutine %d: packet %d arrived, %d expected", g, j, next[g])
				sc.close()
				res <- r
				return
			}
			next[g]++
			r.data++
		}
	}()
	wg.Wait()
	close(finished)
	r := <-res
	if r.err != nil {
		return fmt.Sprintf("FAIL keepalive-races-with-send after %d data frames and %d pings: %v", r.data, r.pings, r.err)
	}
	if sendErr != nil {
		return "FAIL client-send-error " + sendErr.Error()
	}
	total := 0
	for _, n := range sent {
		total += int(n)
	}
	if r.data != total {
		return fmt.Sprintf("FAIL keepalive-races-with-send frames lost: read=%d sent=%d", r.data, total)
	}
	if r.pings < 2 {
		return fmt.Sprintf("FAIL no-keepalive-seen pings=%d in %d s", r.pings, secs)
	}
	return "ok"
}

var specialMagics = [][]byte{
	{0x03, 0xfb, 0x69, 0xdc}, // tcp.pong
	{0x9a, 0x2b, 0x08, 0x4d}, // tcp.ping
	{0x7a, 0xf9, 0x8b, 0xb4}, // adnl.message.query
	{0x16, 0x84, 0xac, 0x0f}, // adnl.message.answer
	{0xb6, 0x4a, 0x5d, 0xe3}, // tcp.authentificationNonce
	{0x12, 0xab, 0x5b, 0x44}, // tcp.authentificate
	{0xa6, 0x9e, 0xad, 0xf7}, // tcp.authentificationComplete
	{0xc6, 0xb4, 0x13, 0x48}, // pub.ed25519 / key-id prefix ("handshake-like")
}

// goAdnlMagics: the server sends payloads that BEGIN with each TL magic the client treats specially, at the lengths
// 4, 8, 11, 12, 13, 16, 64 (and the bare 3-byte prefixes), in random order: Responses() must yield exactly the ones the
// model's Connection.reader forwards — only a 12-byte tcp.pong and tcp.authentificationNonce messages are kept back.
//
//	args: serverSeed seed
func goAdnlMagics(a []string) string {
	quietStdout()
	rng := rand.New(rand.NewSource(int64(atoi(a[1]))))
	srv, err := newADNLServer(h.MustUnHex(a[0]))
	if err != nil {
		return "FAIL listen " + err.Error()
	}
	defer srv.close()
	replyNonce := make([]byte, 32)
	rng.Read(replyNonce)
	conn, sc, fail := dialReal(srv, replyNonce)
	if fail != "" {
		return fail
	}
	defer sc.close()
	defer conn.VerifRetire()
	var payloads [][]byte
	for _, m := range specialMagics {
		for _, n := range []int{3, 4, 8, 11, 12, 13, 16, 64} {
			b := make([]byte, n)
			rng.Read(b)
			copy(b, m)
			payloads = append(payloads, b)
		}
	}
	rng.Shuffle(len(payloads), func(i, j int) { payloads[i], payloads[j] = payloads[j], payloads[i] })
	payloads = append(payloads, []byte("sentinel: the last packet"))
	var want [][]byte
	hexes := make([]string, len(payloads))
	expect := make([]byte, len(payloads))
	for i, p := range payloads {
		hexes[i] = h.Hex(p)
		expect[i] = 'f'
		if len(p) >= 4 {
			switch {
			case bytes.Equal(p[:4], specialMagics[0]) && len(p) == 12:
				expect[i] = 'p'
			case bytes.Equal(p[:4], specialMagics[4]):
				expect[i] = 'a'
			}
		}
		if expect[i] == 'f' {
			want = append(want, p)
		}
	}
	var plain []byte
	for _, p := range payloads {
		nonce := make([]byte, 32)
		rng.Read(nonce)
		plain = append(plain, specFrame(nonce, p)...)
	}
	if err := sc.writeSegmented(sc.encrypt(plain), rng); err != nil {
		return "FAIL server-write-error " + err.Error()
	}
	t := time.NewTimer(2 * time.Second)
	defer t.Stop()
	for i, w := range want {
		select {
		case got := <-conn.Responses():
			if !bytes.Equal(got.Payload, w) {
				// which one is missing?
				return fmt.Sprintf("FAIL packet-swallowed-by-reader expected=%s got=%s (position %d)", clip(h.Hex(w)), clip(h.Hex(got.Payload)), i)
			}
		case <-t.C:
			return fmt.Sprintf("FAIL packet-swallowed-by-reader expected=%s, nothing more delivered (position %d of %d)", clip(h.Hex(w)), i, len(want))
		}
	}
	select {
	case got := <-conn.Responses():
		return "FAIL transport-message-delivered " + clip(h.Hex(got.Payload))
	default:
	}
	return modelCheck([]string{"adnl.reader " + strings.Join(hexes, " ")}, []string{"ok " + string(expect)})
}

// genC11Extra is called at the end of genC11.
func genC11Extra(g *h.G) {
	// the fault stream through Connection.Responses(): every (kind, region) in turn
	for i := 0; i < g.Scale(36, 600); i++ {
		n := 1 + g.Rng.Intn(5)
		sizes := make([]int, n)
		for j := range sizes {
			sizes[j] = g.Pick(1, 12, 36, 100, 1000)
		}
		f := fmt.Sprintf("%s:%d:%s:%d:%d", kinds[i%3], g.Rng.Intn(n), regions[(i/3)%4], g.Rng.Intn(1<<16), 1+g.Rng.Intn(255))
		g.Count("connfault_" + kinds[i%3] + "_" + regions[(i/3)%4])
		g.Emit("go.adnl.connfaults", h.Hex(g.Bytes(32)), fmt.Sprint(g.Rng.Int31()), joinSizes(sizes), f)
	}
	for i := 0; i < g.Scale(2, 10); i++ {
		g.Emit("go.adnl.slowconsumer", h.Hex(g.Bytes(32)), fmt.Sprint(g.Rng.Int31()), fmt.Sprint(2+g.Rng.Intn(6)), "1500")
		g.Emit("go.adnl.dialdeadline", h.Hex(g.Bytes(32)), fmt.Sprint(g.Rng.Int31()), "300")
	}
	if g.Thorough() {
		g.Emit("go.adnl.pingrace", h.Hex(g.Bytes(32)), fmt.Sprint(g.Rng.Int31()), "8", "28")
	}
	for i := 0; i < g.Scale(150, 2000); i++ {
		g.Emit("adnl.keyid", h.Hex(g.Bytes(32)))
		g.Emit("adnl.scalar", h.Hex(g.Bytes(32)))
		var pub []byte
		switch g.Rng.Intn(4) {
		case 0: // an arbitrary string: about half of them are not points
			pub = g.Bytes(32)
			g.Count("tomont_random_string")
		case 1: // points of small order and other special encodings
			pub = make([]byte, 32)
			switch g.Rng.Intn(4) {
			case 0:
				pub[0] = 1 // y = 1: the neutral element
			case 1: // y = -1
				for j := range pub {
					pub[j] = 0xff
				}
				pub[0], pub[31] = 0xec, 0x7f
			case 2: // y = 0
			default:
				pub[0] = byte(2 + g.Rng.Intn(40))
			}
			g.Count("tomont_special")
		default:
			pub = newServerKey(g.Bytes(32)).pub
			if g.Rng.Intn(2) == 0 {
				pub[31] ^= 0x80 // the other sign of x: same u
			}
			g.Count("tomont_public_key")
		}
		g.Emit("adnl.tomont", h.Hex(pub))
		g.Emit("go.adnl.sharedkey", h.Hex(g.Bytes(32)), h.Hex(g.Bytes(32)))
		g.Emit("go.adnl.newkeys", h.Hex(g.Bytes(32)))
	}
	for i := 0; i < g.Scale(40, 400); i++ {
		seed := g.Rng.Int31()
		g.NonTrivial(fmt.Sprintf("mg/%d", seed))
		g.Count("magic_prefixed_payload_sessions")
		g.Emit("go.adnl.magics", h.Hex(g.Bytes(32)), fmt.Sprint(seed))
	}
	nConc := g.Scale(200, 3000)
	for i := 0; i < nConc; i++ {
		ng := g.Pick(2, 3, 4, 8, 16)
		per := g.Pick(5, 10, 20, 40)
		maxSize := g.Pick(0, 16, 200, 200, 2000)
		if ng*per > 320 {
			per = 320 / ng
		}
		seed := g.Rng.Int31()
		g.Count(fmt.Sprintf("concurrent_goroutines_%02d", ng))
		g.NonTrivial(fmt.Sprintf("cc/%d/%d/%d/%d", seed, ng, per, maxSize))
		g.Emit("go.adnl.concurrent", h.Hex(g.Bytes(32)), fmt.Sprint(seed), fmt.Sprint(ng), fmt.Sprint(per), fmt.Sprint(maxSize))
	}
	// confirmation and first packets in one Write, and cut at every position inside / just behind the confirmation
	emit := func(cut int) {
		n := 1 + g.Rng.Intn(6)
		sizes := make([]int, n)
		for i := range sizes {
			sizes[i] = g.Pick(0, 1, 12, 36, 100, 1000, g.Rng.Intn(5000))
		}
		seed := g.Rng.Int31()
		key := "one_write"
		if cut >= 0 {
			key = fmt.Sprintf("cut_%02d", cut/10*10)
		}
		g.Count("coalesced_" + key)
		g.NonTrivial(fmt.Sprintf("co/%d/%s/%d", seed, joinSizes(sizes), cut))
		g.Emit("go.adnl.coalesced", h.Hex(g.Bytes(32)), fmt.Sprint(seed), joinSizes(sizes), fmt.Sprint(cut))
	}
	for r := 0; r < g.Scale(1, 10); r++ {
		for cut := 0; cut <= 140; cut++ {
			emit(cut)
		}
		for i := 0; i < 60; i++ {
			emit(-1)
		}
		for i := 0; i < 40; i++ {
			emit(141 + g.Rng.Intn(6000))
		}
	}
}
