//go:build c03

package main

import (
	"encoding/hex"
	"fmt"
	"reflect"
	"strings"
	"sync"

	"github.com/tonkeeper/tongo/abi"
	"github.com/tonkeeper/tongo/boc"
	"github.com/tonkeeper/tongo/tlb"
	"verifharness/abiops"
	"verifharness/h"
	"verifharness/tlbx"
)

// Opcode-tagged bodies of package abi (C03): abi.InMsgBody, abi.ExtInMessageDecoder, abi.ExtOutMsgBody and the payload
// unions abi.JettonPayload / abi.NFTPayload. The dispatch tables come from the source (package abiops, go/ast); the Go
// body types from the exported name → type maps of package abi.
//
//	abi.dec <kind> <table> <env> <cell>   compared with the model (lean/TongoModel/Tlb/OpBody.lean)
//	abi.enc <kind> <table> <env> <val>    compared with the model
//	go.abi.rt <kind> <val>                the code alone: Unmarshal(Marshal v) = v, the same layout selected
//
// <table>: the layouts registered for the opcode(s) of the line (the dispatch looks at one opcode), as a sum type.

var (
	abiOnce   sync.Once
	abiTables map[string]*abiops.Table
	abiErr    error
)

func abiLoad() {
	abiOnce.Do(func() {
		ts, err := abiops.Load(repoDir())
		abiErr = err
		abiTables = map[string]*abiops.Table{}
		for _, t := range ts {
			abiTables[t.Kind] = t
		}
	})
}

func abiKnown(kind string) map[string]any {
	switch kind {
	case "in":
		return abi.KnownMsgInTypes
	case "extin":
		return abi.KnownMsgExtInTypes
	case "extout":
		return abi.KnownMsgExtOutTypes
	case "jetton":
		return abi.KnownJettonTypes
	case "nft":
		return abi.KnownNFTTypes
	}
	return nil
}

func abiIsPayload(kind string) bool { return kind == "jetton" || kind == "nft" }

func abiUnknownName(kind string) string {
	if abiIsPayload(kind) {
		return "Cell"
	}
	return "Unknown"
}

// the dump of struct { SumType string; OpCode *uint32; Value any }
func abiDump(sumType string, op *uint32, value any) string {
	o := "~"
	if op != nil {
		o = fmt.Sprintf("(%d)", *op)
	}
	v := "~"
	if value != nil {
		rv := reflect.ValueOf(value)
		if !(rv.Kind() == reflect.Pointer && rv.IsNil()) {
			v = tlbx.Print(tlbx.Addressable(rv))
		}
	}
	return "(x" + hex.EncodeToString([]byte(sumType)) + "|" + o + "|" + v + ")"
}

// splitTop splits "(a|b|c)" at the top-level bars
func splitTop(s string) []string {
	if len(s) < 2 || s[0] != '(' || s[len(s)-1] != ')' {
		return nil
	}
	s = s[1 : len(s)-1]
	var parts []string
	depth, start := 0, 0
	for i := 0; i < len(s); i++ {
		switch s[i] {
		case '(':
			depth++
		case ')':
			depth--
		case '|':
			if depth == 0 {
				parts = append(parts, s[start:i])
				start = i + 1
			}
		}
	}
	return append(parts, s[start:])
}

// abiRead parses a dump into (SumType, OpCode, Value) with the Go type the name stands for
func abiRead(kind, s string) (string, *uint32, any, error) {
	ps := splitTop(s)
	if len(ps) != 3 || !strings.HasPrefix(ps[0], "x") {
		return "", nil, nil, fmt.Errorf("bad body")
	}
	nb, err := hex.DecodeString(ps[0][1:])
	if err != nil {
		return "", nil, nil, err
	}
	name := string(nb)
	var op *uint32
	if ps[1] != "~" {
		var x uint32
		if _, err := fmt.Sscanf(ps[1], "(%d)", &x); err != nil {
			return "", nil, nil, err
		}
		op = &x
	}
	if ps[2] == "~" {
		return name, op, nil, nil
	}
	var vt reflect.Type = reflect.TypeOf((*boc.Cell)(nil))
	if name != "" && name != abiUnknownName(kind) {
		z, ok := abiKnown(kind)[name]
		if !ok {
			return "", nil, nil, fmt.Errorf("unknown op name %q", name)
		}
		vt = reflect.TypeOf(z)
	}
	v, err := tlbx.Read(ps[2], vt)
	if err != nil {
		return "", nil, nil, err
	}
	return name, op, v.Interface(), nil
}

func abiMarshal(kind, name string, op *uint32, val any) (c *boc.Cell, err error) {
	defer func() {
		if r := recover(); r != nil {
			c, err = nil, errPanic{r}
		}
	}()
	c = boc.NewCell()
	switch kind {
	case "in":
		err = tlb.Marshal(c, abi.InMsgBody{SumType: name, OpCode: op, Value: val})
	case "jetton":
		err = tlb.Marshal(c, abi.JettonPayload{SumType: name, OpCode: op, Value: val})
	case "nft":
		err = tlb.Marshal(c, abi.NFTPayload{SumType: name, OpCode: op, Value: val})
	default:
		err = fmt.Errorf("no MarshalTLB for %s", kind)
	}
	if err != nil {
		return nil, err
	}
	return c, nil
}

func abiUnmarshal(kind string, c *boc.Cell) (s string, err error) {
	defer func() {
		if r := recover(); r != nil {
			s, err = "", errPanic{r}
		}
	}()
	c.ResetCounters()
	switch kind {
	case "in":
		var b abi.InMsgBody
		if err := tlb.Unmarshal(c, &b); err != nil {
			return "", err
		}
		return abiDump(b.SumType, b.OpCode, b.Value), nil
	case "extout":
		var b abi.ExtOutMsgBody
		if err := tlb.Unmarshal(c, &b); err != nil {
			return "", err
		}
		return abiDump(b.SumType, b.OpCode, b.Value), nil
	case "extin":
		// there is no ExtInMsgBody type: the decoder function wrapped the way InMsgBody wraps InternalMessageDecoder
		if c.CellType() == boc.LibraryCell {
			return "", fmt.Errorf("library cell")
		}
		tag, name, value, err := abi.ExtInMessageDecoder(c, nil)
		if err != nil {
			return "", err
		}
		if tag == nil && name == nil {
			return abiDump("", nil, nil), nil
		}
		if name != nil {
			return abiDump(*name, tag, value), nil
		}
		c.ResetCounters()
		return abiDump("Unknown", tag, c), nil
	case "jetton":
		var p abi.JettonPayload
		if err := tlb.Unmarshal(c, &p); err != nil {
			return "", err
		}
		return abiDump(p.SumType, p.OpCode, p.Value), nil
	case "nft":
		var p abi.NFTPayload
		if err := tlb.Unmarshal(c, &p); err != nil {
			return "", err
		}
		return abiDump(p.SumType, p.OpCode, p.Value), nil
	}
	return "", fmt.Errorf("bad kind")
}

func exAbiDec(a []string) string {
	c := h.BuildCells(h.ParseTable(a[3]))[0]
	s, err := abiUnmarshal(a[0], c)
	if err != nil {
		return outcomeOf(err)
	}
	return "ok " + s
}

func exAbiEnc(a []string) string {
	name, op, val, err := abiRead(a[0], a[3])
	if err != nil {
		return "bad-op"
	}
	c, err := abiMarshal(a[0], name, op, val)
	if err != nil {
		return outcomeOf(err)
	}
	return "ok " + tlbx.CellText(c)
}

// go.abi.rt <kind> <val>: decode(encode v) = v — in particular the same layout is selected
func goAbiRT(a []string) string {
	name, op, val, err := abiRead(a[0], a[1])
	if err != nil {
		return "bad-op"
	}
	c, err := abiMarshal(a[0], name, op, val)
	if isPanic(err) {
		return "FAIL marshal-panic " + trunc(err.Error())
	}
	if err != nil {
		return "ok enc-err"
	}
	got, err := abiUnmarshal(a[0], c)
	if err != nil {
		return "FAIL own-output-not-decodable " + trunc(err.Error())
	}
	if got != a[1] {
		return "FAIL roundtrip-value " + diffAt(a[1], got)
	}
	return "ok same"
}

func diffAt(want, got string) string {
	i := 0
	for i < len(want) && i < len(got) && want[i] == got[i] {
		i++
	}
	lo := i - 20
	if lo < 0 {
		lo = 0
	}
	w, g := want[lo:], got[lo:]
	if len(w) > 60 {
		w = w[:60]
	}
	if len(g) > 60 {
		g = g[:60]
	}
	return fmt.Sprintf("at=%d want=%s got=%s", i, w, g)
}

// abiTableText: the layouts of one opcode as a sum type + its environment; modelled = every layout has a model
func abiTableText(kind string, es []abiops.Entry) (tab, env string, modelled bool) {
	d := &tlbx.Desc{Kind: tlbx.KSum}
	modelled = true
	for i, e := range es {
		z, ok := abiKnown(kind)[e.Name]
		if !ok {
			return "", "", false
		}
		td := tlbU.Describe(reflect.TypeOf(z))
		cls, _ := tlbU.Coverage(td)
		if cls != "model" && cls != "partial" {
			modelled = false
		}
		ln := 32
		if abiIsPayload(kind) && e.Multi {
			ln = 33 // a fixed-length layout: must consume the whole cell
		}
		d.Ctors = append(d.Ctors, tlbx.Ctor{Name: e.Name, Tag: &tlbx.Tag{Len: ln, Val: uint64(e.Op)}, T: td, Index: i})
	}
	tab, env = tlbU.TyEnvText(d)
	return tab, env, modelled
}

func genAbiBodies(g *h.G) {
	tlbInit()
	abiLoad()
	if abiErr != nil {
		g.Count("abi_tables_unreadable:" + strings.ReplaceAll(abiErr.Error(), " ", "_"))
		return
	}
	gc := tlbx.NewGenCtx(g.Rng, tlbU)
	per := g.Scale(3, 60)
	for _, kind := range []string{"in", "extin", "extout", "jetton", "nft"} {
		t := abiTables[kind]
		byOp := map[uint32][]abiops.Entry{}
		for _, e := range t.Entries {
			byOp[e.Op] = append(byOp[e.Op], e)
		}
		g.Counters["abi_table_entries:"+kind] = len(t.Entries)
		emitDec := func(tab, env string, modelled bool, c *boc.Cell) {
			// the table the model gets is the list of layouts registered for the opcode THE CELL CARRIES: a damaged
			// variant whose first 32 bits happen to be another registered opcode (0xe4737472 with its top bit
			// flipped is 0x64737472) is dispatched by the Go code through ITS table (AUDIT3: latent false alarm)
			if c.BitSize() >= 32 {
				c.ResetCounters()
				op64, _ := c.PickUint(32)
				tab, env, modelled = abiTableText(kind, byOp[uint32(op64)])
			}
			if modelled {
				g.Emit("abi.dec", kind, tab, env, tlbx.CellText(c))
				g.Count("abi_dec_compared:" + kind)
			}
		}
		for _, e := range t.Entries {
			z, ok := abiKnown(kind)[e.Name]
			if !ok {
				g.Count("abi_entry_without_known_type:" + kind + ":" + e.Name)
				continue
			}
			tab, env, modelled := abiTableText(kind, byOp[e.Op])
			if !modelled {
				g.Count("abi_entry_not_modelled:" + kind + ":" + e.Name)
			}
			bt := reflect.TypeOf(z)
			bd := tlbU.Describe(bt)
			for i := 0; i < per; i++ {
				gc.ModelOnly = modelled
				v := reflect.New(bt).Elem()
				gc.Gen(bd, v, "p")
				op := e.Op
				txt := abiDump(e.Name, &op, v.Interface())
				if strings.Contains(txt, ":?") {
					g.Count("abi_value_with_interface:" + kind)
					break
				}
				g.NonTrivial("abi/" + kind + "/" + e.Name + "/" + txt[:minInt(len(txt), 80)])
				if kind == "in" || abiIsPayload(kind) {
					g.Emit("go.abi.rt", kind, txt)
					if modelled {
						g.Emit("abi.enc", kind, tab, env, txt)
					}
				}
				// the cell every encoder of such a body produces: the opcode, then the body
				c := boc.NewCell()
				if err := c.WriteUint(uint64(e.Op), 32); err != nil {
					continue
				}
				if err := func() (err error) {
					defer func() {
						if r := recover(); r != nil {
							err = fmt.Errorf("panic")
						}
					}()
					return tlb.Marshal(c, v.Interface())
				}(); err != nil {
					g.Count("abi_values_enc_err")
					continue
				}
				g.Count("abi_values_encodable:" + kind)
				emitDec(tab, env, modelled, c)
				if i == 0 {
					for _, m := range mutateCell(g, c) {
						emitDec(tab, env, modelled, m)
					}
				}
			}
		}
		// bodies outside the tables: empty, shorter than an opcode, an unregistered opcode, a registered opcode with garbage
		empty, env0, _ := abiTableText(kind, nil)
		for _, n := range []int{0, 1, 31} {
			c := boc.NewCell()
			_ = c.WriteUint(uint64(g.Rng.Int63())&(1<<uint(n)-1), n)
			emitDec(empty, env0, true, c)
			if n == 0 {
				c2 := boc.NewCell()
				_ = c2.AddRef(gc.RandCell(40, 1, 1))
				emitDec(empty, env0, true, c2)
			}
		}
		for i := 0; i < g.Scale(6, 60); i++ {
			c := gc.RandCell(300, 2, 2)
			if c.BitSize() < 32 {
				continue
			}
			c.ResetCounters()
			op64, _ := c.PickUint(32)
			tab, env, modelled := abiTableText(kind, byOp[uint32(op64)])
			emitDec(tab, env, modelled, c)
		}
		for i, e := range t.Entries {
			if i%7 != 0 && len(t.Entries) > 20 {
				continue
			}
			c := boc.NewCell()
			_ = c.WriteUint(uint64(e.Op), 32)
			junk := gc.RandCell(200, 2, 1)
			_ = c.WriteBitString(junk.RawBitString())
			for _, r := range junk.Refs() {
				_ = c.AddRef(r)
			}
			tab, env, modelled := abiTableText(kind, byOp[e.Op])
			emitDec(tab, env, modelled, c)
			g.Count("abi_known_opcode_with_junk:" + kind)
		}
	}
}
