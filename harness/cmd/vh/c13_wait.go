//go:build c13

package main

import "verifharness/h"

var waitExec = map[string]h.ExecFn{}

func genWait(g *h.G) {}
