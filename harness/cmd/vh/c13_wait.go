//go:build c13

package main

// Property C13, part (b): the wait protocol, driven on the REAL goroutines (pool.Run, WaitMasterchainSeqno,
// connection.SetMasterHead) over injected members. No code under test is edited: schedule control uses
//   - a context.Context whose Done() counts (and optionally parks) every entry of the waiter's select,
//   - the member's ID()/MasterHead() gates (called by notifySubscribers under RLock, by subscribe/updateBest under Lock),
//   - hook accessors (wait-list length, unread heads, pending updates) to detect quiescence.
//
// wait.script   scripted scenario, quiescent between steps; answer = observation after every step; compared with
//               the Lean transition system PoolSM run on the same script.
// go.wait.script  the same scenario judged by the property's rule computed directly in Go.
// go.wait.adv.*   adversarial schedules forced with the gates (the two deadlocks of the original code, random ones).

import (
	"context"
	"fmt"
	"math/rand"
	"regexp"
	"runtime"
	"strconv"
	"strings"
	"sync"
	"sync/atomic"
	"time"

	"github.com/tonkeeper/tongo/liteapi/pool"
	"verifharness/h"
)

var waitExec = map[string]h.ExecFn{
	"wait.script":           exWaitScript,
	"go.wait.script":        goWaitScript,
	"go.wait.adv.cancel":    goAdvCancel,
	"go.wait.adv.publish":   goAdvPublish,
	"go.wait.adv.random":    goAdvRandom,
	"go.wait.adv.subscribe": goAdvSubscribe,
	"go.wait.adv.queue":     goAdvQueue,
	"go.wait.deadline":      goWaitDeadline,
}

const (
	watchdog     = 2 * time.Second
	longTimeout  = time.Hour
	shortTimeout = 120 * time.Millisecond
)

// waitCtx counts every evaluation of Done() (= every entry of the waiter's select) and can park the caller there.
type waitCtx struct {
	context.Context
	cancel  context.CancelFunc
	evals   atomic.Int64
	hold    atomic.Bool
	parked  chan struct{}
	release chan struct{}
}

func newWaitCtx() *waitCtx {
	c, f := context.WithCancel(context.Background())
	return &waitCtx{Context: c, cancel: f, parked: make(chan struct{}, 1024), release: make(chan struct{}, 1024)}
}

func (c *waitCtx) Done() <-chan struct{} {
	c.evals.Add(1)
	if c.hold.Load() {
		c.parked <- struct{}{}
		<-c.release
	}
	return c.Context.Done()
}

type waiter struct {
	ctx      *waitCtx
	target   uint32
	short    bool
	parked   bool   // held at the entry of its select by the script (w:i:t:P until r:i)
	wid      uint64 // its wait-list id, 0 when subscribe short-circuited
	xdone    bool   // its x step (wait for the short timer) has been executed
	returned atomic.Bool
	err      error
	started  time.Time
	rearmed  atomic.Int64 // unix nanos of the last select entry (the timer is re-armed there)
}

type env struct {
	p        *pool.ConnPool
	vs       []*pool.VerifConn
	strategy string
	idCalls  atomic.Int64
	stopRun  context.CancelFunc
	ws       map[int]*waiter
	order    []int
	hung     string
	shortTO  time.Duration
	anomaly  bool // a short timer fired before its script step: the schedule was not realised as scripted

	// Run-side gate (script steps G / g): the next notifySubscribers is parked at its bestConn.ID() call, holding RLock
	runArmed   atomic.Bool
	runParkCh  chan struct{}
	runRelease chan struct{}
	armed      bool // harness view: G given, Run not parked yet
	runParked  bool // harness view: Run is parked inside notifySubscribers
	blocked    int  // goroutines the script has sent against the pool lock while Run is parked
	asyncTick  *atomic.Bool
	lateWaiter *waiter // arrival launched while Run was parked (its wait id is determined after the release)
	lateIDBase uint64
}

func newEnv(strategy string, heads []uint32, best int) *env {
	// through the real addConnection: `best` arrives first and so is the initial best connection
	p, vs := pool.VerifNewPoolArriving(strategy, arrivalFirst(best, len(heads)))
	markLineStart(p)
	e := &env{p: p, vs: vs, strategy: strategy, ws: map[int]*waiter{},
		runParkCh: make(chan struct{}, 4), runRelease: make(chan struct{})}
	for i, v := range vs {
		v.VerifSetAlive(true)
		v.VerifSetRTT(time.Duration(i + 1))
		v.VerifSetHeadSilently(heads[i])
		v.VerifSetGate(func(point string, id int) {
			if point == "id" {
				e.idCalls.Add(1)
				if e.runArmed.CompareAndSwap(true, false) {
					e.runParkCh <- struct{}{}
					<-e.runRelease
				}
			}
		})
	}
	if best < 0 || best >= len(vs) {
		p.VerifSetBest(nil) // not reachable through addConnection: a pool with members but without a best connection
	}
	p.VerifSetInterval(time.Hour)
	ctx, cancel := context.WithCancel(context.Background())
	e.stopRun = cancel
	go p.Run(ctx)
	return e
}

// await waits for cond. It gives up (returns false) only when cond stayed false for a full watchdog period during
// which this process was demonstrably running at its normal pace (a control goroutine sleeping 1 ms at a time kept at
// least half of its ticks): a stalled or overloaded machine is not a hang, a deadlock persists however long one waits.
func await(cond func() bool) bool {
	for round := 0; round < 12; round++ {
		var ticks atomic.Int64
		stop := make(chan struct{})
		go func() {
			for {
				select {
				case <-stop:
					return
				default:
				}
				time.Sleep(time.Millisecond)
				ticks.Add(1)
			}
		}()
		ok := waitUntil(watchdog, cond)
		close(stop)
		if ok {
			return true
		}
		if ticks.Load() >= int64(watchdog/time.Millisecond)/2 {
			return false
		}
	}
	return false
}

// awaitChan: await a value on ch.
func awaitChan(ch <-chan struct{}) bool {
	got := false
	return await(func() bool {
		if !got {
			select {
			case <-ch:
				got = true
			default:
			}
		}
		return got
	})
}

// guarded runs f and reports whether it finished (see await).
func guarded(f func()) bool {
	var done atomic.Bool
	go func() { f(); done.Store(true) }()
	return await(done.Load)
}

func waitUntil(max time.Duration, cond func() bool) bool {
	dl := time.Now().Add(max)
	for i := 0; ; i++ {
		if cond() {
			return true
		}
		if time.Now().After(dl) {
			return false
		}
		if i < 50 {
			runtime.Gosched()
		} else {
			time.Sleep(50 * time.Microsecond)
		}
	}
}

func (e *env) progress() int64 {
	var n int64
	for _, w := range e.ws {
		n += w.ctx.evals.Load()
		if w.returned.Load() {
			n++
		}
	}
	return n
}

// settle waits until at least `want` progress events (select re-entries or returns) happened since `from`, no
// registered channel holds an unread head, and the progress counter has been stable for a moment.
// expectEvents waits for `want` progress events (select re-entries or returns) since `from`. The count is what the
// CORRECT code produces; it is only a pacing hint: if the events do not come (mutated code) the wait times out and
// the observation that follows differs from the model's.
func (e *env) expectEvents(from int64, want int64) {
	await(func() bool { return e.progress() >= from+want })
	// grace for events the hint did not foresee
	last, stable := e.progress(), 0
	for i := 0; i < 2000 && stable < 3; i++ {
		time.Sleep(100 * time.Microsecond)
		if cur := e.progress(); cur == last {
			stable++
		} else {
			last, stable = cur, 0
		}
	}
}

// listening: registered waiters that are in their select (not parked, not returned)
func (e *env) listening() int64 {
	var n int64
	for _, w := range e.ws {
		if w.wid != 0 && !w.parked && !w.returned.Load() {
			n++
		}
	}
	return n
}

// startWaiter: kind L (WaitMasterchainSeqno, long timeout), S (short timer), P (parked at the entry of its select),
// M (the wait inside the public BestMasterchainClient: subscribe(1) when the best head is still 0; no timer, no loop).
func (e *env) startWaiter(i int, target uint32, kind string) {
	short, park := kind == "S", kind == "P"
	if e.runParked {
		// Run holds the read lock: the arrival queues up on the write lock inside subscribe
		w := &waiter{ctx: newWaitCtx(), target: target}
		e.ws[i] = w
		e.order = append(e.order, i)
		e.lateWaiter, e.lateIDBase = w, e.p.VerifLastWaitID()
		go func() {
			w.err = e.p.WaitMasterchainSeqno(w.ctx, target, longTimeout)
			w.returned.Store(true)
		}()
		e.blocked++
		if !await(func() bool { return blockedOnPoolLock() >= e.blocked }) {
			e.hung = fmt.Sprintf("waiter=%d did not reach the pool lock", i)
		}
		return
	}
	w := &waiter{ctx: newWaitCtx(), target: target, short: short, parked: park, started: time.Now()}
	w.ctx.hold.Store(park)
	e.ws[i] = w
	e.order = append(e.order, i)
	to := longTimeout
	if short {
		to = e.shortTO
	}
	idBefore := e.p.VerifLastWaitID()
	go func() {
		defer func() {
			if r := recover(); r != nil {
				w.err = fmt.Errorf("panic")
				w.returned.Store(true)
			}
		}()
		if kind == "M" {
			_, _, w.err = e.p.BestMasterchainClient(w.ctx)
		} else {
			w.err = e.p.WaitMasterchainSeqno(w.ctx, target, to)
		}
		w.returned.Store(true)
	}()
	if !await(func() bool { return w.ctx.evals.Load() >= 1 || w.returned.Load() }) {
		e.hung = fmt.Sprintf("subscribe waiter=%d", i)
		return
	}
	if id := e.p.VerifLastWaitID(); id != idBefore {
		w.wid = id
	}
	if park {
		if !awaitChan(w.ctx.parked) && !w.returned.Load() {
			e.hung = fmt.Sprintf("waiter=%d does not reach its select", i)
		}
		return
	}
	if w.wid == 0 {
		// subscribe short-circuited: the head is in its channel, the correct code returns at once
		await(func() bool { return w.returned.Load() })
	}
}

// unpark lets a parked waiter enter its select.
func (e *env) unpark(i int) {
	w, ok := e.ws[i]
	if !ok || !w.parked {
		return
	}
	w.parked = false
	if w.returned.Load() {
		return
	}
	from := e.progress()
	var want int64
	if w.wid == 0 || e.p.VerifUnreadOf(w.wid) > 0 {
		want = 1 // a head is waiting in its channel: it receives it and re-enters its select or returns
	}
	w.ctx.hold.Store(false)
	w.ctx.release <- struct{}{}
	e.expectEvents(from, want)
}

func (e *env) publish(c int, q uint32) {
	if e.runParked || e.armed {
		before := e.vs[c].VerifHeadSeqno()
		if !guarded(func() { e.vs[c].SetMasterHead(pool.VerifHead(q)) }) {
			e.hung = fmt.Sprintf("SetMasterHead conn=%d seqno=%d", c, q)
			return
		}
		if e.armed && q > before {
			// Run takes this update and parks inside notifySubscribers (read lock held)
			if !awaitChan(e.runParkCh) {
				e.hung = "Run did not reach notifySubscribers"
				return
			}
			e.armed, e.runParked = false, true
		}
		return
	}
	before := e.vs[c].VerifHeadSeqno()
	idBefore := e.idCalls.Load()
	from := e.progress()
	var served int64
	if e.p.VerifBestID() == c {
		served = e.listening()
	}
	if !guarded(func() { e.vs[c].SetMasterHead(pool.VerifHead(q)) }) {
		e.hung = fmt.Sprintf("SetMasterHead conn=%d seqno=%d", c, q)
		return
	}
	if q <= before {
		return
	}
	if !await(func() bool { return e.p.VerifUpdatesPending() == 0 }) {
		e.hung = fmt.Sprintf("update conn=%d seqno=%d not taken by Run", c, q)
		return
	}
	// pacing hint: notifySubscribers asks the best member for its ID() while it holds RLock; once that call is seen
	// the Status() below cannot slip in before the notification (a refactoring that no longer calls ID() only loses
	// the hint, the observations decide)
	waitUntil(20*time.Millisecond, func() bool { return e.idCalls.Load() > idBefore })
	// Status() takes the write lock: it returns only after the notifySubscribers call that is in progress has finished
	if !guarded(func() { e.p.Status() }) {
		e.hung = fmt.Sprintf("Status() after update conn=%d seqno=%d", c, q)
		return
	}
	e.expectEvents(from, served)
}

func (e *env) tick(mask int, rtts []int64) {
	for i, v := range e.vs {
		v.VerifSetAlive(mask>>uint(i)&1 == 1)
		if i < len(rtts) {
			v.VerifSetRTT(time.Duration(rtts[i]))
		}
	}
	if e.runParked {
		// the refresh queues up on the write lock; it runs right after the notification in progress
		var done atomic.Bool
		e.asyncTick = &done
		go func() { e.p.VerifUpdateBest(); done.Store(true) }()
		e.blocked++
		if !await(func() bool { return blockedOnPoolLock() >= e.blocked }) {
			e.hung = "updateBest did not reach the pool lock"
		}
		return
	}
	bestBefore := e.p.VerifBestID()
	from := e.progress()
	served := e.listening()
	if !guarded(func() { e.p.VerifUpdateBest() }) {
		e.hung = "updateBest"
		return
	}
	// a switch of the best connection offers its head to every listening waiter (pacing hint, see expectEvents)
	if nb := e.p.VerifBestID(); nb != bestBefore && nb >= 0 && e.vs[nb].VerifHeadSeqno() > 0 {
		e.expectEvents(from, served)
	}
}

// leave: cancel (or wait for the short timer of) waiter i and wait for its return.
func (e *env) leave(i int, cancel bool) {
	w, ok := e.ws[i]
	if !ok || w.returned.Load() || w.parked {
		return
	}
	if e.runParked {
		if !cancel {
			return
		}
		w.ctx.cancel()
		e.blocked++
		if !await(func() bool { return blockedOnPoolLock() >= e.blocked }) {
			e.hung = fmt.Sprintf("waiter=%d did not reach the pool lock after cancel", i)
		}
		return
	}
	if cancel {
		w.ctx.cancel()
	} else if !w.short {
		return
	}
	if !cancel {
		waitUntil(2*e.shortTO, func() bool { return w.returned.Load() })
	}
	if !await(func() bool { return w.returned.Load() }) {
		e.hung = fmt.Sprintf("waiter=%d does not return after %s", i, map[bool]string{true: "cancel", false: "timeout"}[cancel])
	}
}

// armRun: the next update Run processes parks inside notifySubscribers.
func (e *env) armRun() {
	if e.runParked || e.armed {
		return
	}
	e.armed = true
	e.runArmed.Store(true)
}

// releaseRun lets Run go on and waits until everything that was queued behind it has happened.
func (e *env) releaseRun() {
	if e.armed && !e.runParked {
		e.armed = false
		e.runArmed.Store(false)
		return
	}
	if !e.runParked {
		return
	}
	e.runParked = false
	e.runRelease <- struct{}{}
	if !await(func() bool { return e.p.VerifUpdatesPending() == 0 && blockedOnPoolLock() == 0 }) {
		e.hung = "pool does not come to rest after Run was released"
		return
	}
	if e.asyncTick != nil {
		if !await(e.asyncTick.Load) {
			e.hung = "updateBest does not return"
			return
		}
		e.asyncTick = nil
	}
	e.blocked = 0
	if !guarded(func() { e.p.Status() }) {
		e.hung = "Status() after release of Run"
		return
	}
	if w := e.lateWaiter; w != nil {
		await(func() bool { return w.ctx.evals.Load() >= 1 || w.returned.Load() })
		if id := e.p.VerifLastWaitID(); id != e.lateIDBase {
			w.wid = id
		} else {
			await(func() bool { return w.returned.Load() })
		}
		e.lateWaiter = nil
	}
	// every listening waiter drains its channel; then a grace period for the events that follow a receive
	await(func() bool {
		for _, w := range e.ws {
			if w.wid != 0 && !w.parked && !w.returned.Load() && e.p.VerifUnreadOf(w.wid) > 0 {
				return false
			}
		}
		return true
	})
	e.expectEvents(e.progress(), 0)
	time.Sleep(300 * time.Microsecond)
	e.expectEvents(e.progress(), 0)
}

func (e *env) obs(n int) string {
	var sb strings.Builder
	if e.runParked {
		// Run is parked holding the read lock, writers may be queued: only lock-free observations
		fmt.Fprintf(&sb, "P%d/", e.p.VerifUpdatesPending())
	} else {
		wl := -1
		if !guarded(func() { wl = e.p.VerifWaitListLen() }) {
			e.hung = "pool lock not available (VerifWaitListLen)"
			return "hang"
		}
		fmt.Fprintf(&sb, "%d/%d/", e.p.VerifBestID(), wl)
	}
	for i := 0; i < n; i++ {
		w, ok := e.ws[i]
		switch {
		case !ok:
			sb.WriteByte('-')
		case !w.returned.Load():
			sb.WriteByte('w')
		case w.short && !w.xdone && w.err != nil && w.err.Error() == "timeout":
			e.anomaly = true
			sb.WriteByte('e')
		case w.err == nil:
			sb.WriteByte('o')
		case w.err.Error() == "panic":
			sb.WriteByte('p')
		default:
			sb.WriteByte('e')
		}
	}
	return sb.String()
}

func (e *env) close() {
	for _, w := range e.ws {
		w.ctx.cancel()
		w.ctx.hold.Store(false)
		for k := 0; k < 8; k++ {
			select {
			case w.ctx.release <- struct{}{}:
			default:
			}
		}
	}
	e.runArmed.Store(false)
	select {
	case e.runRelease <- struct{}{}:
	default:
	}
	e.stopRun()
}

var frameRe = regexp.MustCompile(`(?m)^(goroutine (\d+) \[[^\]]*\]):\n((?:.+\n)+)`)

// curPool: the address of the pool of the current line as it appears in stack traces (receiver argument of the
// ConnPool methods). Goroutines of earlier lines (a hung pool leaks its goroutines) belong to other pools and are left
// out. (Goroutine ids cannot be used for this: they are handed out to the Ps in batches and are not monotone.)
var curPool string

func markLineStart(p *pool.ConnPool) { curPool = fmt.Sprintf("(%p", p) }

func ofCurPool(stack string) bool {
	return strings.Contains(stack, curPool+",") || strings.Contains(stack, curPool+")")
}

// poolGoroutines summarises the goroutines that are inside liteapi/pool: state + innermost frames.
func poolGoroutines() string {
	buf := make([]byte, 1<<20)
	buf = buf[:runtime.Stack(buf, true)]
	var out []string
	for _, m := range frameRe.FindAllStringSubmatch(string(buf), -1) {
		if !ofCurPool(m[3]) {
			continue
		}
		var fr []string
		for _, l := range strings.Split(m[3], "\n") {
			if strings.HasPrefix(l, "\t") || l == "" || strings.HasPrefix(l, "created by") {
				continue
			}
			if i := strings.LastIndex(l, "("); i > 0 {
				l = l[:i]
			}
			l = strings.TrimPrefix(l, "github.com/tonkeeper/tongo/")
			if strings.HasPrefix(l, "main.") || strings.HasPrefix(l, "runtime.") {
				continue
			}
			fr = append(fr, l)
			if len(fr) == 4 {
				break
			}
		}
		out = append(out, m[1]+" "+strings.Join(fr, " < "))
	}
	return fmt.Sprintf("[%d goroutines, dump %d bytes] ", runtime.NumGoroutine(), len(buf)) + strings.Join(out, " ;; ")
}

// blockedOnPoolLock counts the goroutines of this line that are waiting for the pool's write lock.
func blockedOnPoolLock() int {
	buf := make([]byte, 1<<20)
	buf = buf[:runtime.Stack(buf, true)]
	n := 0
	for _, m := range frameRe.FindAllStringSubmatch(string(buf), -1) {
		if strings.Contains(m[3], "sync.(*RWMutex).Lock") && ofCurPool(m[3]) {
			n++
		}
	}
	return n
}

// ------------------------------------------------------------------------------------------------- scripts

type script struct {
	strategy string
	heads    []uint32
	best     int
	steps    []string
	nw       int
}

func parseScript(a []string) script {
	s := script{strategy: a[0], best: atoi(a[2])}
	for _, x := range strings.Split(a[1], "/") {
		q, err := strconv.ParseUint(x, 10, 32)
		if err != nil {
			panic("bad head " + x)
		}
		s.heads = append(s.heads, uint32(q))
	}
	s.steps = a[3:]
	for _, st := range s.steps {
		f := strings.Split(st, ":")
		if f[0] == "w" && atoi(f[1])+1 > s.nw {
			s.nw = atoi(f[1]) + 1
		}
	}
	return s
}

func u32(s string) uint32 {
	q, err := strconv.ParseUint(s, 10, 32)
	if err != nil {
		panic("bad u32 " + s)
	}
	return uint32(q)
}

func parseRtts(s string) []int64 {
	var r []int64
	for _, x := range strings.Split(s, ".") {
		r = append(r, int64(atoi(x)))
	}
	return r
}

// runScript executes the scenario once. Returns the observations, "" + hang description on a hang, and whether a
// short timer fired before its script step (timing anomaly: the schedule was not realised as scripted).
func runScript(s script, shortTO time.Duration) (obs []string, hung string, anomaly bool) {
	e := newEnv(s.strategy, s.heads, s.best)
	e.shortTO = shortTO
	defer e.close()
	defer func() { anomaly = anomaly || e.anomaly }()
	for _, st := range s.steps {
		f := strings.Split(st, ":")
		switch f[0] {
		case "w":
			e.startWaiter(atoi(f[1]), u32(f[2]), f[3])
		case "r":
			e.unpark(atoi(f[1]))
		case "G":
			e.armRun()
		case "g":
			e.releaseRun()
		case "u":
			e.publish(atoi(f[1]), u32(f[2]))
		case "t":
			e.tick(atoi(f[1]), parseRtts(f[2]))
		case "c":
			e.leave(atoi(f[1]), true)
		case "x":
			if w, ok := e.ws[atoi(f[1])]; ok && w.short && !w.parked {
				if w.returned.Load() && w.err != nil && w.err.Error() == "timeout" {
					anomaly = true
				}
				w.xdone = true
			}
			e.leave(atoi(f[1]), false)
		default:
			panic("bad step " + st)
		}
		if e.hung == "" {
			obs = append(obs, e.obs(s.nw))
		}
		if e.hung != "" {
			return obs, fmt.Sprintf("step=%s: %s; goroutines: %s", st, e.hung, poolGoroutines()), anomaly
		}
	}
	// epilogue: Run and parked waiters are released, then everybody still waiting is cancelled; the wait list must
	// drain and the pool must stay responsive
	e.releaseRun()
	if e.hung != "" {
		return obs, fmt.Sprintf("epilogue: %s; goroutines: %s", e.hung, poolGoroutines()), anomaly
	}
	for _, i := range e.order {
		e.unpark(i)
		if e.hung != "" {
			return obs, fmt.Sprintf("epilogue: %s; goroutines: %s", e.hung, poolGoroutines()), anomaly
		}
	}
	for _, i := range e.order {
		e.leave(i, true)
		if e.hung != "" {
			return obs, fmt.Sprintf("epilogue: %s; goroutines: %s", e.hung, poolGoroutines()), anomaly
		}
	}
	obs = append(obs, e.obs(s.nw))
	if e.hung != "" {
		return obs, fmt.Sprintf("epilogue: %s; goroutines: %s", e.hung, poolGoroutines()), anomaly
	}
	return obs, "", anomaly
}

func runScriptStable(s script) ([]string, string) {
	// a short timer that fires before its script step (machine under load) invalidates the run: repeat it with a
	// longer timer
	for try := 0; ; try++ {
		obs, hung, anomaly := runScript(s, shortTimeout<<uint(try))
		if hung != "" || !anomaly || try == 5 {
			return obs, hung
		}
	}
}

// wait.script <strategy> <heads a/b/c> <best> <steps...>  ->  ok <obs after each step>|...|<obs after epilogue>
func exWaitScript(a []string) string {
	obs, hung := runScriptStable(parseScript(a))
	if hung != "" {
		return "hang"
	}
	return "ok " + strings.Join(obs, "|")
}

// expectScript: the property's rule, computed directly (not a model of the code): a waiter succeeds exactly when
// the connection that is best at that moment reports a head >= its target while it waits (or already has one when it
// arrives); it fails once cancelled / timed out; the chosen connection follows the selection rule.
func expectScript(s script) []string {
	heads := append([]uint32{}, s.heads...)
	best := s.best
	alive := make([]bool, len(heads))
	rtt := make([]int64, len(heads))
	for i := range alive {
		alive[i], rtt[i] = true, int64(i+1)
	}
	state := make([]byte, s.nw)
	target := make([]uint32, s.nw)
	short := make([]bool, s.nw)
	parked := make([]bool, s.nw)  // held before its select: a decision already reached shows only after release
	reached := make([]bool, s.nw) // parked and its target has been reported
	registered := make([]bool, s.nw)
	leaving := make([]bool, s.nw) // cancelled while Run holds the read lock: returns once it can unsubscribe
	for i := range state {
		state[i] = '-'
	}
	// Run-side gate: armed -> the next update of any connection is taken by Run and held inside notifySubscribers
	type upd struct {
		c int
		q uint32
	}
	var (
		armed, runParked bool
		inProgress       *upd
		queue            []upd
		lateArrival      = -1
		lateTick         []string
		lateCancel       = -1
	)
	var out []string
	snap := func() {
		if runParked {
			out = append(out, fmt.Sprintf("P%d/%s", len(queue), string(state)))
			return
		}
		wl := 0
		for i, c := range state {
			if c == 'w' && registered[i] {
				wl++
			}
		}
		out = append(out, fmt.Sprintf("%d/%d/%s", best, wl, string(state)))
	}
	offer := func(q uint32) { // the best connection reports q to everybody who listens
		for i := range state {
			if state[i] == 'w' && registered[i] && !leaving[i] && q >= target[i] {
				if parked[i] {
					reached[i] = true
				} else {
					state[i] = 'o'
				}
			}
		}
	}
	notify := func(u upd) {
		if u.c == best {
			offer(u.q)
		}
	}
	arrive := func(i int) {
		if best < 0 {
			state[i] = 'p'
		} else if heads[best] >= target[i] {
			if parked[i] {
				state[i], reached[i] = 'w', true
			} else {
				state[i] = 'o'
			}
		} else {
			state[i], registered[i] = 'w', true
		}
	}
	refresh := func(f []string) {
		mask := atoi(f[1])
		rs := parseRtts(f[2])
		ms := make([]member, len(heads))
		for i := range ms {
			alive[i] = mask>>uint(i)&1 == 1
			if i < len(rs) {
				rtt[i] = rs[i]
			}
			ms[i] = member{alive: alive[i], seqno: heads[i], rtt: rtt[i]}
		}
		if nb := ruleSelect(s.strategy, ms, best); nb != best {
			// the choice changes: the waiters learn the head the new best connection already has
			best = nb
			if q := heads[best]; q > 0 {
				offer(q)
			}
		}
	}
	release := func() {
		if !runParked {
			armed = false
			return
		}
		runParked = false
		if inProgress != nil {
			notify(*inProgress)
			inProgress = nil
		}
		// whoever queued on the write lock goes before Run gets the read lock again
		if lateArrival >= 0 {
			arrive(lateArrival)
			lateArrival = -1
		}
		if lateTick != nil {
			refresh(lateTick)
			lateTick = nil
		}
		if lateCancel >= 0 {
			state[lateCancel], leaving[lateCancel] = 'e', false
			lateCancel = -1
		}
		for _, u := range queue {
			notify(u)
		}
		queue = nil
	}
	for _, st := range s.steps {
		f := strings.Split(st, ":")
		switch f[0] {
		case "w":
			i := atoi(f[1])
			target[i], short[i], parked[i] = u32(f[2]), f[3] == "S", f[3] == "P"
			if runParked {
				state[i], parked[i], short[i] = 'w', false, false
				lateArrival = i
			} else {
				arrive(i)
			}
		case "r":
			if i := atoi(f[1]); i < len(state) && parked[i] {
				parked[i] = false
				if state[i] == 'w' && reached[i] {
					state[i] = 'o'
				}
			}
		case "G":
			if !runParked {
				armed = true
			}
		case "g":
			release()
		case "u":
			c, q := atoi(f[1]), u32(f[2])
			if q > heads[c] {
				heads[c] = q
				switch {
				case armed:
					armed, runParked = false, true
					inProgress = &upd{c, q}
				case runParked:
					queue = append(queue, upd{c, q})
				default:
					notify(upd{c, q})
				}
			}
		case "t":
			if runParked {
				lateTick = f
			} else {
				refresh(f)
			}
		case "c":
			if i := atoi(f[1]); i < len(state) && state[i] == 'w' && !parked[i] {
				if runParked {
					if !leaving[i] {
						leaving[i], lateCancel = true, i
					}
				} else {
					state[i] = 'e'
				}
			}
		case "x":
			if i := atoi(f[1]); i < len(state) && state[i] == 'w' && short[i] && !parked[i] && !runParked {
				state[i] = 'e'
			}
		}
		snap()
	}
	release()
	for i := range state {
		if state[i] == 'w' && parked[i] && reached[i] {
			state[i] = 'o'
		} else if state[i] == 'w' {
			state[i] = 'e'
		}
	}
	snap()
	return out
}

func goWaitScript(a []string) string {
	s := parseScript(a)
	obs, hung := runScriptStable(s)
	if hung != "" {
		return "FAIL hang " + hung
	}
	want := expectScript(s)
	for i := range want {
		if i >= len(obs) || obs[i] != want[i] {
			got := "<missing>"
			if i < len(obs) {
				got = obs[i]
			}
			stepName := "epilogue"
			if i < len(s.steps) {
				stepName = s.steps[i]
			}
			return fmt.Sprintf("FAIL rule after step %d (%s): got=%s want=%s (best/waitlist/waiters)", i, stepName, got, want[i])
		}
	}
	return "ok"
}

// ------------------------------------------------------------------------------------- adversarial schedules

// go.wait.adv.cancel <rounds>: the interleaving behind the first deadlock of the original code. A waiter is parked
// at the entry of its select (inside ctx.Done()); two heads are published, so that its channel holds one unread head
// and notifySubscribers is working on the second while holding RLock; then the context is cancelled and the waiter
// released. select may pick either ready case; if it picks the channel the round is repeated. Whatever happens, the
// waiter must return and the pool must stay responsive within the watchdog.
func goAdvCancel(a []string) string {
	rounds := atoi(a[0])
	e := newEnv(pool.BestPingStrategy, []uint32{0}, 0)
	defer e.close()
	w := &waiter{ctx: newWaitCtx(), target: 1 << 30}
	e.ws[0] = w
	w.ctx.hold.Store(true)
	go func() {
		w.err = e.p.WaitMasterchainSeqno(w.ctx, w.target, longTimeout)
		w.returned.Store(true)
	}()
	seq := uint32(1)
	pub := func() bool {
		idBefore := e.idCalls.Load()
		if !guarded(func() { e.vs[0].SetMasterHead(pool.VerifHead(seq)) }) {
			return false
		}
		seq++
		if !await(func() bool { return e.p.VerifUpdatesPending() == 0 }) {
			return false
		}
		waitUntil(20*time.Millisecond, func() bool { return e.idCalls.Load() > idBefore })
		return true
	}
	for r := 0; r < rounds && !w.returned.Load(); r++ {
		reparked := false
		if !await(func() bool {
			if !reparked {
				select {
				case <-w.ctx.parked:
					reparked = true
				default:
				}
			}
			return reparked || w.returned.Load()
		}) {
			return "FAIL hang waiter neither re-entered its select nor returned; goroutines: " + poolGoroutines()
		}
		if w.returned.Load() {
			break
		}
		// the waiter is parked at the entry of its select and Run is idle. Publish one head more than its channel
		// can take: afterwards the channel holds an unread head and notifySubscribers is delivering the next one.
		unread := -1
		if !guarded(func() { unread = e.p.VerifUnreadHeads() }) {
			return "FAIL hang pool lock not available; goroutines: " + poolGoroutines()
		}
		for k := unread; k < 2; k++ {
			if !pub() {
				return "FAIL hang update not taken by Run; goroutines: " + poolGoroutines()
			}
		}
		time.Sleep(300 * time.Microsecond) // let notifySubscribers reach the send of the last head
		w.ctx.cancel()
		w.ctx.release <- struct{}{}
		waitUntil(50*time.Millisecond, func() bool { return w.returned.Load() || len(w.ctx.parked) > 0 })
		if !w.returned.Load() && len(w.ctx.parked) == 0 {
			break // neither returned nor back at the select: decided below
		}
	}
	w.ctx.hold.Store(false)
	select {
	case w.ctx.release <- struct{}{}:
	default:
	}
	if !await(func() bool { return w.returned.Load() }) {
		return "FAIL hang waiter does not return after cancellation; goroutines: " + poolGoroutines()
	}
	if w.err == nil {
		return "FAIL rule waiter succeeded although its target was never reached"
	}
	if !guarded(func() { e.p.ConnectionsNumber(); e.p.Status() }) {
		return "FAIL hang pool lock not available; goroutines: " + poolGoroutines()
	}
	if n := e.p.VerifWaitListLen(); n != 0 {
		return fmt.Sprintf("FAIL rule wait list not empty after the waiter left: %d", n)
	}
	return "ok"
}

// go.wait.adv.publish <extra>: the interleaving behind the second deadlock of the original code. Run is parked inside
// updateBest (write lock held) at the first MasterHead() call; cap+1+extra heads are published by one goroutine;
// Run is released. All publications must complete, Run must keep draining, the pool must stay responsive.
func goAdvPublish(a []string) string {
	extra := atoi(a[0])
	p, vs := pool.VerifNewPoolArriving(pool.BestPingStrategy, []int{0})
	markLineStart(p)
	vs[0].VerifSetAlive(true)
	p.VerifSetInterval(2 * time.Millisecond)
	var armed atomic.Bool
	armed.Store(true)
	parked := make(chan struct{}, 1)
	release := make(chan struct{})
	vs[0].VerifSetGate(func(point string, id int) {
		if point == "head" && armed.CompareAndSwap(true, false) {
			parked <- struct{}{}
			<-release
		}
	})
	ctx, stop := context.WithCancel(context.Background())
	defer stop()
	go p.Run(ctx)
	if !awaitChan(parked) {
		close(release)
		return "FAIL hang Run never reached updateBest"
	}
	n := p.VerifUpdatesCap() + 1 + extra
	var published atomic.Int64
	go func() {
		for k := 1; k <= n; k++ {
			vs[0].SetMasterHead(pool.VerifHead(uint32(k)))
			published.Add(1)
		}
	}()
	// the publisher fills the channel and (original code) blocks holding the connection mutex
	waitUntil(100*time.Millisecond, func() bool { return int(published.Load()) == n })
	time.Sleep(time.Millisecond)
	close(release)
	if !await(func() bool { return int(published.Load()) == n && p.VerifUpdatesPending() == 0 }) {
		return fmt.Sprintf("FAIL hang published=%d/%d pending=%d; goroutines: %s", published.Load(), n, p.VerifUpdatesPending(), poolGoroutines())
	}
	if !guarded(func() { p.ConnectionsNumber(); p.Status() }) {
		return "FAIL hang pool lock not available; goroutines: " + poolGoroutines()
	}
	if got := vs[0].VerifHeadSeqno(); got != uint32(n) {
		return fmt.Sprintf("FAIL rule head=%d want=%d", got, n)
	}
	return "ok"
}

// go.wait.adv.random <seed> <ops>: random interleaving without settling: waiters arrive, are parked at / released
// from their select entry, heads are published by concurrent goroutines on several connections, the real ticker
// runs updateBest every millisecond while members die and revive, waiters are cancelled or time out. At the end
// everybody is released and cancelled. Checked: nothing hangs; a waiter succeeds only if some head >= its target was
// ever stored by some connection; it fails only after its cancellation / timer; the wait list drains.
func goAdvRandom(a []string) string {
	seed, nops := int64(atoi(a[0])), atoi(a[1])
	rng := rand.New(rand.NewSource(seed))
	nc := 1 + rng.Intn(3)
	heads := make([]uint32, nc)
	for i := range heads {
		heads[i] = uint32(rng.Intn(3))
	}
	p, vs := pool.VerifNewPoolArriving([]string{pool.BestPingStrategy, pool.FirstWorkingConnection}[rng.Intn(2)], rng.Perm(nc))
	markLineStart(p)
	e := &env{p: p, vs: vs, ws: map[int]*waiter{}}
	for i, v := range vs {
		v.VerifSetAlive(true)
		v.VerifSetRTT(time.Duration(1 + rng.Intn(3)))
		v.VerifSetHeadSilently(heads[i])
	}
	p.VerifSetInterval(time.Millisecond)
	ctx, stop := context.WithCancel(context.Background())
	e.stopRun = stop
	go p.Run(ctx)
	defer e.close()
	var maxHead atomic.Uint32
	for _, q := range heads {
		if q > maxHead.Load() {
			maxHead.Store(q)
		}
	}
	var pubs sync.WaitGroup
	cancelledAt := map[int]bool{}
	next := make([]uint32, nc)
	copy(next, heads)
	nw := 0
	for op := 0; op < nops; op++ {
		switch r := rng.Intn(100); {
		case r < 25 && nw < 12: // a waiter arrives, possibly parked at its first select entry
			w := &waiter{ctx: newWaitCtx(), target: maxHead.Load() + uint32(rng.Intn(4)), short: rng.Intn(4) == 0}
			if rng.Intn(2) == 0 {
				w.ctx.hold.Store(true)
			}
			e.ws[nw] = w
			nw++
			to := longTimeout
			if w.short {
				to = time.Duration(rng.Intn(3)) * time.Millisecond
			}
			go func() {
				w.err = p.WaitMasterchainSeqno(w.ctx, w.target, to)
				w.returned.Store(true)
			}()
		case r < 60: // a burst of heads on one connection, published concurrently with everything else
			c := rng.Intn(nc)
			k := 1 + rng.Intn(4)
			from := next[c]
			next[c] += uint32(k)
			pubs.Add(1)
			go func() {
				defer pubs.Done()
				for q := from + 1; q <= from+uint32(k); q++ {
					for {
						cur := maxHead.Load()
						if q <= cur || maxHead.CompareAndSwap(cur, q) {
							break
						}
					}
					vs[c].SetMasterHead(pool.VerifHead(q))
				}
			}()
		case r < 72 && nw > 0: // release a parked waiter (or let it run freely from now on)
			w := e.ws[rng.Intn(nw)]
			if rng.Intn(2) == 0 {
				w.ctx.hold.Store(false)
			}
			select {
			case w.ctx.release <- struct{}{}:
			default:
			}
		case r < 82 && nw > 0: // cancel
			i := rng.Intn(nw)
			cancelledAt[i] = true
			e.ws[i].ctx.cancel()
		case r < 90: // a member dies / revives / changes its round-trip time
			v := vs[rng.Intn(nc)]
			v.VerifSetAlive(rng.Intn(3) != 0)
			v.VerifSetRTT(time.Duration(1 + rng.Intn(3)))
		default:
			time.Sleep(time.Duration(rng.Intn(400)) * time.Microsecond)
		}
	}
	// epilogue
	for i := 0; i < nw; i++ {
		w := e.ws[i]
		w.ctx.hold.Store(false)
		for k := 0; k < 4; k++ {
			select {
			case w.ctx.release <- struct{}{}:
			default:
			}
		}
	}
	if !guarded(pubs.Wait) {
		return fmt.Sprintf("FAIL hang SetMasterHead callers blocked, pending=%d; goroutines: %s", p.VerifUpdatesPending(), poolGoroutines())
	}
	time.Sleep(2 * time.Millisecond)
	final := maxHead.Load()
	for i := 0; i < nw; i++ {
		w := e.ws[i]
		if !w.returned.Load() {
			cancelledAt[i] = true
			w.ctx.cancel()
			for k := 0; k < 4; k++ {
				select {
				case w.ctx.release <- struct{}{}:
				default:
				}
			}
		}
	}
	for i := 0; i < nw; i++ {
		w := e.ws[i]
		if !await(func() bool { return w.returned.Load() }) {
			return fmt.Sprintf("FAIL hang waiter %d does not return; goroutines: %s", i, poolGoroutines())
		}
		if w.err == nil && w.target > final {
			return fmt.Sprintf("FAIL rule waiter %d succeeded with target %d but no head beyond %d was ever stored", i, w.target, final)
		}
		if w.err != nil && !w.short && !cancelledAt[i] {
			return fmt.Sprintf("FAIL rule waiter %d failed (%v) without timeout or cancellation", i, w.err)
		}
	}
	if !guarded(func() { p.ConnectionsNumber(); p.Status() }) {
		return "FAIL hang pool lock not available; goroutines: " + poolGoroutines()
	}
	if !await(func() bool { return p.VerifUpdatesPending() == 0 }) {
		return "FAIL hang Run does not drain the update channel; goroutines: " + poolGoroutines()
	}
	if n := p.VerifWaitListLen(); n != 0 {
		return fmt.Sprintf("FAIL rule wait list holds %d entries after every waiter returned", n)
	}
	return "ok"
}

// go.wait.adv.subscribe <waiters> <mode>: no lost wake-up around subscribe. mode "during": every waiter that is
// inside subscribe is parked right after it has read the (old) head of the best member and before it acts on it;
// the head that reaches the target is published and Run is given the time to process it; then the waiters are
// released. On the correct code the check and the registration are ONE critical section under the write lock:
// notifySubscribers waits for it and then finds the channel. Modes "before" / "after": the head is published just
// before the waiters arrive / just after they have registered. Nothing else is ever published: every waiter must
// return success (no timer is involved: they wait with a one-hour timeout under the load-aware watchdog).
func goAdvSubscribe(a []string) string {
	k, mode := atoi(a[0]), a[1]
	e := newEnv(pool.BestPingStrategy, []uint32{5}, 0)
	defer e.close()
	const target = 6
	var armed atomic.Bool
	parked := make(chan struct{}, 64)
	release := make(chan struct{})
	e.vs[0].VerifSetGate(func(point string, id int) {
		if point == "id" {
			e.idCalls.Add(1)
		}
		if point == "head.done" && armed.Load() {
			parked <- struct{}{}
			<-release
		}
	})
	publish := func() string {
		if !guarded(func() { e.vs[0].SetMasterHead(pool.VerifHead(target)) }) {
			return "FAIL hang SetMasterHead blocked; goroutines: " + poolGoroutines()
		}
		if !await(func() bool { return e.p.VerifUpdatesPending() == 0 }) {
			return "FAIL hang update not taken by Run; goroutines: " + poolGoroutines()
		}
		return ""
	}
	start := func() {
		for i := 0; i < k; i++ {
			w := &waiter{ctx: newWaitCtx(), target: target}
			e.ws[i] = w
			go func() {
				w.err = e.p.WaitMasterchainSeqno(w.ctx, target, longTimeout)
				w.returned.Store(true)
			}()
		}
	}
	switch mode {
	case "before":
		if r := publish(); r != "" {
			return r
		}
		start()
	case "after":
		start()
		if !await(func() bool { return e.p.VerifWaitListLen() == k }) {
			return "FAIL rule waiters did not register; goroutines: " + poolGoroutines()
		}
		if r := publish(); r != "" {
			return r
		}
	case "during":
		armed.Store(true)
		start()
		if !awaitChan(parked) {
			return "FAIL hang no waiter reached MasterHead() in subscribe; goroutines: " + poolGoroutines()
		}
		time.Sleep(500 * time.Microsecond) // further waiters reach the gate or queue up on the pool lock
		if r := publish(); r != "" {
			armed.Store(false)
			close(release)
			return r
		}
		// Run has taken the update: it is inside notifySubscribers (or waiting for the pool lock)
		time.Sleep(time.Millisecond)
		armed.Store(false)
		close(release)
	default:
		return "bad-op"
	}
	for i := 0; i < k; i++ {
		w := e.ws[i]
		if !await(func() bool { return w.returned.Load() }) {
			return fmt.Sprintf("FAIL lost-wakeup mode=%s waiter %d of %d still waits for seqno %d although the best connection reported it (head=%d, waitlist=%d, unread=%d); goroutines: %s",
				mode, i, k, target, e.vs[0].VerifHeadSeqno(), e.p.VerifWaitListLen(), e.p.VerifUnreadHeads(), poolGoroutines())
		}
		if w.err != nil {
			return fmt.Sprintf("FAIL rule mode=%s waiter %d failed: %v", mode, i, w.err)
		}
	}
	if !guarded(func() { e.p.ConnectionsNumber(); e.p.Status() }) {
		return "FAIL hang pool lock not available; goroutines: " + poolGoroutines()
	}
	if n := e.p.VerifWaitListLen(); n != 0 {
		return fmt.Sprintf("FAIL rule wait list holds %d entries after every waiter returned", n)
	}
	return "ok"
}

// go.wait.adv.queue <extra> <mode>: every accepted head is published. A waiter subscribes for seqno cap+extra; then
// cap+extra heads 1..cap+extra are stored on the best member by one caller while Run cannot receive (mode "late":
// Run is started only afterwards; mode "busy": Run is parked inside updateBest). Only the LAST head reaches the
// target. The channel holds cap of them; the correct SetMasterHead blocks (without holding a lock) until Run
// drains. Then Run is let go: all publications must complete and the waiter must return success.
func goAdvQueue(a []string) string {
	extra, mode := atoi(a[0]), a[1]
	p, vs := pool.VerifNewPoolArriving(pool.BestPingStrategy, []int{0})
	markLineStart(p)
	vs[0].VerifSetAlive(true)
	n := p.VerifUpdatesCap() + extra
	ctx, stop := context.WithCancel(context.Background())
	defer stop()
	var armed atomic.Bool
	parked := make(chan struct{}, 1)
	release := make(chan struct{})
	w := &waiter{ctx: newWaitCtx(), target: uint32(n)}
	defer w.ctx.cancel()
	startWaiter := func() bool {
		go func() {
			w.err = p.WaitMasterchainSeqno(w.ctx, w.target, longTimeout)
			w.returned.Store(true)
		}()
		return await(func() bool { return p.VerifWaitListLen() == 1 })
	}
	switch mode {
	case "late":
		p.VerifSetInterval(time.Hour)
		if !startWaiter() {
			return "FAIL rule waiter did not register; goroutines: " + poolGoroutines()
		}
	case "busy":
		p.VerifSetInterval(time.Hour)
		if !startWaiter() {
			return "FAIL rule waiter did not register; goroutines: " + poolGoroutines()
		}
		// hold Run inside updateBest: a second pool goroutine is not needed, the real ticker does it
		p.VerifSetInterval(time.Millisecond)
		armed.Store(true)
		vs[0].VerifSetGate(func(point string, id int) {
			if point == "head" && armed.CompareAndSwap(true, false) {
				parked <- struct{}{}
				<-release
			}
		})
		go p.Run(ctx)
		if !awaitChan(parked) {
			close(release)
			return "FAIL hang Run never reached updateBest"
		}
	default:
		return "bad-op"
	}
	var stored atomic.Int64
	go func() {
		for q := 1; q <= n; q++ {
			vs[0].SetMasterHead(pool.VerifHead(uint32(q)))
			stored.Add(1)
		}
	}()
	// the caller fills the channel; with more heads than capacity it now waits for Run
	waitUntil(200*time.Millisecond, func() bool {
		return int(stored.Load()) == n || p.VerifUpdatesPending() == p.VerifUpdatesCap()
	})
	time.Sleep(time.Millisecond)
	if mode == "late" {
		go p.Run(ctx)
	} else {
		close(release)
	}
	if !await(func() bool { return int(stored.Load()) == n && p.VerifUpdatesPending() == 0 }) {
		return fmt.Sprintf("FAIL hang stored=%d/%d pending=%d; goroutines: %s", stored.Load(), n, p.VerifUpdatesPending(), poolGoroutines())
	}
	if !await(func() bool { return w.returned.Load() }) {
		return fmt.Sprintf("FAIL dropped-update mode=%s the best connection stored head %d (= the awaited seqno) and Run has drained the channel, yet the waiter still waits (waitlist=%d, unread=%d): an accepted head was never published; goroutines: %s",
			mode, vs[0].VerifHeadSeqno(), p.VerifWaitListLen(), p.VerifUnreadHeads(), poolGoroutines())
	}
	if w.err != nil {
		return fmt.Sprintf("FAIL rule waiter failed: %v", w.err)
	}
	if !guarded(func() { p.ConnectionsNumber(); p.Status() }) {
		return "FAIL hang pool lock not available; goroutines: " + poolGoroutines()
	}
	return "ok"
}

// go.wait.deadline <T ms> <period ms> <waiters>: "returns an error once its timeout has elapsed". The best connection
// keeps reporting heads BELOW the target, one every <period> (as a live chain does), for three timeouts; every waiter
// (timeout T, target out of reach) must return its timeout error by T + tolerance, measured from its call. A canary
// goroutine (sleeping 1 ms at a time) measures how late timers fire on this machine right now: the tolerance is
// T/2 + 10 x the worst lateness seen, and a run whose lateness exceeds T/4 is repeated with a doubled T (and not judged
// after three such runs): a loaded machine never alarms, a re-armed timer (which returns only T after the LAST head,
// i.e. after about 4T) always does.
func goWaitDeadline(a []string) string {
	T := time.Duration(atoi(a[0])) * time.Millisecond
	period := time.Duration(atoi(a[1])) * time.Millisecond
	k := atoi(a[2])
	for try := 0; try < 3; try++ {
		res, conclusive := runDeadline(T, period, k)
		if conclusive {
			return res
		}
		T, period = 2*T, 2*period
	}
	return "ok"
}

func runDeadline(T, period time.Duration, k int) (string, bool) {
	e := newEnv(pool.BestPingStrategy, []uint32{1}, 0)
	defer e.close()
	var worst atomic.Int64
	stop := make(chan struct{})
	defer close(stop)
	go func() { // canary
		for {
			select {
			case <-stop:
				return
			default:
			}
			t0 := time.Now()
			time.Sleep(time.Millisecond)
			if late := int64(time.Since(t0) - time.Millisecond); late > worst.Load() {
				worst.Store(late)
			}
		}
	}()
	type res struct {
		err error
		el  time.Duration
	}
	out := make(chan res, k)
	for i := 0; i < k; i++ {
		go func() {
			t0 := time.Now()
			err := e.p.WaitMasterchainSeqno(context.Background(), 1<<30, T)
			out <- res{err, time.Since(t0)}
		}()
	}
	go func() { // the chain goes on: heads far below the target
		for q := uint32(2); ; q++ {
			select {
			case <-stop:
				return
			case <-time.After(period):
				e.vs[0].SetMasterHead(pool.VerifHead(q))
			}
		}
	}()
	limit := 3*T + T/2
	deadline := time.After(limit)
	var got []res
	for len(got) < k {
		select {
		case r := <-out:
			got = append(got, r)
		case <-deadline:
			late := time.Duration(worst.Load())
			if late > T/4 {
				return "", false
			}
			return fmt.Sprintf("FAIL deadline %d of %d waiters with timeout %v have not returned after %v while the best connection reports a head below the target every %v (timer lateness on this machine: %v); goroutines: %s",
				k-len(got), k, T, limit, period, late, poolGoroutines()), true
		}
	}
	late := time.Duration(worst.Load())
	if late > T/4 {
		return "", false
	}
	tol := T/2 + 10*late
	for _, r := range got {
		if r.err == nil {
			return "FAIL rule waiter succeeded although its target was never reached", true
		}
		if r.el > T+tol {
			return fmt.Sprintf("FAIL deadline waiter with timeout %v returned after %v (tolerance %v, timer lateness %v)", T, r.el, tol, late), true
		}
		if r.el < T-T/10 {
			return fmt.Sprintf("FAIL rule waiter with timeout %v gave up after %v", T, r.el), true
		}
	}
	return "ok", true
}

// ------------------------------------------------------------------------------------------------ generator

func genWait(g *h.G, out func(op string, args ...string)) {
	strategies := []string{pool.BestPingStrategy, pool.FirstWorkingConnection}
	emit := func(args ...string) {
		out("wait.script", args...)
		out("go.wait.script", args...)
		g.NonTrivial("script " + strings.Join(args, " "))
	}
	// fixed scenarios: short-circuit, plain success, sub-target heads, cancellation, timeout, switch of best
	emit("best-ping", "5", "0", "w:0:3:L")
	emit("best-ping", "5", "0", "w:0:6:L", "u:0:6")
	emit("best-ping", "5", "0", "w:0:8:L", "u:0:6", "u:0:7", "u:0:8")
	emit("best-ping", "5", "0", "w:0:8:L", "u:0:6", "c:0", "u:0:8")
	emit("best-ping", "5", "0", "w:0:8:S", "u:0:6", "x:0", "u:0:8")
	emit("first-working", "5/5", "0", "w:0:7:L", "u:1:7", "t:2:1.1", "u:1:8", "u:0:9")
	emit("best-ping", "5/9", "0", "w:0:7:L", "w:1:6:L", "t:3:2.1", "u:1:10")
	emit("best-ping", "0", "-1", "w:0:1:L")
	// the best connection dies and the pool switches to one that already has the awaited head
	emit("best-ping", "5/9", "0", "w:0:8:L", "t:2:1.1")
	emit("first-working", "5/9/9", "0", "w:0:8:L", "w:1:10:L", "w:2:9:P", "t:6:1.1.1", "r:2", "u:1:10")
	// a waiter held before its select while heads arrive: the newest head must be the one it finds
	emit("best-ping", "5", "0", "w:0:8:P", "u:0:7", "u:0:8", "r:0")
	emit("best-ping", "5", "0", "w:0:8:P", "u:0:8", "u:0:9", "u:0:10", "r:0")
	emit("best-ping", "5", "0", "w:0:3:P", "u:0:6", "r:0")
	emit("first-working", "5/5", "0", "w:0:7:P", "w:1:7:L", "u:0:6", "u:0:7", "c:0", "r:0")
	// the wait inside BestMasterchainClient (best head still 0)
	emit("best-ping", "0/0", "0", "w:0:1:M", "u:1:1", "u:0:1")
	emit("best-ping", "0/2", "0", "w:0:1:M", "w:1:1:M", "c:0", "t:2:1.1", "u:1:3")
	emit("best-ping", "4", "0", "w:0:1:M")
	// NON-quiescent schedules: Run held inside notifySubscribers (read lock) while heads, an arrival, a cancellation
	// or a refresh queue up behind it; the stale heads of a connection that becomes best only afterwards
	emit("best-ping", "5/5", "0", "w:0:12:P", "G", "u:0:12", "u:1:9", "u:1:10", "u:1:11", "t:2:1.1", "g", "r:0")
	emit("best-ping", "5", "0", "w:0:7:L", "G", "u:0:6", "u:0:7", "u:0:8", "g")
	emit("best-ping", "5", "0", "G", "u:0:6", "w:0:7:L", "u:0:7", "g")
	emit("best-ping", "5", "0", "w:0:9:L", "G", "u:0:6", "c:0", "u:0:9", "g")
	emit("first-working", "5/6", "0", "w:0:7:L", "w:1:6:L", "G", "u:1:7", "t:2:1.1", "u:1:8", "g")
	for k := 0; k < g.Scale(150, 2500); k++ {
		nc := 1 + g.Rng.Intn(3)
		heads := make([]uint32, nc)
		hs := make([]string, nc)
		for i := range heads {
			heads[i] = uint32(1 + g.Rng.Intn(4))
			hs[i] = fmt.Sprint(heads[i])
		}
		best := g.Rng.Intn(nc)
		args := []string{strategies[g.Rng.Intn(2)], strings.Join(hs, "/"), fmt.Sprint(best)}
		nw := 0
		var parkedW, active []int
		mx := func() int {
			m := 0
			for _, q := range heads {
				if int(q) > m {
					m = int(q)
				}
			}
			return m
		}
		for i := g.Rng.Intn(3); i > 0 && nw < 4; i-- { // waiters that are there before Run is held
			kind := "L"
			if g.Rng.Intn(3) == 0 {
				kind = "P"
				parkedW = append(parkedW, nw)
			} else {
				active = append(active, nw)
			}
			args = append(args, fmt.Sprintf("w:%d:%d:%s", nw, mx()+1+g.Rng.Intn(4), kind))
			nw++
		}
		pub := func() {
			c := g.Rng.Intn(nc)
			heads[c] += uint32(1 + g.Rng.Intn(2))
			args = append(args, fmt.Sprintf("u:%d:%d", c, heads[c]))
		}
		args = append(args, "G")
		pub() // Run takes this one and is held
		late := g.Rng.Intn(4)
		for i, m := 0, g.Rng.Intn(6); i < m; i++ {
			pub()
			if late >= 0 && g.Rng.Intn(3) == 0 {
				switch late {
				case 0:
					args = append(args, fmt.Sprintf("w:%d:%d:L", nw, mx()-1+g.Rng.Intn(4)))
					nw++
				case 1:
					if len(active) > 0 {
						args = append(args, fmt.Sprintf("c:%d", active[g.Rng.Intn(len(active))]))
					}
				case 2:
					if nc > 1 {
						rt := make([]string, nc)
						for i := range rt {
							rt[i] = fmt.Sprint(1 + g.Rng.Intn(3))
						}
						args = append(args, fmt.Sprintf("t:%d:%s", 1+g.Rng.Intn(1<<uint(nc)-1), strings.Join(rt, ".")))
					}
				}
				late = -1
			}
		}
		args = append(args, "g")
		for _, i := range parkedW {
			if g.Rng.Intn(2) == 0 {
				args = append(args, fmt.Sprintf("r:%d", i))
			}
		}
		if g.Rng.Intn(2) == 0 {
			pub()
		}
		g.Count("script_nonquiescent")
		emit(args...)
	}
	n := g.Scale(400, 4000)
	for k := 0; k < n; k++ {
		nc := 1 + g.Rng.Intn(3)
		heads := make([]uint32, nc)
		hs := make([]string, nc)
		for i := range heads {
			heads[i] = uint32(g.Rng.Intn(4))
			hs[i] = fmt.Sprint(heads[i])
		}
		args := []string{strategies[g.Rng.Intn(2)], strings.Join(hs, "/"), fmt.Sprint(g.Rng.Intn(nc))}
		nsteps := 3 + g.Rng.Intn(10)
		nw, shorts := 0, 0
		pendingShort := -1
		var parkedW []int
		kinds := map[string]bool{}
		for sidx := 0; sidx < nsteps; sidx++ {
			if pendingShort >= 0 && g.Rng.Intn(2) == 0 {
				args = append(args, fmt.Sprintf("x:%d", pendingShort))
				pendingShort = -1
				kinds["x"] = true
				continue
			}
			if len(parkedW) > 0 && g.Rng.Intn(4) == 0 {
				k := g.Rng.Intn(len(parkedW))
				args = append(args, fmt.Sprintf("r:%d", parkedW[k]))
				parkedW = append(parkedW[:k], parkedW[k+1:]...)
				kinds["r"] = true
				continue
			}
			switch r := g.Rng.Intn(100); {
			case r < 28 && nw < 5:
				var mx uint32
				for _, q := range heads {
					if q > mx {
						mx = q
					}
				}
				kind := "L"
				tg := int(mx) + g.Rng.Intn(5) - 1
				if tg < 0 {
					tg = 0
				}
				if shorts < 2 && pendingShort < 0 && g.Rng.Intn(5) == 0 {
					kind, pendingShort = "S", nw
					shorts++
				} else if g.Rng.Intn(4) == 0 {
					kind = "P"
					parkedW = append(parkedW, nw)
				} else if g.Rng.Intn(6) == 0 {
					kind, tg = "M", 1 // BestMasterchainClient waits for the first head (seqno >= 1) of the best member
				}
				args = append(args, fmt.Sprintf("w:%d:%d:%s", nw, tg, kind))
				nw++
				kinds["w"] = true
			case r < 70:
				c := g.Rng.Intn(nc)
				q := heads[c] + uint32(g.Rng.Intn(4))
				if q > heads[c] {
					heads[c] = q
				}
				args = append(args, fmt.Sprintf("u:%d:%d", c, q))
				kinds["u"] = true
			case r < 85 && nc > 1:
				rt := make([]string, nc)
				for i := range rt {
					rt[i] = fmt.Sprint(1 + g.Rng.Intn(3))
				}
				args = append(args, fmt.Sprintf("t:%d:%s", g.Rng.Intn(1<<uint(nc)), strings.Join(rt, ".")))
				kinds["t"] = true
			case nw > 0:
				args = append(args, fmt.Sprintf("c:%d", g.Rng.Intn(nw)))
				kinds["c"] = true
			}
		}
		if len(args) == 3 {
			continue
		}
		g.Count(fmt.Sprintf("script_waiters_%d", nw))
		g.Count(fmt.Sprintf("script_conns_%d", nc))
		for kd := range kinds {
			g.Count("script_with_" + kd)
		}
		emit(args...)
	}
	// adversarial schedules
	for k := 0; k < g.Scale(6, 40); k++ {
		out("go.wait.adv.cancel", "24")
	}
	for k := 0; k < g.Scale(3, 12); k++ {
		out("go.wait.adv.publish", fmt.Sprint(k%4))
	}
	for k := 0; k < g.Scale(8, 60); k++ {
		for _, mode := range []string{"during", "before", "after"} {
			out("go.wait.adv.subscribe", fmt.Sprint(1+k%4), mode)
		}
		out("go.wait.adv.queue", fmt.Sprint(1+k%5), []string{"late", "busy"}[k%2])
	}
	for k := 0; k < g.Scale(6, 40); k++ {
		T := []int{120, 200, 300}[k%3]
		out("go.wait.deadline", fmt.Sprint(T), fmt.Sprint(T/(2+k%3)), fmt.Sprint(1+k%3))
	}
	for k := 0; k < g.Scale(400, 6000); k++ {
		out("go.wait.adv.random", fmt.Sprint(g.Rng.Intn(1<<30)), fmt.Sprint(20+g.Rng.Intn(80)))
	}
}
