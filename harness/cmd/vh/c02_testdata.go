//go:build c02

package main

import (
	"fmt"
	"strings"

	"verifharness/h"
)

// plausibleMessage filters cells that merely happen to parse as a message: int_msg_info$0 with two addr_std, or
// ext_in/ext_out prefixes with an addr_std on the known side.
func plausibleMessage(r h.Row) bool {
	if r.BitLen < 2+9+256 {
		return false
	}
	return true
}

// genTestdata: every cell of every bag of cells in the repo's testdata (parsed with the real parser).
func genTestdata(g *h.G) {
	found := h.FindTestdataBocs()
	total := 0
	for _, fb := range found {
		canon := h.Canon(fb.Roots)
		ts := strings.Fields(canon)[0]
		t := h.ParseTable(ts)
		total += len(t)
		g.Count("testdata_bocs")
		g.Count("testdata_src_" + fb.Source)
		exotic := 0
		for _, r := range t {
			if r.Ty != 0 {
				exotic++
				g.Count(fmt.Sprintf("testdata_ty%d_mask%d", r.Ty, r.Mask))
			}
		}
		g.NonTrivial(ts)
		g.Emit("go.boc", h.Hex(fb.Bytes))
		g.Emit("cell.all", ts)
		// each root, and a sample of inner cells with their own sub-DAG, with explicit answers
		var picks []int
		for _, r := range strings.Split(strings.Fields(canon)[1], ".") {
			var i int
			fmt.Sscan(r, &i)
			picks = append(picks, i)
		}
		for k := 0; k < g.Scale(12, 60) && len(t) > 1; k++ {
			picks = append(picks, g.Rng.Intn(len(t)))
		}
		for _, r := range t {
			_ = r
		}
		// exotic cells are rare: always sample some of them
		ex := 0
		for i, r := range t {
			if r.Ty != 0 && ex < g.Scale(8, 40) && g.Rng.Intn(1+exotic/8) == 0 {
				picks = append(picks, i)
				ex++
			}
		}
		// messages and transactions inside the bag: every cell the library decodes as one (blocks keep them in cells
		// of their own); their decoded hash field is compared with the definition
		cells := h.BuildCells(t)
		nm, nt := 0, 0
		lim := g.Scale(150, 100000)
		for i := range t {
			if t[i].Ty != 0 || t[i].BitLen < 4 {
				continue
			}
			if nt < lim && t[i].BitLen > 300 && t[i].Data[0]>>4 == 0x7 {
				if x := tryTransaction(cells[i]); x != nil {
					nt++
					g.Count("testdata_transactions")
					st := h.SubTable(t, i)
					g.Emit("go.msgtx", "t", h.TableString(st))
					g.Emit("cell.forms", h.TableString(st))
					continue
				}
			}
			if nm < lim && len(t[i].Refs) <= 3 {
				cells[i].ResetCounters()
				if x := tryMessage(cells[i]); x != nil && plausibleMessage(t[i]) {
					nm++
					g.Count("testdata_messages")
					st := h.SubTable(t, i)
					if len(st) <= 2000 {
						g.Emit("go.msgtx", "m", h.TableString(st))
						g.Emit("cell.forms", h.TableString(st))
					}
				}
			}
		}
		for _, i := range picks {
			st := h.SubTable(t, i)
			if len(st) > 4000 {
				continue
			}
			g.Emit("cell.levels", h.TableString(st))
			g.Count("testdata_cells_sampled")
		}
	}
	g.Counters["testdata_cells_total"] = total
	if len(found) == 0 {
		g.Emit("go.testfiles")
	}
}
