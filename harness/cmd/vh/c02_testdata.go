//go:build c02

package main

import (
	"fmt"
	"strings"

	"verifharness/h"
)

// genTestdata: every cell of every bag of cells in the repo's testdata (parsed with the real parser).
func genTestdata(g *h.G) {
	found := h.FindTestdataBocs()
	total := 0
	for _, fb := range found {
		canon := h.Canon(fb.Roots)
		ts := strings.Fields(canon)[0]
		t := h.ParseTable(ts)
		total += len(t)
		g.Count("testdata_bocs")
		g.Count("testdata_src_" + fb.Source)
		exotic := 0
		for _, r := range t {
			if r.Ty != 0 {
				exotic++
				g.Count(fmt.Sprintf("testdata_ty%d_mask%d", r.Ty, r.Mask))
			}
		}
		g.NonTrivial(ts)
		g.Emit("go.boc", h.Hex(fb.Bytes))
		g.Emit("cell.all", ts)
		// each root, and a sample of inner cells with their own sub-DAG, with explicit answers
		var picks []int
		for _, r := range strings.Split(strings.Fields(canon)[1], ".") {
			var i int
			fmt.Sscan(r, &i)
			picks = append(picks, i)
		}
		for k := 0; k < g.Scale(12, 60) && len(t) > 1; k++ {
			picks = append(picks, g.Rng.Intn(len(t)))
		}
		for _, r := range t {
			_ = r
		}
		// exotic cells are rare: always sample some of them
		ex := 0
		for i, r := range t {
			if r.Ty != 0 && ex < g.Scale(8, 40) && g.Rng.Intn(1+exotic/8) == 0 {
				picks = append(picks, i)
				ex++
			}
		}
		for _, i := range picks {
			st := h.SubTable(t, i)
			if len(st) > 4000 {
				continue
			}
			g.Emit("cell.levels", h.TableString(st))
			g.Count("testdata_cells_sampled")
		}
	}
	g.Counters["testdata_cells_total"] = total
	if len(found) == 0 {
		g.Emit("go.testfiles")
	}
}
