//go:build c15

package main

import (
	"context"
	"crypto/ed25519"
	"fmt"
	"strings"
	"time"

	"github.com/tonkeeper/tongo/boc"
	"github.com/tonkeeper/tongo/tlb"
	"github.com/tonkeeper/tongo/ton"
	"github.com/tonkeeper/tongo/wallet"
	"verifharness/h"
)

func init() {
	h.Register(&h.Prop{ID: "C15", Gen: genC15, Exec: withSeed(withCells(map[string]h.ExecFn{
		"w.addr":            exWAddr,
		"w.gwa":             exWGwa,
		"w.gsi":             exWGsi,
		"w.codehash":        exWCodeHash,
		"w.send":            exWSend,
		"w.sendc":           exWSend,
		"go.send.cancel":    goSendCancel,
		"w.ctx":             exWCtx,
		"go.addr.apis":      goAddrApis,
		"go.addr.distinct":  goAddrDistinct,
		"go.addr.anchor":    goAddrAnchor,
		"go.codes.distinct": goCodesDistinct,
		"go.send.prop":      goSendProp,
		"go.send.hist":      goSendHist,
	}))})
}

func withSeed(m map[string]h.ExecFn) map[string]h.ExecFn {
	for k, v := range seedExecs() {
		m[k] = v
	}
	return m
}

// w.addr <ver> <seed> <pk> <wc|_> <sub|_> <net|_> <code>
func exWAddr(a []string) string {
	key := keyFromSeed(a[1])
	if h.Hex(key.Public().(ed25519.PublicKey)) != a[2] {
		panic("seed/pk mismatch")
	}
	w, err := wallet.New(key, wallet.Version(atoi(a[0])), nil, walletOpts(a[3], a[4], a[5])...)
	if err != nil {
		return "err"
	}
	return addrAns(w.GetAddress(), nil)
}

// w.gwa <ver> <pk> <wc> <sub|_> <net|_> <code>
func exWGwa(a []string) string {
	return addrAns(wallet.GenerateWalletAddress(h.MustUnHex(a[1]), wallet.Version(atoi(a[0])), optI32(a[4]), atoi(a[2]), optU32(a[3])))
}

// w.gsi <ver> <pk> <wc> <sub|_> <net|_> <code>
func exWGsi(a []string) string {
	si, err := wallet.GenerateStateInit(h.MustUnHex(a[1]), wallet.Version(atoi(a[0])), optI32(a[4]), atoi(a[2]), optU32(a[3]))
	if err != nil {
		return "err"
	}
	c := boc.NewCell()
	if err := tlb.Marshal(c, si); err != nil {
		return "err"
	}
	return "ok " + h.Canon([]*boc.Cell{c})
}

// w.ctx <wc> <net>: the v5r1 wallet id observed in the data cell of a fresh wallet (bits 33..64), and the context id
// recovered from it
func exWCtx(a []string) string {
	net := int32(atoi64(a[1]))
	si, err := wallet.GenerateStateInit(make([]byte, 32), wallet.V5R1, &net, atoi(a[0]), nil)
	if err != nil {
		return "err"
	}
	d := si.Data.Value.Value
	d.ResetCounters()
	_ = d.Skip(33)
	id, err := d.ReadUint(32)
	if err != nil {
		return "err"
	}
	return fmt.Sprintf("%d %d", uint32(id)^uint32(net), id)
}

type sendRun struct {
	ver    wallet.Version
	w      wallet.Wallet
	chain  *scriptedChain
	tag    string
	hash   ton.Bits256
	err    error
	wait   time.Duration
	took   time.Duration
	stored uint32
}

func simpleMsgs(n int) []wallet.Sendable {
	ms := make([]wallet.Sendable, n)
	for i := range ms {
		var to ton.AccountID
		to.Address[0] = byte(i)
		to.Address[31] = byte(i >> 8)
		ms[i] = wallet.SimpleTransfer{Amount: tlb.Grams(1000 + i), Address: to, Comment: "m", Bounceable: i%2 == 0}
	}
	return ms
}

// runSend executes the common argument list  <ver> <seed> <pk> <wc|_> <sub|_> <net|_> <code> <state> <acctErr>
// <sendErr> <nMsgs> <waitMs> <polls>  against the real SendV2 with a scripted blockchain.
func runSend(a []string) *sendRun {
	r := &sendRun{ver: wallet.Version(atoi(a[0]))}
	r.chain = &scriptedChain{state: acctState(a[7]), acctErr: a[8] == "1", sendErr: a[9] == "1", polls: parsePolls(a[12]), cancelAt: -1}
	ctx := context.Background()
	if len(a) > 13 && a[13] != "_" {
		var cancel func()
		ctx, cancel = context.WithCancel(ctx)
		defer cancel()
		r.chain.cancelAt, r.chain.cancel = atoi(a[13]), cancel
	}
	w, err := wallet.New(keyFromSeed(a[1]), r.ver, r.chain, walletOpts(a[3], a[4], a[5])...)
	if err != nil {
		panic("wallet.New failed: " + err.Error())
	}
	r.w = w
	r.wait = time.Duration(atoi(a[11])) * time.Millisecond
	msgs := simpleMsgs(atoi(a[10]))
	func() {
		defer func() {
			if p := recover(); p != nil {
				r.tag = "panic"
			}
		}()
		t := time.Now()
		r.hash, r.err = w.SendV2(ctx, r.wait, msgs...)
		r.took = time.Since(t)
		if r.err != nil {
			r.tag = "err"
		} else {
			r.tag = "ok"
		}
	}()
	return r
}

// runSendStable: the model-compared lines assume the nominal schedule (poll i at i*wait/10). When the process was
// starved and the loop made fewer polls than the schedule has before the deadline, and one of the polls it never
// reached would have confirmed, the run says nothing about the code: repeat it (at most 4 times).
func runSendStable(a []string) *sendRun {
	var r *sendRun
	for try := 0; try < 4; try++ {
		r = runSend(a)
		if r.tag != "err" || r.wait == 0 || len(r.chain.sent) == 0 {
			return r
		}
		used, _ := storedSeqno(r.ver, a[7])
		stalled := false
		for i := len(r.chain.observed); i < 10 && i < len(r.chain.polls); i++ {
			if p := r.chain.polls[i]; !p.err && p.seqno > used {
				stalled = true
			}
		}
		if !stalled {
			return r
		}
	}
	return r
}

func exWSend(a []string) string {
	r := runSendStable(a)
	if len(r.chain.sent) == 0 {
		return r.tag + " sent=0"
	}
	if len(r.chain.sent) > 1 {
		return r.tag + " sent=" + fmt.Sprint(len(r.chain.sent))
	}
	si, err := parseSent(r.chain.sent[0])
	if err != nil {
		return r.tag + " sent=1 unparsable " + strings.ReplaceAll(err.Error(), " ", "_")
	}
	init := "0"
	if si.init != nil {
		init = "1"
		ih, err := si.init.Hash()
		self := r.w.GetAddress()
		if err != nil || string(ih) != string(self.Address[:]) {
			init = "X" // an init that is not this wallet's state-init
		}
	}
	sq := "-"
	if s, ok, err := bodySeqno(r.ver, si.body); err != nil {
		sq = "unreadable"
	} else if ok {
		sq = fmt.Sprint(s)
	}
	return fmt.Sprintf("%s sent=1 dest=%d:%s init=%s seqno=%s", r.tag, si.destWc, h.Hex(si.destAddr[:]), init, sq)
}

// ------------------------------------------------------------------------------------------- direct oracles

// go.addr.apis <ver> <seed> <wc|_> <sub|_> <net|_>: the address is the same through every API that yields it and is
// the hash of the state-init GenerateStateInit returns; the state-init carries the version's code.
// w.codehash <ver> <code>: the representation hash of the code cell the library ships for the version
func exWCodeHash(a []string) string {
	hs, err := wallet.GetCodeByVer(wallet.Version(atoi(a[0]))).Hash()
	if err != nil {
		return "err"
	}
	return "ok " + h.Hex(hs)
}

func goAddrApis(a []string) string {
	ver := wallet.Version(atoi(a[0]))
	key := keyFromSeed(a[1])
	pub := key.Public().(ed25519.PublicKey)
	w, err := wallet.New(key, ver, nil, walletOpts(a[2], a[3], a[4])...)
	if err != nil {
		return "FAIL new " + err.Error()
	}
	wc := 0
	if a[2] != "_" {
		wc = atoi(a[2])
	}
	g, err := wallet.GenerateWalletAddress(pub, ver, optI32(a[4]), wc, optU32(a[3]))
	if err != nil {
		return "FAIL gwa-err"
	}
	if g != w.GetAddress() {
		return fmt.Sprintf("FAIL apis-differ new=%v gwa=%v", w.GetAddress(), g)
	}
	// the caller's option list in another order and with overridden repetitions in front: last setting wins, order of
	// different options is irrelevant (applyOptions)
	opts := walletOpts(a[2], a[3], a[4])
	var perm []wallet.Option
	perm = append(perm, wallet.WithWorkchain(wc+77), wallet.WithSubWalletID(12345), wallet.WithNetworkGlobalID(-3))
	for i := len(opts) - 1; i >= 0; i-- {
		perm = append(perm, opts[i])
	}
	if a[2] == "_" {
		perm = append(perm, wallet.WithWorkchain(0))
	}
	if a[3] != "_" && a[4] != "_" { // only when both are given do the leading dummies get overridden
		w3, err := wallet.New(key, ver, nil, perm...)
		if err != nil {
			return "FAIL new-permuted " + err.Error()
		}
		if w3.GetAddress() != w.GetAddress() {
			return fmt.Sprintf("FAIL option-order-matters straight=%v permuted=%v", w.GetAddress(), w3.GetAddress())
		}
	}
	si, err := wallet.GenerateStateInit(pub, ver, optI32(a[4]), wc, optU32(a[3]))
	if err != nil {
		return "FAIL gsi-err"
	}
	c := boc.NewCell()
	if err := tlb.Marshal(c, si); err != nil {
		return "FAIL gsi-marshal"
	}
	hs, err := c.Hash()
	if err != nil || string(hs) != string(g.Address[:]) {
		return "FAIL address-is-not-stateinit-hash"
	}
	if int(g.Workchain) != wc {
		return "FAIL workchain"
	}
	si2, err := w.StateInit()
	if err != nil {
		return "FAIL stateinit-err"
	}
	c2 := boc.NewCell()
	if err := tlb.Marshal(c2, *si2); err != nil {
		return "FAIL stateinit-marshal"
	}
	if h2, _ := c2.Hash(); string(h2) != string(hs) {
		return "FAIL wallet-stateinit-differs"
	}
	if !si.Code.Exists || !si.Data.Exists || si.SplitDepth.Exists || si.Special.Exists || len(si.Library.Keys()) != 0 {
		return "FAIL stateinit-shape"
	}
	ch, _ := si.Code.Value.Value.Hash()
	if want := wallet.GetCodeHashByVer(ver); string(ch) != string(want[:]) {
		return "FAIL code-is-not-the-published-code"
	}
	return "ok"
}

// go.addr.distinct <ver> <seed> <wc> <sub> <net> <ver2> <seed2> <wc2> <sub2> <net2>: two parameter sets that
// differ in a field the version's initial state holds (key, version, workchain, sub-wallet id where the version has
// one, network id for v5) give different addresses; equal sets give equal addresses.
func goAddrDistinct(a []string) string {
	mk := func(x []string) (ton.AccountID, error) {
		return wallet.GenerateWalletAddress(keyFromSeed(x[1]).Public().(ed25519.PublicKey), wallet.Version(atoi(x[0])),
			optI32(x[4]), atoi(x[2]), optU32(x[3]))
	}
	p, err := mk(a[0:5])
	if err != nil {
		return "FAIL err1"
	}
	q, err := mk(a[5:10])
	if err != nil {
		return "FAIL err2"
	}
	same := true
	for i := 0; i < 5; i++ {
		if a[i] != a[5+i] {
			same = false
		}
	}
	if same != (p == q) {
		return fmt.Sprintf("FAIL distinctness same-params=%v same-address=%v", same, p == q)
	}
	return "ok"
}

// anchors: the literal (version, public key, address) triples of the repo's TestGenerateWalletAddress
var addrAnchors = []struct {
	ver       wallet.Version
	addr, key string
}{
	{wallet.V3R2, "0:f3a069b7fc4631da4401de03eddd7cd30caca618c6ad0e3ac3fa454370b73a96", "f96db56e72de2e84e0aef780428e439a6c84e0b27bc2b2591075785479f2e9c3"},
	{wallet.V4R1, "0:17afeaaa61cb575e3e340a296da6bf55bc6b996cfab1d9f87840b2b6dc4cf613", "6f58b9fecb87e847825a7ecf3ae1f32b5578eee156ac10b398e2f1d67c12ca05"},
	{wallet.V4R2, "0:8f2983152d1480ba6af25e087d672232080b294dc8992525e35e4ff6d601f405", "7843fd9de6cd858154d9a914b8c3cd0bf1dc5af3a0c1dd273586568fc4d1c002"},
}

// go.addr.anchor: the implementation still yields the literal addresses (the same keys also go through w.gwa, so the
// model is pinned to them as well)
func goAddrAnchor(a []string) string {
	for _, x := range addrAnchors {
		got, err := wallet.GenerateWalletAddress(h.MustUnHex(x.key), x.ver, nil, 0, nil)
		if err != nil || got.ToRaw() != x.addr {
			return "FAIL anchor " + x.ver.ToString()
		}
	}
	return "ok"
}

// go.codes.distinct: the published code cells of the supported versions have pairwise distinct hashes (the finite
// computation that turns "same code hash" of theorem address_injective into "same version")
func goCodesDistinct(a []string) string {
	seen := map[tlb.Bits256]wallet.Version{}
	for _, v := range supportedVers {
		hs := wallet.GetCodeHashByVer(v)
		if w, dup := seen[hs]; dup {
			return fmt.Sprintf("FAIL same-code-hash %v %v", w, v)
		}
		seen[hs] = v
	}
	return "ok"
}

// go.send.prop <same args as w.send>: the clauses of the property evaluated on the implementation alone.
func goSendProp(a []string) string {
	r := runSendStable(a)
	ver := r.ver
	state := a[7]
	self := r.w.GetAddress()
	for _, x := range r.chain.acctArgs {
		if x != self {
			return "FAIL account-state-asked-for-another-address"
		}
	}
	for _, x := range r.chain.seqArgs {
		if x != self {
			return "FAIL seqno-asked-for-another-address"
		}
	}
	n := atoi(a[10])
	if a[8] == "1" || n > maxMsgs(ver) {
		// refused (v1/v2 and a hand-built invalid account value panic earlier, in NextMessageParams)
		if r.tag == "ok" || len(r.chain.sent) != 0 {
			return "FAIL refused-send-reached-the-chain tag=" + r.tag
		}
		return "ok"
	}
	if ver <= wallet.V2R2 || state == "invalid" {
		return "ok" // not implemented for v1/v2; a hand-built invalid account value
	}
	stored, storedOK := storedSeqno(ver, state)
	if strings.HasPrefix(state, "active:") && !storedOK {
		if r.tag != "err" || len(r.chain.sent) != 0 {
			return "FAIL undecodable-data-not-refused"
		}
		return "ok"
	}
	if len(r.chain.sent) != 1 {
		return fmt.Sprintf("FAIL sent-count=%d tag=%s", len(r.chain.sent), r.tag)
	}
	si, err := parseSent(r.chain.sent[0])
	if err != nil {
		return "FAIL payload " + err.Error()
	}
	if int32(si.destWc) != self.Workchain && self.Workchain >= -128 && self.Workchain <= 127 {
		return "FAIL dest-workchain"
	}
	if si.destAddr != [32]byte(self.Address) {
		return "FAIL dest-is-not-self"
	}
	sq, hasSeq, err := bodySeqno(ver, si.body)
	if err != nil {
		return "FAIL body-seqno-unreadable"
	}
	switch {
	case strings.HasPrefix(state, "active:"):
		if si.init != nil {
			return "FAIL init-attached-to-active-account"
		}
		if hasSeq && sq != stored {
			return fmt.Sprintf("FAIL seqno got=%d stored=%d", sq, stored)
		}
	case state == "none" || state == "uninit":
		if si.init == nil {
			return "FAIL init-missing"
		}
		ih, _ := si.init.Hash()
		if string(ih) != string(self.Address[:]) {
			return "FAIL init-is-not-own-stateinit"
		}
		if hasSeq && sq != 0 {
			return "FAIL seqno-not-zero"
		}
	}
	// result of the call
	want := "ok"
	if a[9] == "1" {
		want = "err"
	} else if r.wait > 0 {
		if ver == wallet.HighLoadV2R2 {
			want = "err"
		} else {
			want = histVerdict(r, stored)
		}
	}
	if r.tag != want {
		return fmt.Sprintf("FAIL result got=%s want=%s polls=%d", r.tag, want, len(r.chain.observed))
	}
	if r.tag == "ok" {
		hs, _ := si.root.Hash()
		if string(hs) != string(r.hash[:]) {
			return "FAIL returned-hash-is-not-the-message-hash"
		}
	}
	return "ok"
}

// histVerdict: by the polls the scripted chain actually answered — success iff one of them returned, without error,
// a seqno larger than the one used.
func histVerdict(r *sendRun, used uint32) string {
	for _, p := range r.chain.observed {
		if !p.err && p.seqno > used {
			return "ok"
		}
	}
	return "err"
}

// storedSeqno: the seqno a well-formed data cell of the version holds (read by offset)
func storedSeqno(ver wallet.Version, state string) (uint32, bool) {
	if !strings.HasPrefix(state, "active:") {
		return 0, false
	}
	d := state[len("active:"):]
	if ver == wallet.HighLoadV2R2 {
		return 0, true // the highload wallet never reads its data
	}
	if d == "-" {
		return 0, false
	}
	rows := h.ParseTable(d)
	c := h.BuildCells(rows)[0]
	need, skip, width := 0, 0, 32
	switch ver {
	case wallet.V3R1, wallet.V3R2:
		need = 320
	case wallet.V4R1, wallet.V4R2:
		need = 321
	case wallet.V5R1:
		need, skip = 322, 1
	case wallet.V5Beta:
		need, width = 33+80+256+1, 33
	case wallet.HighLoadV2R2:
		return 0, true
	}
	if c.BitsAvailableForRead() < need || c.CellType() != boc.OrdinaryCell {
		return 0, false
	}
	// a set dictionary bit needs a well-formed dictionary: the generator only emits those together with tag "D"
	_ = c.Skip(skip)
	v, _ := c.ReadUint(width)
	if ver == wallet.V3R1 || ver == wallet.V3R2 {
		return uint32(v), true // DataV3 has no dictionary
	}
	_ = c.Skip(need - skip - width - 1)
	dict, _ := c.ReadBit()
	if dict && c.RefsAvailableForRead() == 0 {
		return 0, false
	}
	return uint32(v), true
}

// go.send.cancel <same args as w.send> <cancelAt>: with a blockchain implementation that honours the context, a send
// whose context is cancelled before call k never reports success unless a poll served BEFORE the cancellation showed
// the advance; cancelled before GetAccountState nothing is sent; the error is returned, never a panic.
func goSendCancel(a []string) string {
	r := runSend(a)
	k := atoi(a[13])
	if r.ver <= wallet.V2R2 || a[7] == "invalid" {
		return "ok"
	}
	if r.tag == "panic" {
		return "FAIL panic"
	}
	if k == 0 && (len(r.chain.sent) != 0 || r.tag != "err") {
		return "FAIL cancelled-before-account-state-but-sent"
	}
	stored, _ := storedSeqno(r.ver, a[7])
	confirmedBefore := false
	for i, p := range r.chain.observed {
		if 2+i < k && !p.err && p.seqno > stored {
			confirmedBefore = true
		}
	}
	if r.tag == "ok" && r.wait > 0 && !confirmedBefore {
		return "FAIL success-reported-after-cancellation"
	}
	if k <= 1 && r.tag == "ok" {
		return "FAIL success-although-send-was-cancelled"
	}
	return "ok"
}

// go.send.hist <same args as w.send>: the confirmation result agrees with the history the chain actually served,
// whatever the scheduling: ok iff some served poll returned a larger seqno without error; on timeout the deadline
// really passed.
func goSendHist(a []string) string {
	r := runSend(a)
	if r.tag == "panic" {
		return "FAIL panic"
	}
	stored, _ := storedSeqno(r.ver, a[7])
	want := histVerdict(r, stored)
	if r.tag != want {
		return fmt.Sprintf("FAIL confirmation got=%s history-says=%s polls-served=%d", r.tag, want, len(r.chain.observed))
	}
	if r.tag == "err" && r.took < r.wait {
		return "FAIL timeout-before-deadline"
	}
	if len(r.chain.observed) == 0 || len(r.chain.observed) > 12 {
		return fmt.Sprintf("FAIL poll-count=%d", len(r.chain.observed))
	}
	return "ok"
}

// --------------------------------------------------------------------------------------------------- generator

var wcChoices = []string{"_", "0", "-1", "1", "127", "-128", "255"}

func (cx *c15gen) seed() string { return h.Hex(cx.g.Bytes(32)) }

type c15gen struct{ g *h.G }

func pubOfSeed(seedHex string) string {
	return h.Hex(keyFromSeed(seedHex).Public().(ed25519.PublicKey))
}

func (cx *c15gen) sub() string {
	g := cx.g
	switch g.Rng.Intn(6) {
	case 0:
		return "_"
	case 1:
		return "0"
	case 2:
		return "4294967295"
	case 3:
		return "698983191"
	case 4:
		return fmt.Sprint(698983191 + g.Rng.Intn(3) - 1)
	}
	return fmt.Sprint(g.Rng.Uint32())
}

func (cx *c15gen) net() string {
	g := cx.g
	switch g.Rng.Intn(7) {
	case 0:
		return "_"
	case 1:
		return "-239"
	case 2:
		return "-3"
	case 3:
		return "0"
	case 4:
		return "2147483647"
	case 5:
		return "-2147483648"
	}
	return fmt.Sprint(int32(g.Rng.Uint32()))
}

func (cx *c15gen) wc() string { return wcChoices[cx.g.Rng.Intn(len(wcChoices))] }

// dataCellFor builds an on-chain data cell of the version holding `seqno`; kind selects well-formed / malformed.
func dataCellFor(g *h.G, ver wallet.Version, seqno uint64, kind int) string {
	c := boc.NewCell()
	pk := g.Bytes(32)
	switch ver {
	case wallet.V3R1, wallet.V3R2:
		_ = c.WriteUint(seqno, 32)
		_ = c.WriteUint(uint64(g.Rng.Uint32()), 32)
		_ = c.WriteBytes(pk)
	case wallet.V4R1, wallet.V4R2:
		_ = c.WriteUint(seqno, 32)
		_ = c.WriteUint(uint64(g.Rng.Uint32()), 32)
		_ = c.WriteBytes(pk)
	case wallet.V5R1:
		_ = c.WriteBit(g.Rng.Intn(2) == 0)
		_ = c.WriteUint(seqno, 32)
		_ = c.WriteUint(uint64(g.Rng.Uint32()), 32)
		_ = c.WriteBytes(pk)
	case wallet.V5Beta:
		_ = c.WriteUint(seqno, 33)
		_ = c.WriteBytes(g.Bytes(10))
		_ = c.WriteBytes(pk)
	case wallet.HighLoadV2R2:
		_ = c.WriteUint(uint64(g.Rng.Uint32()), 32)
		_ = c.WriteUint(0, 64)
		_ = c.WriteBytes(pk)
	}
	switch kind {
	case 0: // well-formed, empty dictionary
		if ver != wallet.V3R1 && ver != wallet.V3R2 {
			_ = c.WriteBit(false)
		}
	case 1: // dictionary bit set, a well-formed dictionary with 1..3 entries
		if ver == wallet.V3R1 || ver == wallet.V3R2 {
			_ = c.WriteUint(uint64(g.Rng.Intn(256)), 8) // trailing bits are ignored by DataV3
			break
		}
		_ = c.WriteBit(true)
		_ = c.AddRef(randDict(g, ver))
	case 2: // dictionary bit set, no ref
		if ver != wallet.V3R1 && ver != wallet.V3R2 {
			_ = c.WriteBit(true)
		}
	case 3: // truncated
		c2 := boc.NewCell()
		bs := c.RawBitString()
		n := g.Rng.Intn(c.BitSize() + 1)
		if g.Rng.Intn(3) == 0 {
			n = c.BitSize() - 1
		}
		for i := 0; i < n; i++ {
			b, _ := bs.ReadBit()
			_ = c2.WriteBit(b)
		}
		c = c2
	}
	return cellTable(c)
}

// randDict: a valid dictionary cell (Hashmap, not HashmapE) for the version's dictionary field, built by the
// library's own encoder from sorted keys.
func randDict(g *h.G, ver wallet.Version) *boc.Cell {
	n := 1 + g.Rng.Intn(3)
	c := boc.NewCell()
	switch ver {
	case wallet.V4R1, wallet.V4R2:
		keys := make([]tlb.Bits264, n)
		vals := make([]tlb.Any, n)
		for i := range keys {
			copy(keys[i][:], g.Bytes(33))
			keys[i][0] = byte(i * 60) // sorted, distinct
			v := boc.NewCell()
			_ = v.WriteUint(uint64(g.Rng.Intn(1<<16)), g.Rng.Intn(17))
			vals[i] = tlb.Any(*v)
		}
		if err := tlb.Marshal(c, tlb.NewHashmap(keys, vals)); err != nil {
			panic(err)
		}
	case wallet.V5R1:
		keys := make([]tlb.Bits256, n)
		vals := make([]tlb.Uint1, n)
		for i := range keys {
			copy(keys[i][:], g.Bytes(32))
			keys[i][0] = byte(i * 60)
			vals[i] = tlb.Uint1(g.Rng.Intn(2))
		}
		if err := tlb.Marshal(c, tlb.NewHashmap(keys, vals)); err != nil {
			panic(err)
		}
	default:
		keys := make([]tlb.Bits256, n)
		vals := make([]tlb.Uint8, n)
		for i := range keys {
			copy(keys[i][:], g.Bytes(32))
			keys[i][0] = byte(i * 60)
			vals[i] = tlb.Uint8(g.Rng.Intn(256))
		}
		if err := tlb.Marshal(c, tlb.NewHashmap(keys, vals)); err != nil {
			panic(err)
		}
	}
	return c
}

func genC15(g *h.G) {
	cx := &c15gen{g}
	genPrim(g, "prim.sha256")
	genSeeds(g)
	g.Emit("go.addr.anchor")
	g.Emit("go.codes.distinct")
	for _, x := range addrAnchors {
		g.Emit("w.gwa", fmt.Sprint(int(x.ver)), x.key, "0", "_", "_", codeTable(x.ver))
	}
	// the code cells hash as the model says (ties CellOrd.hashO to the real hash for the 12 code DAGs)
	for _, v := range supportedVers {
		g.Emit("cell.hash", codeTable(v))
		g.Emit("w.codehash", fmt.Sprint(int(v)), codeTable(v)) // every version's code pinned to the published hash
	}
	for _, wc := range []int{0, -1, 1, 127, -128, 255, 256, -129} {
		for _, net := range []int32{-239, -3, 0, 1, 2147483647, -2147483648} {
			g.Emit("w.ctx", fmt.Sprint(wc), fmt.Sprint(net))
		}
	}
	// ---- addresses
	nAddr := g.Scale(50, 1700)
	for i := 0; i < nAddr; i++ {
		seed := cx.seed()
		pk := pubOfSeed(seed)
		for _, v := range supportedVers {
			wc, sub, net := cx.wc(), cx.sub(), cx.net()
			vs := fmt.Sprint(int(v))
			g.Count("addr_ver_" + v.ToString())
			g.Count("addr_wc_" + wc)
			g.NonTrivial("addr/" + vs + "/" + seed + wc + sub + net)
			g.Emit("w.addr", vs, seed, pk, wc, sub, net, codeTable(v))
			wcx := wc
			if wcx == "_" {
				wcx = "0"
			}
			g.Emit("w.gwa", vs, pk, wcx, sub, net, codeTable(v))
			g.Emit("w.gsi", vs, pk, wcx, sub, net, codeTable(v))
			g.Emit("go.addr.apis", vs, seed, wc, sub, net)
			// a variation in exactly one field the version holds, or none
			a := []string{vs, seed, wcx, sub, net}
			b := append([]string{}, a...)
			switch k := g.Rng.Intn(6); k {
			case 0:
				b[1] = cx.seed()
			case 1:
				b[0] = fmt.Sprint(int(supportedVers[g.Rng.Intn(len(supportedVers))]))
			case 2:
				b[2] = wcChoices[1+g.Rng.Intn(len(wcChoices)-1)]
			case 3:
				if v >= wallet.V3R1 && v != wallet.V5R1 {
					b[3] = cx.sub()
					// the default sub-wallet id written explicitly is the same wallet
					if (a[3] == "_") != (b[3] == "_") {
						b[3] = a[3]
					}
				}
			case 4:
				if v == wallet.V5R1 || v == wallet.V5Beta {
					b[4] = cx.net()
					if (a[4] == "_") != (b[4] == "_") {
						b[4] = a[4]
					}
				}
			}
			g.Emit("go.addr.distinct", append(a, b...)...)
		}
	}
	// unsupported versions, odd key lengths through the public-key APIs
	for i := 0; i < g.Scale(20, 200); i++ {
		v := unsupportedVers[g.Rng.Intn(len(unsupportedVers))]
		pk := h.Hex(g.Bytes(32))
		g.Emit("w.gwa", fmt.Sprint(int(v)), pk, "0", "_", "_", "-")
		g.Emit("w.gsi", fmt.Sprint(int(v)), pk, "0", "_", "_", "-")
		v2 := supportedVers[g.Rng.Intn(len(supportedVers))]
		short := h.Hex(g.Bytes(g.Pick(0, 1, 16, 31, 33, 64)))
		g.Count("addr_odd_key_length")
		g.Emit("w.gwa", fmt.Sprint(int(v2)), short, "0", "_", "_", codeTable(v2))
		g.Emit("w.gsi", fmt.Sprint(int(v2)), short, "-1", "_", "_", codeTable(v2))
	}
	// ---- send
	nSend := g.Scale(150, 3000)
	seqChoices := []uint64{0, 1, 4294967295, 4294967294, 2147483648}
	for i := 0; i < nSend; i++ {
		v := sendVers[g.Rng.Intn(len(sendVers))]
		if g.Rng.Intn(12) == 0 {
			v = supportedVers[g.Rng.Intn(5)] // v1/v2: "implement me"
		}
		vs := fmt.Sprint(int(v))
		seed := cx.seed()
		pk := pubOfSeed(seed)
		wc, sub, net := cx.wc(), cx.sub(), cx.net()
		// account state
		var state string
		stored := uint64(0)
		switch k := g.Rng.Intn(10); {
		case k == 0:
			state = "none"
		case k == 1:
			state = "uninit"
		case k == 2:
			state = "frozen"
		case k == 3 && g.Rng.Intn(3) == 0:
			state = "invalid"
		default:
			stored = seqChoices[g.Rng.Intn(len(seqChoices))]
			if g.Rng.Intn(3) == 0 {
				stored = uint64(g.Rng.Uint32())
			}
			if v == wallet.V5Beta && g.Rng.Intn(4) == 0 {
				stored |= 1 << 32 // Uint33 truncated by uint32(...)
			}
			kind := 0
			if g.Rng.Intn(4) == 0 {
				kind = 1 + g.Rng.Intn(3)
			}
			if g.Rng.Intn(25) == 0 {
				state = "active:-"
			} else {
				state = "active:" + dataCellFor(g, v, stored, kind)
			}
			g.Count(fmt.Sprintf("send_active_kind_%d", kind))
		}
		g.Count("send_state_" + strings.SplitN(state, ":", 2)[0])
		g.Count("send_ver_" + v.ToString())
		acctErr, sendErr := "0", "0"
		if g.Rng.Intn(15) == 0 {
			acctErr = "1"
		}
		if g.Rng.Intn(10) == 0 {
			sendErr = "1"
		}
		n := g.Pick(0, 1, 1, 2, 4)
		if g.Rng.Intn(8) == 0 {
			n = g.Pick(5, maxMsgs(v), maxMsgs(v)+1, maxMsgs(v)+50)
		}
		used := uint32(stored)
		if !strings.HasPrefix(state, "active:") {
			used = 0
		}
		// confirmation history: 12 explicit polls
		wait := 0
		polls := "-"
		hist := "none"
		// every 8th case, deterministically: the seqno advances exactly at the poll that falls ON the deadline (poll 10 of
		// step wait/10): it is never served before the deadline, so the send must time out
		forced := i%8 == 3
		if forced || g.Rng.Intn(3) != 0 {
			wait = 300
			adv := -1 // index of the first good poll
			if forced {
				adv = 10
				hist = "advance_at_the_deadline_poll"
			}
			switch pick := g.Rng.Intn(4); {
			case forced:
			case pick == 0:
				hist = "never"
			case pick == 1 || pick == 2:
				adv = g.Rng.Intn(5)
				hist = fmt.Sprintf("advance_at_%d", adv+1)
			case pick == 3: // only far after the deadline
				adv = 11
				hist = "after_deadline"
			}
			var ps []string
			for k := 0; k < 12; k++ {
				e := g.Rng.Intn(4) == 0
				sq := used
				if g.Rng.Intn(3) == 0 && used > 0 {
					sq = used - 1
				}
				if e && g.Rng.Intn(2) == 0 {
					sq = used + 1 // an error answer carrying a larger number must not count
					if sq == 0 {
						sq = used
					}
				}
				if adv >= 0 && k >= adv {
					e = false
					sq = used + 1 + uint32(g.Rng.Intn(3))
					if sq <= used { // no larger uint32 exists
						sq = used
					}
				}
				es := "0"
				if e {
					es = "1"
				}
				ps = append(ps, fmt.Sprintf("%d:%s", sq, es))
			}
			polls = strings.Join(ps, ",")
		}
		g.Count("send_hist_" + hist)
		args := []string{vs, seed, pk, wc, sub, net, codeTable(v), state, acctErr, sendErr, fmt.Sprint(n), fmt.Sprint(wait), polls}
		g.NonTrivial("send/" + vs + state + hist + fmt.Sprint(n) + acctErr + sendErr)
		g.Emit("w.send", args...)
		g.Emit("go.send.prop", args...)
		if g.Rng.Intn(3) == 0 {
			k := g.Pick(0, 1, 2, 3, 4, 6, 11, 13)
			g.Count(fmt.Sprintf("send_cancel_at_%d", k))
			cargs := append(append([]string{}, args...), fmt.Sprint(k))
			// model comparison only where scheduling cannot matter: cancellation before the first poll, or no wait
			if k <= 2 || wait == 0 {
				g.Emit("w.sendc", cargs...)
			}
			g.Emit("go.send.cancel", cargs...)
		}
	}
	// histories whose verdict depends on scheduling: advancing at poll 1..12 — checked against what was served
	for i := 0; i < g.Scale(24, 240); i++ {
		v := sendVers[g.Rng.Intn(len(sendVers)-1)]
		seed := cx.seed()
		stored := uint64(g.Rng.Intn(1000))
		adv := i % 12
		var ps []string
		for k := 0; k < 12; k++ {
			switch {
			case k >= adv:
				ps = append(ps, fmt.Sprintf("%d:0", stored+1))
			case g.Rng.Intn(3) == 0:
				ps = append(ps, fmt.Sprintf("%d:1", stored+1))
			default:
				ps = append(ps, fmt.Sprintf("%d:0", stored))
			}
		}
		g.Count(fmt.Sprintf("hist_oracle_advance_at_%d", adv+1))
		g.Emit("go.send.hist", fmt.Sprint(int(v)), seed, pubOfSeed(seed), "_", "_", "_", codeTable(v),
			"active:"+dataCellFor(g, v, stored, 0), "0", "0", "1", "200", strings.Join(ps, ","))
	}
}
