//go:build c13

package main

// Property C13 — the connection pool picks a healthy, current server and its waits never hang.
//
// Part (a), selection: the REAL updateBest / BestMasterchainClient run over injected pool members (hook
// liteapi/pool/export_verif.go). `select.batch` enumerates a slice of the exhaustive grid and answers with a digest of
// the chosen ids (compared with the SPECIFICATION evaluated by the Lean driver); `go.select.rule` evaluates the
// property's rule directly in Go on the same slice and names the first configuration that breaks it.
// Part (b), wait protocol: see c13_wait.go.

import (
	"context"
	"fmt"
	"strconv"
	"strings"
	"time"

	"github.com/tonkeeper/tongo/liteapi/pool"
	"verifharness/h"
)

func init() {
	ex := map[string]h.ExecFn{
		"select.batch":   exSelectBatch,
		"select.one":     exSelectOne,
		"go.select.rule": goSelectRule,
		"go.select.one":  goSelectOne,
		"selectmv.run":   exSelectMoving,
		"pool.start":     exPoolStart,
		"go.pool.order":  goPoolOrder,
		"go.selectmv":    goSelectMoving,
	}
	for k, v := range waitExec {
		ex[k] = v
	}
	h.Register(&h.Prop{ID: "C13", Gen: genC13, Exec: ex})
}

var seqnoTab = []uint32{0, 1, 2, 3, 0xFFFFFFFE, 0xFFFFFFFF}

type member struct {
	alive bool
	seqno uint32
	rtt   int64
}

func memberOfCode(code int) member {
	return member{alive: code/18 == 1, seqno: seqnoTab[(code/3)%6], rtt: int64(code%3 + 1)}
}

func atoi(s string) int {
	v, err := strconv.Atoi(s)
	if err != nil {
		panic("bad int arg " + s)
	}
	return v
}

type selPool struct {
	p  *pool.ConnPool
	vs []*pool.VerifConn
}

func newSelPool(strategy string, n int) *selPool {
	// every pool is built through the REAL addConnection; the members arrive in reverse order of the configuration,
	// so the order of p.conns is what addConnection's sort makes of it
	p, vs := pool.VerifNewPoolArriving(strategy, arrivalFirst(n-1, n))
	return &selPool{p: p, vs: vs}
}

func (s *selPool) set(i int, m member) {
	s.vs[i].VerifSetAlive(m.alive)
	s.vs[i].VerifSetRTT(time.Duration(m.rtt))
	s.vs[i].VerifSetHeadSilently(m.seqno)
}

var cancelled = func() context.Context {
	c, f := context.WithCancel(context.Background())
	f()
	return c
}()

// refresh runs the real updateBest from the given previous choice and observes the result through the accessor and,
// when the chosen member has a non-zero head, also through the public BestMasterchainClient (client identity and
// head). Returns the chosen id, -1 for none, -2 when the two observations disagree.
func (s *selPool) refresh(prev int) int {
	if prev < 0 {
		s.p.VerifSetBest(nil)
	} else {
		s.p.VerifSetBest(s.vs[prev])
	}
	s.p.VerifUpdateBest()
	id := s.p.VerifBestID()
	if id >= 0 {
		if hs := s.vs[id].VerifHeadSeqno(); hs > 0 {
			cli, head, err := s.p.BestMasterchainClient(cancelled)
			if err != nil || !s.vs[id].VerifIsClient(cli) || head.Seqno != hs {
				return -2
			}
		}
	} else if _, _, err := s.p.BestMasterchainClient(cancelled); err != pool.ErrNoConnections {
		return -2
	}
	return id
}

// ruleSelect is the property's rule, stated directly: W = members that are alive and at most one block behind the
// newest head of ANY member (in unbounded arithmetic); best-ping: least rtt, earliest among ties; first-working:
// first of W; W empty (or unknown strategy): previous choice.
func ruleSelect(strategy string, ms []member, prev int) int {
	if strategy != pool.BestPingStrategy && strategy != pool.FirstWorkingConnection {
		return prev
	}
	var max uint64
	for _, m := range ms {
		if uint64(m.seqno) > max {
			max = uint64(m.seqno)
		}
	}
	best := -1
	for i, m := range ms {
		if !m.alive || uint64(m.seqno)+1 < max {
			continue
		}
		if strategy == pool.FirstWorkingConnection {
			return i
		}
		if best < 0 || m.rtt < ms[best].rtt {
			best = i
		}
	}
	if best < 0 {
		return prev
	}
	return best
}

// forBatch enumerates the slice of the grid named by (n, fixed codes): the last min(n,2) members range over all 36
// codes each, lexicographically.
func forBatch(strategy string, n int, fixed []int, f func(s *selPool, ms []member) bool) (int, bool) {
	k := n - len(fixed)
	if n <= 0 || k < 0 || k > 2 {
		return 0, false
	}
	s := newSelPool(strategy, n)
	ms := make([]member, n)
	for i, c := range fixed {
		ms[i] = memberOfCode(c)
		s.set(i, ms[i])
	}
	cnt := 0
	switch k {
	case 0:
		cnt++
		f(s, ms)
	case 1:
		for a := 0; a < 36; a++ {
			ms[n-1] = memberOfCode(a)
			s.set(n-1, ms[n-1])
			cnt++
			if !f(s, ms) {
				return cnt, true
			}
		}
	case 2:
		for a := 0; a < 36; a++ {
			ms[n-2] = memberOfCode(a)
			s.set(n-2, ms[n-2])
			for b := 0; b < 36; b++ {
				ms[n-1] = memberOfCode(b)
				s.set(n-1, ms[n-1])
				cnt++
				if !f(s, ms) {
					return cnt, true
				}
			}
		}
	}
	return cnt, true
}

func parseBatch(a []string) (string, int, int, []int) {
	fixed := []int{}
	for _, x := range a[3:] {
		fixed = append(fixed, atoi(x))
	}
	return a[0], atoi(a[1]), atoi(a[2]), fixed
}

// select.batch <strategy> <prev> <n> <fixed codes...>  ->  ok <count> <digest>
func exSelectBatch(a []string) string {
	st, prev, n, fixed := parseBatch(a)
	hsh := uint64(14695981039346656037)
	cnt, ok := forBatch(st, n, fixed, func(s *selPool, ms []member) bool {
		hsh = (hsh ^ uint64(s.refresh(prev)+1)) * 1099511628211
		return true
	})
	if !ok {
		return "bad-op"
	}
	return fmt.Sprintf("ok %d %d", cnt, hsh)
}

func cfgString(ms []member) string {
	var sb strings.Builder
	for i, m := range ms {
		if i > 0 {
			sb.WriteByte(' ')
		}
		al := 0
		if m.alive {
			al = 1
		}
		fmt.Fprintf(&sb, "%d:%d:%d", al, m.seqno, m.rtt)
	}
	return sb.String()
}

// go.select.rule <strategy> <prev> <n> <fixed codes...>: the property's rule on every configuration of the slice.
func goSelectRule(a []string) string {
	st, prev, n, fixed := parseBatch(a)
	fail := ""
	_, ok := forBatch(st, n, fixed, func(s *selPool, ms []member) bool {
		got, want := s.refresh(prev), ruleSelect(st, ms, prev)
		if got != want {
			fail = fmt.Sprintf("FAIL rule got=%d want=%d strategy=%s prev=%d conns(alive:seqno:rtt)=[%s]", got, want, st, prev, cfgString(ms))
			return false
		}
		return true
	})
	if !ok {
		return "bad-op"
	}
	if fail != "" {
		return fail
	}
	return "ok"
}

func parseMembers(a []string) []member {
	ms := make([]member, len(a))
	for i, x := range a {
		f := strings.Split(x, ":")
		if len(f) != 3 {
			panic("bad member " + x)
		}
		q, err := strconv.ParseUint(f[1], 10, 32)
		if err != nil {
			panic("bad seqno " + x)
		}
		r, err := strconv.ParseInt(f[2], 10, 64)
		if err != nil {
			panic("bad rtt " + x)
		}
		ms[i] = member{alive: f[0] == "1", seqno: uint32(q), rtt: r}
	}
	return ms
}

func runOne(a []string) (string, int, []member, int) {
	st, prev := a[0], atoi(a[1])
	ms := parseMembers(a[2:])
	s := newSelPool(st, len(ms))
	for i, m := range ms {
		s.set(i, m)
	}
	if prev >= len(ms) {
		prev = -1
	}
	return st, prev, ms, s.refresh(prev)
}

// select.one <strategy> <prev> <alive:seqno:rtt>...  ->  ok <id | -1>
func exSelectOne(a []string) string {
	_, _, _, got := runOne(a)
	return fmt.Sprintf("ok %d", got)
}

func goSelectOne(a []string) string {
	st, prev, ms, got := runOne(a)
	if want := ruleSelect(st, ms, prev); got != want {
		return fmt.Sprintf("FAIL rule got=%d want=%d", got, want)
	}
	return "ok"
}

// genC13 interleaves the (timing-sensitive, slower) wait-protocol lines with the grid lines so that the
// orchestrator's contiguous chunks carry equal shares of them.
// ---------------------------------------------------------------------------------- selection against moving heads

type mvRead struct {
	conn  int
	seqno uint32
}

// runMoving runs ONE real updateBest while heads move: a move "m<k>:<conn>:<seqno>" is a SetMasterHead(conn, seqno)
// executed just before the k-th MasterHead() call (0-based) that updateBest makes through the conn interface (gate
// "head"); every value updateBest reads is recorded (gate "head.done"). args: <strategy> <prev> <alive:seqno:rtt>...
// m<k>:<conn>:<seqno>... r<i>:<conn>:<rtt>... (r: the round-trip time of <conn> changes just before the refresh reads
// member i; the returned members carry the round-trip time each member has at ITS OWN turn)
func runMoving(a []string) (st string, prev int, ms []member, reads []mvRead, got int) {
	defer func() {
		for turn := 0; turn < len(ms); turn++ { // in the order in which the changes happen
			for _, x := range a[2:] {
				if strings.HasPrefix(x, "r") {
					f := strings.Split(x[1:], ":")
					if i, c := atoi(f[0]), atoi(f[1]); i == turn && c < len(ms) && i <= c {
						ms[c].rtt = int64(atoi(f[2]))
					}
				}
			}
		}
	}()
	st, prev = a[0], atoi(a[1])
	var mem, moves, rmoves []string
	for _, x := range a[2:] {
		switch {
		case strings.HasPrefix(x, "m"):
			moves = append(moves, x[1:])
		case strings.HasPrefix(x, "r"):
			rmoves = append(rmoves, x[1:])
		default:
			mem = append(mem, x)
		}
	}
	ms = parseMembers(mem)
	s := newSelPool(st, len(ms))
	for i, m := range ms {
		s.set(i, m)
	}
	if prev >= len(ms) {
		prev = -1
	}
	if prev < 0 {
		s.p.VerifSetBest(nil)
	} else {
		s.p.VerifSetBest(s.vs[prev])
	}
	calls := 0
	active := true
	for _, v := range s.vs {
		v.VerifSetGate(func(point string, id int) {
			if !active {
				return
			}
			switch point {
			case "head":
				for _, mv := range moves {
					f := strings.Split(mv, ":")
					if atoi(f[0]) == calls {
						q, _ := strconv.ParseUint(f[2], 10, 32)
						s.vs[atoi(f[1])].SetMasterHead(pool.VerifHead(uint32(q)))
					}
				}
				// the refresh is about to read member <calls>: round-trip times change now
				for _, mv := range rmoves {
					f := strings.Split(mv, ":")
					if atoi(f[0]) == calls {
						s.vs[atoi(f[1])].VerifSetRTT(time.Duration(atoi(f[2])))
					}
				}
				calls++
			case "head.done":
				reads = append(reads, mvRead{id, s.vs[id].VerifHeadSeqno()})
			}
		})
	}
	s.p.VerifUpdateBest()
	active = false
	return st, prev, ms, reads, s.p.VerifBestID()
}

// selectmv.run ...  ->  ok <chosen id | -1>   (compared with the transition system PoolSM running the same moves)
func exSelectMoving(a []string) string {
	_, _, _, _, got := runMoving(a)
	return fmt.Sprintf("ok %d", got)
}

// go.selectmv: the property's rule against moving heads, judged on what the refresh itself has read: the chosen
// member must be alive and at most one block behind the NEWEST head the pool read during this refresh (whichever
// pass read it), with the strategy's order among such members; none such: previous choice kept.
func goSelectMoving(a []string) string {
	st, prev, ms, reads, got := runMoving(a)
	last := make([]int64, len(ms))
	for i := range last {
		last[i] = -1
	}
	var max uint64
	for _, r := range reads {
		last[r.conn] = int64(r.seqno)
		if uint64(r.seqno) > max {
			max = uint64(r.seqno)
		}
	}
	want := prev
	if st == pool.BestPingStrategy || st == pool.FirstWorkingConnection {
		best := -1
		for i, m := range ms {
			if !m.alive || last[i] < 0 || uint64(last[i])+1 < max {
				continue
			}
			if st == pool.FirstWorkingConnection {
				best = i
				break
			}
			if best < 0 || m.rtt < ms[best].rtt {
				best = i
			}
		}
		if best >= 0 {
			want = best
		}
	}
	if got != want {
		return fmt.Sprintf("FAIL rule-moving got=%d want=%d newest-head-read=%d reads(conn:seqno)=%v", got, want, max, reads)
	}
	return "ok"
}

func genSelectMoving(g *h.G, out func(op string, args ...string)) {
	emit := func(args ...string) {
		out("selectmv.run", args...)
		out("go.selectmv", args...)
		g.NonTrivial("moving " + strings.Join(args, " "))
	}
	// the two-pass witness: after the max pass member 1 moves 10 -> 12 and member 0 moves 5 -> 9
	emit(pool.BestPingStrategy, "-1", "1:5:1", "1:10:2", "m2:1:12", "m2:0:9")
	emit(pool.FirstWorkingConnection, "1", "1:5:1", "1:10:2", "m2:1:12", "m2:0:9")
	// the incumbent's round-trip time changes after it has been compared once: A(5) B(6) C(7), A -> 10 before C's turn
	emit(pool.BestPingStrategy, "-1", "1:5:5", "1:5:6", "1:5:7", "r2:0:10")
	n := g.Scale(300, 6000)
	for k := 0; k < n; k++ {
		nc := 1 + g.Rng.Intn(4)
		base := uint32(g.Rng.Intn(6))
		if g.Rng.Intn(10) == 0 {
			base = 0xFFFFFFF0
		}
		args := []string{[]string{pool.BestPingStrategy, pool.FirstWorkingConnection}[g.Rng.Intn(2)], fmt.Sprint(g.Rng.Intn(nc+1) - 1)}
		heads := make([]uint32, nc)
		for i := 0; i < nc; i++ {
			heads[i] = base + uint32(g.Rng.Intn(4))
			alive := 1
			if g.Rng.Intn(5) == 0 {
				alive = 0
			}
			args = append(args, fmt.Sprintf("%d:%d:%d", alive, heads[i], 1+g.Rng.Intn(3)))
		}
		nm := g.Rng.Intn(6)
		for j := 0; j < nm; j++ {
			c := g.Rng.Intn(nc)
			heads[c] += uint32(1 + g.Rng.Intn(3))
			args = append(args, fmt.Sprintf("m%d:%d:%d", g.Rng.Intn(2*nc+1), c, heads[c]))
		}
		for j, nr := 0, g.Rng.Intn(3); j < nr; j++ {
			args = append(args, fmt.Sprintf("r%d:%d:%d", g.Rng.Intn(nc), g.Rng.Intn(nc), 1+g.Rng.Intn(4)))
		}
		g.Count(fmt.Sprintf("moving_members_%d", nc))
		emit(args...)
	}
}

// arrivalFirst: `first` arrives first (it becomes the initial best connection), then the others from the last to the
// first of the configuration.
func arrivalFirst(first, n int) []int {
	var a []int
	if first >= 0 && first < n {
		a = append(a, first)
	}
	for i := n - 1; i >= 0; i-- {
		if i != first {
			a = append(a, i)
		}
	}
	return a
}

func parseArrival(s string) []int {
	var a []int
	for _, x := range strings.Split(s, ".") {
		a = append(a, atoi(x))
	}
	return a
}

// pool.start <arrival ids a.b.c>  ->  ok <member ids in p.conns order> best=<id>   (compared with PoolSM.startPool)
func exPoolStart(a []string) string {
	arr := parseArrival(a[0])
	p, _ := pool.VerifNewPoolArriving(pool.FirstWorkingConnection, arr)
	ids := p.VerifMemberIDs()
	out := make([]string, len(ids))
	for i, x := range ids {
		out[i] = fmt.Sprint(x)
	}
	return fmt.Sprintf("ok %s best=%d", strings.Join(out, "."), p.VerifBestID())
}

// go.pool.order <strategy> <arrival>: pool start-up judged directly. Whatever the order of arrival: the members are
// in configuration order, the first connection that arrived is the best one before any refresh (so BestMasterchainClient
// and WaitMasterchainSeqno work at once), and a refresh over equally good members (all alive, same head, same rtt)
// chooses the FIRST one of the configuration under both strategies.
func goPoolOrder(a []string) string {
	st, arr := a[0], parseArrival(a[1])
	p, vs := pool.VerifNewPoolArriving(st, arr)
	for i, id := range p.VerifMemberIDs() {
		if id != i {
			return fmt.Sprintf("FAIL order members=%v after arrival %v: not the configuration order", p.VerifMemberIDs(), arr)
		}
	}
	if got := p.VerifBestID(); got != arr[0] {
		return fmt.Sprintf("FAIL initial-best got=%d want=%d (the first connection that arrived) arrival=%v", got, arr[0], arr)
	}
	for _, v := range vs {
		v.VerifSetAlive(true)
		v.VerifSetRTT(5)
		v.VerifSetHeadSilently(7)
	}
	// before the first refresh the pool already serves its callers
	if cli, head, err := p.BestMasterchainClient(cancelled); err != nil || !vs[arr[0]].VerifIsClient(cli) || head.Seqno != 7 {
		return fmt.Sprintf("FAIL start BestMasterchainClient before the first refresh: err=%v head=%d", err, head.Seqno)
	}
	res := make(chan string, 1)
	go func() {
		defer func() {
			if r := recover(); r != nil {
				res <- fmt.Sprintf("FAIL start WaitMasterchainSeqno before the first refresh panics: %v", r)
			}
		}()
		if err := p.WaitMasterchainSeqno(context.Background(), 7, time.Second); err != nil {
			res <- fmt.Sprintf("FAIL start WaitMasterchainSeqno(7) before the first refresh: %v", err)
			return
		}
		res <- ""
	}()
	if r := <-res; r != "" {
		return r
	}
	p.VerifUpdateBest()
	if got := p.VerifBestID(); got != 0 {
		return fmt.Sprintf("FAIL first-of-equals strategy=%s got=%d want=0 members=%v", st, got, p.VerifMemberIDs())
	}
	return "ok"
}

func genPoolStart(g *h.G, out func(op string, args ...string)) {
	perms := [][]int{{0}, {0, 1}, {1, 0}, {0, 1, 2}, {2, 1, 0}, {1, 2, 0}, {2, 0, 1}, {3, 1, 0, 2}, {2, 3, 0, 1}, {0, 3, 2, 1}}
	for k := 0; k < g.Scale(20, 200); k++ {
		n := 1 + g.Rng.Intn(6)
		perms = append(perms, g.Rng.Perm(n))
	}
	for _, pm := range perms {
		xs := make([]string, len(pm))
		for i, x := range pm {
			xs[i] = fmt.Sprint(x)
		}
		arr := strings.Join(xs, ".")
		out("pool.start", arr)
		out("go.pool.order", pool.BestPingStrategy, arr)
		out("go.pool.order", pool.FirstWorkingConnection, arr)
		g.NonTrivial("start " + arr)
	}
}

func genC13(g *h.G) {
	var q []func()
	collect := func(op string, args ...string) {
		a := append([]string{}, args...)
		q = append(q, func() { g.Emit(op, a...) })
	}
	genPoolStart(g, collect)
	genSelectMoving(g, collect)
	genWait(g, collect)
	n := 0
	genSelect(g, func() {
		n++
		if n%20 == 0 && len(q) > 0 {
			q[0]()
			q = q[1:]
		}
	})
	for _, f := range q {
		f()
	}
}

func genSelect(g *h.G, tick func()) {
	strategies := []string{pool.BestPingStrategy, pool.FirstWorkingConnection}
	emitBoth := func(args ...string) {
		g.Emit("select.batch", args...)
		tick()
		g.Emit("go.select.rule", args...)
		tick()
	}
	// the exhaustive grid: 1..4 members x 36 codes each x 2 strategies x previous choice (none or any member)
	for n := 1; n <= 4; n++ {
		for _, st := range strategies {
			for prev := -1; prev < n; prev++ {
				var rec func(fixed []string)
				rec = func(fixed []string) {
					if len(fixed) == n-2 || n <= 2 {
						args := append([]string{st, fmt.Sprint(prev), fmt.Sprint(n)}, fixed...)
						emitBoth(args...)
						g.NonTrivial(strings.Join(args, " "))
						k := n - len(fixed)
						cnt := 1
						for i := 0; i < k; i++ {
							cnt *= 36
						}
						g.Counters[fmt.Sprintf("grid_configs_n%d", n)] += cnt
						g.Counters["grid_configs_total"] += cnt
						return
					}
					for c := 0; c < 36; c++ {
						rec(append(append([]string{}, fixed...), fmt.Sprint(c)))
					}
				}
				rec(nil)
			}
		}
	}
	// beyond the grid: random configurations of 1..8 members with arbitrary heads and round-trip times (sampled),
	// an unknown strategy, negative durations
	n := g.Scale(4000, 60000)
	for i := 0; i < n; i++ {
		k := 1 + g.Rng.Intn(8)
		st := strategies[g.Rng.Intn(2)]
		if g.Rng.Intn(40) == 0 {
			st = "round-robin"
		}
		base := uint32(g.U64())
		args := []string{st, fmt.Sprint(g.Rng.Intn(k+1) - 1)}
		key := st
		for j := 0; j < k; j++ {
			q := base + uint32(g.Rng.Intn(5)) - 2
			r := int64(g.Rng.Intn(4))
			if g.Rng.Intn(30) == 0 {
				r = -r
			}
			alive := 1
			if g.Rng.Intn(4) == 0 {
				alive = 0
			}
			m := fmt.Sprintf("%d:%d:%d", alive, q, r)
			args = append(args, m)
			key += " " + m
		}
		g.Count(fmt.Sprintf("random_members_%d", k))
		g.NonTrivial(key)
		g.Emit("select.one", args...)
		g.Emit("go.select.one", args...)
	}
}
